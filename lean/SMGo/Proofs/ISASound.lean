/-
  Soundness of the taint checker of SMGo/Model/ISA.lean (property C09).

  `taint_sound`: if `checkInv prog inv declass = true`, then for ANY data semantics two executions that start at
  the same pc, agree on the argument frame, on the untainted registers/flags (per `inv pc`) and take the same
  decision at the declassified branch pcs produce the same observations (pc, touched addresses, gating masks),
  for every number of steps.  Memory contents and tainted registers may differ arbitrarily.
-/
import SMGo.Model.ISA

namespace SMGo.Proofs.ISASound
open SMGo.Model.ISA

/-! ## Bit sets -/

theorem idx_inj {r r' : Reg} (h : r.idx = r'.idx) : r = r' := by
  cases r <;> cases r' <;> simp [Reg.idx] at h <;> first | (congr 1; omega) | omega

theorem idx_pos (r : Reg) : 0 < r.idx := by cases r <;> simp [Reg.idx]

theorem testBit_regBit (r : Reg) (j : Nat) : (regBit r).testBit j = decide (r.idx = j) := by
  simp [regBit, Nat.one_shiftLeft, Nat.testBit_two_pow]

theorem testBit_maskOf (l : List Reg) (j : Nat) :
    (maskOf l).testBit j = true ↔ ∃ r ∈ l, r.idx = j := by
  induction l with
  | nil => simp [maskOf]
  | cons r rs ih => simp [maskOf, Nat.testBit_or, testBit_regBit, ih]

theorem testBit_maskOf_mem {l : List Reg} {r : Reg} (h : r ∈ l) : (maskOf l).testBit r.idx = true :=
  (testBit_maskOf l r.idx).2 ⟨r, h, rfl⟩

theorem maskOf_bit0 (l : List Reg) : (maskOf l).testBit 0 = false := by
  cases h : (maskOf l).testBit 0 with
  | false => rfl
  | true =>
    obtain ⟨r, _, hr⟩ := (testBit_maskOf l 0).1 h
    have := idx_pos r; omega

theorem testBit_flagBit (b : Bool) (j : Nat) : (bif b then 1 else 0 : Nat).testBit j = (b && decide (j = 0)) := by
  cases b <;> cases j <;> simp [Nat.testBit_succ]

theorem writeMask_bit0 (e : Eff) : (writeMask e).testBit 0 = e.wf := by
  simp only [writeMask, Nat.testBit_or, maskOf_bit0, testBit_flagBit, Bool.false_or]
  simp

theorem readMask_bit0 (e : Eff) : (readMask e).testBit 0 = e.rf := by
  simp only [readMask, Nat.testBit_or, maskOf_bit0, testBit_flagBit, Bool.false_or]
  simp

theorem subset_testBit {A B : Nat} (h : subset A B = true) {j : Nat} (hj : A.testBit j = true) :
    B.testBit j = true := by
  have h' : A &&& B = A := Nat.eq_of_beq_eq_true h
  have := congrArg (fun x => Nat.testBit x j) h'
  simp [Nat.testBit_and, hj] at this
  exact this

theorem and_zero_testBit {T M : Nat} (h : T &&& M = 0) {j : Nat} (hj : M.testBit j = true) :
    T.testBit j = false := by
  have := congrArg (fun x => Nat.testBit x j) h
  simp [Nat.testBit_and, hj] at this
  exact this

theorem lt_limit_testBit {M : Nat} (h : M < 2 ^ 128) {j : Nat} (hj : M.testBit j = true) : j < 128 := by
  by_cases hlt : j < 128
  · exact hlt
  · have h1 : 2 ^ j ≤ M := Nat.ge_two_pow_of_testBit hj
    have h2 : 2 ^ 128 ≤ 2 ^ j := Nat.pow_le_pow_right (by decide) (by omega)
    omega

theorem regLimit_eq : regLimit = 2 ^ 128 := by decide

theorem applyWrite_testBit (b : Bool) (T W j : Nat) :
    (applyWrite b T W).testBit j = (bif b then (T.testBit j || W.testBit j) else (T.testBit j && !W.testBit j)) := by
  cases b
  · simp only [applyWrite, cond_false, Nat.testBit_xor, Nat.testBit_and]
    cases T.testBit j <;> cases W.testBit j <;> rfl
  · simp [applyWrite, Nat.testBit_or]

/-! ## Agreement of two states on the public part -/

/-- `s1` and `s2` agree on the argument frame and on every architectural register / the flags not in `T`. -/
structure Agree (T : Nat) (s1 s2 : State) : Prop where
  frame : s1.frame = s2.frame
  flags : T.testBit 0 = false → s1.flags = s2.flags
  regs : ∀ r : Reg, r.idx < 128 → T.testBit r.idx = false → s1.regs r = s2.regs r

theorem Agree.mono {T T2 : Nat} {a b : State} (h : ∀ j, T.testBit j = true → T2.testBit j = true)
    (hag : Agree T a b) : Agree T2 a b := by
  refine ⟨hag.frame, fun h0 => hag.flags ?_, fun r hr hT => hag.regs r hr ?_⟩
  · cases hb : T.testBit 0 with
    | false => rfl
    | true => rw [h 0 hb] at h0; exact absurd h0 (by decide)
  · cases hb : T.testBit r.idx with
    | false => rfl
    | true => rw [h _ hb] at hT; exact absurd hT (by decide)

/-! ## Register file updates -/

theorem writeRegs_not_mem (regs : Reg → Nat) (ws : List Reg) (vs : List Nat) (r : Reg) (h : r ∉ ws) :
    writeRegs regs ws vs r = regs r := by
  induction ws generalizing regs vs with
  | nil => rfl
  | cons w ws ih =>
    simp only [List.mem_cons, not_or] at h
    simp only [writeRegs]
    rw [ih _ _ h.2]
    simp [h.1]

theorem writeRegs_congr (regs1 regs2 : Reg → Nat) (ws : List Reg) (vs : List Nat) (r : Reg)
    (h : r ∉ ws → regs1 r = regs2 r) : writeRegs regs1 ws vs r = writeRegs regs2 ws vs r := by
  induction ws generalizing regs1 regs2 vs with
  | nil => exact h (by simp)
  | cons w ws ih =>
    simp only [writeRegs]
    apply ih
    intro hr
    by_cases hw : r = w
    · simp [hw]
    · simp only [hw, if_false]
      exact h (by simp [hw, hr])

/-! ## Program lookup -/

theorem fetchFrom_check {chk : Instr → Option Nat → Bool} {prog : List Instr} {nx0 : Option Nat}
    (h : checkFrom chk prog nx0 = true) {pc : Nat} {i : Instr} {nx : Option Nat}
    (hf : fetchFrom prog nx0 pc = some (i, nx)) : chk i nx = true ∧ i.pc = pc := by
  induction prog with
  | nil => simp [fetchFrom] at hf
  | cons j rest ih =>
    simp only [checkFrom, Bool.and_eq_true] at h
    simp only [fetchFrom] at hf
    split at hf
    · rename_i hc
      simp only [Option.some.injEq, Prod.mk.injEq] at hf
      obtain ⟨rfl, rfl⟩ := hf
      exact ⟨h.1, hc.1⟩
    · exact ih h.2 hf

/-! ## One step -/

/-- The facts `checkInstr` establishes about one instruction (as propositions). -/
structure Checked (inv : Nat → Nat) (declass : List Nat) (i : Instr) (e : Eff) (nx : Option Nat) : Prop where
  lim : readMask e ||| writeMask e ||| addrMask e < 2 ^ 128
  addr : inv i.pc &&& addrMask e = 0
  br : e.kind = .jcc → (inv i.pc).testBit 0 = false ∨ i.pc ∈ declass
  succ : ∀ sem s p, nextPcOf sem i e nx s = some p → subset (transfer e (inv i.pc)) (inv p) = true

theorem checked_of_checkInstr {inv : Nat → Nat} {declass : List Nat} {hasPc : Nat → Bool} {i : Instr} {nx : Option Nat}
    (h : checkInstr inv declass hasPc i nx = true) : ∃ e, effOf i = some e ∧ Checked inv declass i e nx := by
  unfold checkInstr at h
  cases he : effOf i with
  | none => simp [he] at h
  | some e =>
    simp only [he, Bool.and_eq_true] at h
    obtain ⟨⟨h1, h2⟩, h3⟩ := h
    refine ⟨e, rfl, ?_, ?_, ?_, ?_⟩
    · have := Nat.le_of_ble_eq_true h1
      rw [regLimit_eq] at this
      omega
    · exact Nat.eq_of_beq_eq_true h2
    · intro hk
      simp only [checkKind, hk, Bool.and_eq_true, Bool.or_eq_true, Bool.not_eq_true'] at h3
      rcases h3.1.1 with h0 | hd
      · exact Or.inl h0
      · exact Or.inr (by simpa using hd)
    · intro sem s p hp
      unfold nextPcOf at hp
      unfold checkKind at h3
      cases hk : e.kind with
      | seq =>
        simp only [hk] at hp h3
        subst hp
        simpa [okNext] using h3
      | jmp =>
        simp only [hk] at hp h3
        rw [hp] at h3
        simp only [okTarget, Bool.and_eq_true] at h3
        exact h3.2
      | jcc =>
        simp only [hk, Bool.and_eq_true] at hp h3
        split at hp
        · rw [hp] at h3
          simp only [okTarget, Bool.and_eq_true] at h3
          exact h3.1.2.2
        · subst hp
          simpa [okNext] using h3.2
      | ret => simp [hk] at hp

theorem map_congr_of {α : Type} (l : List α) (f g : α → Nat) (h : ∀ x ∈ l, f x = g x) : l.map f = l.map g :=
  List.map_congr_left h

section Exec
variable (sem : Sem) (i : Instr) (e : Eff) (nx : Option Nat) (T : Nat) (s1 s2 : State)

/-- every register read for data / for an address is architectural -/
theorem reads_lt (hlim : readMask e ||| writeMask e ||| addrMask e < 2 ^ 128) {r : Reg} (hr : r ∈ e.reads) :
    r.idx < 128 := by
  apply lt_limit_testBit hlim
  simp [Nat.testBit_or, readMask, testBit_maskOf_mem hr]

theorem addr_lt (hlim : readMask e ||| writeMask e ||| addrMask e < 2 ^ 128) {r : Reg} (hr : r ∈ addrRegs e) :
    r.idx < 128 := by
  apply lt_limit_testBit hlim
  simp [Nat.testBit_or, addrMask, testBit_maskOf_mem hr]

theorem addr_regs_eq (hlim : readMask e ||| writeMask e ||| addrMask e < 2 ^ 128)
    (haddr : T &&& addrMask e = 0) (hag : Agree T s1 s2) {r : Reg} (hr : r ∈ addrRegs e) :
    s1.regs r = s2.regs r :=
  hag.regs r (addr_lt e hlim hr) (and_zero_testBit haddr (testBit_maskOf_mem hr))

theorem ea_eq (hlim : readMask e ||| writeMask e ||| addrMask e < 2 ^ 128)
    (haddr : T &&& addrMask e = 0) (hag : Agree T s1 s2) {m : MemRef} (hm : e.mem = some m) :
    ea s1.regs m e.post = ea s2.regs m e.post := by
  have hb : s1.regs m.base = s2.regs m.base :=
    addr_regs_eq e T s1 s2 hlim haddr hag (by simp [addrRegs, hm])
  unfold ea
  cases hidx : m.index with
  | none => simp [hb]
  | some x =>
    have hx : s1.regs x = s2.regs x :=
      addr_regs_eq e T s1 s2 hlim haddr hag (by simp [addrRegs, hm, hidx, optReg])
    simp [hb, hx]

theorem obs_eq (hlim : readMask e ||| writeMask e ||| addrMask e < 2 ^ 128)
    (haddr : T &&& addrMask e = 0) (hag : Agree T s1 s2) (hpc : s1.pc = s2.pc) :
    obsOf e s1 = obsOf e s2 := by
  unfold obsOf memAddrs
  cases hm : e.mem with
  | none => simp [hpc]
  | some m =>
    simp only [hpc, Obs.mk.injEq, true_and]
    refine ⟨by rw [ea_eq e T s1 s2 hlim haddr hag hm], ?_⟩
    apply List.map_congr_left
    intro r hr
    exact addr_regs_eq e T s1 s2 hlim haddr hag (by simp [addrRegs, hm, hr])

/-- the source taint bit of the transfer function -/
def srcTaint : Bool := e.load || !Nat.beq (T &&& readMask e) 0

theorem inputs_eq (hlim : readMask e ||| writeMask e ||| addrMask e < 2 ^ 128)
    (hag : Agree T s1 s2) (hsrc : srcTaint e T = false) :
    inputsOf sem i e s1 = inputsOf sem i e s2 := by
  simp only [srcTaint, Bool.or_eq_false_iff, Bool.not_eq_false'] at hsrc
  obtain ⟨hload, hz⟩ := hsrc
  have hz : T &&& readMask e = 0 := Nat.eq_of_beq_eq_true hz
  unfold inputsOf
  have h1 : e.reads.map s1.regs = e.reads.map s2.regs := by
    apply List.map_congr_left
    intro r hr
    apply hag.regs r (reads_lt e hlim hr)
    apply and_zero_testBit hz
    simp [readMask, Nat.testBit_or, testBit_maskOf_mem hr]
  have h2 : (if e.rf then [s1.flags] else []) = (if e.rf then [s2.flags] else []) := by
    cases hrf : e.rf with
    | false => simp
    | true =>
      simp only [if_true]
      rw [hag.flags]
      apply and_zero_testBit hz
      rw [readMask_bit0, hrf]
  rw [h1, h2, hag.frame, hload]
  simp

theorem exec_sound (hlim : readMask e ||| writeMask e ||| addrMask e < 2 ^ 128)
    (haddr : T &&& addrMask e = 0) (hag : Agree T s1 s2) (hpc : s1.pc = s2.pc)
    (hbr : e.kind = .jcc → T.testBit 0 = false ∨ sem.cond i s1.flags = sem.cond i s2.flags) :
    (exec sem i e nx s1).1 = (exec sem i e nx s2).1 ∧
    nextPcOf sem i e nx s1 = nextPcOf sem i e nx s2 ∧
    (∀ a b, (exec sem i e nx s1).2 = some a → (exec sem i e nx s2).2 = some b →
      nextPcOf sem i e nx s1 = some a.pc ∧ a.pc = b.pc ∧ Agree (transfer e T) a b) := by
  have hnext : nextPcOf sem i e nx s1 = nextPcOf sem i e nx s2 := by
    unfold nextPcOf
    cases hk : e.kind with
    | jcc =>
      simp only
      rcases hbr hk with h0 | hc
      · rw [hag.flags h0]
      · rw [hc]
    | _ => rfl
  refine ⟨obs_eq e T s1 s2 hlim haddr hag hpc, hnext, ?_⟩
  intro a b ha hb
  simp only [exec] at ha hb
  rw [← hnext] at hb
  cases hn : nextPcOf sem i e nx s1 with
  | none => simp [hn] at ha
  | some p =>
    simp only [hn, Option.some.injEq] at ha hb
    subst ha hb
    refine ⟨rfl, rfl, ⟨hag.frame, ?_, ?_⟩⟩
    · -- flags
      intro h0
      simp only [transfer, applyWrite_testBit] at h0
      cases hs : (e.load || !Nat.beq (T &&& readMask e) 0) with
      | true =>
        simp only [hs, cond_true, Bool.or_eq_false_iff] at h0
        have hwf : e.wf = false := by
          have := h0.2
          rw [writeMask_bit0] at this
          exact this
        simp only [hwf]
        exact hag.flags h0.1
      | false =>
        have hin := inputs_eq sem i e T s1 s2 hlim hag hs
        simp only [hs, cond_false, Bool.and_eq_false_imp] at h0
        cases hwf : e.wf with
        | true => simp only [if_true]; rw [hin]
        | false =>
          simp only [Bool.false_eq_true, if_false]
          apply hag.flags
          cases hT0 : T.testBit 0 with
          | false => rfl
          | true =>
            have := h0 hT0
            rw [writeMask_bit0, hwf] at this
            exact absurd this (by decide)
    · -- registers
      intro r hr hTr
      simp only [transfer, applyWrite_testBit] at hTr
      -- the post-index write-back
      have hpost : ∀ m, e.mem = some m → e.post = true → r = m.base →
          Int.toNat ((s1.regs m.base : Int) + m.disp) = Int.toNat ((s2.regs m.base : Int) + m.disp) := by
        intro m hm _ _
        rw [addr_regs_eq e T s1 s2 hlim haddr hag (r := m.base) (by simp [addrRegs, hm])]
      -- the data write
      have hdata : writeRegs s1.regs e.writes (sem.data i (inputsOf sem i e s1)) r
          = writeRegs s2.regs e.writes (sem.data i (inputsOf sem i e s2)) r := by
        cases hs : (e.load || !Nat.beq (T &&& readMask e) 0) with
        | true =>
          simp only [hs, cond_true, Bool.or_eq_false_iff] at hTr
          have hnw : r ∉ e.writes := by
            intro hmem
            have := hTr.2
            simp [writeMask, Nat.testBit_or, testBit_maskOf_mem hmem] at this
          rw [writeRegs_not_mem _ _ _ _ hnw, writeRegs_not_mem _ _ _ _ hnw]
          exact hag.regs r hr hTr.1
        | false =>
          have hin := inputs_eq sem i e T s1 s2 hlim hag hs
          simp only [hs, cond_false, Bool.and_eq_false_imp] at hTr
          rw [hin]
          apply writeRegs_congr
          intro hnw
          apply hag.regs r hr
          cases hT : T.testBit r.idx with
          | false => rfl
          | true =>
            have hW := hTr hT
            simp only [Bool.not_eq_false'] at hW
            simp only [writeMask, Nat.testBit_or, testBit_flagBit, Bool.or_eq_true, Bool.and_eq_true,
              decide_eq_true_eq] at hW
            rcases hW with hW | hW
            · obtain ⟨r', hr', hidx⟩ := (testBit_maskOf _ _).1 hW
              rw [idx_inj hidx] at hr'
              exact absurd hr' hnw
            · have := idx_pos r; omega
      cases hm : e.mem with
      | none => simpa [hm] using hdata
      | some m =>
        cases hp : e.post with
        | false => simpa using hdata
        | true =>
          simp only [if_true]
          by_cases hrb : r = m.base
          · simp only [hrb, if_true]
            exact hpost m hm hp hrb
          · simpa [hrb] using hdata

end Exec

/-! ## The theorem -/

theorem step_sound {prog : List Instr} {inv : Nat → Nat} {declass : List Nat}
    (hchk : checkInv prog inv declass = true) (sem : Sem) (s1 s2 : State)
    (hpc : s1.pc = s2.pc) (hag : Agree (inv s1.pc) s1 s2)
    (hdec : s1.pc ∈ declass → decision sem prog s1 = decision sem prog s2) :
    match step sem prog s1, step sem prog s2 with
    | none, none => True
    | some (o1, none), some (o2, none) => o1 = o2
    | some (o1, some a), some (o2, some b) => o1 = o2 ∧ a.pc = b.pc ∧ Agree (inv a.pc) a b
    | _, _ => False := by
  unfold step
  rw [← hpc]
  cases hf : fetch prog s1.pc with
  | none => simp
  | some p =>
    obtain ⟨i, nx⟩ := p
    have ⟨hci, hipc⟩ := fetchFrom_check hchk hf
    obtain ⟨e, he, hck⟩ := checked_of_checkInstr hci
    simp only [he]
    have hlim := hck.lim
    have haddr := hck.addr
    have hbrk := hck.br
    have hsuccs := hck.succ
    rw [hipc] at haddr hbrk hsuccs
    have hbr : e.kind = .jcc → (inv s1.pc).testBit 0 = false ∨ sem.cond i s1.flags = sem.cond i s2.flags := by
      intro hk
      rcases hbrk hk with h0 | hd
      · exact Or.inl h0
      · right
        have := hdec hd
        simp only [decision, ← hpc, hf, Option.some.injEq] at this
        exact this
    have hex := exec_sound sem i e nx (inv s1.pc) s1 s2 hlim haddr hag hpc hbr
    obtain ⟨hobs, hnext, hsucc⟩ := hex
    have h2 : ∀ s, (exec sem i e nx s).2 = none ↔ nextPcOf sem i e nx s = none := by
      intro s; simp only [exec]; cases nextPcOf sem i e nx s <;> simp
    cases ha : (exec sem i e nx s1).2 with
    | none =>
      have hb : (exec sem i e nx s2).2 = none := (h2 s2).2 (hnext ▸ (h2 s1).1 ha)
      rw [show exec sem i e nx s1 = ((exec sem i e nx s1).1, (exec sem i e nx s1).2) from rfl,
          show exec sem i e nx s2 = ((exec sem i e nx s2).1, (exec sem i e nx s2).2) from rfl, ha, hb]
      exact hobs
    | some a =>
      cases hb : (exec sem i e nx s2).2 with
      | none =>
        have : (exec sem i e nx s1).2 = none := (h2 s1).2 (hnext ▸ (h2 s2).1 hb)
        rw [ha] at this; exact absurd this (by simp)
      | some b =>
        rw [show exec sem i e nx s1 = ((exec sem i e nx s1).1, (exec sem i e nx s1).2) from rfl,
            show exec sem i e nx s2 = ((exec sem i e nx s2).1, (exec sem i e nx s2).2) from rfl, ha, hb]
        obtain ⟨hn, hab, hagr⟩ := hsucc a b ha hb
        refine ⟨hobs, hab, ?_⟩
        have hsub := hsuccs sem s1 a.pc hn
        exact hagr.mono (fun j hj => subset_testBit hsub hj)

/-- **Soundness of the taint check.** -/
theorem taint_sound {prog : List Instr} {inv : Nat → Nat} {declass : List Nat}
    (hchk : checkInv prog inv declass = true) (sem : Sem) :
    ∀ (n : Nat) (s1 s2 : State), s1.pc = s2.pc → Agree (inv s1.pc) s1 s2 →
      SameDecisions sem prog declass n s1 s2 →
      trace sem prog n s1 = trace sem prog n s2 := by
  intro n
  induction n with
  | zero => intros; rfl
  | succ n ih =>
    intro s1 s2 hpc hag hsd
    simp only [SameDecisions] at hsd
    have hstep := step_sound hchk sem s1 s2 hpc hag hsd.1
    have hrest := hsd.2
    simp only [trace]
    cases h1 : step sem prog s1 with
    | none =>
      cases h2 : step sem prog s2 with
      | none => rfl
      | some q => simp [h1, h2] at hstep
    | some q1 =>
      obtain ⟨o1, n1⟩ := q1
      cases h2 : step sem prog s2 with
      | none => cases n1 <;> simp [h1, h2] at hstep
      | some q2 =>
        obtain ⟨o2, n2⟩ := q2
        cases n1 with
        | none =>
          cases n2 with
          | none => simp only [h1, h2] at hstep; simp [hstep]
          | some b => simp [h1, h2] at hstep
        | some a =>
          cases n2 with
          | none => simp [h1, h2] at hstep
          | some b =>
            simp only [h1, h2] at hstep hrest
            obtain ⟨ho, hab, hagr⟩ := hstep
            simp only [ho, List.cons.injEq, true_and]
            exact ih a b hab hagr hrest

/-! ## Variant: up to the first arrival at a declassified pc no side condition is needed -/

theorem step_none_iff (sem : Sem) (prog : List Instr) {s1 s2 : State} (hpc : s1.pc = s2.pc) :
    step sem prog s1 = none ↔ step sem prog s2 = none := by
  unfold step
  rw [hpc]
  cases fetch prog s2.pc with
  | none => simp
  | some p =>
    obtain ⟨i, nx⟩ := p
    cases he : effOf i <;> simp [he]

theorem step_obs_pc {sem : Sem} {prog : List Instr} {s : State} {o : Obs} {n : Option State}
    (h : step sem prog s = some (o, n)) : o.pc = s.pc := by
  unfold step at h
  cases hf : fetch prog s.pc with
  | none => simp [hf] at h
  | some p =>
    obtain ⟨i, nx⟩ := p
    cases he : effOf i with
    | none => simp [hf, he] at h
    | some e =>
      simp only [hf, he, Option.some.injEq, exec, Prod.mk.injEq] at h
      rw [← h.1]; rfl

theorem until_sound {prog : List Instr} {inv : Nat → Nat} {declass : List Nat}
    (hchk : checkInv prog inv declass = true) (sem : Sem) :
    ∀ (n : Nat) (s1 s2 : State), s1.pc = s2.pc → Agree (inv s1.pc) s1 s2 →
      (∀ o ∈ trace sem prog n s1, o.pc ∉ declass) →
      trace sem prog n s1 = trace sem prog n s2 := by
  intro n
  induction n with
  | zero => intros; rfl
  | succ n ih =>
    intro s1 s2 hpc hag hno
    cases h1 : step sem prog s1 with
    | none =>
      have h2 := (step_none_iff sem prog hpc).1 h1
      simp [trace, h1, h2]
    | some q1 =>
      obtain ⟨o1, n1⟩ := q1
      have ho1 : o1.pc ∉ declass := by
        apply hno
        simp only [trace, h1]
        cases n1 <;> simp
      rw [step_obs_pc h1] at ho1
      have hstep := step_sound hchk sem s1 s2 hpc hag (fun h => absurd h ho1)
      simp only [trace]
      cases h2 : step sem prog s2 with
      | none => cases n1 <;> simp [h1, h2] at hstep
      | some q2 =>
        obtain ⟨o2, n2⟩ := q2
        cases n1 with
        | none =>
          cases n2 with
          | none => simp only [h1, h2] at hstep; simp [h1, hstep]
          | some b => simp [h1, h2] at hstep
        | some a =>
          cases n2 with
          | none => simp [h1, h2] at hstep
          | some b =>
            simp only [h1, h2] at hstep
            obtain ⟨ho, hab, hagr⟩ := hstep
            simp only [h1, ho, List.cons.injEq, true_and]
            apply ih a b hab hagr
            intro o ho
            apply hno
            simp only [trace, h1]
            exact List.mem_cons_of_mem _ ho

/-! ## The fast checker implies the specification checker -/

theorem testBit_pcBits (prog : List Instr) (t : Nat) :
    (pcBits prog).testBit t = true → hasPcIn prog t = true := by
  induction prog with
  | nil => simp [pcBits]
  | cons i rest ih =>
    intro h
    simp only [pcBits, Nat.testBit_or, Bool.or_eq_true, Nat.one_shiftLeft, Nat.testBit_two_pow,
      decide_eq_true_eq] at h
    simp only [hasPcIn, List.any_cons, Bool.or_eq_true]
    rcases h with h | h
    · left; simp [h]
    · right; exact ih h

theorem checkInstr_mono {inv : Nat → Nat} {declass : List Nat} {hp hp' : Nat → Bool}
    (hmono : ∀ t, hp t = true → hp' t = true) {i : Instr} {nx : Option Nat}
    (h : checkInstr inv declass hp i nx = true) : checkInstr inv declass hp' i nx = true := by
  unfold checkInstr at h ⊢
  cases he : effOf i with
  | none => simp [he] at h
  | some e =>
    simp only [he, Bool.and_eq_true] at h ⊢
    refine ⟨h.1, ?_⟩
    have h3 := h.2
    have hT : ∀ T' t, okTarget inv hp T' t = true → okTarget inv hp' T' t = true := by
      intro T' t ht
      cases t with
      | none => simp [okTarget] at ht
      | some t =>
        simp only [okTarget, Bool.and_eq_true] at ht ⊢
        exact ⟨hmono t ht.1, ht.2⟩
    unfold checkKind at h3 ⊢
    cases hk : e.kind with
    | seq => simpa [hk] using h3
    | jmp => simp only [hk] at h3 ⊢; exact hT _ _ h3
    | jcc =>
      simp only [hk, Bool.and_eq_true] at h3 ⊢
      exact ⟨⟨h3.1.1, hT _ _ h3.1.2⟩, h3.2⟩
    | ret => rfl

theorem checkFrom_mono {chk chk' : Instr → Option Nat → Bool}
    (hmono : ∀ i nx, chk i nx = true → chk' i nx = true) (prog : List Instr) (nx : Option Nat)
    (h : checkFrom chk prog nx = true) : checkFrom chk' prog nx = true := by
  induction prog with
  | nil => rfl
  | cons i rest ih =>
    simp only [checkFrom, Bool.and_eq_true] at h ⊢
    exact ⟨hmono _ _ h.1, ih h.2⟩

theorem checkInv_of_fast {prog : List Instr} {inv : Nat → Nat} {declass : List Nat}
    (h : checkInvFast prog inv declass = true) : checkInv prog inv declass = true :=
  checkFrom_mono (fun _ _ hc => checkInstr_mono (testBit_pcBits prog) hc) prog none h

/-! ## Entry condition and routine-level corollary -/

theorem allTaint_eq : allTaint = 2 ^ 129 - 1 := by decide

theorem allTaint_testBit {j : Nat} (h : j < 129) : allTaint.testBit j = true := by
  rw [allTaint_eq, Nat.testBit_two_pow_sub_one]; simpa using h

/-- Under the entry invariant nothing but the argument frame has to agree. -/
theorem agree_entry {T : Nat} (hT : subset allTaint T = true) {s1 s2 : State} (hframe : s1.frame = s2.frame) :
    Agree T s1 s2 := by
  refine ⟨hframe, fun h0 => ?_, fun r hr hTr => ?_⟩
  · rw [subset_testBit hT (allTaint_testBit (by decide))] at h0; exact absurd h0 (by decide)
  · rw [subset_testBit hT (allTaint_testBit (by omega))] at hTr; exact absurd hTr (by decide)

theorem certify_spec {prog : List Instr} {declass : List Nat} (h : certify prog declass = true) :
    checkInv prog (invOf prog) declass = true ∧ subset allTaint (invOf prog (entryPc prog)) = true
      ∧ frameOk prog = true := by
  simp only [certify, Bool.and_eq_true] at h
  exact ⟨checkInv_of_fast h.1.1, h.1.2, h.2⟩

/-- without declassified pcs the side condition on decisions is void -/
theorem sameDecisions_nil (sem : Sem) (prog : List Instr) :
    ∀ (n : Nat) (s1 s2 : State), SameDecisions sem prog [] n s1 s2 := by
  intro n
  induction n with
  | zero => intros; trivial
  | succ n ih =>
    intro s1 s2
    simp only [SameDecisions]
    refine ⟨fun h => absurd h (by simp), ?_⟩
    split
    · exact ih _ _
    · trivial

/-- **Routine-level statement.**  Two executions of a certified routine that start at its entry with the same
    argument frame — whatever the registers, flags and memory contain — and take the same decision at the
    declassified pcs make the same observations. -/
theorem certified_constant_time {prog : List Instr} {declass : List Nat} (h : certify prog declass = true)
    (sem : Sem) (s1 s2 : State) (h1 : s1.pc = entryPc prog) (h2 : s2.pc = entryPc prog)
    (hframe : s1.frame = s2.frame) (n : Nat) (hsd : SameDecisions sem prog declass n s1 s2) :
    trace sem prog n s1 = trace sem prog n s2 := by
  obtain ⟨hchk, hentry, _⟩ := certify_spec h
  apply taint_sound hchk sem n s1 s2 (h1.trans h2.symm) _ hsd
  rw [h1]
  exact agree_entry hentry hframe

/-- Up to the first arrival of the first execution at a declassified pc the observations coincide without any
    condition on decisions. -/
theorem certified_until {prog : List Instr} {declass : List Nat} (h : certify prog declass = true)
    (sem : Sem) (s1 s2 : State) (h1 : s1.pc = entryPc prog) (h2 : s2.pc = entryPc prog)
    (hframe : s1.frame = s2.frame) (n : Nat) (hno : ∀ o ∈ trace sem prog n s1, o.pc ∉ declass) :
    trace sem prog n s1 = trace sem prog n s2 := by
  obtain ⟨hchk, hentry, _⟩ := certify_spec h
  apply until_sound hchk sem n s1 s2 (h1.trans h2.symm) _ hno
  rw [h1]
  exact agree_entry hentry hframe

end SMGo.Proofs.ISASound
