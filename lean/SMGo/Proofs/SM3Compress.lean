/-
  Lemmas for property C04, part 1: the compression function of the model (`Model.SM3.cf`, the
  68-word ring with on-the-fly expansion and the precomputed table `tt`) equals `CF` of the
  specification.
-/
import SMGo.Spec.SM3
import SMGo.Model.SM3State
import SMGo.Gen.SM3Const
namespace SMGo.Proofs.SM3
open SMGo

/-- the round-constant table regenerated from sm3.go, as 32-bit words -/
def ttGen : List W32 := Gen.SM3Const.tt.map (BitVec.ofNat 32)

theorem ttGen_getD : ∀ j, j < 64 → ttGen.getD j 0 = (Spec.SM3.T j).rotateLeft (j % 32) := by
  decide

/-- Go's `x<<k | x>>(32-k)` is the left rotation -/
theorem rotl_eq (x : W32) (k : Nat) (hk : k < 32) : Model.SM3.rotl x k = x.rotateLeft k := by
  simp [Model.SM3.rotl, BitVec.rotateLeft, BitVec.rotateLeftAux, Nat.mod_eq_of_lt hk]

theorem p0_eq (x : W32) : Model.SM3.p0 x = Spec.SM3.P0 x := by
  simp [Model.SM3.p0, Spec.SM3.P0, rotl_eq]

theorem p1_eq (x : W32) : Model.SM3.p1 x = Spec.SM3.P1 x := by
  simp [Model.SM3.p1, Spec.SM3.P1, rotl_eq]

/-! ### message expansion of the specification -/

/-- the word appended by `extendW` -/
def nextW (w : List W32) : W32 :=
  Spec.SM3.P1 (w.getD (w.length - 16) 0 ^^^ w.getD (w.length - 9) 0 ^^^ (w.getD (w.length - 3) 0).rotateLeft 15)
    ^^^ (w.getD (w.length - 13) 0).rotateLeft 7 ^^^ w.getD (w.length - 6) 0

theorem extendW_eq (w : List W32) : Spec.SM3.extendW w = w ++ [nextW w] := rfl

def iterW (n : Nat) (w : List W32) : List W32 := (List.range n).foldl (fun w _ => Spec.SM3.extendW w) w

theorem iterW_succ (n : Nat) (w : List W32) : iterW (n + 1) w = Spec.SM3.extendW (iterW n w) := by
  simp [iterW, List.range_succ, List.foldl_append]

theorem iterW_length (n : Nat) (w : List W32) : (iterW n w).length = w.length + n := by
  induction n with
  | zero => simp [iterW]
  | succ n ih => rw [iterW_succ, extendW_eq]; simp [ih]; omega

theorem iterW_getD_stable (w : List W32) (n m i : Nat) (hnm : n ≤ m) (hi : i < w.length + n) :
    (iterW m w).getD i 0 = (iterW n w).getD i 0 := by
  induction m with
  | zero => have : n = 0 := by omega
            subst this; rfl
  | succ m ih =>
    by_cases h : n = m + 1
    · subst h; rfl
    · have hle : n ≤ m := by omega
      rw [← ih hle, iterW_succ, extendW_eq]
      have hl := iterW_length m w
      simp only [List.getD_eq_getElem?_getD]
      rw [List.getElem?_append_left (by omega)]

theorem iterW_getD_new (w : List W32) (n : Nat) :
    (iterW (n + 1) w).getD (w.length + n) 0 = nextW (iterW n w) := by
  rw [iterW_succ, extendW_eq]
  have hl := iterW_length n w
  simp only [List.getD_eq_getElem?_getD]
  rw [List.getElem?_append_right (by omega)]
  simp [hl]

theorem expand_eq (blk : Bytes) : Spec.SM3.expand blk = iterW 52 (wordsBE blk) := rfl

/-- the recurrence 5.3.2 b) satisfied by the expanded words -/
theorem expand_rec (w0 : List W32) (h0 : w0.length = 16) (i : Nat) (h16 : 16 ≤ i) (h68 : i < 68) :
    (iterW 52 w0).getD i 0 =
      Spec.SM3.P1 ((iterW 52 w0).getD (i - 16) 0 ^^^ (iterW 52 w0).getD (i - 9) 0
          ^^^ ((iterW 52 w0).getD (i - 3) 0).rotateLeft 15)
        ^^^ ((iterW 52 w0).getD (i - 13) 0).rotateLeft 7 ^^^ (iterW 52 w0).getD (i - 6) 0 := by
  obtain ⟨n, rfl⟩ : ∃ n, i = 16 + n := ⟨i - 16, by omega⟩
  have e1 : (iterW 52 w0).getD (16 + n) 0 = (iterW (n + 1) w0).getD (16 + n) 0 :=
    iterW_getD_stable w0 (n + 1) 52 (16 + n) (by omega) (by omega)
  have e2 := iterW_getD_new w0 n
  rw [h0] at e2
  rw [e1, e2, nextW, iterW_length, h0]
  have st : ∀ k, k < 16 + n → (iterW 52 w0).getD k 0 = (iterW n w0).getD k 0 :=
    fun k hk => iterW_getD_stable w0 n 52 k (by omega) (by omega)
  rw [st (16 + n - 16) (by omega), st (16 + n - 9) (by omega), st (16 + n - 3) (by omega),
    st (16 + n - 13) (by omega), st (16 + n - 6) (by omega)]

theorem wordsBE_length (b : Bytes) : (wordsBE b).length = b.length / 4 := by
  fun_induction wordsBE b with
  | case1 a b c d rest ih => simp [ih]; omega
  | case2 b h =>
    match b, h with
    | [], _ => rfl
    | [_], _ => simp
    | [_, _], _ => simp
    | [_, _, _], _ => simp
    | a :: b :: c :: d :: rest, h => exact absurd rfl (h a b c d rest)

/-! ### the ring of the model agrees with the expanded words -/

/-- Go's `[68]uint32` ring `w` agrees with the expanded words `W` on the first `n` entries -/
def Agree (w W : List W32) (n : Nat) : Prop := w.length = 68 ∧ ∀ i, i < n → w.getD i 0 = W.getD i 0

theorem Agree.mono {w W : List W32} {n m : Nat} (h : Agree w W n) (hm : m ≤ n) : Agree w W m :=
  ⟨h.1, fun i hi => h.2 i (by omega)⟩

/-- writing the next expanded word into the ring -/
theorem Agree.set {w w0 : List W32} {j : Nat} (h : Agree w (iterW 52 w0) j) (h0 : w0.length = 16)
    (h16 : 16 ≤ j) (h68 : j < 68) (i1 i2 i3 i4 i5 : Nat)
    (e1 : i1 = j - 16) (e2 : i2 = j - 9) (e3 : i3 = j - 3) (e4 : i4 = j - 13) (e5 : i5 = j - 6) :
    Agree (w.set j (Model.SM3.p1 (w.getD i1 0 ^^^ w.getD i2 0 ^^^ Model.SM3.rotl (w.getD i3 0) 15)
        ^^^ Model.SM3.rotl (w.getD i4 0) 7 ^^^ w.getD i5 0)) (iterW 52 w0) (j + 1) := by
  subst e1 e2 e3 e4 e5
  refine ⟨by simp [h.1], fun i hi => ?_⟩
  by_cases hij : i = j
  · subst hij
    rw [expand_rec w0 h0 i h16 h68, h.2 _ (by omega : i - 16 < i), h.2 _ (by omega : i - 9 < i),
      h.2 _ (by omega : i - 3 < i), h.2 _ (by omega : i - 13 < i), h.2 _ (by omega : i - 6 < i),
      p1_eq, rotl_eq _ _ (by omega), rotl_eq _ _ (by omega)]
    simp [List.getD_eq_getElem?_getD, h.1, h68]
  · rw [← h.2 i (by omega)]
    simp only [List.getD_eq_getElem?_getD, List.getElem?_set]
    rw [if_neg (by omega)]

theorem partiallyExpand_agree (blk : Bytes) (hb : blk.length = 64) :
    Agree (Model.SM3.partiallyExpand blk) (Spec.SM3.expand blk) 21 := by
  have h0 : (wordsBE blk).length = 16 := by rw [wordsBE_length, hb]
  have a16 : Agree (wordsBE blk ++ List.replicate 52 0) (iterW 52 (wordsBE blk)) 16 := by
    refine ⟨by simp [h0], fun i hi => ?_⟩
    rw [iterW_getD_stable (wordsBE blk) 0 52 i (by omega) (by omega)]
    simp only [List.getD_eq_getElem?_getD]
    rw [List.getElem?_append_left (by omega)]
    rfl
  have a17 := a16.set h0 (by omega) (by omega) (16-16) (16-9) (16-3) (16-13) (16-6) rfl rfl rfl rfl rfl
  have a18 := a17.set h0 (by omega) (by omega) (17-16) (17-9) (17-3) (17-13) (17-6) rfl rfl rfl rfl rfl
  have a19 := a18.set h0 (by omega) (by omega) (18-16) (18-9) (18-3) (18-13) (18-6) rfl rfl rfl rfl rfl
  have a20 := a19.set h0 (by omega) (by omega) (19-16) (19-9) (19-3) (19-13) (19-6) rfl rfl rfl rfl rfl
  have a21 := a20.set h0 (by omega) (by omega) (20-16) (20-9) (20-3) (20-13) (20-6) rfl rfl rfl rfl rfl
  have ht : blk.take 64 = blk := List.take_of_length_le (by omega)
  rw [expand_eq]
  unfold Model.SM3.partiallyExpand
  rw [ht]
  exact a21

/-! ### the rounds -/

/-- the eight working variables of the specification, as the model's record -/
def toModel (r : Spec.SM3.Regs) : Model.SM3.Regs :=
  { a := r.a, b := r.b, c := r.c, d := r.d, e := r.e, f := r.f, g := r.g, h := r.h }

theorem roundLo_eq {w W : List W32} (r : Spec.SM3.Regs) (j : Nat) (hj : j < 16) (ha : Agree w W 21) :
    Model.SM3.roundLo ttGen (w, toModel r) j = (w, toModel (Spec.SM3.round W r j)) := by
  simp only [Model.SM3.roundLo, Spec.SM3.round, toModel, Spec.SM3.FF, Spec.SM3.GG, if_pos hj,
    ttGen_getD j (by omega), ha.2 j (by omega), ha.2 (j + 4) (by omega), p0_eq,
    rotl_eq _ 12 (by omega), rotl_eq _ 7 (by omega), rotl_eq _ 9 (by omega), rotl_eq _ 19 (by omega)]

theorem roundHi_eq {w w0 : List W32} (h0 : w0.length = 16) (r : Spec.SM3.Regs) (j : Nat)
    (h16 : 16 ≤ j) (h64 : j < 64) (ha : Agree w (iterW 52 w0) (j + 4)) :
    ∃ w', Model.SM3.roundHi ttGen (w, toModel r) j = (w', toModel (Spec.SM3.round (iterW 52 w0) r j))
      ∧ Agree w' (iterW 52 w0) (j + 5) := by
  have hs := ha.set h0 (by omega) (by omega) (j - 12) (j - 5) (j + 1) (j - 9) (j - 2)
    (by omega) (by omega) (by omega) (by omega) (by omega)
  refine ⟨_, ?_, hs⟩
  have hj : ¬ j < 16 := by omega
  have e1 := hs.2 j (by omega)
  have e2 := hs.2 (j + 4) (by omega)
  simp only [Model.SM3.roundHi]
  rw [e1, e2]
  simp only [Spec.SM3.round, toModel, Spec.SM3.FF, Spec.SM3.GG, if_neg hj,
    ttGen_getD j (by omega), ha.2 j (by omega), p0_eq, Model.SM3.ff1, Model.SM3.gg1,
    rotl_eq _ 12 (by omega), rotl_eq _ 7 (by omega), rotl_eq _ 9 (by omega), rotl_eq _ 19 (by omega)]

theorem foldLo_eq {w W : List W32} (ha : Agree w W 21) (r : Spec.SM3.Regs) (k : Nat) (hk : k ≤ 16) :
    (List.range k).foldl (Model.SM3.roundLo ttGen) (w, toModel r)
      = (w, toModel ((List.range k).foldl (Spec.SM3.round W) r)) := by
  induction k with
  | zero => rfl
  | succ k ih =>
    rw [List.range_succ, List.foldl_append, List.foldl_append, ih (by omega)]
    exact roundLo_eq _ k (by omega) ha

theorem foldHi_eq {w w0 : List W32} (h0 : w0.length = 16) (ha : Agree w (iterW 52 w0) 21)
    (r : Spec.SM3.Regs) (k : Nat) (hk : k ≤ 48) :
    ∃ w', (List.range k).foldl (fun s i => Model.SM3.roundHi ttGen s (16 + i)) (w, toModel r)
        = (w', toModel ((List.range k).foldl (fun r i => Spec.SM3.round (iterW 52 w0) r (16 + i)) r))
      ∧ Agree w' (iterW 52 w0) (20 + k) := by
  induction k with
  | zero => exact ⟨w, rfl, ha.mono (by omega)⟩
  | succ k ih =>
    obtain ⟨w1, e1, a1⟩ := ih (by omega)
    obtain ⟨w2, e2, a2⟩ := roundHi_eq h0
      ((List.range k).foldl (fun r i => Spec.SM3.round (iterW 52 w0) r (16 + i)) r) (16 + k)
      (by omega) (by omega) (a1.mono (by omega))
    refine ⟨w2, ?_, a2.mono (by omega)⟩
    rw [List.range_succ, List.foldl_append, List.foldl_append, e1]
    exact e2

/-- the compression function of the model is `CF` of the standard, on a full block -/
theorem cf_eq_CF (h : List W32) (blk : Bytes) (hb : blk.length = 64) :
    Model.SM3.cf ttGen h blk = Spec.SM3.CF h blk := by
  have h0 : (wordsBE blk).length = 16 := by rw [wordsBE_length, hb]
  have ha := partiallyExpand_agree blk hb
  rw [expand_eq] at ha
  obtain ⟨w', e, _⟩ := foldHi_eq h0 ha
    ((List.range 16).foldl (Spec.SM3.round (iterW 52 (wordsBE blk))) (Spec.SM3.regsOf h)) 48 (by omega)
  have hsplit : (List.range 64).foldl (Spec.SM3.round (iterW 52 (wordsBE blk))) (Spec.SM3.regsOf h)
      = (List.range 48).foldl (fun r i => Spec.SM3.round (iterW 52 (wordsBE blk)) r (16 + i))
          ((List.range 16).foldl (Spec.SM3.round (iterW 52 (wordsBE blk))) (Spec.SM3.regsOf h)) := by
    rw [show (64 : Nat) = 16 + 48 from rfl, List.range_add, List.foldl_append, List.foldl_map]
  have hr : Model.SM3.regsOf h = toModel (Spec.SM3.regsOf h) := rfl
  unfold Model.SM3.cf Spec.SM3.CF
  simp only [expand_eq]
  rw [hr, foldLo_eq ha _ 16 (by omega), e, hsplit]
  exact List.zipWith_comm_of_comm (fun x y => BitVec.xor_comm x y)

/-- `cf` only reads `msg[0:64]` -/
theorem cf_take (tt : List W32) (h : List W32) (msg : Bytes) :
    Model.SM3.cf tt h msg = Model.SM3.cf tt h (msg.take 64) := by
  simp [Model.SM3.cf, Model.SM3.partiallyExpand, List.take_take]

end SMGo.Proofs.SM3
