import SMGo.Proofs.CTIRRefinePointA
import SMGo.Proofs.CTIRRefineComb
import SMGo.Proofs.CTIRRefineCurve
import SMGo.Gen.CTIRProg
import SMGo.Model.SM2Proto
open SMGo SMGo.Model.CTIR SMGo.Gen.CTIRProg SMGo.Proofs.CTIRRefineUtils SMGo.Proofs.CTIRRefineCurve
open SMGo.Proofs.CTIRRefineField (Computes)
open SMGo.Proofs.CTIRRefineComb (CalleeFails Fails nilPointV runV_of_Fails)
open SMGo.Proofs.CTIRRefinePointA (ptV)
open SMGo.Model.SM2 (Script readFull avail genKeyLoop)
set_option linter.unusedSimpArgs false
set_option linter.unusedVariables false

namespace SMGo.Proofs.CTIRRefineKeys

/-! ## 1. The model: `readFull`, `avail`, `genKeyLoop`, `generateKey`, `derivePublic` -/

section ModelFacts

/-- a successful `readFull` delivers exactly `want` more bytes -/
theorem readFull_length : ∀ (sc : Script) (want : Nat) (acc b : Bytes) (rest : Script),
    readFull sc want acc = (some b, rest) → b.length = acc.length + want := by
  intro sc
  induction sc with
  | nil => intro want acc b rest h; simp [readFull] at h
  | cons it sc ih =>
    intro want acc b rest h
    cases it with
    | fail => simp [readFull] at h
    | zero => exact ih want acc b rest (by simpa [readFull] using h)
    | data d =>
      simp only [readFull] at h
      by_cases hd : d.length ≥ want
      · rw [if_pos hd] at h
        simp only [Prod.mk.injEq, Option.some.injEq] at h
        obtain ⟨h1, _⟩ := h
        subst h1
        simp only [List.length_append, List.length_take]
        omega
      · rw [if_neg hd] at h
        have := ih _ _ _ _ h
        simp only [List.length_append] at this
        omega

/-- a successful `readFull` lowers `avail` by exactly `want` -/
theorem readFull_avail : ∀ (sc : Script) (want : Nat) (acc b : Bytes) (rest : Script),
    readFull sc want acc = (some b, rest) → avail rest + want = avail sc := by
  intro sc
  induction sc with
  | nil => intro want acc b rest h; simp [readFull] at h
  | cons it sc ih =>
    intro want acc b rest h
    cases it with
    | fail => simp [readFull] at h
    | zero =>
      have := ih want acc b rest (by simpa [readFull] using h)
      simpa [avail] using this
    | data d =>
      simp only [readFull] at h
      by_cases hd : d.length ≥ want
      · rw [if_pos hd] at h
        simp only [Prod.mk.injEq, Option.some.injEq] at h
        obtain ⟨_, h2⟩ := h
        subst h2
        by_cases he : d.length = want
        · rw [if_pos he]; simp only [avail]; omega
        · rw [if_neg he]; simp only [avail, List.length_drop]; omega
      · rw [if_neg hd] at h
        have := ih _ _ _ _ h
        simp only [avail]
        omega

variable {α β : Type}

theorem genKeyLoop_succ (X : Model.SM2.Ctx α β) (fuel : Nat) (sc : Script) :
    genKeyLoop X (fuel + 1) sc =
      match readFull sc 32 [] with
      | (none, _) => .err
      | (some priv, sc') =>
        match Model.SM2.testPrivateKey X priv with
        | .ok 0 => .ok (priv, sc')
        | .ok _ => genKeyLoop X fuel sc'
        | _ => .panic := rfl

theorem genKeyLoop_none (X : Model.SM2.Ctx α β) (fuel : Nat) {sc rest : Script}
    (h : readFull sc 32 [] = (none, rest)) : genKeyLoop X (fuel + 1) sc = .err := by
  rw [genKeyLoop_succ, h]

theorem genKeyLoop_accept (X : Model.SM2.Ctx α β) (fuel : Nat) {sc rest : Script} {b : Bytes}
    (h : readFull sc 32 [] = (some b, rest)) (ht : Model.SM2.testPrivateKey X b = .ok 0) :
    genKeyLoop X (fuel + 1) sc = .ok (b, rest) := by
  rw [genKeyLoop_succ, h]
  simp only [ht]

theorem genKeyLoop_reject (X : Model.SM2.Ctx α β) (fuel : Nat) {sc rest : Script} {b : Bytes} {r : Int}
    (h : readFull sc 32 [] = (some b, rest)) (ht : Model.SM2.testPrivateKey X b = .ok r) (hr : r ≠ 0) :
    genKeyLoop X (fuel + 1) sc = genKeyLoop X fuel rest := by
  rw [genKeyLoop_succ, h]
  simp only [ht]

theorem genKeyLoop_panic (X : Model.SM2.Ctx α β) (fuel : Nat) {sc rest : Script} {b : Bytes}
    (h : readFull sc 32 [] = (some b, rest)) (ht : Model.SM2.testPrivateKey X b = .panic) :
    genKeyLoop X (fuel + 1) sc = .panic := by
  rw [genKeyLoop_succ, h]
  simp only [ht]

/-- the tail shared by `DerivePublic` and `GenerateKey`: from the private key to the two coordinates -/
def pubOf (X : Model.SM2.Ctx α β) (priv : Bytes) : Outcome (Bytes × Bytes) :=
  Model.SM2.scalarBaseMult X priv >>= fun pub =>
    if (Model.Point.bytes X.C pub true).length ≠ 65 then .err
    else .ok (((Model.Point.bytes X.C pub true).drop 1).take 32, (Model.Point.bytes X.C pub true).drop 33)

theorem derivePublic_eq (X : Model.SM2.Ctx α β) (priv : Bytes) :
    Model.SM2.derivePublic X priv = pubOf X priv := rfl

theorem generateKey_some (X : Model.SM2.Ctx α β) (sc : Script) :
    Model.SM2.generateKey X (some sc) =
      (genKeyLoop X (avail sc / 32 + 1) sc >>= fun r =>
        pubOf X r.1 >>= fun xy => .ok ((r.1, xy.1, xy.2), avail sc - avail r.2)) := by
  simp only [Model.SM2.generateKey, pubOf]
  cases genKeyLoop X (avail sc / 32 + 1) sc with
  | err => rfl
  | panic => rfl
  | ok r =>
    obtain ⟨priv, sc'⟩ := r
    simp only [Outcome.bind_ok]
    cases Model.SM2.scalarBaseMult X priv with
    | err => rfl
    | panic => rfl
    | ok pub =>
      simp only [Outcome.bind_ok]
      split <;> rfl

end ModelFacts

/-! ## 2. Expression facts -/

section Exprs
variable {G : Nat → Val}

theorem len_ne65_false {env : Env} {v : Nat} {pb : Bytes} (h : env v = bytesV pb) (hl : pb.length = 65) :
    evalV G env (.op2 .ne (.len (.var v)) (.lit 65)) = some (.int 0) := by
  simp only [evalV_op2, evalV_len, evalV_var, evalV_lit, h, bytesV, List.length_map, evalOp2, Option.map_some, hl]
  rfl

theorem len_ne65_true {env : Env} {v : Nat} {pb : Bytes} (h : env v = bytesV pb) (hl : pb.length ≠ 65) :
    evalV G env (.op2 .ne (.len (.var v)) (.lit 65)) = some (.int 1) := by
  simp only [evalV_op2, evalV_len, evalV_var, evalV_lit, h, bytesV, List.length_map, evalOp2, Option.map_some]
  have : (((pb.length : Nat) : Int) != 65) = true := by
    simp only [bne_iff_ne, ne_eq]; omega
  rw [this]; rfl

theorem slice_bytes {env : Env} {v : Nat} {pb : Bytes} {elo ehi : Expr} {lo hi : Nat} (h : env v = bytesV pb)
    (hlo : evalV G env elo = some (.int (lo : Int))) (hhi : evalV G env ehi = some (.int (hi : Int)))
    (h1 : lo ≤ hi) (h2 : hi ≤ pb.length) :
    evalV G env (.slice (.var v) elo ehi) = some (bytesV ((pb.drop lo).take (hi - lo))) := by
  rw [evalV_slice, evalV_var, h, hlo, hhi]
  simp only [bytesV, sliceList, List.length_map]
  rw [if_neg (by omega)]
  simp [List.map_take, List.map_drop]

theorem len_bytes {env : Env} {v : Nat} {pb : Bytes} (h : env v = bytesV pb) :
    evalV G env (.len (.var v)) = some (.int (pb.length : Int)) := by
  simp only [evalV_len, evalV_var, h, bytesV, List.length_map]

theorem ne0_val {env : Env} {v : Nat} {n : Int} (h : env v = .int n) :
    evalV G env (.op2 .ne (.var v) (.lit 0)) = some (.int (ofBool (n != 0))) := by
  simp only [evalV_op2, evalV_var, evalV_lit, h, evalOp2, Option.map_some]

theorem mk00 (env : Env) : evalV G env (.mk (.lit 0) (.lit 0)) = some (.arr []) := rfl

theorem mkNil (env : Env) :
    evalV G env (.mk (.lit 3) (.mk (.lit 1) (.mk (.lit 4) (.lit 0)))) = some nilPointV := rfl

end Exprs


/-! ## 3. `sm2.DerivePublic` (`fn_96`) -/

/-- the contract of `internal.ScalarBaseMult` (function 87) against `Model.SM2.scalarBaseMult` -/
def SbmSpec {α β : Type} (P : Prog) (G : Nat → Val) (O : Oracle) (X : Model.SM2.Ctx α β) (enc : α → List Nat)
    (Fsbm : Nat) : Prop :=
  ∀ k : Bytes,
    match Model.SM2.scalarBaseMult X k with
    | .ok r => Computes P G O 87 Fsbm [bytesV k] [ptV enc r, .int 0]
    | .err => Computes P G O 87 Fsbm [bytesV k] [nilPointV, .int 1]
    | .panic => CalleeFails P G O 87 [bytesV k]

/-- the contract of `(*SM2Point).Bytes` (function 91) against `Model.Point.bytes … true` -/
def BytesSpec {α β : Type} (P : Prog) (G : Nat → Val) (O : Oracle) (X : Model.SM2.Ctx α β) (enc : α → List Nat)
    (Fbytes : Nat) : Prop :=
  ∀ p, Computes P G O 91 Fbytes [ptV enc p] [bytesV (Model.Point.bytes X.C p true)]

def dIte1 : Stmt := .ite (.op2 .ne (.var 3) (.lit 0)) (.ret [(.var 1), (.var 2), (.var 3)]) .skip
def dIte2 : Stmt := .ite (.op2 .ne (.len (.var 8)) (.lit 65))
  (.ret [(.mk (.lit 0) (.lit 0)), (.mk (.lit 0) (.lit 0)), (.lit 1)]) .skip
def dRet : Stmt :=
  .ret [(.slice (.var 8) (.lit 1) (.lit 33)), (.slice (.var 8) (.lit 33) (.len (.var 8))), (.lit 0)]

theorem fn_96_body : fn_96.body =
    .seq (.assign 1 [] (.mk (.lit 0) (.lit 0))) (.seq (.assign 2 [] (.mk (.lit 0) (.lit 0)))
    (.seq (.assign 3 [] (.lit 0)) (.seq (.assign 5 [] (.mk (.lit 3) (.mk (.lit 1) (.mk (.lit 4) (.lit 0)))))
    (.seq (.call [6, 7] 87 [(.var 0)]) (.seq (.assign 5 [] (.var 6)) (.seq (.assign 3 [] (.var 7))
    (.seq dIte1 (.seq (.assign 8 [] (.mk (.lit 0) (.lit 0))) (.seq (.call [9] 91 [(.var 5)])
    (.seq (.assign 8 [] (.var 9)) (.seq dIte2 (.seq dRet .panic)))))))))))) := rfl

section Derive
variable {P : Prog} {G : Nat → Val} {O : Oracle} {α β : Type} {X : Model.SM2.Ctx α β} {enc : α → List Nat}
variable {Fsbm Fbytes : Nat}

/-- fuel for the body of DerivePublic -/
def fuelDerive (Fsbm Fbytes : Nat) : Nat := Fsbm + Fbytes + 40

theorem derive_body (H1 : SbmSpec P G O X enc Fsbm) (H2 : BytesSpec P G O X enc Fbytes) (priv : Bytes) :
    (∀ x y, pubOf X priv = .ok (x, y) →
      ∃ env', EvIn P G O (fuelDerive Fsbm Fbytes) (Env.ofList [bytesV priv]) fn_96.body env'
        (.ret [bytesV x, bytesV y, .int 0])) ∧
    (pubOf X priv = .err →
      ∃ env', EvIn P G O (fuelDerive Fsbm Fbytes) (Env.ofList [bytesV priv]) fn_96.body env'
        (.ret [.arr [], .arr [], .int 1])) ∧
    (pubOf X priv = .panic → Fails P G O (Env.ofList [bytesV priv]) fn_96.body) := by
  rw [fn_96_body]
  let e0 : Env := Env.ofList [bytesV priv]
  let e4 : Env := (((e0.set 1 (.arr [])).set 2 (.arr [])).set 3 (.int 0)).set 5 nilPointV
  have c1 : EvIn P G O 1 e0 (.assign 1 [] (.mk (.lit 0) (.lit 0))) (e0.set 1 (.arr [])) .norm := EvIn.assign (mk00 _)
  have c2 : EvIn P G O 1 (e0.set 1 (.arr [])) (.assign 2 [] (.mk (.lit 0) (.lit 0)))
      ((e0.set 1 (.arr [])).set 2 (.arr [])) .norm := EvIn.assign (mk00 _)
  have c3 : EvIn P G O 1 ((e0.set 1 (.arr [])).set 2 (.arr [])) (.assign 3 [] (.lit 0))
      (((e0.set 1 (.arr [])).set 2 (.arr [])).set 3 (.int 0)) .norm := EvIn.assign rfl
  have c4 : EvIn P G O 1 (((e0.set 1 (.arr [])).set 2 (.arr [])).set 3 (.int 0))
      (.assign 5 [] (.mk (.lit 3) (.mk (.lit 1) (.mk (.lit 4) (.lit 0))))) e4 .norm := EvIn.assign (mkNil _)
  have ha : evalVs G e4 [(.var 0)] = some [bytesV priv] := by
    simp [evalVs_cons, e4, e0, Env.set, Env.ofList]
  have hsb := H1 priv
  unfold pubOf
  cases hs : Model.SM2.scalarBaseMult X priv with
  | panic =>
    rw [hs] at hsb
    simp only [Outcome.bind_panic]
    refine ⟨(fun x y h => nomatch h), (fun h => nomatch h), fun _ => ?_⟩
    exact Fails.seq_right c1 (Fails.seq_right c2 (Fails.seq_right c3 (Fails.seq_right c4
      (Fails.seq_left (Fails.call ha hsb)))))
  | err =>
    rw [hs] at hsb
    simp only [Outcome.bind_err]
    refine ⟨(fun x y h => nomatch h), fun _ => ?_, (fun h => nomatch h)⟩
    let e5 : Env := (e4.set 6 nilPointV).set 7 (.int 1)
    let e6 : Env := e5.set 5 nilPointV
    let e7 : Env := e6.set 3 (.int 1)
    have c5 : EvIn P G O (Fsbm + 1) e4 (.call [6, 7] 87 [(.var 0)]) e5 .norm := Computes.call hsb ha rfl
    have c6 : EvIn P G O 1 e5 (.assign 5 [] (.var 6)) e6 .norm :=
      EvIn.assign (by simp [e5, Env.set])
    have c7 : EvIn P G O 1 e6 (.assign 3 [] (.var 7)) e7 .norm :=
      EvIn.assign (by simp [e6, e5, Env.set])
    have hc : evalV G e7 (.op2 .ne (.var 3) (.lit 0)) = some (.int (ofBool ((1 : Int) != 0))) :=
      ne0_val (by simp [e7, Env.set])
    have sr : evalVs G e7 [(.var 1), (.var 2), (.var 3)] = some [.arr [], .arr [], .int 1] := by
      simp [evalVs_cons, e7, e6, e5, e4, Env.set]
    have c8 : EvIn P G O 2 e7 dIte1 e7 (.ret [.arr [], .arr [], .int 1]) := EvIn.ite hc rfl (EvIn.ret sr)
    exact ⟨e7, (EvIn.seq c1 (EvIn.seq c2 (EvIn.seq c3 (EvIn.seq c4 (EvIn.seq c5 (EvIn.seq c6 (EvIn.seq c7
      (EvIn.seq_stop c8 (by simp))))))))).mono (by simp only [fuelDerive]; omega)⟩
  | ok pub =>
    rw [hs] at hsb
    simp only [Outcome.bind_ok]
    let pb := Model.Point.bytes X.C pub true
    let e5 : Env := (e4.set 6 (ptV enc pub)).set 7 (.int 0)
    let e6 : Env := e5.set 5 (ptV enc pub)
    let e7 : Env := e6.set 3 (.int 0)
    let e8 : Env := e7.set 8 (.arr [])
    let e9 : Env := e8.set 9 (bytesV pb)
    let e10 : Env := e9.set 8 (bytesV pb)
    have c5 : EvIn P G O (Fsbm + 1) e4 (.call [6, 7] 87 [(.var 0)]) e5 .norm := Computes.call hsb ha rfl
    have c6 : EvIn P G O 1 e5 (.assign 5 [] (.var 6)) e6 .norm :=
      EvIn.assign (by simp [e5, Env.set])
    have c7 : EvIn P G O 1 e6 (.assign 3 [] (.var 7)) e7 .norm :=
      EvIn.assign (by simp [e6, e5, Env.set])
    have hc : evalV G e7 (.op2 .ne (.var 3) (.lit 0)) = some (.int (ofBool ((0 : Int) != 0))) :=
      ne0_val (by simp [e7, Env.set])
    have c8 : EvIn P G O 2 e7 dIte1 e7 .norm := EvIn.ite hc rfl (EvIn.skip _)
    have c9 : EvIn P G O 1 e7 (.assign 8 [] (.mk (.lit 0) (.lit 0))) e8 .norm := EvIn.assign (mk00 _)
    have hb : evalVs G e8 [(.var 5)] = some [ptV enc pub] := by
      simp [evalVs_cons, e8, e7, e6, Env.set]
    have c10 : EvIn P G O (Fbytes + 1) e8 (.call [9] 91 [(.var 5)]) e9 .norm := Computes.call (H2 pub) hb rfl
    have c11 : EvIn P G O 1 e9 (.assign 8 [] (.var 9)) e10 .norm :=
      EvIn.assign (by simp [e9, Env.set])
    have h8 : e10 8 = bytesV pb := by simp [e10, Env.set]
    have pre : ∀ {env' : Env} {c : Ctl} {F : Nat}, EvIn P G O F e10 (.seq dIte2 (.seq dRet .panic)) env' c →
        EvIn P G O (F + Fsbm + Fbytes + 30) e0 _ env' c := fun h =>
      (EvIn.seq c1 (EvIn.seq c2 (EvIn.seq c3 (EvIn.seq c4 (EvIn.seq c5 (EvIn.seq c6 (EvIn.seq c7
        (EvIn.seq c8 (EvIn.seq c9 (EvIn.seq c10 (EvIn.seq c11 h))))))))))).mono (by omega)
    by_cases hl : pb.length = 65
    · have hne : ¬ (Model.Point.bytes X.C pub true).length ≠ 65 := fun h => h hl
      rw [if_neg hne]
      refine ⟨fun x y h => ?_, (fun h => nomatch h), (fun h => nomatch h)⟩
      simp only [Outcome.ok.injEq, Prod.mk.injEq] at h
      obtain ⟨hx, hy⟩ := h
      have c12 : EvIn P G O 2 e10 dIte2 e10 .norm := EvIn.ite (len_ne65_false h8 hl) rfl (EvIn.skip _)
      have s1 : evalV G e10 (.slice (.var 8) (.lit 1) (.lit 33)) = some (bytesV x) := by
        rw [← hx]
        exact slice_bytes (lo := 1) (hi := 33) h8 rfl rfl (by omega) (by omega)
      have s2 : evalV G e10 (.slice (.var 8) (.lit 33) (.len (.var 8))) = some (bytesV y) := by
        rw [← hy]
        have := slice_bytes (G := G) (lo := 33) (hi := pb.length) (elo := .lit 33) (ehi := .len (.var 8)) h8 rfl
          (len_bytes h8) (by omega) (Nat.le_refl _)
        rw [this, List.take_of_length_le (by simp only [List.length_drop]; omega)]
      have sr : evalVs G e10 [(.slice (.var 8) (.lit 1) (.lit 33)), (.slice (.var 8) (.lit 33) (.len (.var 8))), (.lit 0)]
          = some [bytesV x, bytesV y, .int 0] := by
        simp only [evalVs_cons, evalVs_nil, s1, s2, evalV_lit]
      exact ⟨e10, (pre (EvIn.seq c12 (EvIn.seq_stop (EvIn.ret sr) (by simp)))).mono
        (by simp only [fuelDerive]; omega)⟩
    · have hne : (Model.Point.bytes X.C pub true).length ≠ 65 := hl
      rw [if_pos hne]
      refine ⟨(fun x y h => nomatch h), fun _ => ?_, (fun h => nomatch h)⟩
      have sr : evalVs G e10 [(.mk (.lit 0) (.lit 0)), (.mk (.lit 0) (.lit 0)), (.lit 1)]
          = some [.arr [], .arr [], .int 1] := rfl
      have c12 : EvIn P G O 2 e10 dIte2 e10 (.ret [.arr [], .arr [], .int 1]) :=
        EvIn.ite (len_ne65_true h8 hl) rfl (EvIn.ret sr)
      exact ⟨e10, (pre (EvIn.seq_stop c12 (by simp))).mono (by simp only [fuelDerive]; omega)⟩

end Derive

end SMGo.Proofs.CTIRRefineKeys
