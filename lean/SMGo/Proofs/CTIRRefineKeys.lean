/-
  Refinement MODULO CALLEES AND THE READER: the generated IR (SMGo/Gen/CTIRProg.lean) of
    * `fn_96` sm2.DerivePublic  vs  `Model.SM2.derivePublic`   (`ir_derivePublic_eq_model`, body level `derive_body`),
    * `fn_97` sm2.GenerateKey   vs  `Model.SM2.generateKey`    (`ir_generateKey_eq_model`, `…_len32`, `…_script`,
      `ir_generateKey_nil`; body level `gen_body`, `gen_body_nil`; the rejection loop `gk_loop`)
  of /repo/sm2/sm2.go (model: SMGo/Model/SM2Proto.lean).

  CALLEES.
  * internal.ScalarBaseMult (87) and (*SM2Point).Bytes (91) are HYPOTHESES (`SbmAt`, `BytesSpec`; `Computes` of
    CTIRRefineField with fuels `Fsbm`, `Fbytes`; `CalleeFails` of CTIRRefineComb where the model panics); points are
    encoded by `CTIRRefinePointA.ptV enc`, the nil point of the error path is `CTIRRefineComb.nilPointV`.
  * sm2.TestPrivateKey (1) and utils.ConstantTimeCmp (0) are the PROVED refinements of CTIRRefineCurve
    (`test_body_ok`, `test_body_stuck` through `EvIn.call` / `Stuck.call`), whence the hypothesis
    `G 5 = bytesV (Model.SM2.nMinus1Bytes X)` on the globals (true for the generated `globals` and every context with
    `X.n = param_N`: `globals_nMinus1_ctx`).
  * io.ReadFull is the external 11 `[reader, 32, position] ↦ [buffer, n, err, next position]`; hypothesis `ReaderSpec`
    relates it to `Model.SM2.readFull` on a family of scripts `sc p` (script at reader position `p`).  The hypothesis
    is satisfiable: `readerOracle base s` (answers external 11 from the script `s`) satisfies it with
    `sc = scriptAt s` (`readerOracle_spec`).  The reader handle is `.int r` with `r ≠ 0` (`.int 0` = nil reader).

  FUELS (explicit, no termination hypothesis): DerivePublic `fuelDerive Fsbm Fbytes = Fsbm + Fbytes + 40`;
  GenerateKey `fuelGen n Fsbm Fbytes = n·640 + Fsbm + Fbytes + 62` with `n = avail (sc 0) / 32 + 1` the model's bound on
  the number of candidates (one round of the loop needs `fuelTest + 20 = 612 ≤ 636`); nil reader: 20.

  Model/IR DISAGREEMENTS: NONE found.
  * The model's `genKeyLoop` is fuel-indexed and answers `.err` when its fuel runs out, the Go loop is unbounded.
    With the model's own bound `avail sc / 32 + 1` this never happens: every successful `readFull … 32` lowers
    `avail` by exactly 32 (`readFull_avail`), so the invariant `avail (sc p) < 32 · fuel` is maintained and the
    case `fuel = 0` is unreachable (`gk_loop`).  No hypothesis is needed for it.
  * On the error paths the FIRST result of GenerateKey (`priv`) is not nil in the IR (nor in Go: named results):
    it is the 32-byte buffer as the failing ReadFull left it, resp. the accepted candidate; the model's `.err`
    carries no value, so the theorem states `∃ v, … = .ret [v, .arr [], .arr [], .int 1]`.  DerivePublic returns
    `[.arr [], .arr [], .int 1]` on both error paths.
  * `.panic` of the model arises only from a panic of ScalarBaseMult (hypothesis `CalleeFails`) or of TestPrivateKey
    (context whose `nMinus1Bytes` is shorter than 32 bytes: ConstantTimeCmp indexes out of range; the IR is stuck).

  Sanity evaluation of the real program (`runT prog globals (readerOracle (fun _ _ => []) s) 30000 97 [.int 1]` against
  `Model.SM2.generateKey Model.SM2.ctxFiat (some s)`; scratch file, 40 s): `s = []` and `s = [.fail, …]`: model `.err`,
  IR `[_, [], [], 1]`; `s = [data 0^40, zero, data 7^30]` (first candidate 0 rejected, second read spans two items):
  both ok, identical `priv, x, y`, 64 bytes consumed; `s = [data FF^32, data 0^32, data 1^16, zero, data 2^20]` (two
  rejections): both ok, identical results, 96 bytes consumed; nil reader: `[[], [], [], 1]`.
-/
import SMGo.Proofs.CTIRRefinePointA
import SMGo.Proofs.CTIRRefineComb
import SMGo.Proofs.CTIRRefineCurve
import SMGo.Gen.CTIRProg
import SMGo.Model.SM2Proto
open SMGo SMGo.Model.CTIR SMGo.Gen.CTIRProg SMGo.Proofs.CTIRRefineUtils SMGo.Proofs.CTIRRefineCurve
open SMGo.Proofs.CTIRRefineField (Computes)
open SMGo.Proofs.CTIRRefineComb (CalleeFails Fails nilPointV runV_of_Fails)
open SMGo.Proofs.CTIRRefinePointA (ptV)
open SMGo.Model.SM2 (Script readFull avail genKeyLoop)
set_option linter.unusedSimpArgs false
set_option linter.unusedVariables false

namespace SMGo.Proofs.CTIRRefineKeys

/-! ## 1. The model: `readFull`, `avail`, `genKeyLoop`, `generateKey`, `derivePublic` -/

section ModelFacts

/-- a successful `readFull` delivers exactly `want` more bytes -/
theorem readFull_length : ∀ (sc : Script) (want : Nat) (acc b : Bytes) (rest : Script),
    readFull sc want acc = (some b, rest) → b.length = acc.length + want := by
  intro sc
  induction sc with
  | nil => intro want acc b rest h; simp [readFull] at h
  | cons it sc ih =>
    intro want acc b rest h
    cases it with
    | fail => simp [readFull] at h
    | zero => exact ih want acc b rest (by simpa [readFull] using h)
    | data d =>
      simp only [readFull] at h
      by_cases hd : d.length ≥ want
      · rw [if_pos hd] at h
        simp only [Prod.mk.injEq, Option.some.injEq] at h
        obtain ⟨h1, _⟩ := h
        subst h1
        simp only [List.length_append, List.length_take]
        omega
      · rw [if_neg hd] at h
        have := ih _ _ _ _ h
        simp only [List.length_append] at this
        omega

/-- a successful `readFull` lowers `avail` by exactly `want` -/
theorem readFull_avail : ∀ (sc : Script) (want : Nat) (acc b : Bytes) (rest : Script),
    readFull sc want acc = (some b, rest) → avail rest + want = avail sc := by
  intro sc
  induction sc with
  | nil => intro want acc b rest h; simp [readFull] at h
  | cons it sc ih =>
    intro want acc b rest h
    cases it with
    | fail => simp [readFull] at h
    | zero =>
      have := ih want acc b rest (by simpa [readFull] using h)
      simpa [avail] using this
    | data d =>
      simp only [readFull] at h
      by_cases hd : d.length ≥ want
      · rw [if_pos hd] at h
        simp only [Prod.mk.injEq, Option.some.injEq] at h
        obtain ⟨_, h2⟩ := h
        subst h2
        by_cases he : d.length = want
        · rw [if_pos he]; simp only [avail]; omega
        · rw [if_neg he]; simp only [avail, List.length_drop]; omega
      · rw [if_neg hd] at h
        have := ih _ _ _ _ h
        simp only [avail]
        omega

variable {α β : Type}

theorem genKeyLoop_succ (X : Model.SM2.Ctx α β) (fuel : Nat) (sc : Script) :
    genKeyLoop X (fuel + 1) sc =
      match readFull sc 32 [] with
      | (none, _) => .err
      | (some priv, sc') =>
        match Model.SM2.testPrivateKey X priv with
        | .ok 0 => .ok (priv, sc')
        | .ok _ => genKeyLoop X fuel sc'
        | _ => .panic := rfl

theorem genKeyLoop_none (X : Model.SM2.Ctx α β) (fuel : Nat) {sc rest : Script}
    (h : readFull sc 32 [] = (none, rest)) : genKeyLoop X (fuel + 1) sc = .err := by
  rw [genKeyLoop_succ, h]

theorem genKeyLoop_accept (X : Model.SM2.Ctx α β) (fuel : Nat) {sc rest : Script} {b : Bytes}
    (h : readFull sc 32 [] = (some b, rest)) (ht : Model.SM2.testPrivateKey X b = .ok 0) :
    genKeyLoop X (fuel + 1) sc = .ok (b, rest) := by
  rw [genKeyLoop_succ, h]
  simp only [ht]

theorem genKeyLoop_reject (X : Model.SM2.Ctx α β) (fuel : Nat) {sc rest : Script} {b : Bytes} {r : Int}
    (h : readFull sc 32 [] = (some b, rest)) (ht : Model.SM2.testPrivateKey X b = .ok r) (hr : r ≠ 0) :
    genKeyLoop X (fuel + 1) sc = genKeyLoop X fuel rest := by
  rw [genKeyLoop_succ, h]
  simp only [ht]

theorem genKeyLoop_panic (X : Model.SM2.Ctx α β) (fuel : Nat) {sc rest : Script} {b : Bytes}
    (h : readFull sc 32 [] = (some b, rest)) (ht : Model.SM2.testPrivateKey X b = .panic) :
    genKeyLoop X (fuel + 1) sc = .panic := by
  rw [genKeyLoop_succ, h]
  simp only [ht]

/-- the tail shared by `DerivePublic` and `GenerateKey`: from the private key to the two coordinates -/
def pubOf (X : Model.SM2.Ctx α β) (priv : Bytes) : Outcome (Bytes × Bytes) :=
  Model.SM2.scalarBaseMult X priv >>= fun pub =>
    if (Model.Point.bytes X.C pub true).length ≠ 65 then .err
    else .ok (((Model.Point.bytes X.C pub true).drop 1).take 32, (Model.Point.bytes X.C pub true).drop 33)

theorem derivePublic_eq (X : Model.SM2.Ctx α β) (priv : Bytes) :
    Model.SM2.derivePublic X priv = pubOf X priv := rfl

theorem generateKey_some (X : Model.SM2.Ctx α β) (sc : Script) :
    Model.SM2.generateKey X (some sc) =
      (genKeyLoop X (avail sc / 32 + 1) sc >>= fun r =>
        pubOf X r.1 >>= fun xy => .ok ((r.1, xy.1, xy.2), avail sc - avail r.2)) := by
  simp only [Model.SM2.generateKey, pubOf]
  cases genKeyLoop X (avail sc / 32 + 1) sc with
  | err => rfl
  | panic => rfl
  | ok r =>
    obtain ⟨priv, sc'⟩ := r
    simp only [Outcome.bind_ok]
    cases Model.SM2.scalarBaseMult X priv with
    | err => rfl
    | panic => rfl
    | ok pub =>
      simp only [Outcome.bind_ok]
      split <;> rfl

end ModelFacts

/-! ## 2. Expression facts -/

section Exprs
variable {G : Nat → Val}

theorem len_ne65_false {env : Env} {v : Nat} {pb : Bytes} (h : env v = bytesV pb) (hl : pb.length = 65) :
    evalV G env (.op2 .ne (.len (.var v)) (.lit 65)) = some (.int 0) := by
  simp only [evalV_op2, evalV_len, evalV_var, evalV_lit, h, bytesV, List.length_map, evalOp2, Option.map_some, hl]
  rfl

theorem len_ne65_true {env : Env} {v : Nat} {pb : Bytes} (h : env v = bytesV pb) (hl : pb.length ≠ 65) :
    evalV G env (.op2 .ne (.len (.var v)) (.lit 65)) = some (.int 1) := by
  simp only [evalV_op2, evalV_len, evalV_var, evalV_lit, h, bytesV, List.length_map, evalOp2, Option.map_some]
  have : (((pb.length : Nat) : Int) != 65) = true := by
    simp only [bne_iff_ne, ne_eq]; omega
  rw [this]; rfl

theorem slice_bytes {env : Env} {v : Nat} {pb : Bytes} {elo ehi : Expr} {lo hi : Nat} (h : env v = bytesV pb)
    (hlo : evalV G env elo = some (.int (lo : Int))) (hhi : evalV G env ehi = some (.int (hi : Int)))
    (h1 : lo ≤ hi) (h2 : hi ≤ pb.length) :
    evalV G env (.slice (.var v) elo ehi) = some (bytesV ((pb.drop lo).take (hi - lo))) := by
  rw [evalV_slice, evalV_var, h, hlo, hhi]
  simp only [bytesV, sliceList, List.length_map]
  rw [if_neg (by omega)]
  simp [List.map_take, List.map_drop]

theorem len_bytes {env : Env} {v : Nat} {pb : Bytes} (h : env v = bytesV pb) :
    evalV G env (.len (.var v)) = some (.int (pb.length : Int)) := by
  simp only [evalV_len, evalV_var, h, bytesV, List.length_map]

theorem ne0_val {env : Env} {v : Nat} {n : Int} (h : env v = .int n) :
    evalV G env (.op2 .ne (.var v) (.lit 0)) = some (.int (ofBool (n != 0))) := by
  simp only [evalV_op2, evalV_var, evalV_lit, h, evalOp2, Option.map_some]

theorem mk00 (env : Env) : evalV G env (.mk (.lit 0) (.lit 0)) = some (.arr []) := rfl

theorem mkNil (env : Env) :
    evalV G env (.mk (.lit 3) (.mk (.lit 1) (.mk (.lit 4) (.lit 0)))) = some nilPointV := rfl

end Exprs


/-! ## 3. `sm2.DerivePublic` (`fn_96`) -/

/-- the contract of `internal.ScalarBaseMult` (function 87) against `Model.SM2.scalarBaseMult` -/
def SbmAt {α β : Type} (P : Prog) (G : Nat → Val) (O : Oracle) (X : Model.SM2.Ctx α β) (enc : α → List Nat)
    (Fsbm : Nat) (k : Bytes) : Prop :=
  match Model.SM2.scalarBaseMult X k with
  | .ok r => Computes P G O 87 Fsbm [bytesV k] [ptV enc r, .int 0]
  | .err => Computes P G O 87 Fsbm [bytesV k] [nilPointV, .int 1]
  | .panic => CalleeFails P G O 87 [bytesV k]

/-- the contract of `(*SM2Point).Bytes` (function 91) against `Model.Point.bytes … true` -/
def BytesSpec {α β : Type} (P : Prog) (G : Nat → Val) (O : Oracle) (X : Model.SM2.Ctx α β) (enc : α → List Nat)
    (Fbytes : Nat) : Prop :=
  ∀ p, Computes P G O 91 Fbytes [ptV enc p] [bytesV (Model.Point.bytes X.C p true)]

def dIte1 : Stmt := .ite (.op2 .ne (.var 3) (.lit 0)) (.ret [(.var 1), (.var 2), (.var 3)]) .skip
def dIte2 : Stmt := .ite (.op2 .ne (.len (.var 8)) (.lit 65))
  (.ret [(.mk (.lit 0) (.lit 0)), (.mk (.lit 0) (.lit 0)), (.lit 1)]) .skip
def dRet : Stmt :=
  .ret [(.slice (.var 8) (.lit 1) (.lit 33)), (.slice (.var 8) (.lit 33) (.len (.var 8))), (.lit 0)]

theorem fn_96_body : fn_96.body =
    .seq (.assign 1 [] (.mk (.lit 0) (.lit 0))) (.seq (.assign 2 [] (.mk (.lit 0) (.lit 0)))
    (.seq (.assign 3 [] (.lit 0)) (.seq (.assign 5 [] (.mk (.lit 3) (.mk (.lit 1) (.mk (.lit 4) (.lit 0)))))
    (.seq (.call [6, 7] 87 [(.var 0)]) (.seq (.assign 5 [] (.var 6)) (.seq (.assign 3 [] (.var 7))
    (.seq dIte1 (.seq (.assign 8 [] (.mk (.lit 0) (.lit 0))) (.seq (.call [9] 91 [(.var 5)])
    (.seq (.assign 8 [] (.var 9)) (.seq dIte2 (.seq dRet .panic)))))))))))) := rfl

section Derive
variable {P : Prog} {G : Nat → Val} {O : Oracle} {α β : Type} {X : Model.SM2.Ctx α β} {enc : α → List Nat}
variable {Fsbm Fbytes : Nat}

/-- fuel for the body of DerivePublic -/
def fuelDerive (Fsbm Fbytes : Nat) : Nat := Fsbm + Fbytes + 40

theorem derive_body (priv : Bytes) (hsb : SbmAt P G O X enc Fsbm priv) (H2 : BytesSpec P G O X enc Fbytes) :
    (∀ x y, pubOf X priv = .ok (x, y) →
      ∃ env', EvIn P G O (fuelDerive Fsbm Fbytes) (Env.ofList [bytesV priv]) fn_96.body env'
        (.ret [bytesV x, bytesV y, .int 0])) ∧
    (pubOf X priv = .err →
      ∃ env', EvIn P G O (fuelDerive Fsbm Fbytes) (Env.ofList [bytesV priv]) fn_96.body env'
        (.ret [.arr [], .arr [], .int 1])) ∧
    (pubOf X priv = .panic → Fails P G O (Env.ofList [bytesV priv]) fn_96.body) := by
  rw [fn_96_body]
  let e0 : Env := Env.ofList [bytesV priv]
  let e4 : Env := (((e0.set 1 (.arr [])).set 2 (.arr [])).set 3 (.int 0)).set 5 nilPointV
  have c1 : EvIn P G O 1 e0 (.assign 1 [] (.mk (.lit 0) (.lit 0))) (e0.set 1 (.arr [])) .norm := EvIn.assign (mk00 _)
  have c2 : EvIn P G O 1 (e0.set 1 (.arr [])) (.assign 2 [] (.mk (.lit 0) (.lit 0)))
      ((e0.set 1 (.arr [])).set 2 (.arr [])) .norm := EvIn.assign (mk00 _)
  have c3 : EvIn P G O 1 ((e0.set 1 (.arr [])).set 2 (.arr [])) (.assign 3 [] (.lit 0))
      (((e0.set 1 (.arr [])).set 2 (.arr [])).set 3 (.int 0)) .norm := EvIn.assign rfl
  have c4 : EvIn P G O 1 (((e0.set 1 (.arr [])).set 2 (.arr [])).set 3 (.int 0))
      (.assign 5 [] (.mk (.lit 3) (.mk (.lit 1) (.mk (.lit 4) (.lit 0))))) e4 .norm := EvIn.assign (mkNil _)
  have ha : evalVs G e4 [(.var 0)] = some [bytesV priv] := by
    simp [evalVs_cons, e4, e0, Env.set, Env.ofList]
  unfold SbmAt at hsb
  unfold pubOf
  cases hs : Model.SM2.scalarBaseMult X priv with
  | panic =>
    rw [hs] at hsb
    simp only [Outcome.bind_panic]
    refine ⟨(fun x y h => nomatch h), (fun h => nomatch h), fun _ => ?_⟩
    exact Fails.seq_right c1 (Fails.seq_right c2 (Fails.seq_right c3 (Fails.seq_right c4
      (Fails.seq_left (Fails.call ha hsb)))))
  | err =>
    rw [hs] at hsb
    simp only [Outcome.bind_err]
    refine ⟨(fun x y h => nomatch h), fun _ => ?_, (fun h => nomatch h)⟩
    let e5 : Env := (e4.set 6 nilPointV).set 7 (.int 1)
    let e6 : Env := e5.set 5 nilPointV
    let e7 : Env := e6.set 3 (.int 1)
    have c5 : EvIn P G O (Fsbm + 1) e4 (.call [6, 7] 87 [(.var 0)]) e5 .norm := Computes.call hsb ha rfl
    have c6 : EvIn P G O 1 e5 (.assign 5 [] (.var 6)) e6 .norm :=
      EvIn.assign (by simp [e5, Env.set])
    have c7 : EvIn P G O 1 e6 (.assign 3 [] (.var 7)) e7 .norm :=
      EvIn.assign (by simp [e6, e5, Env.set])
    have hc : evalV G e7 (.op2 .ne (.var 3) (.lit 0)) = some (.int (ofBool ((1 : Int) != 0))) :=
      ne0_val (by simp [e7, Env.set])
    have sr : evalVs G e7 [(.var 1), (.var 2), (.var 3)] = some [.arr [], .arr [], .int 1] := by
      simp [evalVs_cons, e7, e6, e5, e4, Env.set]
    have c8 : EvIn P G O 2 e7 dIte1 e7 (.ret [.arr [], .arr [], .int 1]) := EvIn.ite hc rfl (EvIn.ret sr)
    exact ⟨e7, (EvIn.seq c1 (EvIn.seq c2 (EvIn.seq c3 (EvIn.seq c4 (EvIn.seq c5 (EvIn.seq c6 (EvIn.seq c7
      (EvIn.seq_stop c8 (by simp))))))))).mono (by simp only [fuelDerive]; omega)⟩
  | ok pub =>
    rw [hs] at hsb
    simp only [Outcome.bind_ok]
    let pb := Model.Point.bytes X.C pub true
    let e5 : Env := (e4.set 6 (ptV enc pub)).set 7 (.int 0)
    let e6 : Env := e5.set 5 (ptV enc pub)
    let e7 : Env := e6.set 3 (.int 0)
    let e8 : Env := e7.set 8 (.arr [])
    let e9 : Env := e8.set 9 (bytesV pb)
    let e10 : Env := e9.set 8 (bytesV pb)
    have c5 : EvIn P G O (Fsbm + 1) e4 (.call [6, 7] 87 [(.var 0)]) e5 .norm := Computes.call hsb ha rfl
    have c6 : EvIn P G O 1 e5 (.assign 5 [] (.var 6)) e6 .norm :=
      EvIn.assign (by simp [e5, Env.set])
    have c7 : EvIn P G O 1 e6 (.assign 3 [] (.var 7)) e7 .norm :=
      EvIn.assign (by simp [e6, e5, Env.set])
    have hc : evalV G e7 (.op2 .ne (.var 3) (.lit 0)) = some (.int (ofBool ((0 : Int) != 0))) :=
      ne0_val (by simp [e7, Env.set])
    have c8 : EvIn P G O 2 e7 dIte1 e7 .norm := EvIn.ite hc rfl (EvIn.skip _)
    have c9 : EvIn P G O 1 e7 (.assign 8 [] (.mk (.lit 0) (.lit 0))) e8 .norm := EvIn.assign (mk00 _)
    have hb : evalVs G e8 [(.var 5)] = some [ptV enc pub] := by
      simp [evalVs_cons, e8, e7, e6, Env.set]
    have c10 : EvIn P G O (Fbytes + 1) e8 (.call [9] 91 [(.var 5)]) e9 .norm := Computes.call (H2 pub) hb rfl
    have c11 : EvIn P G O 1 e9 (.assign 8 [] (.var 9)) e10 .norm :=
      EvIn.assign (by simp [e9, Env.set])
    have h8 : e10 8 = bytesV pb := by simp [e10, Env.set]
    have pre : ∀ {env' : Env} {c : Ctl} {F : Nat}, EvIn P G O F e10 (.seq dIte2 (.seq dRet .panic)) env' c →
        EvIn P G O (F + Fsbm + Fbytes + 30) e0 _ env' c := fun h =>
      (EvIn.seq c1 (EvIn.seq c2 (EvIn.seq c3 (EvIn.seq c4 (EvIn.seq c5 (EvIn.seq c6 (EvIn.seq c7
        (EvIn.seq c8 (EvIn.seq c9 (EvIn.seq c10 (EvIn.seq c11 h))))))))))).mono (by omega)
    by_cases hl : pb.length = 65
    · have hne : ¬ (Model.Point.bytes X.C pub true).length ≠ 65 := fun h => h hl
      rw [if_neg hne]
      refine ⟨fun x y h => ?_, (fun h => nomatch h), (fun h => nomatch h)⟩
      simp only [Outcome.ok.injEq, Prod.mk.injEq] at h
      obtain ⟨hx, hy⟩ := h
      have c12 : EvIn P G O 2 e10 dIte2 e10 .norm := EvIn.ite (len_ne65_false h8 hl) rfl (EvIn.skip _)
      have s1 : evalV G e10 (.slice (.var 8) (.lit 1) (.lit 33)) = some (bytesV x) := by
        rw [← hx]
        exact slice_bytes (lo := 1) (hi := 33) h8 rfl rfl (by omega) (by omega)
      have s2 : evalV G e10 (.slice (.var 8) (.lit 33) (.len (.var 8))) = some (bytesV y) := by
        rw [← hy]
        have := slice_bytes (G := G) (lo := 33) (hi := pb.length) (elo := .lit 33) (ehi := .len (.var 8)) h8 rfl
          (len_bytes h8) (by omega) (Nat.le_refl _)
        rw [this, List.take_of_length_le (by simp only [List.length_drop]; omega)]
      have sr : evalVs G e10 [(.slice (.var 8) (.lit 1) (.lit 33)), (.slice (.var 8) (.lit 33) (.len (.var 8))), (.lit 0)]
          = some [bytesV x, bytesV y, .int 0] := by
        simp only [evalVs_cons, evalVs_nil, s1, s2, evalV_lit]
      exact ⟨e10, (pre (EvIn.seq c12 (EvIn.seq_stop (EvIn.ret sr) (by simp)))).mono
        (by simp only [fuelDerive]; omega)⟩
    · have hne : (Model.Point.bytes X.C pub true).length ≠ 65 := hl
      rw [if_pos hne]
      refine ⟨(fun x y h => nomatch h), fun _ => ?_, (fun h => nomatch h)⟩
      have sr : evalVs G e10 [(.mk (.lit 0) (.lit 0)), (.mk (.lit 0) (.lit 0)), (.lit 1)]
          = some [.arr [], .arr [], .int 1] := rfl
      have c12 : EvIn P G O 2 e10 dIte2 e10 (.ret [.arr [], .arr [], .int 1]) :=
        EvIn.ite (len_ne65_true h8 hl) rfl (EvIn.ret sr)
      exact ⟨e10, (pre (EvIn.seq_stop c12 (by simp))).mono (by simp only [fuelDerive]; omega)⟩

end Derive

/-! ## 4. The reader: external 11 (`io.ReadFull`) against `Model.SM2.readFull` -/

/-- the contract of the external `io.ReadFull` (external 11; arguments reader, length, position; results buffer, n,
    err, next position) against the scripted reader of the model: `sc p` is the script at reader position `p` -/
def ReaderSpec (O : Oracle) (rd : Val) (sc : Nat → Script) : Prop :=
  ∀ p : Nat,
    match readFull (sc p) 32 [] with
    | (some b, rest) =>
        O 11 [rd, .int 32, .int (p : Int)] = [bytesV b, .int 32, .int 0, .int ((p + 1 : Nat) : Int)] ∧ sc (p + 1) = rest
    | (none, rest) =>
        ∃ buf n e, O 11 [rd, .int 32, .int (p : Int)] = [buf, .int n, .int e, .int ((p + 1 : Nat) : Int)] ∧ e ≠ 0 ∧
          sc (p + 1) = rest

/-- the script after `p` calls of `io.ReadFull(rand, buf[:32])` -/
def scriptAt (s : Script) : Nat → Script
  | 0 => s
  | p + 1 => (readFull (scriptAt s p) 32 []).2

/-- a concrete oracle: external 11 is answered from the script `s` (the reader position selects how many reads have
    been made), every other external is delegated to `base` -/
def readerOracle (base : Oracle) (s : Script) : Oracle := fun name args =>
  if name = 11 then
    match args with
    | [_, _, .int p] =>
      match readFull (scriptAt s p.toNat) 32 [] with
      | (some b, _) => [bytesV b, .int 32, .int 0, .int (p + 1)]
      | (none, _) => [.arr (List.replicate 32 (.int 0)), .int 0, .int 1, .int (p + 1)]
    | _ => []
  else base name args

theorem readerOracle_other (base : Oracle) (s : Script) {name : Nat} (h : name ≠ 11) (args : List Val) :
    readerOracle base s name args = base name args := by
  simp only [readerOracle, if_neg h]

/-- the hypothesis on the reader is satisfiable: `readerOracle` satisfies it, for any reader handle -/
theorem readerOracle_spec (base : Oracle) (s : Script) (rd : Val) :
    ReaderSpec (readerOracle base s) rd (scriptAt s) := by
  intro p
  cases h : readFull (scriptAt s p) 32 [] with
  | mk ob rest =>
    have hs : scriptAt s (p + 1) = rest := by simp only [scriptAt, h]
    cases ob with
    | some b =>
      refine ⟨?_, hs⟩
      simp only [readerOracle, if_pos, Int.toNat_natCast, h]
      rfl
    | none =>
      refine ⟨.arr (List.replicate 32 (.int 0)), 0, 1, ?_, by decide, hs⟩
      simp only [readerOracle, if_pos, Int.toNat_natCast, h]
      rfl


/-! ## 5. `sm2.GenerateKey` (`fn_97`) -/

def gErrS : Stmt := .seq (.assign 4 [] (.lit 1)) (.ret [(.var 1), (.var 2), (.var 3), (.var 4)])
def gNilS : Stmt := .ite (.op2 .eq (.var 0) (.lit 0)) gErrS .skip
def gExtS : Stmt := .ext [1, 7, 8, 6] 11 true [(.var 0), (.len (.var 1)), (.var 6)]
def gIteE : Stmt := .ite (.op2 .ne (.var 4) (.lit 0)) gErrS .skip
def gCall1 : Stmt := .call [9] 1 [(.var 1)]
def gDecl : Stmt := .declass 10 7 (.op2 .eq (.var 9) (.lit 0))
def gIteB : Stmt := .ite (.var 10) (.brk) .skip
def gBodyS : Stmt := .seq gExtS (.seq (.assign 4 [] (.var 8)) (.seq gIteE (.seq gCall1 (.seq gDecl gIteB))))
def gLoopS : Stmt := .loop (.lit 1) gBodyS .skip
def gIte1 : Stmt := .ite (.op2 .ne (.var 4) (.lit 0)) (.ret [(.var 1), (.var 2), (.var 3), (.var 4)]) .skip
def gIte2 : Stmt := .ite (.op2 .ne (.len (.var 14)) (.lit 65)) gErrS .skip
def gRet : Stmt :=
  .ret [(.var 1), (.slice (.var 14) (.lit 1) (.lit 33)), (.slice (.var 14) (.lit 33) (.len (.var 14))), (.lit 0)]
def gTailS : Stmt :=
  .seq (.assign 11 [] (.mk (.lit 3) (.mk (.lit 1) (.mk (.lit 4) (.lit 0))))) (.seq (.call [12, 13] 87 [(.var 1)])
  (.seq (.assign 11 [] (.var 12)) (.seq (.assign 4 [] (.var 13)) (.seq gIte1
  (.seq (.assign 14 [] (.mk (.lit 0) (.lit 0))) (.seq (.call [15] 91 [(.var 11)]) (.seq (.assign 14 [] (.var 15))
  (.seq gIte2 (.seq gRet .panic)))))))))

theorem fn_97_body : fn_97.body =
    .seq (.assign 1 [] (.mk (.lit 0) (.lit 0))) (.seq (.assign 2 [] (.mk (.lit 0) (.lit 0)))
    (.seq (.assign 3 [] (.mk (.lit 0) (.lit 0))) (.seq (.assign 4 [] (.lit 0)) (.seq (.assign 6 [] (.lit 0))
    (.seq gNilS (.seq (.assign 1 [] (.mk (.lit 32) (.lit 0))) (.seq gLoopS gTailS))))))) := rfl

section Generate
variable {P : Prog} {G : Nat → Val} {O : Oracle} {α β : Type} {X : Model.SM2.Ctx α β} {enc : α → List Nat}
variable {Fsbm Fbytes : Nat}

theorem evIn_ext' {env env1 : Env} {lhs : List Nat} {name : Nat} {leaky : Bool} {args : List Expr} {vs : List Val}
    (ha : evalVs G env args = some vs) (hset : env.setMany lhs (O name vs) = some env1) :
    EvIn P G O 1 env (.ext lhs name leaky args) env1 .norm := by
  intro f hf; obtain ⟨f, rfl⟩ := Nat.exists_eq_add_of_le' hf
  rw [execV_ext, ha]
  simp [hset]

/-- the error exit `err = errors.New(…); return` -/
theorem gErr_ok {env : Env} {v : Val} (h1 : env 1 = v) (h2 : env 2 = .arr []) (h3 : env 3 = .arr []) :
    EvIn P G O 3 env gErrS (env.set 4 (.int 1)) (.ret [v, .arr [], .arr [], .int 1]) := by
  have sr : evalVs G (env.set 4 (.int 1)) [(.var 1), (.var 2), (.var 3), (.var 4)] = some [v, .arr [], .arr [], .int 1] := by
    simp [evalVs_cons, Env.set, h1, h2, h3]
  exact EvIn.seq (EvIn.assign rfl) (EvIn.ret sr)

/-- from `pub, err = internal.ScalarBaseMult(priv)` to the end -/
theorem gk_tail {env : Env} {priv : Bytes} (hsb : SbmAt P G O X enc Fsbm priv) (H2 : BytesSpec P G O X enc Fbytes)
    (h1 : env 1 = bytesV priv) (h2 : env 2 = .arr []) (h3 : env 3 = .arr []) :
    (∀ x y, pubOf X priv = .ok (x, y) →
      ∃ env', EvIn P G O (fuelDerive Fsbm Fbytes) env gTailS env' (.ret [bytesV priv, bytesV x, bytesV y, .int 0])) ∧
    (pubOf X priv = .err →
      ∃ env', EvIn P G O (fuelDerive Fsbm Fbytes) env gTailS env' (.ret [bytesV priv, .arr [], .arr [], .int 1])) ∧
    (pubOf X priv = .panic → Fails P G O env gTailS) := by
  unfold gTailS
  let e1 : Env := env.set 11 nilPointV
  have c1 : EvIn P G O 1 env (.assign 11 [] (.mk (.lit 3) (.mk (.lit 1) (.mk (.lit 4) (.lit 0))))) e1 .norm :=
    EvIn.assign (mkNil _)
  have ha : evalVs G e1 [(.var 1)] = some [bytesV priv] := by
    simp [evalVs_cons, e1, Env.set, h1]
  unfold SbmAt at hsb
  unfold pubOf
  cases hs : Model.SM2.scalarBaseMult X priv with
  | panic =>
    rw [hs] at hsb
    simp only [Outcome.bind_panic]
    refine ⟨(fun x y h => nomatch h), (fun h => nomatch h), fun _ => ?_⟩
    exact Fails.seq_right c1 (Fails.seq_left (Fails.call ha hsb))
  | err =>
    rw [hs] at hsb
    simp only [Outcome.bind_err]
    refine ⟨(fun x y h => nomatch h), fun _ => ?_, (fun h => nomatch h)⟩
    let e2 : Env := (e1.set 12 nilPointV).set 13 (.int 1)
    let e3 : Env := e2.set 11 nilPointV
    let e4 : Env := e3.set 4 (.int 1)
    have c2 : EvIn P G O (Fsbm + 1) e1 (.call [12, 13] 87 [(.var 1)]) e2 .norm := Computes.call hsb ha rfl
    have c3 : EvIn P G O 1 e2 (.assign 11 [] (.var 12)) e3 .norm := EvIn.assign (by simp [e2, Env.set])
    have c4 : EvIn P G O 1 e3 (.assign 4 [] (.var 13)) e4 .norm := EvIn.assign (by simp [e3, e2, Env.set])
    have hc : evalV G e4 (.op2 .ne (.var 4) (.lit 0)) = some (.int (ofBool ((1 : Int) != 0))) :=
      ne0_val (by simp [e4, Env.set])
    have sr : evalVs G e4 [(.var 1), (.var 2), (.var 3), (.var 4)] = some [bytesV priv, .arr [], .arr [], .int 1] := by
      simp [evalVs_cons, e4, e3, e2, e1, Env.set, h1, h2, h3]
    have c5 : EvIn P G O 2 e4 gIte1 e4 (.ret [bytesV priv, .arr [], .arr [], .int 1]) := EvIn.ite hc rfl (EvIn.ret sr)
    exact ⟨e4, (EvIn.seq c1 (EvIn.seq c2 (EvIn.seq c3 (EvIn.seq c4 (EvIn.seq_stop c5 (by simp)))))).mono
      (by simp only [fuelDerive]; omega)⟩
  | ok pub =>
    rw [hs] at hsb
    simp only [Outcome.bind_ok]
    let pb := Model.Point.bytes X.C pub true
    let e2 : Env := (e1.set 12 (ptV enc pub)).set 13 (.int 0)
    let e3 : Env := e2.set 11 (ptV enc pub)
    let e4 : Env := e3.set 4 (.int 0)
    let e5 : Env := e4.set 14 (.arr [])
    let e6 : Env := e5.set 15 (bytesV pb)
    let e7 : Env := e6.set 14 (bytesV pb)
    have c2 : EvIn P G O (Fsbm + 1) e1 (.call [12, 13] 87 [(.var 1)]) e2 .norm := Computes.call hsb ha rfl
    have c3 : EvIn P G O 1 e2 (.assign 11 [] (.var 12)) e3 .norm := EvIn.assign (by simp [e2, Env.set])
    have c4 : EvIn P G O 1 e3 (.assign 4 [] (.var 13)) e4 .norm := EvIn.assign (by simp [e3, e2, Env.set])
    have hc : evalV G e4 (.op2 .ne (.var 4) (.lit 0)) = some (.int (ofBool ((0 : Int) != 0))) :=
      ne0_val (by simp [e4, Env.set])
    have c5 : EvIn P G O 2 e4 gIte1 e4 .norm := EvIn.ite hc rfl (EvIn.skip _)
    have c6 : EvIn P G O 1 e4 (.assign 14 [] (.mk (.lit 0) (.lit 0))) e5 .norm := EvIn.assign (mk00 _)
    have hb : evalVs G e5 [(.var 11)] = some [ptV enc pub] := by
      simp [evalVs_cons, e5, e4, e3, Env.set]
    have c7 : EvIn P G O (Fbytes + 1) e5 (.call [15] 91 [(.var 11)]) e6 .norm := Computes.call (H2 pub) hb rfl
    have c8 : EvIn P G O 1 e6 (.assign 14 [] (.var 15)) e7 .norm := EvIn.assign (by simp [e6, Env.set])
    have h14 : e7 14 = bytesV pb := by simp [e7, Env.set]
    have g1 : e7 1 = bytesV priv := by simp [e7, e6, e5, e4, e3, e2, e1, Env.set, h1]
    have g2 : e7 2 = .arr [] := by simp [e7, e6, e5, e4, e3, e2, e1, Env.set, h2]
    have g3 : e7 3 = .arr [] := by simp [e7, e6, e5, e4, e3, e2, e1, Env.set, h3]
    have pre : ∀ {env' : Env} {c : Ctl} {F : Nat}, EvIn P G O F e7 (.seq gIte2 (.seq gRet .panic)) env' c →
        EvIn P G O (F + Fsbm + Fbytes + 30) env _ env' c := fun h =>
      (EvIn.seq c1 (EvIn.seq c2 (EvIn.seq c3 (EvIn.seq c4 (EvIn.seq c5 (EvIn.seq c6 (EvIn.seq c7
        (EvIn.seq c8 h)))))))).mono (by omega)
    by_cases hl : pb.length = 65
    · have hne : ¬ (Model.Point.bytes X.C pub true).length ≠ 65 := fun h => h hl
      rw [if_neg hne]
      refine ⟨fun x y h => ?_, (fun h => nomatch h), (fun h => nomatch h)⟩
      simp only [Outcome.ok.injEq, Prod.mk.injEq] at h
      obtain ⟨hx, hy⟩ := h
      have c9 : EvIn P G O 2 e7 gIte2 e7 .norm := EvIn.ite (len_ne65_false h14 hl) rfl (EvIn.skip _)
      have s1 : evalV G e7 (.slice (.var 14) (.lit 1) (.lit 33)) = some (bytesV x) := by
        rw [← hx]
        exact slice_bytes (lo := 1) (hi := 33) h14 rfl rfl (by omega) (by omega)
      have s2 : evalV G e7 (.slice (.var 14) (.lit 33) (.len (.var 14))) = some (bytesV y) := by
        rw [← hy]
        have := slice_bytes (G := G) (lo := 33) (hi := pb.length) (elo := .lit 33) (ehi := .len (.var 14)) h14 rfl
          (len_bytes h14) (by omega) (Nat.le_refl _)
        rw [this, List.take_of_length_le (by simp only [List.length_drop]; omega)]
      have sr : evalVs G e7 [(.var 1), (.slice (.var 14) (.lit 1) (.lit 33)),
          (.slice (.var 14) (.lit 33) (.len (.var 14))), (.lit 0)]
          = some [bytesV priv, bytesV x, bytesV y, .int 0] := by
        simp only [evalVs_cons, evalVs_nil, s1, s2, evalV_lit, evalV_var, g1]
      exact ⟨e7, (pre (EvIn.seq c9 (EvIn.seq_stop (EvIn.ret sr) (by simp)))).mono
        (by simp only [fuelDerive]; omega)⟩
    · have hne : (Model.Point.bytes X.C pub true).length ≠ 65 := hl
      rw [if_pos hne]
      refine ⟨(fun x y h => nomatch h), fun _ => ?_, (fun h => nomatch h)⟩
      have c9 : EvIn P G O 4 e7 gIte2 (e7.set 4 (.int 1)) (.ret [bytesV priv, .arr [], .arr [], .int 1]) :=
        EvIn.ite (len_ne65_true h14 hl) rfl (gErr_ok g1 g2 g3)
      exact ⟨_, (pre (EvIn.seq_stop c9 (by simp))).mono (by simp only [fuelDerive]; omega)⟩

/-- the state at the head of the rejection loop: the reader, a 32-byte `priv`, empty `x`, `y`, the reader position -/
structure LInv (rd : Val) (env : Env) (p : Nat) : Prop where
  h0 : env 0 = rd
  h1 : ∃ l, env 1 = .arr l ∧ l.length = 32
  h2 : env 2 = .arr []
  h3 : env 3 = .arr []
  h6 : env 6 = .int (p : Int)

theorem ext_args {rd : Val} {env : Env} {p : Nat} (h : LInv rd env p) :
    evalVs G env [(.var 0), (.len (.var 1)), (.var 6)] = some [rd, .int 32, .int (p : Int)] := by
  obtain ⟨l, hl, hn⟩ := h.h1
  have : evalV G env (.len (.var 1)) = some (.int 32) := by
    rw [evalV_len, evalV_var, hl]
    simp only [hn]
    rfl
  simp only [evalVs_cons, evalVs_nil, evalV_var, this, h.h0, h.h6]

/-- fuel for one round of the loop body -/
def fuelRoundG : Nat := fuelTest + 20

/-- a round whose `io.ReadFull` fails: the function returns the error -/
theorem round_none {rd : Val} {sc : Nat → Script} (HR : ReaderSpec O rd sc) {env : Env} {p : Nat}
    (hinv : LInv rd env p) {rest : Script} (hrf : readFull (sc p) 32 [] = (none, rest)) :
    ∃ env' v, EvIn P G O fuelRoundG env gBodyS env' (.ret [v, .arr [], .arr [], .int 1]) := by
  have hO := HR p
  rw [hrf] at hO
  obtain ⟨buf, n, e, hO, he, _⟩ := hO
  let e1 : Env := (((env.set 1 buf).set 7 (.int n)).set 8 (.int e)).set 6 (.int ((p + 1 : Nat) : Int))
  let e2 : Env := e1.set 4 (.int e)
  have c1 : EvIn P G O 1 env gExtS e1 .norm := evIn_ext' (ext_args hinv) (by rw [hO]; rfl)
  have c2 : EvIn P G O 1 e1 (.assign 4 [] (.var 8)) e2 .norm := EvIn.assign (by simp [e1, Env.set])
  have hc : evalV G e2 (.op2 .ne (.var 4) (.lit 0)) = some (.int (ofBool (e != 0))) := ne0_val (by simp [e2, Env.set])
  have hd : asBool (.int (ofBool (e != 0))) = some true := by
    have : (e != 0) = true := by simp only [bne_iff_ne, ne_eq]; exact he
    rw [this]; rfl
  have g1 : e2 1 = buf := by simp [e2, e1, Env.set]
  have g2 : e2 2 = .arr [] := by simp [e2, e1, Env.set, hinv.h2]
  have g3 : e2 3 = .arr [] := by simp [e2, e1, Env.set, hinv.h3]
  have c3 : EvIn P G O 4 e2 gIteE (e2.set 4 (.int 1)) (.ret [buf, .arr [], .arr [], .int 1]) :=
    EvIn.ite hc hd (gErr_ok g1 g2 g3)
  exact ⟨_, buf, (EvIn.seq c1 (EvIn.seq c2 (EvIn.seq_stop c3 (by simp)))).mono (by simp only [fuelRoundG]; omega)⟩

/-- a round whose `io.ReadFull` delivers the candidate `b` -/
theorem round_some (h0 : P[f_utils_ConstantTimeCmp]? = some fn_0) (h1 : P[f_sm2_TestPrivateKey]? = some fn_1)
    (hG : G 5 = bytesV (Model.SM2.nMinus1Bytes X))
    {rd : Val} {sc : Nat → Script} (HR : ReaderSpec O rd sc) {env : Env} {p : Nat}
    (hinv : LInv rd env p) {b : Bytes} {rest : Script} (hrf : readFull (sc p) 32 [] = (some b, rest)) :
    (∀ t, Model.SM2.testPrivateKey X b = .ok t →
      ∃ env', EvIn P G O fuelRoundG env gBodyS env' (if t = 0 then .brk else .norm) ∧ env' 1 = bytesV b ∧
        LInv rd env' (p + 1)) ∧
    (Model.SM2.testPrivateKey X b = .panic → Fails P G O env gBodyS) := by
  have hO := HR p
  rw [hrf] at hO
  obtain ⟨hO, _⟩ := hO
  have hb32 : b.length = 32 := by simpa using readFull_length _ _ _ _ _ hrf
  let e1 : Env := (((env.set 1 (bytesV b)).set 7 (.int 32)).set 8 (.int 0)).set 6 (.int ((p + 1 : Nat) : Int))
  let e2 : Env := e1.set 4 (.int 0)
  have c1 : EvIn P G O 1 env gExtS e1 .norm := evIn_ext' (ext_args hinv) (by rw [hO]; rfl)
  have c2 : EvIn P G O 1 e1 (.assign 4 [] (.var 8)) e2 .norm := EvIn.assign (by simp [e1, Env.set])
  have hc : evalV G e2 (.op2 .ne (.var 4) (.lit 0)) = some (.int (ofBool ((0 : Int) != 0))) :=
    ne0_val (by simp [e2, Env.set])
  have c3 : EvIn P G O 2 e2 gIteE e2 .norm := EvIn.ite hc rfl (EvIn.skip _)
  have ha : evalVs G e2 [(.var 1)] = some [bytesV b] := by simp [evalVs_cons, e2, e1, Env.set]
  refine ⟨fun t ht => ?_, fun ht => ?_⟩
  · obtain ⟨envc, hbody⟩ := test_body_ok (P := P) (G := G) (X := O) h0 X hG b (by omega) t ht
    let e3 : Env := e2.set 9 (.int t)
    let e4 : Env := e3.set 10 (.int (ofBool (t == 0)))
    have c4 : EvIn P G O (fuelTest + 1) e2 gCall1 e3 .norm := EvIn.call ha h1 rfl rfl hbody rfl
    have hq : evalV G e3 (.op2 .eq (.var 9) (.lit 0)) = some (.int (ofBool (t == 0))) := by
      have : e3 9 = .int t := by simp [e3, Env.set]
      simp only [evalV_op2, evalV_var, evalV_lit, this, evalOp2, Option.map_some]
    have c5 : EvIn P G O 1 e3 gDecl e4 .norm := evIn_declass hq
    have hv : evalV G e4 (.var 10) = some (.int (ofBool (t == 0))) := by simp [e4, Env.set]
    have g1 : e4 1 = bytesV b := by simp [e4, e3, e2, e1, Env.set]
    have hinv' : LInv rd e4 (p + 1) :=
      ⟨by simp [e4, e3, e2, e1, Env.set, hinv.h0], ⟨_, g1, by simp [hb32]⟩,
       by simp [e4, e3, e2, e1, Env.set, hinv.h2], by simp [e4, e3, e2, e1, Env.set, hinv.h3],
       by simp [e4, e3, e2, e1, Env.set]⟩
    refine ⟨e4, ?_, g1, hinv'⟩
    by_cases htz : t = 0
    · rw [if_pos htz]
      have hd : asBool (.int (ofBool (t == 0))) = some true := by subst htz; rfl
      have c6 : EvIn P G O 2 e4 gIteB e4 .brk := EvIn.ite hv hd (EvIn.brk _)
      exact (EvIn.seq c1 (EvIn.seq c2 (EvIn.seq c3 (EvIn.seq c4 (EvIn.seq c5 c6))))).mono
        (by simp only [fuelRoundG]; omega)
    · rw [if_neg htz]
      have hd : asBool (.int (ofBool (t == 0))) = some false := by
        have : (t == 0) = false := by simp only [beq_eq_false_iff_ne, ne_eq]; exact htz
        rw [this]; rfl
      have c6 : EvIn P G O 2 e4 gIteB e4 .norm := EvIn.ite hv hd (EvIn.skip _)
      exact (EvIn.seq c1 (EvIn.seq c2 (EvIn.seq c3 (EvIn.seq c4 (EvIn.seq c5 c6))))).mono
        (by simp only [fuelRoundG]; omega)
  · have hst := test_body_stuck (P := P) (G := G) (X := O) h0 X hG b (by omega) ht
    exact Fails.seq_right c1 (Fails.seq_right c2 (Fails.seq_right c3 (Fails.seq_left
      (Or.inr (Stuck.call ha h1 hst)))))

/-- fuel for the rejection loop with at most `n` candidates -/
def fuelLoop (n : Nat) : Nat := n * 640 + 2

theorem fuelRoundG_le : fuelRoundG + 4 ≤ 640 := by decide

/-- the rejection loop against `genKeyLoop`: the model's candidate bound is never exhausted (`avail < 32·fuel`) -/
theorem gk_loop (h0 : P[f_utils_ConstantTimeCmp]? = some fn_0) (h1 : P[f_sm2_TestPrivateKey]? = some fn_1)
    (hG : G 5 = bytesV (Model.SM2.nMinus1Bytes X))
    {rd : Val} {sc : Nat → Script} (HR : ReaderSpec O rd sc) :
    ∀ (fuel p : Nat) (env : Env), LInv rd env p → avail (sc p) < 32 * fuel →
      (∀ priv rest, genKeyLoop X fuel (sc p) = .ok (priv, rest) →
        ∃ env', EvIn P G O (fuelLoop fuel) env gLoopS env' .norm ∧ env' 1 = bytesV priv ∧ env' 2 = .arr [] ∧
          env' 3 = .arr []) ∧
      (genKeyLoop X fuel (sc p) = .err →
        ∃ env' v, EvIn P G O (fuelLoop fuel) env gLoopS env' (.ret [v, .arr [], .arr [], .int 1])) ∧
      (genKeyLoop X fuel (sc p) = .panic → Fails P G O env gLoopS) := by
  intro fuel
  induction fuel with
  | zero => intro p env _ hav; omega
  | succ fuel ih =>
    intro p env hinv hav
    have hcnd : evalV G env (.lit 1) = some (.int 1) := rfl
    have hle := fuelRoundG_le
    cases hrf : readFull (sc p) 32 [] with
    | mk ob rest =>
      cases ob with
      | none =>
        rw [genKeyLoop_none X fuel hrf]
        refine ⟨(fun _ _ h => nomatch h), fun _ => ?_, (fun h => nomatch h)⟩
        obtain ⟨env', v, hb⟩ := round_none (P := P) (G := G) HR hinv hrf
        exact ⟨env', v, (EvIn.loop_leave (post := .skip) hcnd rfl hb (by simp)).mono
          (by simp only [fuelLoop]; omega)⟩
      | some b =>
        have hnext : sc (p + 1) = rest := by
          have hO := HR p
          rw [hrf] at hO
          exact hO.2
        have hav' : avail (sc (p + 1)) < 32 * fuel := by
          have := readFull_avail _ _ _ _ _ hrf
          rw [hnext]; omega
        obtain ⟨hok, hpan⟩ := round_some (P := P) (G := G) (X := X) h0 h1 hG HR hinv hrf
        cases ht : Model.SM2.testPrivateKey X b with
        | err => exact absurd ht (testPrivateKey_ne_err X b)
        | panic =>
          rw [genKeyLoop_panic X fuel hrf ht]
          refine ⟨(fun _ _ h => nomatch h), (fun h => nomatch h), fun _ => ?_⟩
          exact Fails.loop_body hcnd rfl (hpan ht)
        | ok t =>
          obtain ⟨env', hb, g1, hinv'⟩ := hok t ht
          by_cases htz : t = 0
          · subst htz
            rw [genKeyLoop_accept X fuel hrf ht]
            refine ⟨fun priv rest' h => ?_, (fun h => nomatch h), (fun h => nomatch h)⟩
            simp only [Outcome.ok.injEq, Prod.mk.injEq] at h
            obtain ⟨hpr, _⟩ := h
            subst hpr
            rw [if_pos rfl] at hb
            exact ⟨env', (EvIn.loop_leave (post := .skip) hcnd rfl hb (by simp)).mono
              (by simp only [fuelLoop]; omega), g1, hinv'.h2, hinv'.h3⟩
          · rw [genKeyLoop_reject X fuel hrf ht htz, ← hnext]
            rw [if_neg htz] at hb
            obtain ⟨i1, i2, i3⟩ := ih (p + 1) env' hinv' hav'
            refine ⟨fun priv rest' h => ?_, fun h => ?_, fun h => ?_⟩
            · obtain ⟨env'', hl, r1, r2, r3⟩ := i1 priv rest' h
              exact ⟨env'', (EvIn.loop_round hcnd rfl hb (Or.inl rfl) (EvIn.skip _) hl).mono
                (by simp only [fuelLoop] at *; omega), r1, r2, r3⟩
            · obtain ⟨env'', v, hl⟩ := i2 h
              exact ⟨env'', v, (EvIn.loop_round hcnd rfl hb (Or.inl rfl) (EvIn.skip _) hl).mono
                (by simp only [fuelLoop] at *; omega)⟩
            · exact Fails.loop_round hcnd rfl hb (Or.inl rfl) (EvIn.skip _) (i3 h)

theorem genKeyLoop_length (X : Model.SM2.Ctx α β) : ∀ (fuel : Nat) (sc : Script) (priv : Bytes) (rest : Script),
    genKeyLoop X fuel sc = .ok (priv, rest) → priv.length = 32 := by
  intro fuel
  induction fuel with
  | zero => intro sc priv rest h; exact nomatch h
  | succ fuel ih =>
    intro sc priv rest h
    cases hrf : readFull sc 32 [] with
    | mk ob rest' =>
      cases ob with
      | none => rw [genKeyLoop_none X fuel hrf] at h; exact nomatch h
      | some b =>
        have hb32 : b.length = 32 := by simpa using readFull_length _ _ _ _ _ hrf
        cases ht : Model.SM2.testPrivateKey X b with
        | err => exact absurd ht (testPrivateKey_ne_err X b)
        | panic => rw [genKeyLoop_panic X fuel hrf ht] at h; exact nomatch h
        | ok t =>
          by_cases htz : t = 0
          · subst htz
            rw [genKeyLoop_accept X fuel hrf ht] at h
            simp only [Outcome.ok.injEq, Prod.mk.injEq] at h
            rw [← h.1]; exact hb32
          · rw [genKeyLoop_reject X fuel hrf ht htz] at h
            exact ih _ _ _ h

/-- fuel for the body of GenerateKey: `n` = the model's bound on the number of candidates -/
def fuelGen (n Fsbm Fbytes : Nat) : Nat := fuelLoop n + fuelDerive Fsbm Fbytes + 20

/-- BODY LEVEL: GenerateKey with a non-nil reader `rd = .int r`, `r ≠ 0` -/
theorem gen_body (h0 : P[f_utils_ConstantTimeCmp]? = some fn_0) (h1 : P[f_sm2_TestPrivateKey]? = some fn_1)
    (hG : G 5 = bytesV (Model.SM2.nMinus1Bytes X)) {r : Int} (hr : r ≠ 0) {sc : Nat → Script}
    (HR : ReaderSpec O (.int r) sc)
    (H1 : ∀ k : Bytes, k.length = 32 → SbmAt P G O X enc Fsbm k) (H2 : BytesSpec P G O X enc Fbytes) :
    (∀ priv x y n, Model.SM2.generateKey X (some (sc 0)) = .ok ((priv, x, y), n) →
      ∃ env', EvIn P G O (fuelGen (avail (sc 0) / 32 + 1) Fsbm Fbytes) (Env.ofList [.int r]) fn_97.body env'
        (.ret [bytesV priv, bytesV x, bytesV y, .int 0])) ∧
    (Model.SM2.generateKey X (some (sc 0)) = .err →
      ∃ env' v, EvIn P G O (fuelGen (avail (sc 0) / 32 + 1) Fsbm Fbytes) (Env.ofList [.int r]) fn_97.body env'
        (.ret [v, .arr [], .arr [], .int 1])) ∧
    (Model.SM2.generateKey X (some (sc 0)) = .panic → Fails P G O (Env.ofList [.int r]) fn_97.body) := by
  rw [fn_97_body, generateKey_some]
  let e0 : Env := Env.ofList [.int r]
  let e5 : Env := ((((e0.set 1 (.arr [])).set 2 (.arr [])).set 3 (.arr [])).set 4 (.int 0)).set 6 (.int 0)
  let e6 : Env := e5.set 1 (.arr (List.replicate 32 (.int 0)))
  have c1 : EvIn P G O 1 e0 (.assign 1 [] (.mk (.lit 0) (.lit 0))) (e0.set 1 (.arr [])) .norm := EvIn.assign (mk00 _)
  have c2 : EvIn P G O 1 (e0.set 1 (.arr [])) (.assign 2 [] (.mk (.lit 0) (.lit 0)))
      ((e0.set 1 (.arr [])).set 2 (.arr [])) .norm := EvIn.assign (mk00 _)
  have c3 : EvIn P G O 1 ((e0.set 1 (.arr [])).set 2 (.arr [])) (.assign 3 [] (.mk (.lit 0) (.lit 0)))
      (((e0.set 1 (.arr [])).set 2 (.arr [])).set 3 (.arr [])) .norm := EvIn.assign (mk00 _)
  have c4 : EvIn P G O 1 (((e0.set 1 (.arr [])).set 2 (.arr [])).set 3 (.arr [])) (.assign 4 [] (.lit 0))
      ((((e0.set 1 (.arr [])).set 2 (.arr [])).set 3 (.arr [])).set 4 (.int 0)) .norm := EvIn.assign rfl
  have c5 : EvIn P G O 1 ((((e0.set 1 (.arr [])).set 2 (.arr [])).set 3 (.arr [])).set 4 (.int 0))
      (.assign 6 [] (.lit 0)) e5 .norm := EvIn.assign rfl
  have hc : evalV G e5 (.op2 .eq (.var 0) (.lit 0)) = some (.int (ofBool (r == 0))) := by
    have : e5 0 = .int r := by simp [e5, e0, Env.set, Env.ofList]
    simp only [evalV_op2, evalV_var, evalV_lit, this, evalOp2, Option.map_some]
  have hd : asBool (.int (ofBool (r == 0))) = some false := by
    have : (r == 0) = false := by simp only [beq_eq_false_iff_ne, ne_eq]; exact hr
    rw [this]; rfl
  have c6 : EvIn P G O 2 e5 gNilS e5 .norm := EvIn.ite hc hd (EvIn.skip _)
  have c7 : EvIn P G O 1 e5 (.assign 1 [] (.mk (.lit 32) (.lit 0))) e6 .norm := EvIn.assign rfl
  have hinv : LInv (.int r) e6 0 :=
    ⟨by simp [e6, e5, e0, Env.set, Env.ofList], ⟨List.replicate 32 (.int 0), Env.set_same _ _ _, List.length_replicate⟩,
     by simp [e6, e5, Env.set], by simp [e6, e5, Env.set], by simp [e6, e5, Env.set]⟩
  obtain ⟨l1, l2, l3⟩ := gk_loop (P := P) (G := G) (X := X) h0 h1 hG HR (avail (sc 0) / 32 + 1) 0 e6 hinv (by omega)
  have pre : ∀ {env' : Env} {c : Ctl} {F : Nat}, EvIn P G O F e6 (.seq gLoopS gTailS) env' c →
      EvIn P G O (F + 15) e0 _ env' c := fun h =>
    (EvIn.seq c1 (EvIn.seq c2 (EvIn.seq c3 (EvIn.seq c4 (EvIn.seq c5 (EvIn.seq c6 (EvIn.seq c7 h))))))).mono (by omega)
  have preF : Fails P G O e6 (.seq gLoopS gTailS) → Fails P G O e0 _ := fun h =>
    Fails.seq_right c1 (Fails.seq_right c2 (Fails.seq_right c3 (Fails.seq_right c4 (Fails.seq_right c5
      (Fails.seq_right c6 (Fails.seq_right c7 h))))))
  cases hl : genKeyLoop X (avail (sc 0) / 32 + 1) (sc 0) with
  | panic =>
    simp only [Outcome.bind_panic]
    refine ⟨(fun _ _ _ _ h => nomatch h), (fun h => nomatch h), fun _ => ?_⟩
    exact preF (Fails.seq_left (l3 hl))
  | err =>
    simp only [Outcome.bind_err]
    refine ⟨(fun _ _ _ _ h => nomatch h), fun _ => ?_, (fun h => nomatch h)⟩
    obtain ⟨env', v, hloop⟩ := l2 hl
    exact ⟨env', v, (pre (EvIn.seq_stop hloop (by simp))).mono (by simp only [fuelGen]; omega)⟩
  | ok pr =>
    obtain ⟨priv, rest⟩ := pr
    simp only [Outcome.bind_ok]
    obtain ⟨env1, hloop, r1, r2, r3⟩ := l1 priv rest hl
    have h32 := genKeyLoop_length X _ _ _ _ hl
    obtain ⟨t1, t2, t3⟩ := gk_tail (P := P) (G := G) (O := O) (X := X) (enc := enc) (H1 priv h32) H2 r1 r2 r3
    cases hp : pubOf X priv with
    | panic =>
      simp only [Outcome.bind_panic]
      refine ⟨(fun _ _ _ _ h => nomatch h), (fun h => nomatch h), fun _ => ?_⟩
      exact preF (Fails.seq_right hloop (t3 hp))
    | err =>
      simp only [Outcome.bind_err]
      refine ⟨(fun _ _ _ _ h => nomatch h), fun _ => ?_, (fun h => nomatch h)⟩
      obtain ⟨env', ht⟩ := t2 hp
      exact ⟨env', bytesV priv, (pre (EvIn.seq hloop ht)).mono (by simp only [fuelGen]; omega)⟩
    | ok xy =>
      obtain ⟨x, y⟩ := xy
      simp only [Outcome.bind_ok]
      refine ⟨fun priv' x' y' n h => ?_, (fun h => nomatch h), (fun h => nomatch h)⟩
      simp only [Outcome.ok.injEq, Prod.mk.injEq] at h
      obtain ⟨⟨q1, q2, q3⟩, _⟩ := h
      subst q1 q2 q3
      obtain ⟨env', ht⟩ := t1 x y hp
      exact ⟨env', (pre (EvIn.seq hloop ht)).mono (by simp only [fuelGen]; omega)⟩

/-- BODY LEVEL: GenerateKey with the nil reader `.int 0` -/
theorem gen_body_nil :
    ∃ env', EvIn P G O 20 (Env.ofList [.int 0]) fn_97.body env' (.ret [.arr [], .arr [], .arr [], .int 1]) := by
  rw [fn_97_body]
  let e0 : Env := Env.ofList [.int 0]
  let e5 : Env := ((((e0.set 1 (.arr [])).set 2 (.arr [])).set 3 (.arr [])).set 4 (.int 0)).set 6 (.int 0)
  have c1 : EvIn P G O 1 e0 (.assign 1 [] (.mk (.lit 0) (.lit 0))) (e0.set 1 (.arr [])) .norm := EvIn.assign (mk00 _)
  have c2 : EvIn P G O 1 (e0.set 1 (.arr [])) (.assign 2 [] (.mk (.lit 0) (.lit 0)))
      ((e0.set 1 (.arr [])).set 2 (.arr [])) .norm := EvIn.assign (mk00 _)
  have c3 : EvIn P G O 1 ((e0.set 1 (.arr [])).set 2 (.arr [])) (.assign 3 [] (.mk (.lit 0) (.lit 0)))
      (((e0.set 1 (.arr [])).set 2 (.arr [])).set 3 (.arr [])) .norm := EvIn.assign (mk00 _)
  have c4 : EvIn P G O 1 (((e0.set 1 (.arr [])).set 2 (.arr [])).set 3 (.arr [])) (.assign 4 [] (.lit 0))
      ((((e0.set 1 (.arr [])).set 2 (.arr [])).set 3 (.arr [])).set 4 (.int 0)) .norm := EvIn.assign rfl
  have c5 : EvIn P G O 1 ((((e0.set 1 (.arr [])).set 2 (.arr [])).set 3 (.arr [])).set 4 (.int 0))
      (.assign 6 [] (.lit 0)) e5 .norm := EvIn.assign rfl
  have hc : evalV G e5 (.op2 .eq (.var 0) (.lit 0)) = some (.int 1) := rfl
  have c6 : EvIn P G O 4 e5 gNilS (e5.set 4 (.int 1)) (.ret [.arr [], .arr [], .arr [], .int 1]) :=
    EvIn.ite hc rfl (gErr_ok (by simp [e5, Env.set]) (by simp [e5, Env.set]) (by simp [e5, Env.set]))
  exact ⟨_, (EvIn.seq c1 (EvIn.seq c2 (EvIn.seq c3 (EvIn.seq c4 (EvIn.seq c5 (EvIn.seq_stop c6 (by simp))))))).mono
    (by omega)⟩

end Generate


/-! ## 6. Runs of the generated program -/

theorem fn96_lookup : prog[f_sm2_DerivePublic]? = some fn_96 := rfl
theorem fn97_lookup : prog[f_sm2_GenerateKey]? = some fn_97 := rfl

section Run
variable {G : Nat → Val} {O : Oracle} {α β : Type}

/-- `sm2.DerivePublic`: the run of the generated IR computes `Model.SM2.derivePublic`, modulo the callees
    `internal.ScalarBaseMult` (87, hypothesis `H1`) and `(*SM2Point).Bytes` (91, hypothesis `H2`).  `priv` is any
    byte string; no hypothesis on the globals or on the oracle.
    `.ok (x, y)` ⇒ every run with fuel ≥ `fuelDerive Fsbm Fbytes = Fsbm + Fbytes + 40` returns `[x, y, nil]`;
    `.err` (ScalarBaseMult reports an error, or `[priv]G` is the point at infinity) ⇒ `[nil, nil, err]`, i.e.
      `[.arr [], .arr [], .int 1]`;
    `.panic` (only when ScalarBaseMult panics) ⇒ the run ends in `panic` for all large fuels or is stuck with every
      fuel. -/
theorem ir_derivePublic_eq_model (X : Model.SM2.Ctx α β) (enc : α → List Nat) (Fsbm Fbytes : Nat) (priv : Bytes)
    (H1 : ∀ k : Bytes,
      match Model.SM2.scalarBaseMult X k with
      | .ok r => Computes prog G O 87 Fsbm [bytesV k] [ptV enc r, .int 0]
      | .err => Computes prog G O 87 Fsbm [bytesV k] [nilPointV, .int 1]
      | .panic => CalleeFails prog G O 87 [bytesV k])
    (H2 : ∀ p, Computes prog G O 91 Fbytes [ptV enc p] [bytesV (Model.Point.bytes X.C p true)]) :
    match Model.SM2.derivePublic X priv with
    | .ok (x, y) => ∀ f, fuelDerive Fsbm Fbytes ≤ f →
        runV prog G O f f_sm2_DerivePublic [bytesV priv] = .ret [bytesV x, bytesV y, .int 0]
    | .err => ∀ f, fuelDerive Fsbm Fbytes ≤ f →
        runV prog G O f f_sm2_DerivePublic [bytesV priv] = .ret [.arr [], .arr [], .int 1]
    | .panic =>
        (∃ F, ∀ f, F ≤ f → runV prog G O f f_sm2_DerivePublic [bytesV priv] = .panic) ∨
        (∀ f, runV prog G O f f_sm2_DerivePublic [bytesV priv] = .stuck) := by
  obtain ⟨a, b, c⟩ := derive_body (P := prog) (G := G) (O := O) (X := X) (enc := enc) priv (H1 priv) H2
  rw [derivePublic_eq]
  cases h : pubOf X priv with
  | ok xy =>
    obtain ⟨x, y⟩ := xy
    obtain ⟨env', he⟩ := a x y h
    exact runV_of_EvIn fn96_lookup rfl rfl he
  | err =>
    obtain ⟨env', he⟩ := b h
    exact runV_of_EvIn fn96_lookup rfl rfl he
  | panic => exact runV_of_Fails fn96_lookup rfl rfl (c h)

/-- `sm2.GenerateKey` with a non-nil reader (handle `.int r`, `r ≠ 0`; the IR tests `rand == nil` as `== 0`) whose
    `io.ReadFull` calls (external 11) follow the scripts `sc 0, sc 1, …` (hypothesis `H4`; `sc p` = the model's script
    at reader position `p`): the run of the generated IR computes `Model.SM2.generateKey X (some (sc 0))`, modulo the
    callees ScalarBaseMult (87, `H1`, needed for 32-byte scalars only) and `(*SM2Point).Bytes` (91, `H2`);
    TestPrivateKey (1) and ConstantTimeCmp (0) are the proved refinements, whence `hG` (global 5 = `sm2.nMinus1Bytes`).
    `.ok ((priv, x, y), _)` ⇒ every run with fuel ≥ `fuelGen (avail (sc 0) / 32 + 1) Fsbm Fbytes`
        (= `(avail (sc 0) / 32 + 1) · 640 + Fsbm + Fbytes + 62`) returns `[priv, x, y, nil]`;
    `.err` (the reader fails, ScalarBaseMult reports an error, or the point is at infinity) ⇒ `[v, nil, nil, err]`
        = `[v, .arr [], .arr [], .int 1]` where `v` is the current `priv` buffer (what the failing ReadFull left in
        it, resp. the accepted candidate);
    `.panic` ⇒ the run ends in `panic` for all large fuels or is stuck with every fuel.
    The model's candidate bound `avail (sc 0) / 32 + 1` is never exhausted (`gk_loop`: invariant
    `avail (sc p) < 32 · fuel`), so the fuel-exhaustion `.err` of `genKeyLoop` does not occur: no disagreement. -/
theorem ir_generateKey_eq_model_len32 (X : Model.SM2.Ctx α β) (enc : α → List Nat) (Fsbm Fbytes : Nat)
    (hG : G 5 = bytesV (Model.SM2.nMinus1Bytes X)) (r : Int) (hr : r ≠ 0) (sc : Nat → Script)
    (H1 : ∀ k : Bytes, k.length = 32 →
      match Model.SM2.scalarBaseMult X k with
      | .ok r => Computes prog G O 87 Fsbm [bytesV k] [ptV enc r, .int 0]
      | .err => Computes prog G O 87 Fsbm [bytesV k] [nilPointV, .int 1]
      | .panic => CalleeFails prog G O 87 [bytesV k])
    (H2 : ∀ p, Computes prog G O 91 Fbytes [ptV enc p] [bytesV (Model.Point.bytes X.C p true)])
    (H4 : ∀ p : Nat,
      match readFull (sc p) 32 [] with
      | (some b, rest) =>
          O 11 [.int r, .int 32, .int (p : Int)] = [bytesV b, .int 32, .int 0, .int ((p + 1 : Nat) : Int)] ∧
            sc (p + 1) = rest
      | (none, rest) =>
          ∃ buf n e, O 11 [.int r, .int 32, .int (p : Int)] = [buf, .int n, .int e, .int ((p + 1 : Nat) : Int)] ∧
            e ≠ 0 ∧ sc (p + 1) = rest) :
    match Model.SM2.generateKey X (some (sc 0)) with
    | .ok ((priv, x, y), _) => ∀ f, fuelGen (avail (sc 0) / 32 + 1) Fsbm Fbytes ≤ f →
        runV prog G O f f_sm2_GenerateKey [.int r] = .ret [bytesV priv, bytesV x, bytesV y, .int 0]
    | .err => ∃ v, ∀ f, fuelGen (avail (sc 0) / 32 + 1) Fsbm Fbytes ≤ f →
        runV prog G O f f_sm2_GenerateKey [.int r] = .ret [v, .arr [], .arr [], .int 1]
    | .panic =>
        (∃ F, ∀ f, F ≤ f → runV prog G O f f_sm2_GenerateKey [.int r] = .panic) ∨
        (∀ f, runV prog G O f f_sm2_GenerateKey [.int r] = .stuck) := by
  obtain ⟨a, b, c⟩ := gen_body (P := prog) (G := G) (O := O) (X := X) (enc := enc) (Fsbm := Fsbm) (Fbytes := Fbytes)
    fn0_lookup fn1_lookup hG hr (sc := sc) H4 H1 H2
  cases h : Model.SM2.generateKey X (some (sc 0)) with
  | ok res =>
    obtain ⟨⟨priv, x, y⟩, n⟩ := res
    obtain ⟨env', he⟩ := a priv x y n h
    exact runV_of_EvIn fn97_lookup rfl rfl he
  | err =>
    obtain ⟨env', v, he⟩ := b h
    exact ⟨v, runV_of_EvIn fn97_lookup rfl rfl he⟩
  | panic => exact runV_of_Fails fn97_lookup rfl rfl (c h)

/-- `ir_generateKey_eq_model_len32` with the ScalarBaseMult contract for every scalar `k` -/
theorem ir_generateKey_eq_model (X : Model.SM2.Ctx α β) (enc : α → List Nat) (Fsbm Fbytes : Nat)
    (hG : G 5 = bytesV (Model.SM2.nMinus1Bytes X)) (r : Int) (hr : r ≠ 0) (sc : Nat → Script)
    (H1 : ∀ k : Bytes,
      match Model.SM2.scalarBaseMult X k with
      | .ok r => Computes prog G O 87 Fsbm [bytesV k] [ptV enc r, .int 0]
      | .err => Computes prog G O 87 Fsbm [bytesV k] [nilPointV, .int 1]
      | .panic => CalleeFails prog G O 87 [bytesV k])
    (H2 : ∀ p, Computes prog G O 91 Fbytes [ptV enc p] [bytesV (Model.Point.bytes X.C p true)])
    (H4 : ∀ p : Nat,
      match readFull (sc p) 32 [] with
      | (some b, rest) =>
          O 11 [.int r, .int 32, .int (p : Int)] = [bytesV b, .int 32, .int 0, .int ((p + 1 : Nat) : Int)] ∧
            sc (p + 1) = rest
      | (none, rest) =>
          ∃ buf n e, O 11 [.int r, .int 32, .int (p : Int)] = [buf, .int n, .int e, .int ((p + 1 : Nat) : Int)] ∧
            e ≠ 0 ∧ sc (p + 1) = rest) :
    match Model.SM2.generateKey X (some (sc 0)) with
    | .ok ((priv, x, y), _) => ∀ f, fuelGen (avail (sc 0) / 32 + 1) Fsbm Fbytes ≤ f →
        runV prog G O f f_sm2_GenerateKey [.int r] = .ret [bytesV priv, bytesV x, bytesV y, .int 0]
    | .err => ∃ v, ∀ f, fuelGen (avail (sc 0) / 32 + 1) Fsbm Fbytes ≤ f →
        runV prog G O f f_sm2_GenerateKey [.int r] = .ret [v, .arr [], .arr [], .int 1]
    | .panic =>
        (∃ F, ∀ f, F ≤ f → runV prog G O f f_sm2_GenerateKey [.int r] = .panic) ∨
        (∀ f, runV prog G O f f_sm2_GenerateKey [.int r] = .stuck) :=
  ir_generateKey_eq_model_len32 X enc Fsbm Fbytes hG r hr sc (fun k _ => H1 k) H2 H4

/-- `sm2.GenerateKey(nil)`: the model says `.err`, the IR returns `[nil, nil, nil, err]`; no hypothesis at all -/
theorem ir_generateKey_nil (X : Model.SM2.Ctx α β) :
    Model.SM2.generateKey X none = .err ∧
    ∀ f, 20 ≤ f → runV prog G O f f_sm2_GenerateKey [.int 0] = .ret [.arr [], .arr [], .arr [], .int 1] := by
  obtain ⟨env', he⟩ := gen_body_nil (P := prog) (G := G) (O := O)
  exact ⟨rfl, runV_of_EvIn fn97_lookup rfl rfl he⟩

/-- the generated global 5 is the `nMinus1Bytes` of every context whose group order is the SM2 order -/
theorem globals_nMinus1_ctx (X : Model.SM2.Ctx α β) (hn : X.n = SMGo.Gen.SM2Params.param_N) :
    globals 5 = bytesV (Model.SM2.nMinus1Bytes X) := by
  rw [globals_nMinus1, Model.SM2.nMinus1Bytes, hn]

/-- GenerateKey against the concrete scripted oracle `readerOracle base s` (any `base` for the other externals):
    the reader hypothesis is discharged by `readerOracle_spec` -/
theorem ir_generateKey_eq_model_script (X : Model.SM2.Ctx α β) (enc : α → List Nat) (Fsbm Fbytes : Nat)
    (base : Oracle) (s : Script)
    (hG : G 5 = bytesV (Model.SM2.nMinus1Bytes X)) (r : Int) (hr : r ≠ 0)
    (H1 : ∀ k : Bytes,
      match Model.SM2.scalarBaseMult X k with
      | .ok r => Computes prog G (readerOracle base s) 87 Fsbm [bytesV k] [ptV enc r, .int 0]
      | .err => Computes prog G (readerOracle base s) 87 Fsbm [bytesV k] [nilPointV, .int 1]
      | .panic => CalleeFails prog G (readerOracle base s) 87 [bytesV k])
    (H2 : ∀ p, Computes prog G (readerOracle base s) 91 Fbytes [ptV enc p] [bytesV (Model.Point.bytes X.C p true)]) :
    match Model.SM2.generateKey X (some s) with
    | .ok ((priv, x, y), _) => ∀ f, fuelGen (avail s / 32 + 1) Fsbm Fbytes ≤ f →
        runV prog G (readerOracle base s) f f_sm2_GenerateKey [.int r] = .ret [bytesV priv, bytesV x, bytesV y, .int 0]
    | .err => ∃ v, ∀ f, fuelGen (avail s / 32 + 1) Fsbm Fbytes ≤ f →
        runV prog G (readerOracle base s) f f_sm2_GenerateKey [.int r] = .ret [v, .arr [], .arr [], .int 1]
    | .panic =>
        (∃ F, ∀ f, F ≤ f → runV prog G (readerOracle base s) f f_sm2_GenerateKey [.int r] = .panic) ∨
        (∀ f, runV prog G (readerOracle base s) f f_sm2_GenerateKey [.int r] = .stuck) :=
  ir_generateKey_eq_model X enc Fsbm Fbytes hG r hr (scriptAt s) H1 H2 (readerOracle_spec base s (.int r))

end Run

end SMGo.Proofs.CTIRRefineKeys

#print axioms SMGo.Proofs.CTIRRefineKeys.ir_derivePublic_eq_model
#print axioms SMGo.Proofs.CTIRRefineKeys.ir_generateKey_eq_model
#print axioms SMGo.Proofs.CTIRRefineKeys.ir_generateKey_eq_model_len32
#print axioms SMGo.Proofs.CTIRRefineKeys.ir_generateKey_nil
#print axioms SMGo.Proofs.CTIRRefineKeys.ir_generateKey_eq_model_script
#print axioms SMGo.Proofs.CTIRRefineKeys.readerOracle_spec
#print axioms SMGo.Proofs.CTIRRefineKeys.derive_body
#print axioms SMGo.Proofs.CTIRRefineKeys.gen_body
