/-
  Composition for the arm64 GCM Go glue: the callee bundle `GlueCallees` is a theorem for the generated program (from
  CTIRRefineGCMSmall and CTIRRefineGCMCrypt), hence Seal / Open of the regenerated IR compute `Spec.GCM.sealGCM` /
  `openGCM` for every assembly semantics that satisfies the leaf specifications (`LeafOk` / `LeafSpec`), and in particular for the
  semantics built from the specification functions (`specSem`, the one the driver and the harness use).
-/
import SMGo.Proofs.CTIRRefineGCMSmall
import SMGo.Proofs.CTIRRefineGCMCrypt
import SMGo.Proofs.CTIRRefineGCMSeal
open SMGo SMGo.Model.CTIR SMGo.Proofs.CTIRRefineUtils
open SMGo.Proofs.CTIRRefineField (Computes)
open SMGo.Spec.GCM

namespace SMGo.Proofs.CTIRRefineGCM

/-- fuel of `cryptoBlocks` on `l` bytes (closed form: `fuelCB_eq`) -/
def fuelCrypt (l : Nat) : Nat := Crypt.fuelCB fuelFill l

theorem fuelCrypt_eq (l : Nat) : fuelCrypt l = l / 16 / 16 * 504 + 2670 := by
  simp only [fuelCrypt, Crypt.fuelCB, fuelFill, fuelFsb, fuelLane]

/-- fuel of Seal / Open on a text of `l` bytes -/
def fuelSealOpen (l : Nat) : Nat := fuelGlue fuelEnc fuelCfc fuelGhu fuelGhf fuelEns fuelCrypt l

theorem fuelSealOpen_eq (l : Nat) : fuelSealOpen l = l / 16 / 16 * 504 + 3106 := by
  simp only [fuelSealOpen, fuelGlue, fuelCrypt_eq, fuelEnc, fuelCfc, fuelGhu, fuelGhf, fuelEns]
  omega

section
variable {G : Nat → Val} {O : Oracle} {E : Bytes → Bytes} {c rk : Val}

/-- **cryptoBlocks = GCTR** on the generated arm64 program -/
theorem cryptoBlocks_computes (hO : LeafOk O E rk) (c : Val) (ns ts : Nat) (out inp J : Bytes) (hJ : J.length = 16)
    (hle : inp.length ≤ out.length) (hmax : inp.length ≤ maxPlain) :
    Computes PA G O 6 (fuelCrypt inp.length) (recv c rk ns ts ++ [rk, bytesV out, bytesV inp, bytesV J])
      [bytesV (gctr E (inc32 (blockToNat J)) inp ++ out.drop inp.length)] :=
  Crypt.crypto_computes (P := PA) rfl hO (fillOk hasSmall_PA) c ns ts out inp J hJ hle hmax

/-- the callee bundle of Seal / Open is a theorem for the generated program -/
theorem glueCallees_PA (hO : LeafOk O E rk) (hc : CipherOk c rk) (ns ts : Nat) :
    GlueCallees PA G O E c rk ns ts fuelEnc fuelCfc fuelGhu fuelGhf fuelEns fuelCrypt :=
  glueCallees_small hasSmall_PA hO hc (Crypt.crypto_field (P := PA) rfl hO (fillOk hasSmall_PA) c ns ts)

/-- **Seal of the regenerated arm64 glue = Algorithm 4** for every oracle that satisfies the leaf specifications -/
theorem ir_Seal_arm64_eq_spec (hO : LeafOk O E rk) (hc : CipherOk c rk) {ns ts : Nat} (dst nonce pt aad : Bytes) (cap : Nat)
    (hn : nonce.length = ns) (hns : ns < 2 ^ 61) (hpt : pt.length ≤ maxPlain) (hcap : dst.length ≤ cap) (hts : ts ≤ 16)
    (hcap62 : cap < 2 ^ 62) (haad : aad.length < 2 ^ 61) :
    ∀ f, fuelSealOpen pt.length ≤ f →
      runV PA G O f 0 (glueArgs c rk ns ts dst nonce pt aad cap)
        = .ret [bytesV dst, bytesV (dst ++ sealGCM E ts nonce pt aad)] :=
  ir_Seal_arm64_eq_spec_of_callees (P := PA) rfl hO (glueCallees_PA hO hc ns ts) dst nonce pt aad cap hn hns hpt hcap hts hcap62 haad

/-- **Open of the regenerated arm64 glue decides as Algorithm 5** -/
theorem ir_Open_arm64_eq_spec (hO : LeafOk O E rk) (hc : CipherOk c rk) {ns ts : Nat} (dst nonce ct aad : Bytes) (cap : Nat)
    (hn : nonce.length = ns) (hns : ns < 2 ^ 61) (h12 : 12 ≤ ts) (hts : ts ≤ 16) (hlen : ct.length ≤ maxPlain + ts)
    (hcap : dst.length ≤ cap) (hcap62 : cap < 2 ^ 62) (haad : aad.length < 2 ^ 61) :
    ∀ f, fuelSealOpen (ct.length - ts) ≤ f →
      runV PA G O f 13 (glueArgs c rk ns ts dst nonce ct aad cap) =
        match openGCM E ts nonce ct aad with
        | some pt => .ret [bytesV dst, bytesV (dst ++ pt), .int 0]
        | none => .ret [bytesV dst, .arr [], G 0] :=
  ir_Open_arm64_eq_spec_of_callees (P := PA) rfl hO (glueCallees_PA hO hc ns ts) dst nonce ct aad cap hn hns h12 hts hlen hcap hcap62 haad

end

/-! ## The same for an assembly semantics `sem` (the form of the certificates), and closed for the specification semantics -/

/-- Seal, for an assembly semantics satisfying `LeafSpec` -/
theorem ir_Seal_arm64_eq_spec_sem {G : Nat → Val} {sem : Nat → List Val → Nat → List Int} {E : Bytes → Bytes} {c rk : Val}
    (hS : LeafSpec sem E rk) (hc : CipherOk c rk) {ns ts : Nat} (dst nonce pt aad : Bytes) (cap : Nat)
    (hn : nonce.length = ns) (hns : ns < 2 ^ 61) (hpt : pt.length ≤ maxPlain) (hcap : dst.length ≤ cap) (hts : ts ≤ 16)
    (hcap62 : cap < 2 ^ 62) (haad : aad.length < 2 ^ 61) :
    ∀ f, fuelSealOpen pt.length ≤ f →
      runV PA G (asmOracle specsA sem) f 0 (glueArgs c rk ns ts dst nonce pt aad cap)
        = .ret [bytesV dst, bytesV (dst ++ sealGCM E ts nonce pt aad)] :=
  ir_Seal_arm64_eq_spec hS hc dst nonce pt aad cap hn hns hpt hcap hts hcap62 haad

/-- Open, for an assembly semantics satisfying `LeafSpec` -/
theorem ir_Open_arm64_eq_spec_sem {G : Nat → Val} {sem : Nat → List Val → Nat → List Int} {E : Bytes → Bytes} {c rk : Val}
    (hS : LeafSpec sem E rk) (hc : CipherOk c rk) {ns ts : Nat} (dst nonce ct aad : Bytes) (cap : Nat)
    (hn : nonce.length = ns) (hns : ns < 2 ^ 61) (h12 : 12 ≤ ts) (hts : ts ≤ 16) (hlen : ct.length ≤ maxPlain + ts)
    (hcap : dst.length ≤ cap) (hcap62 : cap < 2 ^ 62) (haad : aad.length < 2 ^ 61) :
    ∀ f, fuelSealOpen (ct.length - ts) ≤ f →
      runV PA G (asmOracle specsA sem) f 13 (glueArgs c rk ns ts dst nonce ct aad cap) =
        match openGCM E ts nonce ct aad with
        | some pt => .ret [bytesV dst, bytesV (dst ++ pt), .int 0]
        | none => .ret [bytesV dst, .arr [], G 0] :=
  ir_Open_arm64_eq_spec hS hc dst nonce ct aad cap hn hns h12 hts hlen hcap hcap62 haad

/-- a cipher value whose encryption round keys are `rkw` (the decryption keys and further fields are arbitrary) -/
def cipherV (rkw : List W32) (rest : List Val) : Val := .arr [.arr (wordsV rkw :: rest)]

theorem cipherV_ok (rkw : List W32) (rest : List Val) : CipherOk (cipherV rkw rest) (wordsV rkw) := ⟨rest, [], rfl⟩

/-- **closed**: generated program, generated globals, the specification semantics of the leaves (`specSem`, the one of the driver):
    Seal returns dst ‖ SM4-GCM(plaintext) for the round keys `rkw` -/
theorem ir_Seal_arm64_closed (rkw : List W32) (hrk : rkw ≠ []) (rest : List Val) {ns ts : Nat} (dst nonce pt aad : Bytes) (cap : Nat)
    (hn : nonce.length = ns) (hns : ns < 2 ^ 61) (hpt : pt.length ≤ maxPlain) (hcap : dst.length ≤ cap) (hts : ts ≤ 16)
    (hcap62 : cap < 2 ^ 62) (haad : aad.length < 2 ^ 61) :
    ∀ f, fuelSealOpen pt.length ≤ f →
      runV PA GA (asmOracle specsA (specSem rkw)) f 0 (glueArgs (cipherV rkw rest) (wordsV rkw) ns ts dst nonce pt aad cap)
        = .ret [bytesV dst, bytesV (dst ++ sealGCM (Spec.SM4.cryptFast rkw) ts nonce pt aad)] :=
  ir_Seal_arm64_eq_spec_sem (specSem_leafSpec rkw hrk) (cipherV_ok rkw rest) dst nonce pt aad cap hn hns hpt hcap hts hcap62 haad

theorem ir_Open_arm64_closed (rkw : List W32) (hrk : rkw ≠ []) (rest : List Val) {ns ts : Nat} (dst nonce ct aad : Bytes) (cap : Nat)
    (hn : nonce.length = ns) (hns : ns < 2 ^ 61) (h12 : 12 ≤ ts) (hts : ts ≤ 16) (hlen : ct.length ≤ maxPlain + ts)
    (hcap : dst.length ≤ cap) (hcap62 : cap < 2 ^ 62) (haad : aad.length < 2 ^ 61) :
    ∀ f, fuelSealOpen (ct.length - ts) ≤ f →
      runV PA GA (asmOracle specsA (specSem rkw)) f 13 (glueArgs (cipherV rkw rest) (wordsV rkw) ns ts dst nonce ct aad cap) =
        match openGCM (Spec.SM4.cryptFast rkw) ts nonce ct aad with
        | some pt => .ret [bytesV dst, bytesV (dst ++ pt), .int 0]
        | none => .ret [bytesV dst, .arr [], .int 1] := by
  intro f hf
  have h := ir_Open_arm64_eq_spec_sem (G := GA) (specSem_leafSpec rkw hrk) (cipherV_ok rkw rest) dst nonce ct aad cap hn hns h12 hts hlen
    hcap hcap62 haad f hf
  rw [h, errOpen_value]

#print axioms cryptoBlocks_computes
#print axioms glueCallees_PA
#print axioms ir_Seal_arm64_eq_spec
#print axioms ir_Open_arm64_eq_spec
#print axioms ir_Seal_arm64_closed
#print axioms ir_Open_arm64_closed

end SMGo.Proofs.CTIRRefineGCM
