/-
  Gap X1, part 1: the refinement relation between the limb level and the residue level, and the
  simulation lemmas for the FIELD WRAPPERS and the POINT LAYER (`Model/Point.lean`).

  `RelF m l v`      — `l` is a canonical limb list (four limbs below 2^64, value below `m`) of value `v`;
  `FRel m FL FN`    — the operations of `FL : FieldOps (List Nat)` refine those of `FN : FieldOps Nat`
                      (what C16 proves for the generated Fiat functions against `montOps`);
  `RelPt`, `PRel`   — the relation lifted to projective points and to point contexts;
  `ORel R`          — outcomes: same constructor, related values;
  `All2 R`          — lists: same length, related entries.

  Everything is proved for ABSTRACT related contexts (no table, parameter or generated function is
  unfolded); `FiatComposeInst.lean` instantiates them with `ctxFiat` and `ctx`.  Core Lean only.
-/
import SMGo.Proofs.FiatInst
import SMGo.Model.SM2InstFiat
set_option linter.unusedVariables false
namespace SMGo.Proofs.FiatCompose
open SMGo SMGo.Model SMGo.Model.Field SMGo.Proofs.Fiat
open SMGo.Model.Point (Pt)

/-! ### relations -/

/-- a canonical limb list and the residue it stands for -/
def RelF (m : Nat) (l : List Nat) (v : Nat) : Prop := Canon m l ∧ eval l = v

/-- outcomes of two runs: same kind of outcome, related values -/
def ORel {α β : Type} (R : α → β → Prop) : Outcome α → Outcome β → Prop
  | .ok a, .ok b => R a b
  | .err, .err => True
  | .panic, .panic => True
  | _, _ => False

/-- lists of the same length with related entries -/
inductive All2 {α β : Type} (R : α → β → Prop) : List α → List β → Prop
  | nil : All2 R [] []
  | cons {a b l1 l2} : R a b → All2 R l1 l2 → All2 R (a :: l1) (b :: l2)

theorem ORel.ok {α β : Type} {R : α → β → Prop} {a : α} {b : β} (h : R a b) : ORel R (.ok a) (.ok b) := h

theorem ORel.bind {α β γ δ : Type} {R : α → β → Prop} {S : γ → δ → Prop}
    {x : Outcome α} {y : Outcome β} {f : α → Outcome γ} {g : β → Outcome δ}
    (h : ORel R x y) (hf : ∀ a b, R a b → ORel S (f a) (g b)) : ORel S (x >>= f) (y >>= g) := by
  cases x <;> cases y <;> first | exact h.elim | exact hf _ _ h | exact trivial

theorem ORel.refl {α : Type} (x : Outcome α) : ORel Eq x x := by
  cases x <;> first | rfl | exact trivial

/-- at the top the relation is equality -/
theorem ORel.eq {α : Type} {x y : Outcome α} (h : ORel Eq x y) : x = y := by
  cases x <;> cases y <;> first | exact h.elim | rfl | exact congrArg _ h

theorem ORel.mono {α β : Type} {R S : α → β → Prop} {x : Outcome α} {y : Outcome β}
    (h : ORel R x y) (hRS : ∀ a b, R a b → S a b) : ORel S x y := by
  cases x <;> cases y <;> first | exact h.elim | exact hRS _ _ h | exact trivial

/-- a pure function of related values -/
theorem ORel.map_eq {α β γ : Type} {R : α → β → Prop} {x : Outcome α} {y : Outcome β}
    {f : α → Outcome γ} {g : β → Outcome γ}
    (h : ORel R x y) (hf : ∀ a b, R a b → f a = g b) : (x >>= f) = (y >>= g) :=
  ORel.eq (ORel.bind h (fun a b hab => by rw [hf a b hab]; exact ORel.refl _))

theorem foldlM_rel {σ₁ σ₂ ι : Type} (S : σ₁ → σ₂ → Prop) (f₁ : σ₁ → ι → Outcome σ₁)
    (f₂ : σ₂ → ι → Outcome σ₂) (l : List ι)
    (h : ∀ s1 s2 i, i ∈ l → S s1 s2 → ORel S (f₁ s1 i) (f₂ s2 i)) :
    ∀ s1 s2, S s1 s2 → ORel S (l.foldlM f₁ s1) (l.foldlM f₂ s2) := by
  induction l with
  | nil => intro s1 s2 hs; exact hs
  | cons i l ih =>
    intro s1 s2 hs
    rw [List.foldlM_cons, List.foldlM_cons]
    exact ORel.bind (h s1 s2 i List.mem_cons_self hs)
      (fun a b hab => ih (fun s1 s2 j hj => h s1 s2 j (List.mem_cons_of_mem _ hj)) a b hab)

theorem foldl_rel {σ₁ σ₂ ι : Type} (S : σ₁ → σ₂ → Prop) (f₁ : σ₁ → ι → σ₁) (f₂ : σ₂ → ι → σ₂)
    (l : List ι) (h : ∀ s1 s2 i, S s1 s2 → S (f₁ s1 i) (f₂ s2 i)) :
    ∀ s1 s2, S s1 s2 → S (l.foldl f₁ s1) (l.foldl f₂ s2) := by
  induction l with
  | nil => intro s1 s2 hs; exact hs
  | cons i l ih => intro s1 s2 hs; exact ih _ _ (h _ _ i hs)

theorem All2.append {α β : Type} {R : α → β → Prop} {l1 : List α} {l2 : List β} {k1 : List α}
    {k2 : List β} (h : All2 R l1 l2) (k : All2 R k1 k2) : All2 R (l1 ++ k1) (l2 ++ k2) := by
  induction h with
  | nil => exact k
  | cons hab _ ih => exact .cons hab ih

theorem All2.getLastD {α β : Type} {R : α → β → Prop} {l1 : List α} {l2 : List β} (h : All2 R l1 l2)
    {a : α} {b : β} (hab : R a b) : R (l1.getLastD a) (l2.getLastD b) := by
  induction h generalizing a b with
  | nil => exact hab
  | cons hab' _ ih => rw [List.getLastD_cons, List.getLastD_cons]; exact ih hab'

theorem All2.idx {α β : Type} {R : α → β → Prop} {l1 : List α} {l2 : List β} (h : All2 R l1 l2)
    (i : Nat) : ORel R (Outcome.idx l1 i) (Outcome.idx l2 i) := by
  induction h generalizing i with
  | nil => exact trivial
  | cons hab _ ih =>
    cases i with
    | zero => exact hab
    | succ i => exact ih i

theorem All2.map_eq {α β γ : Type} {R : α → β → Prop} {l1 : List α} {l2 : List β} (h : All2 R l1 l2)
    (f : α → γ) (g : β → γ) (hfg : ∀ a b, R a b → f a = g b) : l1.map f = l2.map g := by
  induction h with
  | nil => rfl
  | cons hab _ ih => rw [List.map_cons, List.map_cons, hfg _ _ hab, ih]

theorem All2.forall_left {α β : Type} {R : α → β → Prop} {l1 : List α} {l2 : List β}
    (h : All2 R l1 l2) (P : α → Prop) (hP : ∀ a b, R a b → P a) : ∀ a ∈ l1, P a := by
  induction h with
  | nil => intro a ha; cases ha
  | cons hab _ ih =>
    intro a ha
    rcases List.mem_cons.mp ha with rfl | ha
    · exact hP _ _ hab
    · exact ih a ha

theorem idx_mem {α : Type} {l : List α} {i : Nat} {a : α} (h : Outcome.idx l i = .ok a) : a ∈ l := by
  unfold Outcome.idx at h
  cases h' : l[i]? with
  | none => rw [h'] at h; cases h
  | some b => rw [h'] at h; injection h with h; subst h; exact List.mem_of_getElem? h'

/-! ### the field layer -/

/-- `FL` (limbs) refines `FN` (residues) modulo `m`: the primitive operations and the wrappers of
    `Model.Field` that the layers above use -/
structure FRel (m : Nat) (FL : FieldOps (List Nat)) (FN : FieldOps Nat) : Prop where
  modulus : FL.modulus = FN.modulus
  zero : RelF m FL.zero FN.zero
  setOne : RelF m FL.setOne FN.setOne
  add : ∀ a b x y, RelF m a x → RelF m b y → RelF m (FL.add a b) (FN.add x y)
  sub : ∀ a b x y, RelF m a x → RelF m b y → RelF m (FL.sub a b) (FN.sub x y)
  mul : ∀ a b x y, RelF m a x → RelF m b y → RelF m (FL.mul a b) (FN.mul x y)
  opp : ∀ a x, RelF m a x → RelF m (FL.opp a) (FN.opp x)
  square : ∀ a x, RelF m a x → RelF m (FL.square a) (FN.square x)
  bytes : ∀ a x, RelF m a x → Field.bytes FL a = Field.bytes FN x
  setBytes : ∀ v, ORel (RelF m) (Field.setBytes FL v) (Field.setBytes FN v)
  scalarSetBytes : ∀ v, ORel (RelF m) (Field.scalarSetBytes FL v) (Field.scalarSetBytes FN v)
  invert : ∀ a x, RelF m a x → RelF m (Field.invert FL a) (Field.invert FN x)
  raw : ∀ a x, RelF m a x → FL.raw a = FN.raw x ∧ Canon m (FL.raw a)
  ofRaw : ∀ r, Canon m r → RelF m (FL.ofRaw r) (FN.ofRaw r)

section field
variable {m : Nat} {FL : FieldOps (List Nat)} {FN : FieldOps Nat}

theorem FRel.m_pos (h : FRel m FL FN) : 0 < m := Nat.lt_of_le_of_lt (Nat.zero_le _) h.zero.1.2.2

theorem canon_zero (hm : 0 < m) : Canon m [0, 0, 0, 0] :=
  canon_mk (by decide) (by decide) (by decide) (by decide) hm

theorem FRel.equal (h : FRel m FL FN) {a b : List Nat} {x y : Nat} (ha : RelF m a x) (hb : RelF m b y) :
    Field.equal FL a b = Field.equal FN x y := by
  unfold Field.equal; rw [h.bytes a x ha, h.bytes b y hb]

theorem FRel.isZero (h : FRel m FL FN) {a : List Nat} {x : Nat} (ha : RelF m a x) :
    Field.isZero FL a = Field.isZero FN x := by
  unfold Field.isZero; rw [h.bytes a x ha, h.bytes _ _ h.zero]

theorem FRel.toNat (h : FRel m FL FN) {a : List Nat} {x : Nat} (ha : RelF m a x) :
    Field.toNat FL a = Field.toNat FN x := by
  unfold Field.toNat; rw [h.bytes a x ha]

theorem select_rel {a b : List Nat} {x y : Nat} (ha : RelF m a x) (hb : RelF m b y) (c : Nat) :
    RelF m (Field.select a b c) (Field.select x y c) := by
  unfold Field.select
  by_cases hc : c = 0
  · rw [if_pos hc, if_pos hc]; exact hb
  · rw [if_neg hc, if_neg hc]; exact ha

end field

/-! ### the masked table look-up returns a canonical limb list -/

theorem getD_canon {m : Nat} (hm : 0 < m) {pre : List (List Nat)} (hpre : ∀ e ∈ pre, Canon m e) (i : Nat) :
    Canon m (FiatWrappers.limbs4 (pre.getD i [])) := by
  rw [List.getD_eq_getElem?_getD]
  cases h : pre[i]? with
  | none => exact canon_zero hm
  | some e =>
    obtain ⟨a0, a1, a2, a3, rfl, h0, h1, h2, h3, hv⟩ := canon_cases (hpre e (List.mem_of_getElem? h))
    exact canon_mk h0 h1 h2 h3 hv

theorem and_mask64' {x : Nat} (h : x < 18446744073709551616) : x &&& 18446744073709551615 = x :=
  FiatWrappers.and_mask64 x h

/-- `multiSelectLimbs` with the caller's fallback condition `1 - ByteEq(bits, 0)`, on a table of
    canonical entries and a canonical fallback, returns a canonical limb list (an entry, the fallback,
    or zero) -/
theorem multiSelectLimbs_canon {m : Nat} (hm : 0 < m) (pre : List (List Nat)) (width bits : Nat)
    (fb : List Nat) (hpre : ∀ e ∈ pre, Canon m e) (hfb : Canon m fb) (hw : width ≤ 255) :
    Canon m (multiSelectLimbs pre width bits fb (1 - byteEq bits 0)) := by
  rw [FiatWrappers.multiSelectLimbs_eq_foldl, FiatWrappers.msFold _ _ _ _ _ _ _ (by omega)]
  obtain ⟨f0, f1, f2, f3, rfl, hf0, hf1, hf2, hf3, hfv⟩ := canon_cases hfb
  simp only [List.getD_cons_zero, List.getD_cons_succ]
  by_cases hb : bits % 256 = 0
  · have e1 : 1 - byteEq bits 0 = 0 := by unfold byteEq; rw [if_pos (by omega)]
    rw [e1, if_neg (by omega)]
    simp only [Nat.zero_mul, Nat.zero_mod, Nat.sub_zero, and_mask64' hf0, and_mask64' hf1,
      and_mask64' hf2, and_mask64' hf3]
    exact canon_mk hf0 hf1 hf2 hf3 hfv
  · have e1 : 1 - byteEq bits 0 = 1 := by unfold byteEq; rw [if_neg (by omega)]
    have e2 : 18446744073709551615 - 1 * 18446744073709551615 % 18446744073709551616 = 0 := by decide
    rw [e1, e2]
    simp only [Nat.and_zero, Nat.zero_or]
    by_cases ht : (bits + 255) % 256 < width
    · rw [if_pos ht]
      have hc := getD_canon hm hpre ((bits + 255) % 256)
      obtain ⟨hl, hlim, hv⟩ := hc
      have g : ∀ j, j < 4 → (pre.getD ((bits + 255) % 256) []).getD j 0 < 18446744073709551616 := by
        intro j hj
        apply hlim
        unfold FiatWrappers.limbs4
        have : j = 0 ∨ j = 1 ∨ j = 2 ∨ j = 3 := by omega
        rcases this with rfl | rfl | rfl | rfl <;> simp
      rw [and_mask64' (g 0 (by omega)), and_mask64' (g 1 (by omega)), and_mask64' (g 2 (by omega)),
        and_mask64' (g 3 (by omega))]
      exact ⟨hl, hlim, hv⟩
    · rw [if_neg ht]; exact canon_zero hm

/-! ### straight-line programs -/

section slp
variable {m : Nat} {FL : FieldOps (List Nat)} {FN : FieldOps Nat}

/-- environments binding the same registers to related values -/
def EnvRel (m : Nat) : SLP.Env (List Nat) → SLP.Env Nat → Prop :=
  All2 (fun a b => a.1 = b.1 ∧ RelF m a.2 b.2)

theorem get_rel {e1 : SLP.Env (List Nat)} {e2 : SLP.Env Nat} (h : EnvRel m e1 e2) {z1 : List Nat}
    {z2 : Nat} (hz : RelF m z1 z2) (r : String) : RelF m (e1.get z1 r) (e2.get z2 r) := by
  induction h with
  | nil => exact hz
  | @cons a b l1 l2 hab _ ih =>
    unfold SLP.Env.get at ih ⊢
    rw [List.find?_cons, List.find?_cons, ← hab.1]
    cases (a.1 == r) with
    | true => exact hab.2
    | false => exact ih

theorem step_rel (h : FRel m FL FN) {e1 : SLP.Env (List Nat)} {e2 : SLP.Env Nat} (he : EnvRel m e1 e2)
    (i : SLP.Instr) : EnvRel m (SLP.step (Point.slpOps FL) e1 i) (SLP.step (Point.slpOps FN) e2 i) := by
  unfold SLP.step
  refine .cons ⟨rfl, ?_⟩ he
  have ha := get_rel he h.zero i.a
  have hb := get_rel he h.zero i.b
  cases i.op
  · exact h.mul _ _ _ _ ha hb
  · exact h.add _ _ _ _ ha hb
  · exact h.sub _ _ _ _ ha hb
  · exact h.square _ _ ha

/-- evaluation of a straight-line program (with the generated `Square` for `.square`) preserves the
    relation of the environments -/
theorem eval_rel (h : FRel m FL FN) (prog : List SLP.Instr) {e1 : SLP.Env (List Nat)} {e2 : SLP.Env Nat}
    (he : EnvRel m e1 e2) :
    EnvRel m (SLP.eval (Point.slpOps FL) prog e1) (SLP.eval (Point.slpOps FN) prog e2) := by
  induction prog generalizing e1 e2 with
  | nil => exact he
  | cons i prog ih =>
    unfold SLP.eval at ih ⊢
    rw [List.foldl_cons, List.foldl_cons]
    exact ih (step_rel h he i)

end slp

/-! ### the point layer -/

/-- projective points with related coordinates -/
def RelPt (m : Nat) (P : Pt (List Nat)) (Q : Pt Nat) : Prop :=
  RelF m P.x Q.x ∧ RelF m P.y Q.y ∧ RelF m P.z Q.z

/-- point contexts: related fields and coefficient, the same programs -/
structure PRel (m : Nat) (CL : Point.Ctx (List Nat)) (CN : Point.Ctx Nat) : Prop where
  F : FRel m CL.F CN.F
  b : RelF m CL.b CN.b
  addProg : CL.addProg = CN.addProg
  addOut : CL.addOut = CN.addOut
  dblProg : CL.dblProg = CN.dblProg
  dblOut : CL.dblOut = CN.dblOut

/-- a table whose entries are canonical limb lists -/
def TableOK (m : Nat) (t : Point.Table) : Prop := ∀ c ∈ t, ∀ e ∈ c, Canon m e

theorem TableOK.getD {m : Nat} {t : Point.Table} (h : TableOK m t) (i : Nat) :
    ∀ e ∈ t.getD i [], Canon m e := by
  rw [List.getD_eq_getElem?_getD]
  cases hc : t[i]? with
  | none => intro e he; cases he
  | some c => exact h c (List.mem_of_getElem? hc)

theorem tableOK_nil (m : Nat) : TableOK m [] := fun c hc => by cases hc

theorem tablesOK_getD {m : Nat} {first : List Point.Table} (h : ∀ t ∈ first, TableOK m t) (j : Nat) :
    TableOK m (first.getD j []) := by
  rw [List.getD_eq_getElem?_getD]
  cases hc : first[j]? with
  | none => exact tableOK_nil m
  | some t => exact h t (List.mem_of_getElem? hc)

section point
variable {m : Nat} {CL : Point.Ctx (List Nat)} {CN : Point.Ctx Nat}

theorem infinity_rel (h : PRel m CL CN) : RelPt m (Point.infinity CL) (Point.infinity CN) :=
  ⟨h.F.zero, h.F.setOne, h.F.zero⟩

theorem fromXY_rel (h : PRel m CL CN) {x y : List Nat} (hx : Canon m x) (hy : Canon m y) :
    RelPt m (Point.fromXY CL x y) (Point.fromXY CN x y) :=
  ⟨h.F.ofRaw x hx, h.F.ofRaw y hy, h.F.setOne⟩

theorem add_rel (h : PRel m CL CN) {P1 P2 : Pt (List Nat)} {Q1 Q2 : Pt Nat} (h1 : RelPt m P1 Q1)
    (h2 : RelPt m P2 Q2) : RelPt m (Point.add CL P1 P2) (Point.add CN Q1 Q2) := by
  have henv : EnvRel m
      [("p1.x", P1.x), ("p1.y", P1.y), ("p1.z", P1.z), ("p2.x", P2.x), ("p2.y", P2.y), ("p2.z", P2.z),
        ("sm2B", CL.b)]
      [("p1.x", Q1.x), ("p1.y", Q1.y), ("p1.z", Q1.z), ("p2.x", Q2.x), ("p2.y", Q2.y), ("p2.z", Q2.z),
        ("sm2B", CN.b)] :=
    .cons ⟨rfl, h1.1⟩ (.cons ⟨rfl, h1.2.1⟩ (.cons ⟨rfl, h1.2.2⟩ (.cons ⟨rfl, h2.1⟩
      (.cons ⟨rfl, h2.2.1⟩ (.cons ⟨rfl, h2.2.2⟩ (.cons ⟨rfl, h.b⟩ .nil))))))
  have hev := eval_rel h.F CN.addProg henv
  unfold RelPt Point.add
  rw [h.addProg, h.addOut]
  exact ⟨get_rel hev h.F.zero _, get_rel hev h.F.zero _, get_rel hev h.F.zero _⟩

theorem double_rel (h : PRel m CL CN) {P : Pt (List Nat)} {Q : Pt Nat} (h1 : RelPt m P Q) :
    RelPt m (Point.double CL P) (Point.double CN Q) := by
  have henv : EnvRel m [("p.x", P.x), ("p.y", P.y), ("p.z", P.z), ("sm2B", CL.b)]
      [("p.x", Q.x), ("p.y", Q.y), ("p.z", Q.z), ("sm2B", CN.b)] :=
    .cons ⟨rfl, h1.1⟩ (.cons ⟨rfl, h1.2.1⟩ (.cons ⟨rfl, h1.2.2⟩ (.cons ⟨rfl, h.b⟩ .nil)))
  have hev := eval_rel h.F CN.dblProg henv
  unfold RelPt Point.double
  rw [h.dblProg, h.dblOut]
  exact ⟨get_rel hev h.F.zero _, get_rel hev h.F.zero _, get_rel hev h.F.zero _⟩

theorem negate_rel (h : PRel m CL CN) {P : Pt (List Nat)} {Q : Pt Nat} (h1 : RelPt m P Q) :
    RelPt m (Point.negate CL P) (Point.negate CN Q) :=
  ⟨h1.1, h.F.opp _ _ h1.2.1, h1.2.2⟩

/-- `Sm2CheckOnCurve` on related coordinates: the same verdict -/
theorem checkOnCurve_rel (h : PRel m CL CN) {x y : List Nat} {u v : Nat} (hx : RelF m x u)
    (hy : RelF m y v) : Point.checkOnCurve CL x y = Point.checkOnCurve CN u v := by
  unfold Point.checkOnCurve
  have h3 := h.F.add _ _ _ _ (h.F.sub _ _ _ _ (h.F.mul _ _ _ _ (h.F.square _ _ hx) hx)
    (h.F.add _ _ _ _ (h.F.add _ _ _ _ hx hx) hx)) h.b
  have h2 := h.F.square _ _ hy
  simp only [h.F.equal h3 h2]

/-- `SetBytes`: the same verdict, related points -/
theorem setBytes_rel (h : PRel m CL CN) (b : Bytes) :
    ORel (RelPt m) (Point.setBytes CL b) (Point.setBytes CN b) := by
  unfold Point.setBytes
  by_cases h1 : b.length = 1 ∧ b.head? = some 0
  · rw [if_pos h1, if_pos h1]; exact infinity_rel h
  · rw [if_neg h1, if_neg h1]
    by_cases h2 : b.length = 65 ∧ b.head? = some 4
    · rw [if_pos h2, if_pos h2]
      refine ORel.bind (h.F.setBytes _) (fun x u hx => ?_)
      refine ORel.bind (h.F.setBytes _) (fun y v hy => ?_)
      rw [checkOnCurve_rel h hx hy]
      by_cases hc : Point.checkOnCurve CN u v = true
      · rw [if_pos hc, if_pos hc]; exact ⟨hx, hy, h.F.setOne⟩
      · rw [if_neg hc, if_neg hc]; exact trivial
    · rw [if_neg h2, if_neg h2]; exact trivial

/-- `Bytes` / `Bytes_Unsafe` of related points: the same encoding -/
theorem bytes_rel (h : PRel m CL CN) {P : Pt (List Nat)} {Q : Pt Nat} (h1 : RelPt m P Q) (safe : Bool) :
    Point.bytes CL P safe = Point.bytes CN Q safe := by
  unfold Point.bytes
  have hinv := h.F.invert _ _ h1.2.2
  simp only [h.F.isZero h1.2.2, h.F.bytes _ _ (h.F.mul _ _ _ _ h1.1 hinv),
    h.F.bytes _ _ (h.F.mul _ _ _ _ h1.2.1 hinv), h.F.toNat h1.1, h.F.toNat h1.2.1, h.F.toNat h1.2.2,
    h.F.modulus]

theorem getAffineX_rel (h : PRel m CL CN) {P : Pt (List Nat)} {Q : Pt Nat} (h1 : RelPt m P Q) :
    Point.getAffineX CL P = Point.getAffineX CN Q := by
  unfold Point.getAffineX
  simp only [h.F.isZero h1.2.2, h.F.toNat (h.F.mul _ _ _ _ h1.1 (h.F.invert _ _ h1.2.2))]

theorem getAffineXUnsafe_rel (h : PRel m CL CN) {P : Pt (List Nat)} {Q : Pt Nat} (h1 : RelPt m P Q) :
    Point.getAffineXUnsafe CL P = Point.getAffineXUnsafe CN Q := by
  unfold Point.getAffineXUnsafe
  simp only [h.F.isZero h1.2.2, h.F.toNat h1.1, h.F.toNat h1.2.2, h.F.modulus]

/-- `multiSelectConditioned` on a table of canonical entries -/
theorem multiSelect_rel (h : PRel m CL CN) {P : Pt (List Nat)} {Q : Pt Nat} (h1 : RelPt m P Q)
    (pre : Point.Table) (hpre : TableOK m pre) (hasZ : Bool) (width bits : Nat) (hw : width ≤ 255) :
    ORel (RelPt m) (Point.multiSelect CL P pre hasZ width bits)
      (Point.multiSelect CN Q pre hasZ width bits) := by
  unfold Point.multiSelect
  by_cases hl : (pre.getD 0 []).length ≠ width
  · rw [if_pos hl, if_pos hl]; exact trivial
  · rw [if_neg hl, if_neg hl]
    have hm := h.F.m_pos
    obtain ⟨ex, cx⟩ := h.F.raw _ _ h1.1
    obtain ⟨ey, cy⟩ := h.F.raw _ _ h1.2.1
    obtain ⟨ez, cz⟩ := h.F.raw _ _ h1.2.2
    refine ⟨?_, ?_, ?_⟩
    · show RelF m (CL.F.ofRaw _) (CN.F.ofRaw _)
      rw [← ex]
      exact h.F.ofRaw _ (multiSelectLimbs_canon hm _ _ _ _ (hpre.getD 0) cx hw)
    · show RelF m (CL.F.ofRaw _) (CN.F.ofRaw _)
      rw [← ey]
      exact h.F.ofRaw _ (multiSelectLimbs_canon hm _ _ _ _ (hpre.getD 1) cy hw)
    · cases hasZ with
      | true =>
        show RelF m (CL.F.ofRaw _) (CN.F.ofRaw _)
        rw [← ez]
        exact h.F.ofRaw _ (multiSelectLimbs_canon hm _ _ _ _ (hpre.getD 2) cz hw)
      | false => exact select_rel h.F.setOne h1.2.2 _

/-- `TransformPrecomputed` of related points: the same table, with canonical entries -/
theorem transform_rel (h : PRel m CL CN) {l1 : List (Pt (List Nat))} {l2 : List (Pt Nat)}
    (hl : All2 (RelPt m) l1 l2) :
    Point.transformPrecomputed CL l1 = Point.transformPrecomputed CN l2 ∧
      TableOK m (Point.transformPrecomputed CL l1) := by
  unfold Point.transformPrecomputed
  refine ⟨?_, ?_⟩
  · rw [hl.map_eq (fun p => CL.F.raw p.x) (fun p => CN.F.raw p.x) (fun a b hab => (h.F.raw _ _ hab.1).1),
      hl.map_eq (fun p => CL.F.raw p.y) (fun p => CN.F.raw p.y) (fun a b hab => (h.F.raw _ _ hab.2.1).1),
      hl.map_eq (fun p => CL.F.raw p.z) (fun p => CN.F.raw p.z) (fun a b hab => (h.F.raw _ _ hab.2.2).1)]
  · intro c hc e he
    simp only [List.mem_cons, List.not_mem_nil, or_false] at hc
    rcases hc with rfl | rfl | rfl
    · obtain ⟨p, hp, rfl⟩ := List.mem_map.mp he
      exact hl.forall_left (fun p => Canon m (CL.F.raw p.x)) (fun a b hab => (h.F.raw _ _ hab.1).2) p hp
    · obtain ⟨p, hp, rfl⟩ := List.mem_map.mp he
      exact hl.forall_left (fun p => Canon m (CL.F.raw p.y)) (fun a b hab => (h.F.raw _ _ hab.2.1).2) p hp
    · obtain ⟨p, hp, rfl⟩ := List.mem_map.mp he
      exact hl.forall_left (fun p => Canon m (CL.F.raw p.z)) (fun a b hab => (h.F.raw _ _ hab.2.2).2) p hp

end point

end SMGo.Proofs.FiatCompose

#print axioms SMGo.Proofs.FiatCompose.eval_rel
#print axioms SMGo.Proofs.FiatCompose.add_rel
#print axioms SMGo.Proofs.FiatCompose.setBytes_rel
#print axioms SMGo.Proofs.FiatCompose.bytes_rel
#print axioms SMGo.Proofs.FiatCompose.multiSelect_rel
#print axioms SMGo.Proofs.FiatCompose.transform_rel
