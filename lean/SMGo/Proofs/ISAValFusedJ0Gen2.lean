import SMGo.Proofs.ISAValFusedJ0Gen1
set_option linter.unusedSimpArgs false
namespace SMGo.Proofs.ISAVal
open SMGo.Model.ISAVal SMGo.Model.GCM SMGo.Proofs.GCM SMGo.Proofs.ISATouch
open SMGo.Model.ISA (Reg Opd Instr)

def lenBlkJCode : List DInstr :=
  [ins .SHLQ [.imm 3, G 11] 0, ins .LEAQ [.sym "Shuffle2" 0, G 1] 0, ins .MOVQ [G 11, R 1] 16, ins .VMOVDQU32 [M 1 0, R 0] 16,
   ins .VPSHUFB [R 0, R 1, R 20] 16]

set_option maxRecDepth 100000 in
set_option maxHeartbeats 1000000 in
/-- the length block of `calculateJ0` in VxDat -/
theorem lenBlkJ_spec (s : State) (hG : s.gpr.length = 16) (hV : s.vec.length = 32) (hsy : s.syms = symTab)
    (rSh2 : readMem s.mem 68719476736 16 = .ok Gen.AsmData.amd64_Shuffle2) (c : Nat) (h11 : greg s 11 = c) (hc : c < 2 ^ 61) :
    ∃ s', execList lenBlkJCode s = .ok s' ∧ vreg s' 20 = unlanes 8 (List.replicate 8 0 ++ be64N (8 * c)) := by
  obtain ⟨gpr, vec, k, fl, mem, syms, frame⟩ := s
  simp only at hG hV hsy rSh2
  subst hsy
  obtain ⟨a0, a1, a2, a3, a4, a5, a6, a7, a8, a9, a10, a11, a12, a13, a14, a15, rfl⟩ := list16 gpr hG
  obtain ⟨b0, b1, b2, b3, b4, b5, b6, b7, b8, b9, b10, b11, b12, b13, b14, b15, b16, b17, b18, b19, b20, b21, b22, b23, b24, b25, b26, b27, b28, b29, b30, b31, rfl⟩ := list32 vec hV
  simp only [greg, List.getD_cons_succ, List.getD_cons_zero] at h11
  subst h11
  obtain ⟨f1, hf1⟩ := alu_shl3 a11 fl hc
  have q2 : readMem mem ((68719476736 + 0 + 0 + imm64 0) % 2 ^ 64) 16 = .ok Gen.AsmData.amd64_Shuffle2 := by rw [ea0 _ (by decide)]; exact rSh2
  apply Exists.intro
  apply And.intro
  · unfold lenBlkJCode
    apply exec_step
    · exact execD_alu_imm_e (hmn := by simp) (hold := by rfl) (hd := by simp) (halu := hf1) ..
    apply exec_step
    · exact execD_leaq (hs := symTab_shuffle2) (hd := by simp) ..
    apply exec_step
    · exact execD_movq_gpr_xmm (ha := by rfl) (hold := by rfl) (hd := by simp) ..
    apply exec_step
    · exact execD_vmov_load (hvl := by rfl) (hb := by rfl) (hd := by simp) (hload := q2) ..
    apply exec_step
    · exact execD_vec3 (hmn := by rfl) (hvl := by rfl) (ha := by rfl) (hb := by rfl) (hd := by simp) (hr := by rfl) ..
    exact execList_nil _
  · simp only [List.set_cons_succ, List.set_cons_zero, vreg, List.getD_cons_succ, List.getD_cons_zero]
    exact lenBlkJ_value _ (8 * a11) (by omega) (lane128_movq _ _ (by omega))

/-- end of the hash path of `calculateJ0`: length block, one GHASH step, the result reflected back -/
def j0FinCode : List DInstr :=
  lenBlkJCode ++ (rbCode 16 20 0 1 ++ ([ins .MOVQ [.imm 1, G 10] 0] ++ (gh1Code 20 14 ++ ([ins .SUBQ [.imm 1, G 10] 0] ++ rbCode 16 14 1 2))))

theorem kLenBlkJ : writesNone lenBlkJCode [0, 2, 3, 4, 5, 6, 7, 8, 9, 10, 12, 13, 14, 15]
    ((List.range 32).filter (fun n => !([0, 1, 20].contains n))) (List.range 8) = true := by decide +kernel
theorem kRb14 : writesNone (rbCode 16 14 1 2) (List.range 16) ((List.range 32).filter (fun n => !([1, 2, 14].contains n))) (List.range 8) = true := by
  decide +kernel

def j0FinKeepG : List Nat := [0, 2, 3, 4, 5, 6, 7, 8, 9, 12, 13, 14, 15]
def j0FinKeepV : List Nat := [4, 5, 6, 7, 8, 9, 10, 11, 12, 15, 16, 17, 18, 19, 21, 22, 23, 24, 25, 26, 29, 30, 31]

set_option maxHeartbeats 2000000 in
theorem j0Fin_spec (s : State) (pc : PCtx s) (h : Nat) (gc : GhCtx h s)
    (rSh2 : readMem s.mem 68719476736 16 = .ok Gen.AsmData.amd64_Shuffle2) (c : Nat) (h11 : greg s 11 = c) (hc : c < 2 ^ 61)
    (y : Nat) (hy : vreg s 14 = y) (hylt : y < 2 ^ 128) :
    ∃ s', execList j0FinCode s = .ok s' ∧
      vreg s' 14 = rb128 (gmulR h (y ^^^ rb128 (unlanes 8 (List.replicate 8 0 ++ be64N (8 * c))))) ∧
      Keeps j0FinKeepG j0FinKeepV (List.range 8) s s' := by
  obtain ⟨s1, hx1, v1⟩ := lenBlkJ_spec s pc.lenG pc.lenV pc.syms rSh2 c h11 hc
  have k1 := keeps_of_exec _ kLenBlkJ hx1
  have c1 := gc.of_keeps k1 (by decide)
  obtain ⟨s2, hx2, _, lt2, ln2⟩ := rb_spec 16 20 0 1 (by decide) (Or.inr ⟨by decide, rfl, rfl⟩) s1 c1.lenV c1.v22 c1.v23 c1.v24
  have k2 := keeps_of_exec _ kRbJ hx2
  have c2 := c1.of_keeps k2 (by decide)
  have hlb : unlanes 8 (List.replicate 8 0 ++ be64N (8 * c)) < 2 ^ 128 := by
    have := unlanes_lt 8 (List.replicate 8 0 ++ be64N (8 * c)) (by
      intro x hx
      rw [List.mem_append] at hx
      rcases hx with h' | h'
      · rw [List.eq_of_mem_replicate h']; decide
      · simp only [be64N, List.mem_cons, List.not_mem_nil, or_false] at h'
        rcases h' with rfl | rfl | rfl | rfl | rfl | rfl | rfl | rfl <;> exact lane_lt _ _ _)
    simpa [be64N] using this
  let s3 := setGreg s2 10 (imm64 1)
  have hx3 : execList [ins .MOVQ [.imm 1, G 10] 0] s2 = .ok s3 := by
    apply exec_step (a_movq_imm s2 1 10 (by rw [c2.lenG]; decide)); exact execList_nil _
  have k3 := keeps_of_exec _ kMov10 hx3
  have c3 := c2.of_keeps k3 (by decide)
  have y3 : vreg s3 14 = y := by rw [k3.v 14 (by decide), k2.v 14 (by decide), k1.v 14 (by decide)]; exact hy
  obtain ⟨s4, hx4, lt4, v4⟩ := gh1_spec 20 14 ⟨by decide, Or.inl rfl⟩ s3 c3.lenV h c3.hc y y3 hylt
  have k4 := keeps_of_exec _ (gh1_writes 20 14) hx4
  have c4 := c3.of_keeps k4 (by decide)
  let s5 := setFlags (setGreg s4 10 (subF 8 (greg s4 10) (imm64 1)).1) (subF 8 (greg s4 10) (imm64 1)).2
  have hx5 : execList [ins .SUBQ [.imm 1, G 10] 0] s4 = .ok s5 := by
    apply exec_step (a_subq_imm s4 1 10 (by rw [c4.lenG]; decide)); exact execList_nil _
  have k5 := keeps_of_exec _ kSub10 hx5
  have c5 := c4.of_keeps k5 (by decide)
  obtain ⟨s6, hx6, _, lt6, ln6⟩ := rb_spec 16 14 1 2 (by decide) (Or.inl ⟨by decide, rfl, rfl⟩) s5 c5.lenV c5.v22 c5.v23 c5.v24
  have k6 := keeps_of_exec _ kRb14 hx6
  have v514 : vreg s5 14 = gmulR h (y ^^^ rb128 (unlanes 8 (List.replicate 8 0 ++ be64N (8 * c)))) := by
    rw [k5.v 14 (by decide), v4, k3.v 20 (by decide), ln2 0 (by decide), v1, lane128_0_of_lt _ hlb]
  refine ⟨s6, execList_append_ok hx1 (execList_append_ok hx2 (execList_append_ok hx3 (execList_append_ok hx4 (execList_append_ok hx5 hx6)))),
    ?_, ?_⟩
  · have := ln6 0 (by decide)
    rw [lane128_0_of_lt _ lt6, v514, lane128_0_of_lt _ (gmulR_lt c5.hc.hlt (Nat.xor_lt_two_pow hylt (rb128_lt _)))] at this
    exact this
  · exact ((((k1.mono (by decide) (by decide) (fun _ h => h)).trans (k2.mono (by decide) (by decide) (fun _ h => h))).trans
      (k3.mono (by decide) (by decide) (fun _ h => h))).trans (k4.mono (by decide) (by decide) (fun _ h => h))).trans
      ((k5.mono (by decide) (by decide) (fun _ h => h)).trans (k6.mono (by decide) (by decide) (fun _ h => h)))

end SMGo.Proofs.ISAVal
