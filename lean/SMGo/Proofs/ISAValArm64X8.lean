/-
  The round block of the arm64 listing `cryptoBlockAsmX8` (sm4/asm_arm64.s): `subRoundX8(A, B, C, D, E, F, G, H)`
  — two getXor, the interleaved `tableLookupX8`, two transformL, two final VEOR — is the SM4 round function on
  every word element of BOTH register sets Z = V0..V3 and Y = V4..V7; 32 rounds; the decode of the 1536 middle
  instructions.  Arm64 value semantics: UNVALIDATED transcription of the Arm ARM.
-/
import SMGo.Proofs.ISAValArm64X4Spec
namespace SMGo.Proofs.ISAValArm64
open SMGo.Model.ISAValArm64 SMGo.Model.ISA SMGo
open SMGo.Model.ISAVal (lane lanes unlanes Region readMem writeMem lookup regionBase rotl32)
open SMGo.Proofs.ISAVal (lane_lt list32 roundF stepN iterN TN LN tauN)

/-- `transformL(U, Tx)` with T0 = V13, T1 = V14 -/
def transformLCodeG (U Tx : Nat) : List DInstr :=
  [ins .VSHL [.imm 2, R U, R 13] s2, ins .VSRI [.imm 30, R U, R 13] s2,
   ins .VSHL [.imm 10, R U, R 14] s2, ins .VSRI [.imm 22, R U, R 14] s2,
   ins .VEOR [R 13, R 14, R 13] b3,
   ins .VSHL [.imm 18, R U, R Tx] s2, ins .VSRI [.imm 14, R U, R Tx] s2,
   ins .VSHL [.imm 24, R U, R 14] s2, ins .VSRI [.imm 8, R U, R 14] s2,
   ins .VEOR [R Tx, R 14, R Tx] b3,
   ins .VEOR [R 13, R Tx, R 13] b3,
   ins .VEOR [R 13, R U, R U] b3]

/-- `subRoundX8(A, B, C, D, 4+A, 4+B, 4+C, 4+D)`: U0..U3 = V8..V11, RK = V12 -/
def sub8Code (A B C D : Nat) : List DInstr :=
  [ins .VEOR [R B, R C, R 13] b3, ins .VEOR [R D, R 12, R 14] b3, ins .VEOR [R 13, R 14, R 8] b3,
   ins .VEOR [R (4 + B), R (4 + C), R 13] b3, ins .VEOR [R (4 + D), R 12, R 14] b3, ins .VEOR [R 13, R 14, R 9] b3,
   -- tableLookupX8
   ins .VSUB [R 15, R 8, R 10] b3, ins .VTBL [R 8, L4 16 17 18 19, R 8] b3,
   ins .VSUB [R 15, R 9, R 11] b3, ins .VTBL [R 9, L4 16 17 18 19, R 9] b3,
   ins .VSUB [R 15, R 10, R 13] b3, ins .TBX [R 10, L4 20 21 22 23, R 8] b3,
   ins .VSUB [R 15, R 11, R 14] b3, ins .TBX [R 11, L4 20 21 22 23, R 9] b3,
   ins .VSUB [R 15, R 13, R 10] b3, ins .TBX [R 13, L4 24 25 26 27, R 8] b3,
   ins .VSUB [R 15, R 14, R 11] b3, ins .TBX [R 14, L4 24 25 26 27, R 9] b3,
   ins .TBX [R 10, L4 28 29 30 31, R 8] b3, ins .TBX [R 11, L4 28 29 30 31, R 9] b3]
  ++ transformLCodeG 8 10 ++ transformLCodeG 9 11
  ++ [ins .VEOR [R 8, R A, R A] b3, ins .VEOR [R 9, R (4 + A), R (4 + A)] b3]

structure Sub8Post (A B C D : Nat) (s s' : State) : Prop where
  gpr : s'.gpr = s.gpr
  lenV : s'.vec.length = 32
  mem : s'.mem = s.mem
  syms : s'.syms = s.syms
  frame : s'.frame = s.frame
  vB : vreg s' B = vreg s B
  vC : vreg s' C = vreg s C
  vD : vreg s' D = vreg s D
  vF : vreg s' (4 + B) = vreg s (4 + B)
  vG : vreg s' (4 + C) = vreg s (4 + C)
  vH : vreg s' (4 + D) = vreg s (4 + D)
  tab : s'.vec.drop 15 = s.vec.drop 15
  vA : ∀ j, j < 4 → lane 32 j (vreg s' A) =
    roundF (lane 32 j (vreg s A)) (lane 32 j (vreg s B)) (lane 32 j (vreg s C)) (lane 32 j (vreg s D))
      (lane 32 j (vreg s 12))
  vE : ∀ j, j < 4 → lane 32 j (vreg s' (4 + A)) =
    roundF (lane 32 j (vreg s (4 + A))) (lane 32 j (vreg s (4 + B))) (lane 32 j (vreg s (4 + C)))
      (lane 32 j (vreg s (4 + D))) (lane 32 j (vreg s 12))

attribute [local irreducible] execD

set_option maxRecDepth 10000 in
set_option maxHeartbeats 2000000 in
theorem sub8_spec (A B C D : Nat)
    (hperm : (A = 0 ∧ B = 1 ∧ C = 2 ∧ D = 3) ∨ (A = 1 ∧ B = 2 ∧ C = 3 ∧ D = 0) ∨
             (A = 2 ∧ B = 3 ∧ C = 0 ∧ D = 1) ∨ (A = 3 ∧ B = 0 ∧ C = 1 ∧ D = 2))
    (s : State) (hV : s.vec.length = 32) (htab : s.vec.drop 15 = tabs) :
    ∃ s', execList (sub8Code A B C D) s = .ok s' ∧ Sub8Post A B C D s s' := by
  obtain ⟨gpr, vec, mem, syms, frame⟩ := s
  simp only at hV htab
  obtain ⟨b0, b1, b2, b3, b4, b5, b6, b7, b8, b9, b10, b11, b12, b13, b14, b15, b16, b17, b18, b19, b20, b21, b22, b23, b24, b25, b26, b27, b28, b29, b30, b31, rfl⟩ := list32 vec hV
  simp only [List.drop_succ_cons, List.drop_zero, tabs, List.cons.injEq, and_true] at htab
  obtain ⟨rfl, rfl, rfl, rfl, rfl, rfl, rfl, rfl, rfl, rfl, rfl, rfl, rfl, rfl, rfl, rfl, rfl⟩ := htab
  rcases hperm with ⟨rfl, rfl, rfl, rfl⟩ | ⟨rfl, rfl, rfl, rfl⟩ | ⟨rfl, rfl, rfl, rfl⟩ | ⟨rfl, rfl, rfl, rfl⟩
  all_goals
    apply Exists.intro
    apply And.intro
    · unfold sub8Code transformLCodeG
      simp only [List.cons_append, List.nil_append, Nat.reduceAdd]
      astep; astep; astep; astep; astep; astep
      astep; astep; astep; astep; astep; astep; astep; astep; astep; astep; astep; astep; astep; astep
      astep; astep; astep; astep; astep; astep; astep; astep; astep; astep; astep; astep
      astep; astep; astep; astep; astep; astep; astep; astep; astep; astep; astep; astep
      astep; astep
      exact execList_nil _
    · refine ⟨rfl, rfl, rfl, rfl, rfl, ?_, ?_, ?_, ?_, ?_, ?_, ?_, ?_, ?_⟩
      · simp only [vreg, List.getD_cons_succ, List.getD_cons_zero]
      · simp only [vreg, List.getD_cons_succ, List.getD_cons_zero]
      · simp only [vreg, List.getD_cons_succ, List.getD_cons_zero]
      · simp only [vreg, Nat.reduceAdd, List.getD_cons_succ, List.getD_cons_zero]
      · simp only [vreg, Nat.reduceAdd, List.getD_cons_succ, List.getD_cons_zero]
      · simp only [vreg, Nat.reduceAdd, List.getD_cons_succ, List.getD_cons_zero]
      · simp only [List.drop_succ_cons, List.drop_zero]
      · intro j hj
        have h128 : 32 * (j + 1) ≤ 128 := by omega
        simp only [vreg, Nat.reduceAdd, List.getD_cons_succ, List.getD_cons_zero, Int.reduceToNat]
        simp only [lane_veor 32 j _ _ h128, lane_rot2 j _ hj, lane_rot10 j _ hj, lane_rot18 j _ hj, lane_rot24 j _ hj,
          laneJ_lookup j _ hj]
        simp only [roundF, TN, LN]
        ac_rfl
      · intro j hj
        have h128 : 32 * (j + 1) ≤ 128 := by omega
        simp only [vreg, Nat.reduceAdd, List.getD_cons_succ, List.getD_cons_zero, Int.reduceToNat]
        simp only [lane_veor 32 j _ _ h128, lane_rot2 j _ hj, lane_rot10 j _ hj, lane_rot18 j _ hj, lane_rot24 j _ hj,
          laneJ_lookup j _ hj]
        simp only [roundF, TN, LN]
        ac_rfl

end SMGo.Proofs.ISAValArm64
