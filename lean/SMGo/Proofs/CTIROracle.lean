/-
  The hypothesis `OracleRel` of the soundness theorem is inhabited: the executable model `stdOracle`
  (SMGo/Model/CTIR.lean) of the external calls of the generated program — the math/big operations on
  integers and byte lists, `io.ReadFull` on a tape, `fmt.Errorf` — satisfies it for any two tapes.
  (Clause 1: equal calls give results that agree on the public parts: the read count, the error, the next
  position; the delivered bytes only have the same length.  Clause 2: for the externals whose results
  are all secret — the math/big ones — arguments of the same shape give results of the same shape: an
  integer has no shape, `FillBytes` returns as many bytes as its buffer ARGUMENT has, and `ByteLen`
  returns the length of `Bytes()` as an integer, which the program has to declassify before using it
  as a size.)
-/
import SMGo.Proofs.CTIRSound
import SMGo.Gen.CTIRProg
open SMGo.Model.CTIR SMGo.Gen.CTIRProg
namespace SMGo.Model.CTIR


theorem erase_int' (n : Int) : (Val.int n).erase = .int 0 := by simp [Val.erase]
theorem erase_arr' (l : List Val) : (Val.arr l).erase = .arr (l.map Val.erase) := by simp [Val.erase]

theorem map_erase_ints {α : Type} (l : List α) (f : α → Int) :
    (l.map (fun i => Val.int (f i))).map Val.erase = l.map (fun _ => Val.int 0) := by
  rw [List.map_map]
  apply List.map_congr_left
  intro a _
  simp [Val.erase]

theorem bytesBE_erase (v1 v2 n : Nat) : (bytesBE v1 n).map Val.erase = (bytesBE v2 n).map Val.erase := by
  unfold bytesBE
  rw [map_erase_ints, map_erase_ints]

theorem argLen_erase {a1 a2 : List Val} (h : a1.map Val.erase = a2.map Val.erase) (i : Nat) :
    argLen a1 i = argLen a2 i := by
  have h' : (a1.map Val.erase)[i]? = (a2.map Val.erase)[i]? := by rw [h]
  simp only [List.getElem?_map] at h'
  unfold argLen
  cases h1 : a1[i]? with
  | none =>
    cases h2 : a2[i]? with
    | none => rfl
    | some v2 => simp [h1, h2] at h'
  | some v1 =>
    cases h2 : a2[i]? with
    | none => simp [h1, h2] at h'
    | some v2 =>
      simp only [h1, h2, Option.map_some, Option.some.injEq] at h'
      cases v1 with
      | int n1 =>
        cases v2 with
        | int n2 => rfl
        | arr l2 => simp [Val.erase] at h'
      | arr l1 =>
        cases v2 with
        | int n2 => simp [Val.erase] at h'
        | arr l2 =>
          simp only [erase_arr', Val.arr.injEq] at h'
          have := congrArg List.length h'
          simpa using this

/-- the concrete external world satisfies the hypothesis of the soundness theorem, for ANY two tapes:
    the contents of the reads are secret, their number, positions and lengths are those of the calls -/
theorem stdOracle_rel (t1 t2 : Nat → Nat → Nat) :
    OracleRel sigs (stdOracle extKinds t1) (stdOracle extKinds t2) := by
  refine ⟨fun name a => ?_, fun name a1 a2 hH he => ?_⟩
  · rcases name with _|_|_|_|_|_|_|_|_|_|_|_|n
    all_goals simp [sigs, extKinds, stdOracle, List.getD, lowEqList, lowEqV, erase_arr', erase_int']
  · rcases name with _|_|_|_|_|_|_|_|_|_|_|_|n
    all_goals first
      | (simp [sigs, allH] at hH; done)
      | (simp [extKinds, stdOracle, List.getD, erase_int']; done)
      | (simp only [extKinds, stdOracle, List.getD, List.getElem?_cons_succ, List.getElem?_cons_zero, Option.getD_some,
           List.map_cons, List.map_nil, erase_arr', argLen_erase he 1]
         rw [bytesBE_erase])
end SMGo.Model.CTIR
