import SMGo.Proofs.ISAValGhashPre4
namespace SMGo.Proofs.ISAVal
open SMGo.Model.ISAVal SMGo.Model.ISA SMGo.Model.GCM SMGo.Proofs.GCM

/-- VPERMQ $imm8 on a Z register, qword by qword -/
theorem lane64_vpermq_imm (imm a q : Nat) (hq : q < 8) :
    lane 64 q (map1 256 (64 / 32) (fun L => unlanes 64 ((List.range 4).map (fun i => lane 64 ((imm >>> (2 * i)) % 4) L))) a)
      = lane 64 (4 * (q / 4) + (imm >>> (2 * (q % 4))) % 4) a := by
  have hqq : 4 * (q / 4) + q % 4 = q := by omega
  have e : ∀ r, lane 64 q r = lane 64 (q % 4) (lane 256 (q / 4) r) := by
    intro r; rw [lane_lane' 256 64 4 (q % 4) (q / 4) r (by decide) (by omega), hqq]
  rw [e, lane_map1 256 (64 / 32) (q / 4) a _ (by omega)]
  · rw [lane_unlanes 64 _ (by
      intro x hx
      simp only [List.mem_map, List.mem_range] at hx
      obtain ⟨j, _, rfl⟩ := hx
      exact lane_lt 64 _ _) (q % 4) (by simp; omega)]
    simp only [List.getElem_map, List.getElem_range]
    rw [lane_lane' 256 64 4 _ (q / 4) a (by decide) (Nat.mod_lt _ (by decide))]
  · intro x _
    have := unlanes_lt 64 ((List.range 4).map (fun i => lane 64 ((imm >>> (2 * i)) % 4) x)) (by
      intro y hy
      simp only [List.mem_map, List.mem_range] at hy
      obtain ⟨j, _, rfl⟩ := hy
      exact lane_lt 64 _ _)
    simpa using this

/-- VPERMQ $0b01001110: the two 128-bit lanes of each 256-bit half are exchanged -/
theorem lane128_vpermq78 (a l : Nat) (hl : l < 4) :
    lane 128 l (map1 256 (64 / 32) (fun L => unlanes 64 ((List.range 4).map (fun i => lane 64 ((78 >>> (2 * i)) % 4) L))) a)
      = lane 128 (if l % 2 = 0 then l + 1 else l - 1) a := by
  have h4 : l = 0 ∨ l = 1 ∨ l = 2 ∨ l = 3 := by omega
  rcases h4 with rfl | rfl | rfl | rfl <;>
    (rw [lane128_qwords, lane64_vpermq_imm 78 a _ (by decide), lane64_vpermq_imm 78 a _ (by decide)]
     simp only [Nat.reduceMod, Nat.reduceDiv, Nat.reduceMul, Nat.reduceAdd, Nat.reduceShiftRight, if_true, if_false,
       Nat.reduceSub, Nat.reduceEqDiff]
     rw [lane128_qwords])

/-- VPERMQ with the index vector SHUFFLE_X_LANES: lane 0 of the result is lane 3 of the table -/
theorem lane128_vpermq_idx (tbl : Nat) :
    lane 128 0 (map1 64 (64 / 8) (fun i => lane 64 (i % (64 / 8)) tbl) IDXv) = lane 128 3 tbl := by
  rw [lane128_qwords, lane64_vpermq _ _ _ _ (by decide), lane64_vpermq _ _ _ _ (by decide), idx_q.1, idx_q.2,
    lane128_qwords 3]

theorem lane128_hi_of_lt (y l : Nat) (hy : y < 2 ^ 128) (hl : 1 ≤ l) : lane 128 l y = 0 := by
  unfold lane
  rw [Nat.shiftRight_eq_div_pow, Nat.div_eq_of_lt, Nat.zero_mod]
  exact Nat.lt_of_lt_of_le hy (Nat.pow_le_pow_right (by decide) (by
    have : 128 * 1 ≤ 128 * l := Nat.mul_le_mul_left _ hl
    omega))


/-- block `l` of a byte string, loaded and bit-reflected -/
def blkR (d : List Nat) (l : Nat) : Nat := rb128 (unlanes 8 ((d.drop (16 * l)).take 16))

/-- the aggregated step on reflected operands: (Y ⊕ X₀)·H⁴ ⊕ X₁·H³ ⊕ X₂·H² ⊕ X₃·H -/
def ghStep4N (h y : Nat) (d : List Nat) : Nat :=
  gmulR (hpow h 0) (y ^^^ blkR d 0) ^^^ gmulR (hpow h 1) (blkR d 1) ^^^ gmulR (hpow h 2) (blkR d 2) ^^^ gmulR (hpow h 3) (blkR d 3)

theorem Ctx4.same {h : Nat} {s s' : State} (c : Ctx4 h s) (hs : Same s s') : Ctx4 h s' where
  v29 := by intro l hl; rw [hs.v 29 (by decide)]; exact c.v29 l hl
  v30 := by intro l hl; rw [hs.v 30 (by decide)]; exact c.v30 l hl
  v31 := (hs.v 31 (by decide)).trans c.v31

theorem b4Code_split : b4Code =
    [ins .VMOVDQU32 [M 1 0, R 20] 64, ins .ADDQ [.imm 64, G 1] 0] ++ (rbCode 64 20 0 1 ++
    ([ins .VPXORD [R 21, R 20, R 20] 64] ++ (mulRedCode 64 29 30 20 21 ++
    [ins .VPERMQ [.imm 78, R 21, R 0] 64, ins .VPXORD [R 21, R 0, R 0] 64, ins .VPERMQ [R 0, R 31, R 1] 64,
     ins .VPXORD [R 0, R 1, R 21] 16, ins .SUBQ [.imm 4, G 2] 0, ins .CMPQ [G 2, .imm 3] 0]))) := by decide +kernel

theorem imm_78 : imm64 78 % 256 = 78 := by decide +kernel

set_option maxHeartbeats 1000000 in
/-- one iteration of `loopBy4` (with the `CMPQ count, $3` that follows) -/
theorem ghB4_spec (mem : List Region) (tp h : Nat) (s : State) (ctx : Ctx mem tp h s) (c4 : Ctx4 h s) (dp n y : Nat)
    (blk : List Nat) (hg1 : greg s 1 = dp) (hg2 : greg s 2 = n) (hv21 : vreg s 21 = y) (hy : y < 2 ^ 128)
    (hdp : dp + 64 < 2 ^ 64) (hn : 4 ≤ n) (hn63 : n < 2 ^ 63)
    (hrd : readMem mem dp 64 = .ok blk) (hblk : blk.length = 64) (hbb : ∀ x ∈ blk, x < 2 ^ 8) :
    ∃ s', execList b4Code s = .ok s' ∧ Ctx mem tp h s' ∧ Ctx4 h s' ∧ greg s' 1 = dp + 64 ∧ greg s' 2 = n - 4 ∧
      vreg s' 21 = ghStep4N h y blk ∧ vreg s' 21 < 2 ^ 128 ∧ s'.flags = (subF 8 (n - 4) 3).2 := by
  -- load and pointer increment
  let sA := setVreg s 20 (unlanes 8 blk)
  let sB := setFlags (setGreg sA 1 (addF 8 (greg sA 1) (imm64 64)).1) (addF 8 (greg sA 1) (imm64 64)).2
  have hrunAB : execList [ins .VMOVDQU32 [M 1 0, R 20] 64, ins .ADDQ [.imm 64, G 1] 0] s = .ok sB := by
    apply exec_step (s1 := sA)
    · exact a_vmov_load s 64 1 0 20 blk rfl (by rw [ctx.lenG]; decide) (by rw [ctx.lenV]; decide)
        (by rw [ctx.hmem, hg1, imm64_0, Nat.add_zero, Nat.mod_eq_of_lt (by omega)]; exact hrd)
    apply exec_step (s1 := sB)
    · exact a_addq_imm sA 64 1 (by simp [sA, ctx.lenG])
    rfl
  have sameB : Same s sB :=
    ((Same.setVreg s 20 _ (by decide)).trans (Same.setGreg sA 1 _ (by decide))).trans (Same.setFlags _ _)
  have ctxB := ctx.same sameB
  have c4B := c4.same sameB
  have hB20 : vreg sB 20 = unlanes 8 blk := by
    show vreg (setFlags (setGreg sA 1 _) _) 20 = _
    rw [vreg_setFlags, vreg_setGreg]; exact vreg_setVreg_eq s 20 _ (by rw [ctx.lenV]; decide)
  have hB21 : vreg sB 21 = y := by
    show vreg (setFlags (setGreg sA 1 _) _) 21 = _
    rw [vreg_setFlags, vreg_setGreg, vreg_setVreg_ne s 20 _ 21 (by decide)]; exact hv21
  have hB1 : greg sB 1 = dp + 64 := by
    show greg (setFlags (setGreg sA 1 _) _) 1 = _
    rw [greg_setFlags, greg_setGreg_eq _ _ _ (by simp [sA, ctx.lenG]), addF_fst, imm64_64]
    show (greg (setVreg s 20 _) 1 + 64) % 2 ^ 64 = _
    rw [greg_setVreg, hg1, Nat.mod_eq_of_lt (by omega)]
  have hB2 : greg sB 2 = n := by
    show greg (setFlags (setGreg sA 1 _) _) 2 = _
    rw [greg_setFlags, greg_setGreg_ne _ _ _ _ (by decide)]; exact hg2
  -- reverseBits of the four blocks
  obtain ⟨s2, hrun2, vo2, lt2, val2⟩ := rb_spec 64 20 0 1 rfl (Or.inr ⟨by decide, rfl, rfl⟩) sB ctxB.lenV ctxB.v22 ctxB.v23 ctxB.v24
  have same2 : Same sB s2 := Same.ofVecOnly vo2 ctxB.lenV (by decide)
  have ctx2 := ctxB.same same2
  have c42 := c4B.same same2
  have h2_20 : ∀ l, l < 4 → lane 128 l (vreg s2 20) = blkR blk l := by
    intro l hl
    rw [val2 l (by omega), hB20, laneJ_unlanes 128 8 16 l (by decide) blk hbb (by omega)]
    rfl
  have h2_21 : vreg s2 21 = y := by rw [vo2.keep 21 mem21 (by decide)]; exact hB21
  -- xor with the running value (lane 0 only: the upper lanes of V21 are zero)
  let x := map2 32 (64 / 4) (fun a b => b ^^^ a) (vreg s2 21) (vreg s2 20)
  let s3 := setVreg s2 20 x
  have hrun3 : execList [ins .VPXORD [R 21, R 20, R 20] 64] s2 = .ok s3 := by
    apply exec_step (s1 := s3)
    · exact a_vec3 s2 .VPXORD 64 21 20 20 x 32 rfl rfl (by rw [ctx2.lenV]; decide) (by rw [ctx2.lenV]; decide)
        (by rw [ctx2.lenV]; decide) rfl
    rfl
  have same3 : Same s2 s3 := Same.setVreg s2 20 x (by decide)
  have ctx3 := ctx2.same same3
  have c43 := c42.same same3
  have h3_20 : ∀ l, l < 4 → lane 128 l (vreg s3 20) = if l = 0 then blkR blk 0 ^^^ y else blkR blk l := by
    intro l hl
    rw [vreg_setVreg_eq s2 20 x (by rw [ctx2.lenV]; decide)]
    show lane 128 l (map2 32 (64 / 4) (fun a b => b ^^^ a) (vreg s2 21) (vreg s2 20)) = _
    rw [lane128_vpxord 64 l _ _ (by decide) (by omega), h2_20 l hl, h2_21]
    by_cases h0 : l = 0
    · subst h0; rw [lane128_0_of_lt _ hy]; simp
    · rw [lane128_hi_of_lt y l hy (by omega), Nat.xor_zero, if_neg h0]
  -- multiply by H⁴ : H³ : H² : H and reduce
  obtain ⟨s4, hrun4, vo4, lt4, val4⟩ := mulRed_spec 64 29 30 20 21 rfl
    (Or.inr ⟨rfl, rfl⟩) (by decide) (by decide) s3 ctx3.lenV
    (by intro l hl; rw [c43.v29 l (by omega)]; exact c43.v30 l (by omega))
    (by intro l hl; rw [ctx3.v26]; exact poly64_lanes l (by omega))
  have same4 : Same s3 s4 := Same.ofVecOnly vo4 ctx3.lenV (by decide)
  have ctx4 := ctx3.same same4
  have c44 := c43.same same4
  have hL : ∀ l, l < 4 → lane 128 l (vreg s4 21) = gmulR (hpow h l) (if l = 0 then blkR blk 0 ^^^ y else blkR blk l) := by
    intro l hl
    rw [val4 l (by omega), c43.v29 l hl, h3_20 l hl]
  have h4g1 : greg s4 1 = dp + 64 := by
    show s4.gpr.getD 1 0 = _
    rw [vo4.gpr]; show greg (setVreg s2 20 x) 1 = _
    rw [greg_setVreg]; show s2.gpr.getD 1 0 = _; rw [vo2.gpr]; exact hB1
  have h4g2 : greg s4 2 = n := by
    show s4.gpr.getD 2 0 = _
    rw [vo4.gpr]; show greg (setVreg s2 20 x) 2 = _
    rw [greg_setVreg]; show s2.gpr.getD 2 0 = _; rw [vo2.gpr]; exact hB2
  -- fold the four lanes
  have hV4 := ctx4.lenV
  have hG4 := ctx4.lenG
  let p0 := map1 256 (64 / 32) (fun L => unlanes 64 ((List.range 4).map (fun i => lane 64 (((imm64 78 % 256) >>> (2 * i)) % 4) L))) (vreg s4 21)
  let s5 := setVreg s4 0 p0
  let x0 := map2 32 (64 / 4) (fun a b => b ^^^ a) (vreg s5 21) (vreg s5 0)
  let s6 := setVreg s5 0 x0
  let p1 := map1 64 (64 / 8) (fun i => lane 64 (i % (64 / 8)) (vreg s6 0)) (vreg s6 31)
  let s7 := setVreg s6 1 p1
  let x1 := map2 32 (16 / 4) (fun a b => b ^^^ a) (vreg s7 0) (vreg s7 1)
  let s8 := setVreg s7 21 x1
  let s9 := setFlags (setGreg s8 2 (subF 8 (greg s8 2) (imm64 4)).1) (subF 8 (greg s8 2) (imm64 4)).2
  let s10 := setFlags s9 (subF 8 (greg s9 2) (imm64 3)).2
  have hrun5 : execList [ins .VPERMQ [.imm 78, R 21, R 0] 64, ins .VPXORD [R 21, R 0, R 0] 64, ins .VPERMQ [R 0, R 31, R 1] 64,
      ins .VPXORD [R 0, R 1, R 21] 16, ins .SUBQ [.imm 4, G 2] 0, ins .CMPQ [G 2, .imm 3] 0] s4 = .ok s10 := by
    apply exec_step (s1 := s5)
    · exact a_vpermq_imm s4 64 78 21 0 p0 rfl (by rw [hV4]; decide) (by rw [hV4]; decide) rfl
    apply exec_step (s1 := s6)
    · exact a_vec3 s5 .VPXORD 64 21 0 0 x0 32 rfl rfl (by simp [s5, hV4]) (by simp [s5, hV4]) (by simp [s5, hV4]) rfl
    apply exec_step (s1 := s7)
    · exact a_vpermq_reg s6 64 0 31 1 p1 64 rfl (by simp [s6, s5, hV4]) (by simp [s6, s5, hV4]) (by simp [s6, s5, hV4]) rfl
    apply exec_step (s1 := s8)
    · exact a_vec3 s7 .VPXORD 16 0 1 21 x1 32 rfl rfl (by simp [s7, s6, s5, hV4]) (by simp [s7, s6, s5, hV4])
        (by simp [s7, s6, s5, hV4]) rfl
    apply exec_step (s1 := s9)
    · exact a_subq_imm s8 4 2 (by simp [s8, s7, s6, s5, hG4])
    apply exec_step (s1 := s10)
    · exact a_cmpq_imm s9 3 2 (by simp [s9, s8, s7, s6, s5, hG4])
    rfl
  -- the values
  have e5_21 : vreg s5 21 = vreg s4 21 := vreg_setVreg_ne s4 0 p0 21 (by decide)
  have e5_0 : vreg s5 0 = p0 := vreg_setVreg_eq s4 0 p0 (by rw [hV4]; decide)
  have hx0 : ∀ l, l < 4 → lane 128 l x0 = lane 128 (if l % 2 = 0 then l + 1 else l - 1) (vreg s4 21) ^^^ lane 128 l (vreg s4 21) := by
    intro l hl
    show lane 128 l (map2 32 (64 / 4) (fun a b => b ^^^ a) (vreg s5 21) (vreg s5 0)) = _
    rw [lane128_vpxord 64 l _ _ (by decide) (by omega), e5_0, e5_21]
    show lane 128 l (map1 256 (64 / 32) (fun L => unlanes 64 ((List.range 4).map (fun i => lane 64 (((imm64 78 % 256) >>> (2 * i)) % 4) L))) (vreg s4 21)) ^^^ _ = _
    rw [imm_78, lane128_vpermq78 _ l hl]
  have e6_0 : vreg s6 0 = x0 := vreg_setVreg_eq s5 0 x0 (by simp [s5, hV4])
  have e6_31 : vreg s6 31 = IDXv := by
    show vreg (setVreg (setVreg s4 0 p0) 0 x0) 31 = _
    rw [vreg_setVreg_ne _ _ _ _ (by decide), vreg_setVreg_ne _ _ _ _ (by decide)]; exact c44.v31
  have e7_0 : vreg s7 0 = x0 := by
    show vreg (setVreg s6 1 p1) 0 = _
    rw [vreg_setVreg_ne _ _ _ _ (by decide)]; exact e6_0
  have e7_1 : vreg s7 1 = p1 := vreg_setVreg_eq s6 1 p1 (by simp [s6, s5, hV4])
  have hp1 : lane 128 0 p1 = lane 128 3 x0 := by
    show lane 128 0 (map1 64 (64 / 8) (fun i => lane 64 (i % (64 / 8)) (vreg s6 0)) (vreg s6 31)) = _
    rw [e6_31, e6_0]; exact lane128_vpermq_idx x0
  have hx1 : x1 = (lane 128 2 (vreg s4 21) ^^^ lane 128 3 (vreg s4 21)) ^^^ (lane 128 1 (vreg s4 21) ^^^ lane 128 0 (vreg s4 21)) := by
    show map2 32 (16 / 4) (fun a b => b ^^^ a) (vreg s7 0) (vreg s7 1) = _
    have hlt := vpxord_lt 16 (vreg s7 0) (vreg s7 1) (by decide)
    rw [← lane128_0_of_lt _ hlt, lane128_vpxord 16 0 _ _ (by decide) (by decide), e7_0, e7_1, hp1,
      hx0 3 (by decide), hx0 0 (by decide)]
    rfl
  have hx1lt : x1 < 2 ^ 128 := vpxord_lt 16 (vreg s7 0) (vreg s7 1) (by decide)
  have e8_21 : vreg s8 21 = x1 := vreg_setVreg_eq s7 21 x1 (by simp [s7, s6, s5, hV4])
  have e8g2 : greg s8 2 = n := by
    show greg (setVreg (setVreg (setVreg (setVreg s4 0 _) 0 _) 1 _) 21 _) 2 = _
    rw [greg_setVreg, greg_setVreg, greg_setVreg, greg_setVreg]; exact h4g2
  have e9g2 : greg s9 2 = n - 4 := by
    show greg (setFlags (setGreg s8 2 _) _) 2 = _
    rw [greg_setFlags, greg_setGreg_eq _ _ _ (by simp [s8, s7, s6, s5, hG4]), subF_fst, e8g2, imm64_4']
    omega
  have same10 : Same s4 s10 :=
    ((((((Same.setVreg s4 0 _ (by decide)).trans (Same.setVreg s5 0 _ (by decide))).trans (Same.setVreg s6 1 _ (by decide))).trans
      (Same.setVreg s7 21 _ (by decide))).trans (Same.setGreg s8 2 _ (by decide))).trans (Same.setFlags _ _)).trans (Same.setFlags _ _)
  have hL0 : lane 128 0 (vreg s4 21) = gmulR (hpow h 0) (y ^^^ blkR blk 0) := by
    rw [hL 0 (by decide), if_pos rfl, Nat.xor_comm]
  have hL1 : lane 128 1 (vreg s4 21) = gmulR (hpow h 1) (blkR blk 1) := by rw [hL 1 (by decide), if_neg (by decide)]
  have hL2 : lane 128 2 (vreg s4 21) = gmulR (hpow h 2) (blkR blk 2) := by rw [hL 2 (by decide), if_neg (by decide)]
  have hL3 : lane 128 3 (vreg s4 21) = gmulR (hpow h 3) (blkR blk 3) := by rw [hL 3 (by decide), if_neg (by decide)]
  have hval : x1 = ghStep4N h y blk := by
    rw [hx1, hL0, hL1, hL2, hL3]
    unfold ghStep4N
    generalize gmulR (hpow h 0) (y ^^^ blkR blk 0) = A
    generalize gmulR (hpow h 1) (blkR blk 1) = B
    generalize gmulR (hpow h 2) (blkR blk 2) = C
    generalize gmulR (hpow h 3) (blkR blk 3) = D
    ac_rfl
  refine ⟨s10, ?_, ctx4.same same10, c44.same same10, ?_, ?_, ?_, ?_, ?_⟩
  · rw [b4Code_split]
    exact execList_append_ok hrunAB (execList_append_ok hrun2 (execList_append_ok hrun3 (execList_append_ok hrun4 hrun5)))
  · show greg (setFlags (setFlags (setGreg s8 2 _) _) _) 1 = _
    rw [greg_setFlags, greg_setFlags, greg_setGreg_ne _ _ _ _ (by decide)]
    show greg (setVreg (setVreg (setVreg (setVreg s4 0 _) 0 _) 1 _) 21 _) 1 = _
    rw [greg_setVreg, greg_setVreg, greg_setVreg, greg_setVreg]; exact h4g1
  · show greg (setFlags s9 _) 2 = _
    rw [greg_setFlags]; exact e9g2
  · show vreg (setFlags (setFlags (setGreg s8 2 _) _) _) 21 = _
    rw [vreg_setFlags, vreg_setFlags, vreg_setGreg, e8_21]; exact hval
  · show vreg (setFlags (setFlags (setGreg s8 2 _) _) _) 21 < _
    rw [vreg_setFlags, vreg_setFlags, vreg_setGreg, e8_21]; exact hx1lt
  · show (setFlags s9 (subF 8 (greg s9 2) (imm64 3)).2).flags = _
    rw [flags_setFlags, e9g2, imm64_3]

end SMGo.Proofs.ISAVal
