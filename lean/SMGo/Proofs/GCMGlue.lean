/-
  What `ensureCapacity`, `Seal`, `Open` of `SMGo.Model.GCMGlue` compute, as closed forms over the
  slice heap: the heap afterwards and the returned slice, by cases "room in dst" / "no room".
  The contract statements of property C10 (`Props/C10.lean`) are read off these.
  Core Lean only.
-/
import SMGo.Model.GCMGlue
import SMGo.Proofs.Slice
namespace SMGo.Proofs.GCMGlue
open SMGo SMGo.Model SMGo.Model.Mem SMGo.Model.GCMGlue SMGo.Proofs.Slice

/-- the slice `make` returns in `ensureCapacity` -/
def fresh (h : Heap) (n : Nat) : Slice := { arr := some h.length, off := 0, len := n, cap := n }

/-- what the routines may assume about the assembly: output lengths -/
structure AsmLens (g : GcmAsm) : Prop where
  seal_len : ∀ nonce pt aad, (g.asm.sealOut nonce pt aad).length = pt.length + g.tagSize
  open_len : ∀ nonce ct aad pt, g.asm.openOut nonce ct aad = some pt →
    pt.length = ct.length - g.tagSize

/-! ### ensureCapacity -/

theorem ensureCapacity_room (h : Heap) (s : Slice) (asked : Nat)
    (hroom : asked ≤ s.cap - s.len) (hwf : WF h s) :
    ensureCapacity h s asked = .ok (h, { s with len := s.len + asked }) := by
  have h1 : ¬ s.cap - s.len < asked := by omega
  have h2 : s.len + asked ≤ s.cap := by have := hwf.1; omega
  simp [ensureCapacity, needExpand, h1, reslice_prefix s _ h2]

theorem ensureCapacity_expand (h : Heap) (s : Slice) (asked : Nat)
    (hroom : ¬ asked ≤ s.cap - s.len) (hwf : WF h s) :
    ensureCapacity h s asked =
      .ok (h ++ [Mem.read h s ++ List.replicate asked 0], fresh h (s.len + asked)) := by
  have h1 : s.cap - s.len < asked := by omega
  have hne1 : needExpand s asked = 1 := by simp [needExpand, h1]
  have hrl := length_read h s hwf
  by_cases hl : s.len = 0
  · have hnil : Mem.read h s = [] := List.eq_nil_of_length_eq_zero (by omega)
    simp [ensureCapacity, hne1, hl, make, makeCap, fresh, hnil]
  · obtain ⟨a, hs, ha, hcap⟩ := arr_of_cap_pos h s hwf (by have := hwf.1; omega)
    have hwf1 : WF (h ++ [List.replicate (s.len + asked) 0]) s := WF_append_heap h _ s hwf
    have hread : readPtr (h ++ [List.replicate (s.len + asked) 0]) (some (a, s.off)) s.len
        = .ok (Mem.read h s) := by
      rw [readPtr_slice _ s a hs hwf1, read_append_heap h _ s hwf]
    have hne : (Mem.read h s).isEmpty = false := by
      cases hr : Mem.read h s with
      | nil => rw [hr] at hrl; simp at hrl; omega
      | cons => rfl
    have hw : writePtr (h ++ [List.replicate (s.len + asked) 0]) (some (h.length, 0)) (Mem.read h s)
        = .ok (h ++ [Mem.read h s ++ List.replicate asked 0]) := by
      simp only [writePtr, hne]
      have hin : h.length < (h ++ [List.replicate (s.len + asked) 0]).length ∧
          0 + (Mem.read h s).length ≤
            (arrayOf (h ++ [List.replicate (s.len + asked) 0]) h.length).length := by
        rw [arrayOf_append_new]; simp [hrl]
      simp only [writeAt, hin, and_self, if_true, Bool.false_eq_true, if_false]
      congr 1
      simp only [poke, arrayOf_append_new]
      rw [← hrl, splice_replicate_zero]
      simp
    have hd : addrOf (fresh h (s.len + asked)) 0 = .ok (some (h.length, 0)) := by
      have : 0 < s.len + asked := by omega
      simp [addrOf, fresh, this]
    have hsrc : addrOf s 0 = .ok (some (a, s.off)) := by
      have := addrOf_ok s a 0 hs (by omega); simpa using this
    simp only [ensureCapacity, hne1, make, makeCap]
    simp only [show ((1 : Nat) = 0) = False by simp, if_false, ne_eq, hl, not_false_eq_true, if_true]
    show (addrOf (fresh h (s.len + asked)) 0 >>= fun d => addrOf s 0 >>= fun s_1 =>
        copyAsm (h ++ [List.replicate (s.len + asked) 0]) d s_1 s.len >>= fun h2 =>
        Outcome.ok (h2, fresh h (s.len + asked))) = _
    rw [hd, Outcome.bind_ok, hsrc, Outcome.bind_ok]
    show ((readPtr _ _ _ >>= fun bs => writePtr _ _ bs) >>= _) = _
    rw [hread, Outcome.bind_ok, hw, Outcome.bind_ok]

/-! ### Seal -/

section sealSec
variable (g : GcmAsm) (h : Heap) (dst nonce pt aad : Slice)

/-- the bytes sealAsm stores, from the inputs as they are at call time -/
def sealBytes : Bytes := g.asm.sealOut (Mem.read h nonce) (Mem.read h pt) (Mem.read h aad)

theorem seal_room (hl : AsmLens g) (ht : 0 < g.tagSize) (hwf : WF h dst) (hwp : WF h pt)
    (hn : nonce.len = g.nonceSize) (hp : pt.len ≤ maxPlain)
    (hroom : pt.len + g.tagSize ≤ dst.cap - dst.len) :
    ∃ a, dst.arr = some a ∧ a < h.length ∧ dst.off + dst.cap ≤ (arrayOf h a).length ∧
      GCMGlue.seal g h dst nonce pt aad =
        .ok (poke h a (dst.off + dst.len) (sealBytes g h nonce pt aad),
             { dst with len := dst.len + (pt.len + g.tagSize) }) := by
  obtain ⟨a, hs, ha, hcap⟩ := arr_of_cap_pos h dst hwf (by omega)
  refine ⟨a, hs, ha, hcap, ?_⟩
  have hlen : (sealBytes g h nonce pt aad).length = pt.len + g.tagSize := by
    rw [sealBytes, hl.seal_len, length_read h pt hwp]
  have hne : (sealBytes g h nonce pt aad).isEmpty = false := by
    cases hr : sealBytes g h nonce pt aad with
    | nil => rw [hr] at hlen; simp at hlen; omega
    | cons => rfl
  have hp' : ¬ pt.len > maxPlain := by omega
  have haddr : addrOf { dst with len := dst.len + (pt.len + g.tagSize) } dst.len
      = .ok (some (a, dst.off + dst.len)) := by
    have := addrOf_ok { dst with len := dst.len + (pt.len + g.tagSize) } a dst.len hs
      (by show dst.len < dst.len + (pt.len + g.tagSize); omega)
    exact this
  have hlenle := hwf.1
  have hw : writePtr h (some (a, dst.off + dst.len)) (sealBytes g h nonce pt aad)
      = .ok (poke h a (dst.off + dst.len) (sealBytes g h nonce pt aad)) := by
    have hin : a < h.length ∧
        dst.off + dst.len + (sealBytes g h nonce pt aad).length ≤ (arrayOf h a).length := by
      rw [hlen]; exact ⟨ha, by omega⟩
    simp only [writePtr, hne, writeAt, hin, and_self, if_true, Bool.false_eq_true, if_false]
  unfold GCMGlue.seal
  simp only [hn, ne_eq, not_true_eq_false, if_false, hp']
  rw [ensureCapacity_room h dst _ hroom hwf]
  show (addrOf _ dst.len >>= fun p => sealAsm g h p nonce pt aad >>= fun h2 => Outcome.ok (h2, _)) = _
  rw [haddr, Outcome.bind_ok]
  show (writePtr h _ (sealBytes g h nonce pt aad) >>= _) = _
  rw [hw, Outcome.bind_ok]

theorem seal_expand (hl : AsmLens g) (ht : 0 < g.tagSize) (hwf : WF h dst) (hwn : WF h nonce)
    (hwp : WF h pt) (hwa : WF h aad)
    (hn : nonce.len = g.nonceSize) (hp : pt.len ≤ maxPlain)
    (hroom : ¬ pt.len + g.tagSize ≤ dst.cap - dst.len) :
    GCMGlue.seal g h dst nonce pt aad =
      .ok (h ++ [Mem.read h dst ++ sealBytes g h nonce pt aad],
           fresh h (dst.len + (pt.len + g.tagSize))) := by
  have hlen : (sealBytes g h nonce pt aad).length = pt.len + g.tagSize := by
    rw [sealBytes, hl.seal_len, length_read h pt hwp]
  have hne : (sealBytes g h nonce pt aad).isEmpty = false := by
    cases hr : sealBytes g h nonce pt aad with
    | nil => rw [hr] at hlen; simp at hlen; omega
    | cons => rfl
  have hp' : ¬ pt.len > maxPlain := by omega
  have hrl := length_read h dst hwf
  let h1 := h ++ [Mem.read h dst ++ List.replicate (pt.len + g.tagSize) 0]
  have hsb : sealBytes g h1 nonce pt aad = sealBytes g h nonce pt aad := by
    simp only [sealBytes, h1, read_append_heap h _ nonce hwn, read_append_heap h _ pt hwp,
      read_append_heap h _ aad hwa]
  have haddr : addrOf (fresh h (dst.len + (pt.len + g.tagSize))) dst.len
      = .ok (some (h.length, dst.len)) := by
    simp [addrOf, fresh]; omega
  have hw : writePtr h1 (some (h.length, dst.len)) (sealBytes g h nonce pt aad)
      = .ok (h ++ [Mem.read h dst ++ sealBytes g h nonce pt aad]) := by
    have hin : h.length < h1.length ∧
        dst.len + (sealBytes g h nonce pt aad).length ≤ (arrayOf h1 h.length).length := by
      simp only [h1]; rw [arrayOf_append_new]; simp [hrl, hlen]
    simp only [writePtr, hne, writeAt, hin, and_self, if_true, Bool.false_eq_true, if_false]
    congr 1
    simp only [poke, h1, arrayOf_append_new]
    have : splice (Mem.read h dst ++ List.replicate (pt.len + g.tagSize) 0) dst.len
        (sealBytes g h nonce pt aad) = Mem.read h dst ++ sealBytes g h nonce pt aad := by
      simp [splice, ← hrl, hlen, List.drop_append]
    rw [this]; simp
  unfold GCMGlue.seal
  simp only [hn, ne_eq, not_true_eq_false, if_false, hp']
  rw [ensureCapacity_expand h dst _ hroom hwf]
  show (addrOf _ dst.len >>= fun p => sealAsm g h1 p nonce pt aad >>= fun h2 => Outcome.ok (h2, _)) = _
  rw [haddr, Outcome.bind_ok]
  show (writePtr h1 _ (sealBytes g h1 nonce pt aad) >>= _) = _
  rw [hsb, hw, Outcome.bind_ok]

end sealSec

/-! ### Open -/

section openSec
variable (g : GcmAsm) (h : Heap) (dst nonce ct aad : Slice)

/-- the heap after storing `p` right behind what dst shows (nothing is stored when `p` is empty) -/
def storeBehind (h : Heap) (dst : Slice) (p : Bytes) : Heap :=
  match dst.arr with
  | some a => if p.isEmpty then h else poke h a (dst.off + dst.len) p
  | none => h

/-- openAsm's verdict, from the inputs as they are at call time -/
def openVal : Option Bytes := g.asm.openOut (Mem.read h nonce) (Mem.read h ct) (Mem.read h aad)

theorem open_short (hn : nonce.len = g.nonceSize) (ht : gcmMinimumTagSize ≤ g.tagSize)
    (hshort : ct.len < g.tagSize ∨ ct.len > maxPlain + g.tagSize) :
    GCMGlue.open g h dst nonce ct aad = .ok (h, none) := by
  have ht' : ¬ g.tagSize < gcmMinimumTagSize := by omega
  unfold GCMGlue.open
  simp only [hn, ne_eq, not_true_eq_false, if_false, ht']
  rcases hshort with hs | hs
  · simp [hs]
  · by_cases h1 : ct.len < g.tagSize <;> simp [h1, hs]

/-- room in dst: on a tag mismatch nothing at all happens -/
theorem open_room_fail (hwf : WF h dst) (hn : nonce.len = g.nonceSize)
    (ht : gcmMinimumTagSize ≤ g.tagSize) (h1 : g.tagSize ≤ ct.len) (h2 : ct.len ≤ maxPlain + g.tagSize)
    (hroom : ct.len - g.tagSize ≤ dst.cap - dst.len)
    (hv : openVal g h nonce ct aad = none) :
    GCMGlue.open g h dst nonce ct aad = .ok (h, none) := by
  have ht' : ¬ g.tagSize < gcmMinimumTagSize := by omega
  have h1' : ¬ ct.len < g.tagSize := by omega
  have h2' : ¬ ct.len > maxPlain + g.tagSize := by omega
  have hoa : ∀ p, openAsm g h p nonce ct aad = .ok (h, 0) := by
    intro p; simp only [openAsm]; rw [show g.asm.openOut _ _ _ = none from hv]
  unfold GCMGlue.open
  simp only [hn, ne_eq, not_true_eq_false, if_false, ht', h1', h2']
  rw [ensureCapacity_room h dst _ hroom hwf]
  simp only [Outcome.bind_ok]
  by_cases hpos : dst.len + (ct.len - g.tagSize) > dst.len
  · obtain ⟨a, hs, _, _⟩ := arr_of_cap_pos h dst hwf (by omega)
    have haddr := addrOf_ok { dst with len := dst.len + (ct.len - g.tagSize) } a dst.len hs hpos
    simp only [hpos, if_true, haddr, Outcome.bind_ok, hoa]
    simp
  · simp only [hpos, if_false, hoa, Outcome.bind_ok]
    simp

/-- room in dst, tags equal: the plaintext is stored behind dst (nothing is stored, and no
    pointer is formed, when it is empty) -/
theorem open_room_ok (hl : AsmLens g) (hwf : WF h dst) (hwc : WF h ct)
    (hn : nonce.len = g.nonceSize)
    (ht : gcmMinimumTagSize ≤ g.tagSize) (h1 : g.tagSize ≤ ct.len) (h2 : ct.len ≤ maxPlain + g.tagSize)
    (hroom : ct.len - g.tagSize ≤ dst.cap - dst.len)
    (p : Bytes) (hv : openVal g h nonce ct aad = some p) :
    GCMGlue.open g h dst nonce ct aad =
      .ok (storeBehind h dst p, some { dst with len := dst.len + (ct.len - g.tagSize) }) := by
  unfold storeBehind
  have ht' : ¬ g.tagSize < gcmMinimumTagSize := by omega
  have h1' : ¬ ct.len < g.tagSize := by omega
  have h2' : ¬ ct.len > maxPlain + g.tagSize := by omega
  have hplen : p.length = ct.len - g.tagSize := by
    rw [hl.open_len _ _ _ p hv, length_read h ct hwc]
  have hoa : ∀ q, openAsm g h q nonce ct aad = (writePtr h q p >>= fun h' => .ok (h', 1)) := by
    intro q; simp only [openAsm]; rw [show g.asm.openOut _ _ _ = some p from hv]
  unfold GCMGlue.open
  simp only [hn, ne_eq, not_true_eq_false, if_false, ht', h1', h2']
  rw [ensureCapacity_room h dst _ hroom hwf]
  simp only [Outcome.bind_ok]
  have hlenle := hwf.1
  by_cases hpos : dst.len + (ct.len - g.tagSize) > dst.len
  · obtain ⟨a, hs, ha, hcap⟩ := arr_of_cap_pos h dst hwf (by omega)
    have haddr := addrOf_ok { dst with len := dst.len + (ct.len - g.tagSize) } a dst.len hs hpos
    have hne : p.isEmpty = false := by
      cases hr : p with
      | nil => rw [hr] at hplen; simp at hplen; omega
      | cons => rfl
    have hin : a < h.length ∧ dst.off + dst.len + p.length ≤ (arrayOf h a).length := by
      rw [hplen]; exact ⟨ha, by omega⟩
    have hw : writePtr h (some (a, dst.off + dst.len)) p = .ok (poke h a (dst.off + dst.len) p) := by
      simp only [writePtr, hne, writeAt, hin, and_self, if_true, Bool.false_eq_true, if_false]
    simp only [hpos, if_true, haddr, Outcome.bind_ok, hoa, hw]
    simp [hs, hne]
  · have hpe : p.isEmpty = true := by
      cases hr : p with
      | nil => rfl
      | cons => rw [hr] at hplen; simp at hplen; omega
    have hw : writePtr h none p = .ok h := by simp [writePtr, hpe]
    simp only [hpos, if_false, hoa, hw, Outcome.bind_ok]
    cases hs : dst.arr <;> simp [hpe]

/-- no room in dst (so the plaintext is not empty): a new array holding dst ‖ zeros is made before
    the tags are compared; on a mismatch it stays like that (nothing of the plaintext in it) and is
    dropped -/
theorem open_expand_fail (hwf : WF h dst) (hwn : WF h nonce) (hwc : WF h ct) (hwa : WF h aad)
    (hn : nonce.len = g.nonceSize)
    (ht : gcmMinimumTagSize ≤ g.tagSize) (h1 : g.tagSize ≤ ct.len) (h2 : ct.len ≤ maxPlain + g.tagSize)
    (hroom : ¬ ct.len - g.tagSize ≤ dst.cap - dst.len)
    (hv : openVal g h nonce ct aad = none) :
    GCMGlue.open g h dst nonce ct aad =
      .ok (h ++ [Mem.read h dst ++ List.replicate (ct.len - g.tagSize) 0], none) := by
  have ht' : ¬ g.tagSize < gcmMinimumTagSize := by omega
  have h1' : ¬ ct.len < g.tagSize := by omega
  have h2' : ¬ ct.len > maxPlain + g.tagSize := by omega
  let hh := h ++ [Mem.read h dst ++ List.replicate (ct.len - g.tagSize) 0]
  have hov : openVal g hh nonce ct aad = none := by
    rw [← hv]
    simp only [openVal, hh, read_append_heap h _ nonce hwn, read_append_heap h _ ct hwc,
      read_append_heap h _ aad hwa]
  have hoa : ∀ p, openAsm g hh p nonce ct aad = .ok (hh, 0) := by
    intro p; simp only [openAsm]; rw [show g.asm.openOut _ _ _ = none from hov]
  have hpos : (fresh h (dst.len + (ct.len - g.tagSize))).len > dst.len := by
    show dst.len + (ct.len - g.tagSize) > dst.len; omega
  have haddr : addrOf (fresh h (dst.len + (ct.len - g.tagSize))) dst.len
      = .ok (some (h.length, dst.len)) := by
    simp [addrOf, fresh]; omega
  unfold GCMGlue.open
  simp only [hn, ne_eq, not_true_eq_false, if_false, ht', h1', h2']
  rw [ensureCapacity_expand h dst _ hroom hwf]
  simp only [hh] at hoa
  simp only [Outcome.bind_ok, hpos, if_true, haddr, hoa]
  simp

theorem open_expand_ok (hl : AsmLens g) (hwf : WF h dst) (hwn : WF h nonce) (hwc : WF h ct)
    (hwa : WF h aad) (hn : nonce.len = g.nonceSize)
    (ht : gcmMinimumTagSize ≤ g.tagSize) (h1 : g.tagSize ≤ ct.len) (h2 : ct.len ≤ maxPlain + g.tagSize)
    (hroom : ¬ ct.len - g.tagSize ≤ dst.cap - dst.len)
    (p : Bytes) (hv : openVal g h nonce ct aad = some p) :
    GCMGlue.open g h dst nonce ct aad =
      .ok (h ++ [Mem.read h dst ++ p], some (fresh h (dst.len + (ct.len - g.tagSize)))) := by
  have ht' : ¬ g.tagSize < gcmMinimumTagSize := by omega
  have h1' : ¬ ct.len < g.tagSize := by omega
  have h2' : ¬ ct.len > maxPlain + g.tagSize := by omega
  have hplen : p.length = ct.len - g.tagSize := by
    rw [hl.open_len _ _ _ p hv, length_read h ct hwc]
  have hrl := length_read h dst hwf
  let hh := h ++ [Mem.read h dst ++ List.replicate (ct.len - g.tagSize) 0]
  have hov : openVal g hh nonce ct aad = some p := by
    rw [← hv]
    simp only [openVal, hh, read_append_heap h _ nonce hwn, read_append_heap h _ ct hwc,
      read_append_heap h _ aad hwa]
  have hoa : ∀ q, openAsm g hh q nonce ct aad = (writePtr hh q p >>= fun h' => .ok (h', 1)) := by
    intro q; simp only [openAsm]; rw [show g.asm.openOut _ _ _ = some p from hov]
  have hpos : (fresh h (dst.len + (ct.len - g.tagSize))).len > dst.len := by
    show dst.len + (ct.len - g.tagSize) > dst.len; omega
  have haddr : addrOf (fresh h (dst.len + (ct.len - g.tagSize))) dst.len
      = .ok (some (h.length, dst.len)) := by
    simp [addrOf, fresh]; omega
  have hne : p.isEmpty = false := by
    cases hr : p with
    | nil => rw [hr] at hplen; simp at hplen; omega
    | cons => rfl
  have hw : writePtr hh (some (h.length, dst.len)) p = .ok (h ++ [Mem.read h dst ++ p]) := by
    have hin : h.length < hh.length ∧ dst.len + p.length ≤ (arrayOf hh h.length).length := by
      simp only [hh]; rw [arrayOf_append_new]; simp [hrl, hplen]
    simp only [writePtr, hne, writeAt, hin, and_self, if_true, Bool.false_eq_true, if_false]
    congr 1
    simp only [poke, hh, arrayOf_append_new]
    have : splice (Mem.read h dst ++ List.replicate (ct.len - g.tagSize) 0) dst.len p
        = Mem.read h dst ++ p := by
      simp [splice, ← hrl, hplen, List.drop_append]
    rw [this]; simp
  unfold GCMGlue.open
  simp only [hn, ne_eq, not_true_eq_false, if_false, ht', h1', h2']
  rw [ensureCapacity_expand h dst _ hroom hwf]
  simp only [hh] at hoa hw
  simp only [Outcome.bind_ok, hpos, if_true, haddr, hoa, hw]
  simp

end openSec

end SMGo.Proofs.GCMGlue
