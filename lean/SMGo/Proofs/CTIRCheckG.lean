/-
  C08, part G: the interpreter COMPLETES (is not stuck) on concrete inputs — kernel evaluations for the
  accepted functions that fit the kernel.  The soundness theorems are about completed runs; by
  `check_progress` completion with a given fuel is a public property (it transfers to every run with
  equal public inputs, related external world and equal verdicts), and these evaluations show that it
  holds on representative inputs.  For the big functions (the inversions, the scalar
  multiplications, SignHashed, GenerateKey, DerivePublic) non-stuckness is evidenced by the driver runs of
  the harness (results compared with the real functions), not proved.
-/
import SMGo.Gen.CTIRProg
open SMGo.Model.CTIR SMGo.Gen.CTIRProg
set_option maxRecDepth 1000000
namespace SMGo.Proofs.CTIRCheck

/-- the concrete external world with an all-zero tape -/
def X0 : Oracle := stdOracle extKinds (fun _ _ => 0)

/-- `g` run on `args` in the slice of `g` ends with results or a panic (not stuck) -/
def completes (g : Nat) (args : List Val) : Bool := (run (slice prog g) globals X0 20000 g args).isSome

/-- … and these are its results -/
def results (g : Nat) (args : List Val) : Option (List Val) :=
  match run (slice prog g) globals X0 20000 g args with
  | some (.ret vs, _) => some vs
  | _ => none

def bytesV (l : List Nat) : Val := .arr (l.map (fun b => Val.int (Int.ofNat b)))
def elV (a b c d : Nat) : Val := .arr [.arr [.int (Int.ofNat a), .int (Int.ofNat b), .int (Int.ofNat c), .int (Int.ofNat d)]]
def limbsV (a b c d : Nat) : Val := .arr [.int (Int.ofNat a), .int (Int.ofNat b), .int (Int.ofNat c), .int (Int.ofNat d)]
def ptV (x y z : Nat) : Val := .arr [elV x 0 0 0, elV y 0 0 0, elV z 0 0 0]
def key32 (v : Nat) : Val := natBytes 32 v

theorem runs_ConstantTimeCmp : completes f_utils_ConstantTimeCmp [bytesV [1, 2, 3], bytesV [1, 3, 0], .int 3] = true := by decide +kernel
theorem runs_TestPrivateKey : completes f_sm2_TestPrivateKey [key32 0x1234] = true := by decide +kernel
theorem runs_TestPrivateKey_zero : completes f_sm2_TestPrivateKey [key32 0] = true := by decide +kernel
theorem runs_TestPrivateKey_short : completes f_sm2_TestPrivateKey [bytesV [7, 7, 7]] = true := by decide +kernel
theorem runs_extractBit : completes f_internal_extractBit [key32 0x8001, .int 15] = true := by decide +kernel
theorem runs_extractHigherBits : completes f_internal_extractHigherBits [key32 (2 ^ 255 + 12345), .int 17, .int 6, .int 42] = true := by decide +kernel
theorem runs_extractLowerBits : completes f_internal_extractLowerBits [key32 0xAB, .int 4] = true := by decide +kernel
theorem runs_MultiSelect : completes f_fiat_SM2Element_MultiSelect
    [elV 0 0 0 0, .arr [limbsV 1 2 3 4, limbsV 5 6 7 8, limbsV 9 10 11 12], .int 3, .int 2, elV 7 7 7 7, .int 1] = true := by decide +kernel
theorem runs_sm2Add : completes f_fiat_sm2Add [limbsV 0 0 0 0, limbsV 1 2 3 4, limbsV 5 6 7 8] = true := by decide +kernel
theorem runs_sm2Mul : completes f_fiat_sm2Mul [limbsV 0 0 0 0, limbsV 1 2 3 4, limbsV 5 6 7 8] = true := by decide +kernel
theorem runs_sm2ScalarMul : completes f_fiat_sm2ScalarMul [limbsV 0 0 0 0, limbsV 1 2 3 4, limbsV 5 6 7 8] = true := by decide +kernel
theorem runs_Select : completes f_fiat_SM2Element_Select [elV 0 0 0 0, elV 1 2 3 4, elV 5 6 7 8, .int 1] = true := by decide +kernel
theorem runs_SetBytes_p : completes f_fiat_SM2Element_SetBytes [elV 0 0 0 0, key32 0x1234567] = true := by decide +kernel
theorem runs_SetBytes_n : completes f_fiat_SM2ScalarElement_SetBytes [elV 0 0 0 0, key32 0x1234567] = true := by decide +kernel
/-- a non-canonical encoding is refused (error flag 1), the run still completes -/
theorem runs_SetBytes_n_refused : (results f_fiat_SM2ScalarElement_SetBytes [elV 0 0 0 0, key32 (2 ^ 256 - 1)]).map (fun vs => argInt vs 2) = some 1 := by decide +kernel
theorem runs_Bytes_p : completes f_fiat_SM2Element_Bytes [elV 1 2 3 4] = true := by decide +kernel
theorem runs_IsZero : completes f_fiat_SM2Element_IsZero [elV 0 0 0 0] = true := by decide +kernel
theorem runs_NewSM2Point : completes f_internal_NewSM2Point [] = true := by decide +kernel
theorem runs_ensure32Bytes : completes f_sm2_ensure32Bytes [.int 0x1234] = true := by decide +kernel
/-- the returned value: 0x1234 left-padded to 32 bytes -/
theorem result_ensure32Bytes : (results f_sm2_ensure32Bytes [.int 0x1234]).map (fun vs => natOfBytes (argBytes vs 0)) = some 0x1234 := by decide +kernel

end SMGo.Proofs.CTIRCheck
