import SMGo.Proofs.ISAValHelperCmp2
set_option linter.unusedSimpArgs false
namespace SMGo.Proofs.ISAVal
open SMGo.Model.ISAVal SMGo.Model.GCM SMGo.Proofs.GCM SMGo.Proofs.ISATouch
open SMGo.Model.ISA (Reg Opd Instr)

def hfoldKeepG : List Nat := [0, 2, 4, 5, 6, 7, 8, 9, 10, 11, 12, 13, 14, 15]

/-- `ORB G1, G2` with a byte in `G2` -/
theorem horb_spec (s : State) (hG : s.gpr.length = 16) (g1 g2 : Nat) (h1 : greg s 3 = g1) (h2 : greg s 1 = g2) (hg2 : g2 < 2 ^ 8) :
    ∃ s', execList [ins .ORB [G 3, G 1] 0] s = .ok s' ∧ greg s' 3 = g1 ∧ greg s' 1 = g2 ||| g1 % 2 ^ 8 ∧ RegsKeep hfoldKeepG s s' ∧ s'.mem = s.mem := by
  have x := a_orb_rr s 3 1 (by omega) (by omega)
  rw [h1, h2, show (8 * 1 : Nat) = 8 from rfl, Nat.mod_eq_of_lt hg2,
    mergeG_small 1 g2 _ (Or.inr rfl) hg2 (Nat.or_lt_two_pow hg2 (Nat.mod_lt _ (by decide)))] at x
  refine ⟨_, exec_step x rfl, ?_, ?_, ⟨lenG_sf s 1 _ _, ?_, rfl, rfl, rfl, rfl⟩, rfl⟩
  · rw [greg_setFlags, greg_setGreg_ne s 1 _ 3 (by decide)]; exact h1
  · rw [greg_setFlags, greg_setGreg_eq s 1 _ (by omega)]
  · intro m hm
    rw [greg_setFlags, greg_setGreg_ne s 1 _ m (by simp only [hfoldKeepG, List.mem_cons, List.not_mem_nil, or_false] at hm; omega)]

/-- `SHRQ $8, G1; ORB G1, G2` -/
theorem hshrOr_spec (s : State) (hG : s.gpr.length = 16) (g1 g2 : Nat) (h1 : greg s 3 = g1) (h2 : greg s 1 = g2) (hg2 : g2 < 2 ^ 8) :
    ∃ s', execList [ins .SHRQ [.imm 8, G 3] 0, ins .ORB [G 3, G 1] 0] s = .ok s' ∧ greg s' 3 = g1 >>> 8 ∧
      greg s' 1 = g2 ||| (g1 >>> 8) % 2 ^ 8 ∧ RegsKeep hfoldKeepG s s' ∧ s'.mem = s.mem := by
  obtain ⟨f, hf⟩ := alu_shr8 g1 s.flags
  have x1 := a_alu_imm s .SHRQ 8 3 (g1 >>> 8) f (by simp) (by omega) (by rw [h1]; exact hf)
  let s1 := setFlags (setGreg s 3 (g1 >>> 8)) f
  have hG1 : s1.gpr.length = 16 := (lenG_sf s 3 _ _).trans hG
  have e11 : greg s1 3 = g1 >>> 8 := by
    show greg (setFlags (setGreg s 3 _) _) 3 = _
    rw [greg_setFlags, greg_setGreg_eq s 3 _ (by omega)]
  have e12 : greg s1 1 = g2 := by
    show greg (setFlags (setGreg s 3 _) _) 1 = _
    rw [greg_setFlags, greg_setGreg_ne s 3 _ 1 (by decide)]; exact h2
  obtain ⟨s2, hx2, a1, a2, k2, m2⟩ := horb_spec s1 hG1 _ _ e11 e12 hg2
  refine ⟨s2, exec_step x1 hx2, a1, a2, RegsKeep.trans ⟨lenG_sf s 3 _ _, ?_, rfl, rfl, rfl, rfl⟩ k2, m2⟩
  intro m hm
  show greg (setFlags (setGreg s 3 _) _) m = _
  rw [greg_setFlags, greg_setGreg_ne s 3 _ m (by simp only [hfoldKeepG, List.mem_cons, List.not_mem_nil, or_false] at hm; omega)]

def hcFoldCode : List DInstr :=
  [ins .ORB [G 3, G 1] 0] ++ ([ins .SHRQ [.imm 8, G 3] 0, ins .ORB [G 3, G 1] 0] ++ ([ins .SHRQ [.imm 8, G 3] 0, ins .ORB [G 3, G 1] 0] ++
    ([ins .SHRQ [.imm 8, G 3] 0, ins .ORB [G 3, G 1] 0] ++ ([ins .SHRQ [.imm 8, G 3] 0, ins .ORB [G 3, G 1] 0] ++
    ([ins .SHRQ [.imm 8, G 3] 0, ins .ORB [G 3, G 1] 0] ++ ([ins .SHRQ [.imm 8, G 3] 0, ins .ORB [G 3, G 1] 0] ++
    [ins .SHRQ [.imm 8, G 3] 0, ins .ORB [G 3, G 1] 0]))))))

/-- the end of `constantTimeCompare`: all bytes of `G1` are ORed into the byte in `G2` -/
theorem hcFold_spec (s : State) (hG : s.gpr.length = 16) (g1 g2 : Nat) (h1 : greg s 3 = g1) (h2 : greg s 1 = g2) (hg2 : g2 < 2 ^ 8) :
    ∃ s', execList hcFoldCode s = .ok s' ∧ greg s' 1 = g2 ||| foldOr8 g1 ∧ RegsKeep hfoldKeepG s s' ∧ s'.mem = s.mem := by
  have lt : ∀ a b : Nat, a < 2 ^ 8 → a ||| b % 2 ^ 8 < 2 ^ 8 := fun a b ha => Nat.or_lt_two_pow ha (Nat.mod_lt _ (by decide))
  obtain ⟨s0, x0, a0, b0, k0, m0⟩ := horb_spec s hG g1 g2 h1 h2 hg2
  obtain ⟨s1, x1, a1, b1, k1, m1⟩ := hshrOr_spec s0 (k0.lenG.trans hG) _ _ a0 b0 (lt _ _ hg2)
  obtain ⟨s2, x2, a2, b2, k2, m2⟩ := hshrOr_spec s1 (k1.lenG.trans (k0.lenG.trans hG)) _ _ a1 b1 (lt _ _ (lt _ _ hg2))
  obtain ⟨s3, x3, a3, b3, k3, m3⟩ := hshrOr_spec s2 (k2.lenG.trans (k1.lenG.trans (k0.lenG.trans hG))) _ _ a2 b2 (lt _ _ (lt _ _ (lt _ _ hg2)))
  obtain ⟨s4, x4, a4, b4, k4, m4⟩ := hshrOr_spec s3 (k3.lenG.trans (k2.lenG.trans (k1.lenG.trans (k0.lenG.trans hG)))) _ _ a3 b3
    (lt _ _ (lt _ _ (lt _ _ (lt _ _ hg2))))
  obtain ⟨s5, x5, a5, b5, k5, m5⟩ := hshrOr_spec s4 (k4.lenG.trans (k3.lenG.trans (k2.lenG.trans (k1.lenG.trans (k0.lenG.trans hG))))) _ _ a4 b4
    (lt _ _ (lt _ _ (lt _ _ (lt _ _ (lt _ _ hg2)))))
  obtain ⟨s6, x6, a6, b6, k6, m6⟩ := hshrOr_spec s5 (k5.lenG.trans (k4.lenG.trans (k3.lenG.trans (k2.lenG.trans (k1.lenG.trans (k0.lenG.trans hG))))))
    _ _ a5 b5 (lt _ _ (lt _ _ (lt _ _ (lt _ _ (lt _ _ (lt _ _ hg2))))))
  obtain ⟨s7, x7, a7, b7, k7, m7⟩ := hshrOr_spec s6
    (k6.lenG.trans (k5.lenG.trans (k4.lenG.trans (k3.lenG.trans (k2.lenG.trans (k1.lenG.trans (k0.lenG.trans hG)))))))
    _ _ a6 b6 (lt _ _ (lt _ _ (lt _ _ (lt _ _ (lt _ _ (lt _ _ (lt _ _ hg2)))))))
  refine ⟨s7, execList_append_ok x0 (execList_append_ok x1 (execList_append_ok x2 (execList_append_ok x3 (execList_append_ok x4
    (execList_append_ok x5 (execList_append_ok x6 x7)))))), ?_,
    (((((((k0.trans k1).trans k2).trans k3).trans k4).trans k5).trans k6).trans k7), by rw [m7, m6, m5, m4, m3, m2, m1, m0]⟩
  rw [b7, foldOr8_lanes]
  simp only [Nat.or_assoc]

end SMGo.Proofs.ISAVal
