import SMGo.Proofs.ISAValFusedPrefix
import SMGo.Proofs.ISAValSealScheme
set_option linter.unusedSimpArgs false
namespace SMGo.Proofs.ISAVal
open SMGo.Model.ISAVal SMGo.Model.GCM SMGo.Proofs.GCM SMGo.Proofs.ISATouch
open SMGo.Model.ISA (Reg Opd Instr)

/-- the environment of the fused routines on the memory `fmem` and a frame with the common slots -/
theorem fenv_of (s : State) (nm : String) (w : Bool) (rk dst nonce inp aad tmp : List Nat)
    (hm : s.mem = fmem nm w rk dst nonce inp aad tmp) (hs : s.syms = symTab)
    (fRk : lookup s.frame "rk" = some 73014444032) (fNonce : lookup s.frame "nonce" = some 81604378624)
    (fNonceLen : lookup s.frame "nonceLen" = some nonce.length) (fTmp : lookup s.frame "tmp" = some 94489280512)
    (fAData : lookup s.frame "aData" = some 90194313216) (fALen : lookup s.frame "aLen" = some aad.length)
    (hrk : rk.length = 32) (hnl : nonce.length < 2 ^ 32) (hal : aad.length < 2 ^ 32) :
    FEnv s rk 81604378624 94489280512 90194313216 nonce aad := by
  refine ⟨hs, ?_, ?_, ?_, ?_, ?_, ?_, ?_, ?_, ?_, ?_, ?_, ?_, ?_, ?_, ?_, fRk, fNonce, fNonceLen, fTmp, fAData, fALen, ?_, ?_⟩
  all_goals rw [hm]
  · exact fmem_sym_and ..
  · exact fmem_sym_lower ..
  · exact fmem_sym_shuffle ..
  · exact fmem_sym_pre ..
  · exact fmem_sym_post ..
  · exact fmem_sym_add1 ..
  · exact fmem_sym_add2 ..
  · exact fmem_sym_add3 ..
  · exact fmem_sym_poly ..
  · exact fmem_sym_idx ..
  · exact fmem_sym_h01 ..
  · exact fmem_sym_h23 ..
  · exact fmem_sym_shuffle1 ..
  · exact fmem_sym_shuffle2 ..
  · intro i hi; exact fmem_read_rk nm w rk dst nonce inp aad tmp hrk i hi
  · intro off n hn; exact fmem_read_nonce nm w rk dst nonce inp aad tmp off n hn (by omega)
  · intro off n hn; exact fmem_read_aad nm w rk dst nonce inp aad tmp off n hn (by omega)

theorem seal_prefix_slice : Slice sealR 0 gcmPrefixCode := by
  have h := Slice.whole seal_scheme
  unfold sealCode at h
  exact h.left.left.left.left.left

theorem seal_prefix_slices : PrefixSlices sealR := prefix_slices sealR seal_prefix_slice

theorem seal_lJ : findPc sealR 4841 = some (sealR.drop 814) := label_findPc seal_labels (name := "J0.branch1") (by decide)
theorem seal_sPreLabels : SPreLabels sealR :=
  ⟨label_findPc seal_labels (name := "SPre.loopWith4") (by decide), label_findPc seal_labels (name := "SPre.loopWith1") (by decide),
   label_findPc seal_labels (name := "SPre.withRemain") (by decide), label_findPc seal_labels (name := "SPre.endSPre") (by decide)⟩

/-- **`sealAsm`, instructions 0 … 1498, on its entry state**, for a 12-byte nonce and whole-block additional data -/
theorem seal_prefix_partial (g v k rk : List Nat) (t : Nat) (dst nonce pt aad tmp : List Nat)
    (hG : g.length = 16) (hV : v.length = 32) (hK : k.length = 8) (hrk : rk.length = 32) (hrkb : ∀ x ∈ rk, x < 2 ^ 32)
    (hn : nonce.length = 12) (hnb : ∀ x ∈ nonce, x < 2 ^ 8) (hal : aad.length % 16 = 0) (hab : ∀ x ∈ aad, x < 2 ^ 8)
    (hall : aad.length < 2 ^ 32) :
    ∃ s5 N, N ≤ 34 * (aad.length / 16) + 1200 ∧ Reach sealR 0 (sealState g v k rk t dst nonce pt aad tmp) 1499 s5 N ∧
      AfterPrefix rk nonce aad 81604378624 94489280512 90194313216 s5 := by
  have e := fenv_of (sealState g v k rk t dst nonce pt aad tmp) "plaintext" false rk dst nonce pt aad tmp (seal_mem ..) (seal_syms ..)
    (by simp [sealState, mkState, lookup]; rfl) (by simp [sealState, mkState, lookup]; rfl) (by simp [sealState, mkState, lookup])
    (by simp [sealState, mkState, lookup]; rfl) (by simp [sealState, mkState, lookup]; rfl) (by simp [sealState, mkState, lookup])
    hrk (by omega) hall
  exact prefix_partial sealR seal_prefix_slices seal_lJ seal_sPreLabels _ hG hV hK rk nonce aad _ _ _ e hrk hrkb hn hnb (by decide) hal hab
    (by omega)

end SMGo.Proofs.ISAVal
