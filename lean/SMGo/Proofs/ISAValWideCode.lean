import SMGo.Proofs.ISAValWideRev
import SMGo.Proofs.ISAValGhashMem
namespace SMGo.Proofs.ISAVal
open SMGo.Model.ISAVal SMGo.Model.ISA

/-- prologue of cryptoBlockAsmX4 / X8 / X16 (vector length 16 / 32 / 64): constants, four vector loads, `rev32`,
    4×4 transposition -/
def wproCode (vl : Nat) : List DInstr :=
  [ins .LEAQ [.sym "Shuffle" 0, G 1] 0,
   (if vl = 16 then ins .VMOVDQU32 [M 1 0, R 12] 16 else ins .VBROADCASTI32X4 [M 1 0, R 12] vl),
   ins .MOVQ [.frame "src" 24, G 1] 0,
   ins .VMOVDQU32 [M 1 0, R 6] vl,
   ins .VMOVDQU32 [M 1 (vl : Nat), R 7] vl,
   ins .VMOVDQU32 [M 1 ((2 * vl : Nat)), R 8] vl,
   ins .VMOVDQU32 [M 1 ((3 * vl : Nat)), R 9] vl,
   ins .LEAQ [.sym "PreAffineMatrix" 0, G 0] 0,
   ins .LEAQ [.sym "PostAffineMatrix" 0, G 3] 0,
   ins .VBROADCASTI32X2 [M 0 0, R 10] vl,
   ins .VBROADCASTI32X2 [M 3 0, R 11] vl,
   ins .MOVQ [.frame "rk" 8, G 0] 0,
   ins .MOVQ [.frame "dst" 16, G 3] 0]
  ++ rev4Code vl ++ transposeCode vl 6 7 8 9

/-- epilogue: transposition back (registers in reverse order), `rev32`, four vector stores -/
def wepiCode (vl : Nat) : List DInstr :=
  transposeCode vl 9 8 7 6 ++ rev4Code vl ++
  [ins .VMOVDQU32 [R 9, M 3 0] vl,
   ins .VMOVDQU32 [R 8, M 3 (vl : Nat)] vl,
   ins .VMOVDQU32 [R 7, M 3 ((2 * vl : Nat))] vl,
   ins .VMOVDQU32 [R 6, M 3 ((3 * vl : Nat))] vl]

def wideCode (vl : Nat) : List DInstr := wproCode vl ++ roundsCodeL vl 32 ++ wepiCode vl

/-- **the regenerated listings of the three wide kernels are this scheme** at vector length 16, 32, 64 -/
theorem wide_decode :
    (Routine.ofListing Gen.ListAmd64Asm.cryptoBlockAsmX4).toOption.map (fun r => r.map erasePc) = some (wideCode 16 ++ [ins .RET [] 0])
    ∧ (Routine.ofListing Gen.ListAmd64Asm.cryptoBlockAsmX8).toOption.map (fun r => r.map erasePc) = some (wideCode 32 ++ [ins .RET [] 0])
    ∧ (Routine.ofListing Gen.ListAmd64Asm.cryptoBlockAsmX16).toOption.map (fun r => r.map erasePc) = some (wideCode 64 ++ [ins .RET [] 0]) := by
  decide +kernel

theorem wide_noControl : (wideCode 16).all (fun i => !i.mn.isControl) = true ∧ (wideCode 32).all (fun i => !i.mn.isControl) = true
    ∧ (wideCode 64).all (fun i => !i.mn.isControl) = true := by decide +kernel
theorem wide_length : (wideCode 16).length = 585 ∧ (wideCode 32).length = 585 ∧ (wideCode 64).length = 585 := by decide +kernel

end SMGo.Proofs.ISAVal
