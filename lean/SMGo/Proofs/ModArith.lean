/-
  Modular arithmetic of the SM2 oracle (`Spec.SM2.powMod`, `Spec.SM2.invMod`) connected to
  Mathlib: `powMod x e m = x ^ e % m`, Fermat inversion modulo a prime, and the casts to `ZMod m`.
  Foundations for C01–C03, C12–C16.
-/
import SMGo.Spec.SM2
import Mathlib.Data.ZMod.Basic
import Mathlib.FieldTheory.Finite.Basic

namespace SMGo.Proofs.ModArith
open SMGo.Spec.SM2

/-- the loop invariant of `powModAux` -/
theorem powModAux_eq (m : Nat) : ∀ (fuel x e acc : Nat), e < 2 ^ fuel → acc < m →
    powModAux m fuel x e acc = acc * x ^ e % m := by
  intro fuel
  induction fuel with
  | zero =>
    intro x e acc he hacc
    have : e = 0 := by simpa using he
    subst this
    simp [powModAux, Nat.mod_eq_of_lt hacc]
  | succ fuel ih =>
    intro x e acc he hacc
    unfold powModAux
    by_cases h0 : e = 0
    · subst h0; simp [Nat.mod_eq_of_lt hacc]
    · rw [if_neg h0]
      have hm : 0 < m := Nat.lt_of_le_of_lt (Nat.zero_le _) hacc
      have he2 : e / 2 < 2 ^ fuel := by
        rw [Nat.div_lt_iff_lt_mul (by decide)]
        simpa [Nat.pow_succ] using he
      have hacc' : (if e % 2 = 1 then acc * x % m else acc) < m := by
        split
        · exact Nat.mod_lt _ hm
        · exact hacc
      rw [ih _ _ _ he2 hacc']
      have hsplit : x ^ e = (x * x) ^ (e / 2) * x ^ (e % 2) := by
        conv_lhs => rw [← Nat.div_add_mod e 2]
        rw [Nat.pow_add, Nat.pow_mul, Nat.pow_two]
      rw [hsplit]
      have hpm : (x * x % m) ^ (e / 2) % m = (x * x) ^ (e / 2) % m := (Nat.pow_mod _ _ _).symm
      rcases Nat.mod_two_eq_zero_or_one e with h | h
      · rw [h, if_neg (by decide), Nat.pow_zero, Nat.mul_one, Nat.mul_mod, hpm, ← Nat.mul_mod]
      · rw [h, if_pos rfl, Nat.pow_one, Nat.mul_mod, Nat.mod_mod, hpm, ← Nat.mul_mod]
        congr 1
        ring

/-- `powMod` is modular exponentiation -/
theorem powMod_eq (x e m : Nat) (hm : 0 < m) : powMod x e m = x ^ e % m := by
  unfold powMod
  rw [powModAux_eq m _ _ _ _ Nat.lt_log2_self (Nat.mod_lt _ hm)]
  rw [Nat.mul_mod, Nat.mod_mod, ← Nat.mul_mod, Nat.one_mul, ← Nat.pow_mod]

theorem powMod_lt (x e m : Nat) (hm : 0 < m) : powMod x e m < m := by
  rw [powMod_eq x e m hm]; exact Nat.mod_lt _ hm

theorem powMod_cast (x e m : Nat) (hm : 0 < m) : (powMod x e m : ZMod m) = (x : ZMod m) ^ e := by
  rw [powMod_eq x e m hm, ZMod.natCast_mod, Nat.cast_pow]

theorem invMod_eq (x m : Nat) (hm : 0 < m) : invMod x m = x ^ (m - 2) % m :=
  powMod_eq x (m - 2) m hm

theorem invMod_lt (x m : Nat) (hm : 0 < m) : invMod x m < m := powMod_lt x (m - 2) m hm

/-- in a prime field, `x ^ (m - 2)` is the inverse (also for `x = 0` when `m > 2`) -/
theorem zmod_pow_sub_two {m : Nat} [Fact m.Prime] (hm : 2 < m) (z : ZMod m) :
    z ^ (m - 2) = z⁻¹ := by
  by_cases hz : z = 0
  · subst hz
    rw [inv_zero, zero_pow (by omega)]
  · have h1 : z ^ (m - 1) = 1 := ZMod.pow_card_sub_one_eq_one hz
    have h2 : z ^ (m - 2) * z = 1 := by
      rw [← pow_succ]
      have : m - 2 + 1 = m - 1 := by omega
      rw [this, h1]
    exact eq_inv_of_mul_eq_one_left h2

/-- the cast of the Fermat inverse is the field inverse -/
theorem invMod_cast {m : Nat} [Fact m.Prime] (hm : 2 < m) (x : Nat) :
    (invMod x m : ZMod m) = (x : ZMod m)⁻¹ := by
  unfold invMod
  rw [powMod_cast x (m - 2) m (by omega), zmod_pow_sub_two hm]

/-- Fermat inversion: `x * x^(m-2) ≡ 1 (mod m)` for prime `m` not dividing `x` -/
theorem invMod_spec {x m : Nat} (hp : m.Prime) (hx : ¬ m ∣ x) : (x * invMod x m) % m = 1 := by
  have : Fact m.Prime := ⟨hp⟩
  have hm : 0 < m := hp.pos
  have hz : (x : ZMod m) ≠ 0 := by
    rwa [Ne, ZMod.natCast_eq_zero_iff]
  have h1 : ((x * invMod x m : Nat) : ZMod m) = ((1 : Nat) : ZMod m) := by
    unfold invMod
    rw [Nat.cast_mul, powMod_cast x (m - 2) m hm, ← pow_succ', Nat.cast_one]
    have : m - 2 + 1 = m - 1 := by have := hp.two_le; omega
    rw [this]
    exact ZMod.pow_card_sub_one_eq_one hz
  rw [ZMod.natCast_eq_natCast_iff'] at h1
  rw [h1, Nat.mod_eq_of_lt hp.one_lt]

theorem invMod_spec' {x m : Nat} (hp : m.Prime) (hx : ¬ m ∣ x) : (invMod x m * x) % m = 1 := by
  rw [Nat.mul_comm]; exact invMod_spec hp hx

/-- the inverse of a multiple of `m` is 0 (modulus above 2) -/
theorem invMod_zero' {x m : Nat} (hm : 2 < m) (hx : m ∣ x) : invMod x m = 0 := by
  rw [invMod_eq x m (by omega)]
  apply Nat.mod_eq_zero_of_dvd
  exact dvd_trans hx (dvd_pow_self x (by omega))

theorem invMod_zero {m : Nat} (hm : 2 < m) : invMod 0 m = 0 := invMod_zero' hm (dvd_zero m)

/-- `invMod` depends only on the residue -/
theorem invMod_mod (x m : Nat) (hm : 0 < m) : invMod (x % m) m = invMod x m := by
  rw [invMod_eq _ m hm, invMod_eq _ m hm, ← Nat.pow_mod]

end SMGo.Proofs.ModArith
