/-
  Property C16, small generated Fiat-Crypto functions for the group order n (`sm2Scalar*`):
  Add, Sub, Opp, Selectznz, SetOne, Nonzero, ToBytes, FromBytes.
  Add/Sub/Opp instantiate the modulus-generic `addG` / `subG` of `FiatSmallP`; the modulus-independent
  functions have literally the same text as the p versions and are transferred by `rfl`.  Core Lean only.
-/
import SMGo.Proofs.FiatSmallP
import SMGo.Gen.FiatN
namespace SMGo.Proofs.FiatSmallN
open SMGo SMGo.Proofs.Fiat SMGo.Model.FiatPrim SMGo.Proofs.FiatSmallP

theorem cmovN_eq (c x y : Nat) : Gen.FiatN.sm2ScalarCmovznzU64 c x y = cmov c x y := rfl

theorem n_eq : Spec.SM2.n =
    v4 0x53bbf40939d54123 0x7203df6b21c6052b 0xffffffffffffffff 0xfffffffeffffffff := by decide

/-! ### Add, Sub, Opp -/

theorem add_eq_addG : Gen.FiatN.sm2ScalarAdd =
    addG 0x53bbf40939d54123 0x7203df6b21c6052b 0xffffffffffffffff 0xfffffffeffffffff := rfl

theorem sub_eq_subG : Gen.FiatN.sm2ScalarSub =
    subG (fun x => x &&& 0x53bbf40939d54123) (fun x => x &&& 0x7203df6b21c6052b) (fun x => x)
      (fun x => x &&& 0xfffffffeffffffff) := rfl

theorem opp_eq_subG (a : List Nat) : Gen.FiatN.sm2ScalarOpp a =
    subG (fun x => x &&& 0x53bbf40939d54123) (fun x => x &&& 0x7203df6b21c6052b) (fun x => x)
      (fun x => x &&& 0xfffffffeffffffff) [0, 0, 0, 0] a := rfl

theorem add_spec (a b : List Nat) (ha : Canon Spec.SM2.n a) (hb : Canon Spec.SM2.n b) :
    Canon Spec.SM2.n (Gen.FiatN.sm2ScalarAdd a b) ∧
      eval (Gen.FiatN.sm2ScalarAdd a b) = (eval a + eval b) % Spec.SM2.n := by
  rw [n_eq] at ha hb ⊢
  rw [add_eq_addG]
  exact addG_spec (by decide) (by decide) (by decide) (by decide) a b ha hb

theorem sub_spec (a b : List Nat) (ha : Canon Spec.SM2.n a) (hb : Canon Spec.SM2.n b) :
    Canon Spec.SM2.n (Gen.FiatN.sm2ScalarSub a b) ∧
      eval (Gen.FiatN.sm2ScalarSub a b) = (eval a + Spec.SM2.n - eval b) % Spec.SM2.n := by
  rw [n_eq] at ha hb ⊢
  rw [sub_eq_subG]
  exact subG_spec (by decide) (by decide) (by decide) (by decide) (by decide) (by decide) (by decide)
    (by decide) (by decide) (by decide) (by decide) (by decide) a b ha hb

theorem opp_spec (a : List Nat) (ha : Canon Spec.SM2.n a) :
    Canon Spec.SM2.n (Gen.FiatN.sm2ScalarOpp a) ∧
      eval (Gen.FiatN.sm2ScalarOpp a) = (Spec.SM2.n - eval a) % Spec.SM2.n := by
  rw [n_eq] at ha ⊢
  rw [opp_eq_subG]
  have h := subG_spec (f0 := fun x => x &&& 0x53bbf40939d54123) (f1 := fun x => x &&& 0x7203df6b21c6052b)
    (f2 := fun x => x) (f3 := fun x => x &&& 0xfffffffeffffffff)
    (by decide) (by decide) (by decide) (by decide) (by decide) (by decide) (by decide)
    (by decide) (by decide) (by decide) (by decide) (by decide) [0, 0, 0, 0] a
    (canon_zero (by decide)) ha
  have e : eval [0, 0, 0, 0] = 0 := by decide
  rw [e, Nat.zero_add] at h
  exact h

/-! ### the modulus-independent functions: same text as the p versions -/

theorem scalarSelectznz_eq : Gen.FiatN.sm2ScalarSelectznz = Gen.FiatP.sm2Selectznz := rfl
theorem scalarNonzero_eq : Gen.FiatN.sm2ScalarNonzero = Gen.FiatP.sm2Nonzero := rfl
theorem scalarToBytes_eq : Gen.FiatN.sm2ScalarToBytes = Gen.FiatP.sm2ToBytes := rfl
theorem scalarFromBytes_eq : Gen.FiatN.sm2ScalarFromBytes = Gen.FiatP.sm2FromBytes := rfl
theorem scalarCmovznzU64_eq : Gen.FiatN.sm2ScalarCmovznzU64 = Gen.FiatP.sm2CmovznzU64 := rfl

theorem selectznz_zero (a b : List Nat) (ha : Limbs4 a) : Gen.FiatN.sm2ScalarSelectznz 0 a b = a := by
  rw [scalarSelectznz_eq]; exact FiatSmallP.selectznz_zero a b ha

theorem selectznz_one (a b : List Nat) (hb : Limbs4 b) : Gen.FiatN.sm2ScalarSelectznz 1 a b = b := by
  rw [scalarSelectznz_eq]; exact FiatSmallP.selectznz_one a b hb

theorem setOne_spec : Canon Spec.SM2.n Gen.FiatN.sm2ScalarSetOne ∧
    eval Gen.FiatN.sm2ScalarSetOne = 2 ^ 256 % Spec.SM2.n :=
  ⟨canon_mk (by decide) (by decide) (by decide) (by decide) (by decide), by decide⟩

theorem nonzero_spec (a : List Nat) (ha : Limbs4 a) :
    (Gen.FiatN.sm2ScalarNonzero a = 0 ↔ eval a = 0) ∧ Gen.FiatN.sm2ScalarNonzero a < 2 ^ 64 := by
  rw [scalarNonzero_eq]; exact FiatSmallP.nonzero_spec a ha

theorem toBytes_spec (a : List Nat) (ha : Limbs4 a) :
    (Gen.FiatN.sm2ScalarToBytes a).length = 32 ∧ (∀ x ∈ Gen.FiatN.sm2ScalarToBytes a, x < 256) ∧
      leValue (Gen.FiatN.sm2ScalarToBytes a) = eval a := by
  rw [scalarToBytes_eq]; exact FiatSmallP.toBytes_spec a ha

theorem fromBytes_spec (bs : List Nat) (hl : bs.length = 32) (hb : ∀ x ∈ bs, x < 256) :
    Limbs4 (Gen.FiatN.sm2ScalarFromBytes bs) ∧ eval (Gen.FiatN.sm2ScalarFromBytes bs) = leValue bs := by
  rw [scalarFromBytes_eq]; exact FiatSmallP.fromBytes_spec bs hl hb

theorem fromBytes_toBytes (a : List Nat) (ha : Limbs4 a) :
    Gen.FiatN.sm2ScalarFromBytes (Gen.FiatN.sm2ScalarToBytes a) = a := by
  rw [scalarFromBytes_eq, scalarToBytes_eq]; exact FiatSmallP.fromBytes_toBytes a ha

theorem toBytes_fromBytes (bs : List Nat) (hl : bs.length = 32) (hb : ∀ x ∈ bs, x < 256) :
    Gen.FiatN.sm2ScalarToBytes (Gen.FiatN.sm2ScalarFromBytes bs) = bs := by
  rw [scalarFromBytes_eq, scalarToBytes_eq]; exact FiatSmallP.toBytes_fromBytes bs hl hb

end SMGo.Proofs.FiatSmallN
