/-
  C09: kernel-evaluated taint certificates (`certify`, see SMGo/Model/ISA.lean) for the amd64 routines below.
  Each `cert_*` is decided by `decide +kernel`: the kernel computes the invariant (`computeInv`) of the
  macro-expanded listing and checks it instruction by instruction (`checkInv`); nothing is trusted but the kernel.
-/
import SMGo.Proofs.ISASound
import SMGo.Gen.ListAmd64Gcm
import SMGo.Gen.ListAmd64Helper

namespace SMGo.Proofs.ISACheck
open SMGo.Model.ISA SMGo.Proofs.ISASound SMGo.Gen
set_option maxRecDepth 100000

theorem cert_gHashBlocks_amd64 : certify ListAmd64Gcm.gHashBlocks [] = true := by decide +kernel

theorem ct_gHashBlocks_amd64 : checkInv ListAmd64Gcm.gHashBlocks (invOf ListAmd64Gcm.gHashBlocks) [] = true := (certify_spec cert_gHashBlocks_amd64).1

theorem cert_needExpand_amd64 : certify ListAmd64Helper.needExpand [] = true := by decide +kernel

theorem ct_needExpand_amd64 : checkInv ListAmd64Helper.needExpand (invOf ListAmd64Helper.needExpand) [] = true := (certify_spec cert_needExpand_amd64).1

theorem cert_transpose4x4_amd64 : certify ListAmd64Helper.transpose4x4 [] = true := by decide +kernel

theorem ct_transpose4x4_amd64 : checkInv ListAmd64Helper.transpose4x4 (invOf ListAmd64Helper.transpose4x4) [] = true := (certify_spec cert_transpose4x4_amd64).1

theorem cert_transpose2x4_amd64 : certify ListAmd64Helper.transpose2x4 [] = true := by decide +kernel

theorem ct_transpose2x4_amd64 : checkInv ListAmd64Helper.transpose2x4 (invOf ListAmd64Helper.transpose2x4) [] = true := (certify_spec cert_transpose2x4_amd64).1

theorem cert_transpose1x4_amd64 : certify ListAmd64Helper.transpose1x4 [] = true := by decide +kernel

theorem ct_transpose1x4_amd64 : checkInv ListAmd64Helper.transpose1x4 (invOf ListAmd64Helper.transpose1x4) [] = true := (certify_spec cert_transpose1x4_amd64).1

theorem cert_concatenateX_amd64 : certify ListAmd64Helper.concatenateX [] = true := by decide +kernel

theorem ct_concatenateX_amd64 : checkInv ListAmd64Helper.concatenateX (invOf ListAmd64Helper.concatenateX) [] = true := (certify_spec cert_concatenateX_amd64).1

theorem cert_concatenateY_amd64 : certify ListAmd64Helper.concatenateY [] = true := by decide +kernel

theorem ct_concatenateY_amd64 : checkInv ListAmd64Helper.concatenateY (invOf ListAmd64Helper.concatenateY) [] = true := (certify_spec cert_concatenateY_amd64).1

theorem cert_copyAsm_amd64 : certify ListAmd64Helper.copyAsm [] = true := by decide +kernel

theorem ct_copyAsm_amd64 : checkInv ListAmd64Helper.copyAsm (invOf ListAmd64Helper.copyAsm) [] = true := (certify_spec cert_copyAsm_amd64).1

theorem cert_constantTimeCompareAsm_amd64 : certify ListAmd64Helper.constantTimeCompareAsm [] = true := by decide +kernel

theorem ct_constantTimeCompareAsm_amd64 : checkInv ListAmd64Helper.constantTimeCompareAsm (invOf ListAmd64Helper.constantTimeCompareAsm) [] = true := (certify_spec cert_constantTimeCompareAsm_amd64).1

end SMGo.Proofs.ISACheck
