import SMGo.Proofs.ISAValLadX21A
set_option linter.unusedSimpArgs false
namespace SMGo.Proofs.ISAVal
open SMGo.Model.ISAVal SMGo.Model.GCM SMGo.Proofs.GCM SMGo.Proofs.ISATouch
open SMGo.Model.ISA (Reg Opd Instr)

theorem x2_eq (b : Nat) : ladX2Code b =
    [ins .CMPQ [G 9, .imm 32] 0, ins .JLT [.target (b + 15501)] 0] ++ (x2ACode ++
      ([ins .CMPQ [G 0, .imm 0] 0, ins .JEQ [.target (b + 15484)] 0] ++ (hash2Code ++ (ladTailCode 32 ++
        [ins .JMP [.target (b + 11872)] 0])))) := by
  simp only [ladX2Code, x2ACode, fill2Code, kern2Code, x2tCode, x2endCode, t14Code, t41Code, xs2Code, hash2Code, gh1StepCode, ladTailCode,
    List.append_assoc, List.cons_append, List.nil_append]

theorem kern2_len : kern2Code.length = 531 := by
  simp only [kern2Code, x2tCode, x2endCode, t14Code, t41Code, List.length_append, len_r32, List.length_cons, List.length_nil]
theorem kern2_nc : kern2Code.all (fun i => !i.mn.isControl) = true := by
  simp only [kern2Code, x2tCode, x2endCode, t14Code, t41Code, rounds32Code, rnCode, srCode, List.all_append, List.all_cons, List.all_nil, ins,
    Mn.isControl, Bool.not_false, Bool.and_self]
theorem x2A_len : x2ACode.length = 540 := by
  simp only [x2ACode, List.length_append, kern2_len, fill2Code, xs2Code, List.length_cons, List.length_nil]
theorem x2A_nc : x2ACode.all (fun i => !i.mn.isControl) = true := by
  unfold x2ACode; rw [List.all_append, List.all_append, kern2_nc]; rfl
theorem hash2_len : hash2Code.length = 53 := by decide +kernel
theorem hash2_nc : hash2Code.all (fun i => !i.mn.isControl) = true := by decide +kernel

set_option maxHeartbeats 1000000 in
/-- **`loopX2`**, when at least 32 bytes remain -/
theorem x2_step (r : Routine) (k b : Nat) (hs : Slice r k (ladX2Code b))
    (lself : findPc r (b + 11872) = some (r.drop k)) (ldone : findPc r (b + 15484) = some (r.drop (k + 597)))
    (lnext : findPc r (b + 15501) = some (r.drop (k + 602)))
    (M2 : List Nat → List Nat → List Region) (dbase dlen tp sp : Nat) (rk jb src : List Nat) (lm : LadMem M2 dbase dlen tp rk src sp)
    (hrk : rk.length = 32) (hrkb : ∀ x ∈ rk, x < 2 ^ 32) (hjb : jb.length = 16) (hjbb : ∀ x ∈ jb, x < 2 ^ 8) (hsb : ∀ x ∈ src, x < 2 ^ 8)
    (hsp : sp + src.length < 2 ^ 63) (hdb : dbase + dlen < 2 ^ 63) (hsl : src.length ≤ dlen)
    (toff h hf c y : Nat) (dc tc : List Nat) (s : State) (hhf : hf < 2 ^ 63)
    (st : LadSt M2 dbase dlen tp sp toff (Wblk jb 0) h hf src 1 c y dc tc s) (hlen : 16 * c + 32 ≤ src.length) :
    ∃ s' N, N ≤ 700 ∧ Reach r k s k s' N ∧
      LadSt M2 dbase dlen tp sp toff (Wblk jb 0) h hf src 1 (c + 2)
        (if hf = 0 then y else ghN h 2 y (xorN ((src.drop (16 * c)).take 32) (ksN rk jb c 2)))
        (spliceAt dc (16 * c) (xorN ((src.drop (16 * c)).take 32) (ksN rk jb c 2))) tc s' ∧
      KeepsM ladKeepG ladKeepV (List.range 8) s s' := by
  rw [x2_eq] at hs
  have sG : Slice r k [ins .CMPQ [G 9, .imm 32] 0, ins .JLT [.target (b + 15501)] 0] := hs.left
  have sA : Slice r (k + 2) x2ACode := hs.right.left
  have sH0 := hs.right.right
  rw [x2A_len] at sH0
  have sC : Slice r (k + 2 + 540) [ins .CMPQ [G 0, .imm 0] 0, ins .JEQ [.target (b + 15484)] 0] := sH0.left
  have sH : Slice r (k + 2 + 540 + 2) hash2Code := sH0.right.left
  have sT0 := sH0.right.right
  rw [hash2_len] at sT0
  have sT : Slice r (k + 2 + 540 + 2 + 53) (ladTailCode 32) := sT0.left
  have sJ : Slice r (k + 2 + 540 + 2 + 53 + 4) [ins .JMP [.target (b + 11872)] 0] := sT0.right
  have hg9 : greg s 9 = src.length - 16 * c := st.g9
  have r0 := guard_reach (idx := k + 602) sG rfl lnext s (by rw [st.pc.lenG]; decide) (src.length - 16 * c) 32 hg9 imm64_32 false
    (by rw [cond_jlt _ _ (by omega) (by decide)]; simp; omega)
  simp only [Bool.false_eq_true, if_false] at r0
  let s0 := setFlags s (subF 8 (src.length - 16 * c) 32).2
  have k0 : KeepsM (List.range 16) (List.range 32) (List.range 8) s s0 := keepsM_setFlags _ _ _ s _
  have pc0 : PCtx s0 := st.pc.of_keepsM k0 (by decide)
  obtain ⟨s1, hr1, m1, reg9, reg8, ctr1, g15, k1⟩ := x2A_spec s0 pc0 rk jb src hrk hrkb hjb hjbb hsb (fun d => M2 d tc) dbase dlen sp
    (lm.m2.bufD tc st.htc) (fun d i hd hi => lm.rk d tc i hd st.htc hi) dc st.hdc st.mem c (st.srcOK tc st.htc)
    (st.ctr 0 (by decide)) st.rkp st.g10 st.g13 hlen (by omega) hsp hdb
  have r1 : Reach r (k + 2) s0 (k + 2 + 540) s1 540 := by
    have := reach_seg sA x2A_nc hr1; rw [x2A_len] at this; exact this
  have c1 : GhCtx h s1 := (st.gh.of_keepsM k0 (by decide)).of_keepsM k1 (by decide)
  have hg0 : greg s1 0 = hf := by rw [k1.g 0 (by decide)]; exact st.g0
  have r2 := guard_reach (idx := k + 597) sC rfl ldone s1 (by rw [c1.lenG]; decide) hf 0 hg0 imm64_0' (decide (hf = 0))
    (cond_jeq _ _ hhf (by decide))
  let s2 := setFlags s1 (subF 8 hf 0).2
  have k2 : KeepsM (List.range 16) (List.range 32) (List.range 8) s1 s2 := keepsM_setFlags _ _ _ s1 _
  have c2 : GhCtx h s2 := c1.of_keepsM k2 (by decide)
  have y2 : vreg s2 21 = y := by
    show vreg s1 21 = y
    rw [k1.v 21 (by decide)]; exact st.acc
  obtain ⟨s3, N3, hN3, r3, y3, lt3, m3, k3⟩ : ∃ s3 N3, N3 ≤ 121 ∧ Reach r (if decide (hf = 0) = true then k + 597 else k + 2 + 540 + 2) s2 (k + 597) s3 N3 ∧
      vreg s3 21 = (if hf = 0 then y else ghN h 2 y (xorN ((src.drop (16 * c)).take 32) (ksN rk jb c 2))) ∧ vreg s3 21 < 2 ^ 128 ∧
      s3.mem = s2.mem ∧ KeepsM hKeepG hKeepV (List.range 8) s2 s3 := by
    by_cases h0 : hf = 0
    · simp only [h0, decide_true, if_true]
      exact ⟨s2, 0, by omega, Reach.refl _ _ _, y2, by rw [y2]; exact st.acclt, rfl, KeepsM.rfl' _ _ _ _⟩
    · simp only [h0, decide_false, Bool.false_eq_true, if_false]
      have hch := chunks2 src (16 * c) hlen
      have hc0 : ((src.drop (16 * c + 0)).take 16).length = 16 := by rw [List.length_take, List.length_drop]; omega
      have hc1 : ((src.drop (16 * c + 16)).take 16).length = 16 := by rw [List.length_take, List.length_drop]; omega
      obtain ⟨s3, hr3, v3, l3, _, k3⟩ := hash2_spec s2 h c2 y y2 st.acclt (xorN ((src.drop (16 * c + 0)).take 16) (encB rk (ctrBlk jb (c + 1))))
        (xorN ((src.drop (16 * c + 16)).take 16) (encB rk (ctrBlk jb (c + 2))))
        ⟨by rw [xorN_length, encB_length, hc0]; rfl,
          xorN_bytes _ _ (fun x hx => hsb x (List.mem_of_mem_drop (List.mem_of_mem_take hx))) (encB_bytes _ _)⟩
        ⟨by rw [xorN_length, encB_length, hc1]; rfl,
          xorN_bytes _ _ (fun x hx => hsb x (List.mem_of_mem_drop (List.mem_of_mem_take hx))) (encB_bytes _ _)⟩
        (by show vreg s1 9 = _; exact reg9) (by show vreg s1 8 = _; exact reg8)
      have := reach_seg sH hash2_nc hr3
      rw [hash2_len] at this
      refine ⟨s3, 53, by omega, this.cast (by omega) rfl, ?_, l3, k3.mem, k3.toM.mono (by decide) (by decide) (fun _ h => h)⟩
      rw [v3, ksN_two, hch, xorN_append _ _ _ _ (by rw [encB_length, hc0])]
  have hG3 : s3.gpr.length = 16 := k3.lenG.trans c2.lenG
  have e13 : greg s3 13 = dbase + 16 * c := by
    rw [k3.g 13 (by decide)]; show greg s1 13 = _; rw [k1.g 13 (by decide)]; exact st.g13
  have e10 : greg s3 10 = sp + 16 * c := by
    rw [k3.g 10 (by decide)]; show greg s1 10 = _; rw [k1.g 10 (by decide)]; exact st.g10
  have e9 : greg s3 9 = src.length - 16 * c := by
    rw [k3.g 9 (by decide)]; show greg s1 9 = _; rw [k1.g 9 (by decide)]; exact st.g9
  obtain ⟨s4, hr4, g13, g10, g9, k4⟩ := ladTail_spec 32 32 imm64_32 (by decide) s3 hG3 _ _ _ e13 e10 e9 (by omega) (by omega) (by omega) (by omega)
  have r4 : Reach r (k + 2 + 540 + 2 + 53) s3 (k + 2 + 540 + 2 + 53 + 4) s4 4 := reach_seg sT (ladTail_nc 32) hr4
  have r5 : Reach r (k + 2 + 540 + 2 + 53 + 4) s4 k s4 1 := reach_jmp sJ lself s4
  have rAll : Reach r k s k s4 (2 + 540 + 2 + N3 + 4 + 1) :=
    (((((r0.trans r1).trans r2).trans r3).trans (r4.cast rfl rfl)).trans r5)
  have kA : KeepsM ladKeepG ladKeepV (List.range 8) s s4 := by
    refine ((((k0.mono (by decide) (by decide) (fun _ h => h)).trans ?_).trans (k2.mono (by decide) (by decide) (fun _ h => h))).trans
      (k3.mono (by decide) (by decide) (fun _ h => h))).trans (k4.toM.mono (by decide) (by decide) (fun _ h => h))
    exact ⟨k1.lenG, k1.lenV, k1.lenK, fun n hn => by
        simp only [ladKeepG, List.mem_cons, List.not_mem_nil, or_false] at hn
        rcases hn with rfl | rfl | rfl
        · exact k1.g 0 (by decide)
        · exact k1.g 6 (by decide)
        · rw [g15]; exact st.rkp.symm,
      fun n hn => k1.v n (by revert n; decide), fun n hn => k1.k n hn, k1.syms, k1.frame⟩
  refine ⟨s4, _, by omega, rAll, ?_, kA⟩
  have hm4 : s4.mem = M2 (spliceAt dc (16 * c) (xorN ((src.drop (16 * c)).take 32) (ksN rk jb c 2))) tc := by
    rw [k4.mem, m3]; exact m1
  refine ⟨st.pc.of_keepsM kA pRegs_lad, st.gh.of_keepsM kA ghRegs_lad, (kA.g 15 (by decide)).trans st.rkp, (kA.g 0 (by decide)).trans st.g0,
    ?_, ?_, ?_, (kA.g 6 (by decide)).trans st.g6, ?_, ?_, ?_, hm4, ?_, st.htc, ?_⟩
  · rw [g9]; omega
  · rw [g10]; omega
  · rw [g13]; omega
  · intro l hl
    have hl0 : l = 0 := by omega
    subst hl0
    rw [k4.v 14 (by decide), k3.v 14 (by decide)]; exact ctr1
  · rw [k4.v 21 (by decide)]; exact y3
  · rw [← y3]; exact lt3
  · rw [spliceAt_length _ _ _ (by rw [xorN_length, ksN_length, List.length_take, List.length_drop, st.hdc]; omega)]; exact st.hdc
  · intro t ht
    exact (lm.adv dc t (16 * c) 32 _ st.hdc ht (by rw [xorN_length, ksN_length, List.length_take, List.length_drop]; omega) (by omega)
      (st.srcOK t ht)).mono _ (by omega)

theorem x1_eq (b : Nat) : ladX1Code b =
    [ins .CMPQ [G 9, .imm 16] 0, ins .JLT [.target (b + 18937)] 0] ++ (x1ACode ++
      ([ins .CMPQ [G 0, .imm 0] 0, ins .JEQ [.target (b + 18920)] 0] ++ (hash1Code ++ (ladTailCode 16 ++
        [ins .JMP [.target (b + 15501)] 0])))) := by
  simp only [ladX1Code, x1ACode, fill1Code, kern1Code, x2tCode, x2endCode, t14Code, t41Code, xs1Code, hash1Code, gh1StepCode, ladTailCode,
    List.append_assoc, List.cons_append, List.nil_append]

theorem kern1_len : kern1Code.length = 529 := by
  simp only [kern1Code, x2tCode, x2endCode, t14Code, t41Code, List.length_append, len_r32, List.length_cons, List.length_nil]
theorem kern1_nc : kern1Code.all (fun i => !i.mn.isControl) = true := by
  simp only [kern1Code, x2tCode, x2endCode, t14Code, t41Code, rounds32Code, rnCode, srCode, List.all_append, List.all_cons, List.all_nil, ins,
    Mn.isControl, Bool.not_false, Bool.and_self]
theorem x1A_len : x1ACode.length = 534 := by
  simp only [x1ACode, List.length_append, kern1_len, fill1Code, xs1Code, List.length_cons, List.length_nil]
theorem x1A_nc : x1ACode.all (fun i => !i.mn.isControl) = true := by
  unfold x1ACode; rw [List.all_append, List.all_append, kern1_nc]; rfl
theorem hash1_len : hash1Code.length = 27 := by decide +kernel
theorem hash1_nc : hash1Code.all (fun i => !i.mn.isControl) = true := by decide +kernel

set_option maxHeartbeats 1000000 in
/-- **`loopX1`**, when at least 16 bytes remain -/
theorem x1_step (r : Routine) (k b : Nat) (hs : Slice r k (ladX1Code b))
    (lself : findPc r (b + 15501) = some (r.drop k)) (ldone : findPc r (b + 18920) = some (r.drop (k + 565)))
    (lnext : findPc r (b + 18937) = some (r.drop (k + 570)))
    (M2 : List Nat → List Nat → List Region) (dbase dlen tp sp : Nat) (rk jb src : List Nat) (lm : LadMem M2 dbase dlen tp rk src sp)
    (hrk : rk.length = 32) (hrkb : ∀ x ∈ rk, x < 2 ^ 32) (hjb : jb.length = 16) (hjbb : ∀ x ∈ jb, x < 2 ^ 8) (hsb : ∀ x ∈ src, x < 2 ^ 8)
    (hsp : sp + src.length < 2 ^ 63) (hdb : dbase + dlen < 2 ^ 63) (hsl : src.length ≤ dlen)
    (toff h hf c y : Nat) (dc tc : List Nat) (s : State) (hhf : hf < 2 ^ 63)
    (st : LadSt M2 dbase dlen tp sp toff (Wblk jb 0) h hf src 1 c y dc tc s) (hlen : 16 * c + 16 ≤ src.length) :
    ∃ s' N, N ≤ 700 ∧ Reach r k s k s' N ∧
      LadSt M2 dbase dlen tp sp toff (Wblk jb 0) h hf src 1 (c + 1)
        (if hf = 0 then y else ghN h 1 y (xorN ((src.drop (16 * c)).take 16) (ksN rk jb c 1)))
        (spliceAt dc (16 * c) (xorN ((src.drop (16 * c)).take 16) (ksN rk jb c 1))) tc s' ∧
      KeepsM ladKeepG ladKeepV (List.range 8) s s' := by
  rw [x1_eq] at hs
  have sG : Slice r k [ins .CMPQ [G 9, .imm 16] 0, ins .JLT [.target (b + 18937)] 0] := hs.left
  have sA : Slice r (k + 2) x1ACode := hs.right.left
  have sH0 := hs.right.right
  rw [x1A_len] at sH0
  have sC : Slice r (k + 2 + 534) [ins .CMPQ [G 0, .imm 0] 0, ins .JEQ [.target (b + 18920)] 0] := sH0.left
  have sH : Slice r (k + 2 + 534 + 2) hash1Code := sH0.right.left
  have sT0 := sH0.right.right
  rw [hash1_len] at sT0
  have sT : Slice r (k + 2 + 534 + 2 + 27) (ladTailCode 16) := sT0.left
  have sJ : Slice r (k + 2 + 534 + 2 + 27 + 4) [ins .JMP [.target (b + 15501)] 0] := sT0.right
  have hg9 : greg s 9 = src.length - 16 * c := st.g9
  have r0 := guard_reach (idx := k + 570) sG rfl lnext s (by rw [st.pc.lenG]; decide) (src.length - 16 * c) 16 hg9 imm64_16 false
    (by rw [cond_jlt _ _ (by omega) (by decide)]; simp; omega)
  simp only [Bool.false_eq_true, if_false] at r0
  let s0 := setFlags s (subF 8 (src.length - 16 * c) 16).2
  have k0 : KeepsM (List.range 16) (List.range 32) (List.range 8) s s0 := keepsM_setFlags _ _ _ s _
  have pc0 : PCtx s0 := st.pc.of_keepsM k0 (by decide)
  obtain ⟨s1, hr1, m1, reg9, ctr1, g15, k1⟩ := x1A_spec s0 pc0 rk jb src hrk hrkb hjb hjbb hsb (fun d => M2 d tc) dbase dlen sp
    (lm.m2.bufD tc st.htc) (fun d i hd hi => lm.rk d tc i hd st.htc hi) dc st.hdc st.mem c (st.srcOK tc st.htc)
    (st.ctr 0 (by decide)) st.rkp st.g10 st.g13 hlen (by omega) hsp hdb
  have r1 : Reach r (k + 2) s0 (k + 2 + 534) s1 534 := by
    have := reach_seg sA x1A_nc hr1; rw [x1A_len] at this; exact this
  have c1 : GhCtx h s1 := (st.gh.of_keepsM k0 (by decide)).of_keepsM k1 (by decide)
  have hg0 : greg s1 0 = hf := by rw [k1.g 0 (by decide)]; exact st.g0
  have r2 := guard_reach (idx := k + 565) sC rfl ldone s1 (by rw [c1.lenG]; decide) hf 0 hg0 imm64_0' (decide (hf = 0))
    (cond_jeq _ _ hhf (by decide))
  let s2 := setFlags s1 (subF 8 hf 0).2
  have k2 : KeepsM (List.range 16) (List.range 32) (List.range 8) s1 s2 := keepsM_setFlags _ _ _ s1 _
  have c2 : GhCtx h s2 := c1.of_keepsM k2 (by decide)
  have y2 : vreg s2 21 = y := by
    show vreg s1 21 = y
    rw [k1.v 21 (by decide)]; exact st.acc
  obtain ⟨s3, N3, hN3, r3, y3, lt3, m3, k3⟩ : ∃ s3 N3, N3 ≤ 121 ∧ Reach r (if decide (hf = 0) = true then k + 565 else k + 2 + 534 + 2) s2 (k + 565) s3 N3 ∧
      vreg s3 21 = (if hf = 0 then y else ghN h 1 y (xorN ((src.drop (16 * c)).take 16) (ksN rk jb c 1))) ∧ vreg s3 21 < 2 ^ 128 ∧
      s3.mem = s2.mem ∧ KeepsM hKeepG hKeepV (List.range 8) s2 s3 := by
    by_cases h0 : hf = 0
    · simp only [h0, decide_true, if_true]
      exact ⟨s2, 0, by omega, Reach.refl _ _ _, y2, by rw [y2]; exact st.acclt, rfl, KeepsM.rfl' _ _ _ _⟩
    · simp only [h0, decide_false, Bool.false_eq_true, if_false]
      obtain ⟨s3, hr3, v3, l3, _, k3⟩ := hash1_spec s2 h c2 y y2 st.acclt (xorN ((src.drop (16 * c)).take 16) (ksN rk jb c 1))
        ⟨by rw [xorN_length, ksN_length, List.length_take, List.length_drop]; omega,
          xorN_bytes _ _ (fun x hx => hsb x (List.mem_of_mem_drop (List.mem_of_mem_take hx))) (ksN_bytes _ _ _ _)⟩
        (by show vreg s1 9 = _; exact reg9)
      have := reach_seg sH hash1_nc hr3
      rw [hash1_len] at this
      refine ⟨s3, 27, by omega, this.cast (by omega) rfl, ?_, l3, k3.mem, k3.toM.mono (by decide) (by decide) (fun _ h => h)⟩
      exact v3
  have hG3 : s3.gpr.length = 16 := k3.lenG.trans c2.lenG
  have e13 : greg s3 13 = dbase + 16 * c := by
    rw [k3.g 13 (by decide)]; show greg s1 13 = _; rw [k1.g 13 (by decide)]; exact st.g13
  have e10 : greg s3 10 = sp + 16 * c := by
    rw [k3.g 10 (by decide)]; show greg s1 10 = _; rw [k1.g 10 (by decide)]; exact st.g10
  have e9 : greg s3 9 = src.length - 16 * c := by
    rw [k3.g 9 (by decide)]; show greg s1 9 = _; rw [k1.g 9 (by decide)]; exact st.g9
  obtain ⟨s4, hr4, g13, g10, g9, k4⟩ := ladTail_spec 16 16 imm64_16 (by decide) s3 hG3 _ _ _ e13 e10 e9 (by omega) (by omega) (by omega) (by omega)
  have r4 : Reach r (k + 2 + 534 + 2 + 27) s3 (k + 2 + 534 + 2 + 27 + 4) s4 4 := reach_seg sT (ladTail_nc 16) hr4
  have r5 : Reach r (k + 2 + 534 + 2 + 27 + 4) s4 k s4 1 := reach_jmp sJ lself s4
  have rAll : Reach r k s k s4 (2 + 534 + 2 + N3 + 4 + 1) :=
    (((((r0.trans r1).trans r2).trans r3).trans (r4.cast rfl rfl)).trans r5)
  have kA : KeepsM ladKeepG ladKeepV (List.range 8) s s4 := by
    refine ((((k0.mono (by decide) (by decide) (fun _ h => h)).trans ?_).trans (k2.mono (by decide) (by decide) (fun _ h => h))).trans
      (k3.mono (by decide) (by decide) (fun _ h => h))).trans (k4.toM.mono (by decide) (by decide) (fun _ h => h))
    exact ⟨k1.lenG, k1.lenV, k1.lenK, fun n hn => by
        simp only [ladKeepG, List.mem_cons, List.not_mem_nil, or_false] at hn
        rcases hn with rfl | rfl | rfl
        · exact k1.g 0 (by decide)
        · exact k1.g 6 (by decide)
        · rw [g15]; exact st.rkp.symm,
      fun n hn => k1.v n (by revert n; decide), fun n hn => k1.k n hn, k1.syms, k1.frame⟩
  refine ⟨s4, _, by omega, rAll, ?_, kA⟩
  have hm4 : s4.mem = M2 (spliceAt dc (16 * c) (xorN ((src.drop (16 * c)).take 16) (ksN rk jb c 1))) tc := by
    rw [k4.mem, m3]; exact m1
  refine ⟨st.pc.of_keepsM kA pRegs_lad, st.gh.of_keepsM kA ghRegs_lad, (kA.g 15 (by decide)).trans st.rkp, (kA.g 0 (by decide)).trans st.g0,
    ?_, ?_, ?_, (kA.g 6 (by decide)).trans st.g6, ?_, ?_, ?_, hm4, ?_, st.htc, ?_⟩
  · rw [g9]; omega
  · rw [g10]; omega
  · rw [g13]; omega
  · intro l hl
    have hl0 : l = 0 := by omega
    subst hl0
    rw [k4.v 14 (by decide), k3.v 14 (by decide)]; exact ctr1
  · rw [k4.v 21 (by decide)]; exact y3
  · rw [← y3]; exact lt3
  · rw [spliceAt_length _ _ _ (by rw [xorN_length, ksN_length, List.length_take, List.length_drop, st.hdc]; omega)]; exact st.hdc
  · intro t ht
    exact (lm.adv dc t (16 * c) 16 _ st.hdc ht (by rw [xorN_length, ksN_length, List.length_take, List.length_drop]; omega) (by omega)
      (st.srcOK t ht)).mono _ (by omega)

end SMGo.Proofs.ISAVal
