/-
  The straight-line segments of the arm64 listing of `gHashBlocks` (sm4/gcm_arm64.s) by symbolic execution of the
  arm64 value interpreter (UNVALIDATED transcription of the Arm ARM): prologue, the powers H², H³, H⁴, the bodies of
  `loopBy4`, "3X", "2X", `loopBy1`, the epilogue — each as a statement about the running GHASH value in V30.
-/
import SMGo.Proofs.ISAValArm64Ctl
import SMGo.Proofs.ISAValArm64GhashVal
import SMGo.Proofs.ISAValArm64Round
namespace SMGo.Proofs.ISAValArm64
open SMGo SMGo.Model.ISAValArm64 SMGo.Model.ISA SMGo.Model.GCM
open SMGo.Model.ISAVal (lane lanes unlanes Region readMem writeMem lookup)
open SMGo.Proofs.ISAVal (list32)

/-! ### code -/

def x4 : List Arr := [.none, .B16, .B16, .B16]
def pD : List Arr := [.D1, .D1, .Q1]
def pD2 : List Arr := [.D2, .D2, .Q1]
def bb : List Arr := [.B16, .B16]

/-- `mul(Factor, FactorS, Input, Lo, Mid, Hi)`: T0 = V14 -/
def mulC (F FS In Lo Mid Hi : Nat) : List DInstr :=
  [ins .VEXT [.imm 8, R In, R In, R 14] x4,
   ins .VEOR [R In, R 14, R 14] P3,
   ins .VPMULL [R In, R F, R Lo] pD,
   ins .VPMULL2 [R In, R F, R Hi] pD2,
   ins .VPMULL [R 14, R FS, R Mid] pD]

/-- `reduce(Output, Low1, Mid1, High1)`: Low1 Mid1 High1 = V18 V19 V20, T0..T3 = V14..V17, Zero = V12, Reduce = V13 -/
def redC (Out : Nat) : List DInstr :=
  [ins .VEOR [R 20, R 18, R 15] P3,
   ins .VEOR [R 19, R 15, R 19] P3,
   ins .VEXT [.imm 8, R 12, R 19, R 16] x4,
   ins .VEXT [.imm 8, R 19, R 12, R 17] x4,
   ins .VEOR [R 20, R 16, R 20] P3,
   ins .VEOR [R 18, R 17, R 18] P3,
   ins .VPMULL [R 13, R 20, R 14] pD,
   ins .VPMULL2 [R 13, R 20, R 15] pD2,
   ins .VEXT [.imm 8, R 15, R 12, R 16] x4,
   ins .VEOR [R 16, R 14, R 14] P3,
   ins .VEOR [R 14, R 18, R 18] P3,
   ins .VEXT [.imm 8, R 12, R 15, R 16] x4,
   ins .VPMULL [R 16, R 13, R 17] pD,
   ins .VEOR [R 17, R 18, R Out] P3]

/-- the three VEORs after `mul` in `mul3rd / mul2nd / mul1st` -/
def accC (Lo Mid Hi : Nat) : List DInstr :=
  [ins .VEOR [R Lo, R 18, R 18] P3, ins .VEOR [R Mid, R 19, R 19] P3, ins .VEOR [R Hi, R 20, R 20] P3]

/-- `VEXT $8, X, X, XS; VEOR X, XS, XS` -/
def sumC (X XS : Nat) : List DInstr :=
  [ins .VEXT [.imm 8, R X, R X, R XS] x4, ins .VEOR [R X, R XS, R XS] P3]

/-- `loopBy1` body without the compare -/
def l1Code : List DInstr :=
  [ins .VLD1P [M 12 16, .regs [.vec 3]] [.none, .B16],
   ins .VRBIT [R 3, R 3] bb,
   ins .VEOR [R 30, R 3, R 3] P3]
  ++ mulC 4 5 3 18 19 20 ++ redC 30 ++ [ins .SUB [.imm 1, G 13] [.none, .none]]

attribute [local irreducible] execD

/-- one instruction of a straight-line block of gcm_arm64.s on an explicit state -/
macro "gstep" : tactic => `(tactic|
  (apply exec_step
   · first
     | exact execD_veor (hm := by rfl) (hn := by rfl) (hd0 := by rfl) ..
     | exact execD_vext (hi := by decide) (hm := by rfl) (hn := by rfl) (hd0 := by rfl) ..
     | exact execD_vpmull (hm := by rfl) (hn := by rfl) (hd0 := by rfl) ..
     | exact execD_vpmull2 (hm := by rfl) (hn := by rfl) (hd0 := by rfl) ..
     | exact execD_vrbit (hn := by rfl) (hd0 := by rfl) ..
     | exact execD_sub2 (hi := by decide) (hd0 := by rfl) ..
   simp only [List.set_cons_succ, List.set_cons_zero]))

/-- the constants every segment relies on: H and H.lo ⊕ H.hi, Zero, Reduce -/
structure GCtx (s : State) : Prop where
  lenG : s.gpr.length = 31
  lenV : s.vec.length = 32
  sum : IsSum (vreg s 4) (vreg s 5)
  v12 : vreg s 12 = 0
  v13 : IsPoly (vreg s 13)

/-- what a segment leaves alone: general registers other than R12 / R13, V4..V13, memory, symbols, frame -/
structure Keeps (s s' : State) : Prop where
  lenG : s'.gpr.length = s.gpr.length
  lenV : s'.vec.length = s.vec.length
  mem : s'.mem = s.mem
  syms : s'.syms = s.syms
  frame : s'.frame = s.frame
  g11 : greg s' 11 = greg s 11
  ctx : (s'.vec.drop 4).take 10 = (s.vec.drop 4).take 10

set_option maxRecDepth 10000 in
theorem l1_spec (s : State) (ctx : GCtx s) (bs : List Nat)
    (hload : readMem s.mem (greg s 12) 16 = .ok bs) :
    ∃ s', execList l1Code s = .ok s' ∧ Keeps s s' ∧
      greg s' 12 = (greg s 12 + 16) % 2 ^ 64 ∧ greg s' 13 = (greg s 13 + 2 ^ 64 - 1) % 2 ^ 64 ∧
      vreg s' 30 = gmulR (vreg s 4) (veor (vreg s 30) (vrbit (unlanes 8 (bs.take 16)))) := by
  obtain ⟨hG, hV, hsum, h12, h13⟩ := ctx
  obtain ⟨gpr, vec, mem, syms, frame⟩ := s
  simp only at hG hV hload
  obtain ⟨a0, a1, a2, a3, a4, a5, a6, a7, a8, a9, a10, a11, a12, a13, a14, a15, a16, a17, a18, a19, a20, a21, a22, a23, a24, a25, a26, a27, a28, a29, a30, rfl⟩ := list31 gpr hG
  obtain ⟨b0, b1, b2, b3, b4, b5, b6, b7, b8, b9, b10, b11, b12, b13, b14, b15, b16, b17, b18, b19, b20, b21, b22, b23, b24, b25, b26, b27, b28, b29, b30, b31, rfl⟩ := list32 vec hV
  simp only [greg, vreg, List.getD_cons_succ, List.getD_cons_zero] at hsum h12 h13 hload
  apply Exists.intro
  apply And.intro
  · unfold l1Code mulC redC
    simp only [List.cons_append, List.nil_append]
    apply exec_step
    · exact execD_ld1p_one (bs := bs) (hb := by rfl) (hd0 := by rfl) (hload := hload) ..
    simp only [List.set_cons_succ, List.set_cons_zero]
    gstep; gstep
    gstep; gstep; gstep; gstep; gstep
    gstep; gstep; gstep; gstep; gstep; gstep; gstep; gstep; gstep; gstep; gstep; gstep; gstep; gstep
    gstep
    exact execList_nil _
  · refine ⟨⟨by simp only [List.length_cons], by simp only [List.length_cons], rfl, rfl, rfl, ?_, ?_⟩, ?_, ?_, ?_⟩
    · simp only [greg, List.getD_cons_succ, List.getD_cons_zero]
    · simp only [List.drop_succ_cons, List.drop_zero, List.take_succ_cons, List.take_zero]
    · simp only [greg, List.getD_cons_succ, List.getD_cons_zero]
    · simp only [greg, List.getD_cons_succ, List.getD_cons_zero, Int.reduceToNat]
    · simp only [vreg, List.getD_cons_succ, List.getD_cons_zero, Int.reduceToNat, h12]
      exact mulRed_eq b4 b5 b13 _ hsum h13

/-! ### the aggregated bodies -/

def ld (k : Nat) : List DInstr := [ins .VRBIT [R k, R k] bb]

/-- `loopBy4` body without the compare -/
def l4Code : List DInstr :=
  [ins .VLD1P [M 12 64, L4 0 1 2 3] [.none, .B16],
   ins .VRBIT [R 0, R 0] bb, ins .VRBIT [R 1, R 1] bb, ins .VRBIT [R 2, R 2] bb, ins .VRBIT [R 3, R 3] bb,
   ins .VEOR [R 30, R 0, R 0] P3]
  ++ mulC 10 11 0 18 19 20
  ++ mulC 8 9 1 21 22 23 ++ accC 21 22 23
  ++ mulC 6 7 2 24 25 26 ++ accC 24 25 26
  ++ mulC 4 5 3 27 28 29 ++ accC 27 28 29
  ++ redC 30 ++ [ins .SUB [.imm 4, G 13] [.none, .none]]

/-- the "3X" body -/
def l3Code : List DInstr :=
  [ins .VLD1P [M 12 48, .regs [.vec 1, .vec 2, .vec 3]] [.none, .B16],
   ins .VRBIT [R 1, R 1] bb, ins .VRBIT [R 2, R 2] bb, ins .VRBIT [R 3, R 3] bb,
   ins .VEOR [R 30, R 1, R 1] P3]
  ++ mulC 8 9 1 18 19 20
  ++ mulC 6 7 2 24 25 26 ++ accC 24 25 26
  ++ mulC 4 5 3 27 28 29 ++ accC 27 28 29
  ++ redC 30

/-- the "2X" body -/
def l2Code : List DInstr :=
  [ins .VLD1P [M 12 32, .regs [.vec 2, .vec 3]] [.none, .B16],
   ins .VRBIT [R 2, R 2] bb, ins .VRBIT [R 3, R 3] bb,
   ins .VEOR [R 30, R 2, R 2] P3]
  ++ mulC 6 7 2 18 19 20
  ++ mulC 4 5 3 27 28 29 ++ accC 27 28 29
  ++ redC 30

/-- the sums of the halves of H², H³, H⁴ -/
structure PowSums (s : State) : Prop where
  s2 : IsSum (vreg s 6) (vreg s 7)
  s3 : IsSum (vreg s 8) (vreg s 9)
  s4 : IsSum (vreg s 10) (vreg s 11)

/-- block `k` of a loaded byte string, bit-reflected -/
def blkV (bs : List Nat) (k : Nat) : Nat := vrbit (unlanes 8 ((bs.drop (16 * k)).take 16))

set_option maxRecDepth 10000 in
theorem l4_spec (s : State) (ctx : GCtx s) (ps : PowSums s) (bs : List Nat)
    (hload : readMem s.mem (greg s 12) 64 = .ok bs) :
    ∃ s', execList l4Code s = .ok s' ∧ Keeps s s' ∧
      greg s' 12 = (greg s 12 + 64) % 2 ^ 64 ∧ greg s' 13 = (greg s 13 + 2 ^ 64 - 4) % 2 ^ 64 ∧
      vreg s' 30 = gmulR (vreg s 10) (veor (vreg s 30) (blkV bs 0)) ^^^ gmulR (vreg s 8) (blkV bs 1)
        ^^^ gmulR (vreg s 6) (blkV bs 2) ^^^ gmulR (vreg s 4) (blkV bs 3) := by
  obtain ⟨hG, hV, hsum, h12, h13⟩ := ctx
  obtain ⟨hs2, hs3, hs4⟩ := ps
  obtain ⟨gpr, vec, mem, syms, frame⟩ := s
  simp only at hG hV hload
  obtain ⟨a0, a1, a2, a3, a4, a5, a6, a7, a8, a9, a10, a11, a12, a13, a14, a15, a16, a17, a18, a19, a20, a21, a22, a23, a24, a25, a26, a27, a28, a29, a30, rfl⟩ := list31 gpr hG
  obtain ⟨b0, b1, b2, b3, b4, b5, b6, b7, b8, b9, b10, b11, b12, b13, b14, b15, b16, b17, b18, b19, b20, b21, b22, b23, b24, b25, b26, b27, b28, b29, b30, b31, rfl⟩ := list32 vec hV
  simp only [greg, vreg, List.getD_cons_succ, List.getD_cons_zero] at hsum h12 h13 hload hs2 hs3 hs4
  apply Exists.intro
  apply And.intro
  · unfold l4Code mulC redC accC
    simp only [List.cons_append, List.nil_append]
    apply exec_step
    · exact execD_ld1p_four (bs := bs) (hc := by decide) (hb := by rfl)
        (e0 := by rfl) (e1 := by rfl) (e2 := by rfl) (e3 := by rfl) (hload := hload) ..
    simp only [List.set_cons_succ, List.set_cons_zero]
    gstep; gstep; gstep; gstep; gstep
    gstep; gstep; gstep; gstep; gstep
    gstep; gstep; gstep; gstep; gstep; gstep; gstep; gstep
    gstep; gstep; gstep; gstep; gstep; gstep; gstep; gstep
    gstep; gstep; gstep; gstep; gstep; gstep; gstep; gstep
    gstep; gstep; gstep; gstep; gstep; gstep; gstep; gstep; gstep; gstep; gstep; gstep; gstep; gstep
    gstep
    exact execList_nil _
  · refine ⟨⟨by simp only [List.length_cons], by simp only [List.length_cons], rfl, rfl, rfl, ?_, ?_⟩, ?_, ?_, ?_⟩
    · simp only [greg, List.getD_cons_succ, List.getD_cons_zero]
    · simp only [List.drop_succ_cons, List.drop_zero, List.take_succ_cons, List.take_zero]
    · simp only [greg, List.getD_cons_succ, List.getD_cons_zero]
    · simp only [greg, List.getD_cons_succ, List.getD_cons_zero, Int.reduceToNat]
    · simp only [vreg, List.getD_cons_succ, List.getD_cons_zero, Int.reduceToNat, h12]
      exact mulRed4_eq b13 b10 b11 _ b8 b9 _ b6 b7 _ b4 b5 _ hs4 hs3 hs2 hsum h13

set_option maxRecDepth 10000 in
theorem l3_spec (s : State) (ctx : GCtx s) (ps : PowSums s) (bs : List Nat)
    (hload : readMem s.mem (greg s 12) 48 = .ok bs) :
    ∃ s', execList l3Code s = .ok s' ∧ Keeps s s' ∧
      vreg s' 30 = gmulR (vreg s 8) (veor (vreg s 30) (blkV bs 0)) ^^^ gmulR (vreg s 6) (blkV bs 1)
        ^^^ gmulR (vreg s 4) (blkV bs 2) := by
  obtain ⟨hG, hV, hsum, h12, h13⟩ := ctx
  obtain ⟨hs2, hs3, hs4⟩ := ps
  obtain ⟨gpr, vec, mem, syms, frame⟩ := s
  simp only at hG hV hload
  obtain ⟨a0, a1, a2, a3, a4, a5, a6, a7, a8, a9, a10, a11, a12, a13, a14, a15, a16, a17, a18, a19, a20, a21, a22, a23, a24, a25, a26, a27, a28, a29, a30, rfl⟩ := list31 gpr hG
  obtain ⟨b0, b1, b2, b3, b4, b5, b6, b7, b8, b9, b10, b11, b12, b13, b14, b15, b16, b17, b18, b19, b20, b21, b22, b23, b24, b25, b26, b27, b28, b29, b30, b31, rfl⟩ := list32 vec hV
  simp only [greg, vreg, List.getD_cons_succ, List.getD_cons_zero] at hsum h12 h13 hload hs2 hs3 hs4
  apply Exists.intro
  apply And.intro
  · unfold l3Code mulC redC accC
    simp only [List.cons_append, List.nil_append]
    apply exec_step
    · exact execD_ld1p_three (bs := bs) (hc := by decide) (hb := by rfl)
        (e0 := by rfl) (e1 := by rfl) (e2 := by rfl) (hload := hload) ..
    simp only [List.set_cons_succ, List.set_cons_zero]
    gstep; gstep; gstep; gstep
    gstep; gstep; gstep; gstep; gstep
    gstep; gstep; gstep; gstep; gstep; gstep; gstep; gstep
    gstep; gstep; gstep; gstep; gstep; gstep; gstep; gstep
    gstep; gstep; gstep; gstep; gstep; gstep; gstep; gstep; gstep; gstep; gstep; gstep; gstep; gstep
    exact execList_nil _
  · refine ⟨⟨by simp only [List.length_cons], by simp only [List.length_cons], rfl, rfl, rfl, ?_, ?_⟩, ?_⟩
    · simp only [greg, List.getD_cons_succ, List.getD_cons_zero]
    · simp only [List.drop_succ_cons, List.drop_zero, List.take_succ_cons, List.take_zero]
    · simp only [vreg, List.getD_cons_succ, List.getD_cons_zero, Int.reduceToNat, h12]
      exact mulRed3_eq b13 b8 b9 _ b6 b7 _ b4 b5 _ hs3 hs2 hsum h13

set_option maxRecDepth 10000 in
theorem l2_spec (s : State) (ctx : GCtx s) (ps : PowSums s) (bs : List Nat)
    (hload : readMem s.mem (greg s 12) 32 = .ok bs) :
    ∃ s', execList l2Code s = .ok s' ∧ Keeps s s' ∧
      vreg s' 30 = gmulR (vreg s 6) (veor (vreg s 30) (blkV bs 0)) ^^^ gmulR (vreg s 4) (blkV bs 1) := by
  obtain ⟨hG, hV, hsum, h12, h13⟩ := ctx
  obtain ⟨hs2, hs3, hs4⟩ := ps
  obtain ⟨gpr, vec, mem, syms, frame⟩ := s
  simp only at hG hV hload
  obtain ⟨a0, a1, a2, a3, a4, a5, a6, a7, a8, a9, a10, a11, a12, a13, a14, a15, a16, a17, a18, a19, a20, a21, a22, a23, a24, a25, a26, a27, a28, a29, a30, rfl⟩ := list31 gpr hG
  obtain ⟨b0, b1, b2, b3, b4, b5, b6, b7, b8, b9, b10, b11, b12, b13, b14, b15, b16, b17, b18, b19, b20, b21, b22, b23, b24, b25, b26, b27, b28, b29, b30, b31, rfl⟩ := list32 vec hV
  simp only [greg, vreg, List.getD_cons_succ, List.getD_cons_zero] at hsum h12 h13 hload hs2 hs3 hs4
  apply Exists.intro
  apply And.intro
  · unfold l2Code mulC redC accC
    simp only [List.cons_append, List.nil_append]
    apply exec_step
    · exact execD_ld1p_two (bs := bs) (hc := by decide) (hb := by rfl)
        (e0 := by rfl) (e1 := by rfl) (hload := hload) ..
    simp only [List.set_cons_succ, List.set_cons_zero]
    gstep; gstep; gstep
    gstep; gstep; gstep; gstep; gstep
    gstep; gstep; gstep; gstep; gstep; gstep; gstep; gstep
    gstep; gstep; gstep; gstep; gstep; gstep; gstep; gstep; gstep; gstep; gstep; gstep; gstep; gstep
    exact execList_nil _
  · refine ⟨⟨by simp only [List.length_cons], by simp only [List.length_cons], rfl, rfl, rfl, ?_, ?_⟩, ?_⟩
    · simp only [greg, List.getD_cons_succ, List.getD_cons_zero]
    · simp only [List.drop_succ_cons, List.drop_zero, List.take_succ_cons, List.take_zero]
    · simp only [vreg, List.getD_cons_succ, List.getD_cons_zero, Int.reduceToNat, h12]
      exact mulRed2_eq b13 b6 b7 _ b4 b5 _ hs2 hsum h13

/-! ### the powers -/

/-- H² = H·H, H³ = H·H², H⁴ = H·H³ and the sums of their halves -/
def qCode : List DInstr :=
  mulC 4 5 4 18 19 20 ++ redC 6 ++ sumC 6 7
  ++ mulC 4 5 6 18 19 20 ++ redC 8 ++ sumC 8 9
  ++ mulC 4 5 8 18 19 20 ++ redC 10 ++ sumC 10 11

set_option maxRecDepth 10000 in
theorem q_spec (s : State) (ctx : GCtx s) :
    ∃ s', execList qCode s = .ok s' ∧ s'.gpr = s.gpr ∧ s'.vec.length = 32 ∧ s'.mem = s.mem ∧ s'.syms = s.syms ∧
      s'.frame = s.frame ∧ vreg s' 4 = vreg s 4 ∧ vreg s' 5 = vreg s 5 ∧ vreg s' 12 = vreg s 12 ∧
      vreg s' 13 = vreg s 13 ∧ vreg s' 30 = vreg s 30 ∧ PowSums s' ∧
      vreg s' 6 = gmulR (vreg s 4) (vreg s 4) ∧ vreg s' 8 = gmulR (vreg s 4) (vreg s' 6) ∧
      vreg s' 10 = gmulR (vreg s 4) (vreg s' 8) := by
  obtain ⟨hG, hV, hsum, h12, h13⟩ := ctx
  obtain ⟨gpr, vec, mem, syms, frame⟩ := s
  simp only at hG hV
  obtain ⟨b0, b1, b2, b3, b4, b5, b6, b7, b8, b9, b10, b11, b12, b13, b14, b15, b16, b17, b18, b19, b20, b21, b22, b23, b24, b25, b26, b27, b28, b29, b30, b31, rfl⟩ := list32 vec hV
  simp only [greg, vreg, List.getD_cons_succ, List.getD_cons_zero] at hsum h12 h13
  apply Exists.intro
  apply And.intro
  · unfold qCode mulC redC sumC
    simp only [List.cons_append, List.nil_append]
    gstep; gstep; gstep; gstep; gstep
    gstep; gstep; gstep; gstep; gstep; gstep; gstep; gstep; gstep; gstep; gstep; gstep; gstep; gstep
    gstep; gstep
    gstep; gstep; gstep; gstep; gstep
    gstep; gstep; gstep; gstep; gstep; gstep; gstep; gstep; gstep; gstep; gstep; gstep; gstep; gstep
    gstep; gstep
    gstep; gstep; gstep; gstep; gstep
    gstep; gstep; gstep; gstep; gstep; gstep; gstep; gstep; gstep; gstep; gstep; gstep; gstep; gstep
    gstep; gstep
    exact execList_nil _
  · have e2 := mulRed_eq b4 b5 b13 b4 hsum h13
    refine ⟨rfl, by simp only [List.length_cons, List.length_nil, Nat.reduceAdd], rfl, rfl, rfl, ?_, ?_, ?_, ?_, ?_, ⟨?_, ?_, ?_⟩, ?_, ?_, ?_⟩
    · simp only [vreg, List.getD_cons_succ, List.getD_cons_zero]
    · simp only [vreg, List.getD_cons_succ, List.getD_cons_zero]
    · simp only [vreg, List.getD_cons_succ, List.getD_cons_zero]
    · simp only [vreg, List.getD_cons_succ, List.getD_cons_zero]
    · simp only [vreg, List.getD_cons_succ, List.getD_cons_zero]
    · simp only [vreg, List.getD_cons_succ, List.getD_cons_zero, Int.reduceToNat]
      exact isSum_swap _
    · simp only [vreg, List.getD_cons_succ, List.getD_cons_zero, Int.reduceToNat]
      exact isSum_swap _
    · simp only [vreg, List.getD_cons_succ, List.getD_cons_zero, Int.reduceToNat]
      exact isSum_swap _
    · simp only [vreg, List.getD_cons_succ, List.getD_cons_zero, Int.reduceToNat, h12]
      exact e2
    · simp only [vreg, List.getD_cons_succ, List.getD_cons_zero, Int.reduceToNat, h12]
      exact mulRed_eq b4 b5 b13 _ hsum h13
    · simp only [vreg, List.getD_cons_succ, List.getD_cons_zero, Int.reduceToNat, h12]
      exact mulRed_eq b4 b5 b13 _ hsum h13

/-! ### prologue and epilogue -/

def nn2 : List Arr := [.none, .none]

def gpCode : List DInstr :=
  [ins .MOVD [.frame "h" 0, G 10] nn2,
   ins .MOVD [.frame "tag" 8, G 11] nn2,
   ins .MOVD [.frame "data" 16, G 12] nn2,
   ins .MOVD [.frame "count" 24, G 13] nn2,
   ins .VLD1 [M 10 0, .regs [.vec 4]] [.none, .B16],
   ins .VLD1 [M 11 0, .regs [.vec 30]] [.none, .B16],
   ins .VRBIT [R 4, R 4] bb,
   ins .VRBIT [R 30, R 30] bb]
  ++ sumC 4 5 ++
  [ins .VEOR [R 12, R 12, R 12] P3,
   ins .MOVD [.imm 135, G 9] nn2,
   ins .VDUP [G 9, R 13] [.none, .D2]]

theorem veor_self (a : Nat) : veor a a = 0 := by simp [veor]

set_option maxRecDepth 10000 in
theorem gp_spec (s : State) (hG : s.gpr.length = 31) (hV : s.vec.length = 32) (aH aTag aData cnt : Nat)
    (hb tb : List Nat)
    (fH : lookup s.frame "h" = some aH) (fT : lookup s.frame "tag" = some aTag)
    (fD : lookup s.frame "data" = some aData) (fC : lookup s.frame "count" = some cnt)
    (rH : readMem s.mem aH 16 = .ok hb) (rT : readMem s.mem aTag 16 = .ok tb) :
    ∃ s', execList gpCode s = .ok s' ∧ GCtx s' ∧ s'.mem = s.mem ∧ s'.syms = s.syms ∧ s'.frame = s.frame ∧
      greg s' 11 = aTag ∧ greg s' 12 = aData ∧ greg s' 13 = cnt ∧
      vreg s' 4 = vrbit (unlanes 8 (hb.take 16)) ∧ vreg s' 30 = vrbit (unlanes 8 (tb.take 16)) := by
  obtain ⟨gpr, vec, mem, syms, frame⟩ := s
  simp only at hG hV fH fT fD fC rH rT
  obtain ⟨a0, a1, a2, a3, a4, a5, a6, a7, a8, a9, a10, a11, a12, a13, a14, a15, a16, a17, a18, a19, a20, a21, a22, a23, a24, a25, a26, a27, a28, a29, a30, rfl⟩ := list31 gpr hG
  obtain ⟨b0, b1, b2, b3, b4, b5, b6, b7, b8, b9, b10, b11, b12, b13, b14, b15, b16, b17, b18, b19, b20, b21, b22, b23, b24, b25, b26, b27, b28, b29, b30, b31, rfl⟩ := list32 vec hV
  apply Exists.intro
  apply And.intro
  · unfold gpCode sumC
    simp only [List.cons_append, List.nil_append]
    apply exec_step
    · exact execD_movd_frame (hs := fH) (hd0 := by rfl) ..
    simp only [List.set_cons_succ, List.set_cons_zero]
    apply exec_step
    · exact execD_movd_frame (hs := fT) (hd0 := by rfl) ..
    simp only [List.set_cons_succ, List.set_cons_zero]
    apply exec_step
    · exact execD_movd_frame (hs := fD) (hd0 := by rfl) ..
    simp only [List.set_cons_succ, List.set_cons_zero]
    apply exec_step
    · exact execD_movd_frame (hs := fC) (hd0 := by rfl) ..
    simp only [List.set_cons_succ, List.set_cons_zero]
    apply exec_step
    · exact execD_ld1_oneB (bs := hb) (hb := by rfl) (hd0 := by rfl) (hload := rH) ..
    simp only [List.set_cons_succ, List.set_cons_zero]
    apply exec_step
    · exact execD_ld1_oneB (bs := tb) (hb := by rfl) (hd0 := by rfl) (hload := rT) ..
    simp only [List.set_cons_succ, List.set_cons_zero]
    gstep; gstep; gstep; gstep; gstep
    apply exec_step
    · exact execD_movd_imm (hi := by decide) (hd0 := by rfl) ..
    simp only [List.set_cons_succ, List.set_cons_zero]
    apply exec_step
    · exact execD_vdup_gpr (ha := by rfl) (hd0 := by rfl) ..
    simp only [List.set_cons_succ, List.set_cons_zero]
    exact execList_nil _
  · refine ⟨⟨by simp only [List.length_cons, List.length_nil, Nat.reduceAdd], by simp only [List.length_cons, List.length_nil, Nat.reduceAdd], ?_, ?_, ?_⟩, rfl, rfl, rfl, ?_, ?_, ?_, ?_, ?_⟩
    · simp only [vreg, List.getD_cons_succ, List.getD_cons_zero, Int.reduceToNat]
      exact isSum_swap _
    · simp only [vreg, List.getD_cons_succ, List.getD_cons_zero]
      exact veor_self _
    · simp only [vreg, List.getD_cons_succ, List.getD_cons_zero, Int.reduceToNat]
      exact isPoly_vdupD
    · simp only [greg, List.getD_cons_succ, List.getD_cons_zero]
    · simp only [greg, List.getD_cons_succ, List.getD_cons_zero]
    · simp only [greg, List.getD_cons_succ, List.getD_cons_zero]
    · simp only [vreg, List.getD_cons_succ, List.getD_cons_zero]
    · simp only [vreg, List.getD_cons_succ, List.getD_cons_zero]

def geCode : List DInstr :=
  [ins .VRBIT [R 30, R 30] bb,
   ins .VST1 [.regs [.vec 30], M 11 0] [.B16, .none]]

theorem ge_spec (s : State) (hG : s.gpr.length = 31) (hV : s.vec.length = 32) (mem' : List Region)
    (hw : writeMem s.mem (greg s 11) (lanes 8 16 (vrbit (vreg s 30))) = .ok mem') :
    ∃ s', execList geCode s = .ok s' ∧ s'.mem = mem' := by
  obtain ⟨gpr, vec, mem, syms, frame⟩ := s
  simp only at hG hV hw
  obtain ⟨a0, a1, a2, a3, a4, a5, a6, a7, a8, a9, a10, a11, a12, a13, a14, a15, a16, a17, a18, a19, a20, a21, a22, a23, a24, a25, a26, a27, a28, a29, a30, rfl⟩ := list31 gpr hG
  obtain ⟨b0, b1, b2, b3, b4, b5, b6, b7, b8, b9, b10, b11, b12, b13, b14, b15, b16, b17, b18, b19, b20, b21, b22, b23, b24, b25, b26, b27, b28, b29, b30, b31, rfl⟩ := list32 vec hV
  simp only [greg, vreg, List.getD_cons_succ, List.getD_cons_zero] at hw
  apply Exists.intro
  apply And.intro
  · unfold geCode
    gstep
    apply exec_step
    · exact execD_st1_one (hb := by rfl) (hn := by rfl) (hstore := hw) ..
    exact execList_nil _
  · rfl

end SMGo.Proofs.ISAValArm64
