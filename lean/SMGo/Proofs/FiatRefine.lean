/-
  Property C16: the generated Fiat-Crypto functions *refine* the instance `montOps` of the model
  (`Model.SM2.Fp`, `Model.SM2.Fn`: Montgomery residues as natural numbers).  For canonical limb lists
  `eval (fiat_op a b) = Fp.op (eval a) (eval b)`, and the addition chain run over the generated
  `Mul`/`Square` is the model's `invert`.  Core Lean only.
-/
import SMGo.Proofs.FiatMontP
import SMGo.Proofs.FiatMontN
import SMGo.Proofs.FiatWrappers
import SMGo.Proofs.AddChainExp
import SMGo.Model.SM2Inst
set_option linter.unusedVariables false
namespace SMGo.Proofs.FiatRefine
open SMGo SMGo.Proofs.Fiat SMGo.Model.Field

/-- a reduced `o` with `o·R ≡ X` is `X·R⁻¹ mod m` -/
theorem mont_unique {o X r ri m : Nat} (ho : o < m) (h : (o * r) % m = X % m) (hr : (r * ri) % m = 1) :
    o = X * ri % m := by
  have h2 : (o * r) % m = (X * ri * r) % m := by
    rw [h, Nat.mul_assoc, Nat.mul_comm ri r, Nat.mul_mod X (r * ri) m, hr, Nat.mul_one, Nat.mod_mod]
  have := mod_cancel h2 hr
  rw [Nat.mod_eq_of_lt ho] at this
  exact this

set_option maxRecDepth 100000 in
theorem rinv_p : (2 ^ 256 * Model.SM2.pParams.rinv) % Spec.SM2.p = 1 := by decide +kernel
set_option maxRecDepth 100000 in
theorem rinv_n : (2 ^ 256 * Model.SM2.nParams.rinv) % Spec.SM2.n = 1 := by decide +kernel

theorem canon_zero_p : Canon Spec.SM2.p [0, 0, 0, 0] := by
  refine canon_mk (by decide) (by decide) (by decide) (by decide) (by decide)
theorem canon_zero_n : Canon Spec.SM2.n [0, 0, 0, 0] := by
  refine canon_mk (by decide) (by decide) (by decide) (by decide) (by decide)

/-! ### mod p -/
section P
open SMGo.Gen.FiatP

theorem add_refines (a b : List Nat) (ha : Canon Spec.SM2.p a) (hb : Canon Spec.SM2.p b) :
    eval (sm2Add a b) = Model.SM2.Fp.add (eval a) (eval b) := (FiatSmallP.add_spec a b ha hb).2

theorem sub_refines (a b : List Nat) (ha : Canon Spec.SM2.p a) (hb : Canon Spec.SM2.p b) :
    eval (sm2Sub a b) = Model.SM2.Fp.sub (eval a) (eval b) := by
  rw [(FiatSmallP.sub_spec a b ha hb).2]
  show _ = (eval a + Spec.SM2.p - eval b % Spec.SM2.p) % Spec.SM2.p
  rw [Nat.mod_eq_of_lt hb.2.2]

theorem opp_refines (a : List Nat) (ha : Canon Spec.SM2.p a) :
    eval (sm2Opp a) = Model.SM2.Fp.opp (eval a) := by
  rw [(FiatSmallP.opp_spec a ha).2]
  show _ = (Spec.SM2.p - eval a % Spec.SM2.p) % Spec.SM2.p
  rw [Nat.mod_eq_of_lt ha.2.2]

theorem mul_refines (a b : List Nat) (ha : Canon Spec.SM2.p a) (hb : Canon Spec.SM2.p b) :
    eval (sm2Mul a b) = Model.SM2.Fp.mul (eval a) (eval b) := by
  obtain ⟨hc, h⟩ := FiatMulP.mul_spec a b ha hb
  have := mont_unique (r := 2 ^ 256) (ri := Model.SM2.pParams.rinv) (m := Spec.SM2.p) hc.2.2 h rinv_p
  exact this

theorem square_refines (a : List Nat) (ha : Canon Spec.SM2.p a) :
    eval (sm2Square a) = Model.SM2.Fp.square (eval a) := by
  obtain ⟨hc, h⟩ := FiatMulP.square_spec a ha
  have := mont_unique (r := 2 ^ 256) (ri := Model.SM2.pParams.rinv) (m := Spec.SM2.p) hc.2.2 h rinv_p
  exact this

theorem fromMontgomery_refines (a : List Nat) (ha : Limbs4 a) :
    eval (sm2FromMontgomery a) = Model.SM2.Fp.fromMontgomery (eval a) := by
  obtain ⟨hc, h⟩ := FiatMontP.fromMontgomery_spec' a ha
  have := mont_unique (r := 2 ^ 256) (ri := Model.SM2.pParams.rinv) (m := Spec.SM2.p) hc.2.2 h rinv_p
  exact this

theorem toMontgomery_refines (a : List Nat) (ha : Limbs4 a) :
    eval (sm2ToMontgomery a) = Model.SM2.Fp.toMontgomery (eval a) :=
  (FiatMontP.toMontgomery_spec' a ha).2

theorem setOne_refines : eval sm2SetOne = Model.SM2.Fp.setOne := FiatSmallP.setOne_spec.2

end P

/-! ### mod n -/
section N
open SMGo.Gen.FiatN

theorem scalarAdd_refines (a b : List Nat) (ha : Canon Spec.SM2.n a) (hb : Canon Spec.SM2.n b) :
    eval (sm2ScalarAdd a b) = Model.SM2.Fn.add (eval a) (eval b) := (FiatSmallN.add_spec a b ha hb).2

theorem scalarSub_refines (a b : List Nat) (ha : Canon Spec.SM2.n a) (hb : Canon Spec.SM2.n b) :
    eval (sm2ScalarSub a b) = Model.SM2.Fn.sub (eval a) (eval b) := by
  rw [(FiatSmallN.sub_spec a b ha hb).2]
  show _ = (eval a + Spec.SM2.n - eval b % Spec.SM2.n) % Spec.SM2.n
  rw [Nat.mod_eq_of_lt hb.2.2]

theorem scalarOpp_refines (a : List Nat) (ha : Canon Spec.SM2.n a) :
    eval (sm2ScalarOpp a) = Model.SM2.Fn.opp (eval a) := by
  rw [(FiatSmallN.opp_spec a ha).2]
  show _ = (Spec.SM2.n - eval a % Spec.SM2.n) % Spec.SM2.n
  rw [Nat.mod_eq_of_lt ha.2.2]

theorem scalarMul_refines (a b : List Nat) (ha : Canon Spec.SM2.n a) (hb : Canon Spec.SM2.n b) :
    eval (sm2ScalarMul a b) = Model.SM2.Fn.mul (eval a) (eval b) := by
  obtain ⟨hc, h⟩ := FiatMulN.mul_spec a b ha hb
  have := mont_unique (r := 2 ^ 256) (ri := Model.SM2.nParams.rinv) (m := Spec.SM2.n) hc.2.2 h rinv_n
  exact this

theorem scalarSquare_refines (a : List Nat) (ha : Canon Spec.SM2.n a) :
    eval (sm2ScalarSquare a) = Model.SM2.Fn.square (eval a) := by
  obtain ⟨hc, h⟩ := FiatMulN.square_spec a ha
  have := mont_unique (r := 2 ^ 256) (ri := Model.SM2.nParams.rinv) (m := Spec.SM2.n) hc.2.2 h rinv_n
  exact this

theorem scalarFromMontgomery_refines (a : List Nat) (ha : Limbs4 a) :
    eval (sm2ScalarFromMontgomery a) = Model.SM2.Fn.fromMontgomery (eval a) := by
  obtain ⟨hc, h⟩ := FiatMontN.fromMontgomery_spec' a ha
  have := mont_unique (r := 2 ^ 256) (ri := Model.SM2.nParams.rinv) (m := Spec.SM2.n) hc.2.2 h rinv_n
  exact this

theorem scalarToMontgomery_refines (a : List Nat) (ha : Limbs4 a) :
    eval (sm2ScalarToMontgomery a) = Model.SM2.Fn.toMontgomery (eval a) :=
  (FiatMontN.toMontgomery_spec' a ha).2

theorem scalarSetOne_refines : eval sm2ScalarSetOne = Model.SM2.Fn.setOne := FiatSmallN.setOne_spec.2

end N


/-! ### byte conversion -/

theorem toNatBE_snoc (l : Bytes) (b : UInt8) : Bytes.toNatBE (l ++ [b]) = Bytes.toNatBE l * 256 + b.toNat := by
  simp [Bytes.toNatBE, List.foldl_append]

/-- big-endian value of the reversed string = little-endian value -/
theorem toNatBE_reverse (bs : Bytes) : Bytes.toNatBE bs.reverse = leValue (bs.map UInt8.toNat) := by
  induction bs with
  | nil => rfl
  | cons b bs ih =>
    rw [List.reverse_cons, toNatBE_snoc, ih, List.map_cons, leValue_cons]
    omega

theorem map_toNat_ofNat (l : List Nat) (h : ∀ x ∈ l, x < 256) :
    (l.map UInt8.ofNat).map UInt8.toNat = l := by
  induction l with
  | nil => rfl
  | cons x l ih =>
    rw [List.map_cons, List.map_cons, ih (fun y hy => h y (List.mem_cons_of_mem _ hy)), UInt8.toNat_ofNat']
    have := h x (List.mem_cons_self)
    congr 1
    omega

/-- a list of 32 bytes with little-endian value `v` is the model's `toBytesLE v` -/
theorem le_bytes_unique (l : List Nat) (hl : l.length = 32) (hb : ∀ x ∈ l, x < 256) (v : Nat)
    (hv : leValue l = v) : l.map UInt8.ofNat = (Bytes.ofNatBE 32 v).reverse := by
  have h1 : Bytes.toNatBE (l.map UInt8.ofNat).reverse = v := by
    rw [toNatBE_reverse, map_toNat_ofNat l hb, hv]
  have h2 := FiatWrappers.ofNatBE_toNatBE (l.map UInt8.ofNat).reverse
  rw [h1, List.length_reverse, List.length_map, hl] at h2
  rw [h2, List.reverse_reverse]

theorem toBytes_refines (a : List Nat) (ha : Limbs4 a) :
    (Gen.FiatP.sm2ToBytes a).map UInt8.ofNat = Model.SM2.Fp.toBytesLE (eval a) := by
  obtain ⟨hl, hb, hv⟩ := FiatSmallP.toBytes_spec a ha
  exact le_bytes_unique _ hl hb _ hv

theorem scalarToBytes_refines (a : List Nat) (ha : Limbs4 a) :
    (Gen.FiatN.sm2ScalarToBytes a).map UInt8.ofNat = Model.SM2.Fn.toBytesLE (eval a) := by
  obtain ⟨hl, hb, hv⟩ := FiatSmallN.toBytes_spec a ha
  exact le_bytes_unique _ hl hb _ hv

theorem toNat_lt_256 (bs : Bytes) : ∀ x ∈ bs.map UInt8.toNat, x < 256 := by
  intro x hx
  obtain ⟨b, _, rfl⟩ := List.mem_map.mp hx
  exact UInt8.toNat_lt b

theorem fromBytes_refines (bs : Bytes) (hl : bs.length = 32) :
    Limbs4 (Gen.FiatP.sm2FromBytes (bs.map UInt8.toNat)) ∧
    eval (Gen.FiatP.sm2FromBytes (bs.map UInt8.toNat)) = Model.SM2.Fp.fromBytesLE bs := by
  obtain ⟨h1, h2⟩ := FiatSmallP.fromBytes_spec (bs.map UInt8.toNat) (by rw [List.length_map, hl]) (toNat_lt_256 bs)
  refine ⟨h1, ?_⟩
  rw [h2]
  exact (toNatBE_reverse bs).symm

theorem scalarFromBytes_refines (bs : Bytes) (hl : bs.length = 32) :
    Limbs4 (Gen.FiatN.sm2ScalarFromBytes (bs.map UInt8.toNat)) ∧
    eval (Gen.FiatN.sm2ScalarFromBytes (bs.map UInt8.toNat)) = Model.SM2.Fn.fromBytesLE bs := by
  obtain ⟨h1, h2⟩ := FiatSmallN.fromBytes_spec (bs.map UInt8.toNat) (by rw [List.length_map, hl]) (toNat_lt_256 bs)
  refine ⟨h1, ?_⟩
  rw [h2]
  exact (toNatBE_reverse bs).symm

/-- the limbs are recovered from the value (`raw`/`ofRaw` of the instance) -/
theorem raw_eval (a : List Nat) (ha : Limbs4 a) : natToLimbs (eval a) = a := by
  obtain ⟨a0, a1, a2, a3, rfl, h0, h1, h2, h3⟩ := limbs4_cases ha
  exact FiatWrappers.natToLimbs_limbsToNat a0 a1 a2 a3 h0 h1 h2 h3

/-! ### the addition chain run on limbs -/

open SMGo.Model.AddChain SMGo.Proofs.AddChainExp in
/-- a structure-preserving map commutes with the execution of an addition-chain program -/
theorem run_hom {α β : Type} (f : α → β) (I : α → Prop)
    (sqa : α → α) (mula : α → α → α) (za : α) (sqb : β → β) (mulb : β → β → β) (zb : β)
    (hz : I za) (hfz : f za = zb)
    (hsq : ∀ a, I a → I (sqa a) ∧ f (sqa a) = sqb (f a))
    (hmul : ∀ a b, I a → I b → I (mula a b) ∧ f (mula a b) = mulb (f a) (f b))
    (nregs : Nat) (prog : List Op) (x : α) (hx : I x) :
    I (run sqa mula za nregs prog x) ∧
      f (run sqa mula za nregs prog x) = run sqb mulb zb nregs prog (f x) := by
  rw [run_eq, run_eq]
  have hget : ∀ (r : List α) (i : Nat), (∀ y ∈ r, I y) →
      I (r.getD i za) ∧ f (r.getD i za) = (r.map f).getD i zb := by
    intro r i hr
    rw [List.getD_eq_getElem?_getD, List.getD_eq_getElem?_getD, List.getElem?_map]
    cases h : r[i]? with
    | none => exact ⟨hz, hfz⟩
    | some y => exact ⟨hr y (List.mem_of_getElem? h), rfl⟩
  have key : ∀ (prog : List Op) (r : List α), (∀ y ∈ r, I y) →
      (∀ y ∈ prog.foldl (step sqa mula za) r, I y) ∧
      (prog.foldl (step sqa mula za) r).map f = prog.foldl (step sqb mulb zb) (r.map f) := by
    intro prog
    induction prog with
    | nil => intro r hr; exact ⟨hr, rfl⟩
    | cons op prog ih =>
      intro r hr
      rw [List.foldl_cons, List.foldl_cons]
      have hstep : (∀ y ∈ step sqa mula za r op, I y) ∧
          (step sqa mula za r op).map f = step sqb mulb zb (r.map f) op := by
        cases op with
        | sq d s =>
          obtain ⟨h1, h2⟩ := hget r s hr
          obtain ⟨h3, h4⟩ := hsq _ h1
          refine ⟨?_, ?_⟩
          · intro y hy
            rcases List.mem_or_eq_of_mem_set hy with h | h
            · exact hr y h
            · rw [h]; exact h3
          · show (r.set d _).map f = (r.map f).set d _
            rw [List.map_set, h4, h2]
        | mul d a b =>
          obtain ⟨h1, h2⟩ := hget r a hr
          obtain ⟨h1', h2'⟩ := hget r b hr
          obtain ⟨h3, h4⟩ := hmul _ _ h1 h1'
          refine ⟨?_, ?_⟩
          · intro y hy
            rcases List.mem_or_eq_of_mem_set hy with h | h
            · exact hr y h
            · rw [h]; exact h3
          · show (r.set d _).map f = (r.map f).set d _
            rw [List.map_set, h4, h2, h2']
      obtain ⟨hs1, hs2⟩ := hstep
      have := ih _ hs1
      rw [hs2] at this
      exact this
  have hinit : ∀ y ∈ x :: List.replicate (nregs - 1) za, I y := by
    intro y hy
    rcases List.mem_cons.mp hy with h | h
    · rw [h]; exact hx
    · rw [(List.mem_replicate.mp h).2]; exact hz
  obtain ⟨k1, k2⟩ := key prog _ hinit
  obtain ⟨g1, g2⟩ := hget _ 1 k1
  refine ⟨g1, ?_⟩
  rw [g2, k2, List.map_cons, List.map_replicate, hfz]

/-- `Invert` mod p on limbs (the generated chain over the generated `Square`/`Mul`, zero-initialised
    temporaries) returns a canonical element whose value is the model's `invert Fp` -/
theorem invert_refines (x : List Nat) (hx : Canon Spec.SM2.p x) :
    Canon Spec.SM2.p (Model.AddChain.run Gen.FiatP.sm2Square Gen.FiatP.sm2Mul [0, 0, 0, 0]
        Gen.AddChain.fieldInverse_regs Gen.AddChain.fieldInverse x) ∧
    eval (Model.AddChain.run Gen.FiatP.sm2Square Gen.FiatP.sm2Mul [0, 0, 0, 0]
        Gen.AddChain.fieldInverse_regs Gen.AddChain.fieldInverse x)
      = Model.Field.invert Model.SM2.Fp (eval x) :=
  run_hom eval (Canon Spec.SM2.p) _ _ _ Model.SM2.Fp.square Model.SM2.Fp.mul 0 canon_zero_p rfl
    (fun a ha => ⟨(FiatMulP.square_spec a ha).1, square_refines a ha⟩)
    (fun a b ha hb => ⟨(FiatMulP.mul_spec a b ha hb).1, mul_refines a b ha hb⟩) _ _ x hx

theorem scalarInvert_refines (x : List Nat) (hx : Canon Spec.SM2.n x) :
    Canon Spec.SM2.n (Model.AddChain.run Gen.FiatN.sm2ScalarSquare Gen.FiatN.sm2ScalarMul [0, 0, 0, 0]
        Gen.AddChain.scalarInverse_regs Gen.AddChain.scalarInverse x) ∧
    eval (Model.AddChain.run Gen.FiatN.sm2ScalarSquare Gen.FiatN.sm2ScalarMul [0, 0, 0, 0]
        Gen.AddChain.scalarInverse_regs Gen.AddChain.scalarInverse x)
      = Model.Field.invert Model.SM2.Fn (eval x) :=
  run_hom eval (Canon Spec.SM2.n) _ _ _ Model.SM2.Fn.square Model.SM2.Fn.mul 0 canon_zero_n rfl
    (fun a ha => ⟨(FiatMulN.square_spec a ha).1, scalarSquare_refines a ha⟩)
    (fun a b ha hb => ⟨(FiatMulN.mul_spec a b ha hb).1, scalarMul_refines a b ha hb⟩) _ _ x hx

end SMGo.Proofs.FiatRefine
