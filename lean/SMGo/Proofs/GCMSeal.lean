/-
  Assembly: the model of `sealAsm`/`openAsm` (Model.GCM.seal / Model.GCM.open) against Algorithms 4 and 5
  of SP 800-38D, under `GmulOK` (statement (i), discharged in Proofs/GCMClmul.lean) and the hypothesis
  that the block function returns 16-byte blocks.
-/
import SMGo.Proofs.GCMHash
namespace SMGo.Proofs.GCM
open SMGo
open SMGo.Spec.GCM
open SMGo.Model.GCM

/-! ### constant-time comparison -/

theorem foldl_or_eq_zero (l : Bytes) (acc : UInt8) :
    l.foldl (· ||| ·) acc = 0 ↔ acc = 0 ∧ ∀ b ∈ l, b = 0 := by
  induction l generalizing acc with
  | nil => simp
  | cons a l ih =>
    rw [List.foldl_cons, ih, UInt8.or_eq_zero_iff]
    simp [and_assoc]

theorem xorBytes_all_zero (x y : Bytes) (h : x.length = y.length) :
    (∀ b ∈ xorBytes x y, b = 0) ↔ x = y := by
  induction x generalizing y with
  | nil => cases y with
    | nil => simp
    | cons b y => simp at h
  | cons a x ih =>
    cases y with
    | nil => simp at h
    | cons b y =>
      rw [xorBytes_cons]
      simp only [List.mem_cons, forall_eq_or_imp, UInt8.xor_eq_zero_iff, List.cons.injEq]
      rw [ih y (by simpa using h)]

/-- `constantTimeCompare` decides equality -/
theorem ctEqual_iff (x y : Bytes) : ctEqual x y = true ↔ x = y := by
  unfold ctEqual
  rw [Bool.and_eq_true, beq_iff_eq, beq_iff_eq]
  constructor
  · intro ⟨hl, hz⟩
    rw [foldl_or_eq_zero] at hz
    exact (xorBytes_all_zero x y hl).mp hz.2
  · intro h
    subst h
    refine ⟨rfl, ?_⟩
    rw [foldl_or_eq_zero]
    exact ⟨rfl, (xorBytes_all_zero x x rfl).mpr rfl⟩

/-! ### H, J0, the tag -/

theorem pad16_length (d : Bytes) : (pad16 d).length = 16 * ((d.length + 15) / 16) := by
  unfold pad16
  rw [List.length_append, List.length_replicate]; omega

section
variable (hG : GmulOK) {E : Bytes → Bytes} (hE : ∀ b, (E b).length = 16)
include hG hE

omit hG in
theorem H_lt : blockToNat (E (List.replicate 16 0)) < 2 ^ 128 := blockToNat_lt (hE _)

omit hG in
theorem hPowers_h : (hPowers (E (List.replicate 16 0))).h = rev128 (blockToNat (E (List.replicate 16 0))) :=
  loadR_eq (hE _)

/-- J0 of the code is J0 of the standard, for every nonce length -/
theorem calculateJ0_eq (nonce : Bytes) :
    calculateJ0 (hPowers (E (List.replicate 16 0))) nonce = j0 (blockToNat (E (List.replicate 16 0))) nonce := by
  unfold calculateJ0 j0
  split
  · rfl
  · dsimp only
    have hH := H_lt hE
    have hh := hPowers_h hE
    have hP := powOK_hPowers (hE (List.replicate 16 0))
    have h1 := ghUpdate_rep hG hH hh hP Rep_zero nonce
    have hl : (List.replicate 8 (0 : UInt8) ++ be64 (8 * nonce.length)).length = 16 := by
      rw [List.length_append, List.length_replicate, be64_length]
    have h2 := ghStep1_rep' hG hH hh h1 hl
    rw [blockToNat_storeR h2.1, h2.2, ghash_eq_ghFold, List.append_assoc,
      ghFold_append _ _ _ _ _ (pad16_length nonce)]

/-- the tag of the code from a GHASH value that represents GHASH(A‖0*‖C‖0*) -/
theorem finishTag_eq {y : Nat} (aad c : Bytes) (j t : Nat)
    (hy : Rep y (ghFold (blockToNat (E (List.replicate 16 0))) 0 (pad16 aad ++ pad16 c))) :
    finishTag (hPowers (E (List.replicate 16 0))) y (E (natToBlock j)) aad.length c.length t
      = tagOf E (blockToNat (E (List.replicate 16 0))) j aad c t := by
  have hH := H_lt hE
  have hh := hPowers_h hE
  have hl : (be64 (8 * aad.length) ++ be64 (8 * c.length)).length = 16 := by
    rw [List.length_append, be64_length, be64_length]
  have h2 := ghStep1_rep' hG hH hh hy hl
  rw [tagOf_eq hE]
  unfold finishTag
  dsimp only
  rw [storeR_eq h2.1, h2.2, ghash_eq_ghFold]
  have hlen : (pad16 aad ++ pad16 c).length = 16 * ((aad.length + 15) / 16 + (c.length + 15) / 16) := by
    rw [List.length_append, pad16_length, pad16_length]; omega
  rw [List.append_assoc (pad16 aad ++ pad16 c), ghFold_append _ _ _ _ _ hlen]

omit hG hE in
/-- GHASH over aad then over the data, as the specification's fold over both padded strings -/
theorem rep_two {y2 : Nat} (aad c : Bytes)
    (h2 : Rep y2 (ghFold (blockToNat (E (List.replicate 16 0)))
      (ghFold (blockToNat (E (List.replicate 16 0))) 0 (pad16 aad)) (pad16 c))) :
    Rep y2 (ghFold (blockToNat (E (List.replicate 16 0))) 0 (pad16 aad ++ pad16 c)) := by
  rw [ghFold_append _ _ _ _ _ (pad16_length aad)]
  exact h2

/-! ### (vi) Seal -/

theorem seal_eq (t : Nat) (nonce pt aad : Bytes) :
    Model.GCM.seal E t nonce pt aad = sealGCM E t nonce pt aad := by
  have hH := H_lt hE
  have hh := hPowers_h hE
  have hP := powOK_hPowers (hE (List.replicate 16 0))
  unfold Model.GCM.seal sealGCM
  dsimp only
  rw [calculateJ0_eq hG hE]
  have h1 := ghUpdate_rep hG hH hh hP Rep_zero aad
  have hc := cryptoBlocks_fst hE (hPowers (E (List.replicate 16 0))) true
    (j0 (blockToNat (E (List.replicate 16 0))) nonce)
    (ghUpdate (hPowers (E (List.replicate 16 0))) 0 aad) pt
  have h2 := cryptoBlocksAux_snd_true hG hE hH hh hP (pt.length / 16 + 1)
    (j0 (blockToNat (E (List.replicate 16 0))) nonce) pt h1 (by omega)
  change Rep (cryptoBlocks E _ true _ _ pt).2 (ghFold _ _ (pad16 (cryptoBlocks E _ true _ _ pt).1)) at h2
  rw [hc] at h2
  have h3 := rep_two aad _ h2
  have hf := finishTag_eq hG hE aad _ (j0 (blockToNat (E (List.replicate 16 0))) nonce) t h3
  rw [gctr_length hE] at hf
  rw [← hc] at hf ⊢
  exact congrArg _ hf

/-- Seal of the kernel-plus-Go-glue path (encrypt first, hash afterwards) -/
theorem sealGlue_eq (t : Nat) (nonce pt aad : Bytes) :
    Model.GCM.sealGlue E t nonce pt aad = sealGCM E t nonce pt aad := by
  have hH := H_lt hE
  have hh := hPowers_h hE
  have hP := powOK_hPowers (hE (List.replicate 16 0))
  unfold Model.GCM.sealGlue sealGCM
  dsimp only
  rw [calculateJ0_eq hG hE, cryptoBlocks_fst hE]
  have h1 := ghUpdate_rep hG hH hh hP Rep_zero aad
  have h2 := ghUpdate_rep hG hH hh hP h1
    (gctr E (inc32 (j0 (blockToNat (E (List.replicate 16 0))) nonce)) pt)
  have h3 := rep_two aad _ h2
  have hf := finishTag_eq hG hE aad _ (j0 (blockToNat (E (List.replicate 16 0))) nonce) t h3
  rw [gctr_length hE] at hf
  rw [hf]

/-! ### (vii) Open -/

theorem open_eq (t : Nat) (nonce ct aad : Bytes) :
    Model.GCM.open E t nonce ct aad = openGCM E t nonce ct aad := by
  have hH := H_lt hE
  have hh := hPowers_h hE
  have hP := powOK_hPowers (hE (List.replicate 16 0))
  unfold Model.GCM.open openGCM
  by_cases hlt : ct.length < t
  · rw [if_pos hlt, if_pos hlt]
  · rw [if_neg hlt, if_neg hlt]
    dsimp only
    rw [calculateJ0_eq hG hE]
    have h1 := ghUpdate_rep hG hH hh hP Rep_zero aad
    have h2 := ghUpdate_rep hG hH hh hP h1 (ct.take (ct.length - t))
    have h3 := rep_two aad _ h2
    have hf := finishTag_eq hG hE aad _ (j0 (blockToNat (E (List.replicate 16 0))) nonce) t h3
    have hcl : (ct.take (ct.length - t)).length = ct.length - t := by rw [List.length_take]; omega
    rw [hcl] at hf
    rw [hf, cryptoBlocks_fst hE]
    by_cases heq : tagOf E (blockToNat (E (List.replicate 16 0))) (j0 (blockToNat (E (List.replicate 16 0))) nonce)
        aad (ct.take (ct.length - t)) t = ct.drop (ct.length - t)
    · rw [if_pos heq, if_pos ((ctEqual_iff _ _).mpr heq.symm)]
    · rw [if_neg heq, if_neg (fun h => heq ((ctEqual_iff _ _).mp h).symm)]

end
end SMGo.Proofs.GCM
