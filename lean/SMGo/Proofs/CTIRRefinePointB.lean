/-
  Refinement, point layer part B: the generated IR (SMGo/Gen/CTIRProg.lean) of
    * table selection: `fn_7` (*SM2Point).multiSelectConditioned, `fn_6` MultiSelectXY, `fn_80` MultiSelectXYZ,
      `fn_5` selectPoints  vs  `Model.Point.multiSelect`;  `fn_81` TransformPrecomputed (with `fn_41` GetRaw)  vs
      `Model.Point.transformPrecomputed`;
    * the Fermat inversion: `fn_27` sm2FermatInvert_FiatAC, `fn_26` (*SM2Element).Invert  vs  `Model.Field.invert`
      (= `AddChain.run` of the generated chain `SMGo.Gen.AddChain.fieldInverse`);
    * the affine conversions: `fn_22` Mul, `fn_42` ToBigInt, `fn_89` (*SM2Point).GetAffineX  vs
      `Model.Point.getAffineX`;  `fn_93` bytes$safe=true, `fn_91` (*SM2Point).Bytes  vs  `Model.Point.bytes C p true`.
  Style of SMGo/Proofs/CTIRRefineField.lean (`Computes`, `Pre`, explicit fuels, no termination hypothesis); an
  arbitrary `Model.Point.Ctx α` with limb encoding `enc : α → List Nat`; points are encoded by `ptV enc`, tables by
  `CTIRRefineComb.encT`.  The facts are delivered in the shapes consumed by the schedule theorems of
  SMGo/Proofs/CTIRRefineComb.lean: `pointOps_hsel`, `pointOps_hselF`, `pointOps_selectXY_ne_err` (comb) and
  `pointOps_sm_htr`, `pointOps_sm_hsel`, `pointOps_sm_hselF`, `pointOps_selectXYZ_ne_err` (ScalarMult);
  `ir_scalarBaseMult_pointOps`, `ir_scalarMult_pointOps` are those theorems with the selection hypotheses discharged.

  HYPOTHESES
  * `EncOk F enc`: `enc e` is four limbs below 2^64, `F.raw e = enc e`, `enc (F.ofRaw l) = l` for four limbs `l` below
    2^64 (the model builds the selected coordinates with `F.ofRaw … (F.raw …)`); TransformPrecomputed needs only `F.raw = enc`.
  * globals: `G 0 = elemV (enc F.setOne)` (internal.sm2ElementOne), `G 2 = bytesV (bytes F F.zero)` (fiat.sm2ZeroEncoding).
  * primitives (Fiat straight-line code, uninterpreted here; theorems of SMGo/Proofs/CTIRRefineFiat.lean for `prog`):
    sm2Square (25), sm2Mul (23) compute `F.square`, `F.mul` on encodings into any destination of four limbs below 2^64
    (`hsq : ∀ o a, Out4 o → …`, `hmul : ∀ o a b, Out4 o → …`; a destination of another shape makes the IR stuck or
    returns another shape, so the hypotheses are NOT stated for arbitrary `o`); `henc : ∀ e, Out4 (enc e)`; the old
    limbs `z0` of the receiver of Invert satisfy `Out4 z0`; `BytesPrims` (sm2FromMontgomery 30, sm2ToBytes 31, called
    with the destinations `[0,0,0,0]` and 32 zero bytes) of CTIRRefineField.lean.
  * `F.chain = fieldInverse`, `F.chainRegs = fieldInverse_regs` (the model's chain is the generated one).
  * the external `big.Int.SetBytes` (external 7) is `Bytes.toNatBE`; proved for `stdOracle extKinds tape` (`stdOracle_setBytes`).

  FINDINGS (model vs IR), multiSelectConditioned:
  1. `Model.Point.multiSelect` checks only `len(row x) = width` and reads every other entry with a default
     (`getD … []`, `getD … 0`), so it returns `.ok` on tables on which the Go code (and the IR) panics with an index out
     of range (`multiSelect_ok_of_len`).  Checked by evaluation of the IR (`runT prog globals … 30000 7 …`), with
     `q = ((1,2,3,4),(5,6,7,8),(9,10,11,12))`, `e = [11,12,13,14]`, `bits = 1`:
       a. row y missing: `pre = [[e]]`, `hasZ = false`, `width = 1`: model `.ok`, IR `stuck` (proved: `msc_body_stuck_noRowY`);
       b. row y shorter than `width`: `pre = [[e,e],[e]]`, `width = 2`: model `.ok`, IR `stuck`;
       c. `hasZ = true` and row z missing: `pre = [[e,e],[e,e]]`, `width = 2`: model `.ok`, IR `stuck`;
       d. the empty table with `width = 0` (`pre = []`): model `.ok`, IR `stuck` at `(*precomputed)[0]`
          (this is finding 1 of CTIRRefineComb.lean).
     Excluded by the hypothesis `TableOk pre hasZ width` (rows x, y (, z) present, ≥ `width` entries of ≥ 4 limbs), which is
     what Go's types (`*[4]uint64` entries) and bounds checks enforce.  It holds for every table made by
     TransformPrecomputed (`tableOk_transform`).
  2. `bits ≥ 256` is outside the Go type `byte`: the IR computes `ConstantTimeByteEq(bits, 0)` on the integer, the
     model on `bits % 256` (they differ at `bits = 256`).  Hypothesis `bits < 256`.  `width < 2^63` (a Go `int`).
  3. No disagreement on the failing side: whenever the model panics (`len(row x) ≠ width`) the IR ends in the explicit
     `panic("invalid inputs")`, or is stuck for the empty table (`msc_fails`, no hypothesis on the table).
  TransformPrecomputed: the model has no `width` parameter; the IR agrees for `width = len(*precomputed)`; for a smaller
  `width` the IR (Go) returns rows truncated to `width` entries (evaluated: 2 points, `width = 1` gives rows of length 1,
  model rows of length 2), for a larger one it is stuck (index out of range; evaluated `width = 3`).
  Inversion, GetAffineX, Bytes: no disagreement found (the uninitialised registers of the chain — `z`, `t0`, `t1`, `t2` —
  are never read before they are written: `chainItems_chk`).
-/
import SMGo.Proofs.CTIRRefineField
import SMGo.Proofs.CTIRRefineComb
import SMGo.Gen.CTIRProg
import SMGo.Gen.AddChain
import SMGo.Model.Point
open SMGo SMGo.Model.CTIR SMGo.Gen.CTIRProg SMGo.Proofs.CTIRRefineUtils SMGo.Proofs.CTIRRefineField
set_option linter.unusedSimpArgs false
set_option linter.unusedVariables false

namespace SMGo.Proofs.CTIRRefinePointB

abbrev Table := Model.Point.Table

/-! ## Encodings and bridges to SMGo/Proofs/CTIRRefineComb.lean -/

/-- a point given by the limbs of its coordinates: a struct of three `SM2Element`s -/
def coordsV (l : List (List Nat)) : Val := .arr (l.map elemV)

/-- an `SM2Point` over the carrier `α` with limb encoding `enc` -/
def ptV {α : Type} (enc : α → List Nat) (p : Model.Point.Pt α) : Val :=
  .arr [elemV (enc p.x), elemV (enc p.y), elemV (enc p.z)]

theorem ptV_coords {α : Type} (enc : α → List Nat) (p : Model.Point.Pt α) :
    ptV enc p = coordsV [enc p.x, enc p.y, enc p.z] := rfl

/-- the two copies of `limbsV` are the same function -/
theorem limbsV_comb : @CTIRRefineComb.limbsV = @limbsV := rfl

/-- the table encoding of the schedule theorems in terms of `tableV` -/
theorem encT_eq (t : Table) : CTIRRefineComb.encT t = .arr (t.map tableV) := rfl

/-- the two copies of `Computes` are the same predicate -/
theorem computes_comb {P : Prog} {G : Nat → Val} {X : Oracle} {g F : Nat} {a r : List Val}
    (h : Computes P G X g F a r) : CTIRRefineComb.Computes P G X g F a r := h

section Basics
variable {P : Prog} {G : Nat → Val} {X : Oracle}

/-- row `k` of a table -/
theorem evalV_row {env : Env} {x k : Nat} {t : Table} {row : List (List Nat)}
    (h : env x = CTIRRefineComb.encT t) (hk : t[k]? = some row) :
    evalV G env (.idxc (.var x) k) = some (tableV row) := by
  rw [evalV_idxc, evalV_var, h, encT_eq]
  simp only [List.getElem?_map, hk, Option.map_some]

theorem evalV_row_none {env : Env} {x k : Nat} {t : Table}
    (h : env x = CTIRRefineComb.encT t) (hk : t[k]? = none) :
    evalV G env (.idxc (.var x) k) = none := by
  rw [evalV_idxc, evalV_var, h, encT_eq]
  simp only [List.getElem?_map, hk, Option.map_none]

/-- coordinate `k` of a point -/
theorem evalV_coord {env : Env} {x k : Nat} {l : List (List Nat)} (h : env x = coordsV l) (hk : k < l.length) :
    evalV G env (.idxc (.var x) k) = some (elemV (l.getD k [])) := by
  rw [evalV_idxc, evalV_var, h]
  simp only [coordsV, List.getElem?_map, List.getD_eq_getElem?_getD, List.getElem?_eq_getElem hk, Option.map_some,
    Option.getD_some]

/-- `q.c = e` for coordinate `k` -/
theorem evIn_setCoord {env : Env} {k : Nat} {e : Expr} {l : List (List Nat)} {r : List Nat}
    (he : evalV G env e = some (elemV r)) (h0 : env 0 = coordsV l) (hk : k < l.length) :
    EvIn P G X 1 env (.assign 0 [.c k] e) (env.set 0 (coordsV (l.set k r))) .norm := by
  refine EvIn.assignPath he (ks := [k]) ?_ ?_
  · simp [pathV_c]
  · rw [h0, coordsV, updPath_c1 _ _ _ (by simpa using hk)]
    simp [coordsV, List.map_set]

/-- a failing body as a failing callee -/
theorem calleeFails_of_fails {g : Nat} {args : List Val} {fn : Fn} (hg : P[g]? = some fn) (hs : fn.stub = false)
    (hn : args.length = fn.nparams) (h : CTIRRefineComb.Fails P G X (Env.ofList args) fn.body) :
    CTIRRefineComb.CalleeFails P G X g args := by
  rcases h with ⟨F, env', h⟩ | h
  · exact Or.inl ⟨fn, F, env', hg, hs, hn, h⟩
  · exact Or.inr ⟨fn, hg, h⟩

theorem fails_of_calleeFails {g : Nat} {args : List Val} {fn : Fn} (hg : P[g]? = some fn)
    (h : CTIRRefineComb.CalleeFails P G X g args) : CTIRRefineComb.Fails P G X (Env.ofList args) fn.body := by
  rcases h with ⟨fn', F, env', hg', hs, hn, h⟩ | ⟨fn', hg', h⟩
  · rw [hg] at hg'; cases hg'
    exact Or.inl ⟨F, env', h⟩
  · rw [hg] at hg'; cases hg'
    exact Or.inr h

end Basics

/-! ## 1. multiSelectConditioned -/

/-- `Model.Field.multiSelectLimbs` always yields four limbs below 2^64 -/
theorem multiSelectLimbs_out4 (pre : List (List Nat)) (width bits : Nat) (fb : List Nat) (fc : Nat) :
    Out4 (Model.Field.multiSelectLimbs pre width bits fb fc) := by
  rw [multiSelect_unfold]
  have : ∀ (l : List Nat) (o : List Nat), Out4 o → Out4 (l.foldl (msStep pre bits) o) := by
    intro l
    induction l with
    | nil => intro o ho; exact ho
    | cons i l ih => intro o ho; exact ih _ (msStep_out4 pre bits o i ho)
  exact this _ _ (msInit_out4 fb fc)

/-- the state of multiSelectConditioned: receiver coordinates `l`, the parameters, the fallback mask -/
structure InvSel (env : Env) (l : List (List Nat)) (pre : Table) (hz : Int) (width bits fc : Nat) : Prop where
  h0 : env 0 = coordsV l
  h1 : env 1 = CTIRRefineComb.encT pre
  h2 : env 2 = .int hz
  h3 : env 3 = .int (width : Int)
  h4 : env 4 = .int (bits : Int)
  h6 : env 6 = .int (fc : Int)

/-- `q.c.MultiSelect(&(*precomputed)[k], width, bits, q.c, fallbackMask)` with its store -/
def mscPair (t k : Nat) : List Stmt :=
  [.call [t] 8 [(.idxc (.var 0) k), (.idxc (.var 1) k), (.var 3), (.var 4), (.idxc (.var 0) k), (.var 6)],
   .assign 0 [.c k] (.var t)]

def mscChkE : Expr := .op2 .lor (.lit 0) (.op2 .ne (.len (.idxc (.var 1) 0)) (.var 3))
def mscChk : Stmt := .ite mscChkE (.panic) .skip
def mscMask : Stmt := .assign 6 [] (.op2 (.sub .i64) (.lit 1) (.op2 .cteq8 (.var 4) (.lit 0)))
def mscSel : List Stmt :=
  [.call [10, 5] 9 [(.idxc (.var 0) 2), (.glob 0), (.idxc (.var 0) 2), (.var 6)], .assign 0 [.c 2] (.var 10)]
def mscZ : Stmt := .ite (.var 2) (seqs (mscPair 9 2)) (seqs mscSel)
def mscRet : Stmt := .seq (.ret [(.var 0), (.var 0)]) .panic

theorem fn_7_body : fn_7.body =
    seqs (([mscChk, mscMask] ++ (mscPair 7 0 ++ mscPair 8 1)) ++ [.seq mscZ mscRet]) := rfl

theorem fn_7_body' : fn_7.body = .seq mscChk (seqs ((mscMask :: (mscPair 7 0 ++ mscPair 8 1)) ++ [.seq mscZ mscRet])) := rfl

section MSC
variable {P : Prog} {G : Nat → Val} {X : Oracle}

theorem invSel_set {env : Env} {l : List (List Nat)} {pre : Table} {hz : Int} {width bits fc : Nat}
    (h : InvSel env l pre hz width bits fc) (t : Nat) (v : Val) (ht : 7 ≤ t) : InvSel (env.set t v) l pre hz width bits fc :=
  ⟨(Env.set_other env _ (by omega)).trans h.h0, (Env.set_other env _ (by omega)).trans h.h1,
   (Env.set_other env _ (by omega)).trans h.h2, (Env.set_other env _ (by omega)).trans h.h3,
   (Env.set_other env _ (by omega)).trans h.h4, (Env.set_other env _ (by omega)).trans h.h6⟩

theorem invSel_set0 {env : Env} {l l' : List (List Nat)} {pre : Table} {hz : Int} {width bits fc : Nat}
    (h : InvSel env l pre hz width bits fc) : InvSel (env.set 0 (coordsV l')) l' pre hz width bits fc :=
  ⟨Env.set_same _ _ _, (Env.set_other env _ (by omega)).trans h.h1,
   (Env.set_other env _ (by omega)).trans h.h2, (Env.set_other env _ (by omega)).trans h.h3,
   (Env.set_other env _ (by omega)).trans h.h4, (Env.set_other env _ (by omega)).trans h.h6⟩

/-- one coordinate: the call of MultiSelect on row `k` of the table and the store -/
theorem msc_pair (h8 : P[8]? = some fn_8) {env : Env} {t k : Nat} {l : List (List Nat)} {pre : Table} {hz : Int}
    {width bits fc : Nat} {row : List (List Nat)}
    (h : InvSel env l pre hz width bits fc) (ht : 7 ≤ t) (hk : k < l.length) (hrow : pre[k]? = some row)
    (hlen : (l.getD k []).length = 4) (hw : width < 9223372036854775808) (hrows : RowsOk row width) :
    ∃ env', Pre P G X (fuelMS width + 3) env (mscPair t k) env' ∧
      EvIn P G X (fuelMS width + 3) env (seqs (mscPair t k)) env' .norm ∧
      InvSel env' (l.set k (Model.Field.multiSelectLimbs row width bits (l.getD k []) fc)) pre hz width bits fc := by
  have q0 : evalV G env (.idxc (.var 0) k) = some (elemV (l.getD k [])) := evalV_coord h.h0 hk
  have q1 : evalV G env (.idxc (.var 1) k) = some (tableV row) := evalV_row h.h1 hrow
  have ha : evalVs G env [(.idxc (.var 0) k), (.idxc (.var 1) k), (.var 3), (.var 4), (.idxc (.var 0) k), (.var 6)]
      = some [elemV (l.getD k []), tableV row, .int (width : Int), .int (bits : Int), elemV (l.getD k []), .int (fc : Int)] := by
    simp only [evalVs_cons, evalVs_nil, q0, q1, evalV_var, h.h3, h.h4, h.h6]
  obtain ⟨envc, hb⟩ := multiSelect_body_ok (P := P) (G := G) (X := X) (l.getD k []) row width bits (l.getD k []) fc hlen
    (by omega) hw hrows
  let r := Model.Field.multiSelectLimbs row width bits (l.getD k []) fc
  let e1 := env.set t (elemV r)
  have c1 : EvIn P G X (fuelMS width - 1 + 1) env
      (.call [t] 8 [(.idxc (.var 0) k), (.idxc (.var 1) k), (.var 3), (.var 4), (.idxc (.var 0) k), (.var 6)]) e1 .norm :=
    EvIn.call ha h8 rfl rfl hb rfl
  have i1 : InvSel e1 l pre hz width bits fc := invSel_set h t _ ht
  have c2 : EvIn P G X 1 e1 (.assign 0 [.c k] (.var t)) (e1.set 0 (coordsV (l.set k r))) .norm :=
    evIn_setCoord (by simp [e1]) i1.h0 hk
  refine ⟨_, (Pre.cons c1 (Pre.cons c2 (Pre.nil _))).mono (by simp only [fuelMS]; omega),
    (EvIn.seq c1 c2).mono (by simp only [fuelMS]; omega), invSel_set0 i1⟩

/-- the check `len((*precomputed)[0]) != width` -/
theorem msc_chk_val {env : Env} {pre : Table} {r0 : List (List Nat)} {width : Nat}
    (h1 : env 1 = CTIRRefineComb.encT pre) (hr : pre[0]? = some r0) (h3 : env 3 = .int (width : Int)) :
    evalV G env mscChkE = some (.int (if r0.length = width then 0 else 1)) := by
  have q := evalV_row (G := G) h1 hr
  simp only [mscChkE, evalV_op2, evalV_lit, evalV_len, q, evalV_var, h3, tableV, List.length_map]
  by_cases h : r0.length = width
  · simp [evalOp2, ofBool, h]
  · have : ¬ (r0.length : Int) = (width : Int) := by omega
    simp [evalOp2, ofBool, h, this]

/-- `fallbackMask := 1 - subtle.ConstantTimeByteEq(bits, 0)` for a byte `bits` -/
theorem msc_mask_val {env : Env} {bits : Nat} (h4 : env 4 = .int (bits : Int)) (hb : bits < 256) :
    evalV G env (.op2 (.sub .i64) (.lit 1) (.op2 .cteq8 (.var 4) (.lit 0)))
      = some (.int ((1 - Model.Field.byteEq bits 0 : Nat) : Int)) := by
  simp only [evalV_op2, evalV_lit, evalV_var, h4, evalOp2, Option.map_some, Model.Field.byteEq]
  by_cases h : bits = 0
  · subst h; rfl
  · have h1 : ¬ (bits : Int) = 0 := by omega
    have h2 : ¬ bits % 256 = 0 % 256 := by omega
    simp [ofBool, h1, h2, h]
    rfl


/-- what the Go types (`[]*[4]uint64` entries) and the run-time bounds checks demand of a table: rows x, y
    (and z) are present and have (at least) `width` entries of (at least) four limbs -/
structure TableOk (pre : Table) (hasZ : Bool) (width : Nat) : Prop where
  rows : (if hasZ then 3 else 2) ≤ pre.length
  r0 : RowsOk (pre.getD 0 []) width
  r1 : RowsOk (pre.getD 1 []) width
  r2 : hasZ = true → RowsOk (pre.getD 2 []) width

/-- the new coordinates, on limbs -/
def mscLimbs (cx cy cz one : List Nat) (pre : Table) (hasZ : Bool) (width bits : Nat) : List (List Nat) :=
  [Model.Field.multiSelectLimbs (pre.getD 0 []) width bits cx (1 - Model.Field.byteEq bits 0),
   Model.Field.multiSelectLimbs (pre.getD 1 []) width bits cy (1 - Model.Field.byteEq bits 0),
   if hasZ then Model.Field.multiSelectLimbs (pre.getD 2 []) width bits cz (1 - Model.Field.byteEq bits 0)
   else Model.Field.select one cz (1 - Model.Field.byteEq bits 0)]

/-- the program contains the generated selection functions -/
structure HasSel (P : Prog) : Prop where
  h5 : P[5]? = some fn_5
  h6 : P[6]? = some fn_6
  h7 : P[7]? = some fn_7
  h8 : P[8]? = some fn_8
  h9 : P[9]? = some fn_9
  h10 : P[10]? = some fn_10
  h11 : P[11]? = some fn_11
  h80 : P[80]? = some fn_80

theorem prog_hasSel : HasSel prog := ⟨rfl, rfl, rfl, rfl, rfl, rfl, rfl, rfl⟩

/-- the arguments of multiSelectConditioned -/
def mscArgs (cx cy cz : List Nat) (pre : Table) (hasZ : Bool) (width bits : Nat) : List Val :=
  [coordsV [cx, cy, cz], CTIRRefineComb.encT pre, .int (if hasZ then 1 else 0), .int (width : Int), .int (bits : Int)]

/-- fuel for multiSelectConditioned -/
def fuelMSC (width : Nat) : Nat := 3 * fuelMS width + 100

theorem getD_getElem? {β : Type} (l : List β) (k : Nat) (d : β) (h : k < l.length) : l[k]? = some (l.getD k d) := by
  rw [List.getD_eq_getElem?_getD, List.getElem?_eq_getElem h]
  rfl

theorem byteEq_mask_le (bits : Nat) : 1 - Model.Field.byteEq bits 0 ≤ 1 := by omega

/-- **multiSelectConditioned**, the width check passes: body level, on limbs.  `one` is the value of the global
    `sm2ElementOne` -/
theorem msc_body_ok (hs : HasSel P) (cx cy cz one : List Nat) (pre : Table) (hasZ : Bool) (width bits : Nat)
    (hG : G 0 = elemV one) (hone : Out4 one) (hx : cx.length = 4) (hy : cy.length = 4) (hz : Out4 cz)
    (hb : bits < 256) (hw : width < 9223372036854775808) (hlen : (pre.getD 0 []).length = width)
    (ht : TableOk pre hasZ width) :
    ∃ env', EvIn P G X (fuelMSC width - 1) (Env.ofList (mscArgs cx cy cz pre hasZ width bits)) fn_7.body env'
      (.ret [coordsV (mscLimbs cx cy cz one pre hasZ width bits), coordsV (mscLimbs cx cy cz one pre hasZ width bits)]) := by
  have hrows := ht.rows
  have hl2 : 2 ≤ pre.length := by cases hasZ <;> simp at hrows <;> omega
  generalize hfc : 1 - Model.Field.byteEq bits 0 = fc
  have hfc1 : fc ≤ 1 := by rw [← hfc]; exact byteEq_mask_le bits
  let hzI : Int := if hasZ then 1 else 0
  let e0 : Env := Env.ofList (mscArgs cx cy cz pre hasZ width bits)
  let e1 := e0.set 6 (.int (fc : Int))
  have r0 : pre[0]? = some (pre.getD 0 []) := getD_getElem? _ _ _ (by omega)
  have r1 : pre[1]? = some (pre.getD 1 []) := getD_getElem? _ _ _ (by omega)
  have hc := msc_chk_val (G := G) (env := e0) (pre := pre) (width := width) rfl r0 rfl
  rw [if_pos hlen] at hc
  have c0 : EvIn P G X 2 e0 mscChk e0 .norm := EvIn.ite hc rfl (EvIn.skip _)
  have hm := msc_mask_val (G := G) (env := e0) (bits := bits) rfl hb
  rw [hfc] at hm
  have c1 : EvIn P G X 1 e0 mscMask e1 .norm := EvIn.assign hm
  have i1 : InvSel e1 [cx, cy, cz] pre hzI width bits fc := ⟨rfl, rfl, rfl, rfl, rfl, rfl⟩
  obtain ⟨e2, p2, _, i2⟩ := msc_pair (G := G) (X := X) hs.h8 (t := 7) (k := 0) i1 (by omega) (by simp) r0 hx hw ht.r0
  have i2' : InvSel e2 [Model.Field.multiSelectLimbs (pre.getD 0 []) width bits cx fc, cy, cz] pre hzI width bits fc := i2
  generalize hrx : Model.Field.multiSelectLimbs (pre.getD 0 []) width bits cx fc = rx at i2'
  obtain ⟨e3, p3, _, i3⟩ := msc_pair (G := G) (X := X) hs.h8 (t := 8) (k := 1) i2' (by omega) (by simp) r1 hy hw ht.r1
  have i3' : InvSel e3 [rx, Model.Field.multiSelectLimbs (pre.getD 1 []) width bits cy fc, cz] pre hzI width bits fc := i3
  generalize hry : Model.Field.multiSelectLimbs (pre.getD 1 []) width bits cy fc = ry at i3'
  have hpre := Pre.cons c0 (Pre.cons c1 (Pre.append p2 p3))
  -- the third coordinate
  have hZ : ∃ e4 rz, EvIn P G X (fuelMS width + 80) e3 mscZ e4 .norm ∧ e4 0 = coordsV [rx, ry, rz] ∧
      rz = (if hasZ then Model.Field.multiSelectLimbs (pre.getD 2 []) width bits cz fc
            else Model.Field.select one cz fc) := by
    cases hasZ with
    | true =>
      have r2 : pre[2]? = some (pre.getD 2 []) := getD_getElem? _ _ _ (by simp at hrows; omega)
      obtain ⟨e4, _, ev, i4⟩ := msc_pair (G := G) (X := X) hs.h8 (t := 9) (k := 2) i3' (by omega) (by simp) r2 hz.length hw
        (ht.r2 rfl)
      have g2 : evalV G e3 (.var 2) = some (.int 1) := by rw [evalV_var, i3'.h2]; rfl
      exact ⟨e4, _, (EvIn.ite g2 rfl ev).mono (by omega), i4.h0, rfl⟩
    | false =>
      have q2 : evalV G e3 (.idxc (.var 0) 2) = some (elemV cz) := evalV_coord i3'.h0 (by simp)
      have ha : evalVs G e3 [(.idxc (.var 0) 2), (.glob 0), (.idxc (.var 0) 2), (.var 6)]
          = some [elemV cz, elemV one, elemV cz, .int (fc : Int)] := by
        simp only [evalVs_cons, evalVs_nil, q2, evalV_glob, hG, evalV_var, i3'.h6]
      obtain ⟨envc, hbody⟩ := select_body_ok (P := P) (G := G) (X := X) hs.h10 hs.h11 cz one cz fc hz.length
        (by rw [hone.length]; omega) (by rw [hz.length]; omega)
      rw [selectN_eq_model one cz fc hone hz hfc1] at hbody
      let rz := Model.Field.select one cz fc
      let e4 := (e3.set 10 (elemV rz)).set 5 (elemV rz)
      have c4 : EvIn P G X 54 e3 (.call [10, 5] 9 [(.idxc (.var 0) 2), (.glob 0), (.idxc (.var 0) 2), (.var 6)]) e4 .norm :=
        EvIn.call ha hs.h9 rfl rfl hbody rfl
      have g0 : e4 0 = coordsV [rx, ry, cz] := by simp [e4, Env.set, i3'.h0]
      have c5 : EvIn P G X 1 e4 (.assign 0 [.c 2] (.var 10)) (e4.set 0 (coordsV [rx, ry, rz])) .norm :=
        evIn_setCoord (l := [rx, ry, cz]) (k := 2) (by simp [e4, Env.set]) g0 (by simp)
      have g2 : evalV G e3 (.var 2) = some (.int 0) := by rw [evalV_var, i3'.h2]; rfl
      exact ⟨_, rz, (EvIn.ite g2 rfl (EvIn.seq c4 c5)).mono (by omega), Env.set_same _ _ _, rfl⟩
  obtain ⟨e4, rz, evZ, g0, hrz⟩ := hZ
  have sr : evalVs G e4 [(.var 0), (.var 0)] = some [coordsV [rx, ry, rz], coordsV [rx, ry, rz]] := by
    simp only [evalVs_cons, evalVs_nil, evalV_var, g0]
  have hres : mscLimbs cx cy cz one pre hasZ width bits = [rx, ry, rz] := by
    simp only [mscLimbs, hfc, hrx, hry, hrz]
  rw [hres, fn_7_body]
  exact ⟨_, ((hpre _).1 _ _ _ (EvIn.seq evZ (EvIn.seq_stop (EvIn.ret sr) (by simp)))).mono
    (by simp only [fuelMSC, fuelMS]; omega)⟩

/-- **multiSelectConditioned**, the model panics (`len((*precomputed)[0]) != width`): the IR ends in the explicit
    `panic("invalid inputs")`, or, for an empty table, is stuck at `(*precomputed)[0]` -/
theorem msc_body_fails (q : Val) (pre : Table) (hz : Int) (width bits : Nat) (hlen : (pre.getD 0 []).length ≠ width) :
    CTIRRefineComb.Fails P G X (Env.ofList [q, CTIRRefineComb.encT pre, .int hz, .int (width : Int), .int (bits : Int)])
      fn_7.body := by
  rw [fn_7_body']
  cases hp : pre with
  | nil =>
    right
    refine Stuck.seq_left (Stuck.cond ?_)
    have q := evalV_row_none (G := G) (env := Env.ofList [q, CTIRRefineComb.encT [], .int hz, .int (width : Int), .int (bits : Int)])
      (x := 1) (k := 0) (t := []) rfl rfl
    simp only [mscChkE, evalV_op2, evalV_len, q, evalV_lit]
  | cons r0 rs =>
    left
    rw [hp] at hlen
    simp only [List.getD_cons_zero] at hlen
    have hc := msc_chk_val (G := G) (env := Env.ofList [q, CTIRRefineComb.encT (r0 :: rs), .int hz, .int (width : Int), .int (bits : Int)])
      (pre := r0 :: rs) (width := width) rfl rfl rfl
    rw [if_neg hlen] at hc
    exact ⟨_, _, EvIn.seq_stop (EvIn.ite hc rfl (EvIn.panic _)) (by simp)⟩


/-! ### The wrappers MultiSelectXY (6), MultiSelectXYZ (80), selectPoints (5): generic in the values -/

theorem fn_6_body : fn_6.body = .seq (.call [0, 5] 7 [(.var 0), (.var 1), (.lit 0), (.var 2), (.var 3)])
    (.seq (.ret [(.var 0), (.var 5)]) .panic) := rfl
theorem fn_80_body : fn_80.body = .seq (.call [0, 5] 7 [(.var 0), (.var 1), (.lit 1), (.var 2), (.var 3)])
    (.seq (.ret [(.var 0), (.var 5)]) .panic) := rfl
theorem fn_5_body : fn_5.body = .seq (.call [0, 4] 6 [(.var 0), (.var 1), (.var 2), (.var 3)])
    (.seq (.ret [(.var 0), (.var 0)]) .panic) := rfl

theorem xy_args (q t w b : Val) (z : Int) :
    evalVs G (Env.ofList [q, t, w, b]) [(.var 0), (.var 1), (.lit z), (.var 2), (.var 3)] = some [q, t, .int z, w, b] := by
  simp only [evalVs_cons, evalVs_nil, evalV_var, evalV_lit]
  rfl

theorem sp_args (q t w b : Val) :
    evalVs G (Env.ofList [q, t, w, b]) [(.var 0), (.var 1), (.var 2), (.var 3)] = some [q, t, w, b] := by
  simp only [evalVs_cons, evalVs_nil, evalV_var]
  rfl

/-- MultiSelectXY from multiSelectConditioned with `hasZ = false` -/
theorem xy_computes (h6 : P[6]? = some fn_6) {F : Nat} {q t w b r1 r2 : Val}
    (h : Computes P G X 7 F [q, t, .int 0, w, b] [r1, r2]) : Computes P G X 6 (F + 4) [q, t, w, b] [r1, r2] := by
  refine Computes.of_body h6 rfl rfl (env' := ((Env.ofList [q, t, w, b]).set 0 r1).set 5 r2) ?_
  rw [fn_6_body]
  have c := h.call (env := Env.ofList [q, t, w, b]) (lhs := [0, 5]) (xy_args q t w b 0) rfl
  have sr : evalVs G (((Env.ofList [q, t, w, b]).set 0 r1).set 5 r2) [(.var 0), (.var 5)] = some [r1, r2] := by
    simp [evalVs_cons, Env.set]
  exact (EvIn.seq c (EvIn.seq_stop (EvIn.ret sr) (by simp))).mono (by omega)

theorem xy_fails (h6 : P[6]? = some fn_6) {q t w b : Val}
    (h : CTIRRefineComb.CalleeFails P G X 7 [q, t, .int 0, w, b]) : CTIRRefineComb.CalleeFails P G X 6 [q, t, w, b] := by
  refine calleeFails_of_fails h6 rfl rfl ?_
  rw [fn_6_body]
  exact CTIRRefineComb.Fails.seq_left (CTIRRefineComb.Fails.call (xy_args q t w b 0) h)

/-- MultiSelectXYZ from multiSelectConditioned with `hasZ = true` -/
theorem xyz_computes (h80 : P[80]? = some fn_80) {F : Nat} {q t w b r1 r2 : Val}
    (h : Computes P G X 7 F [q, t, .int 1, w, b] [r1, r2]) : Computes P G X 80 (F + 4) [q, t, w, b] [r1, r2] := by
  refine Computes.of_body h80 rfl rfl (env' := ((Env.ofList [q, t, w, b]).set 0 r1).set 5 r2) ?_
  rw [fn_80_body]
  have c := h.call (env := Env.ofList [q, t, w, b]) (lhs := [0, 5]) (xy_args q t w b 1) rfl
  have sr : evalVs G (((Env.ofList [q, t, w, b]).set 0 r1).set 5 r2) [(.var 0), (.var 5)] = some [r1, r2] := by
    simp [evalVs_cons, Env.set]
  exact (EvIn.seq c (EvIn.seq_stop (EvIn.ret sr) (by simp))).mono (by omega)

theorem xyz_fails (h80 : P[80]? = some fn_80) {q t w b : Val}
    (h : CTIRRefineComb.CalleeFails P G X 7 [q, t, .int 1, w, b]) : CTIRRefineComb.CalleeFails P G X 80 [q, t, w, b] := by
  refine calleeFails_of_fails h80 rfl rfl ?_
  rw [fn_80_body]
  exact CTIRRefineComb.Fails.seq_left (CTIRRefineComb.Fails.call (xy_args q t w b 1) h)

/-- selectPoints from MultiSelectXY -/
theorem sp_computes (h5 : P[5]? = some fn_5) {F : Nat} {q t w b r1 r2 : Val}
    (h : Computes P G X 6 F [q, t, w, b] [r1, r2]) : Computes P G X 5 (F + 4) [q, t, w, b] [r1, r1] := by
  refine Computes.of_body h5 rfl rfl (env' := ((Env.ofList [q, t, w, b]).set 0 r1).set 4 r2) ?_
  rw [fn_5_body]
  have c := h.call (env := Env.ofList [q, t, w, b]) (lhs := [0, 4]) (sp_args q t w b) rfl
  have sr : evalVs G (((Env.ofList [q, t, w, b]).set 0 r1).set 4 r2) [(.var 0), (.var 0)] = some [r1, r1] := by
    simp [evalVs_cons, Env.set]
  exact (EvIn.seq c (EvIn.seq_stop (EvIn.ret sr) (by simp))).mono (by omega)

theorem sp_fails (h5 : P[5]? = some fn_5) {q t w b : Val}
    (h : CTIRRefineComb.CalleeFails P G X 6 [q, t, w, b]) : CTIRRefineComb.CalleeFails P G X 5 [q, t, w, b] := by
  refine calleeFails_of_fails h5 rfl rfl ?_
  rw [fn_5_body]
  exact CTIRRefineComb.Fails.seq_left (CTIRRefineComb.Fails.call (sp_args q t w b) h)

end MSC


/-! ### Point level: `Model.Point.multiSelect` -/

/-- HYPOTHESES on the limb encoding `enc` of the carrier: four limbs below 2^64; `GetRaw` (`F.raw`) returns the
    limbs; `SetRaw`/the receiver written limb by limb (`F.ofRaw`) has the limbs it was given.
    (True of `Model.Field.montOps` with `enc = natToLimbs` on residues below 2^256.) -/
structure EncOk {α : Type} (F : Model.Field.FieldOps α) (enc : α → List Nat) : Prop where
  out4 : ∀ e, Out4 (enc e)
  raw : ∀ e, F.raw e = enc e
  ofRaw : ∀ l, Out4 l → enc (F.ofRaw l) = l

section PointLevel
variable {α : Type} {P : Prog} {G : Nat → Val} {X : Oracle}

/-- the point that `Model.Point.multiSelect` returns when the width check passes -/
def selPt (C : Model.Point.Ctx α) (q : Model.Point.Pt α) (pre : Table) (hasZ : Bool) (width bits : Nat) : Model.Point.Pt α :=
  { x := C.F.ofRaw (Model.Field.multiSelectLimbs (pre.getD 0 []) width bits (C.F.raw q.x) (1 - Model.Field.byteEq bits 0))
    y := C.F.ofRaw (Model.Field.multiSelectLimbs (pre.getD 1 []) width bits (C.F.raw q.y) (1 - Model.Field.byteEq bits 0))
    z := if hasZ then C.F.ofRaw (Model.Field.multiSelectLimbs (pre.getD 2 []) width bits (C.F.raw q.z) (1 - Model.Field.byteEq bits 0))
         else Model.Field.select C.F.setOne q.z (1 - Model.Field.byteEq bits 0) }

theorem multiSelect_eq (C : Model.Point.Ctx α) (q : Model.Point.Pt α) (pre : Table) (hasZ : Bool) (width bits : Nat) :
    Model.Point.multiSelect C q pre hasZ width bits =
      if (pre.getD 0 []).length ≠ width then .panic else .ok (selPt C q pre hasZ width bits) := rfl

theorem multiSelect_ne_err (C : Model.Point.Ctx α) (q : Model.Point.Pt α) (pre : Table) (hasZ : Bool) (width bits : Nat) :
    Model.Point.multiSelect C q pre hasZ width bits ≠ .err := by
  rw [multiSelect_eq]
  split <;> simp

theorem ptV_selPt {C : Model.Point.Ctx α} {enc : α → List Nat} (he : EncOk C.F enc) (q : Model.Point.Pt α) (pre : Table)
    (hasZ : Bool) (width bits : Nat) :
    ptV enc (selPt C q pre hasZ width bits) =
      coordsV (mscLimbs (enc q.x) (enc q.y) (enc q.z) (enc C.F.setOne) pre hasZ width bits) := by
  simp only [ptV, coordsV, mscLimbs, selPt, he.raw, List.map_cons, List.map_nil,
    he.ofRaw _ (multiSelectLimbs_out4 _ _ _ _ _)]
  cases hasZ with
  | true => simp only [if_true, he.ofRaw _ (multiSelectLimbs_out4 _ _ _ _ _)]
  | false =>
    simp only [Bool.false_eq_true, if_false, Model.Field.select]
    split <;> rfl

/-- **(*SM2Point).multiSelectConditioned = `Model.Point.multiSelect`**, the model returns a point.
    `hG`: the global `internal.sm2ElementOne` (global 0) holds the encoding of `F.setOne`.
    DOMAIN (what Go's types and bounds checks give; outside it the model and the IR DISAGREE, see the header):
    `bits` a byte, `width` a non-negative `int`, the table has its rows x, y (z) with ≥ `width` entries of four limbs. -/
theorem msc_computes (hs : HasSel P) {C : Model.Point.Ctx α} {enc : α → List Nat} (he : EncOk C.F enc)
    (hG : G 0 = elemV (enc C.F.setOne)) (q : Model.Point.Pt α) (pre : Table) (hasZ : Bool) (width bits : Nat)
    (hb : bits < 256) (hw : width < 9223372036854775808) (ht : TableOk pre hasZ width) (r : Model.Point.Pt α)
    (h : Model.Point.multiSelect C q pre hasZ width bits = .ok r) :
    Computes P G X 7 (fuelMSC width - 1)
      [ptV enc q, CTIRRefineComb.encT pre, .int (if hasZ then 1 else 0), .int (width : Int), .int (bits : Int)]
      [ptV enc r, ptV enc r] := by
  rw [multiSelect_eq] at h
  by_cases hlen : (pre.getD 0 []).length = width
  · rw [if_neg (by simpa using hlen)] at h
    simp only [Outcome.ok.injEq] at h
    subst h
    obtain ⟨env', hb⟩ := msc_body_ok (P := P) (G := G) (X := X) hs (enc q.x) (enc q.y) (enc q.z) (enc C.F.setOne) pre hasZ width bits
      hG (he.out4 _) (he.out4 _).length (he.out4 _).length (he.out4 _) hb hw hlen ht
    rw [ptV_selPt he]
    exact Computes.of_body hs.h7 rfl rfl hb
  · rw [if_pos hlen] at h
    cases h

/-- **multiSelectConditioned**, the model panics: the IR ends in `panic` or is stuck (no domain hypothesis) -/
theorem msc_fails (hs : HasSel P) (C : Model.Point.Ctx α) (qv : Val) (q : Model.Point.Pt α) (pre : Table) (hasZ : Bool) (hz : Int)
    (width bits : Nat) (h : Model.Point.multiSelect C q pre hasZ width bits = .panic) :
    CTIRRefineComb.CalleeFails P G X 7 [qv, CTIRRefineComb.encT pre, .int hz, .int (width : Int), .int (bits : Int)] := by
  rw [multiSelect_eq] at h
  by_cases hlen : (pre.getD 0 []).length = width
  · rw [if_neg (by simpa using hlen)] at h
    cases h
  · exact calleeFails_of_fails hs.h7 rfl rfl (msc_body_fails qv pre hz width bits hlen)

/-- fuel for MultiSelectXY / MultiSelectXYZ and for selectPoints, for widths up to `W` -/
def fuelXY (W : Nat) : Nat := fuelMSC W + 4
def fuelSelectPoints (W : Nat) : Nat := fuelMSC W + 8

theorem fuelMSC_mono {w W : Nat} (h : w ≤ W) : fuelMSC w ≤ fuelMSC W := by
  simp only [fuelMSC, fuelMS]; omega

/-- **(*SM2Point).MultiSelectXY** -/
theorem multiSelectXY_computes (hs : HasSel P) {C : Model.Point.Ctx α} {enc : α → List Nat} (he : EncOk C.F enc)
    (hG : G 0 = elemV (enc C.F.setOne)) (q : Model.Point.Pt α) (pre : Table) (width bits : Nat)
    (hb : bits < 256) (hw : width < 9223372036854775808) (ht : TableOk pre false width) (r : Model.Point.Pt α)
    (h : Model.Point.multiSelect C q pre false width bits = .ok r) :
    Computes P G X 6 (fuelXY width) [ptV enc q, CTIRRefineComb.encT pre, .int (width : Int), .int (bits : Int)]
      [ptV enc r, ptV enc r] :=
  (xy_computes hs.h6 (msc_computes hs he hG q pre false width bits hb hw ht r h)).mono (by simp only [fuelXY, fuelMSC]; omega)

/-- **(*SM2Point).MultiSelectXYZ** -/
theorem multiSelectXYZ_computes (hs : HasSel P) {C : Model.Point.Ctx α} {enc : α → List Nat} (he : EncOk C.F enc)
    (hG : G 0 = elemV (enc C.F.setOne)) (q : Model.Point.Pt α) (pre : Table) (width bits : Nat)
    (hb : bits < 256) (hw : width < 9223372036854775808) (ht : TableOk pre true width) (r : Model.Point.Pt α)
    (h : Model.Point.multiSelect C q pre true width bits = .ok r) :
    Computes P G X 80 (fuelXY width) [ptV enc q, CTIRRefineComb.encT pre, .int (width : Int), .int (bits : Int)]
      [ptV enc r, ptV enc r] :=
  (xyz_computes hs.h80 (msc_computes hs he hG q pre true width bits hb hw ht r h)).mono (by simp only [fuelXY, fuelMSC]; omega)

/-- **selectPoints** -/
theorem selectPoints_computes (hs : HasSel P) {C : Model.Point.Ctx α} {enc : α → List Nat} (he : EncOk C.F enc)
    (hG : G 0 = elemV (enc C.F.setOne)) (q : Model.Point.Pt α) (pre : Table) (width bits : Nat)
    (hb : bits < 256) (hw : width < 9223372036854775808) (ht : TableOk pre false width) (r : Model.Point.Pt α)
    (h : Model.Point.multiSelect C q pre false width bits = .ok r) :
    Computes P G X 5 (fuelSelectPoints width) [ptV enc q, CTIRRefineComb.encT pre, .int (width : Int), .int (bits : Int)]
      [ptV enc r, ptV enc r] :=
  (sp_computes hs.h5 (multiSelectXY_computes hs he hG q pre width bits hb hw ht r h)).mono
    (by simp only [fuelSelectPoints, fuelXY]; omega)

end PointLevel


/-! ### The DISAGREEMENT outside `TableOk`, formally: a table without its row y -/

section Disagree
variable {α : Type} {P : Prog} {G : Nat → Val} {X : Oracle}

theorem fn_7_body'' : fn_7.body =
    seqs (([mscChk, mscMask] ++ mscPair 7 0) ++ [seqs (mscPair 8 1 ++ [.seq mscZ mscRet])]) := rfl

theorem stuck_call_args {env : Env} {lhs : List Nat} {g : Nat} {args : List Expr} (ha : evalVs G env args = none) :
    Stuck P G X env (.call lhs g args) := by
  intro f
  cases f with
  | zero => rfl
  | succ f => rw [execV_call, ha]

/-- the model accepts every table whose row x has `width` entries, whatever the other rows are -/
theorem multiSelect_ok_of_len (C : Model.Point.Ctx α) (q : Model.Point.Pt α) (pre : Table) (hasZ : Bool) (width bits : Nat)
    (hlen : (pre.getD 0 []).length = width) :
    Model.Point.multiSelect C q pre hasZ width bits = .ok (selPt C q pre hasZ width bits) := by
  rw [multiSelect_eq, if_neg (by simpa using hlen)]

/-- … but on a table that consists of the row x only the IR (as the Go code: `(*precomputed)[1]`, index out of
    range) is stuck with every fuel.  E.g. `pre = [[e]]`, `width = 1`: model `.ok`, IR `stuck`. -/
theorem msc_body_stuck_noRowY (hs : HasSel P) (cx cy cz : List Nat) (r0 : List (List Nat)) (hasZ : Bool) (width bits : Nat)
    (hx : cx.length = 4) (hb : bits < 256) (hw : width < 9223372036854775808) (hlen : r0.length = width)
    (hr0 : RowsOk r0 width) :
    Stuck P G X (Env.ofList (mscArgs cx cy cz [r0] hasZ width bits)) fn_7.body := by
  generalize hfc : 1 - Model.Field.byteEq bits 0 = fc
  let hzI : Int := if hasZ then 1 else 0
  let e0 : Env := Env.ofList (mscArgs cx cy cz [r0] hasZ width bits)
  let e1 := e0.set 6 (.int (fc : Int))
  have hc := msc_chk_val (G := G) (env := e0) (pre := [r0]) (width := width) rfl rfl rfl
  rw [if_pos hlen] at hc
  have c0 : EvIn P G X 2 e0 mscChk e0 .norm := EvIn.ite hc rfl (EvIn.skip _)
  have hm := msc_mask_val (G := G) (env := e0) (bits := bits) rfl hb
  rw [hfc] at hm
  have c1 : EvIn P G X 1 e0 mscMask e1 .norm := EvIn.assign hm
  have i1 : InvSel e1 [cx, cy, cz] [r0] hzI width bits fc := ⟨rfl, rfl, rfl, rfl, rfl, rfl⟩
  obtain ⟨e2, p2, _, i2⟩ := msc_pair (G := G) (X := X) hs.h8 (t := 7) (k := 0) i1 (by omega) (by simp) rfl hx hw hr0
  have hpre := Pre.cons c0 (Pre.cons c1 p2)
  rw [fn_7_body'']
  refine (hpre _).2 (Stuck.seq_left (stuck_call_args ?_))
  have q := evalV_row_none (G := G) (x := 1) (k := 1) i2.h1 rfl
  simp only [evalVs_cons, q]
  cases evalV G e2 (.idxc (.var 0) 1) <;> rfl

end Disagree

/-! ## TransformPrecomputed -/

def zeros4 : Val := limbsV [0, 0, 0, 0]

/-- a row of the result after `i` rounds: the first `i` entries filled in -/
def fillRow (ls : List (List Nat)) (i n : Nat) : List Val :=
  (ls.take i).map limbsV ++ List.replicate (n - i) zeros4

theorem fillRow_length {ls : List (List Nat)} {i n : Nat} (hi : i ≤ n) (hl : i ≤ ls.length) : (fillRow ls i n).length = n := by
  simp only [fillRow, List.length_append, List.length_map, List.length_take, List.length_replicate]
  omega

theorem fillRow_set {ls : List (List Nat)} {i n : Nat} (hi : i < n) (hl : i < ls.length) :
    (fillRow ls i n).set i (limbsV (ls.getD i [])) = fillRow ls (i + 1) n := by
  have e1 : n - i = (n - (i + 1)) + 1 := by omega
  have e2 : ((ls.take i).map limbsV).length = i := by
    simp only [List.length_map, List.length_take]; omega
  have e3 : ls.take (i + 1) = ls.take i ++ [ls.getD i []] := by
    rw [List.take_add_one, List.getElem?_eq_getElem hl, List.getD_eq_getElem?_getD, List.getElem?_eq_getElem hl]
    rfl
  simp only [fillRow]
  rw [e1, List.replicate_succ, e3, List.map_append, List.append_assoc]
  generalize hA : (ls.take i).map limbsV = A at e2
  subst e2
  simp

theorem fillRow_zero (ls : List (List Nat)) (n : Nat) : fillRow ls 0 n = List.replicate n zeros4 := by
  simp [fillRow]

theorem fillRow_full (ls : List (List Nat)) : fillRow ls ls.length ls.length = ls.map limbsV := by
  simp [fillRow]

def tpCond : Expr := .op2 .lt (.var 4) (.var 1)
def tpCall (t k : Nat) : Stmt := .call [t] 41 [(.idxc (.idx (.var 0) (.var 4)) k)]
def tpStore (t k : Nat) : Stmt := .assign 3 [.c k, .e (.var 4)] (.var t)
def tpBody : Stmt := seqs [tpCall 5 0, tpStore 5 0, tpCall 6 1, tpStore 6 1, tpCall 7 2, tpStore 7 2]
def tpPost : Stmt := .assign 4 [] (.op2 (.add .i64) (.var 4) (.lit 1))
def tpLoop : Stmt := .loop tpCond tpBody tpPost
def tpRow : Expr := .mk (.var 1) (.mk (.lit 4) (.lit 0))
def tpPro : List Stmt := [.assign 3 [] (.mk (.lit 0) (.mk (.lit 0) (.mk (.lit 4) (.lit 0)))),
    .assign 3 [] (.mk (.lit 3) (.mk (.lit 0) (.mk (.lit 4) (.lit 0)))),
    .assign 3 [.c 0] tpRow, .assign 3 [.c 1] tpRow, .assign 3 [.c 2] tpRow, .assign 4 [] (.lit 0)]

theorem fn_81_body : fn_81.body = seqs (tpPro ++ [.seq tpLoop (.seq (.ret [(.var 3)]) .panic)]) := rfl

theorem fn_41_body : fn_41.body = .seq (.ret [(.idxc (.var 0) 0)]) .panic := rfl

section TP
variable {α : Type} {P : Prog} {G : Nat → Val} {X : Oracle}

/-- GetRaw returns the limbs (body level, any program) -/
theorem getRaw_body_ok (l : List Nat) :
    EvIn P G X 2 (Env.ofList [elemV l]) fn_41.body (Env.ofList [elemV l]) (.ret [limbsV l]) := by
  rw [fn_41_body]
  have sr : evalVs G (Env.ofList [elemV l]) [(.idxc (.var 0) 0)] = some [limbsV l] := by
    have q : evalV G (Env.ofList [elemV l]) (.idxc (.var 0) 0) = some (limbsV l) := evalV_field0 rfl
    simp only [evalVs_cons, evalVs_nil, q]
  exact EvIn.seq_stop (EvIn.ret sr) (by simp)

/-- the three rows under construction -/
def rowsV (r0 r1 r2 : List Val) : Val := .arr [.arr r0, .arr r1, .arr r2]

/-- the state of the loop: counter `i`, `j` entries of every row filled in -/
structure InvTP (enc : α → List Nat) (env : Env) (pts : List (Model.Point.Pt α)) (n i j : Nat) : Prop where
  h0 : env 0 = .arr (pts.map (ptV enc))
  h1 : env 1 = .int (n : Int)
  h4 : env 4 = .int (i : Int)
  h3 : env 3 = rowsV (fillRow (pts.map (fun p => enc p.x)) j n) (fillRow (pts.map (fun p => enc p.y)) j n)
        (fillRow (pts.map (fun p => enc p.z)) j n)

/-- `(*precomputed)[i].c.GetRaw()` -/
theorem tp_call (h41 : P[41]? = some fn_41) {enc : α → List Nat} {env : Env} {pts : List (Model.Point.Pt α)} {i t k : Nat}
    {p : Model.Point.Pt α} {c : List Nat}
    (h0 : env 0 = .arr (pts.map (ptV enc))) (h4 : env 4 = .int (i : Int)) (hp : pts[i]? = some p)
    (hc : [elemV (enc p.x), elemV (enc p.y), elemV (enc p.z)][k]? = some (elemV c)) :
    EvIn P G X 3 env (tpCall t k) (env.set t (limbsV c)) .norm := by
  have ha : evalVs G env [(.idxc (.idx (.var 0) (.var 4)) k)] = some [elemV c] := by
    have q : evalV G env (.idx (.var 0) (.var 4)) = some (ptV enc p) := by
      simp only [evalV_idx, evalV_var, h0, h4, getIdx_ofNat, List.getElem?_map, hp, Option.map_some]
    simp only [evalVs_cons, evalVs_nil, evalV_idxc, q, ptV, hc]
  exact EvIn.call ha h41 rfl rfl (getRaw_body_ok c) rfl

/-- `precomputedElements[k][i] = …` -/
theorem tp_store {env : Env} {i t k : Nat} {rows : List Val} {m : List Val} {v : Val}
    (h3 : env 3 = .arr rows) (h4 : env 4 = .int (i : Int)) (ht : env t = v) (hk : rows[k]? = some (.arr m)) (hi : i < m.length) :
    EvIn P G X 1 env (tpStore t k) (env.set 3 (.arr (rows.set k (.arr (m.set i v))))) .norm := by
  refine EvIn.assignPath (ks := [k, i]) (by rw [evalV_var, ht]) ?_ ?_
  · have : ¬ ((i : Int) < 0) := by omega
    simp [pathV_c, pathV_e, h4, this]
  · rw [h3, updPath_c2 _ _ k i _ hk hi]

theorem tp_cond_true {env : Env} {i n : Nat} (h4 : env 4 = .int (i : Int)) (h1 : env 1 = .int (n : Int)) (h : i < n) :
    evalV G env tpCond = some (.int 1) := by
  have : (i : Int) < (n : Int) := by omega
  simp [tpCond, evalV_op2, evalV_var, h4, h1, evalOp2, ofBool, this]

theorem tp_cond_false {env : Env} {i n : Nat} (h4 : env 4 = .int (i : Int)) (h1 : env 1 = .int (n : Int)) (h : ¬ i < n) :
    evalV G env tpCond = some (.int 0) := by
  have : ¬ (i : Int) < (n : Int) := by omega
  simp [tpCond, evalV_op2, evalV_var, h4, h1, evalOp2, ofBool, this]

/-- one round of the loop body -/
theorem tp_round (h41 : P[41]? = some fn_41) {enc : α → List Nat} {env : Env} {pts : List (Model.Point.Pt α)} {i : Nat}
    (h : InvTP enc env pts pts.length i i) (hi : i < pts.length) :
    ∃ env', EvIn P G X 20 env tpBody env' .norm ∧ InvTP enc env' pts pts.length i (i + 1) := by
  obtain ⟨h0, h1, h4, h3⟩ := h
  have hp : pts[i]? = some pts[i] := List.getElem?_eq_getElem hi
  generalize hpd : pts[i] = p at hp
  generalize hR0 : fillRow (pts.map (fun p => enc p.x)) i pts.length = R0 at h3
  generalize hR1 : fillRow (pts.map (fun p => enc p.y)) i pts.length = R1 at h3
  generalize hR2 : fillRow (pts.map (fun p => enc p.z)) i pts.length = R2 at h3
  have l0 : i < R0.length := by rw [← hR0, fillRow_length (by omega) (by simp; omega)]; exact hi
  have l1 : i < R1.length := by rw [← hR1, fillRow_length (by omega) (by simp; omega)]; exact hi
  have l2 : i < R2.length := by rw [← hR2, fillRow_length (by omega) (by simp; omega)]; exact hi
  let e1 := env.set 5 (limbsV (enc p.x))
  let e2 := e1.set 3 (rowsV (R0.set i (limbsV (enc p.x))) R1 R2)
  let e3 := e2.set 6 (limbsV (enc p.y))
  let e4 := e3.set 3 (rowsV (R0.set i (limbsV (enc p.x))) (R1.set i (limbsV (enc p.y))) R2)
  let e5 := e4.set 7 (limbsV (enc p.z))
  let e6 := e5.set 3 (rowsV (R0.set i (limbsV (enc p.x))) (R1.set i (limbsV (enc p.y))) (R2.set i (limbsV (enc p.z))))
  have c1 : EvIn P G X 3 env (tpCall 5 0) e1 .norm := tp_call h41 h0 h4 hp rfl
  have c2 : EvIn P G X 1 e1 (tpStore 5 0) e2 .norm :=
    tp_store (rows := [.arr R0, .arr R1, .arr R2]) (m := R0) (by simp [e1, Env.set, h3, rowsV]) (by simp [e1, Env.set, h4])
      (by simp [e1]) rfl l0
  have c3 : EvIn P G X 3 e2 (tpCall 6 1) e3 .norm :=
    tp_call h41 (by simp [e2, e1, Env.set, h0]) (by simp [e2, e1, Env.set, h4]) hp rfl
  have c4 : EvIn P G X 1 e3 (tpStore 6 1) e4 .norm :=
    tp_store (rows := [.arr (R0.set i (limbsV (enc p.x))), .arr R1, .arr R2]) (m := R1) (by simp [e3, e2, Env.set, rowsV])
      (by simp [e3, e2, e1, Env.set, h4]) (by simp [e3]) rfl l1
  have c5 : EvIn P G X 3 e4 (tpCall 7 2) e5 .norm :=
    tp_call h41 (by simp [e4, e3, e2, e1, Env.set, h0]) (by simp [e4, e3, e2, e1, Env.set, h4]) hp rfl
  have c6 : EvIn P G X 1 e5 (tpStore 7 2) e6 .norm :=
    tp_store (rows := [.arr (R0.set i (limbsV (enc p.x))), .arr (R1.set i (limbsV (enc p.y))), .arr R2]) (m := R2)
      (by simp [e5, e4, Env.set, rowsV]) (by simp [e5, e4, e3, e2, e1, Env.set, h4]) (by simp [e5]) rfl l2
  refine ⟨e6, (EvIn.seq c1 (EvIn.seq c2 (EvIn.seq c3 (EvIn.seq c4 (EvIn.seq c5 c6))))).mono (by decide), ?_, ?_, ?_, ?_⟩
  · simp [e6, e5, e4, e3, e2, e1, Env.set, h0]
  · simp [e6, e5, e4, e3, e2, e1, Env.set, h1]
  · simp [e6, e5, e4, e3, e2, e1, Env.set, h4]
  · have gx : (pts.map (fun p => enc p.x)).getD i [] = enc p.x := by
      rw [List.getD_eq_getElem?_getD, List.getElem?_map, hp]; rfl
    have gy : (pts.map (fun p => enc p.y)).getD i [] = enc p.y := by
      rw [List.getD_eq_getElem?_getD, List.getElem?_map, hp]; rfl
    have gz : (pts.map (fun p => enc p.z)).getD i [] = enc p.z := by
      rw [List.getD_eq_getElem?_getD, List.getElem?_map, hp]; rfl
    rw [← fillRow_set hi (by simpa using hi), ← fillRow_set (ls := pts.map (fun p => enc p.y)) hi (by simpa using hi),
      ← fillRow_set (ls := pts.map (fun p => enc p.z)) hi (by simpa using hi), gx, gy, gz, hR0, hR1, hR2]
    simp [e6, Env.set]

end TP

section TP2
variable {α : Type} {P : Prog} {G : Nat → Val} {X : Oracle}

theorem tp_post {enc : α → List Nat} {env : Env} {pts : List (Model.Point.Pt α)} {n i j : Nat}
    (h : InvTP enc env pts n i j) (hi : i + 1 < 9223372036854775808) :
    ∃ env', EvIn P G X 1 env tpPost env' .norm ∧ InvTP enc env' pts n (i + 1) j := by
  obtain ⟨h0, h1, h4, h3⟩ := h
  have s : evalV G env (.op2 (.add .i64) (.var 4) (.lit 1)) = some (.int ((i + 1 : Nat) : Int)) := by
    simp only [evalV_op2, evalV_var, evalV_lit, h4, evalOp2, Option.map_some]
    rw [norm_i64_small (by omega) (by omega)]
    rfl
  refine ⟨env.set 4 (.int ((i + 1 : Nat) : Int)), EvIn.assign s, ?_, ?_, ?_, ?_⟩ <;> simp [Env.set, *]

/-- the loop fills the rows -/
theorem tp_loop_ok (h41 : P[41]? = some fn_41) {enc : α → List Nat} (pts : List (Model.Point.Pt α))
    (hn : pts.length < 9223372036854775808) : ∀ (m i : Nat) (env : Env),
    InvTP enc env pts pts.length i i → i + m = pts.length →
    ∃ env', EvIn P G X (23 * m + 1) env tpLoop env' .norm ∧ InvTP enc env' pts pts.length pts.length pts.length := by
  intro m
  induction m with
  | zero =>
    intro i env h him
    have : i = pts.length := by omega
    subst this
    exact ⟨env, EvIn.loop_exit (tp_cond_false h.h4 h.h1 (by omega)) rfl, h⟩
  | succ m ih =>
    intro i env h him
    obtain ⟨env1, hbody, h1⟩ := tp_round (G := G) (X := X) h41 h (by omega)
    obtain ⟨env2, hpost, h2⟩ := tp_post (P := P) (G := G) (X := X) h1 (by omega)
    obtain ⟨env', hl, h'⟩ := ih (i + 1) env2 h2 (by omega)
    exact ⟨env', (EvIn.loop_round (tp_cond_true h.h4 h.h1 (by omega)) rfl hbody (Or.inl rfl) hpost hl).mono (by omega), h'⟩

theorem evalV_tpRow {env : Env} {n : Nat} (h1 : env 1 = .int (n : Int)) :
    evalV G env tpRow = some (.arr (List.replicate n zeros4)) := by
  have : ¬ ((n : Int) < 0) := by omega
  have e : evalV G env (.mk (.lit 4) (.lit 0)) = some zeros4 := evalV_mk4 _
  rw [tpRow, evalV_mk, evalV_var, h1, e]
  simp [this]

/-- the state before the loop -/
theorem tp_prologue {enc : α → List Nat} (pts : List (Model.Point.Pt α)) (n : Nat) :
    ∃ envP, Pre P G X 12 (Env.ofList [.arr (pts.map (ptV enc)), .int (n : Int)]) tpPro envP ∧ InvTP enc envP pts n 0 0 := by
  let z := List.replicate n zeros4
  let e0 : Env := Env.ofList [.arr (pts.map (ptV enc)), .int (n : Int)]
  let e1 := e0.set 3 (.arr [])
  let e2 := e1.set 3 (.arr [.arr [], .arr [], .arr []])
  let e3 := e2.set 3 (.arr [.arr z, .arr [], .arr []])
  let e4 := e3.set 3 (.arr [.arr z, .arr z, .arr []])
  let e5 := e4.set 3 (.arr [.arr z, .arr z, .arr z])
  let e6 := e5.set 4 (.int ((0 : Nat) : Int))
  have c1 : EvIn P G X 1 e0 (.assign 3 [] (.mk (.lit 0) (.mk (.lit 0) (.mk (.lit 4) (.lit 0))))) e1 .norm := EvIn.assign rfl
  have c2 : EvIn P G X 1 e1 (.assign 3 [] (.mk (.lit 3) (.mk (.lit 0) (.mk (.lit 4) (.lit 0))))) e2 .norm := EvIn.assign rfl
  have c3 : EvIn P G X 1 e2 (.assign 3 [.c 0] tpRow) e3 .norm :=
    EvIn.assignPath (ks := [0]) (evalV_tpRow (n := n) (by simp [e2, e1, e0, Env.set, Env.ofList])) (by simp [pathV_c])
      (by simp only [e2, Env.set_same]; rw [updPath_c1 _ _ _ (by simp)]; rfl)
  have c4 : EvIn P G X 1 e3 (.assign 3 [.c 1] tpRow) e4 .norm :=
    EvIn.assignPath (ks := [1]) (evalV_tpRow (n := n) (by simp [e3, e2, e1, e0, Env.set, Env.ofList])) (by simp [pathV_c])
      (by simp only [e3, Env.set_same]; rw [updPath_c1 _ _ _ (by simp)]; rfl)
  have c5 : EvIn P G X 1 e4 (.assign 3 [.c 2] tpRow) e5 .norm :=
    EvIn.assignPath (ks := [2]) (evalV_tpRow (n := n) (by simp [e4, e3, e2, e1, e0, Env.set, Env.ofList])) (by simp [pathV_c])
      (by simp only [e4, Env.set_same]; rw [updPath_c1 _ _ _ (by simp)]; rfl)
  have c6 : EvIn P G X 1 e5 (.assign 4 [] (.lit 0)) e6 .norm := EvIn.assign rfl
  refine ⟨e6, Pre.cons c1 (Pre.cons c2 (Pre.cons c3 (Pre.cons c4 (Pre.cons c5 (Pre.cons c6 (Pre.nil _)))))), ?_, ?_, ?_, ?_⟩
  · simp [e6, e5, e4, e3, e2, e1, e0, Env.set, Env.ofList]
  · simp [e6, e5, e4, e3, e2, e1, e0, Env.set, Env.ofList]
  · simp [e6, Env.set]
  · simp [e6, e5, Env.set, rowsV, fillRow_zero, z]

/-- the program contains TransformPrecomputed and GetRaw -/
structure HasTP (P : Prog) : Prop where
  h41 : P[41]? = some fn_41
  h81 : P[81]? = some fn_81

theorem prog_hasTP : HasTP prog := ⟨rfl, rfl⟩

/-- fuel for TransformPrecomputed on `n` points -/
def fuelTP (n : Nat) : Nat := 23 * n + 20

/-- **TransformPrecomputed = `Model.Point.transformPrecomputed`** for `width = len(*precomputed)` (the model has no
    `width` parameter: for a smaller `width` the Go code returns shorter rows, for a larger one it panics with an
    index out of range).  Only `F.raw = enc` is needed of the encoding. -/
theorem transformPrecomputed_computes (ht : HasTP P) {C : Model.Point.Ctx α} {enc : α → List Nat}
    (hraw : ∀ e, C.F.raw e = enc e) (pts : List (Model.Point.Pt α)) (hn : pts.length < 9223372036854775808) :
    Computes P G X 81 (fuelTP pts.length) [.arr (pts.map (ptV enc)), .int (pts.length : Int)]
      [CTIRRefineComb.encT (Model.Point.transformPrecomputed C pts)] := by
  obtain ⟨envP, hpro, hinv⟩ := tp_prologue (P := P) (G := G) (X := X) (enc := enc) pts pts.length
  obtain ⟨envL, hloop, hl⟩ := tp_loop_ok (P := P) (G := G) (X := X) ht.h41 pts hn pts.length 0 envP hinv (by omega)
  have h3 := hl.h3
  have lx : pts.length = (pts.map (fun p => enc p.x)).length := by simp
  have ly : pts.length = (pts.map (fun p => enc p.y)).length := by simp
  have lz : pts.length = (pts.map (fun p => enc p.z)).length := by simp
  have ex := fillRow_full (pts.map (fun p => enc p.x))
  have ey := fillRow_full (pts.map (fun p => enc p.y))
  have ez := fillRow_full (pts.map (fun p => enc p.z))
  rw [← lx] at ex
  rw [← ly] at ey
  rw [← lz] at ez
  rw [ex, ey, ez] at h3
  have hres : CTIRRefineComb.encT (Model.Point.transformPrecomputed C pts) =
      rowsV ((pts.map (fun p => enc p.x)).map limbsV) ((pts.map (fun p => enc p.y)).map limbsV)
        ((pts.map (fun p => enc p.z)).map limbsV) := by
    simp only [Model.Point.transformPrecomputed, hraw]
    rfl
  have sr : evalVs G envL [(.var 3)] = some [CTIRRefineComb.encT (Model.Point.transformPrecomputed C pts)] := by
    simp only [evalVs_cons, evalVs_nil, evalV_var, h3, hres]
  refine Computes.of_body ht.h81 rfl rfl (env' := envL) ?_
  rw [fn_81_body]
  exact ((hpro _).1 _ _ _ (EvIn.seq hloop (EvIn.seq_stop (EvIn.ret sr) (by simp)))).mono (by simp only [fuelTP]; omega)

end TP2

/-! ### The facts in the shapes consumed by the schedule theorems of SMGo/Proofs/CTIRRefineComb.lean -/

section Schedules
variable {α : Type} {G : Nat → Val} {X : Oracle}
open SMGo.Model.Curve (pointOps)

theorem selectXY_eq (C : Model.Point.Ctx α) (t : Table) (w b : Nat) :
    (pointOps C).selectXY t w b = Model.Point.multiSelect C (Model.Point.infinity C) t false w b := rfl
theorem selectXYZ_eq (C : Model.Point.Ctx α) (t : Table) (w b : Nat) :
    (pointOps C).selectXYZ t w b = Model.Point.multiSelect C (Model.Point.infinity C) t true w b := rfl
theorem infinity_eq (C : Model.Point.Ctx α) : (pointOps C).infinity = Model.Point.infinity C := rfl
theorem tblOf_eq (C : Model.Point.Ctx α) (Pt : Model.Point.Pt α) :
    CTIRRefineComb.SM.tblOf (pointOps C) Pt = Model.Point.transformPrecomputed C (CTIRRefineComb.SM.preOf (pointOps C) Pt) := rfl
theorem int15 : Val.int ((15 : Nat) : Int) = Val.int 15 := rfl

theorem multiSelect_ok_len {C : Model.Point.Ctx α} {q r : Model.Point.Pt α} {pre : Table} {hasZ : Bool} {width bits : Nat}
    (h : Model.Point.multiSelect C q pre hasZ width bits = .ok r) : (pre.getD 0 []).length = width := by
  rw [multiSelect_eq] at h
  by_cases hlen : (pre.getD 0 []).length = width
  · exact hlen
  · rw [if_pos hlen] at h
    cases h

/-- the table made by TransformPrecomputed is well formed -/
theorem tableOk_transform {C : Model.Point.Ctx α} {enc : α → List Nat} (he : EncOk C.F enc) (pts : List (Model.Point.Pt α))
    (hasZ : Bool) : TableOk (Model.Point.transformPrecomputed C pts) hasZ pts.length := by
  have key : ∀ c : Model.Point.Pt α → α, RowsOk (pts.map (fun p => C.F.raw (c p))) pts.length := by
    intro c j hj
    refine ⟨C.F.raw (c pts[j]), by rw [List.getElem?_map, List.getElem?_eq_getElem hj]; rfl, ?_⟩
    rw [he.raw, (he.out4 _).length]
    omega
  refine ⟨?_, key _, key _, fun _ => key _⟩
  cases hasZ <;> simp [Model.Point.transformPrecomputed]

/-- `hsel` of `ir_scalarBaseMult_eq_model` for the point layer: selectPoints after NewSM2Point.
    `hT`: the tables of the run whose row x has the requested width are well formed and not wider than `W`. -/
theorem pointOps_hsel {C : Model.Point.Ctx α} {enc : α → List Nat} (he : EncOk C.F enc)
    (hG : G 0 = elemV (enc C.F.setOne)) (p : CTIRRefineComb.Params) {W : Nat} (hW : W < 9223372036854775808)
    (hT : ∀ tbl w, CTIRRefineComb.SelUsed p tbl w → (tbl.getD 0 []).length = w → w ≤ W ∧ TableOk tbl false w) :
    ∀ tbl w bits r, CTIRRefineComb.SelUsed p tbl w → bits < 256 → (pointOps C).selectXY tbl w bits = .ok r →
      CTIRRefineComb.Computes prog G X 5 (fuelSelectPoints W)
        [ptV enc (pointOps C).infinity, CTIRRefineComb.encT tbl, .int (w : Int), .int (bits : Int)] [ptV enc r, ptV enc r] := by
  intro tbl w bits r hu hb h
  rw [selectXY_eq] at h
  rw [infinity_eq]
  obtain ⟨hwW, ht⟩ := hT tbl w hu (multiSelect_ok_len h)
  exact computes_comb ((selectPoints_computes prog_hasSel he hG _ tbl w bits hb (by omega) ht r h).mono
    (by simp only [fuelSelectPoints]; have := fuelMSC_mono hwW; omega))

/-- `hselF` of `ir_scalarBaseMult_eq_model` for the point layer (no hypothesis on the tables) -/
theorem pointOps_hselF (C : Model.Point.Ctx α) (enc : α → List Nat) :
    ∀ tbl w bits, (pointOps C).selectXY tbl w bits = .panic →
      CTIRRefineComb.CalleeFails prog G X 5
        [ptV enc (pointOps C).infinity, CTIRRefineComb.encT tbl, .int (w : Int), .int (bits : Int)] := by
  intro tbl w bits h
  rw [selectXY_eq] at h
  exact sp_fails prog_hasSel.h5 (xy_fails prog_hasSel.h6 (msc_fails prog_hasSel C _ _ tbl false 0 w bits h))

/-- `hselE`: the selections of the point layer never return an error -/
theorem pointOps_selectXY_ne_err (C : Model.Point.Ctx α) : ∀ tbl w bits, (pointOps C).selectXY tbl w bits ≠ .err :=
  fun tbl w bits => by rw [selectXY_eq]; exact multiSelect_ne_err C _ tbl false w bits

theorem pointOps_selectXYZ_ne_err (C : Model.Point.Ctx α) : ∀ tbl w bits, (pointOps C).selectXYZ tbl w bits ≠ .err :=
  fun tbl w bits => by rw [selectXYZ_eq]; exact multiSelect_ne_err C _ tbl true w bits

theorem preOf_length {Γ : Type} (Ops : Model.Curve.GOps Γ) (Pt : Γ) : (CTIRRefineComb.SM.preOf Ops Pt).length = 15 := by
  simp [CTIRRefineComb.SM.preOf, CTIRRefineComb.SM.preIter_length]

/-- `htr` of `SM.ir_scalarMult_eq_model` for the point layer -/
theorem pointOps_sm_htr {C : Model.Point.Ctx α} {enc : α → List Nat} (hraw : ∀ e, C.F.raw e = enc e) (Pt : Model.Point.Pt α) :
    CTIRRefineComb.Computes prog G X 81 (fuelTP 15)
      [.arr ((CTIRRefineComb.SM.preOf (pointOps C) Pt).map (ptV enc)), .int 15]
      [CTIRRefineComb.encT (CTIRRefineComb.SM.tblOf (pointOps C) Pt)] := by
  have h := transformPrecomputed_computes (P := prog) (G := G) (X := X) prog_hasTP (C := C) hraw
    (CTIRRefineComb.SM.preOf (pointOps C) Pt) (by rw [preOf_length]; decide)
  rw [preOf_length, int15] at h
  rw [tblOf_eq]
  exact computes_comb h

/-- `hsel` of `SM.ir_scalarMult_eq_model` for the point layer: MultiSelectXYZ after NewSM2Point on the table of the run -/
theorem pointOps_sm_hsel {C : Model.Point.Ctx α} {enc : α → List Nat} (he : EncOk C.F enc)
    (hG : G 0 = elemV (enc C.F.setOne)) (Pt : Model.Point.Pt α) :
    ∀ bits r, bits < 16 → (pointOps C).selectXYZ (CTIRRefineComb.SM.tblOf (pointOps C) Pt) 15 bits = .ok r →
      CTIRRefineComb.Computes prog G X 80 (fuelXY 15)
        [ptV enc (pointOps C).infinity, CTIRRefineComb.encT (CTIRRefineComb.SM.tblOf (pointOps C) Pt), .int 15, .int (bits : Int)]
        [ptV enc r, ptV enc r] := by
  intro bits r hb h
  have ht := tableOk_transform he (CTIRRefineComb.SM.preOf (pointOps C) Pt) true
  rw [preOf_length, ← tblOf_eq] at ht
  rw [selectXYZ_eq] at h
  rw [infinity_eq]
  have h1 := multiSelectXYZ_computes (P := prog) (G := G) (X := X) prog_hasSel he hG _ _ 15 bits (by omega) (by decide) ht r h
  rw [int15] at h1
  exact computes_comb h1

/-- `hselF` of `SM.ir_scalarMult_eq_model` for the point layer -/
theorem pointOps_sm_hselF (C : Model.Point.Ctx α) (enc : α → List Nat) (Pt : Model.Point.Pt α) :
    ∀ bits, (pointOps C).selectXYZ (CTIRRefineComb.SM.tblOf (pointOps C) Pt) 15 bits = .panic →
      CTIRRefineComb.CalleeFails prog G X 80
        [ptV enc (pointOps C).infinity, CTIRRefineComb.encT (CTIRRefineComb.SM.tblOf (pointOps C) Pt), .int 15, .int (bits : Int)] := by
  intro bits h
  rw [selectXYZ_eq] at h
  have h1 := xyz_fails prog_hasSel.h80 (msc_fails (P := prog) (G := G) (X := X) prog_hasSel C
    (ptV enc (pointOps C).infinity) _ _ true 1 15 bits h)
  rw [int15] at h1
  exact h1

/-- the selection hypotheses of `SM.ir_scalarMult_eq_model` are discharged for the point layer: only NewSM2Point,
    Double and Add remain (shape check of the facts above) -/
theorem ir_scalarMult_pointOps {C : Model.Point.Ctx α} {enc : α → List Nat} (he : EncOk C.F enc)
    (hG : G 0 = elemV (enc C.F.setOne)) {Fnew Fdbl Fadd : Nat} (Pt : Model.Point.Pt α) (scalar : Bytes) (hlen : scalar.length < 2 ^ 63)
    (hnew : CTIRRefineComb.Computes prog G X 73 Fnew [] [ptV enc (pointOps C).infinity])
    (hdbl : ∀ q a, CTIRRefineComb.Computes prog G X 79 Fdbl [ptV enc q, ptV enc a]
      [ptV enc ((pointOps C).double a), ptV enc ((pointOps C).double a)])
    (hadd : ∀ q a b, CTIRRefineComb.Computes prog G X 78 Fadd [ptV enc q, ptV enc a, ptV enc b]
      [ptV enc ((pointOps C).add a b), ptV enc ((pointOps C).add a b)]) :
    match Model.Curve.scalarMult (pointOps C) Pt scalar with
    | .ok r => ∀ f, CTIRRefineComb.SM.fuelSM scalar.length Fnew Fdbl Fadd (fuelTP 15) (fuelXY 15) ≤ f →
        runV prog G X f f_internal_ScalarMult [ptV enc Pt, bytesV scalar] = .ret [ptV enc r, .int 0]
    | .panic =>
        (∃ F, ∀ f, F ≤ f → runV prog G X f f_internal_ScalarMult [ptV enc Pt, bytesV scalar] = .panic) ∨
        (∀ f, runV prog G X f f_internal_ScalarMult [ptV enc Pt, bytesV scalar] = .stuck)
    | .err => False := by
  have key := CTIRRefineComb.SM.ir_scalarMult_eq_model (encP := ptV enc) Pt scalar hlen hnew hdbl hadd (pointOps_sm_htr he.raw Pt)
    (pointOps_sm_hsel he hG Pt) (fun bits _ h => pointOps_sm_hselF C enc Pt bits h) (pointOps_selectXYZ_ne_err C)
  cases h : Model.Curve.scalarMult (pointOps C) Pt scalar with
  | ok r => rw [h] at key; exact key
  | err => rw [h] at key; exact key
  | panic => rw [h] at key; exact key

/-- the selection hypotheses of `ir_scalarBaseMult_eq_model` are discharged for the point layer (shape check) -/
theorem ir_scalarBaseMult_pointOps {C : Model.Point.Ctx α} {enc : α → List Nat} (he : EncOk C.F enc)
    (hG : G 0 = elemV (enc C.F.setOne)) {Fnew Fdbl Fadd Fset W : Nat} (k : Bytes) (first : List Table) (second : Table)
    (window subTableCount iterations remainder : Nat)
    (hnew : CTIRRefineComb.Computes prog G X 73 Fnew [] [ptV enc (pointOps C).infinity])
    (hdbl : ∀ q a, CTIRRefineComb.Computes prog G X 79 Fdbl [ptV enc q, ptV enc a]
      [ptV enc ((pointOps C).double a), ptV enc ((pointOps C).double a)])
    (hadd : ∀ q a b, CTIRRefineComb.Computes prog G X 78 Fadd [ptV enc q, ptV enc a, ptV enc b]
      [ptV enc ((pointOps C).add a b), ptV enc ((pointOps C).add a b)])
    (hset : ∀ q a, CTIRRefineComb.Computes prog G X 75 Fset [ptV enc q, ptV enc a] [ptV enc a, ptV enc a])
    (hW : W < 9223372036854775808)
    (hT : ∀ tbl w, CTIRRefineComb.SelUsed ⟨k, first, second, window, subTableCount, iterations, remainder⟩ tbl w →
      (tbl.getD 0 []).length = w → w ≤ W ∧ TableOk tbl false w)
    (hX : ∃ v, X 10 [.int (k.length : Int), .int 32] = [v])
    (hprod : window * subTableCount * iterations + remainder < 2 ^ 63)
    (hlen : subTableCount ≤ first.length) (hsec : 1 ≤ remainder → second ≠ []) :
    match Model.Curve.scalarBaseMult (pointOps C) k first second window subTableCount iterations remainder with
    | .ok r => ∀ f, CTIRRefineComb.fuelComb window subTableCount iterations Fnew Fdbl Fadd Fset (fuelSelectPoints W) ≤ f →
        runV prog G X f f_internal_scalarBaseMult_SkipBitExtration
          [bytesV k, .arr (first.map CTIRRefineComb.encT), CTIRRefineComb.encT second, .int (window : Int), .int (subTableCount : Int),
            .int (iterations : Int), .int (remainder : Int)] = .ret [ptV enc r, .int 0]
    | .err => ∀ f, 20 ≤ f →
        runV prog G X f f_internal_scalarBaseMult_SkipBitExtration
          [bytesV k, .arr (first.map CTIRRefineComb.encT), CTIRRefineComb.encT second, .int (window : Int), .int (subTableCount : Int),
            .int (iterations : Int), .int (remainder : Int)] = .ret [CTIRRefineComb.nilPointV, .int 1]
    | .panic =>
        (∃ F, ∀ f, F ≤ f → runV prog G X f f_internal_scalarBaseMult_SkipBitExtration
          [bytesV k, .arr (first.map CTIRRefineComb.encT), CTIRRefineComb.encT second, .int (window : Int), .int (subTableCount : Int),
            .int (iterations : Int), .int (remainder : Int)] = .panic) ∨
        (∀ f, runV prog G X f f_internal_scalarBaseMult_SkipBitExtration
          [bytesV k, .arr (first.map CTIRRefineComb.encT), CTIRRefineComb.encT second, .int (window : Int), .int (subTableCount : Int),
            .int (iterations : Int), .int (remainder : Int)] = .stuck) := by
  have key := CTIRRefineComb.ir_scalarBaseMult_eq_model (encP := ptV enc) k first second window subTableCount iterations remainder
    hnew hdbl hadd hset (pointOps_hsel he hG _ hW hT) (fun tbl w bits _ _ h => pointOps_hselF C enc tbl w bits h)
    (pointOps_selectXY_ne_err C) hX hprod hlen hsec
  cases h : Model.Curve.scalarBaseMult (pointOps C) k first second window subTableCount iterations remainder with
  | ok r => rw [h] at key; exact key
  | err => rw [h] at key; exact key
  | panic => rw [h] at key; exact key

end Schedules


/-! ## 2. The Fermat inversion: sm2FermatInvert_FiatAC (27) and (*SM2Element).Invert (26)

  The generated IR function and the generated addition chain `SMGo.Gen.AddChain.fieldInverse` are two
  translations of the same Go file.  Both are images of one list of `Item`s (`chainItems`): a squaring, a
  multiplication, or a counted loop of squarings `for s := lo; s < hi; s++ { t.Square(t) }`.
  `items_ok` is the generic correspondence; `fn_27_body`, `fieldInverse_items` tie it to the two artefacts. -/

open SMGo.Model.AddChain (Op)

/-- register of the chain ↦ variable of `fn_27` (0 = x, 1 = z, 2.. = t0, t1, t2) -/
def vr : Nat → Nat
  | 0 => 1
  | 1 => 0
  | 2 => 3
  | 3 => 4
  | _ => 5

inductive Item where
  | sq (d s : Nat)
  | mul (d a b : Nat)
  | loop (c lo hi d : Nat)

def sqStmt (d s : Nat) : Stmt := .call [vr d] 25 [(.var (vr d)), (.var (vr s))]
def mulStmt (d a b : Nat) : Stmt := .call [vr d] 23 [(.var (vr d)), (.var (vr a)), (.var (vr b))]
def loopCond (c hi : Nat) : Expr := .op2 .lt (.var c) (.lit (hi : Int))
def loopPost (c : Nat) : Stmt := .assign c [] (.op2 (.add .i64) (.var c) (.lit 1))
def sqLoop (c hi d : Nat) : Stmt := .loop (loopCond c hi) (sqStmt d d) (loopPost c)

def Item.stmts : Item → List Stmt
  | .sq d s => [sqStmt d s]
  | .mul d a b => [mulStmt d a b]
  | .loop c lo hi d => [.assign c [] (.lit (lo : Int)), sqLoop c hi d]

def Item.ops : Item → List Op
  | .sq d s => [.sq d s]
  | .mul d a b => [.mul d a b]
  | .loop _ lo hi d => List.replicate (hi - lo) (.sq d d)

/-- sm2FermatInvert_FiatAC as a list of items -/
def chainItems : List Item :=
  [.sq 1 0, .mul 2 0 1, .sq 1 2, .mul 1 0 1, .sq 3 1, .loop 6 1 3 3, .mul 3 1 3, .sq 4 3, .mul 1 0 4,
   .loop 7 0 5 4, .mul 3 3 4, .sq 4 3, .loop 8 1 12 4, .mul 3 3 4, .loop 9 0 7 3, .mul 1 1 3, .sq 4 1,
   .loop 10 1 2 4, .sq 3 4, .loop 11 1 29 3, .mul 1 1 3, .loop 12 0 2 3, .mul 4 4 3, .mul 2 2 4,
   .loop 13 0 32 3, .mul 3 2 3, .loop 14 0 64 3, .mul 2 2 3, .loop 15 0 94 2, .mul 1 1 2, .loop 16 0 2 1,
   .mul 1 0 1]

def invPro : List Stmt := [.assign 3 [] (.mk (.lit 4) (.lit 0)), .assign 4 [] (.mk (.lit 4) (.lit 0)),
    .assign 5 [] (.mk (.lit 4) (.lit 0))]

/-- the IR function is the image of `chainItems` -/
theorem fn_27_body : fn_27.body = seqs ((invPro ++ chainItems.flatMap Item.stmts) ++ [.ret [(.var 0)]]) := rfl

set_option maxRecDepth 100000 in
/-- the generated addition chain is the image of `chainItems` -/
theorem fieldInverse_items : SMGo.Gen.AddChain.fieldInverse = chainItems.flatMap Item.ops := by decide

/-- the registers that are certainly written (`D` = the defined registers): every source is defined, loop
    counters are fresh variables, bounds are ordered and fit a Go `int` -/
def chk : List Nat → List Item → Bool
  | _, [] => true
  | D, .sq d s :: r => decide (d < 5) && decide (s < 5) && decide (s ∈ D) && chk (d :: D) r
  | D, .mul d a b :: r =>
    decide (d < 5) && decide (a < 5) && decide (b < 5) && decide (a ∈ D) && decide (b ∈ D) && chk (d :: D) r
  | D, .loop c lo hi d :: r =>
    decide (6 ≤ c) && decide (lo ≤ hi) && decide (hi < 9223372036854775808) && decide (d < 5) && decide (d ∈ D) && chk D r

def defd : List Nat → List Item → List Nat
  | D, [] => D
  | D, .sq d _ :: r => defd (d :: D) r
  | D, .mul d _ _ :: r => defd (d :: D) r
  | D, .loop _ _ _ _ :: r => defd D r

theorem chainItems_chk : chk [0] chainItems = true := by decide
theorem chainItems_defd : 1 ∈ defd [0] chainItems := by decide

def itemFuel (Fsq Fmul : Nat) : Item → Nat
  | .sq _ _ => Fsq + 2
  | .mul _ _ _ => Fmul + 2
  | .loop _ lo hi _ => (Fsq + 3) * (hi - lo) + 4

def fuelItems (Fsq Fmul : Nat) : List Item → Nat
  | [] => 0
  | it :: r => fuelItems Fsq Fmul r + itemFuel Fsq Fmul it

theorem out4_zeros : Out4 [0, 0, 0, 0] := ⟨0, 0, 0, 0, rfl, by decide, by decide, by decide, by decide⟩

section Chain
variable {α : Type} {P : Prog} {G : Nat → Val} {X : Oracle}

/-- one operation of the chain on the register file -/
def opStep (F : Model.Field.FieldOps α) (r : List α) (op : Op) : List α :=
  match op with
  | .sq d s => r.set d (F.square (r.getD s F.zero))
  | .mul d a b => r.set d (F.mul (r.getD a F.zero) (r.getD b F.zero))

theorem opStep_length (F : Model.Field.FieldOps α) (r : List α) (op : Op) : (opStep F r op).length = r.length := by
  cases op <;> simp [opStep]

theorem foldl_opStep_length (F : Model.Field.FieldOps α) (ops : List Op) : ∀ r : List α,
    (ops.foldl (opStep F) r).length = r.length := by
  induction ops with
  | nil => intro r; rfl
  | cons op ops ih => intro r; rw [List.foldl_cons, ih, opStep_length]

theorem invert_eq (F : Model.Field.FieldOps α) (x : α) (hc : F.chain = SMGo.Gen.AddChain.fieldInverse)
    (hr : F.chainRegs = SMGo.Gen.AddChain.fieldInverse_regs) :
    Model.Field.invert F x =
      ((chainItems.flatMap Item.ops).foldl (opStep F) [x, F.zero, F.zero, F.zero, F.zero]).getD 1 F.zero := by
  unfold Model.Field.invert SMGo.Model.AddChain.run
  rw [hc, hr, fieldInverse_items]
  rfl

theorem vr_inj : ∀ i, i < 5 → ∀ d, d < 5 → vr i = vr d → i = d := by decide
theorem vr_le : ∀ i, vr i ≤ 5 := by
  intro i
  unfold vr
  split <;> omega

/-- the variables of the defined registers hold the encodings of the model's registers; all five variables
    hold arrays of four limbs below 2^64 (what the Fiat primitives demand of their destination) -/
structure RegInv (enc : α → List Nat) (zero : α) (env : Env) (regs : List α) (D : List Nat) : Prop where
  val : ∀ i, i < 5 → i ∈ D → env (vr i) = limbsV (enc (regs.getD i zero))
  arr : ∀ i, i < 5 → ∃ o, env (vr i) = limbsV o ∧ Out4 o

theorem RegInv.mono {enc : α → List Nat} {zero : α} {env : Env} {regs : List α} {D D' : List Nat}
    (h : RegInv enc zero env regs D) (hD : ∀ i, i ∈ D' → i ∈ D) : RegInv enc zero env regs D' :=
  ⟨fun i hi hm => h.val i hi (hD i hm), h.arr⟩

theorem RegInv.frame {enc : α → List Nat} {zero : α} {env : Env} {regs : List α} {D : List Nat}
    (h : RegInv enc zero env regs D) (c : Nat) (v : Val) (hc : 6 ≤ c) : RegInv enc zero (env.set c v) regs D := by
  have hne : ∀ i, vr i ≠ c := fun i => by have := vr_le i; omega
  refine ⟨fun i hi hm => ?_, fun i hi => ?_⟩
  · rw [Env.set_other _ _ (hne i)]; exact h.val i hi hm
  · rw [Env.set_other _ _ (hne i)]; exact h.arr i hi

theorem RegInv.write {enc : α → List Nat} {zero : α} {env : Env} {regs : List α} {D : List Nat}
    (h : RegInv enc zero env regs D) (hlen : regs.length = 5) (d : Nat) (hd : d < 5) (v : α) (hv : Out4 (enc v)) :
    RegInv enc zero (env.set (vr d) (limbsV (enc v))) (regs.set d v) (d :: D) := by
  refine ⟨fun i hi hm => ?_, fun i hi => ?_⟩
  · by_cases hid : i = d
    · subst hid
      rw [Env.set_same, List.getD_eq_getElem?_getD, List.getElem?_set_self (by omega)]
      rfl
    · have hv : vr i ≠ vr d := fun e => hid (vr_inj i hi d hd e)
      rw [Env.set_other _ _ hv, List.getD_eq_getElem?_getD, List.getElem?_set_ne (Ne.symm hid), ← List.getD_eq_getElem?_getD]
      exact h.val i hi (by
        rcases List.mem_cons.mp hm with e | e
        · exact absurd e hid
        · exact e)
  · by_cases hid : i = d
    · subst hid
      exact ⟨_, Env.set_same _ _ _, hv⟩
    · have hv : vr i ≠ vr d := fun e => hid (vr_inj i hi d hd e)
      rw [Env.set_other _ _ hv]
      exact h.arr i hi

variable {F : Model.Field.FieldOps α} {enc : α → List Nat} {Fsq Fmul : Nat}

/-- `z.Square(x)` -/
theorem step_sq (henc : ∀ e, Out4 (enc e)) (hsq : ∀ o a, Out4 o → Computes P G X f_fiat_sm2Square Fsq [limbsV o, limbsV (enc a)] [limbsV (enc (F.square a))])
    {env : Env} {regs : List α} {D : List Nat} {d s : Nat} (h : RegInv enc F.zero env regs D) (hlen : regs.length = 5)
    (hd : d < 5) (hs : s < 5) (hD : s ∈ D) :
    EvIn P G X (Fsq + 1) env (sqStmt d s) (env.set (vr d) (limbsV (enc (F.square (regs.getD s F.zero))))) .norm ∧
      RegInv enc F.zero (env.set (vr d) (limbsV (enc (F.square (regs.getD s F.zero))))) (opStep F regs (.sq d s)) (d :: D) := by
  obtain ⟨o, ho, ho4⟩ := h.arr d hd
  refine ⟨(hsq o (regs.getD s F.zero) ho4).call ?_ rfl, h.write hlen d hd _ (henc _)⟩
  simp only [evalVs_cons, evalVs_nil, evalV_var, ho, h.val s hs hD]

/-- `z.Mul(x, y)` -/
theorem step_mul (henc : ∀ e, Out4 (enc e)) (hmul : ∀ o a b, Out4 o → Computes P G X f_fiat_sm2Mul Fmul [limbsV o, limbsV (enc a), limbsV (enc b)] [limbsV (enc (F.mul a b))])
    {env : Env} {regs : List α} {D : List Nat} {d a b : Nat} (h : RegInv enc F.zero env regs D) (hlen : regs.length = 5)
    (hd : d < 5) (ha : a < 5) (hb : b < 5) (hDa : a ∈ D) (hDb : b ∈ D) :
    EvIn P G X (Fmul + 1) env (mulStmt d a b)
        (env.set (vr d) (limbsV (enc (F.mul (regs.getD a F.zero) (regs.getD b F.zero))))) .norm ∧
      RegInv enc F.zero (env.set (vr d) (limbsV (enc (F.mul (regs.getD a F.zero) (regs.getD b F.zero)))))
        (opStep F regs (.mul d a b)) (d :: D) := by
  obtain ⟨o, ho, ho4⟩ := h.arr d hd
  refine ⟨(hmul o (regs.getD a F.zero) (regs.getD b F.zero) ho4).call ?_ rfl, h.write hlen d hd _ (henc _)⟩
  simp only [evalVs_cons, evalVs_nil, evalV_var, ho, h.val a ha hDa, h.val b hb hDb]

theorem loop_cond_val {env : Env} {c hi i : Nat} (hc : env c = .int (i : Int)) :
    evalV G env (loopCond c hi) = some (.int (if i < hi then 1 else 0)) := by
  by_cases h : i < hi
  · have : (i : Int) < (hi : Int) := by omega
    simp [loopCond, evalV_op2, evalV_var, hc, evalOp2, ofBool, this, h]
  · have : ¬ (i : Int) < (hi : Int) := by omega
    simp [loopCond, evalV_op2, evalV_var, hc, evalOp2, ofBool, this, h]

/-- a loop of `n` squarings of register `d` = `n` operations `.sq d d` -/
theorem sq_loop (henc : ∀ e, Out4 (enc e)) (hsq : ∀ o a, Out4 o → Computes P G X f_fiat_sm2Square Fsq [limbsV o, limbsV (enc a)] [limbsV (enc (F.square a))])
    {D : List Nat} {c hi d : Nat} (hc : 6 ≤ c) (hd : d < 5) (hhi : hi < 9223372036854775808) (hD : d ∈ D) :
    ∀ (n i : Nat) (env : Env) (regs : List α), RegInv enc F.zero env regs D → regs.length = 5 →
      env c = .int (i : Int) → i + n = hi →
      ∃ env', EvIn P G X ((Fsq + 3) * n + 1) env (sqLoop c hi d) env' .norm ∧
        RegInv enc F.zero env' ((List.replicate n (Op.sq d d)).foldl (opStep F) regs) D := by
  intro n
  induction n with
  | zero =>
    intro i env regs h hlen hci hin
    have hcv := loop_cond_val (G := G) (hi := hi) hci
    rw [if_neg (by omega)] at hcv
    exact ⟨env, EvIn.loop_exit hcv rfl, h⟩
  | succ n ih =>
    intro i env regs h hlen hci hin
    have hcv := loop_cond_val (G := G) (hi := hi) hci
    rw [if_pos (by omega)] at hcv
    obtain ⟨hbody, h1⟩ := step_sq (P := P) (G := G) (X := X) henc hsq h hlen hd hd hD
    have hne : c ≠ vr d := by have := vr_le d; omega
    have s : evalV G (env.set (vr d) (limbsV (enc (F.square (regs.getD d F.zero))))) (.op2 (.add .i64) (.var c) (.lit 1))
        = some (.int ((i + 1 : Nat) : Int)) := by
      simp only [evalV_op2, evalV_var, evalV_lit, Env.set_other _ _ hne, hci, evalOp2, Option.map_some]
      rw [norm_i64_small (by omega) (by omega)]
      rfl
    have hpost := EvIn.assign (P := P) (X := X) (x := c) s
    have h2 := ((h1.mono (D' := D) (fun j hj => List.mem_cons_of_mem _ hj)).frame c (.int ((i + 1 : Nat) : Int)) hc)
    obtain ⟨env', hl, h'⟩ := ih (i + 1) _ _ h2 (by rw [opStep_length]; exact hlen) (Env.set_same _ _ _) (by omega)
    refine ⟨env', ?_, ?_⟩
    · exact (EvIn.loop_round hcv rfl hbody (Or.inl rfl) hpost hl).mono (by rw [Nat.mul_add]; omega)
    · rw [List.replicate_succ, List.foldl_cons]; exact h'

/-- **the correspondence**: running the statements of a checked list of items maintains `RegInv` against the fold
    of the model's operations -/
theorem items_ok (henc : ∀ e, Out4 (enc e)) (hsq : ∀ o a, Out4 o → Computes P G X f_fiat_sm2Square Fsq [limbsV o, limbsV (enc a)] [limbsV (enc (F.square a))])
    (hmul : ∀ o a b, Out4 o → Computes P G X f_fiat_sm2Mul Fmul [limbsV o, limbsV (enc a), limbsV (enc b)] [limbsV (enc (F.mul a b))]) :
    ∀ (items : List Item) (env : Env) (regs : List α) (D : List Nat),
      RegInv enc F.zero env regs D → regs.length = 5 → chk D items = true →
      ∃ env', Pre P G X (fuelItems Fsq Fmul items) env (items.flatMap Item.stmts) env' ∧
        RegInv enc F.zero env' ((items.flatMap Item.ops).foldl (opStep F) regs) (defd D items) := by
  intro items
  induction items with
  | nil => intro env regs D h _ _; exact ⟨env, Pre.nil env, h⟩
  | cons it items ih =>
    intro env regs D h hlen hchk
    rw [List.flatMap_cons, List.flatMap_cons, List.foldl_append]
    cases it with
    | sq d s =>
      simp only [chk, Bool.and_eq_true, decide_eq_true_eq] at hchk
      obtain ⟨⟨⟨hd, hs⟩, hD⟩, hrest⟩ := hchk
      obtain ⟨c1, h1⟩ := step_sq (P := P) (G := G) (X := X) henc hsq h hlen hd hs hD
      obtain ⟨env', p', h'⟩ := ih _ _ _ h1 (by rw [opStep_length]; exact hlen) hrest
      exact ⟨env', (Pre.append (Pre.cons c1 (Pre.nil _)) p').mono (by simp only [fuelItems, itemFuel]; omega), h'⟩
    | mul d a b =>
      simp only [chk, Bool.and_eq_true, decide_eq_true_eq] at hchk
      obtain ⟨⟨⟨⟨⟨hd, ha⟩, hb⟩, hDa⟩, hDb⟩, hrest⟩ := hchk
      obtain ⟨c1, h1⟩ := step_mul (P := P) (G := G) (X := X) henc hmul h hlen hd ha hb hDa hDb
      obtain ⟨env', p', h'⟩ := ih _ _ _ h1 (by rw [opStep_length]; exact hlen) hrest
      exact ⟨env', (Pre.append (Pre.cons c1 (Pre.nil _)) p').mono (by simp only [fuelItems, itemFuel]; omega), h'⟩
    | loop c lo hi d =>
      simp only [chk, Bool.and_eq_true, decide_eq_true_eq] at hchk
      obtain ⟨⟨⟨⟨⟨hc, hlo⟩, hhi⟩, hd⟩, hD⟩, hrest⟩ := hchk
      have c0 : EvIn P G X 1 env (.assign c [] (.lit (lo : Int))) (env.set c (.int (lo : Int))) .norm := EvIn.assign rfl
      obtain ⟨env1, hl, h1⟩ := sq_loop (P := P) (G := G) (X := X) henc hsq hc hd hhi hD (hi - lo) lo _ regs
        (h.frame c (.int (lo : Int)) hc) hlen (Env.set_same _ _ _) (by omega)
      obtain ⟨env', p', h'⟩ := ih _ _ _ h1 (by rw [foldl_opStep_length]; exact hlen) hrest
      exact ⟨env', (Pre.append (Pre.cons c0 (Pre.cons hl (Pre.nil _))) p').mono (by simp only [fuelItems, itemFuel]; omega), h'⟩

/-- the program contains the generated inversion functions -/
structure HasInv (P : Prog) : Prop where
  h26 : P[26]? = some fn_26
  h27 : P[27]? = some fn_27

theorem prog_hasInv : HasInv prog := ⟨rfl, rfl⟩

/-- fuel for sm2FermatInvert_FiatAC given the fuels of sm2Square and sm2Mul -/
def fuelChain (Fsq Fmul : Nat) : Nat := fuelItems Fsq Fmul chainItems + 16

/-- **sm2FermatInvert_FiatAC = `Model.Field.invert`**, for any old contents `z0` (four limbs below 2^64) of the
    destination.  `hsq`, `hmul`: the Fiat primitives sm2Square (25) and sm2Mul (23) compute `F.square`, `F.mul` on
    encodings, into any destination of four limbs below 2^64; `henc`: encodings are four limbs below 2^64;
    `hchain`, `hregs`: the chain of `F` is the generated `fieldInverse`. -/
theorem fermatInvert_computes (hi : HasInv P)
    (henc : ∀ e, Out4 (enc e))
    (hsq : ∀ o a, Out4 o → Computes P G X f_fiat_sm2Square Fsq [limbsV o, limbsV (enc a)] [limbsV (enc (F.square a))])
    (hmul : ∀ o a b, Out4 o → Computes P G X f_fiat_sm2Mul Fmul [limbsV o, limbsV (enc a), limbsV (enc b)] [limbsV (enc (F.mul a b))])
    (hchain : F.chain = SMGo.Gen.AddChain.fieldInverse) (hregs : F.chainRegs = SMGo.Gen.AddChain.fieldInverse_regs)
    (z0 : List Nat) (hz0 : Out4 z0) (x : α) :
    Computes P G X f_fiat_sm2FermatInvert_FiatAC (fuelChain Fsq Fmul) [limbsV z0, limbsV (enc x)]
      [limbsV (enc (Model.Field.invert F x))] := by
  let e0 : Env := Env.ofList [limbsV z0, limbsV (enc x)]
  let e1 := e0.set 3 (limbsV [0, 0, 0, 0])
  let e2 := e1.set 4 (limbsV [0, 0, 0, 0])
  let e3 := e2.set 5 (limbsV [0, 0, 0, 0])
  have hpro : Pre P G X 6 e0 invPro e3 :=
    Pre.cons (EvIn.assign (evalV_mk4 _)) (Pre.cons (EvIn.assign (evalV_mk4 _)) (Pre.cons (EvIn.assign (evalV_mk4 _)) (Pre.nil _)))
  have h0 : RegInv enc F.zero e3 [x, F.zero, F.zero, F.zero, F.zero] [0] := by
    refine ⟨fun i hi hm => ?_, fun i hi => ?_⟩
    · have : i = 0 := by simpa using hm
      subst this
      rfl
    · have : i = 0 ∨ i = 1 ∨ i = 2 ∨ i = 3 ∨ i = 4 := by omega
      rcases this with rfl | rfl | rfl | rfl | rfl
      · exact ⟨enc x, rfl, henc x⟩
      · exact ⟨z0, rfl, hz0⟩
      · exact ⟨[0, 0, 0, 0], rfl, out4_zeros⟩
      · exact ⟨[0, 0, 0, 0], rfl, out4_zeros⟩
      · exact ⟨[0, 0, 0, 0], rfl, out4_zeros⟩
  obtain ⟨env', p', h'⟩ := items_ok (P := P) (G := G) (X := X) henc hsq hmul chainItems e3 _ [0] h0 rfl chainItems_chk
  have hz := h'.val 1 (by decide) chainItems_defd
  rw [← invert_eq F x hchain hregs] at hz
  have sr : evalVs G env' [(.var 0)] = some [limbsV (enc (Model.Field.invert F x))] := by
    simp only [evalVs_cons, evalVs_nil, evalV_var]
    rw [← hz]
    rfl
  refine Computes.of_body hi.h27 rfl rfl (env' := env') ?_
  rw [fn_27_body]
  exact ((Pre.append hpro p' _).1 _ _ _ (EvIn.ret sr)).mono (by simp only [fuelChain]; omega)

end Chain

/-- the fuel in closed form: 255 squarings, 14 multiplications -/
theorem fuelChain_eq (Fsq Fmul : Nat) : fuelChain Fsq Fmul = 255 * Fsq + 14 * Fmul + 846 := by
  simp only [fuelChain, chainItems, fuelItems, itemFuel]
  omega

theorem fn_26_body : fn_26.body = seqs ([.call [3] 27 [(.idxc (.var 0) 0), (.idxc (.var 1) 0)], .assign 0 [.c 0] (.var 3)]
    ++ [.seq (.ret [(.var 0), (.var 0)]) .panic]) := rfl

section InvertWrapper
variable {α : Type} {P : Prog} {G : Nat → Val} {X : Oracle} {F : Model.Field.FieldOps α} {enc : α → List Nat} {Fsq Fmul : Nat}

/-- fuel for (*SM2Element).Invert -/
def fuelInvert (Fsq Fmul : Nat) : Nat := fuelChain Fsq Fmul + 8

/-- **(*SM2Element).Invert = `Model.Field.invert`** (receiver with any old limbs `z0`, four limbs below 2^64) -/
theorem invert_computes (hi : HasInv P)
    (henc : ∀ e, Out4 (enc e))
    (hsq : ∀ o a, Out4 o → Computes P G X f_fiat_sm2Square Fsq [limbsV o, limbsV (enc a)] [limbsV (enc (F.square a))])
    (hmul : ∀ o a b, Out4 o → Computes P G X f_fiat_sm2Mul Fmul [limbsV o, limbsV (enc a), limbsV (enc b)] [limbsV (enc (F.mul a b))])
    (hchain : F.chain = SMGo.Gen.AddChain.fieldInverse) (hregs : F.chainRegs = SMGo.Gen.AddChain.fieldInverse_regs)
    (z0 : List Nat) (hz0 : Out4 z0) (x : α) :
    Computes P G X f_fiat_SM2Element_Invert (fuelInvert Fsq Fmul) [elemV z0, elemV (enc x)]
      [elemV (enc (Model.Field.invert F x)), elemV (enc (Model.Field.invert F x))] := by
  let r := enc (Model.Field.invert F x)
  let e0 : Env := Env.ofList [elemV z0, elemV (enc x)]
  let e1 := e0.set 3 (limbsV r)
  let e2 := e1.set 0 (elemV r)
  have c1 : EvIn P G X (fuelChain Fsq Fmul + 1) e0 (.call [3] 27 [(.idxc (.var 0) 0), (.idxc (.var 1) 0)]) e1 .norm := by
    refine (fermatInvert_computes hi henc hsq hmul hchain hregs z0 hz0 x).call ?_ rfl
    have q0 : evalV G e0 (.idxc (.var 0) 0) = some (limbsV z0) := evalV_field0 rfl
    have q1 : evalV G e0 (.idxc (.var 1) 0) = some (limbsV (enc x)) := evalV_field0 rfl
    simp only [evalVs_cons, evalVs_nil, q0, q1]
  have c2 : EvIn P G X 1 e1 (.assign 0 [.c 0] (.var 3)) e2 .norm := by
    have s : evalV G e1 (.var 3) = some (limbsV r) := by simp [e1, Env.set]
    have g0 : e1 0 = .arr [limbsV z0] := by simp [e1, e0, Env.set, Env.ofList, elemV]
    exact EvIn.assignPath s (ks := [0]) (by simp [pathV_c]) (by rw [g0, updPath_c1 _ _ _ (by simp)]; rfl)
  have sr : evalVs G e2 [(.var 0), (.var 0)] = some [elemV r, elemV r] := by simp [evalVs_cons, e2, Env.set]
  refine Computes.of_body hi.h26 rfl rfl (env' := e2) ?_
  rw [fn_26_body]
  exact ((Pre.cons c1 (Pre.cons c2 (Pre.nil _)) _).1 _ _ _ (EvIn.seq_stop (EvIn.ret sr) (by simp))).mono
    (by simp only [fuelInvert]; omega)

end InvertWrapper

section InvertRun
variable {α : Type} {G : Nat → Val} {X : Oracle} {F : Model.Field.FieldOps α} {enc : α → List Nat} {Fsq Fmul : Nat}

/-- **sm2FermatInvert_FiatAC**, as a run of the generated program -/
theorem ir_fermatInvert
    (henc : ∀ e, Out4 (enc e))
    (hsq : ∀ o a, Out4 o → Computes prog G X f_fiat_sm2Square Fsq [limbsV o, limbsV (enc a)] [limbsV (enc (F.square a))])
    (hmul : ∀ o a b, Out4 o → Computes prog G X f_fiat_sm2Mul Fmul [limbsV o, limbsV (enc a), limbsV (enc b)] [limbsV (enc (F.mul a b))])
    (hchain : F.chain = SMGo.Gen.AddChain.fieldInverse) (hregs : F.chainRegs = SMGo.Gen.AddChain.fieldInverse_regs)
    (z0 : List Nat) (hz0 : Out4 z0) (x : α) :
    ∀ f, fuelChain Fsq Fmul ≤ f →
      runV prog G X f f_fiat_sm2FermatInvert_FiatAC [limbsV z0, limbsV (enc x)] = .ret [limbsV (enc (Model.Field.invert F x))] :=
  (fermatInvert_computes prog_hasInv henc hsq hmul hchain hregs z0 hz0 x).runV

/-- **(*SM2Element).Invert**, as a run of the generated program -/
theorem ir_Invert
    (henc : ∀ e, Out4 (enc e))
    (hsq : ∀ o a, Out4 o → Computes prog G X f_fiat_sm2Square Fsq [limbsV o, limbsV (enc a)] [limbsV (enc (F.square a))])
    (hmul : ∀ o a b, Out4 o → Computes prog G X f_fiat_sm2Mul Fmul [limbsV o, limbsV (enc a), limbsV (enc b)] [limbsV (enc (F.mul a b))])
    (hchain : F.chain = SMGo.Gen.AddChain.fieldInverse) (hregs : F.chainRegs = SMGo.Gen.AddChain.fieldInverse_regs)
    (z0 : List Nat) (hz0 : Out4 z0) (x : α) :
    ∀ f, fuelInvert Fsq Fmul ≤ f →
      runV prog G X f f_fiat_SM2Element_Invert [elemV z0, elemV (enc x)]
        = .ret [elemV (enc (Model.Field.invert F x)), elemV (enc (Model.Field.invert F x))] :=
  (invert_computes prog_hasInv henc hsq hmul hchain hregs z0 hz0 x).runV

end InvertRun


/-! ## 3. Affine conversion: (*SM2Element).Mul (22), ToBigInt (42), (*SM2Point).GetAffineX (89), (*SM2Point).Bytes (91, 93) -/

theorem fn_22_body : fn_22.body = seqs ([.call [4] 23 [(.idxc (.var 0) 0), (.idxc (.var 1) 0), (.idxc (.var 2) 0)],
    .assign 0 [.c 0] (.var 4)] ++ [.seq (.ret [(.var 0), (.var 0)]) .panic]) := rfl

theorem fn_42_body : fn_42.body = seqs ([.call [2] 28 [(.var 0)], .assign 3 [] (.var 2), .ext [4] 7 false [(.var 3)]]
    ++ [.seq (.ret [(.var 4)]) .panic]) := rfl

def gaxIsZero : Stmt := .call [2] 38 [(.idxc (.var 0) 2)]
def gaxDecl : Stmt := .declass 3 5 (.op2 .eq (.var 2) (.lit 1))
def gaxIte : Stmt := .ite (.var 3) (.ret [(.lit 0)]) .skip
def newElemE : Expr := .mk (.lit 1) (.mk (.lit 4) (.lit 0))
def gaxTail : List Stmt := [.call [1, 4] 26 [newElemE, (.idxc (.var 0) 2)],
    .assign 5 [] (.var 4),
    .call [1, 6] 22 [newElemE, (.idxc (.var 0) 0), (.var 5)],
    .assign 7 [] (.var 6),
    .call [8] 42 [(.var 7)]]
def gaxRet : Stmt := .seq (.ret [(.var 8)]) .panic

theorem fn_89_body_a : fn_89.body = seqs ([gaxIsZero, gaxDecl] ++ [.seq gaxIte (seqs (gaxTail ++ [gaxRet]))]) := rfl
theorem fn_89_body_b : fn_89.body = seqs (([gaxIsZero, gaxDecl, gaxIte] ++ gaxTail) ++ [gaxRet]) := rfl

/-- the external `big.Int.SetBytes` of the standard oracle is `Bytes.toNatBE` -/
theorem natOfBytes_bytesV (b : Bytes) : natOfBytes (b.map (fun x => Val.int (Int.ofNat x.toNat))) = Bytes.toNatBE b := by
  have : ∀ (l : Bytes) (acc : Nat),
      (l.map (fun x => Val.int (Int.ofNat x.toNat))).foldl (fun n v => match v with | .int b => n * 256 + b.toNat | .arr _ => n) acc
        = l.foldl (fun acc b => acc * 256 + b.toNat) acc := by
    intro l
    induction l with
    | nil => intro acc; rfl
    | cons x l ih => intro acc; simp only [List.map_cons, List.foldl_cons, ih]; rfl
  exact this b 0

theorem stdOracle_setBytes (tape : Nat → Nat → Nat) (b : Bytes) :
    stdOracle extKinds tape 7 [bytesV b] = [.int ((Bytes.toNatBE b : Nat) : Int)] := by
  have : stdOracle extKinds tape 7 [bytesV b] = [.int (Int.ofNat (natOfBytes (argBytes [bytesV b] 0)))] := rfl
  rw [this]
  have e : argBytes [bytesV b] 0 = b.map (fun x => Val.int (Int.ofNat x.toNat)) := rfl
  rw [e, natOfBytes_bytesV]
  rfl

/-- the program contains the functions of the affine conversions -/
structure HasAffine (P : Prog) : Prop where
  h22 : P[22]? = some fn_22
  h42 : P[42]? = some fn_42
  h89 : P[89]? = some fn_89
  h91 : P[91]? = some fn_91
  h93 : P[93]? = some fn_93

theorem prog_hasAffine : HasAffine prog := ⟨rfl, rfl, rfl, rfl, rfl⟩

section Affine
variable {α : Type} {P : Prog} {G : Nat → Val} {X : Oracle} {F : Model.Field.FieldOps α} {enc : α → List Nat}
  {Fsq Fmul Fm Ft : Nat}

theorem evalV_newElem (env : Env) : evalV G env newElemE = some (elemV [0, 0, 0, 0]) := by
  rw [newElemE, evalV_mk, evalV_mk]; rfl

/-- **(*SM2Element).Mul** on encodings (receiver with any old limbs `o`, four limbs below 2^64) -/
theorem mul_computes (ha : HasAffine P)
    (hmul : ∀ o a b, Out4 o → Computes P G X f_fiat_sm2Mul Fmul [limbsV o, limbsV (enc a), limbsV (enc b)] [limbsV (enc (F.mul a b))])
    (o : List Nat) (ho : Out4 o) (a b : α) :
    Computes P G X f_fiat_SM2Element_Mul (Fmul + 8) [elemV o, elemV (enc a), elemV (enc b)]
      [elemV (enc (F.mul a b)), elemV (enc (F.mul a b))] := by
  let r := enc (F.mul a b)
  let e0 : Env := Env.ofList [elemV o, elemV (enc a), elemV (enc b)]
  let e1 := e0.set 4 (limbsV r)
  let e2 := e1.set 0 (elemV r)
  have c1 : EvIn P G X (Fmul + 1) e0 (.call [4] 23 [(.idxc (.var 0) 0), (.idxc (.var 1) 0), (.idxc (.var 2) 0)]) e1 .norm := by
    refine (hmul o a b ho).call ?_ rfl
    have q0 : evalV G e0 (.idxc (.var 0) 0) = some (limbsV o) := evalV_field0 rfl
    have q1 : evalV G e0 (.idxc (.var 1) 0) = some (limbsV (enc a)) := evalV_field0 rfl
    have q2 : evalV G e0 (.idxc (.var 2) 0) = some (limbsV (enc b)) := evalV_field0 rfl
    simp only [evalVs_cons, evalVs_nil, q0, q1, q2]
  have c2 : EvIn P G X 1 e1 (.assign 0 [.c 0] (.var 4)) e2 .norm := by
    have s : evalV G e1 (.var 4) = some (limbsV r) := by simp [e1, Env.set]
    have g0 : e1 0 = .arr [limbsV o] := by simp [e1, e0, Env.set, Env.ofList, elemV]
    exact EvIn.assignPath s (ks := [0]) (by simp [pathV_c]) (by rw [g0, updPath_c1 _ _ _ (by simp)]; rfl)
  have sr : evalVs G e2 [(.var 0), (.var 0)] = some [elemV r, elemV r] := by simp [evalVs_cons, e2, Env.set]
  refine Computes.of_body ha.h22 rfl rfl (env' := e2) ?_
  rw [fn_22_body]
  exact ((Pre.cons c1 (Pre.cons c2 (Pre.nil _)) _).1 _ _ _ (EvIn.seq_stop (EvIn.ret sr) (by simp))).mono (by omega)

/-- fuel for ToBigInt -/
def fuelToBigInt (Fm Ft : Nat) : Nat := fuelBytes32 Fm Ft + 12

/-- **(*SM2Element).ToBigInt = `Model.Field.toNat`**; `hX`: the external `big.Int.SetBytes` (external 7) returns the
    value of the big-endian byte string (true of `stdOracle extKinds tape`: `stdOracle_setBytes`) -/
theorem toBigInt_computes (hw : HasWrappers P) (ha : HasAffine P) {x : α} (h : BytesPrims P G X F enc Fm Ft x)
    (hX : ∀ b : Bytes, X 7 [bytesV b] = [.int ((Bytes.toNatBE b : Nat) : Int)]) :
    Computes P G X f_fiat_SM2Element_ToBigInt (fuelToBigInt Fm Ft) [elemV (enc x)] [.int ((Model.Field.toNat F x : Nat) : Int)] := by
  let b := Model.Field.bytes F x
  let e0 : Env := Env.ofList [elemV (enc x)]
  let e1 := e0.set 2 (bytesV b)
  let e2 := e1.set 3 (bytesV b)
  let e3 := e2.set 4 (.int ((Bytes.toNatBE b : Nat) : Int))
  have c1 : EvIn P G X (fuelBytes32 Fm Ft - 1 + 1) e0 (.call [2] 28 [(.var 0)]) e1 .norm := by
    refine (Bytes_field hw h).call ?_ rfl
    simp only [evalVs_cons, evalVs_nil, evalV_var]
    rfl
  have c2 : EvIn P G X 1 e1 (.assign 3 [] (.var 2)) e2 .norm := EvIn.assign (by simp [e1, Env.set])
  have c3 : EvIn P G X 1 e2 (.ext [4] 7 false [(.var 3)]) e3 .norm := by
    refine CTIRRefineComb.evIn_ext (vs := [bytesV b]) ?_ ?_
    · simp [evalVs_cons, e2, Env.set]
    · rw [hX]; rfl
  have sr : evalVs G e3 [(.var 4)] = some [.int ((Model.Field.toNat F x : Nat) : Int)] := by
    simp [evalVs_cons, e3, Env.set, Model.Field.toNat, b]
  refine Computes.of_body ha.h42 rfl rfl (env' := e3) ?_
  rw [fn_42_body]
  exact ((Pre.cons c1 (Pre.cons c2 (Pre.cons c3 (Pre.nil _))) _).1 _ _ _ (EvIn.seq_stop (EvIn.ret sr) (by simp))).mono
    (by simp only [fuelToBigInt, fuelBytes32, fuelBytes, fuelbytes]; omega)

theorem isZero_le (F : Model.Field.FieldOps α) (x : α) : Model.Field.isZero F x ≤ 1 := by
  unfold Model.Field.isZero; split <;> omega

/-- coordinate `k` of an encoded point -/
theorem evalV_ptCoord {env : Env} {x k : Nat} {p : Model.Point.Pt α} (h : env x = ptV enc p) (hk : k < 3) :
    evalV G env (.idxc (.var x) k) = some (elemV ([enc p.x, enc p.y, enc p.z].getD k [])) :=
  evalV_coord (by rw [h, ptV_coords]) (by simpa using hk)

/-- the verdict `p.z.IsZero() == 1` and its declassification: the common prefix of GetAffineX and bytes -/
theorem isZero_prefix (hw : HasWrappers P) {C : Model.Point.Ctx α} {p : Model.Point.Pt α}
    (hB : BytesPrims P G X C.F enc Fm Ft p.z)
    (hG2 : G 2 = bytesV (Model.Field.bytes C.F C.F.zero)) {env : Env} {t v : Nat} {site : Nat}
    (h0 : env 0 = ptV enc p) :
    Pre P G X (fuelIsZero Fm Ft + 3) env [.call [t] 38 [(.idxc (.var 0) 2)], .declass v site (.op2 .eq (.var t) (.lit 1))]
      ((env.set t (.int ((Model.Field.isZero C.F p.z : Nat) : Int))).set v
        (.int (if Model.Field.isZero C.F p.z = 1 then 1 else 0))) := by
  have q : evalV G env (.idxc (.var 0) 2) = some (elemV (enc p.z)) := evalV_ptCoord h0 (by decide)
  have c1 : EvIn P G X (fuelIsZero Fm Ft - 1 + 1) env (.call [t] 38 [(.idxc (.var 0) 2)])
      (env.set t (.int ((Model.Field.isZero C.F p.z : Nat) : Int))) .norm := by
    refine (IsZero_field hw hB hG2).call ?_ rfl
    simp only [evalVs_cons, evalVs_nil, q]
  have c2 : EvIn P G X 1 (env.set t (.int ((Model.Field.isZero C.F p.z : Nat) : Int)))
      (.declass v site (.op2 .eq (.var t) (.lit 1)))
      ((env.set t (.int ((Model.Field.isZero C.F p.z : Nat) : Int))).set v
        (.int (if Model.Field.isZero C.F p.z = 1 then 1 else 0))) .norm := by
    refine EvIn.declass ?_
    simp only [evalV_op2, evalV_var, evalV_lit, Env.set_same, evalOp2, Option.map_some]
    by_cases h : Model.Field.isZero C.F p.z = 1
    · simp [h, ofBool]
    · have : ¬ ((Model.Field.isZero C.F p.z : Nat) : Int) = 1 := by omega
      simp [h, this, ofBool]
  exact (Pre.cons c1 (Pre.cons c2 (Pre.nil _))).mono (by simp only [fuelIsZero]; omega)

end Affine

section GetAffineX
variable {α : Type} {P : Prog} {G : Nat → Val} {X : Oracle} {enc : α → List Nat} {Fsq Fmul Fm Ft : Nat}

/-- fuel for GetAffineX -/
def fuelGetAffineX (Fsq Fmul Fm Ft : Nat) : Nat :=
  fuelIsZero Fm Ft + fuelInvert Fsq Fmul + Fmul + fuelToBigInt Fm Ft + 40

/-- **(*SM2Point).GetAffineX = `Model.Point.getAffineX`** (the constant-time variant: IsZero verdict, Fermat
    inversion, Mul, ToBigInt).  Hypotheses: the Fiat primitives sm2Square, sm2Mul (`hsq`, `hmul`), sm2FromMontgomery,
    sm2ToBytes (`hB`), the chain of `F` is the generated one, global 2 is the encoding of zero, the external
    `big.Int.SetBytes` is `Bytes.toNatBE` (`hX`). -/
theorem getAffineX_computes (hw : HasWrappers P) (hi : HasInv P) (ha : HasAffine P) {C : Model.Point.Ctx α}
    (henc : ∀ e, Out4 (enc e))
    (hsq : ∀ o a, Out4 o → Computes P G X f_fiat_sm2Square Fsq [limbsV o, limbsV (enc a)] [limbsV (enc (C.F.square a))])
    (hmul : ∀ o a b, Out4 o → Computes P G X f_fiat_sm2Mul Fmul [limbsV o, limbsV (enc a), limbsV (enc b)] [limbsV (enc (C.F.mul a b))])
    (hchain : C.F.chain = SMGo.Gen.AddChain.fieldInverse) (hregs : C.F.chainRegs = SMGo.Gen.AddChain.fieldInverse_regs)
    (hB : ∀ e, BytesPrims P G X C.F enc Fm Ft e) (hG2 : G 2 = bytesV (Model.Field.bytes C.F C.F.zero))
    (hX : ∀ b : Bytes, X 7 [bytesV b] = [.int ((Bytes.toNatBE b : Nat) : Int)]) (p : Model.Point.Pt α) :
    Computes P G X f_internal_SM2Point_GetAffineX (fuelGetAffineX Fsq Fmul Fm Ft) [ptV enc p]
      [.int ((Model.Point.getAffineX C p : Nat) : Int)] := by
  let e0 : Env := Env.ofList [ptV enc p]
  let d := (e0.set 2 (.int ((Model.Field.isZero C.F p.z : Nat) : Int))).set 3
    (.int (if Model.Field.isZero C.F p.z = 1 then 1 else 0))
  have hp : Pre P G X (fuelIsZero Fm Ft + 3) e0 [gaxIsZero, gaxDecl] d :=
    isZero_prefix (p := p) (env := e0) (t := 2) (v := 3) (site := 5) hw (hB p.z) hG2 rfl
  have d0 : d 0 = ptV enc p := by simp [d, e0, Env.set, Env.ofList]
  by_cases hz : Model.Field.isZero C.F p.z = 1
  · have hm : Model.Point.getAffineX C p = 0 := by simp [Model.Point.getAffineX, hz]
    have g3 : evalV G d (.var 3) = some (.int 1) := by simp [d, Env.set, hz]
    refine Computes.of_body ha.h89 rfl rfl (env' := d) ?_
    rw [fn_89_body_a, hm]
    have r : EvIn P G X 1 d (.ret [(.lit 0)]) d (.ret [.int ((0 : Nat) : Int)]) := EvIn.ret rfl
    exact ((hp _).1 _ _ _ (EvIn.seq_stop (EvIn.ite g3 rfl r) (by simp))).mono (by simp only [fuelGetAffineX]; omega)
  · let zinv := Model.Field.invert C.F p.z
    let xx := C.F.mul p.x zinv
    have hm : Model.Point.getAffineX C p = Model.Field.toNat C.F xx := by simp [Model.Point.getAffineX, hz, xx, zinv]
    have g3 : evalV G d (.var 3) = some (.int 0) := by simp [d, Env.set, hz]
    have c3 : EvIn P G X 2 d gaxIte d .norm := EvIn.ite g3 rfl (EvIn.skip _)
    let e1 := (d.set 1 (elemV (enc zinv))).set 4 (elemV (enc zinv))
    let e2 := e1.set 5 (elemV (enc zinv))
    let e3 := (e2.set 1 (elemV (enc xx))).set 6 (elemV (enc xx))
    let e4 := e3.set 7 (elemV (enc xx))
    let e5 := e4.set 8 (.int ((Model.Field.toNat C.F xx : Nat) : Int))
    have c4 : EvIn P G X (fuelInvert Fsq Fmul + 1) d (.call [1, 4] 26 [newElemE, (.idxc (.var 0) 2)]) e1 .norm := by
      refine (invert_computes hi henc hsq hmul hchain hregs [0, 0, 0, 0] out4_zeros p.z).call ?_ rfl
      have q : evalV G d (.idxc (.var 0) 2) = some (elemV (enc p.z)) := evalV_ptCoord d0 (by decide)
      simp only [evalVs_cons, evalVs_nil, evalV_newElem, q]
    have c5 : EvIn P G X 1 e1 (.assign 5 [] (.var 4)) e2 .norm := EvIn.assign (by simp [e1, Env.set])
    have c6 : EvIn P G X (Fmul + 8 + 1) e2 (.call [1, 6] 22 [newElemE, (.idxc (.var 0) 0), (.var 5)]) e3 .norm := by
      refine (mul_computes ha hmul [0, 0, 0, 0] out4_zeros p.x zinv).call ?_ rfl
      have q : evalV G e2 (.idxc (.var 0) 0) = some (elemV (enc p.x)) :=
        evalV_ptCoord (p := p) (by simp [e2, e1, Env.set, d0]) (by decide)
      have g5 : e2 5 = elemV (enc zinv) := by simp [e2, Env.set]
      simp only [evalVs_cons, evalVs_nil, evalV_newElem, q, evalV_var, g5]
    have c7 : EvIn P G X 1 e3 (.assign 7 [] (.var 6)) e4 .norm := EvIn.assign (by simp [e3, Env.set])
    have c8 : EvIn P G X (fuelToBigInt Fm Ft + 1) e4 (.call [8] 42 [(.var 7)]) e5 .norm := by
      refine (toBigInt_computes hw ha (hB xx) hX).call ?_ rfl
      simp [evalVs_cons, e4, Env.set]
    have sr : evalVs G e5 [(.var 8)] = some [.int ((Model.Point.getAffineX C p : Nat) : Int)] := by
      simp [evalVs_cons, e5, Env.set, hm]
    refine Computes.of_body ha.h89 rfl rfl (env' := e5) ?_
    rw [fn_89_body_b]
    have htail := Pre.cons c3 (Pre.cons c4 (Pre.cons c5 (Pre.cons c6 (Pre.cons c7 (Pre.cons c8 (Pre.nil _))))))
    exact (((Pre.append hp htail) _).1 _ _ _ (EvIn.seq_stop (EvIn.ret sr) (by simp))).mono
      (by simp only [fuelGetAffineX]; omega)

end GetAffineX

/-! ### (*SM2Point).Bytes: the specialisation `bytes$safe=true` (93) and its wrapper (91) -/

def pbIsZero : Stmt := .call [4] 38 [(.idxc (.var 0) 2)]
def pbDecl : Stmt := .declass 5 4 (.op2 .eq (.var 4) (.lit 1))
def pbOne (c : Int) : Expr := .cat (.slice (.var 1) (.lit 0) (.lit 0)) (.mk (.lit 1) (.lit c))
def pbIte : Stmt := .ite (.var 5) (.ret [pbOne 0]) .skip
def pbTail : List Stmt := [.call [3, 6] 26 [newElemE, (.idxc (.var 0) 2)],
    .assign 7 [] (.var 6),
    .call [3, 8] 22 [newElemE, (.idxc (.var 0) 0), (.var 7)],
    .assign 9 [] (.var 8),
    .call [3, 10] 22 [newElemE, (.idxc (.var 0) 1), (.var 7)],
    .assign 11 [] (.var 10),
    .assign 12 [] (pbOne 4),
    .call [13] 28 [(.var 9)],
    .assign 12 [] (.cat (.var 12) (.var 13)),
    .call [14] 28 [(.var 11)],
    .assign 12 [] (.cat (.var 12) (.var 14))]
def pbRet : Stmt := .seq (.ret [(.var 12)]) .panic

theorem fn_93_body_a : fn_93.body = seqs ([pbIsZero, pbDecl] ++ [.seq pbIte (seqs (pbTail ++ [pbRet]))]) := rfl
theorem fn_93_body_b : fn_93.body = seqs (([pbIsZero, pbDecl, pbIte] ++ pbTail) ++ [pbRet]) := rfl
theorem fn_91_body : fn_91.body = seqs ([.assign 2 [] (.mk (.lit 65) (.lit 0)), .call [3] 93 [(.var 0), (.var 2), (.lit 1)]]
    ++ [.seq (.ret [(.var 3)]) .panic]) := rfl

section PointBytes
variable {α : Type} {P : Prog} {G : Nat → Val} {X : Oracle} {enc : α → List Nat} {Fsq Fmul Fm Ft : Nat}

/-- `append(out[:0], c)` -/
theorem evalV_pbOne {env : Env} {out : Bytes} (h1 : env 1 = bytesV out) (c : UInt8) :
    evalV G env (pbOne (Int.ofNat c.toNat)) = some (bytesV [c]) := by
  have s := sliceList_front (out.map (fun x => Val.int (Int.ofNat x.toNat)))
  have hm : evalV G env (.mk (.lit 1) (.lit (Int.ofNat c.toNat))) = some (.arr [.int (Int.ofNat c.toNat)]) := by
    rw [evalV_mk]; rfl
  rw [pbOne, evalV_cat, evalV_slice, hm]
  simp only [evalV_var, evalV_lit, h1, bytesV, s, Option.map_some, List.nil_append, List.map_cons, List.map_nil]

/-- `append(buf, b...)` -/
theorem evalV_catBytes {env : Env} {x y : Nat} {a b : Bytes} (hx : env x = bytesV a) (hy : env y = bytesV b) :
    evalV G env (.cat (.var x) (.var y)) = some (bytesV (a ++ b)) := by
  rw [evalV_cat]
  simp only [evalV_var, hx, hy, bytesV, List.map_append]

/-- fuel for the safe `bytes` and for `Bytes` of a point -/
def fuelPointbytes (Fsq Fmul Fm Ft : Nat) : Nat :=
  fuelIsZero Fm Ft + fuelInvert Fsq Fmul + 2 * Fmul + 2 * fuelBytes32 Fm Ft + 80
def fuelPointBytes (Fsq Fmul Fm Ft : Nat) : Nat := fuelPointbytes Fsq Fmul Fm Ft + 8

/-- **(*SM2Point).bytes with `safe = true`** (the specialised copy, function 93) `= Model.Point.bytes C p true`,
    for any destination `out` (only `out[:0]` is used) and any value of the `safe` argument (the copy ignores it) -/
theorem pointbytes_computes (hw : HasWrappers P) (hi : HasInv P) (ha : HasAffine P) {C : Model.Point.Ctx α}
    (henc : ∀ e, Out4 (enc e))
    (hsq : ∀ o a, Out4 o → Computes P G X f_fiat_sm2Square Fsq [limbsV o, limbsV (enc a)] [limbsV (enc (C.F.square a))])
    (hmul : ∀ o a b, Out4 o → Computes P G X f_fiat_sm2Mul Fmul [limbsV o, limbsV (enc a), limbsV (enc b)] [limbsV (enc (C.F.mul a b))])
    (hchain : C.F.chain = SMGo.Gen.AddChain.fieldInverse) (hregs : C.F.chainRegs = SMGo.Gen.AddChain.fieldInverse_regs)
    (hB : ∀ e, BytesPrims P G X C.F enc Fm Ft e) (hG2 : G 2 = bytesV (Model.Field.bytes C.F C.F.zero))
    (p : Model.Point.Pt α) (out : Bytes) (safe : Val) :
    Computes P G X f_internal_SM2Point_bytes_safe_true (fuelPointbytes Fsq Fmul Fm Ft) [ptV enc p, bytesV out, safe]
      [bytesV (Model.Point.bytes C p true)] := by
  let e0 : Env := Env.ofList [ptV enc p, bytesV out, safe]
  let d := (e0.set 4 (.int ((Model.Field.isZero C.F p.z : Nat) : Int))).set 5
    (.int (if Model.Field.isZero C.F p.z = 1 then 1 else 0))
  have hp : Pre P G X (fuelIsZero Fm Ft + 3) e0 [pbIsZero, pbDecl] d :=
    isZero_prefix (p := p) (env := e0) (t := 4) (v := 5) (site := 4) hw (hB p.z) hG2 rfl
  have d0 : d 0 = ptV enc p := by simp [d, e0, Env.set, Env.ofList]
  have d1 : d 1 = bytesV out := by simp [d, e0, Env.set, Env.ofList]
  by_cases hz : Model.Field.isZero C.F p.z = 1
  · have hm : Model.Point.bytes C p true = [0] := by simp [Model.Point.bytes, hz]
    have g5 : evalV G d (.var 5) = some (.int 1) := by simp [d, Env.set, hz]
    refine Computes.of_body ha.h93 rfl rfl (env' := d) ?_
    rw [fn_93_body_a, hm]
    have r : EvIn P G X 1 d (.ret [pbOne 0]) d (.ret [bytesV [0]]) := by
      refine EvIn.ret ?_
      have q := evalV_pbOne (G := G) d1 0
      simp only [evalVs_cons, evalVs_nil]
      rw [show (Int.ofNat (0 : UInt8).toNat) = (0 : Int) from rfl] at q
      rw [q]
    exact ((hp _).1 _ _ _ (EvIn.seq_stop (EvIn.ite g5 rfl r) (by simp))).mono (by simp only [fuelPointbytes]; omega)
  · let zinv := Model.Field.invert C.F p.z
    let xx := C.F.mul p.x zinv
    let yy := C.F.mul p.y zinv
    let bx := Model.Field.bytes C.F xx
    let byy := Model.Field.bytes C.F yy
    have hm : Model.Point.bytes C p true = [4] ++ bx ++ byy := by simp [Model.Point.bytes, hz, xx, yy, zinv, bx, byy]
    have g5 : evalV G d (.var 5) = some (.int 0) := by simp [d, Env.set, hz]
    have c3 : EvIn P G X 2 d pbIte d .norm := EvIn.ite g5 rfl (EvIn.skip _)
    let e1 := (d.set 3 (elemV (enc zinv))).set 6 (elemV (enc zinv))
    let e2 := e1.set 7 (elemV (enc zinv))
    let e3 := (e2.set 3 (elemV (enc xx))).set 8 (elemV (enc xx))
    let e4 := e3.set 9 (elemV (enc xx))
    let e5 := (e4.set 3 (elemV (enc yy))).set 10 (elemV (enc yy))
    let e6 := e5.set 11 (elemV (enc yy))
    let e7 := e6.set 12 (bytesV [4])
    let e8 := e7.set 13 (bytesV bx)
    let e9 := e8.set 12 (bytesV ([4] ++ bx))
    let e10 := e9.set 14 (bytesV byy)
    let e11 := e10.set 12 (bytesV ([4] ++ bx ++ byy))
    have c4 : EvIn P G X (fuelInvert Fsq Fmul + 1) d (.call [3, 6] 26 [newElemE, (.idxc (.var 0) 2)]) e1 .norm := by
      refine (invert_computes hi henc hsq hmul hchain hregs [0, 0, 0, 0] out4_zeros p.z).call ?_ rfl
      have q : evalV G d (.idxc (.var 0) 2) = some (elemV (enc p.z)) := evalV_ptCoord d0 (by decide)
      simp only [evalVs_cons, evalVs_nil, evalV_newElem, q]
    have c5 : EvIn P G X 1 e1 (.assign 7 [] (.var 6)) e2 .norm := EvIn.assign (by simp [e1, Env.set])
    have c6 : EvIn P G X (Fmul + 8 + 1) e2 (.call [3, 8] 22 [newElemE, (.idxc (.var 0) 0), (.var 7)]) e3 .norm := by
      refine (mul_computes ha hmul [0, 0, 0, 0] out4_zeros p.x zinv).call ?_ rfl
      have q : evalV G e2 (.idxc (.var 0) 0) = some (elemV (enc p.x)) :=
        evalV_ptCoord (p := p) (by simp [e2, e1, Env.set, d0]) (by decide)
      have g7 : e2 7 = elemV (enc zinv) := by simp [e2, Env.set]
      simp only [evalVs_cons, evalVs_nil, evalV_newElem, q, evalV_var, g7]
    have c7 : EvIn P G X 1 e3 (.assign 9 [] (.var 8)) e4 .norm := EvIn.assign (by simp [e3, Env.set])
    have c8 : EvIn P G X (Fmul + 8 + 1) e4 (.call [3, 10] 22 [newElemE, (.idxc (.var 0) 1), (.var 7)]) e5 .norm := by
      refine (mul_computes ha hmul [0, 0, 0, 0] out4_zeros p.y zinv).call ?_ rfl
      have q : evalV G e4 (.idxc (.var 0) 1) = some (elemV (enc p.y)) :=
        evalV_ptCoord (p := p) (by simp [e4, e3, e2, e1, Env.set, d0]) (by decide)
      have g7 : e4 7 = elemV (enc zinv) := by simp [e4, e3, e2, Env.set]
      simp only [evalVs_cons, evalVs_nil, evalV_newElem, q, evalV_var, g7]
    have c9 : EvIn P G X 1 e5 (.assign 11 [] (.var 10)) e6 .norm := EvIn.assign (by simp [e5, Env.set])
    have c10 : EvIn P G X 1 e6 (.assign 12 [] (pbOne 4)) e7 .norm := by
      refine EvIn.assign ?_
      have q := evalV_pbOne (G := G) (env := e6) (out := out) (by simp [e6, e5, e4, e3, e2, e1, Env.set, d1]) 4
      rw [show (Int.ofNat (4 : UInt8).toNat) = (4 : Int) from rfl] at q
      exact q
    have c11 : EvIn P G X (fuelBytes32 Fm Ft - 1 + 1) e7 (.call [13] 28 [(.var 9)]) e8 .norm := by
      refine (Bytes_field hw (hB xx)).call ?_ rfl
      simp [evalVs_cons, e7, e6, e5, e4, Env.set]
    have c12 : EvIn P G X 1 e8 (.assign 12 [] (.cat (.var 12) (.var 13))) e9 .norm :=
      EvIn.assign (evalV_catBytes (by simp [e8, e7, Env.set]) (by simp [e8, Env.set]))
    have c13 : EvIn P G X (fuelBytes32 Fm Ft - 1 + 1) e9 (.call [14] 28 [(.var 11)]) e10 .norm := by
      refine (Bytes_field hw (hB yy)).call ?_ rfl
      simp [evalVs_cons, e9, e8, e7, e6, Env.set]
    have c14 : EvIn P G X 1 e10 (.assign 12 [] (.cat (.var 12) (.var 14))) e11 .norm :=
      EvIn.assign (evalV_catBytes (by simp [e10, e9, Env.set]) (by simp [e10, Env.set]))
    have sr : evalVs G e11 [(.var 12)] = some [bytesV (Model.Point.bytes C p true)] := by
      simp [evalVs_cons, e11, Env.set, hm]
    refine Computes.of_body ha.h93 rfl rfl (env' := e11) ?_
    rw [fn_93_body_b]
    have htail := Pre.cons c3 (Pre.cons c4 (Pre.cons c5 (Pre.cons c6 (Pre.cons c7 (Pre.cons c8 (Pre.cons c9 (Pre.cons c10
      (Pre.cons c11 (Pre.cons c12 (Pre.cons c13 (Pre.cons c14 (Pre.nil _))))))))))))
    exact (((Pre.append hp htail) _).1 _ _ _ (EvIn.seq_stop (EvIn.ret sr) (by simp))).mono
      (by simp only [fuelPointbytes]; omega)

theorem zeros65 : (Val.arr (List.replicate (65 : Int).toNat (Val.int 0))) = bytesV (List.replicate 65 0) := rfl

/-- **(*SM2Point).Bytes = `Model.Point.bytes C p true`** -/
theorem pointBytes_computes (hw : HasWrappers P) (hi : HasInv P) (ha : HasAffine P) {C : Model.Point.Ctx α}
    (henc : ∀ e, Out4 (enc e))
    (hsq : ∀ o a, Out4 o → Computes P G X f_fiat_sm2Square Fsq [limbsV o, limbsV (enc a)] [limbsV (enc (C.F.square a))])
    (hmul : ∀ o a b, Out4 o → Computes P G X f_fiat_sm2Mul Fmul [limbsV o, limbsV (enc a), limbsV (enc b)] [limbsV (enc (C.F.mul a b))])
    (hchain : C.F.chain = SMGo.Gen.AddChain.fieldInverse) (hregs : C.F.chainRegs = SMGo.Gen.AddChain.fieldInverse_regs)
    (hB : ∀ e, BytesPrims P G X C.F enc Fm Ft e) (hG2 : G 2 = bytesV (Model.Field.bytes C.F C.F.zero))
    (p : Model.Point.Pt α) :
    Computes P G X f_internal_SM2Point_Bytes (fuelPointBytes Fsq Fmul Fm Ft) [ptV enc p]
      [bytesV (Model.Point.bytes C p true)] := by
  let e0 : Env := Env.ofList [ptV enc p]
  let e1 := e0.set 2 (bytesV (List.replicate 65 0))
  let e2 := e1.set 3 (bytesV (Model.Point.bytes C p true))
  have c1 : EvIn P G X 1 e0 (.assign 2 [] (.mk (.lit 65) (.lit 0))) e1 .norm := by
    refine EvIn.assign ?_
    rw [evalV_mk]
    simp only [evalV_lit]
    exact congrArg some zeros65
  have c2 : EvIn P G X (fuelPointbytes Fsq Fmul Fm Ft + 1) e1 (.call [3] 93 [(.var 0), (.var 2), (.lit 1)]) e2 .norm := by
    refine (pointbytes_computes hw hi ha henc hsq hmul hchain hregs hB hG2 p (List.replicate 65 0) (.int 1)).call ?_ rfl
    simp only [evalVs_cons, evalVs_nil, evalV_var, evalV_lit]
    rfl
  have sr : evalVs G e2 [(.var 3)] = some [bytesV (Model.Point.bytes C p true)] := by simp [evalVs_cons, e2, Env.set]
  refine Computes.of_body ha.h91 rfl rfl (env' := e2) ?_
  rw [fn_91_body]
  exact ((Pre.cons c1 (Pre.cons c2 (Pre.nil _)) _).1 _ _ _ (EvIn.seq_stop (EvIn.ret sr) (by simp))).mono
    (by simp only [fuelPointBytes]; omega)

end PointBytes

/-! ## The statements for the generated program `prog`, as runs -/

section Runs
variable {α : Type} {G : Nat → Val} {X : Oracle} {enc : α → List Nat} {Fsq Fmul Fm Ft : Nat}

/-- **multiSelectConditioned** as a run: the outcome of `Model.Point.multiSelect` decides the run.
    `.ok r` (domain: `bits` a byte, `width` a Go `int`, a well-formed table) ⇒ returns `[r, r]`;
    `.panic` ⇒ explicit `panic` or stuck; the model never returns an error. -/
theorem ir_multiSelectConditioned {C : Model.Point.Ctx α} (he : EncOk C.F enc) (hG : G 0 = elemV (enc C.F.setOne))
    (q : Model.Point.Pt α) (pre : Table) (hasZ : Bool) (width bits : Nat)
    (hb : bits < 256) (hw : width < 9223372036854775808) (ht : TableOk pre hasZ width) :
    match Model.Point.multiSelect C q pre hasZ width bits with
    | .ok r => ∀ f, fuelMSC width ≤ f →
        runV prog G X f f_internal_SM2Point_multiSelectConditioned
          [ptV enc q, CTIRRefineComb.encT pre, .int (if hasZ then 1 else 0), .int (width : Int), .int (bits : Int)]
          = .ret [ptV enc r, ptV enc r]
    | .panic =>
        (∃ F, ∀ f, F ≤ f → runV prog G X f f_internal_SM2Point_multiSelectConditioned
          [ptV enc q, CTIRRefineComb.encT pre, .int (if hasZ then 1 else 0), .int (width : Int), .int (bits : Int)] = .panic) ∨
        (∀ f, runV prog G X f f_internal_SM2Point_multiSelectConditioned
          [ptV enc q, CTIRRefineComb.encT pre, .int (if hasZ then 1 else 0), .int (width : Int), .int (bits : Int)] = .stuck)
    | .err => False := by
  cases h : Model.Point.multiSelect C q pre hasZ width bits with
  | ok r =>
    intro f hf
    exact (msc_computes prog_hasSel he hG q pre hasZ width bits hb hw ht r h).runV f (by omega)
  | err => exact absurd h (multiSelect_ne_err C q pre hasZ width bits)
  | panic =>
    exact CTIRRefineComb.runV_of_Fails prog_hasSel.h7 rfl rfl
      (fails_of_calleeFails prog_hasSel.h7 (msc_fails prog_hasSel C (ptV enc q) q pre hasZ _ width bits h))

/-- **TransformPrecomputed** as a run -/
theorem ir_TransformPrecomputed {C : Model.Point.Ctx α} (hraw : ∀ e, C.F.raw e = enc e) (pts : List (Model.Point.Pt α))
    (hn : pts.length < 9223372036854775808) :
    ∀ f, fuelTP pts.length ≤ f →
      runV prog G X f f_internal_TransformPrecomputed [.arr (pts.map (ptV enc)), .int (pts.length : Int)]
        = .ret [CTIRRefineComb.encT (Model.Point.transformPrecomputed C pts)] :=
  (transformPrecomputed_computes prog_hasTP hraw pts hn).runV

/-- **(*SM2Point).GetAffineX** as a run -/
theorem ir_GetAffineX {C : Model.Point.Ctx α}
    (henc : ∀ e, Out4 (enc e))
    (hsq : ∀ o a, Out4 o → Computes prog G X f_fiat_sm2Square Fsq [limbsV o, limbsV (enc a)] [limbsV (enc (C.F.square a))])
    (hmul : ∀ o a b, Out4 o → Computes prog G X f_fiat_sm2Mul Fmul [limbsV o, limbsV (enc a), limbsV (enc b)] [limbsV (enc (C.F.mul a b))])
    (hchain : C.F.chain = SMGo.Gen.AddChain.fieldInverse) (hregs : C.F.chainRegs = SMGo.Gen.AddChain.fieldInverse_regs)
    (hB : ∀ e, BytesPrims prog G X C.F enc Fm Ft e) (hG2 : G 2 = bytesV (Model.Field.bytes C.F C.F.zero))
    (hX : ∀ b : Bytes, X 7 [bytesV b] = [.int ((Bytes.toNatBE b : Nat) : Int)]) (p : Model.Point.Pt α) :
    ∀ f, fuelGetAffineX Fsq Fmul Fm Ft ≤ f →
      runV prog G X f f_internal_SM2Point_GetAffineX [ptV enc p] = .ret [.int ((Model.Point.getAffineX C p : Nat) : Int)] :=
  (getAffineX_computes prog_hasWrappers prog_hasInv prog_hasAffine henc hsq hmul hchain hregs hB hG2 hX p).runV

/-- **(*SM2Point).GetAffineX** with the standard external world (`big.Int.SetBytes` of `stdOracle`) -/
theorem ir_GetAffineX_std {C : Model.Point.Ctx α} (tape : Nat → Nat → Nat)
    (henc : ∀ e, Out4 (enc e))
    (hsq : ∀ o a, Out4 o → Computes prog G (stdOracle extKinds tape) f_fiat_sm2Square Fsq [limbsV o, limbsV (enc a)] [limbsV (enc (C.F.square a))])
    (hmul : ∀ o a b, Out4 o → Computes prog G (stdOracle extKinds tape) f_fiat_sm2Mul Fmul [limbsV o, limbsV (enc a), limbsV (enc b)]
      [limbsV (enc (C.F.mul a b))])
    (hchain : C.F.chain = SMGo.Gen.AddChain.fieldInverse) (hregs : C.F.chainRegs = SMGo.Gen.AddChain.fieldInverse_regs)
    (hB : ∀ e, BytesPrims prog G (stdOracle extKinds tape) C.F enc Fm Ft e) (hG2 : G 2 = bytesV (Model.Field.bytes C.F C.F.zero))
    (p : Model.Point.Pt α) :
    ∀ f, fuelGetAffineX Fsq Fmul Fm Ft ≤ f →
      runV prog G (stdOracle extKinds tape) f f_internal_SM2Point_GetAffineX [ptV enc p]
        = .ret [.int ((Model.Point.getAffineX C p : Nat) : Int)] :=
  ir_GetAffineX henc hsq hmul hchain hregs hB hG2 (stdOracle_setBytes tape) p

/-- **(*SM2Point).Bytes** as a run -/
theorem ir_PointBytes {C : Model.Point.Ctx α}
    (henc : ∀ e, Out4 (enc e))
    (hsq : ∀ o a, Out4 o → Computes prog G X f_fiat_sm2Square Fsq [limbsV o, limbsV (enc a)] [limbsV (enc (C.F.square a))])
    (hmul : ∀ o a b, Out4 o → Computes prog G X f_fiat_sm2Mul Fmul [limbsV o, limbsV (enc a), limbsV (enc b)] [limbsV (enc (C.F.mul a b))])
    (hchain : C.F.chain = SMGo.Gen.AddChain.fieldInverse) (hregs : C.F.chainRegs = SMGo.Gen.AddChain.fieldInverse_regs)
    (hB : ∀ e, BytesPrims prog G X C.F enc Fm Ft e) (hG2 : G 2 = bytesV (Model.Field.bytes C.F C.F.zero))
    (p : Model.Point.Pt α) :
    ∀ f, fuelPointBytes Fsq Fmul Fm Ft ≤ f →
      runV prog G X f f_internal_SM2Point_Bytes [ptV enc p] = .ret [bytesV (Model.Point.bytes C p true)] :=
  (pointBytes_computes prog_hasWrappers prog_hasInv prog_hasAffine henc hsq hmul hchain hregs hB hG2 p).runV

end Runs

#print axioms msc_body_ok
#print axioms msc_body_stuck_noRowY
#print axioms msc_computes
#print axioms msc_fails
#print axioms ir_multiSelectConditioned
#print axioms multiSelectXY_computes
#print axioms multiSelectXYZ_computes
#print axioms selectPoints_computes
#print axioms transformPrecomputed_computes
#print axioms pointOps_hsel
#print axioms pointOps_hselF
#print axioms pointOps_sm_htr
#print axioms pointOps_sm_hsel
#print axioms pointOps_sm_hselF
#print axioms ir_scalarMult_pointOps
#print axioms ir_scalarBaseMult_pointOps
#print axioms items_ok
#print axioms fermatInvert_computes
#print axioms ir_fermatInvert
#print axioms ir_Invert
#print axioms ir_GetAffineX
#print axioms ir_GetAffineX_std
#print axioms ir_PointBytes

end SMGo.Proofs.CTIRRefinePointB
