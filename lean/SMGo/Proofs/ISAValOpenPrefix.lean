import SMGo.Proofs.ISAValFusedPrefix
import SMGo.Proofs.ISAValSealPrefix
import SMGo.Proofs.ISAValOpenScheme
set_option linter.unusedSimpArgs false
namespace SMGo.Proofs.ISAVal
open SMGo.Model.ISAVal SMGo.Model.GCM SMGo.Proofs.GCM SMGo.Proofs.ISATouch
open SMGo.Model.ISA (Reg Opd Instr)

theorem open_prefix_slice : Slice openR 0 gcmPrefixCode := by
  have h := Slice.whole open_scheme
  unfold openCode at h
  exact h.left.left.left.left.left.left.left.left.left

theorem open_prefix_slices : PrefixSlices openR := prefix_slices openR open_prefix_slice

theorem open_lJ : findPc openR 4841 = some (openR.drop 814) := label_findPc open_labels (name := "J0.branch1") (by decide)
theorem open_sPreLabels : SPreLabels openR :=
  ⟨label_findPc open_labels (name := "SPre.loopWith4") (by decide), label_findPc open_labels (name := "SPre.loopWith1") (by decide),
   label_findPc open_labels (name := "SPre.withRemain") (by decide), label_findPc open_labels (name := "SPre.endSPre") (by decide)⟩

/-- **`openAsm`, instructions 0 … 1498, on its entry state**, for a 12-byte nonce and whole-block additional data -/
theorem open_prefix_partial (g v k rk : List Nat) (t : Nat) (dst nonce ct aad tmp : List Nat) (r0 : Nat)
    (hG : g.length = 16) (hV : v.length = 32) (hK : k.length = 8) (hrk : rk.length = 32) (hrkb : ∀ x ∈ rk, x < 2 ^ 32)
    (hn : nonce.length = 12) (hnb : ∀ x ∈ nonce, x < 2 ^ 8) (hal : aad.length % 16 = 0) (hab : ∀ x ∈ aad, x < 2 ^ 8)
    (hall : aad.length < 2 ^ 32) :
    ∃ s5 N, N ≤ 34 * (aad.length / 16) + 1200 ∧ Reach openR 0 (openState g v k rk t dst nonce ct aad tmp r0) 1499 s5 N ∧
      AfterPrefix rk nonce aad 81604378624 94489280512 90194313216 s5 := by
  have e := fenv_of (openState g v k rk t dst nonce ct aad tmp r0) "cipher" false rk dst nonce ct aad tmp (open_mem ..) (open_syms ..)
    (by simp [openState, mkState, lookup]; rfl) (by simp [openState, mkState, lookup]; rfl) (by simp [openState, mkState, lookup])
    (by simp [openState, mkState, lookup]; rfl) (by simp [openState, mkState, lookup]; rfl) (by simp [openState, mkState, lookup])
    hrk (by omega) hall
  exact prefix_partial openR open_prefix_slices open_lJ open_sPreLabels _ hG hV hK rk nonce aad _ _ _ e hrk hrkb hn hnb (by decide) hal hab
    (by omega)

end SMGo.Proofs.ISAVal
