/-
  The round block of the arm64 listing `cryptoBlockAsmX16Internal` (sm4/asm_arm64.s), `subRoundX16`: sixteen blocks in
  two halves of eight; the half that is not in V0..V7 lives in the 256-byte buffer `tmp` as the byte image of the
  registers (stashZ / stashY / popZ / popY = ST1 / LD1 of four registers) and is reloaded and stored back several
  times per sub-round.  Memory invariant: the region holds `img [m0, …, m15]` = the sixteen 16-byte images of
  Z (blocks 0–3), Y (4–7) of the first half and Z, Y of the second half (blocks 8–11, 12–15).
  Arm64 value semantics: UNVALIDATED transcription of the Arm ARM.
-/
import SMGo.Proofs.ISAValArm64X8Spec
import SMGo.Proofs.ISAValArm64Xor
namespace SMGo.Proofs.ISAValArm64
open SMGo.Model.ISAValArm64 SMGo.Model.ISA SMGo
open SMGo.Model.ISAVal (lane lanes unlanes Region readMem writeMem lookup regionBase rotl32)
open SMGo.Proofs.ISAVal (lane_lt lane_mod list32 list16 roundF stepN iterN TN LN tauN lanes_length unlanes_lanes)

/-! ### register images in memory -/

/-- the bytes of a list of registers, first register first (what ST1 {V..} stores) -/
def img (vs : List Nat) : List Nat := vs.flatMap (lanes 8 16)

theorem img_length (vs : List Nat) : (img vs).length = 16 * vs.length := by
  induction vs with
  | nil => rfl
  | cons x xs ih => simp only [img, List.flatMap_cons, List.length_append, lanes_length] at ih ⊢; rw [ih]; simp; omega

theorem img_cons (x : Nat) (xs : List Nat) : img (x :: xs) = lanes 8 16 x ++ img xs := rfl

theorem img_append (a b : List Nat) : img (a ++ b) = img a ++ img b := by simp [img, List.flatMap_append]

theorem img_drop (vs : List Nat) (k : Nat) : (img vs).drop (16 * k) = img (vs.drop k) := by
  induction vs generalizing k with
  | nil => simp [img]
  | cons x xs ih =>
    cases k with
    | zero => simp
    | succ k =>
      rw [img_cons, show 16 * (k + 1) = (lanes 8 16 x).length + 16 * k by rw [lanes_length]; omega, ← List.drop_drop,
        List.drop_left, ih, List.drop_succ_cons]

theorem img_take (vs : List Nat) (k : Nat) : (img vs).take (16 * k) = img (vs.take k) := by
  induction vs generalizing k with
  | nil => simp [img]
  | cons x xs ih =>
    cases k with
    | zero => simp [img]
    | succ k =>
      rw [img_cons, show 16 * (k + 1) = (lanes 8 16 x).length + 16 * k by rw [lanes_length]; omega,
        List.take_length_add_append, ih, List.take_succ_cons, img_cons]

/-- four registers: the bytes as `execD_st1_four` writes them -/
theorem img4 (a b c d : Nat) : lanes 8 16 a ++ (lanes 8 16 b ++ (lanes 8 16 c ++ lanes 8 16 d)) = img [a, b, c, d] := by
  simp [img]

/-- a 64-byte load from the images -/
theorem read_img4 (mem : List Region) (r : Nat) (name : String) (w : Bool) (vs : List Nat) (k : Nat)
    (hm : mem[r]? = some ⟨name, img vs, w⟩) (hk : k + 4 ≤ vs.length) (hs : vs.length ≤ 16) :
    readMem mem (regionBase r + 16 * k) 64 = .ok (img ((vs.drop k).take 4)) := by
  rw [read_region mem r ⟨name, img vs, w⟩ (16 * k) 64 hm (by simp only [img_length]; omega) (by omega)]
  simp only []
  rw [img_drop, show 64 = 16 * 4 from rfl, img_take]

/-- a 64-byte store over four images -/
theorem write_img4 (mem : List Region) (r : Nat) (name : String) (vs ws : List Nat) (k : Nat)
    (hm : mem[r]? = some ⟨name, img vs, true⟩) (hw : ws.length = 4) (hk : k + 4 ≤ vs.length) (hs : vs.length ≤ 16) :
    writeMem mem (regionBase r + 16 * k) (img ws)
      = .ok (mem.set r ⟨name, img (vs.take k ++ ws ++ vs.drop (k + 4)), true⟩) := by
  rw [write_region mem r name (img vs) (16 * k) (img ws) hm (by simp only [img_length, hw]; omega) (by omega)]
  rw [img_take, img_length, hw, show 16 * k + 16 * 4 = 16 * (k + 4) by omega, img_drop, img_append, img_append]

/-- the loaded register is the stored one, 128 bits of it -/
theorem unlanes_img_at (x0 x1 x2 x3 : Nat) :
    unlanes 8 ((img [x0, x1, x2, x3]).take 16) = x0 % 2 ^ 128 ∧
    unlanes 8 (((img [x0, x1, x2, x3]).drop 16).take 16) = x1 % 2 ^ 128 ∧
    unlanes 8 (((img [x0, x1, x2, x3]).drop 32).take 16) = x2 % 2 ^ 128 ∧
    unlanes 8 (((img [x0, x1, x2, x3]).drop 48).take 16) = x3 % 2 ^ 128 := by
  have e := fun k => img_drop [x0, x1, x2, x3] k
  have t := fun vs => img_take vs 1
  have h1 := e 1; have h2 := e 2; have h3 := e 3
  simp only [Nat.reduceMul, List.drop_succ_cons, List.drop_zero] at h1 h2 h3
  have u : ∀ x xs, unlanes 8 ((img (x :: xs)).take 16) = x % 2 ^ 128 := by
    intro x xs
    have := t (x :: xs)
    simp only [Nat.mul_one, List.take_succ_cons, List.take_zero] at this
    rw [this, img_cons, show img ([] : List Nat) = [] from rfl, List.append_nil, unlanes_lanes]
  exact ⟨u _ _, by rw [h1]; exact u _ _, by rw [h2]; exact u _ _, by rw [h3]; exact u _ _⟩

section
variable (g v : List Nat) (mem : List Region) (syms frame : List (String × Nat))

/-- `VLD1 (Rb), [Va.B16 … Va+3.B16]` from four stored images -/
theorem execD_ld1_img (b n0 n1 n2 n3 gb x0 x1 x2 x3 : Nat)
    (hc : n1 = (n0 + 1) % 32 ∧ n2 = (n0 + 2) % 32 ∧ n3 = (n0 + 3) % 32)
    (hb : g[b]? = some gb)
    (e0 : v[n0]? = some y0) (e1 : v[n1]? = some y1) (e2 : v[n2]? = some y2) (e3 : v[n3]? = some y3)
    (hload : readMem mem gb 64 = .ok (img [x0, x1, x2, x3])) :
    execD ⟨g, v, mem, syms, frame⟩ (ins .VLD1 [M b 0, L4 n0 n1 n2 n3] [.none, .B16])
      = .ok ⟨g, (((v.set n0 (x0 % 2 ^ 128)).set n1 (x1 % 2 ^ 128)).set n2 (x2 % 2 ^ 128)).set n3 (x3 % 2 ^ 128),
          mem, syms, frame⟩ := by
  obtain ⟨u0, u1, u2, u3⟩ := unlanes_img_at x0 x1 x2 x3
  rw [execD_ld1_four g v mem syms frame b n0 n1 n2 n3 gb (img [x0, x1, x2, x3]) hc hb e0 e1 e2 e3 hload, u0, u1, u2, u3]

/-- `VST1 [Va.B16 … Va+3.B16], (Rb)` as four images -/
theorem execD_st1_img (b n0 n1 n2 n3 gb t0 t1 t2 t3 : Nat) (mem' : List Region)
    (hc : n1 = (n0 + 1) % 32 ∧ n2 = (n0 + 2) % 32 ∧ n3 = (n0 + 3) % 32)
    (hb : g[b]? = some gb)
    (h0 : v[n0]? = some t0) (h1 : v[n1]? = some t1) (h2 : v[n2]? = some t2) (h3 : v[n3]? = some t3)
    (hstore : writeMem mem gb (img [t0, t1, t2, t3]) = .ok mem') :
    execD ⟨g, v, mem, syms, frame⟩ (ins .VST1 [L4 n0 n1 n2 n3, M b 0] [.B16, .none])
      = .ok ⟨g, v, mem', syms, frame⟩ := by
  have := execD_st1_four g v mem syms frame false b n0 n1 n2 n3 gb t0 t1 t2 t3 mem' hc hb h0 h1 h2 h3
    (by rw [img4]; exact hstore)
  simpa using this

end


/-! ### loads and stores of the four quarters of the image -/

theorem rdZ (M0 : List Region) (rT : Nat) (hr : rT < M0.length) (x0 x1 x2 x3 x4 x5 x6 x7 x8 x9 x10 x11 x12 x13 x14 x15 : Nat) :
    readMem (M0.set rT ⟨"dst", img [x0, x1, x2, x3, x4, x5, x6, x7, x8, x9, x10, x11, x12, x13, x14, x15], true⟩) (regionBase rT + 16 * 0) 64 = .ok (img [x0, x1, x2, x3]) := by
  have := read_img4 (M0.set rT ⟨"dst", img [x0, x1, x2, x3, x4, x5, x6, x7, x8, x9, x10, x11, x12, x13, x14, x15], true⟩) rT "dst" true [x0, x1, x2, x3, x4, x5, x6, x7, x8, x9, x10, x11, x12, x13, x14, x15] 0 (List.getElem?_set_self hr)
    (by simp) (by simp)
  simpa only [List.drop_succ_cons, List.drop_zero, List.take_succ_cons, List.take_zero] using this

theorem rdY (M0 : List Region) (rT : Nat) (hr : rT < M0.length) (x0 x1 x2 x3 x4 x5 x6 x7 x8 x9 x10 x11 x12 x13 x14 x15 : Nat) :
    readMem (M0.set rT ⟨"dst", img [x0, x1, x2, x3, x4, x5, x6, x7, x8, x9, x10, x11, x12, x13, x14, x15], true⟩) (regionBase rT + 16 * 4) 64 = .ok (img [x4, x5, x6, x7]) := by
  have := read_img4 (M0.set rT ⟨"dst", img [x0, x1, x2, x3, x4, x5, x6, x7, x8, x9, x10, x11, x12, x13, x14, x15], true⟩) rT "dst" true [x0, x1, x2, x3, x4, x5, x6, x7, x8, x9, x10, x11, x12, x13, x14, x15] 4 (List.getElem?_set_self hr)
    (by simp) (by simp)
  simpa only [List.drop_succ_cons, List.drop_zero, List.take_succ_cons, List.take_zero] using this

theorem rdX (M0 : List Region) (rT : Nat) (hr : rT < M0.length) (x0 x1 x2 x3 x4 x5 x6 x7 x8 x9 x10 x11 x12 x13 x14 x15 : Nat) :
    readMem (M0.set rT ⟨"dst", img [x0, x1, x2, x3, x4, x5, x6, x7, x8, x9, x10, x11, x12, x13, x14, x15], true⟩) (regionBase rT + 16 * 8) 64 = .ok (img [x8, x9, x10, x11]) := by
  have := read_img4 (M0.set rT ⟨"dst", img [x0, x1, x2, x3, x4, x5, x6, x7, x8, x9, x10, x11, x12, x13, x14, x15], true⟩) rT "dst" true [x0, x1, x2, x3, x4, x5, x6, x7, x8, x9, x10, x11, x12, x13, x14, x15] 8 (List.getElem?_set_self hr)
    (by simp) (by simp)
  simpa only [List.drop_succ_cons, List.drop_zero, List.take_succ_cons, List.take_zero] using this

theorem rdW (M0 : List Region) (rT : Nat) (hr : rT < M0.length) (x0 x1 x2 x3 x4 x5 x6 x7 x8 x9 x10 x11 x12 x13 x14 x15 : Nat) :
    readMem (M0.set rT ⟨"dst", img [x0, x1, x2, x3, x4, x5, x6, x7, x8, x9, x10, x11, x12, x13, x14, x15], true⟩) (regionBase rT + 16 * 12) 64 = .ok (img [x12, x13, x14, x15]) := by
  have := read_img4 (M0.set rT ⟨"dst", img [x0, x1, x2, x3, x4, x5, x6, x7, x8, x9, x10, x11, x12, x13, x14, x15], true⟩) rT "dst" true [x0, x1, x2, x3, x4, x5, x6, x7, x8, x9, x10, x11, x12, x13, x14, x15] 12 (List.getElem?_set_self hr)
    (by simp) (by simp)
  simpa only [List.drop_succ_cons, List.drop_zero, List.take_succ_cons, List.take_zero] using this

theorem wrZ (M0 : List Region) (rT : Nat) (hr : rT < M0.length) (x0 x1 x2 x3 x4 x5 x6 x7 x8 x9 x10 x11 x12 x13 x14 x15 t0 t1 t2 t3 : Nat) :
    writeMem (M0.set rT ⟨"dst", img [x0, x1, x2, x3, x4, x5, x6, x7, x8, x9, x10, x11, x12, x13, x14, x15], true⟩) (regionBase rT + 16 * 0) (img [t0, t1, t2, t3])
      = .ok (M0.set rT ⟨"dst", img [t0, t1, t2, t3, x4, x5, x6, x7, x8, x9, x10, x11, x12, x13, x14, x15], true⟩) := by
  have := write_img4 (M0.set rT ⟨"dst", img [x0, x1, x2, x3, x4, x5, x6, x7, x8, x9, x10, x11, x12, x13, x14, x15], true⟩) rT "dst" [x0, x1, x2, x3, x4, x5, x6, x7, x8, x9, x10, x11, x12, x13, x14, x15] [t0, t1, t2, t3] 0
    (List.getElem?_set_self hr) rfl (by simp) (by simp)
  rw [List.set_set] at this
  simpa only [List.drop_succ_cons, List.drop_zero, List.take_succ_cons, List.take_zero, List.cons_append,
    List.nil_append, Nat.reduceAdd] using this

theorem wrY (M0 : List Region) (rT : Nat) (hr : rT < M0.length) (x0 x1 x2 x3 x4 x5 x6 x7 x8 x9 x10 x11 x12 x13 x14 x15 t0 t1 t2 t3 : Nat) :
    writeMem (M0.set rT ⟨"dst", img [x0, x1, x2, x3, x4, x5, x6, x7, x8, x9, x10, x11, x12, x13, x14, x15], true⟩) (regionBase rT + 16 * 4) (img [t0, t1, t2, t3])
      = .ok (M0.set rT ⟨"dst", img [x0, x1, x2, x3, t0, t1, t2, t3, x8, x9, x10, x11, x12, x13, x14, x15], true⟩) := by
  have := write_img4 (M0.set rT ⟨"dst", img [x0, x1, x2, x3, x4, x5, x6, x7, x8, x9, x10, x11, x12, x13, x14, x15], true⟩) rT "dst" [x0, x1, x2, x3, x4, x5, x6, x7, x8, x9, x10, x11, x12, x13, x14, x15] [t0, t1, t2, t3] 4
    (List.getElem?_set_self hr) rfl (by simp) (by simp)
  rw [List.set_set] at this
  simpa only [List.drop_succ_cons, List.drop_zero, List.take_succ_cons, List.take_zero, List.cons_append,
    List.nil_append, Nat.reduceAdd] using this

theorem wrX (M0 : List Region) (rT : Nat) (hr : rT < M0.length) (x0 x1 x2 x3 x4 x5 x6 x7 x8 x9 x10 x11 x12 x13 x14 x15 t0 t1 t2 t3 : Nat) :
    writeMem (M0.set rT ⟨"dst", img [x0, x1, x2, x3, x4, x5, x6, x7, x8, x9, x10, x11, x12, x13, x14, x15], true⟩) (regionBase rT + 16 * 8) (img [t0, t1, t2, t3])
      = .ok (M0.set rT ⟨"dst", img [x0, x1, x2, x3, x4, x5, x6, x7, t0, t1, t2, t3, x12, x13, x14, x15], true⟩) := by
  have := write_img4 (M0.set rT ⟨"dst", img [x0, x1, x2, x3, x4, x5, x6, x7, x8, x9, x10, x11, x12, x13, x14, x15], true⟩) rT "dst" [x0, x1, x2, x3, x4, x5, x6, x7, x8, x9, x10, x11, x12, x13, x14, x15] [t0, t1, t2, t3] 8
    (List.getElem?_set_self hr) rfl (by simp) (by simp)
  rw [List.set_set] at this
  simpa only [List.drop_succ_cons, List.drop_zero, List.take_succ_cons, List.take_zero, List.cons_append,
    List.nil_append, Nat.reduceAdd] using this

theorem wrW (M0 : List Region) (rT : Nat) (hr : rT < M0.length) (x0 x1 x2 x3 x4 x5 x6 x7 x8 x9 x10 x11 x12 x13 x14 x15 t0 t1 t2 t3 : Nat) :
    writeMem (M0.set rT ⟨"dst", img [x0, x1, x2, x3, x4, x5, x6, x7, x8, x9, x10, x11, x12, x13, x14, x15], true⟩) (regionBase rT + 16 * 12) (img [t0, t1, t2, t3])
      = .ok (M0.set rT ⟨"dst", img [x0, x1, x2, x3, x4, x5, x6, x7, x8, x9, x10, x11, t0, t1, t2, t3], true⟩) := by
  have := write_img4 (M0.set rT ⟨"dst", img [x0, x1, x2, x3, x4, x5, x6, x7, x8, x9, x10, x11, x12, x13, x14, x15], true⟩) rT "dst" [x0, x1, x2, x3, x4, x5, x6, x7, x8, x9, x10, x11, x12, x13, x14, x15] [t0, t1, t2, t3] 12
    (List.getElem?_set_self hr) rfl (by simp) (by simp)
  rw [List.set_set] at this
  simpa only [List.drop_succ_cons, List.drop_zero, List.take_succ_cons, List.take_zero, List.cons_append,
    List.nil_append, Nat.reduceAdd] using this

/-! ### `subRoundX16` -/

def getXorC (B C D U : Nat) : List DInstr :=
  [ins .VEOR [R B, R C, R 13] b3, ins .VEOR [R D, R 12, R 14] b3, ins .VEOR [R 13, R 14, R U] b3]

def popC (b n : Nat) : DInstr := ins .VLD1 [M b 0, L4 n (n + 1) (n + 2) (n + 3)] [.none, .B16]
def stashC (b n : Nat) : DInstr := ins .VST1 [L4 n (n + 1) (n + 2) (n + 3), M b 0] [.B16, .none]

/-- `tableLookupX16`: U0..U3 = V8..V11, the state registers V0..V7 serve as index registers -/
def lookup16Code : List DInstr :=
  [ins .VSUB [R 15, R 8, R 0] b3, ins .VTBL [R 8, L4 16 17 18 19, R 8] b3,
   ins .VSUB [R 15, R 9, R 1] b3, ins .VTBL [R 9, L4 16 17 18 19, R 9] b3,
   ins .VSUB [R 15, R 10, R 4] b3, ins .VTBL [R 10, L4 16 17 18 19, R 10] b3,
   ins .VSUB [R 15, R 11, R 5] b3, ins .VTBL [R 11, L4 16 17 18 19, R 11] b3,
   ins .VSUB [R 15, R 0, R 2] b3, ins .TBX [R 0, L4 20 21 22 23, R 8] b3,
   ins .VSUB [R 15, R 1, R 3] b3, ins .TBX [R 1, L4 20 21 22 23, R 9] b3,
   ins .VSUB [R 15, R 4, R 6] b3, ins .TBX [R 4, L4 20 21 22 23, R 10] b3,
   ins .VSUB [R 15, R 5, R 7] b3, ins .TBX [R 5, L4 20 21 22 23, R 11] b3,
   ins .VSUB [R 15, R 2, R 0] b3, ins .TBX [R 2, L4 24 25 26 27, R 8] b3,
   ins .VSUB [R 15, R 3, R 1] b3, ins .TBX [R 3, L4 24 25 26 27, R 9] b3,
   ins .VSUB [R 15, R 6, R 4] b3, ins .TBX [R 6, L4 24 25 26 27, R 10] b3,
   ins .VSUB [R 15, R 7, R 5] b3, ins .TBX [R 7, L4 24 25 26 27, R 11] b3,
   ins .TBX [R 0, L4 28 29 30 31, R 8] b3, ins .TBX [R 1, L4 28 29 30 31, R 9] b3,
   ins .TBX [R 4, L4 28 29 30 31, R 10] b3, ins .TBX [R 5, L4 28 29 30 31, R 11] b3]

/-- `subRoundX16(A, B, C, D, 4+A, 4+B, 4+C, 4+D)`: StashZ StashY StashX StashW = R13 R14 R16 R15 -/
def sub16Code (A B C D : Nat) : List DInstr :=
  getXorC B C D 8 ++ getXorC (4 + B) (4 + C) (4 + D) 9 ++ [popC 16 0, popC 15 4]
  ++ getXorC B C D 10 ++ getXorC (4 + B) (4 + C) (4 + D) 11
  ++ lookup16Code
  ++ transformLCodeG 8 0 ++ transformLCodeG 9 1 ++ transformLCodeG 10 4 ++ transformLCodeG 11 5
  ++ [popC 16 0, popC 15 4, ins .VEOR [R 10, R A, R A] b3, ins .VEOR [R 11, R (4 + A), R (4 + A)] b3,
      stashC 16 0, stashC 15 4,
      popC 13 0, popC 14 4, ins .VEOR [R 8, R A, R A] b3, ins .VEOR [R 9, R (4 + A), R (4 + A)] b3,
      stashC 13 0, stashC 14 4]

/-- where `getXor` of quarter `q` takes word `k` from: the registers for the first half, the image for the second -/
def inp (s : State) (ms : List Nat) (q k : Nat) : Nat :=
  if q < 2 then vreg s (4 * q + k) else ms.getD (4 * q + k) 0

structure Sub16Post (A B C D : Nat) (M0 : List Region) (rT : Nat) (ms ns : List Nat) (s s' : State) : Prop where
  mem : s'.mem = M0.set rT ⟨"dst", img ns, true⟩
  nlen : ns.length = 16
  gpr : s'.gpr = s.gpr
  lenV : s'.vec.length = 32
  syms : s'.syms = s.syms
  frame : s'.frame = s.frame
  tab : s'.vec.drop 15 = s.vec.drop 15
  regs : ∀ k, k < 8 → vreg s' k = ns.getD k 0
  keep : ∀ q, q < 4 → ∀ j, j < 4 →
    lane 32 j (ns.getD (4 * q + B) 0) = lane 32 j (ms.getD (4 * q + B) 0) ∧
    lane 32 j (ns.getD (4 * q + C) 0) = lane 32 j (ms.getD (4 * q + C) 0) ∧
    lane 32 j (ns.getD (4 * q + D) 0) = lane 32 j (ms.getD (4 * q + D) 0)
  upd : ∀ q, q < 4 → ∀ j, j < 4 →
    lane 32 j (ns.getD (4 * q + A) 0) =
      roundF (lane 32 j (ms.getD (4 * q + A) 0)) (lane 32 j (inp s ms q B)) (lane 32 j (inp s ms q C))
        (lane 32 j (inp s ms q D)) (lane 32 j (vreg s 12))

attribute [local irreducible] execD

macro "hstep" : tactic => `(tactic|
  (apply exec_step
   · first
     | exact execD_veor (hm := by rfl) (hn := by rfl) (hd0 := by rfl) ..
     | exact execD_vsub (hm := by rfl) (hn := by rfl) (hd0 := by rfl) ..
     | exact execD_vshl (hsh := by decide) (hn := by rfl) (hd0 := by rfl) ..
     | exact execD_vsri (hsh := by decide) (hn := by rfl) (hdv := by rfl) ..
     | exact execD_vtbl (hc := by decide) (hm := by rfl) (h0 := by rfl) (h1 := by rfl) (h2 := by rfl) (h3 := by rfl)
         (hd0 := by rfl) ..
     | exact execD_tbx (hc := by decide) (hm := by rfl) (h0 := by rfl) (h1 := by rfl) (h2 := by rfl) (h3 := by rfl)
         (hdv := by rfl) ..
   simp only [List.set_cons_succ, List.set_cons_zero]))


theorem lane_mod128 (j x : Nat) (hj : j < 4) : lane 32 j (x % 2 ^ 128) = lane 32 j x :=
  lane_mod 32 j 128 x (by omega)

/-- a reload of four images: the lemma of the quarter is named (trying the lemma of another quarter makes the
    unifier compare `16 * 0` with `16 * 8` the hard way) -/
macro "ldstep" l:ident : tactic => `(tactic|
  (apply exec_step
   · exact execD_ld1_img (hc := by decide) (hb := by rfl) (e0 := by rfl) (e1 := by rfl) (e2 := by rfl) (e3 := by rfl)
       (hload := $l _ _ (by assumption) ..) ..
   simp only [List.set_cons_succ, List.set_cons_zero]))

macro "ststep" l:ident : tactic => `(tactic|
  (apply exec_step
   · exact execD_st1_img (hc := by decide) (hb := by rfl) (h0 := by rfl) (h1 := by rfl) (h2 := by rfl) (h3 := by rfl)
       (hstore := $l _ _ (by assumption) ..) ..))

set_option maxRecDepth 100000 in
set_option maxHeartbeats 4000000 in
theorem sub16_spec (A B C D : Nat)
    (hperm : (A = 0 ∧ B = 1 ∧ C = 2 ∧ D = 3) ∨ (A = 1 ∧ B = 2 ∧ C = 3 ∧ D = 0) ∨
             (A = 2 ∧ B = 3 ∧ C = 0 ∧ D = 1) ∨ (A = 3 ∧ B = 0 ∧ C = 1 ∧ D = 2))
    (M0 : List Region) (rT : Nat) (hr : rT < M0.length) (ms : List Nat) (hms : ms.length = 16)
    (s : State) (hG : s.gpr.length = 31) (hV : s.vec.length = 32) (htab : s.vec.drop 15 = tabs)
    (hmem : s.mem = M0.set rT ⟨"dst", img ms, true⟩)
    (p13 : greg s 13 = regionBase rT + 16 * 0) (p14 : greg s 14 = regionBase rT + 16 * 4)
    (p16 : greg s 16 = regionBase rT + 16 * 8) (p15 : greg s 15 = regionBase rT + 16 * 12) :
    ∃ s' ns, execList (sub16Code A B C D) s = .ok s' ∧ Sub16Post A B C D M0 rT ms ns s s' := by
  obtain ⟨gpr, vec, mem, syms, frame⟩ := s
  simp only at hG hV htab hmem
  obtain ⟨a0, a1, a2, a3, a4, a5, a6, a7, a8, a9, a10, a11, a12, a13, a14, a15, a16, a17, a18, a19, a20, a21, a22, a23, a24, a25, a26, a27, a28, a29, a30, rfl⟩ := list31 gpr hG
  obtain ⟨b0, b1, b2, b3, b4, b5, b6, b7, b8, b9, b10, b11, b12, b13, b14, b15, b16, b17, b18, b19, b20, b21, b22, b23, b24, b25, b26, b27, b28, b29, b30, b31, rfl⟩ := list32 vec hV
  obtain ⟨m0, m1, m2, m3, m4, m5, m6, m7, m8, m9, m10, m11, m12, m13, m14, m15, rfl⟩ := list16 ms hms
  simp only [greg, List.getD_cons_succ, List.getD_cons_zero] at p13 p14 p16 p15
  subst p13 p14 p16 p15 hmem
  simp only [List.drop_succ_cons, List.drop_zero, tabs, List.cons.injEq, and_true] at htab
  obtain ⟨rfl, rfl, rfl, rfl, rfl, rfl, rfl, rfl, rfl, rfl, rfl, rfl, rfl, rfl, rfl, rfl, rfl⟩ := htab
  rcases hperm with ⟨rfl, rfl, rfl, rfl⟩ | ⟨rfl, rfl, rfl, rfl⟩ | ⟨rfl, rfl, rfl, rfl⟩ | ⟨rfl, rfl, rfl, rfl⟩
  all_goals
    apply Exists.intro
    apply Exists.intro
    apply And.intro
    · unfold sub16Code getXorC lookup16Code transformLCodeG popC stashC
      simp only [List.cons_append, List.nil_append, Nat.reduceAdd]
      hstep; hstep; hstep; hstep; hstep; hstep
      ldstep rdX; ldstep rdW
      hstep; hstep; hstep; hstep; hstep; hstep
      hstep; hstep; hstep; hstep; hstep; hstep; hstep; hstep; hstep; hstep; hstep; hstep; hstep; hstep
      hstep; hstep; hstep; hstep; hstep; hstep; hstep; hstep; hstep; hstep; hstep; hstep; hstep; hstep
      hstep; hstep; hstep; hstep; hstep; hstep; hstep; hstep; hstep; hstep; hstep; hstep
      hstep; hstep; hstep; hstep; hstep; hstep; hstep; hstep; hstep; hstep; hstep; hstep
      hstep; hstep; hstep; hstep; hstep; hstep; hstep; hstep; hstep; hstep; hstep; hstep
      hstep; hstep; hstep; hstep; hstep; hstep; hstep; hstep; hstep; hstep; hstep; hstep
      ldstep rdX; ldstep rdW
      hstep; hstep
      ststep wrX; ststep wrW
      ldstep rdZ; ldstep rdY
      hstep; hstep
      ststep wrZ; ststep wrY
      exact execList_nil _
    · refine ⟨rfl, by simp only [List.length_cons, List.length_nil, Nat.reduceAdd], rfl,
        by simp only [List.length_cons, List.length_nil, Nat.reduceAdd], rfl, rfl, ?_, ?_, ?_, ?_⟩
      · simp only [List.drop_succ_cons, List.drop_zero]
      · intro k hk
        have : k = 0 ∨ k = 1 ∨ k = 2 ∨ k = 3 ∨ k = 4 ∨ k = 5 ∨ k = 6 ∨ k = 7 := by omega
        rcases this with rfl | rfl | rfl | rfl | rfl | rfl | rfl | rfl <;>
          simp only [vreg, List.getD_cons_succ, List.getD_cons_zero]
      · intro q hq j hj
        have : q = 0 ∨ q = 1 ∨ q = 2 ∨ q = 3 := by omega
        rcases this with rfl | rfl | rfl | rfl <;>
          simp only [Nat.reduceMul, Nat.reduceAdd, List.getD_cons_succ, List.getD_cons_zero, lane_mod128 j _ hj, and_self]
      · intro q hq j hj
        have h128 : 32 * (j + 1) ≤ 128 := by omega
        have : q = 0 ∨ q = 1 ∨ q = 2 ∨ q = 3 := by omega
        rcases this with rfl | rfl | rfl | rfl
        all_goals
          simp only [inp, vreg, Nat.reduceMul, Nat.reduceAdd, Nat.reduceLT, reduceIte, List.getD_cons_succ,
            List.getD_cons_zero, Int.reduceToNat]
          simp only [lane_veor 32 j _ _ h128, lane_mod128 j _ hj, lane_rot2 j _ hj, lane_rot10 j _ hj,
            lane_rot18 j _ hj, lane_rot24 j _ hj, laneJ_lookup j _ hj]
          simp only [roundF, TN, LN]
          ac_rfl

end SMGo.Proofs.ISAValArm64
