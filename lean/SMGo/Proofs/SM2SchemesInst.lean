/-
  C18 → C14 → C15 for ALL FOUR comb schemes of sm2_curve.go (4-2-32-0, 5-3-17-1, 6-3-14-4, 7-3-12-4),
  over the point operations of the regenerated instance (`Model.SM2.pointCtx` = `Model.SM2.ctx.C`).

  `Proofs/SM2FactsInst.lean` composes these layers only for the scheme the library calls (6-3-14-4,
  the tables stored in `Model.SM2.ctx`).  Here the same composition is carried out for every scheme:
    * `baseMult_rep_scheme`      C14.baseMult_spec + C15 (`Rep` from `sem`) for any valid scheme / tables;
    * `baseMult_len_err_scheme`  the length error, with the table-shape guard read off `TableValid`;
    * `first_*_valid`, `second_*_valid`   `TableValid` / `RemainderValid` of the GENERATED tables, from the
      C18 theorems (`Proofs.Tables.first_*`, `second_*`; nothing is recomputed here).
-/
import SMGo.Proofs.SM2FactsInst
namespace SMGo.Proofs.SM2SchemesInst
open SMGo SMGo.Model SMGo.Model.SM2
open SMGo.Gen.SM2Tables
open SMGo.Proofs.CurveGroup (Valid toPoint)
open SMGo.Proofs.PointRep (Rep)
open SMGo.Proofs.PointSem (ok okXY sem)
open SMGo.Proofs.CurveSem (Sem TableValid RemainderValid)
open SMGo.Proofs.SM2FactsInst (tableValid_of_firstValid remainderValid_of_secondValid)
open SMGo.Model.Point (Pt)

/-- base-point multiplication with any `w`-`s`-`it`-`r` comb over the concrete point operations:
    `[k]G` in the vocabulary of the specification, given valid tables -/
theorem baseMult_rep_scheme {first : List Curve.Table} {second : Curve.Table} {w s it r : Nat}
    (hw : w ≤ 8) (hr : r ≤ 4) (hsum : w * s * it + r = 256)
    (hT : TableValid (Curve.pointOps pointCtx) okXY sem (toPoint Spec.SM2.G) first w s it r)
    (hR : 1 ≤ r → RemainderValid (Curve.pointOps pointCtx) okXY sem (toPoint Spec.SM2.G) second r)
    (k : Bytes) (hk : k.length = 32) :
    ∃ P, Curve.scalarBaseMult (Curve.pointOps pointCtx) k first second w s it r = .ok P ∧
      Rep P (Spec.SM2.smul (Bytes.toNatBE k) Spec.SM2.G) := by
  obtain ⟨q, e, hq, hs⟩ := Props.C14.baseMult_spec Props.C15.pointSem hw hr hsum hT hR k hk
  refine ⟨q, e, PointSem.rep_of_sem hq (CurveGroup.smul_valid _ CurveGroup.G_valid) ?_⟩
  rw [hs, CurveGroup.toPoint_smul _ CurveGroup.G_valid]

/-- a scalar of any other length is rejected (the shape guard of the code is discharged by `TableValid`) -/
theorem baseMult_len_err_scheme {first : List Curve.Table} (second : Curve.Table) {w s it r : Nat}
    (hw : w ≤ 8) (hr : r ≤ 4) (hsum : w * s * it + r = 256) (hs : 0 < s)
    (hT : TableValid (Curve.pointOps pointCtx) okXY sem (toPoint Spec.SM2.G) first w s it r)
    (k : Bytes) (hk : k.length ≠ 32) :
    Curve.scalarBaseMult (Curve.pointOps pointCtx) k first second w s it r = .err :=
  Props.C14.baseMult_len_err _ _ _ w s it r hw hr hsum (hT.lenX 0 hs) k hk

/-! ### the generated tables are valid tables of the group-level schedules (C18 → C14) -/

theorem first_4_2_32_valid :
    TableValid (Curve.pointOps pointCtx) okXY sem (toPoint Spec.SM2.G) sm2Precomputed_4_2_32 4 2 32 0 :=
  tableValid_of_firstValid Tables.first_4_2_32

theorem first_5_3_17_valid :
    TableValid (Curve.pointOps pointCtx) okXY sem (toPoint Spec.SM2.G) sm2Precomputed_5_3_17 5 3 17 1 :=
  tableValid_of_firstValid Tables.first_5_3_17

theorem second_5_3_17_valid :
    RemainderValid (Curve.pointOps pointCtx) okXY sem (toPoint Spec.SM2.G) sm2Precomputed_5_3_17_Remainder 1 :=
  remainderValid_of_secondValid Tables.second_5_3_17

theorem first_6_3_14_valid :
    TableValid (Curve.pointOps pointCtx) okXY sem (toPoint Spec.SM2.G) sm2Precomputed_6_3_14 6 3 14 4 :=
  tableValid_of_firstValid Tables.first_6_3_14

theorem second_6_3_14_valid :
    RemainderValid (Curve.pointOps pointCtx) okXY sem (toPoint Spec.SM2.G) sm2Precomputed_6_3_14_Remainder 4 :=
  remainderValid_of_secondValid Tables.second_6_3_14

theorem first_7_3_12_valid :
    TableValid (Curve.pointOps pointCtx) okXY sem (toPoint Spec.SM2.G) sm2Precomputed_7_3_12 7 3 12 4 :=
  tableValid_of_firstValid Tables.first_7_3_12

theorem second_7_3_12_valid :
    RemainderValid (Curve.pointOps pointCtx) okXY sem (toPoint Spec.SM2.G) sm2Precomputed_7_3_12_Remainder 4 :=
  remainderValid_of_secondValid Tables.second_7_3_12

end SMGo.Proofs.SM2SchemesInst

open SMGo.Proofs.SM2SchemesInst
#print axioms baseMult_rep_scheme
#print axioms baseMult_len_err_scheme
#print axioms first_4_2_32_valid
#print axioms first_5_3_17_valid
#print axioms second_5_3_17_valid
#print axioms first_6_3_14_valid
#print axioms second_6_3_14_valid
#print axioms first_7_3_12_valid
#print axioms second_7_3_12_valid
