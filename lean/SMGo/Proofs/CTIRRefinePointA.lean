/-
  Refinement, point layer (part A): the generated IR (SMGo/Gen/CTIRProg.lean) of
    * the element wrappers of /repo/sm2/internal/fiat/sm2_element.go
        `fn_22` Mul, `fn_24` Square, `fn_16` Add, `fn_18` Sub, `fn_20` Opp, `fn_15` Set, `fn_13` One,
        `fn_40` SetRaw, `fn_41` GetRaw,
    * the small point functions of /repo/sm2/internal/sm2_point.go
        `fn_73` NewSM2Point, `fn_74` NewFromXY, `fn_75` Set, `fn_76` Negate, `fn_77` Select,
    * the complete formulas `fn_78` (*SM2Point).Add and `fn_79` (*SM2Point).Double
  computes the hand-written models of SMGo/Model/Point.lean over an arbitrary `Model.Point.Ctx α`, MODULO the six
  straight-line Fiat primitives sm2Mul, sm2Square, sm2Add, sm2Sub, sm2Opp, sm2SetOne (hypothesis bundle
  `FiatPrims`: each IR primitive, started on an `Out4` destination (four limbs below 2^64) and encoded operands,
  returns the encoding of the corresponding `FieldOps` operation; `enc_out4`: encodings are `Out4`; the fields are
  the statements of SMGo/Proofs/CTIRRefineFiat.lean `ir_sm2*_eq_gen` up to `enc`).  Style of
  SMGo/Proofs/CTIRRefineField.lean (`Computes`, `Pre`).  Every result is stated for any program `P` that contains the
  generated functions (`HasPointFns P`, true for `prog`) as a `Computes` fact, and for `prog` as a run (`ir_*`).

  Encodings: element `elemV (enc e)`, point `ptV enc p = ptRawV (enc p.x) (enc p.y) (enc p.z)`
  (`.arr [elemV …, elemV …, elemV …]`); the receiver of a method holds ANY element / point (`elemV o`, `Out4 o`
  where a Fiat primitive writes through it; `ptRawV qa qb qc`).

  Fuel (F* = fuel of the Fiat primitive): wrappers `fuelW F = F + 6`; Set 4; SetRaw 6; GetRaw 2; NewSM2Point
  `fuelW Fone + 4`; NewFromXY `fuelW Fone + 20`; (*SM2Point).Set 26; Negate `fuelW Fopp + 22`; Select 173;
  Add `fuelPtAdd = 14·Fmul + 20·Fadd + 9·Fsub + 456`; Double `fuelPtDouble = 10·Fmul + 15·Fadd + 6·Fsub + 3·Fsq + 366`.

  Other hypotheses, exactly: NewSM2Point `enc F.zero = [0,0,0,0]`; SetRaw / NewFromXY `enc (F.ofRaw l) = l` for the
  4-limb arguments; GetRaw `F.raw e = enc e`; Select (model form) `Out4 (enc e)` and `cond ≤ 1`; Add / Double
  `G 6 = elemV (enc C.b)` (global 6 = `internal.sm2B`), `C.addProg = Gen.PointSLP.add`, `C.addOut = Gen.PointSLP.add_out`
  (resp. `dblProg`, `dblOut`).

  Add and Double are NOT proved by 45 hand-written steps: section 3 proves a generic lemma (`slp_fold`) for the
  evaluation of a list of SLP instructions (`Model.SLP.eval`) against the list of IR statements generated from it
  (`slpStmts`: a register map `String → Loc`, the two calling forms `t := new(Element).Op(a, b)` and `t.Op(a, b)`),
  under a decidable side condition (`slpOk`: operands are live, no live register is clobbered, parameters are not
  written), which the kernel evaluates for the two concrete programs (`add_check`, `dbl_check`); that the generated
  IR bodies ARE the statement lists generated from `Gen.PointSLP.add` / `double` is `fn_78_body` / `fn_79_body` (`rfl`).

  Findings (model vs IR): NONE inside the natural domain.  Outside it, Select inherits the remark of
  CTIRRefineField (cond ∉ {0,1}: the Go code and the IR store the bit-mix `selectN`, the model says p1; what the IR
  does for any cond ≥ 0 is `Select_general`).  Remark (no disagreement): the IR passes values, so the aliasing
  `q.Add(q, p)` is the translator's business at the call sites; here the receiver value is independent of p1, p2.
-/
import SMGo.Proofs.CTIRRefineField
import SMGo.Gen.CTIRProg
import SMGo.Gen.PointSLP
import SMGo.Model.Point
open SMGo SMGo.Model.CTIR SMGo.Gen.CTIRProg SMGo.Proofs.CTIRRefineUtils SMGo.Proofs.CTIRRefineField
set_option linter.unusedSimpArgs false
set_option linter.unusedVariables false

namespace SMGo.Proofs.CTIRRefinePointA

/-! ## Encodings -/

/-- an `SM2Point` on raw limbs: a struct with the three fields `x, y, z` (elements) -/
def ptRawV (a b c : List Nat) : Val := .arr [elemV a, elemV b, elemV c]

/-- an `SM2Point` of the model under the limb encoding `enc` -/
def ptV {α : Type} (enc : α → List Nat) (p : Model.Point.Pt α) : Val := ptRawV (enc p.x) (enc p.y) (enc p.z)

/-- `new(fiat.SM2Element)` -/
def mkE : Expr := .mk (.lit 1) (.mk (.lit 4) (.lit 0))

theorem evalV_mkE {G : Nat → Val} (env : Env) : evalV G env mkE = some (elemV [0, 0, 0, 0]) := by
  rw [mkE, evalV_mk, evalV_mk]; rfl

/-! ## The generated functions this file is about -/

/-- the program contains the generated functions (true for `prog`, and for every slice that keeps them) -/
structure HasPointFns (P : Prog) : Prop where
  h9 : P[9]? = some fn_9
  h10 : P[10]? = some fn_10
  h11 : P[11]? = some fn_11
  h13 : P[13]? = some fn_13
  h15 : P[15]? = some fn_15
  h16 : P[16]? = some fn_16
  h18 : P[18]? = some fn_18
  h20 : P[20]? = some fn_20
  h22 : P[22]? = some fn_22
  h24 : P[24]? = some fn_24
  h40 : P[40]? = some fn_40
  h41 : P[41]? = some fn_41
  h73 : P[73]? = some fn_73
  h74 : P[74]? = some fn_74
  h75 : P[75]? = some fn_75
  h76 : P[76]? = some fn_76
  h77 : P[77]? = some fn_77
  h78 : P[78]? = some fn_78
  h79 : P[79]? = some fn_79

theorem prog_hasPointFns : HasPointFns prog :=
  ⟨rfl, rfl, rfl, rfl, rfl, rfl, rfl, rfl, rfl, rfl, rfl, rfl, rfl, rfl, rfl, rfl, rfl, rfl, rfl⟩

/-- HYPOTHESES: the six straight-line Fiat primitives of the program compute the operations of the abstract
    `FieldOps` on the encodings.  The IR functions take the destination `out1` as first argument (the wrappers pass
    the current limbs of the receiver: any four limbs below 2^64, `Out4`) and return its final value. -/
structure FiatPrims {α : Type} (P : Prog) (G : Nat → Val) (X : Oracle) (F : Model.Field.FieldOps α) (enc : α → List Nat)
    (Fmul Fsq Fadd Fsub Fopp Fone : Nat) : Prop where
  enc_out4 : ∀ e, Out4 (enc e)
  mul : ∀ (o : List Nat) (a b : α), Out4 o →
    Computes P G X f_fiat_sm2Mul Fmul [limbsV o, limbsV (enc a), limbsV (enc b)] [limbsV (enc (F.mul a b))]
  square : ∀ (o : List Nat) (a : α), Out4 o →
    Computes P G X f_fiat_sm2Square Fsq [limbsV o, limbsV (enc a)] [limbsV (enc (F.square a))]
  add : ∀ (o : List Nat) (a b : α), Out4 o →
    Computes P G X f_fiat_sm2Add Fadd [limbsV o, limbsV (enc a), limbsV (enc b)] [limbsV (enc (F.add a b))]
  sub : ∀ (o : List Nat) (a b : α), Out4 o →
    Computes P G X f_fiat_sm2Sub Fsub [limbsV o, limbsV (enc a), limbsV (enc b)] [limbsV (enc (F.sub a b))]
  opp : ∀ (o : List Nat) (a : α), Out4 o →
    Computes P G X f_fiat_sm2Opp Fopp [limbsV o, limbsV (enc a)] [limbsV (enc (F.opp a))]
  one : ∀ (o : List Nat), Out4 o →
    Computes P G X f_fiat_sm2SetOne Fone [limbsV o] [limbsV (enc F.setOne)]

/-- four zero limbs (a fresh `new(fiat.SM2Element)`) -/
theorem out4_zero : Out4 [0, 0, 0, 0] := ⟨0, 0, 0, 0, rfl, by decide, by decide, by decide, by decide⟩

theorem FiatPrims.enc_len {α : Type} {P : Prog} {G : Nat → Val} {X : Oracle} {F : Model.Field.FieldOps α} {enc : α → List Nat}
    {Fmul Fsq Fadd Fsub Fopp Fone : Nat} (h : FiatPrims P G X F enc Fmul Fsq Fadd Fsub Fopp Fone) (e : α) :
    (enc e).length = 4 := (h.enc_out4 e).length


/-! ## 1. The element wrappers

  Mul / Add / Sub, Opp / Square and One have the same bodies up to the number of the primitive they call:
  `wrap3 g`, `wrap2 g`, `wrap1 g`. -/

def wrap3 (g : Nat) : Fn := { nparams := 3, nvars := 5, body :=
  (seqs ([.call [4] g [(.idxc (.var 0) 0), (.idxc (.var 1) 0), (.idxc (.var 2) 0)], .assign 0 [.c 0] (.var 4)]
    ++ [.seq (.ret [(.var 0), (.var 0)]) .panic])) }
def wrap2 (g : Nat) : Fn := { nparams := 2, nvars := 4, body :=
  (seqs ([.call [3] g [(.idxc (.var 0) 0), (.idxc (.var 1) 0)], .assign 0 [.c 0] (.var 3)]
    ++ [.seq (.ret [(.var 0), (.var 0)]) .panic])) }
def wrap1 (g : Nat) : Fn := { nparams := 1, nvars := 3, body :=
  (seqs ([.call [2] g [(.idxc (.var 0) 0)], .assign 0 [.c 0] (.var 2)]
    ++ [.seq (.ret [(.var 0), (.var 0)]) .panic])) }

theorem fn_22_eq : fn_22 = wrap3 f_fiat_sm2Mul := rfl
theorem fn_16_eq : fn_16 = wrap3 f_fiat_sm2Add := rfl
theorem fn_18_eq : fn_18 = wrap3 f_fiat_sm2Sub := rfl
theorem fn_20_eq : fn_20 = wrap2 f_fiat_sm2Opp := rfl
theorem fn_24_eq : fn_24 = wrap2 f_fiat_sm2Square := rfl
theorem fn_13_eq : fn_13 = wrap1 f_fiat_sm2SetOne := rfl

section Wrappers
variable {P : Prog} {G : Nat → Val} {X : Oracle}

/-- `x.x = t` on an element (the single field of the struct is replaced) -/
theorem evIn_setField0 {env : Env} {t : Nat} {o r : List Nat} (h0 : env 0 = elemV o) (ht : env t = limbsV r) :
    EvIn P G X 1 env (.assign 0 [.c 0] (.var t)) (env.set 0 (elemV r)) .norm := by
  have s : evalV G env (.var t) = some (limbsV r) := by rw [evalV_var, ht]
  have g0 : env 0 = .arr [limbsV o] := h0
  exact EvIn.assignPath s (ks := [0]) (by simp [pathV_c]) (by rw [g0, updPath_c1 _ _ _ (by simp)]; rfl)

/-- a wrapper of a ternary primitive, on raw limbs -/
theorem wrap3_computes {w g Fg : Nat} (hw : P[w]? = some (wrap3 g)) (o la lb r : List Nat)
    (h : Computes P G X g Fg [limbsV o, limbsV la, limbsV lb] [limbsV r]) :
    Computes P G X w (Fg + 6) [elemV o, elemV la, elemV lb] [elemV r, elemV r] := by
  let e0 : Env := Env.ofList [elemV o, elemV la, elemV lb]
  let e1 := e0.set 4 (limbsV r)
  let e2 := e1.set 0 (elemV r)
  have c1 : EvIn P G X (Fg + 1) e0 (.call [4] g [(.idxc (.var 0) 0), (.idxc (.var 1) 0), (.idxc (.var 2) 0)]) e1 .norm := by
    refine h.call ?_ rfl
    have q0 : evalV G e0 (.idxc (.var 0) 0) = some (limbsV o) := evalV_field0 rfl
    have q1 : evalV G e0 (.idxc (.var 1) 0) = some (limbsV la) := evalV_field0 rfl
    have q2 : evalV G e0 (.idxc (.var 2) 0) = some (limbsV lb) := evalV_field0 rfl
    simp only [evalVs_cons, evalVs_nil, q0, q1, q2]
  have c2 : EvIn P G X 1 e1 (.assign 0 [.c 0] (.var 4)) e2 .norm :=
    evIn_setField0 (o := o) (by simp [e1, e0, Env.set, Env.ofList]) (by simp [e1, Env.set])
  have sr : evalVs G e2 [(.var 0), (.var 0)] = some [elemV r, elemV r] := by simp [evalVs_cons, e2, Env.set]
  refine Computes.of_body hw rfl rfl (env' := e2) ?_
  exact ((Pre.cons c1 (Pre.cons c2 (Pre.nil _)) _).1 _ _ _ (EvIn.seq_stop (EvIn.ret sr) (by simp))).mono (by omega)

/-- a wrapper of a binary primitive, on raw limbs -/
theorem wrap2_computes {w g Fg : Nat} (hw : P[w]? = some (wrap2 g)) (o la r : List Nat)
    (h : Computes P G X g Fg [limbsV o, limbsV la] [limbsV r]) :
    Computes P G X w (Fg + 6) [elemV o, elemV la] [elemV r, elemV r] := by
  let e0 : Env := Env.ofList [elemV o, elemV la]
  let e1 := e0.set 3 (limbsV r)
  let e2 := e1.set 0 (elemV r)
  have c1 : EvIn P G X (Fg + 1) e0 (.call [3] g [(.idxc (.var 0) 0), (.idxc (.var 1) 0)]) e1 .norm := by
    refine h.call ?_ rfl
    have q0 : evalV G e0 (.idxc (.var 0) 0) = some (limbsV o) := evalV_field0 rfl
    have q1 : evalV G e0 (.idxc (.var 1) 0) = some (limbsV la) := evalV_field0 rfl
    simp only [evalVs_cons, evalVs_nil, q0, q1]
  have c2 : EvIn P G X 1 e1 (.assign 0 [.c 0] (.var 3)) e2 .norm :=
    evIn_setField0 (o := o) (by simp [e1, e0, Env.set, Env.ofList]) (by simp [e1, Env.set])
  have sr : evalVs G e2 [(.var 0), (.var 0)] = some [elemV r, elemV r] := by simp [evalVs_cons, e2, Env.set]
  refine Computes.of_body hw rfl rfl (env' := e2) ?_
  exact ((Pre.cons c1 (Pre.cons c2 (Pre.nil _)) _).1 _ _ _ (EvIn.seq_stop (EvIn.ret sr) (by simp))).mono (by omega)

/-- a wrapper of a unary primitive, on raw limbs -/
theorem wrap1_computes {w g Fg : Nat} (hw : P[w]? = some (wrap1 g)) (o r : List Nat)
    (h : Computes P G X g Fg [limbsV o] [limbsV r]) :
    Computes P G X w (Fg + 6) [elemV o] [elemV r, elemV r] := by
  let e0 : Env := Env.ofList [elemV o]
  let e1 := e0.set 2 (limbsV r)
  let e2 := e1.set 0 (elemV r)
  have c1 : EvIn P G X (Fg + 1) e0 (.call [2] g [(.idxc (.var 0) 0)]) e1 .norm := by
    refine h.call ?_ rfl
    have q0 : evalV G e0 (.idxc (.var 0) 0) = some (limbsV o) := evalV_field0 rfl
    simp only [evalVs_cons, evalVs_nil, q0]
  have c2 : EvIn P G X 1 e1 (.assign 0 [.c 0] (.var 2)) e2 .norm :=
    evIn_setField0 (o := o) (by simp [e1, e0, Env.set, Env.ofList]) (by simp [e1, Env.set])
  have sr : evalVs G e2 [(.var 0), (.var 0)] = some [elemV r, elemV r] := by simp [evalVs_cons, e2, Env.set]
  refine Computes.of_body hw rfl rfl (env' := e2) ?_
  exact ((Pre.cons c1 (Pre.cons c2 (Pre.nil _)) _).1 _ _ _ (EvIn.seq_stop (EvIn.ret sr) (by simp))).mono (by omega)

/-- fuel of a wrapper given the fuel of its primitive -/
def fuelW (Fg : Nat) : Nat := Fg + 6

theorem fn_15_body : fn_15.body =
    seqs ([.assign 0 [.c 0] (.idxc (.var 1) 0)] ++ [.seq (.ret [(.var 0), (.var 0)]) .panic]) := rfl

/-- **(*SM2Element).Set**: copies the limbs, any receiver, any limbs -/
theorem Set_computes (h15 : P[15]? = some fn_15) (o t : List Nat) :
    Computes P G X f_fiat_SM2Element_Set 4 [elemV o, elemV t] [elemV t, elemV t] := by
  let e0 : Env := Env.ofList [elemV o, elemV t]
  let e1 := e0.set 0 (elemV t)
  have c1 : EvIn P G X 1 e0 (.assign 0 [.c 0] (.idxc (.var 1) 0)) e1 .norm := by
    have s : evalV G e0 (.idxc (.var 1) 0) = some (limbsV t) := evalV_field0 rfl
    have g0 : e0 0 = .arr [limbsV o] := rfl
    exact EvIn.assignPath s (ks := [0]) (by simp [pathV_c]) (by rw [g0, updPath_c1 _ _ _ (by simp)]; rfl)
  have sr : evalVs G e1 [(.var 0), (.var 0)] = some [elemV t, elemV t] := by simp [evalVs_cons, e1, Env.set]
  refine Computes.of_body h15 rfl rfl (env' := e1) ?_
  rw [fn_15_body]
  exact ((Pre.cons c1 (Pre.nil _) _).1 _ _ _ (EvIn.seq_stop (EvIn.ret sr) (by simp))).mono (by omega)

theorem fn_40_body : fn_40.body =
    seqs ([.assign 3 [] (.op2 .min (.op2 (.sub .i64) (.len (.idxc (.var 0) 0)) (.lit 0)) (.len (.var 1))),
      .assign 0 [.c 0] (.cat (.slice (.idxc (.var 0) 0) (.lit 0) (.lit 0)) (.cat (.slice (.var 1) (.lit 0) (.var 3))
        (.slice (.idxc (.var 0) 0) (.op2 (.add .i64) (.lit 0) (.var 3)) (.len (.idxc (.var 0) 0)))))]
      ++ [.seq (.ret [(.var 0), (.var 0)]) .panic]) := rfl

/-- **(*SM2Element).SetRaw**, on raw limbs: `copy(e.x[:], raw[:])` with both sides of the same length (4 in the Go
    types; any length below 2^63 here) stores `raw` -/
theorem SetRaw_computes (h40 : P[40]? = some fn_40) (o l : List Nat) (ho : o.length = l.length)
    (hn : l.length < 9223372036854775808) :
    Computes P G X f_fiat_SM2Element_SetRaw 6 [elemV o, limbsV l] [elemV l, elemV l] := by
  let e0 : Env := Env.ofList [elemV o, limbsV l]
  let e1 := e0.set 3 (.int (l.length : Int))
  let e2 := e1.set 0 (elemV l)
  have lo : (o.map (fun (x : Nat) => Val.int (x : Int))).length = l.length := by rw [List.length_map, ho]
  have ll : (l.map (fun (x : Nat) => Val.int (x : Int))).length = l.length := by rw [List.length_map]
  have c1 : EvIn P G X 1 e0 (.assign 3 [] (.op2 .min (.op2 (.sub .i64) (.len (.idxc (.var 0) 0)) (.lit 0)) (.len (.var 1)))) e1 .norm := by
    refine EvIn.assign ?_
    have q0 : evalV G e0 (.idxc (.var 0) 0) = some (limbsV o) := evalV_field0 rfl
    have g1 : e0 1 = limbsV l := rfl
    have en : norm .i64 ((l.length : Int) - 0) = (l.length : Int) := by
      rw [norm_i64_small (by omega) (by omega)]; omega
    simp only [evalV_op2, evalV_len, q0, evalV_var, evalV_lit, g1, limbsV, lo, ll, evalOp2, Option.map_some, en,
      Int.le_refl, if_true]
  have c2 : EvIn P G X 1 e1 (.assign 0 [.c 0] (.cat (.slice (.idxc (.var 0) 0) (.lit 0) (.lit 0)) (.cat (.slice (.var 1) (.lit 0) (.var 3))
        (.slice (.idxc (.var 0) 0) (.op2 (.add .i64) (.lit 0) (.var 3)) (.len (.idxc (.var 0) 0)))))) e2 .norm := by
    have q0 : evalV G e1 (.idxc (.var 0) 0) = some (limbsV o) := evalV_field0 (by simp [e1, e0, Env.set, Env.ofList])
    have g1 : e1 1 = limbsV l := by simp [e1, e0, Env.set, Env.ofList]
    have g3 : e1 3 = .int (l.length : Int) := by simp [e1, Env.set]
    have en : norm .i64 (0 + (l.length : Int)) = (l.length : Int) := by
      rw [norm_i64_small (by omega) (by omega)]; omega
    have s1 := sliceList_front (o.map (fun (x : Nat) => Val.int (x : Int)))
    have s2 := sliceList_full (l.map (fun (x : Nat) => Val.int (x : Int)))
    have s3 := sliceList_back (o.map (fun (x : Nat) => Val.int (x : Int)))
    rw [ll] at s2
    rw [lo] at s3
    have s : evalV G e1 (.cat (.slice (.idxc (.var 0) 0) (.lit 0) (.lit 0)) (.cat (.slice (.var 1) (.lit 0) (.var 3))
        (.slice (.idxc (.var 0) 0) (.op2 (.add .i64) (.lit 0) (.var 3)) (.len (.idxc (.var 0) 0))))) = some (limbsV l) := by
      simp only [evalV_cat, evalV_slice, evalV_op2, evalV_len, q0, evalV_var, evalV_lit, g1, g3, limbsV, lo, evalOp2,
        Option.map_some, en, s1, s2, s3, List.nil_append, List.append_nil]
    have g0 : e1 0 = .arr [limbsV o] := by simp [e1, e0, Env.set, Env.ofList, elemV]
    exact EvIn.assignPath s (ks := [0]) (by simp [pathV_c]) (by rw [g0, updPath_c1 _ _ _ (by simp)]; rfl)
  have sr : evalVs G e2 [(.var 0), (.var 0)] = some [elemV l, elemV l] := by simp [evalVs_cons, e2, Env.set]
  refine Computes.of_body h40 rfl rfl (env' := e2) ?_
  rw [fn_40_body]
  exact ((Pre.cons c1 (Pre.cons c2 (Pre.nil _)) _).1 _ _ _ (EvIn.seq_stop (EvIn.ret sr) (by simp))).mono (by omega)

/-- **(*SM2Element).GetRaw**, on raw limbs: returns the limbs -/
theorem GetRaw_computes (h41 : P[41]? = some fn_41) (l : List Nat) :
    Computes P G X f_fiat_SM2Element_GetRaw 2 [elemV l] [limbsV l] := by
  have sr : evalVs G (Env.ofList [elemV l]) [(.idxc (.var 0) 0)] = some [limbsV l] := by
    have q0 : evalV G (Env.ofList [elemV l]) (.idxc (.var 0) 0) = some (limbsV l) := evalV_field0 rfl
    simp only [evalVs_cons, evalVs_nil, q0]
  refine Computes.of_body h41 rfl rfl (env' := Env.ofList [elemV l]) ?_
  exact EvIn.seq_stop (b := .panic) (EvIn.ret sr) (by simp)

end Wrappers

/-! ### The wrappers over an abstract `FieldOps` -/

section WrappersField
variable {α : Type} {P : Prog} {G : Nat → Val} {X : Oracle} {F : Model.Field.FieldOps α} {enc : α → List Nat}
  {Fmul Fsq Fadd Fsub Fopp Fone : Nat}

/-- **(*SM2Element).Mul** = `F.mul`; the receiver holds any four limbs -/
theorem Mul_computes (hw : HasPointFns P) (hp : FiatPrims P G X F enc Fmul Fsq Fadd Fsub Fopp Fone)
    (o : List Nat) (ho : Out4 o) (a b : α) :
    Computes P G X f_fiat_SM2Element_Mul (fuelW Fmul) [elemV o, elemV (enc a), elemV (enc b)]
      [elemV (enc (F.mul a b)), elemV (enc (F.mul a b))] :=
  wrap3_computes (by rw [← fn_22_eq]; exact hw.h22) _ _ _ _ (hp.mul o a b ho)

/-- **(*SM2Element).Add** = `F.add` -/
theorem Add_computes (hw : HasPointFns P) (hp : FiatPrims P G X F enc Fmul Fsq Fadd Fsub Fopp Fone)
    (o : List Nat) (ho : Out4 o) (a b : α) :
    Computes P G X f_fiat_SM2Element_Add (fuelW Fadd) [elemV o, elemV (enc a), elemV (enc b)]
      [elemV (enc (F.add a b)), elemV (enc (F.add a b))] :=
  wrap3_computes (by rw [← fn_16_eq]; exact hw.h16) _ _ _ _ (hp.add o a b ho)

/-- **(*SM2Element).Sub** = `F.sub` -/
theorem Sub_computes (hw : HasPointFns P) (hp : FiatPrims P G X F enc Fmul Fsq Fadd Fsub Fopp Fone)
    (o : List Nat) (ho : Out4 o) (a b : α) :
    Computes P G X f_fiat_SM2Element_Sub (fuelW Fsub) [elemV o, elemV (enc a), elemV (enc b)]
      [elemV (enc (F.sub a b)), elemV (enc (F.sub a b))] :=
  wrap3_computes (by rw [← fn_18_eq]; exact hw.h18) _ _ _ _ (hp.sub o a b ho)

/-- **(*SM2Element).Square** = `F.square` -/
theorem Square_computes (hw : HasPointFns P) (hp : FiatPrims P G X F enc Fmul Fsq Fadd Fsub Fopp Fone)
    (o : List Nat) (ho : Out4 o) (a : α) :
    Computes P G X f_fiat_SM2Element_Square (fuelW Fsq) [elemV o, elemV (enc a)]
      [elemV (enc (F.square a)), elemV (enc (F.square a))] :=
  wrap2_computes (by rw [← fn_24_eq]; exact hw.h24) _ _ _ (hp.square o a ho)

/-- **(*SM2Element).Opp** = `F.opp` -/
theorem Opp_computes (hw : HasPointFns P) (hp : FiatPrims P G X F enc Fmul Fsq Fadd Fsub Fopp Fone)
    (o : List Nat) (ho : Out4 o) (a : α) :
    Computes P G X f_fiat_SM2Element_Opp (fuelW Fopp) [elemV o, elemV (enc a)]
      [elemV (enc (F.opp a)), elemV (enc (F.opp a))] :=
  wrap2_computes (by rw [← fn_20_eq]; exact hw.h20) _ _ _ (hp.opp o a ho)

/-- **(*SM2Element).One** = `F.setOne` -/
theorem One_computes (hw : HasPointFns P) (hp : FiatPrims P G X F enc Fmul Fsq Fadd Fsub Fopp Fone)
    (o : List Nat) (ho : Out4 o) :
    Computes P G X f_fiat_SM2Element_One (fuelW Fone) [elemV o] [elemV (enc F.setOne), elemV (enc F.setOne)] :=
  wrap1_computes (by rw [← fn_13_eq]; exact hw.h13) _ _ (hp.one o ho)

/-- **(*SM2Element).SetRaw** = `F.ofRaw`, for four limbs that the encoding reproduces (`enc (F.ofRaw l) = l`: true
    for the limb carrier, where `ofRaw` and `enc` are the identity; for the residue carrier it says that the limbs
    are those of a number below 2^256) -/
theorem SetRaw_field (hw : HasPointFns P) (o l : List Nat) (ho : o.length = 4) (hl : l.length = 4)
    (hraw : enc (F.ofRaw l) = l) :
    Computes P G X f_fiat_SM2Element_SetRaw 6 [elemV o, limbsV l] [elemV (enc (F.ofRaw l)), elemV (enc (F.ofRaw l))] := by
  rw [hraw]
  exact SetRaw_computes hw.h40 o l (by rw [ho, hl]) (by rw [hl]; decide)

/-- **(*SM2Element).GetRaw** = `F.raw`, for an element whose raw limbs are its encoding (`F.raw e = enc e`) -/
theorem GetRaw_field (hw : HasPointFns P) (e : α) (hraw : F.raw e = enc e) :
    Computes P G X f_fiat_SM2Element_GetRaw 2 [elemV (enc e)] [limbsV (F.raw e)] := by
  rw [hraw]
  exact GetRaw_computes hw.h41 _

end WrappersField


/-! ## 2. The small point functions -/

section PointHelpers
variable {P : Prog} {G : Nat → Val} {X : Oracle}

theorem evalV_mk1 {env : Env} {e : Expr} {v : Val} (h : evalV G env e = some v) :
    evalV G env (.mk (.lit 1) e) = some (.arr [v]) := by
  rw [evalV_mk, evalV_lit, h]; rfl

/-- a field of a struct held in a variable -/
theorem evalV_coord {env : Env} {x k : Nat} {l : List Val} {e : Val} (h : env x = .arr l) (hk : l[k]? = some e) :
    evalV G env (.idxc (.var x) k) = some e := by
  rw [evalV_idxc, evalV_var, h]
  exact hk

/-- `&SM2Point{x: a, y: b, z: c}` -/
theorem evalV_mkPoint {env : Env} {ea eb ec : Expr} {a b c : Val} (ha : evalV G env ea = some a)
    (hb : evalV G env eb = some b) (hc : evalV G env ec = some c) :
    evalV G env (.cat (.mk (.lit 1) ea) (.cat (.mk (.lit 1) eb) (.mk (.lit 1) ec))) = some (.arr [a, b, c]) := by
  simp only [evalV_cat, evalV_mk1 ha, evalV_mk1 hb, evalV_mk1 hc]
  rfl

/-- one coordinate of a point method: `q.k.Op(args…)`, i.e. a call of an element wrapper whose first result is
    stored into field `k` of the receiver (variable 0) -/
theorem coord_pair {env : Env} {t sc W FW k : Nat} {args : List Expr} {vs : List Val} {r r' : Val} {l : List Val}
    (hc : Computes P G X W FW vs [r, r']) (ha : evalVs G env args = some vs) (h0 : env 0 = .arr l) (hk : k < l.length)
    (ht : t ≠ 0) (hsc : sc ≠ 0) (hts : t ≠ sc) :
    ∃ env', Pre P G X (FW + 4) env [.call [t, sc] W args, .assign 0 [.c k] (.var t)] env' ∧
      env' 0 = .arr (l.set k r) ∧ ∀ x, x ≠ 0 → x ≠ t → x ≠ sc → env' x = env x := by
  let e1 := (env.set t r).set sc r'
  let e2 := e1.set 0 (.arr (l.set k r))
  have c1 : EvIn P G X (FW + 1) env (.call [t, sc] W args) e1 .norm := hc.call ha rfl
  have g0 : e1 0 = .arr l := by
    show ((env.set t r).set sc r') 0 = .arr l
    rw [Env.set_other _ _ (Ne.symm hsc), Env.set_other _ _ (Ne.symm ht), h0]
  have gt : e1 t = r := by
    show ((env.set t r).set sc r') t = r
    rw [Env.set_other _ _ hts, Env.set_same]
  have c2 : EvIn P G X 1 e1 (.assign 0 [.c k] (.var t)) e2 .norm := by
    have s : evalV G e1 (.var t) = some r := by rw [evalV_var, gt]
    exact EvIn.assignPath s (ks := [k]) (by simp [pathV_c]) (by rw [g0, updPath_c1 _ _ _ hk])
  refine ⟨e2, (Pre.cons c1 (Pre.cons c2 (Pre.nil _))).mono (by omega), Env.set_same _ _ _, ?_⟩
  intro x hx0 hxt hxs
  show (((env.set t r).set sc r').set 0 (.arr (l.set k r))) x = env x
  rw [Env.set_other _ _ hx0, Env.set_other _ _ hxs, Env.set_other _ _ hxt]

/-- the assignment of the receiver at the end of Add / Double (`q.x.Set(x3); q.y.Set(y3); q.z.Set(z3)`) -/
def tailStmts (sc vx vy vz t0 t1 t2 : Nat) : List Stmt :=
  [.call [t0, sc] 15 [(.idxc (.var 0) 0), (.var vx)], .assign 0 [.c 0] (.var t0),
   .call [t1, sc] 15 [(.idxc (.var 0) 1), (.var vy)], .assign 0 [.c 1] (.var t1),
   .call [t2, sc] 15 [(.idxc (.var 0) 2), (.var vz)], .assign 0 [.c 2] (.var t2)]

theorem tail_ok (h15 : P[15]? = some fn_15) {env : Env} {sc vx vy vz t0 t1 t2 : Nat} {qa qb qc rx ry rz : List Nat}
    (h0 : env 0 = ptRawV qa qb qc) (hx : env vx = elemV rx) (hy : env vy = elemV ry) (hz : env vz = elemV rz)
    (hsc : sc ≠ 0) (ht0 : t0 ≠ 0 ∧ t0 ≠ sc) (ht1 : t1 ≠ 0 ∧ t1 ≠ sc) (ht2 : t2 ≠ 0 ∧ t2 ≠ sc)
    (hvy : vy ≠ 0 ∧ vy ≠ t0 ∧ vy ≠ sc) (hvz : vz ≠ 0 ∧ vz ≠ t0 ∧ vz ≠ sc ∧ vz ≠ t1) :
    ∃ env', Pre P G X 24 env (tailStmts sc vx vy vz t0 t1 t2) env' ∧ env' 0 = ptRawV rx ry rz := by
  have a1 : evalVs G env [(.idxc (.var 0) 0), (.var vx)] = some [elemV qa, elemV rx] := by
    have q : evalV G env (.idxc (.var 0) 0) = some (elemV qa) := evalV_coord h0 rfl
    simp only [evalVs_cons, evalVs_nil, q, evalV_var, hx]
  obtain ⟨e1, p1, g1, f1⟩ := coord_pair (t := t0) (sc := sc) (k := 0) (Set_computes (P := P) (G := G) (X := X) h15 qa rx) a1 h0
    (by simp) ht0.1 hsc ht0.2
  have g1' : e1 0 = .arr [elemV rx, elemV qb, elemV qc] := g1
  have a2 : evalVs G e1 [(.idxc (.var 0) 1), (.var vy)] = some [elemV qb, elemV ry] := by
    have q : evalV G e1 (.idxc (.var 0) 1) = some (elemV qb) := evalV_coord g1' rfl
    simp only [evalVs_cons, evalVs_nil, q, evalV_var, f1 vy hvy.1 hvy.2.1 hvy.2.2, hy]
  obtain ⟨e2, p2, g2, f2⟩ := coord_pair (t := t1) (sc := sc) (k := 1) (Set_computes (P := P) (G := G) (X := X) h15 qb ry) a2 g1'
    (by simp) ht1.1 hsc ht1.2
  have g2' : e2 0 = .arr [elemV rx, elemV ry, elemV qc] := g2
  have a3 : evalVs G e2 [(.idxc (.var 0) 2), (.var vz)] = some [elemV qc, elemV rz] := by
    have q : evalV G e2 (.idxc (.var 0) 2) = some (elemV qc) := evalV_coord g2' rfl
    simp only [evalVs_cons, evalVs_nil, q, evalV_var, f2 vz hvz.1 hvz.2.2.2 hvz.2.2.1, f1 vz hvz.1 hvz.2.1 hvz.2.2.1, hz]
  obtain ⟨e3, p3, g3, f3⟩ := coord_pair (t := t2) (sc := sc) (k := 2) (Set_computes (P := P) (G := G) (X := X) h15 qc rz) a3 g2'
    (by simp) ht2.1 hsc ht2.2
  exact ⟨e3, (Pre.append p1 (Pre.append p2 p3)).mono (by omega), g3⟩

end PointHelpers

theorem fn_73_body : fn_73.body =
    seqs ([.call [0, 1] 13 [mkE]] ++ [.seq (.ret [(.cat (.mk (.lit 1) mkE) (.cat (.mk (.lit 1) (.var 1)) (.mk (.lit 1) mkE)))]) .panic]) := rfl

theorem fn_74_body : fn_74.body =
    seqs ([.call [2, 3] 40 [mkE, (.var 0)], .call [2, 4] 40 [mkE, (.var 1)], .call [2, 5] 13 [mkE]]
      ++ [.seq (.ret [(.cat (.mk (.lit 1) (.var 3)) (.cat (.mk (.lit 1) (.var 4)) (.mk (.lit 1) (.var 5))))]) .panic]) := rfl

theorem fn_75_body : fn_75.body =
    seqs (([.call [3, 2] 15 [(.idxc (.var 0) 0), (.idxc (.var 1) 0)], .assign 0 [.c 0] (.var 3)] ++
      ([.call [4, 2] 15 [(.idxc (.var 0) 1), (.idxc (.var 1) 1)], .assign 0 [.c 1] (.var 4)] ++
       [.call [5, 2] 15 [(.idxc (.var 0) 2), (.idxc (.var 1) 2)], .assign 0 [.c 2] (.var 5)]))
      ++ [.seq (.ret [(.var 0), (.var 0)]) .panic]) := rfl

theorem fn_76_body : fn_76.body =
    seqs (([.call [3, 2] 15 [(.idxc (.var 0) 0), (.idxc (.var 1) 0)], .assign 0 [.c 0] (.var 3)] ++
      ([.call [4, 2] 20 [(.idxc (.var 0) 1), (.idxc (.var 1) 1)], .assign 0 [.c 1] (.var 4)] ++
       [.call [5, 2] 15 [(.idxc (.var 0) 2), (.idxc (.var 1) 2)], .assign 0 [.c 2] (.var 5)]))
      ++ [.seq (.ret [(.var 0), (.var 0)]) .panic]) := rfl

theorem fn_77_body : fn_77.body =
    seqs (([.call [5, 4] 9 [(.idxc (.var 0) 0), (.idxc (.var 1) 0), (.idxc (.var 2) 0), (.var 3)], .assign 0 [.c 0] (.var 5)] ++
      ([.call [6, 4] 9 [(.idxc (.var 0) 1), (.idxc (.var 1) 1), (.idxc (.var 2) 1), (.var 3)], .assign 0 [.c 1] (.var 6)] ++
       [.call [7, 4] 9 [(.idxc (.var 0) 2), (.idxc (.var 1) 2), (.idxc (.var 2) 2), (.var 3)], .assign 0 [.c 2] (.var 7)]))
      ++ [.seq (.ret [(.var 0), (.var 0)]) .panic]) := rfl

section PointFns
variable {α : Type} {P : Prog} {G : Nat → Val} {X : Oracle} {enc : α → List Nat}
  {Fmul Fsq Fadd Fsub Fopp Fone : Nat}

/-- **NewFromXY**, on raw limbs (`one` = what `One` stores) -/
theorem NewFromXY_raw (hw : HasPointFns P) {Fo : Nat} (x y one : List Nat) (hx : x.length = 4) (hy : y.length = 4)
    (hone : Computes P G X f_fiat_SM2Element_One Fo [elemV [0, 0, 0, 0]] [elemV one, elemV one]) :
    Computes P G X f_internal_NewFromXY (Fo + 20) [limbsV x, limbsV y] [ptRawV x y one] := by
  let e0 : Env := Env.ofList [limbsV x, limbsV y]
  let e1 := (e0.set 2 (elemV x)).set 3 (elemV x)
  let e2 := (e1.set 2 (elemV y)).set 4 (elemV y)
  let e3 := (e2.set 2 (elemV one)).set 5 (elemV one)
  have c1 : EvIn P G X (6 + 1) e0 (.call [2, 3] 40 [mkE, (.var 0)]) e1 .norm := by
    refine (SetRaw_computes hw.h40 [0, 0, 0, 0] x (by rw [hx]; rfl) (by rw [hx]; decide)).call ?_ rfl
    simp only [evalVs_cons, evalVs_nil, evalV_mkE, evalV_var]
    rfl
  have c2 : EvIn P G X (6 + 1) e1 (.call [2, 4] 40 [mkE, (.var 1)]) e2 .norm := by
    refine (SetRaw_computes hw.h40 [0, 0, 0, 0] y (by rw [hy]; rfl) (by rw [hy]; decide)).call ?_ rfl
    simp only [evalVs_cons, evalVs_nil, evalV_mkE, evalV_var]
    rfl
  have c3 : EvIn P G X (Fo + 1) e2 (.call [2, 5] 13 [mkE]) e3 .norm := by
    refine hone.call ?_ rfl
    simp only [evalVs_cons, evalVs_nil, evalV_mkE]
  have sr : evalVs G e3 [(.cat (.mk (.lit 1) (.var 3)) (.cat (.mk (.lit 1) (.var 4)) (.mk (.lit 1) (.var 5))))]
      = some [ptRawV x y one] := by
    have q := evalV_mkPoint (G := G) (env := e3) (ea := .var 3) (eb := .var 4) (ec := .var 5) (a := elemV x) (b := elemV y)
      (c := elemV one) (by simp [e3, e2, e1, Env.set]) (by simp [e3, e2, Env.set]) (by simp [e3, Env.set])
    simp only [evalVs_cons, evalVs_nil, q, ptRawV]
  refine Computes.of_body hw.h74 rfl rfl (env' := e3) ?_
  rw [fn_74_body]
  exact ((Pre.cons c1 (Pre.cons c2 (Pre.cons c3 (Pre.nil _))) _).1 _ _ _ (EvIn.seq_stop (EvIn.ret sr) (by simp))).mono (by omega)

/-- **(*SM2Point).Set**, on raw limbs: copies the three coordinates, any receiver -/
theorem PointSet_computes (hw : HasPointFns P) (qa qb qc a b c : List Nat) :
    Computes P G X f_internal_SM2Point_Set 26 [ptRawV qa qb qc, ptRawV a b c] [ptRawV a b c, ptRawV a b c] := by
  let e0 : Env := Env.ofList [ptRawV qa qb qc, ptRawV a b c]
  have h0 : e0 0 = .arr [elemV qa, elemV qb, elemV qc] := rfl
  have h1 : e0 1 = .arr [elemV a, elemV b, elemV c] := rfl
  have a1 : evalVs G e0 [(.idxc (.var 0) 0), (.idxc (.var 1) 0)] = some [elemV qa, elemV a] := by
    simp only [evalVs_cons, evalVs_nil, evalV_coord (G := G) h0 (k := 0) rfl, evalV_coord (G := G) h1 (k := 0) rfl]
  obtain ⟨e1, p1, g1, f1⟩ := coord_pair (t := 3) (sc := 2) (k := 0) (Set_computes (P := P) (G := G) (X := X) hw.h15 qa a) a1 h0
    (by simp) (by decide) (by decide) (by decide)
  have g1' : e1 0 = .arr [elemV a, elemV qb, elemV qc] := g1
  have h1' : e1 1 = .arr [elemV a, elemV b, elemV c] := by rw [f1 1 (by decide) (by decide) (by decide)]; rfl
  have a2 : evalVs G e1 [(.idxc (.var 0) 1), (.idxc (.var 1) 1)] = some [elemV qb, elemV b] := by
    simp only [evalVs_cons, evalVs_nil, evalV_coord (G := G) g1' (k := 1) rfl, evalV_coord (G := G) h1' (k := 1) rfl]
  obtain ⟨e2, p2, g2, f2⟩ := coord_pair (t := 4) (sc := 2) (k := 1) (Set_computes (P := P) (G := G) (X := X) hw.h15 qb b) a2 g1'
    (by simp) (by decide) (by decide) (by decide)
  have g2' : e2 0 = .arr [elemV a, elemV b, elemV qc] := g2
  have h1'' : e2 1 = .arr [elemV a, elemV b, elemV c] := by rw [f2 1 (by decide) (by decide) (by decide)]; exact h1'
  have a3 : evalVs G e2 [(.idxc (.var 0) 2), (.idxc (.var 1) 2)] = some [elemV qc, elemV c] := by
    simp only [evalVs_cons, evalVs_nil, evalV_coord (G := G) g2' (k := 2) rfl, evalV_coord (G := G) h1'' (k := 2) rfl]
  obtain ⟨e3, p3, g3, f3⟩ := coord_pair (t := 5) (sc := 2) (k := 2) (Set_computes (P := P) (G := G) (X := X) hw.h15 qc c) a3 g2'
    (by simp) (by decide) (by decide) (by decide)
  have g3' : e3 0 = ptRawV a b c := g3
  have sr : evalVs G e3 [(.var 0), (.var 0)] = some [ptRawV a b c, ptRawV a b c] := by
    simp only [evalVs_cons, evalVs_nil, evalV_var, g3']
  refine Computes.of_body hw.h75 rfl rfl (env' := e3) ?_
  rw [fn_75_body]
  exact ((Pre.append p1 (Pre.append p2 p3) _).1 _ _ _ (EvIn.seq_stop (EvIn.ret sr) (by simp))).mono (by omega)

/-- **(*SM2Point).Negate**, on raw limbs, given what `Opp` computes on the `y` coordinates -/
theorem Negate_raw (hw : HasPointFns P) {Fo : Nat} (qa qb qc a b c nb : List Nat)
    (hopp : Computes P G X f_fiat_SM2Element_Opp Fo [elemV qb, elemV b] [elemV nb, elemV nb]) :
    Computes P G X f_internal_SM2Point_Negate (Fo + 22) [ptRawV qa qb qc, ptRawV a b c] [ptRawV a nb c, ptRawV a nb c] := by
  let e0 : Env := Env.ofList [ptRawV qa qb qc, ptRawV a b c]
  have h0 : e0 0 = .arr [elemV qa, elemV qb, elemV qc] := rfl
  have h1 : e0 1 = .arr [elemV a, elemV b, elemV c] := rfl
  have a1 : evalVs G e0 [(.idxc (.var 0) 0), (.idxc (.var 1) 0)] = some [elemV qa, elemV a] := by
    simp only [evalVs_cons, evalVs_nil, evalV_coord (G := G) h0 (k := 0) rfl, evalV_coord (G := G) h1 (k := 0) rfl]
  obtain ⟨e1, p1, g1, f1⟩ := coord_pair (t := 3) (sc := 2) (k := 0) (Set_computes (P := P) (G := G) (X := X) hw.h15 qa a) a1 h0
    (by simp) (by decide) (by decide) (by decide)
  have g1' : e1 0 = .arr [elemV a, elemV qb, elemV qc] := g1
  have h1' : e1 1 = .arr [elemV a, elemV b, elemV c] := by rw [f1 1 (by decide) (by decide) (by decide)]; rfl
  have a2 : evalVs G e1 [(.idxc (.var 0) 1), (.idxc (.var 1) 1)] = some [elemV qb, elemV b] := by
    simp only [evalVs_cons, evalVs_nil, evalV_coord (G := G) g1' (k := 1) rfl, evalV_coord (G := G) h1' (k := 1) rfl]
  obtain ⟨e2, p2, g2, f2⟩ := coord_pair (t := 4) (sc := 2) (k := 1) hopp a2 g1'
    (by simp) (by decide) (by decide) (by decide)
  have g2' : e2 0 = .arr [elemV a, elemV nb, elemV qc] := g2
  have h1'' : e2 1 = .arr [elemV a, elemV b, elemV c] := by rw [f2 1 (by decide) (by decide) (by decide)]; exact h1'
  have a3 : evalVs G e2 [(.idxc (.var 0) 2), (.idxc (.var 1) 2)] = some [elemV qc, elemV c] := by
    simp only [evalVs_cons, evalVs_nil, evalV_coord (G := G) g2' (k := 2) rfl, evalV_coord (G := G) h1'' (k := 2) rfl]
  obtain ⟨e3, p3, g3, f3⟩ := coord_pair (t := 5) (sc := 2) (k := 2) (Set_computes (P := P) (G := G) (X := X) hw.h15 qc c) a3 g2'
    (by simp) (by decide) (by decide) (by decide)
  have g3' : e3 0 = ptRawV a nb c := g3
  have sr : evalVs G e3 [(.var 0), (.var 0)] = some [ptRawV a nb c, ptRawV a nb c] := by
    simp only [evalVs_cons, evalVs_nil, evalV_var, g3']
  refine Computes.of_body hw.h76 rfl rfl (env' := e3) ?_
  rw [fn_76_body]
  exact ((Pre.append p1 (Pre.append p2 p3) _).1 _ _ _ (EvIn.seq_stop (EvIn.ret sr) (by simp))).mono (by omega)

/-- fuel for (*SM2Point).Select -/
def fuelPtSelect : Nat := 173

/-- **(*SM2Point).Select**, every `cond ≥ 0`, on raw limbs: coordinate-wise the limb mix `selectN` of
    CTIRRefineField (`(m & a[k]) | (^m & b[k])`, `m = uint64(cond) * 0xff…ff`) -/
theorem Select_general (hw : HasPointFns P) (qa qb qc a1 b1 c1 a2 b2 c2 : List Nat) (cond : Nat)
    (hqa : qa.length = 4) (hqb : qb.length = 4) (hqc : qc.length = 4)
    (ha1 : 4 ≤ a1.length) (hb1 : 4 ≤ b1.length) (hc1 : 4 ≤ c1.length)
    (ha2 : 4 ≤ a2.length) (hb2 : 4 ≤ b2.length) (hc2 : 4 ≤ c2.length) :
    Computes P G X f_internal_SM2Point_Select fuelPtSelect
      [ptRawV qa qb qc, ptRawV a1 b1 c1, ptRawV a2 b2 c2, .int (cond : Int)]
      [ptRawV (selectN a1 a2 cond) (selectN b1 b2 cond) (selectN c1 c2 cond),
       ptRawV (selectN a1 a2 cond) (selectN b1 b2 cond) (selectN c1 c2 cond)] := by
  have sel : ∀ v0 a b : List Nat, v0.length = 4 → 4 ≤ a.length → 4 ≤ b.length →
      Computes P G X 9 53 [elemV v0, elemV a, elemV b, .int (cond : Int)] [elemV (selectN a b cond), elemV (selectN a b cond)] := by
    intro v0 a b hv ha hb
    obtain ⟨env', h⟩ := select_body_ok (P := P) (G := G) (X := X) hw.h10 hw.h11 v0 a b cond hv ha hb
    exact Computes.of_body hw.h9 rfl rfl h
  let e0 : Env := Env.ofList [ptRawV qa qb qc, ptRawV a1 b1 c1, ptRawV a2 b2 c2, .int (cond : Int)]
  have h0 : e0 0 = .arr [elemV qa, elemV qb, elemV qc] := rfl
  have h1 : e0 1 = .arr [elemV a1, elemV b1, elemV c1] := rfl
  have h2 : e0 2 = .arr [elemV a2, elemV b2, elemV c2] := rfl
  have h3 : e0 3 = .int (cond : Int) := rfl
  have x1 : evalVs G e0 [(.idxc (.var 0) 0), (.idxc (.var 1) 0), (.idxc (.var 2) 0), (.var 3)]
      = some [elemV qa, elemV a1, elemV a2, .int (cond : Int)] := by
    simp only [evalVs_cons, evalVs_nil, evalV_coord (G := G) h0 (k := 0) rfl, evalV_coord (G := G) h1 (k := 0) rfl,
      evalV_coord (G := G) h2 (k := 0) rfl, evalV_var, h3]
  obtain ⟨e1, p1, g1, f1⟩ := coord_pair (t := 5) (sc := 4) (k := 0) (sel qa a1 a2 hqa ha1 ha2) x1 h0
    (by simp) (by decide) (by decide) (by decide)
  have g1' : e1 0 = .arr [elemV (selectN a1 a2 cond), elemV qb, elemV qc] := g1
  have h1' : e1 1 = .arr [elemV a1, elemV b1, elemV c1] := by rw [f1 1 (by decide) (by decide) (by decide)]; rfl
  have h2' : e1 2 = .arr [elemV a2, elemV b2, elemV c2] := by rw [f1 2 (by decide) (by decide) (by decide)]; rfl
  have h3' : e1 3 = .int (cond : Int) := by rw [f1 3 (by decide) (by decide) (by decide)]; rfl
  have x2 : evalVs G e1 [(.idxc (.var 0) 1), (.idxc (.var 1) 1), (.idxc (.var 2) 1), (.var 3)]
      = some [elemV qb, elemV b1, elemV b2, .int (cond : Int)] := by
    simp only [evalVs_cons, evalVs_nil, evalV_coord (G := G) g1' (k := 1) rfl, evalV_coord (G := G) h1' (k := 1) rfl,
      evalV_coord (G := G) h2' (k := 1) rfl, evalV_var, h3']
  obtain ⟨e2, p2, g2, f2⟩ := coord_pair (t := 6) (sc := 4) (k := 1) (sel qb b1 b2 hqb hb1 hb2) x2 g1'
    (by simp) (by decide) (by decide) (by decide)
  have g2' : e2 0 = .arr [elemV (selectN a1 a2 cond), elemV (selectN b1 b2 cond), elemV qc] := g2
  have h1'' : e2 1 = .arr [elemV a1, elemV b1, elemV c1] := by rw [f2 1 (by decide) (by decide) (by decide)]; exact h1'
  have h2'' : e2 2 = .arr [elemV a2, elemV b2, elemV c2] := by rw [f2 2 (by decide) (by decide) (by decide)]; exact h2'
  have h3'' : e2 3 = .int (cond : Int) := by rw [f2 3 (by decide) (by decide) (by decide)]; exact h3'
  have x3 : evalVs G e2 [(.idxc (.var 0) 2), (.idxc (.var 1) 2), (.idxc (.var 2) 2), (.var 3)]
      = some [elemV qc, elemV c1, elemV c2, .int (cond : Int)] := by
    simp only [evalVs_cons, evalVs_nil, evalV_coord (G := G) g2' (k := 2) rfl, evalV_coord (G := G) h1'' (k := 2) rfl,
      evalV_coord (G := G) h2'' (k := 2) rfl, evalV_var, h3'']
  obtain ⟨e3, p3, g3, f3⟩ := coord_pair (t := 7) (sc := 4) (k := 2) (sel qc c1 c2 hqc hc1 hc2) x3 g2'
    (by simp) (by decide) (by decide) (by decide)
  have g3' : e3 0 = ptRawV (selectN a1 a2 cond) (selectN b1 b2 cond) (selectN c1 c2 cond) := g3
  have sr : evalVs G e3 [(.var 0), (.var 0)] = some [ptRawV (selectN a1 a2 cond) (selectN b1 b2 cond) (selectN c1 c2 cond),
      ptRawV (selectN a1 a2 cond) (selectN b1 b2 cond) (selectN c1 c2 cond)] := by
    simp only [evalVs_cons, evalVs_nil, evalV_var, g3']
  refine Computes.of_body hw.h77 rfl rfl (env' := e3) ?_
  rw [fn_77_body]
  exact ((Pre.append p1 (Pre.append p2 p3) _).1 _ _ _ (EvIn.seq_stop (EvIn.ret sr) (by simp))).mono (by simp only [fuelPtSelect]; omega)

/-- the model of `(*SM2Point).Select` (there is no point-level select in SMGo/Model/Point.lean): coordinate-wise
    `Model.Field.select`: p1 if cond = 1, p2 if cond = 0 -/
def selectPt (p1 p2 : Model.Point.Pt α) (cond : Nat) : Model.Point.Pt α :=
  { x := Model.Field.select p1.x p2.x cond, y := Model.Field.select p1.y p2.y cond, z := Model.Field.select p1.z p2.z cond }

theorem enc_select (a b : α) (cond : Nat) :
    Model.Field.select (enc a) (enc b) cond = enc (Model.Field.select a b cond) := by
  simp only [Model.Field.select]; split <;> rfl

/-- **(*SM2Point).Select** = coordinate-wise `Model.Field.select`, for cond ∈ {0, 1} and encodings of four limbs
    below 2^64 (`Out4`) -/
theorem Select_computes (hw : HasPointFns P) (qa qb qc : List Nat) (p1 p2 : Model.Point.Pt α) (cond : Nat)
    (hqa : qa.length = 4) (hqb : qb.length = 4) (hqc : qc.length = 4) (ho : ∀ e, Out4 (enc e)) (hc : cond ≤ 1) :
    Computes P G X f_internal_SM2Point_Select fuelPtSelect
      [ptRawV qa qb qc, ptV enc p1, ptV enc p2, .int (cond : Int)]
      [ptV enc (selectPt p1 p2 cond), ptV enc (selectPt p1 p2 cond)] := by
  have l4 : ∀ e, 4 ≤ (enc e).length := fun e => by rw [(ho e).length]; omega
  have := Select_general (P := P) (G := G) (X := X) hw qa qb qc (enc p1.x) (enc p1.y) (enc p1.z) (enc p2.x) (enc p2.y) (enc p2.z)
    cond hqa hqb hqc (l4 _) (l4 _) (l4 _) (l4 _) (l4 _) (l4 _)
  rw [selectN_eq_model _ _ cond (ho _) (ho _) hc, selectN_eq_model _ _ cond (ho _) (ho _) hc,
    selectN_eq_model _ _ cond (ho _) (ho _) hc, enc_select, enc_select, enc_select] at this
  exact this

variable {C : Model.Point.Ctx α}

/-- **NewSM2Point** = `Model.Point.infinity`, given that the Go zero value encodes `F.zero` -/
theorem NewSM2Point_computes (hw : HasPointFns P) (hp : FiatPrims P G X C.F enc Fmul Fsq Fadd Fsub Fopp Fone)
    (hz : enc C.F.zero = [0, 0, 0, 0]) :
    Computes P G X f_internal_NewSM2Point (fuelW Fone + 4) [] [ptV enc (Model.Point.infinity C)] := by
  let e0 : Env := Env.ofList []
  let e1 := (e0.set 0 (elemV (enc C.F.setOne))).set 1 (elemV (enc C.F.setOne))
  have c1 : EvIn P G X (fuelW Fone + 1) e0 (.call [0, 1] 13 [mkE]) e1 .norm := by
    refine (One_computes hw hp [0, 0, 0, 0] out4_zero).call ?_ rfl
    simp only [evalVs_cons, evalVs_nil, evalV_mkE]
  have sr : evalVs G e1 [(.cat (.mk (.lit 1) mkE) (.cat (.mk (.lit 1) (.var 1)) (.mk (.lit 1) mkE)))]
      = some [ptV enc (Model.Point.infinity C)] := by
    have q := evalV_mkPoint (G := G) (env := e1) (ea := mkE) (eb := .var 1) (ec := mkE) (a := elemV [0, 0, 0, 0])
      (b := elemV (enc C.F.setOne)) (c := elemV [0, 0, 0, 0]) (evalV_mkE _) (by simp [e1, Env.set]) (evalV_mkE _)
    simp only [evalVs_cons, evalVs_nil, q, ptV, ptRawV, Model.Point.infinity, hz]
  refine Computes.of_body hw.h73 rfl rfl (env' := e1) ?_
  rw [fn_73_body]
  exact ((Pre.cons c1 (Pre.nil _) _).1 _ _ _ (EvIn.seq_stop (EvIn.ret sr) (by simp))).mono (by omega)

/-- **NewFromXY** = `Model.Point.fromXY`, for limbs that the encoding reproduces -/
theorem NewFromXY_computes (hw : HasPointFns P) (hp : FiatPrims P G X C.F enc Fmul Fsq Fadd Fsub Fopp Fone)
    (x y : List Nat) (hx : x.length = 4) (hy : y.length = 4) (hrx : enc (C.F.ofRaw x) = x) (hry : enc (C.F.ofRaw y) = y) :
    Computes P G X f_internal_NewFromXY (fuelW Fone + 20) [limbsV x, limbsV y] [ptV enc (Model.Point.fromXY C x y)] := by
  have := NewFromXY_raw (P := P) (G := G) (X := X) hw x y (enc C.F.setOne) hx hy (One_computes hw hp [0, 0, 0, 0] out4_zero)
  simpa only [ptV, Model.Point.fromXY, hrx, hry] using this

/-- **(*SM2Point).Negate** = `Model.Point.negate`; the receiver holds any point whose `y` limbs are `Out4` -/
theorem Negate_computes (hw : HasPointFns P) (hp : FiatPrims P G X C.F enc Fmul Fsq Fadd Fsub Fopp Fone)
    (qa qb qc : List Nat) (hqb : Out4 qb) (p : Model.Point.Pt α) :
    Computes P G X f_internal_SM2Point_Negate (fuelW Fopp + 22) [ptRawV qa qb qc, ptV enc p]
      [ptV enc (Model.Point.negate C p), ptV enc (Model.Point.negate C p)] :=
  Negate_raw hw qa qb qc (enc p.x) (enc p.y) (enc p.z) _ (Opp_computes hw hp qb hqb p.y)

end PointFns


/-! ## 3. Straight-line programs: `Model.SLP.eval` against the IR statements generated from the same source

  The translator `slp` (SMGo/Gen/PointSLP.lean) and the translator `ctir` (SMGo/Gen/CTIRProg.lean) read the same Go
  statements in the same order.  An SLP instruction `⟨op, dst, a, b⟩` appears in the IR in one of two forms:
    * `dst := new(fiat.SM2Element).Op(a, b)`:  `.call [sc, t] W [mkE, a, b]; .assign d [] (.var t)`   (`some t`)
    * `dst.Op(a, b)`:                          `.call [d, sc] W [(.var d), a, b]`                        (`none`)
  (`W` the wrapper of `op`, `sc` the scratch variable `_`, `d` the IR variable of the register `dst`; Square has one
  operand).  `reg : String → Loc` gives the IR location of an SLP register. -/

/-- where the IR holds an SLP register: a local variable, a field of a (point) parameter, a global -/
inductive Loc where
  | var (x : Nat)
  | fld (p k : Nat)
  | glob (k : Nat)
deriving DecidableEq, Repr

def Loc.expr : Loc → Expr
  | .var x => .var x
  | .fld p k => .idxc (.var p) k
  | .glob k => .glob k

/-- the location reads IR variable `x` -/
def Loc.uses : Loc → Nat → Bool
  | .var y, x => y == x
  | .fld p _, x => p == x
  | .glob _, _ => false

def Loc.varOf : Loc → Nat
  | .var x => x
  | _ => 0

def Loc.isVar : Loc → Bool
  | .var _ => true
  | _ => false

theorem Loc.eval_agree {G : Nat → Val} {env env' : Env} (l : Loc) (h : ∀ x, l.uses x = true → env' x = env x) :
    evalV G env' l.expr = evalV G env l.expr := by
  cases l with
  | var y => simp only [Loc.expr, evalV_var, h y (by simp [Loc.uses])]
  | fld p k => simp only [Loc.expr, evalV_idxc, evalV_var, h p (by simp [Loc.uses])]
  | glob k => rfl

section SLPGeneric
variable {α : Type}

/-- the value an SLP instruction computes (the `match` of `Model.SLP.step`) -/
def opVal (ops : Model.SLP.Ops α) (k : Model.SLP.OpK) (x y : α) : α :=
  match k with
  | .mul => ops.mul x y
  | .add => ops.add x y
  | .sub => ops.sub x y
  | .square => ops.square x

theorem step_eq (ops : Model.SLP.Ops α) (senv : Model.SLP.Env α) (i : Model.SLP.Instr) :
    Model.SLP.step ops senv i =
      (i.dst, opVal ops i.op (Model.SLP.Env.get ops.zero senv i.a) (Model.SLP.Env.get ops.zero senv i.b)) :: senv := rfl

theorem get_cons_same (zero : α) (senv : Model.SLP.Env α) (d : String) (v : α) :
    Model.SLP.Env.get zero ((d, v) :: senv) d = v := by
  simp [Model.SLP.Env.get, List.find?]

theorem get_cons_other (zero : α) (senv : Model.SLP.Env α) {d r : String} (v : α) (h : r ≠ d) :
    Model.SLP.Env.get zero ((d, v) :: senv) r = Model.SLP.Env.get zero senv r := by
  have : (d == r) = false := by simpa using (Ne.symm h)
  simp [Model.SLP.Env.get, List.find?, this]

theorem eval_keys (ops : Model.SLP.Ops α) : ∀ (is : List Model.SLP.Instr) (senv : Model.SLP.Env α),
    (Model.SLP.eval ops is senv).map Prod.fst = (is.map (·.dst)).reverse ++ senv.map Prod.fst := by
  intro is
  induction is with
  | nil => intro senv; rfl
  | cons i is ih =>
    intro senv
    show (Model.SLP.eval ops is (Model.SLP.step ops senv i)).map Prod.fst = _
    rw [ih, step_eq]
    simp

/-- the operand expressions of an instruction -/
def opArgs (reg : String → Loc) (i : Model.SLP.Instr) : List Expr :=
  match i.op with
  | .square => [(reg i.a).expr]
  | .mul => [(reg i.a).expr, (reg i.b).expr]
  | .add => [(reg i.a).expr, (reg i.b).expr]
  | .sub => [(reg i.a).expr, (reg i.b).expr]

def opArgVals (k : Model.SLP.OpK) (a b : Val) : List Val :=
  match k with
  | .square => [a]
  | .mul => [a, b]
  | .add => [a, b]
  | .sub => [a, b]

theorem evalVs_opArgs {G : Nat → Val} {env : Env} {reg : String → Loc} {i : Model.SLP.Instr} {e0 : Expr} {v0 va vb : Val}
    (h0 : evalV G env e0 = some v0) (ha : evalV G env (reg i.a).expr = some va) (hb : evalV G env (reg i.b).expr = some vb) :
    evalVs G env (e0 :: opArgs reg i) = some (v0 :: opArgVals i.op va vb) := by
  unfold opArgs opArgVals
  cases i.op <;> simp only [evalVs_cons, evalVs_nil, h0, ha, hb]

/-- the IR statements of one instruction; `s.2 = some t`: through a fresh element held in the temporary `t` -/
def stepStmts (reg : String → Loc) (wr : Model.SLP.OpK → Nat) (sc : Nat) (s : Model.SLP.Instr × Option Nat) : List Stmt :=
  match s.2 with
  | some t => [.call [sc, t] (wr s.1.op) (mkE :: opArgs reg s.1), .assign (reg s.1.dst).varOf [] (.var t)]
  | none => [.call [(reg s.1.dst).varOf, sc] (wr s.1.op) (.var (reg s.1.dst).varOf :: opArgs reg s.1)]

def slpStmts (reg : String → Loc) (wr : Model.SLP.OpK → Nat) (sc : Nat) : List (Model.SLP.Instr × Option Nat) → List Stmt
  | [] => []
  | s :: ss => stepStmts reg wr sc s ++ slpStmts reg wr sc ss

/-- no live register other than `dst` is held in a location that reads one of the written variables `ws` -/
def liveOk (reg : String → Loc) (live : List String) (dst : String) (ws : List Nat) : Bool :=
  live.all (fun r => r == dst || ws.all (fun x => !(reg r).uses x))

/-- side condition of one instruction: the destination is a variable, the operands are live, (receiver form) the
    destination is live, no other live register is clobbered, no parameter (`< np`) is written -/
def stepOk (reg : String → Loc) (np sc : Nat) (live : List String) (s : Model.SLP.Instr × Option Nat) : Bool :=
  (reg s.1.dst).isVar && live.contains s.1.a && live.contains s.1.b &&
  (match s.2 with
   | some t => liveOk reg live s.1.dst [(reg s.1.dst).varOf, sc, t] &&
      [(reg s.1.dst).varOf, sc, t].all (fun x => decide (np ≤ x))
   | none => live.contains s.1.dst && (liveOk reg live s.1.dst [(reg s.1.dst).varOf, sc] &&
      [(reg s.1.dst).varOf, sc].all (fun x => decide (np ≤ x))))

def slpOk (reg : String → Loc) (np sc : Nat) : List String → List (Model.SLP.Instr × Option Nat) → Bool
  | _, [] => true
  | live, s :: ss => stepOk reg np sc live s && slpOk reg np sc (s.1.dst :: live) ss

/-- fuel of the statements of a program, given the fuel of the wrapper of each operation -/
def slpFuel (fu : Model.SLP.OpK → Nat) : List (Model.SLP.Instr × Option Nat) → Nat
  | [] => 0
  | s :: ss => slpFuel fu ss + (fu s.1.op + 4)

/-- the invariant: every register bound in the SLP environment is held, encoded, at its IR location; the
    parameters are unchanged -/
structure SInv (G : Nat → Val) (reg : String → Loc) (enc : α → List Nat) (zero : α) (np : Nat) (env0 env : Env)
    (senv : Model.SLP.Env α) : Prop where
  regs : ∀ r, r ∈ senv.map Prod.fst → evalV G env (reg r).expr = some (elemV (enc (Model.SLP.Env.get zero senv r)))
  frame : ∀ x, x < np → env x = env0 x

/-- HYPOTHESES of the generic lemma: the wrapper `wr k` of each operation computes it on the encodings (receiver:
    any four limbs below 2^64), with fuel `fu k` -/
structure OpsOk (P : Prog) (G : Nat → Val) (X : Oracle) (ops : Model.SLP.Ops α) (enc : α → List Nat)
    (wr fu : Model.SLP.OpK → Nat) : Prop where
  enc_out4 : ∀ e, Out4 (enc e)
  op : ∀ (k : Model.SLP.OpK) (o : List Nat) (a b : α), Out4 o →
    Computes P G X (wr k) (fu k) (elemV o :: opArgVals k (elemV (enc a)) (elemV (enc b)))
      [elemV (enc (opVal ops k a b)), elemV (enc (opVal ops k a b))]

variable {P : Prog} {G : Nat → Val} {X : Oracle} {ops : Model.SLP.Ops α} {enc : α → List Nat}
  {wr fu : Model.SLP.OpK → Nat} {reg : String → Loc} {np sc : Nat}

/-- writing the variables `ws` (all ≥ np, read by no other live register) so that the location of `dst` holds `v` -/
theorem inv_write {zero : α} {env0 env env' : Env} {senv : Model.SLP.Env α} {dst : String} {v : α} {ws : List Nat}
    (hinv : SInv G reg enc zero np env0 env senv)
    (hag : ∀ x, x ∉ ws → env' x = env x)
    (hlive : liveOk reg (senv.map Prod.fst) dst ws = true)
    (hnp : ws.all (fun x => decide (np ≤ x)) = true)
    (hdst : evalV G env' (reg dst).expr = some (elemV (enc v))) :
    SInv G reg enc zero np env0 env' ((dst, v) :: senv) := by
  refine ⟨?_, ?_⟩
  · intro r hr
    by_cases hrd : r = dst
    · subst hrd; rw [get_cons_same]; exact hdst
    · have hr' : r ∈ senv.map Prod.fst := by
        simp only [List.map_cons, List.mem_cons] at hr
        rcases hr with h | h
        · exact absurd h hrd
        · exact h
      rw [get_cons_other _ _ _ hrd, ← hinv.regs r hr']
      apply Loc.eval_agree
      intro x hx
      apply hag
      intro hmem
      have h1 := (List.all_eq_true.mp hlive) r hr'
      simp only [Bool.or_eq_true, beq_iff_eq, hrd, false_or] at h1
      have h2 := (List.all_eq_true.mp h1) x hmem
      simp [hx] at h2
  · intro x hx
    rw [hag x ?_, hinv.frame x hx]
    intro hmem
    have := (List.all_eq_true.mp hnp) x hmem
    simp only [decide_eq_true_eq] at this
    omega

/-- one instruction -/
theorem slp_step (hops : OpsOk P G X ops enc wr fu) {env0 env : Env} {senv : Model.SLP.Env α}
    (s : Model.SLP.Instr × Option Nat) (hinv : SInv G reg enc ops.zero np env0 env senv)
    (hok : stepOk reg np sc (senv.map Prod.fst) s = true) :
    ∃ env', Pre P G X (fu s.1.op + 4) env (stepStmts reg wr sc s) env' ∧
      SInv G reg enc ops.zero np env0 env' (Model.SLP.step ops senv s.1) := by
  obtain ⟨i, fr⟩ := s
  rw [step_eq]
  generalize hx : Model.SLP.Env.get ops.zero senv i.a = x
  generalize hy : Model.SLP.Env.get ops.zero senv i.b = y
  cases fr with
  | some t =>
    simp only [stepOk, Bool.and_eq_true] at hok
    obtain ⟨⟨⟨hvar, hla⟩, hlb⟩, hlive, hnp⟩ := hok
    obtain ⟨d, hd⟩ : ∃ d, reg i.dst = .var d := by
      cases h : reg i.dst with
      | var d => exact ⟨d, rfl⟩
      | fld p k => rw [h] at hvar; simp [Loc.isVar] at hvar
      | glob k => rw [h] at hvar; simp [Loc.isVar] at hvar
    have hvo : (reg i.dst).varOf = d := by rw [hd]; rfl
    have hA : evalV G env (reg i.a).expr = some (elemV (enc x)) := by
      rw [← hx]; exact hinv.regs i.a (by simpa using hla)
    have hB : evalV G env (reg i.b).expr = some (elemV (enc y)) := by
      rw [← hy]; exact hinv.regs i.b (by simpa using hlb)
    generalize hR : elemV (enc (opVal ops i.op x y)) = R
    have hcomp := hops.op i.op [0, 0, 0, 0] x y out4_zero
    rw [hR] at hcomp
    have c1 : EvIn P G X (fu i.op + 1) env (.call [sc, t] (wr i.op) (mkE :: opArgs reg i)) ((env.set sc R).set t R) .norm :=
      hcomp.call (evalVs_opArgs (evalV_mkE _) hA hB) rfl
    have c2 : EvIn P G X 1 ((env.set sc R).set t R) (.assign d [] (.var t)) (((env.set sc R).set t R).set d R) .norm :=
      EvIn.assign (by rw [evalV_var, Env.set_same])
    refine ⟨((env.set sc R).set t R).set d R, ?_, ?_⟩
    · simp only [stepStmts, hvo]
      exact (Pre.cons c1 (Pre.cons c2 (Pre.nil _))).mono (by omega)
    · rw [hvo] at hlive hnp
      refine inv_write (ws := [d, sc, t]) hinv ?_ hlive hnp ?_
      · intro z hz
        simp only [List.mem_cons, List.not_mem_nil, or_false, not_or] at hz
        rw [Env.set_other _ _ hz.1, Env.set_other _ _ hz.2.2, Env.set_other _ _ hz.2.1]
      · rw [hd, ← hR]
        simp only [Loc.expr, evalV_var, Env.set_same, hR]
  | none =>
    simp only [stepOk, Bool.and_eq_true] at hok
    obtain ⟨⟨⟨hvar, hla⟩, hlb⟩, hld, hlive, hnp⟩ := hok
    obtain ⟨d, hd⟩ : ∃ d, reg i.dst = .var d := by
      cases h : reg i.dst with
      | var d => exact ⟨d, rfl⟩
      | fld p k => rw [h] at hvar; simp [Loc.isVar] at hvar
      | glob k => rw [h] at hvar; simp [Loc.isVar] at hvar
    have hvo : (reg i.dst).varOf = d := by rw [hd]; rfl
    have hA : evalV G env (reg i.a).expr = some (elemV (enc x)) := by
      rw [← hx]; exact hinv.regs i.a (by simpa using hla)
    have hB : evalV G env (reg i.b).expr = some (elemV (enc y)) := by
      rw [← hy]; exact hinv.regs i.b (by simpa using hlb)
    have hD : evalV G env (.var d) = some (elemV (enc (Model.SLP.Env.get ops.zero senv i.dst))) := by
      have := hinv.regs i.dst (by simpa using hld)
      rw [hd] at this
      exact this
    generalize hR : elemV (enc (opVal ops i.op x y)) = R
    have hcomp := hops.op i.op (enc (Model.SLP.Env.get ops.zero senv i.dst)) x y (hops.enc_out4 _)
    rw [hR] at hcomp
    have c1 : EvIn P G X (fu i.op + 1) env (.call [d, sc] (wr i.op) (.var d :: opArgs reg i)) ((env.set d R).set sc R) .norm :=
      hcomp.call (evalVs_opArgs hD hA hB) rfl
    refine ⟨(env.set d R).set sc R, ?_, ?_⟩
    · simp only [stepStmts, hvo]
      exact (Pre.cons c1 (Pre.nil _)).mono (by omega)
    · rw [hvo] at hlive hnp
      refine inv_write (ws := [d, sc]) hinv ?_ hlive hnp ?_
      · intro z hz
        simp only [List.mem_cons, List.not_mem_nil, or_false, not_or] at hz
        rw [Env.set_other _ _ hz.2, Env.set_other _ _ hz.1]
      · rw [hd]
        simp only [Loc.expr, evalV_var]
        by_cases h : d = sc
        · subst h; rw [Env.set_same, hR]
        · rw [Env.set_other _ _ h, Env.set_same, hR]

/-- **the generic lemma**: the IR statements generated from a list of SLP instructions transform an environment
    that holds the SLP environment `senv` into one that holds `Model.SLP.eval ops prog senv` -/
theorem slp_fold (hops : OpsOk P G X ops enc wr fu) {env0 : Env} : ∀ (ss : List (Model.SLP.Instr × Option Nat))
    (env : Env) (senv : Model.SLP.Env α), SInv G reg enc ops.zero np env0 env senv →
    slpOk reg np sc (senv.map Prod.fst) ss = true →
    ∃ env', Pre P G X (slpFuel fu ss) env (slpStmts reg wr sc ss) env' ∧
      SInv G reg enc ops.zero np env0 env' (Model.SLP.eval ops (ss.map Prod.fst) senv) := by
  intro ss
  induction ss with
  | nil => intro env senv hinv _; exact ⟨env, Pre.nil _, hinv⟩
  | cons s ss ih =>
    intro env senv hinv hok
    simp only [slpOk, Bool.and_eq_true] at hok
    obtain ⟨env1, p1, hinv1⟩ := slp_step (wr := wr) (sc := sc) hops s hinv hok.1
    have hk : (Model.SLP.step ops senv s.1).map Prod.fst = s.1.dst :: senv.map Prod.fst := rfl
    obtain ⟨env2, p2, hinv2⟩ := ih env1 _ hinv1 (by rw [hk]; exact hok.2)
    exact ⟨env2, Pre.append p1 p2, hinv2⟩

end SLPGeneric


/-! ### The two concrete programs -/

/-- the wrapper of each operation -/
def wrOf : Model.SLP.OpK → Nat
  | .mul => f_fiat_SM2Element_Mul
  | .add => f_fiat_SM2Element_Add
  | .sub => f_fiat_SM2Element_Sub
  | .square => f_fiat_SM2Element_Square

/-- the fuel of the wrapper of each operation, from the fuels of the Fiat primitives -/
def fuOf (Fmul Fadd Fsub Fsq : Nat) : Model.SLP.OpK → Nat
  | .mul => fuelW Fmul
  | .add => fuelW Fadd
  | .sub => fuelW Fsub
  | .square => fuelW Fsq

theorem opsOk_of_prims {α : Type} {P : Prog} {G : Nat → Val} {X : Oracle} {F : Model.Field.FieldOps α} {enc : α → List Nat}
    {Fmul Fsq Fadd Fsub Fopp Fone : Nat} (hw : HasPointFns P) (hp : FiatPrims P G X F enc Fmul Fsq Fadd Fsub Fopp Fone) :
    OpsOk P G X (Model.Point.slpOps F) enc wrOf (fuOf Fmul Fadd Fsub Fsq) := by
  refine ⟨hp.enc_out4, ?_⟩
  intro k o a b ho
  cases k
  · exact Mul_computes hw hp o ho a b
  · exact Add_computes hw hp o ho a b
  · exact Sub_computes hw hp o ho a b
  · exact Square_computes hw hp o ho a

/-- (*SM2Point).Add: IR variable legend `5=t0 7=t1 9=t2 11=t3 13=t4 15=x3 17=y3 19=z3`, parameters `1=p1 2=p2`,
    global 6 = `sm2B` -/
def addReg : String → Loc
  | "p1.x" => .fld 1 0 | "p1.y" => .fld 1 1 | "p1.z" => .fld 1 2
  | "p2.x" => .fld 2 0 | "p2.y" => .fld 2 1 | "p2.z" => .fld 2 2
  | "sm2B" => .glob 6
  | "t0" => .var 5 | "t1" => .var 7 | "t2" => .var 9 | "t3" => .var 11 | "t4" => .var 13
  | "x3" => .var 15 | "y3" => .var 17 | "z3" => .var 19
  | _ => .glob 0

/-- the calling form of each of the 43 statements of Add (`some t`: `dst := new(Element).Op(…)` through temporary `t`) -/
def addForms : List (Option Nat) :=
  [some 4, some 6, some 8, some 10, some 12] ++ List.replicate 4 none ++ [some 14] ++ List.replicate 4 none ++
    [some 16] ++ List.replicate 3 none ++ [some 18] ++ List.replicate 24 none

def addSteps : List (Model.SLP.Instr × Option Nat) := Gen.PointSLP.add.zip addForms

theorem addSteps_prog : addSteps.map Prod.fst = Gen.PointSLP.add := by decide

def addLive : List String := ["p1.x", "p1.y", "p1.z", "p2.x", "p2.y", "p2.z", "sm2B"]

/-- the generated IR of Add IS the list of statements generated from the SLP program, followed by the assignment
    of the receiver and the return -/
theorem fn_78_body : fn_78.body =
    seqs ((slpStmts addReg wrOf 3 addSteps ++ tailStmts 3 15 17 19 20 21 22) ++ [.seq (.ret [(.var 0), (.var 0)]) .panic]) := rfl

theorem add_check : slpOk addReg 3 3 addLive addSteps = true := by decide

/-- (*SM2Point).Double: IR variable legend `4=t0 6=t1 8=t2 10=t3 12=z3 14=y3 16=x3`, parameter `1=p`, global 6 = `sm2B` -/
def dblReg : String → Loc
  | "p.x" => .fld 1 0 | "p.y" => .fld 1 1 | "p.z" => .fld 1 2
  | "sm2B" => .glob 6
  | "t0" => .var 4 | "t1" => .var 6 | "t2" => .var 8 | "t3" => .var 10
  | "z3" => .var 12 | "y3" => .var 14 | "x3" => .var 16
  | _ => .glob 0

def dblForms : List (Option Nat) :=
  [some 3, some 5, some 7, some 9, none, some 11, none, some 13, none, some 15] ++ List.replicate 24 none

def dblSteps : List (Model.SLP.Instr × Option Nat) := Gen.PointSLP.double.zip dblForms

theorem dblSteps_prog : dblSteps.map Prod.fst = Gen.PointSLP.double := by decide

def dblLive : List String := ["p.x", "p.y", "p.z", "sm2B"]

theorem fn_79_body : fn_79.body =
    seqs ((slpStmts dblReg wrOf 2 dblSteps ++ tailStmts 2 16 14 12 17 18 19) ++ [.seq (.ret [(.var 0), (.var 0)]) .panic]) := rfl

theorem dbl_check : slpOk dblReg 2 2 dblLive dblSteps = true := by decide


section AddDouble
variable {α : Type} {P : Prog} {G : Nat → Val} {X : Oracle} {enc : α → List Nat} {C : Model.Point.Ctx α}
  {Fmul Fsq Fadd Fsub Fopp Fone : Nat}

/-- fuel for (*SM2Point).Add: every statement costs the fuel of its wrapper + 4, the tail 24, the return 2 -/
def fuelPtAdd (Fmul Fadd Fsub Fsq : Nat) : Nat := slpFuel (fuOf Fmul Fadd Fsub Fsq) addSteps + 26

/-- fuel for (*SM2Point).Double -/
def fuelPtDouble (Fmul Fadd Fsub Fsq : Nat) : Nat := slpFuel (fuOf Fmul Fadd Fsub Fsq) dblSteps + 26

/-- the initial SLP environment of `Model.Point.add` -/
def addEnv0 (C : Model.Point.Ctx α) (p1 p2 : Model.Point.Pt α) : Model.SLP.Env α :=
  [("p1.x", p1.x), ("p1.y", p1.y), ("p1.z", p1.z), ("p2.x", p2.x), ("p2.y", p2.y), ("p2.z", p2.z), ("sm2B", C.b)]

def dblEnv0 (C : Model.Point.Ctx α) (p : Model.Point.Pt α) : Model.SLP.Env α :=
  [("p.x", p.x), ("p.y", p.y), ("p.z", p.z), ("sm2B", C.b)]

theorem add_model (C : Model.Point.Ctx α) (p1 p2 : Model.Point.Pt α) (hprog : C.addProg = Gen.PointSLP.add)
    (hout : C.addOut = Gen.PointSLP.add_out) :
    Model.Point.add C p1 p2 =
      { x := Model.SLP.Env.get C.F.zero (Model.SLP.eval (Model.Point.slpOps C.F) (addSteps.map Prod.fst) (addEnv0 C p1 p2)) "x3"
        y := Model.SLP.Env.get C.F.zero (Model.SLP.eval (Model.Point.slpOps C.F) (addSteps.map Prod.fst) (addEnv0 C p1 p2)) "y3"
        z := Model.SLP.Env.get C.F.zero (Model.SLP.eval (Model.Point.slpOps C.F) (addSteps.map Prod.fst) (addEnv0 C p1 p2)) "z3" } := by
  rw [addSteps_prog]
  unfold Model.Point.add
  rw [hprog, hout]
  rfl

theorem double_model (C : Model.Point.Ctx α) (p : Model.Point.Pt α) (hprog : C.dblProg = Gen.PointSLP.double)
    (hout : C.dblOut = Gen.PointSLP.double_out) :
    Model.Point.double C p =
      { x := Model.SLP.Env.get C.F.zero (Model.SLP.eval (Model.Point.slpOps C.F) (dblSteps.map Prod.fst) (dblEnv0 C p)) "x3"
        y := Model.SLP.Env.get C.F.zero (Model.SLP.eval (Model.Point.slpOps C.F) (dblSteps.map Prod.fst) (dblEnv0 C p)) "y3"
        z := Model.SLP.Env.get C.F.zero (Model.SLP.eval (Model.Point.slpOps C.F) (dblSteps.map Prod.fst) (dblEnv0 C p)) "z3" } := by
  rw [dblSteps_prog]
  unfold Model.Point.double
  rw [hprog, hout]
  rfl

/-- **(*SM2Point).Add** = `Model.Point.add`, for the regenerated straight-line program; the receiver holds any point,
    global 6 (`sm2B`) holds the encoding of the curve coefficient -/
theorem PointAdd_computes (hw : HasPointFns P) (hp : FiatPrims P G X C.F enc Fmul Fsq Fadd Fsub Fopp Fone)
    (hB : G 6 = elemV (enc C.b)) (hprog : C.addProg = Gen.PointSLP.add) (hout : C.addOut = Gen.PointSLP.add_out)
    (qa qb qc : List Nat) (p1 p2 : Model.Point.Pt α) :
    Computes P G X f_internal_SM2Point_Add (fuelPtAdd Fmul Fadd Fsub Fsq) [ptRawV qa qb qc, ptV enc p1, ptV enc p2]
      [ptV enc (Model.Point.add C p1 p2), ptV enc (Model.Point.add C p1 p2)] := by
  let e0 : Env := Env.ofList [ptRawV qa qb qc, ptV enc p1, ptV enc p2]
  have h1 : e0 1 = .arr [elemV (enc p1.x), elemV (enc p1.y), elemV (enc p1.z)] := rfl
  have h2 : e0 2 = .arr [elemV (enc p2.x), elemV (enc p2.y), elemV (enc p2.z)] := rfl
  have hinv0 : SInv G addReg enc (Model.Point.slpOps C.F).zero 3 e0 e0 (addEnv0 C p1 p2) := by
    refine ⟨?_, fun _ _ => rfl⟩
    intro r hr
    simp only [addEnv0, List.map_cons, List.map_nil, List.mem_cons, List.not_mem_nil, or_false] at hr
    rcases hr with rfl | rfl | rfl | rfl | rfl | rfl | rfl
    · exact evalV_coord (G := G) h1 (k := 0) rfl
    · exact evalV_coord (G := G) h1 (k := 1) rfl
    · exact evalV_coord (G := G) h1 (k := 2) rfl
    · exact evalV_coord (G := G) h2 (k := 0) rfl
    · exact evalV_coord (G := G) h2 (k := 1) rfl
    · exact evalV_coord (G := G) h2 (k := 2) rfl
    · exact (evalV_glob G e0 6).trans (congrArg some hB)
  obtain ⟨e1, ppre, hinv1⟩ := slp_fold (wr := wrOf) (sc := 3) (opsOk_of_prims hw hp) addSteps e0 _ hinv0 add_check
  generalize hfin : Model.SLP.eval (Model.Point.slpOps C.F) (addSteps.map Prod.fst) (addEnv0 C p1 p2) = fin at hinv1
  have hkeys : fin.map Prod.fst = ((addSteps.map Prod.fst).map (·.dst)).reverse ++ (addEnv0 C p1 p2).map Prod.fst := by
    rw [← hfin, eval_keys]
  have hx : e1 15 = elemV (enc (Model.SLP.Env.get C.F.zero fin "x3")) :=
    Option.some.inj (hinv1.regs "x3" (by rw [hkeys]; exact List.mem_append_left _ (by decide)))
  have hy : e1 17 = elemV (enc (Model.SLP.Env.get C.F.zero fin "y3")) :=
    Option.some.inj (hinv1.regs "y3" (by rw [hkeys]; exact List.mem_append_left _ (by decide)))
  have hz : e1 19 = elemV (enc (Model.SLP.Env.get C.F.zero fin "z3")) :=
    Option.some.inj (hinv1.regs "z3" (by rw [hkeys]; exact List.mem_append_left _ (by decide)))
  have h0 : e1 0 = ptRawV qa qb qc := hinv1.frame 0 (by decide)
  obtain ⟨e2, ptail, g⟩ := tail_ok (P := P) (G := G) (X := X) hw.h15 (sc := 3) (vx := 15) (vy := 17) (vz := 19) (t0 := 20) (t1 := 21)
    (t2 := 22) h0 hx hy hz (by decide) (by decide) (by decide) (by decide) (by decide) (by decide)
  have hres : ptV enc (Model.Point.add C p1 p2) = ptRawV (enc (Model.SLP.Env.get C.F.zero fin "x3"))
      (enc (Model.SLP.Env.get C.F.zero fin "y3")) (enc (Model.SLP.Env.get C.F.zero fin "z3")) := by
    rw [add_model C p1 p2 hprog hout, hfin]
    rfl
  rw [hres]
  have sr : evalVs G e2 [(.var 0), (.var 0)] = some [e2 0, e2 0] := by
    simp only [evalVs_cons, evalVs_nil, evalV_var]
  rw [g] at sr
  refine Computes.of_body hw.h78 rfl rfl (env' := e2) ?_
  rw [fn_78_body]
  exact ((Pre.append ppre ptail _).1 _ _ _ (EvIn.seq_stop (EvIn.ret sr) (by simp))).mono (by simp only [fuelPtAdd]; omega)

/-- **(*SM2Point).Double** = `Model.Point.double`, likewise -/
theorem PointDouble_computes (hw : HasPointFns P) (hp : FiatPrims P G X C.F enc Fmul Fsq Fadd Fsub Fopp Fone)
    (hB : G 6 = elemV (enc C.b)) (hprog : C.dblProg = Gen.PointSLP.double) (hout : C.dblOut = Gen.PointSLP.double_out)
    (qa qb qc : List Nat) (p : Model.Point.Pt α) :
    Computes P G X f_internal_SM2Point_Double (fuelPtDouble Fmul Fadd Fsub Fsq) [ptRawV qa qb qc, ptV enc p]
      [ptV enc (Model.Point.double C p), ptV enc (Model.Point.double C p)] := by
  let e0 : Env := Env.ofList [ptRawV qa qb qc, ptV enc p]
  have h1 : e0 1 = .arr [elemV (enc p.x), elemV (enc p.y), elemV (enc p.z)] := rfl
  have hinv0 : SInv G dblReg enc (Model.Point.slpOps C.F).zero 2 e0 e0 (dblEnv0 C p) := by
    refine ⟨?_, fun _ _ => rfl⟩
    intro r hr
    simp only [dblEnv0, List.map_cons, List.map_nil, List.mem_cons, List.not_mem_nil, or_false] at hr
    rcases hr with rfl | rfl | rfl | rfl
    · exact evalV_coord (G := G) h1 (k := 0) rfl
    · exact evalV_coord (G := G) h1 (k := 1) rfl
    · exact evalV_coord (G := G) h1 (k := 2) rfl
    · exact (evalV_glob G e0 6).trans (congrArg some hB)
  obtain ⟨e1, ppre, hinv1⟩ := slp_fold (wr := wrOf) (sc := 2) (opsOk_of_prims hw hp) dblSteps e0 _ hinv0 dbl_check
  generalize hfin : Model.SLP.eval (Model.Point.slpOps C.F) (dblSteps.map Prod.fst) (dblEnv0 C p) = fin at hinv1
  have hkeys : fin.map Prod.fst = ((dblSteps.map Prod.fst).map (·.dst)).reverse ++ (dblEnv0 C p).map Prod.fst := by
    rw [← hfin, eval_keys]
  have hx : e1 16 = elemV (enc (Model.SLP.Env.get C.F.zero fin "x3")) :=
    Option.some.inj (hinv1.regs "x3" (by rw [hkeys]; exact List.mem_append_left _ (by decide)))
  have hy : e1 14 = elemV (enc (Model.SLP.Env.get C.F.zero fin "y3")) :=
    Option.some.inj (hinv1.regs "y3" (by rw [hkeys]; exact List.mem_append_left _ (by decide)))
  have hz : e1 12 = elemV (enc (Model.SLP.Env.get C.F.zero fin "z3")) :=
    Option.some.inj (hinv1.regs "z3" (by rw [hkeys]; exact List.mem_append_left _ (by decide)))
  have h0 : e1 0 = ptRawV qa qb qc := hinv1.frame 0 (by decide)
  obtain ⟨e2, ptail, g⟩ := tail_ok (P := P) (G := G) (X := X) hw.h15 (sc := 2) (vx := 16) (vy := 14) (vz := 12) (t0 := 17) (t1 := 18)
    (t2 := 19) h0 hx hy hz (by decide) (by decide) (by decide) (by decide) (by decide) (by decide)
  have hres : ptV enc (Model.Point.double C p) = ptRawV (enc (Model.SLP.Env.get C.F.zero fin "x3"))
      (enc (Model.SLP.Env.get C.F.zero fin "y3")) (enc (Model.SLP.Env.get C.F.zero fin "z3")) := by
    rw [double_model C p hprog hout, hfin]
    rfl
  rw [hres]
  have sr : evalVs G e2 [(.var 0), (.var 0)] = some [e2 0, e2 0] := by
    simp only [evalVs_cons, evalVs_nil, evalV_var]
  rw [g] at sr
  refine Computes.of_body hw.h79 rfl rfl (env' := e2) ?_
  rw [fn_79_body]
  exact ((Pre.append ppre ptail _).1 _ _ _ (EvIn.seq_stop (EvIn.ret sr) (by simp))).mono (by simp only [fuelPtDouble]; omega)

end AddDouble


/-! ### The fuel functions in closed form -/

/-- number of instructions of kind `k` -/
def cnt (k : Model.SLP.OpK) : List (Model.SLP.Instr × Option Nat) → Nat
  | [] => 0
  | s :: ss => cnt k ss + (if s.1.op = k then 1 else 0)

theorem slpFuel_eq (fu : Model.SLP.OpK → Nat) (ss : List (Model.SLP.Instr × Option Nat)) :
    slpFuel fu ss = cnt .mul ss * (fu .mul + 4) + cnt .add ss * (fu .add + 4) + cnt .sub ss * (fu .sub + 4)
      + cnt .square ss * (fu .square + 4) := by
  induction ss with
  | nil => simp [slpFuel, cnt]
  | cons s ss ih =>
    simp only [slpFuel, cnt, ih]
    cases s.1.op <;> simp [Nat.add_mul] <;> omega

/-- Add: 14 Mul, 20 Add, 9 Sub; each costs the fuel of the primitive + 6 (wrapper) + 4; + 24 (tail) + 2 (return) -/
theorem fuelPtAdd_eq (Fmul Fadd Fsub Fsq : Nat) :
    fuelPtAdd Fmul Fadd Fsub Fsq = 14 * Fmul + 20 * Fadd + 9 * Fsub + 456 := by
  have c1 : cnt .mul addSteps = 14 := by decide
  have c2 : cnt .add addSteps = 20 := by decide
  have c3 : cnt .sub addSteps = 9 := by decide
  have c4 : cnt .square addSteps = 0 := by decide
  simp only [fuelPtAdd, slpFuel_eq, c1, c2, c3, c4, fuOf, fuelW]
  omega

/-- Double: 10 Mul, 15 Add, 6 Sub, 3 Square -/
theorem fuelPtDouble_eq (Fmul Fadd Fsub Fsq : Nat) :
    fuelPtDouble Fmul Fadd Fsub Fsq = 10 * Fmul + 15 * Fadd + 6 * Fsub + 3 * Fsq + 366 := by
  have c1 : cnt .mul dblSteps = 10 := by decide
  have c2 : cnt .add dblSteps = 15 := by decide
  have c3 : cnt .sub dblSteps = 6 := by decide
  have c4 : cnt .square dblSteps = 3 := by decide
  simp only [fuelPtDouble, slpFuel_eq, c1, c2, c3, c4, fuOf, fuelW]
  omega


/-! ## The statements for the generated program `prog`, as runs -/

section Runs
variable {α : Type} {G : Nat → Val} {X : Oracle} {enc : α → List Nat} {C : Model.Point.Ctx α}
  {Fmul Fsq Fadd Fsub Fopp Fone : Nat}

/-- global 6 of the generated program is `internal.sm2B` -/
theorem sm2B_global : globalNames[6]? = some "internal.sm2B" := rfl

theorem ir_Mul {F : Model.Field.FieldOps α} (hp : FiatPrims prog G X F enc Fmul Fsq Fadd Fsub Fopp Fone) (o : List Nat) (ho : Out4 o) (a b : α) :
    ∀ f, fuelW Fmul ≤ f → runV prog G X f f_fiat_SM2Element_Mul [elemV o, elemV (enc a), elemV (enc b)]
      = .ret [elemV (enc (F.mul a b)), elemV (enc (F.mul a b))] :=
  (Mul_computes prog_hasPointFns hp o ho a b).runV

theorem ir_Square {F : Model.Field.FieldOps α} (hp : FiatPrims prog G X F enc Fmul Fsq Fadd Fsub Fopp Fone) (o : List Nat) (ho : Out4 o) (a : α) :
    ∀ f, fuelW Fsq ≤ f → runV prog G X f f_fiat_SM2Element_Square [elemV o, elemV (enc a)]
      = .ret [elemV (enc (F.square a)), elemV (enc (F.square a))] :=
  (Square_computes prog_hasPointFns hp o ho a).runV

theorem ir_Add {F : Model.Field.FieldOps α} (hp : FiatPrims prog G X F enc Fmul Fsq Fadd Fsub Fopp Fone) (o : List Nat) (ho : Out4 o) (a b : α) :
    ∀ f, fuelW Fadd ≤ f → runV prog G X f f_fiat_SM2Element_Add [elemV o, elemV (enc a), elemV (enc b)]
      = .ret [elemV (enc (F.add a b)), elemV (enc (F.add a b))] :=
  (Add_computes prog_hasPointFns hp o ho a b).runV

theorem ir_Sub {F : Model.Field.FieldOps α} (hp : FiatPrims prog G X F enc Fmul Fsq Fadd Fsub Fopp Fone) (o : List Nat) (ho : Out4 o) (a b : α) :
    ∀ f, fuelW Fsub ≤ f → runV prog G X f f_fiat_SM2Element_Sub [elemV o, elemV (enc a), elemV (enc b)]
      = .ret [elemV (enc (F.sub a b)), elemV (enc (F.sub a b))] :=
  (Sub_computes prog_hasPointFns hp o ho a b).runV

theorem ir_Opp {F : Model.Field.FieldOps α} (hp : FiatPrims prog G X F enc Fmul Fsq Fadd Fsub Fopp Fone) (o : List Nat) (ho : Out4 o) (a : α) :
    ∀ f, fuelW Fopp ≤ f → runV prog G X f f_fiat_SM2Element_Opp [elemV o, elemV (enc a)]
      = .ret [elemV (enc (F.opp a)), elemV (enc (F.opp a))] :=
  (Opp_computes prog_hasPointFns hp o ho a).runV

theorem ir_One {F : Model.Field.FieldOps α} (hp : FiatPrims prog G X F enc Fmul Fsq Fadd Fsub Fopp Fone) (o : List Nat) (ho : Out4 o) :
    ∀ f, fuelW Fone ≤ f → runV prog G X f f_fiat_SM2Element_One [elemV o]
      = .ret [elemV (enc F.setOne), elemV (enc F.setOne)] :=
  (One_computes prog_hasPointFns hp o ho).runV

/-- Set: no hypothesis at all -/
theorem ir_Set (o t : List Nat) :
    ∀ f, 4 ≤ f → runV prog G X f f_fiat_SM2Element_Set [elemV o, elemV t] = .ret [elemV t, elemV t] :=
  (Set_computes prog_hasPointFns.h15 o t).runV

/-- SetRaw on raw limbs: no hypothesis on the field -/
theorem ir_SetRaw_raw (o l : List Nat) (ho : o.length = l.length) (hn : l.length < 9223372036854775808) :
    ∀ f, 6 ≤ f → runV prog G X f f_fiat_SM2Element_SetRaw [elemV o, limbsV l] = .ret [elemV l, elemV l] :=
  (SetRaw_computes prog_hasPointFns.h40 o l ho hn).runV

theorem ir_SetRaw {F : Model.Field.FieldOps α} (o l : List Nat) (ho : o.length = 4) (hl : l.length = 4) (hraw : enc (F.ofRaw l) = l) :
    ∀ f, 6 ≤ f → runV prog G X f f_fiat_SM2Element_SetRaw [elemV o, limbsV l]
      = .ret [elemV (enc (F.ofRaw l)), elemV (enc (F.ofRaw l))] :=
  (SetRaw_field prog_hasPointFns o l ho hl hraw).runV

theorem ir_GetRaw_raw (l : List Nat) :
    ∀ f, 2 ≤ f → runV prog G X f f_fiat_SM2Element_GetRaw [elemV l] = .ret [limbsV l] :=
  (GetRaw_computes prog_hasPointFns.h41 l).runV

theorem ir_GetRaw {F : Model.Field.FieldOps α} (e : α) (hraw : F.raw e = enc e) :
    ∀ f, 2 ≤ f → runV prog G X f f_fiat_SM2Element_GetRaw [elemV (enc e)] = .ret [limbsV (F.raw e)] :=
  (GetRaw_field prog_hasPointFns e hraw).runV

theorem ir_NewSM2Point (hp : FiatPrims prog G X C.F enc Fmul Fsq Fadd Fsub Fopp Fone) (hz : enc C.F.zero = [0, 0, 0, 0]) :
    ∀ f, fuelW Fone + 4 ≤ f → runV prog G X f f_internal_NewSM2Point [] = .ret [ptV enc (Model.Point.infinity C)] :=
  (NewSM2Point_computes prog_hasPointFns hp hz).runV

theorem ir_NewFromXY (hp : FiatPrims prog G X C.F enc Fmul Fsq Fadd Fsub Fopp Fone)
    (x y : List Nat) (hx : x.length = 4) (hy : y.length = 4) (hrx : enc (C.F.ofRaw x) = x) (hry : enc (C.F.ofRaw y) = y) :
    ∀ f, fuelW Fone + 20 ≤ f → runV prog G X f f_internal_NewFromXY [limbsV x, limbsV y]
      = .ret [ptV enc (Model.Point.fromXY C x y)] :=
  (NewFromXY_computes prog_hasPointFns hp x y hx hy hrx hry).runV

/-- (*SM2Point).Set: no hypothesis at all -/
theorem ir_PointSet (qa qb qc : List Nat) (q : Model.Point.Pt α) :
    ∀ f, 26 ≤ f → runV prog G X f f_internal_SM2Point_Set [ptRawV qa qb qc, ptV enc q] = .ret [ptV enc q, ptV enc q] :=
  (PointSet_computes prog_hasPointFns qa qb qc (enc q.x) (enc q.y) (enc q.z)).runV

theorem ir_Negate (hp : FiatPrims prog G X C.F enc Fmul Fsq Fadd Fsub Fopp Fone)
    (qa qb qc : List Nat) (hqb : Out4 qb) (p : Model.Point.Pt α) :
    ∀ f, fuelW Fopp + 22 ≤ f → runV prog G X f f_internal_SM2Point_Negate [ptRawV qa qb qc, ptV enc p]
      = .ret [ptV enc (Model.Point.negate C p), ptV enc (Model.Point.negate C p)] :=
  (Negate_computes prog_hasPointFns hp qa qb qc hqb p).runV

/-- (*SM2Point).Select, cond ∈ {0, 1}: no Fiat hypothesis (Select is proved down to the limbs) -/
theorem ir_PointSelect (qa qb qc : List Nat) (p1 p2 : Model.Point.Pt α) (cond : Nat)
    (hqa : qa.length = 4) (hqb : qb.length = 4) (hqc : qc.length = 4) (ho : ∀ e, Out4 (enc e)) (hc : cond ≤ 1) :
    ∀ f, fuelPtSelect ≤ f → runV prog G X f f_internal_SM2Point_Select
        [ptRawV qa qb qc, ptV enc p1, ptV enc p2, .int (cond : Int)]
      = .ret [ptV enc (selectPt p1 p2 cond), ptV enc (selectPt p1 p2 cond)] :=
  (Select_computes prog_hasPointFns qa qb qc p1 p2 cond hqa hqb hqc ho hc).runV

/-- (*SM2Point).Select, any cond ≥ 0, raw limbs -/
theorem ir_PointSelect_general (qa qb qc a1 b1 c1 a2 b2 c2 : List Nat) (cond : Nat)
    (hqa : qa.length = 4) (hqb : qb.length = 4) (hqc : qc.length = 4)
    (ha1 : 4 ≤ a1.length) (hb1 : 4 ≤ b1.length) (hc1 : 4 ≤ c1.length)
    (ha2 : 4 ≤ a2.length) (hb2 : 4 ≤ b2.length) (hc2 : 4 ≤ c2.length) :
    ∀ f, fuelPtSelect ≤ f → runV prog G X f f_internal_SM2Point_Select
        [ptRawV qa qb qc, ptRawV a1 b1 c1, ptRawV a2 b2 c2, .int (cond : Int)]
      = .ret [ptRawV (selectN a1 a2 cond) (selectN b1 b2 cond) (selectN c1 c2 cond),
              ptRawV (selectN a1 a2 cond) (selectN b1 b2 cond) (selectN c1 c2 cond)] :=
  (Select_general prog_hasPointFns qa qb qc a1 b1 c1 a2 b2 c2 cond hqa hqb hqc ha1 hb1 hc1 ha2 hb2 hc2).runV

/-- **(*SM2Point).Add** = `Model.Point.add` -/
theorem ir_PointAdd (hp : FiatPrims prog G X C.F enc Fmul Fsq Fadd Fsub Fopp Fone)
    (hB : G 6 = elemV (enc C.b)) (hprog : C.addProg = Gen.PointSLP.add) (hout : C.addOut = Gen.PointSLP.add_out)
    (qa qb qc : List Nat) (p1 p2 : Model.Point.Pt α) :
    ∀ f, fuelPtAdd Fmul Fadd Fsub Fsq ≤ f →
      runV prog G X f f_internal_SM2Point_Add [ptRawV qa qb qc, ptV enc p1, ptV enc p2]
        = .ret [ptV enc (Model.Point.add C p1 p2), ptV enc (Model.Point.add C p1 p2)] :=
  (PointAdd_computes prog_hasPointFns hp hB hprog hout qa qb qc p1 p2).runV

/-- **(*SM2Point).Double** = `Model.Point.double` -/
theorem ir_PointDouble (hp : FiatPrims prog G X C.F enc Fmul Fsq Fadd Fsub Fopp Fone)
    (hB : G 6 = elemV (enc C.b)) (hprog : C.dblProg = Gen.PointSLP.double) (hout : C.dblOut = Gen.PointSLP.double_out)
    (qa qb qc : List Nat) (p : Model.Point.Pt α) :
    ∀ f, fuelPtDouble Fmul Fadd Fsub Fsq ≤ f →
      runV prog G X f f_internal_SM2Point_Double [ptRawV qa qb qc, ptV enc p]
        = .ret [ptV enc (Model.Point.double C p), ptV enc (Model.Point.double C p)] :=
  (PointDouble_computes prog_hasPointFns hp hB hprog hout qa qb qc p).runV

end Runs

#print axioms ir_Mul
#print axioms ir_Square
#print axioms ir_Add
#print axioms ir_Sub
#print axioms ir_Opp
#print axioms ir_One
#print axioms ir_Set
#print axioms ir_SetRaw_raw
#print axioms ir_SetRaw
#print axioms ir_GetRaw
#print axioms ir_NewSM2Point
#print axioms ir_NewFromXY
#print axioms ir_PointSet
#print axioms ir_Negate
#print axioms ir_PointSelect
#print axioms ir_PointSelect_general
#print axioms slp_fold
#print axioms ir_PointAdd
#print axioms ir_PointDouble
#print axioms fuelPtAdd_eq
#print axioms fuelPtDouble_eq

end SMGo.Proofs.CTIRRefinePointA
