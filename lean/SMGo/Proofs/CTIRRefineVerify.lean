/-
  Refinement MODULO CALLEES AND EXTERNALS, for the EXTENDED program `SMGo.Gen.CTIRProgProto.prog`:
    * `fn_105` internal.Sm2CheckOnCurve   vs  `Model.Point.checkOnCurve`
    * `fn_104` (*SM2Point).SetBytes       vs  `Model.Point.setBytes`
    * `fn_107` sm2.VerifyHashed           vs  `Model.SM2.verifyHashed`
  (/repo/sm2/internal/sm2_point.go 77-132, /repo/sm2/sm2.go 310-368).
  Style of SMGo/Proofs/CTIRRefineField.lean / CTIRRefinePointA.lean / CTIRRefineSign.lean.

  Main statements (generic in the program `P`, given `P[k]? = some fn_k`; `ir_*` = the instances for `PX`):
    `checkOnCurve_computes` (hypotheses `ElemOps`, `G 6 = sm2B`; fuel `fuelCoc`),
    `pointSetBytes_computes` (hypotheses `PsbCallees`, `Out4` z-limbs of the receiver, EVERY `b`; fuel `fuelPsb`),
    `ir_verifyHashed_eq_model` (hypotheses `ExtOk` on the oracle — inhabited: `protoOracle_ok` —, `VerifyCallees`,
    `G 18 = 1`, `G 16 = n`; fuel `fuelVerify`); `psbCallees_of` / `verifyCallees_of` chain the three theorems.
  Every phase of `fn_107` is one lemma (`v_tail2` … `v_tail9`, `v_range`, `v_build`) against one layer of the model
  (`verifyHashed_layers`, `mSet`, `mMM`, `mFin`); `Ends` = "returns values satisfying the specification, or fails".

  Findings (model vs IR):
  * Sm2CheckOnCurve: NO disagreement; the model performs the field operations in the order of the Go code.
  * (*SM2Point).SetBytes: NO disagreement any more.  HISTORY: the first translation compiled `len(b) == 1 && b[0] == 0`
    to the strict operator `.land`, so that on `b = []` the IR was stuck while Go and the model return an error; this file
    proved it (`pointSetBytes_nil_stuck`), the translator was repaired (`&&` short-circuits through a guard temporary,
    `guardS` / `ps_guard` below) and `fn_104` regenerated; `pointSetBytes_nil` is now the positive statement.
  * VerifyHashed: NO disagreement on the verdict; the model's `.ok false` covers the IR results `[0, 1]`
    ((false, error)) and `[0, 0]` ((false, nil)); the theorem gives the error code.  The model never returns `.err`.
    The length-error branch calls `fmt.Errorf` (external 10): the oracle must answer with ONE value.
-/
import SMGo.Proofs.CTIRRefinePointA
import SMGo.Proofs.CTIRRefineComb
import SMGo.Gen.CTIRProgProto
import SMGo.Model.CTIRProto
import SMGo.Model.SM2Proto
open SMGo SMGo.Model.CTIR SMGo.Proofs.CTIRRefineUtils SMGo.Proofs.CTIRRefineField
open SMGo.Gen.CTIRProg (seqs)
open SMGo.Proofs.CTIRRefineComb (CalleeFails Fails evIn_ext runV_of_Fails)
open SMGo.Proofs.CTIRRefinePointA (ptV ptRawV mkE evalV_mkE out4_zero evalV_coord)
set_option linter.unusedSimpArgs false
set_option linter.unusedVariables false
set_option maxRecDepth 100000

namespace SMGo.Proofs.CTIRRefineVerify

open SMGo.Gen.CTIRProgProto (fn_104 fn_105 fn_107)

/-- the extended program -/
abbrev PX : Prog := SMGo.Gen.CTIRProgProto.prog

theorem PX_105 : PX[105]? = some fn_105 := rfl
theorem PX_104 : PX[104]? = some fn_104 := rfl
theorem PX_107 : PX[107]? = some fn_107 := rfl

/-! ## Small evaluation lemmas (copies of the helpers of CTIRRefineSign, which is about the base program) -/

section Eval
variable {P : Prog} {G : Nat → Val} {O : Oracle}

theorem bytesV_replicate (n : Nat) : bytesV (List.replicate n 0) = .arr (List.replicate n (.int 0)) := by
  simp only [bytesV, List.map_replicate]; rfl

theorem evalV_lenB {env : Env} {a : Expr} {x : Bytes} (ha : evalV G env a = some (bytesV x)) :
    evalV G env (.len a) = some (.int (x.length : Int)) := by
  rw [evalV_len, ha]; simp [bytesV]

theorem sliceList_bytes (x : Bytes) (l h : Nat) (h1 : l ≤ h) (h2 : h ≤ x.length) :
    sliceList (x.map (fun x => Val.int (Int.ofNat x.toNat))) (l : Int) (h : Int)
      = some (((x.drop l).take (h - l)).map (fun x => Val.int (Int.ofNat x.toNat))) := by
  unfold sliceList
  rw [if_neg (by simp only [List.length_map]; omega)]
  simp only [Int.toNat_natCast, List.map_take, List.map_drop]

theorem evalV_sliceB {env : Env} {a lo hi : Expr} {x : Bytes} {l h : Nat}
    (ha : evalV G env a = some (bytesV x)) (hl : evalV G env lo = some (.int (l : Int)))
    (hh : evalV G env hi = some (.int (h : Int))) (h1 : l ≤ h) (h2 : h ≤ x.length) :
    evalV G env (.slice a lo hi) = some (bytesV ((x.drop l).take (h - l))) := by
  rw [evalV_slice, ha, hl, hh]
  simp only [bytesV]
  rw [sliceList_bytes x l h h1 h2]; rfl

theorem evalV_catB {env : Env} {a b : Expr} {x y : Bytes}
    (ha : evalV G env a = some (bytesV x)) (hb : evalV G env b = some (bytesV y)) :
    evalV G env (.cat a b) = some (bytesV (x ++ y)) := by
  rw [evalV_cat, ha, hb]; simp [bytesV]

theorem evar {env : Env} {x : Nat} {v : Val} (h : env x = v) : evalV G env (.var x) = some v := by
  rw [evalV_var, h]

/-- an external call with one result -/
theorem ext1 {env : Env} {x name : Nat} {leaky : Bool} {args : List Expr} {vs : List Val} {v : Val}
    (ha : evalVs G env args = some vs) (hO : O name vs = [v]) :
    EvIn P G O 1 env (.ext [x] name leaky args) (env.set x v) .norm :=
  evIn_ext ha (by rw [hO]; rfl)

theorem asBool_ofBool (b : Bool) : asBool (.int (ofBool b)) = some b := by
  cases b <;> rfl

theorem ofBool_ne0 (b : Bool) : (ofBool b != 0) = b := by
  cases b <;> rfl

/-- a failing body as a failing callee -/
theorem calleeFails_of_body {g : Nat} {args : List Val} {fn : Fn} (hg : P[g]? = some fn) (hs : fn.stub = false)
    (hn : args.length = fn.nparams) (h : Fails P G O (Env.ofList args) fn.body) : CalleeFails P G O g args := by
  rcases h with ⟨F, env', h⟩ | h
  · exact Or.inl ⟨fn, F, env', hg, hs, hn, h⟩
  · exact Or.inr ⟨fn, hg, h⟩

end Eval


/-! ## 1. Sm2CheckOnCurve -/

/-- HYPOTHESES on the element methods called by `Sm2CheckOnCurve` (functions 22, 24, 16, 18, 37 of the extended
    program): they compute the operations of the `FieldOps` on the encodings; the receiver holds any four limbs -/
structure ElemOps {α : Type} (P : Prog) (G : Nat → Val) (O : Oracle) (F : Model.Field.FieldOps α) (enc : α → List Nat)
    (Fmul Fsq Fadd Fsub Feq : Nat) : Prop where
  enc_out4 : ∀ e, Out4 (enc e)
  mul : ∀ (o : List Nat) (a b : α), Out4 o →
    Computes P G O 22 Fmul [elemV o, elemV (enc a), elemV (enc b)] [elemV (enc (F.mul a b)), elemV (enc (F.mul a b))]
  square : ∀ (o : List Nat) (a : α), Out4 o →
    Computes P G O 24 Fsq [elemV o, elemV (enc a)] [elemV (enc (F.square a)), elemV (enc (F.square a))]
  add : ∀ (o : List Nat) (a b : α), Out4 o →
    Computes P G O 16 Fadd [elemV o, elemV (enc a), elemV (enc b)] [elemV (enc (F.add a b)), elemV (enc (F.add a b))]
  sub : ∀ (o : List Nat) (a b : α), Out4 o →
    Computes P G O 18 Fsub [elemV o, elemV (enc a), elemV (enc b)] [elemV (enc (F.sub a b)), elemV (enc (F.sub a b))]
  equal : ∀ (a b : α), Computes P G O 37 Feq [elemV (enc a), elemV (enc b)] [.int ((Model.Field.equal F a b : Nat) : Int)]

def cocStmts : List Stmt := [.call [2, 3] 24 [mkE, (.var 0)],
    .assign 4 [] (.var 3),
    .call [4, 2] 22 [(.var 4), (.var 4), (.var 0)],
    .call [2, 5] 16 [mkE, (.var 0), (.var 0)],
    .assign 6 [] (.var 5),
    .call [6, 2] 16 [(.var 6), (.var 6), (.var 0)],
    .call [4, 2] 18 [(.var 4), (.var 4), (.var 6)],
    .call [4, 2] 16 [(.var 4), (.var 4), (.glob 6)],
    .call [2, 7] 24 [mkE, (.var 1)],
    .assign 8 [] (.var 7),
    .call [9] 37 [(.var 4), (.var 8)]]

def cocTail : Stmt := .seq (.ite (.op2 .ne (.var 9) (.lit 1)) (.ret [(.lit 1)]) .skip) (.seq (.ret [(.lit 0)]) .panic)

theorem fn_105_body : fn_105.body = seqs (cocStmts ++ [cocTail]) := rfl

/-- fuel for Sm2CheckOnCurve -/
def fuelCoc (Fmul Fsq Fadd Fsub Feq : Nat) : Nat := Fmul + 2 * Fsq + 3 * Fadd + Fsub + Feq + 40

section CheckOnCurve
variable {α : Type} {P : Prog} {G : Nat → Val} {O : Oracle} {C : Model.Point.Ctx α} {enc : α → List Nat}
  {Fmul Fsq Fadd Fsub Feq : Nat}

/-- **Sm2CheckOnCurve** = `Model.Point.checkOnCurve` (0 = nil error = on the curve, 1 = error) -/
theorem checkOnCurve_computes (h105 : P[105]? = some fn_105) (hp : ElemOps P G O C.F enc Fmul Fsq Fadd Fsub Feq)
    (hB : G 6 = elemV (enc C.b)) (x y : α) :
    Computes P G O 105 (fuelCoc Fmul Fsq Fadd Fsub Feq) [elemV (enc x), elemV (enc y)]
      [.int (if Model.Point.checkOnCurve C x y then 0 else 1)] := by
  let F := C.F
  let ex := elemV (enc x)
  let xx := F.square x
  let x3 := F.mul xx x
  let x2 := F.add x x
  let tx := F.add x2 x
  let d := F.sub x3 tx
  let lhs := F.add d C.b
  let y2 := F.square y
  let e0 : Env := Env.ofList [elemV (enc x), elemV (enc y)]
  let e1 := (e0.set 2 (elemV (enc xx))).set 3 (elemV (enc xx))
  let e2 := e1.set 4 (elemV (enc xx))
  let e3 := (e2.set 4 (elemV (enc x3))).set 2 (elemV (enc x3))
  let e4 := (e3.set 2 (elemV (enc x2))).set 5 (elemV (enc x2))
  let e5 := e4.set 6 (elemV (enc x2))
  let e6 := (e5.set 6 (elemV (enc tx))).set 2 (elemV (enc tx))
  let e7 := (e6.set 4 (elemV (enc d))).set 2 (elemV (enc d))
  let e8 := (e7.set 4 (elemV (enc lhs))).set 2 (elemV (enc lhs))
  let e9 := (e8.set 2 (elemV (enc y2))).set 7 (elemV (enc y2))
  let e10 := e9.set 8 (elemV (enc y2))
  let e11 := e10.set 9 (.int ((Model.Field.equal F lhs y2 : Nat) : Int))
  have c1 : EvIn P G O (Fsq + 1) e0 (.call [2, 3] 24 [mkE, (.var 0)]) e1 .norm := by
    refine (hp.square [0, 0, 0, 0] x out4_zero).call ?_ rfl
    simp only [evalVs_cons, evalVs_nil, evalV_mkE, evalV_var]; rfl
  have c2 : EvIn P G O 1 e1 (.assign 4 [] (.var 3)) e2 .norm := EvIn.assign rfl
  have c3 : EvIn P G O (Fmul + 1) e2 (.call [4, 2] 22 [(.var 4), (.var 4), (.var 0)]) e3 .norm := by
    refine (hp.mul (enc xx) xx x (hp.enc_out4 _)).call ?_ rfl
    simp only [evalVs_cons, evalVs_nil, evalV_var]; rfl
  have c4 : EvIn P G O (Fadd + 1) e3 (.call [2, 5] 16 [mkE, (.var 0), (.var 0)]) e4 .norm := by
    refine (hp.add [0, 0, 0, 0] x x out4_zero).call ?_ rfl
    simp only [evalVs_cons, evalVs_nil, evalV_mkE, evalV_var]; rfl
  have c5 : EvIn P G O 1 e4 (.assign 6 [] (.var 5)) e5 .norm := EvIn.assign rfl
  have c6 : EvIn P G O (Fadd + 1) e5 (.call [6, 2] 16 [(.var 6), (.var 6), (.var 0)]) e6 .norm := by
    refine (hp.add (enc x2) x2 x (hp.enc_out4 _)).call ?_ rfl
    simp only [evalVs_cons, evalVs_nil, evalV_var]; rfl
  have c7 : EvIn P G O (Fsub + 1) e6 (.call [4, 2] 18 [(.var 4), (.var 4), (.var 6)]) e7 .norm := by
    refine (hp.sub (enc x3) x3 tx (hp.enc_out4 _)).call ?_ rfl
    simp only [evalVs_cons, evalVs_nil, evalV_var]; rfl
  have c8 : EvIn P G O (Fadd + 1) e7 (.call [4, 2] 16 [(.var 4), (.var 4), (.glob 6)]) e8 .norm := by
    refine (hp.add (enc d) d C.b (hp.enc_out4 _)).call ?_ rfl
    simp only [evalVs_cons, evalVs_nil, evalV_var, evalV_glob, hB]; rfl
  have c9 : EvIn P G O (Fsq + 1) e8 (.call [2, 7] 24 [mkE, (.var 1)]) e9 .norm := by
    refine (hp.square [0, 0, 0, 0] y out4_zero).call ?_ rfl
    simp only [evalVs_cons, evalVs_nil, evalV_mkE, evalV_var]; rfl
  have c10 : EvIn P G O 1 e9 (.assign 8 [] (.var 7)) e10 .norm := EvIn.assign rfl
  have c11 : EvIn P G O (Feq + 1) e10 (.call [9] 37 [(.var 4), (.var 8)]) e11 .norm := by
    refine (hp.equal lhs y2).call ?_ rfl
    simp only [evalVs_cons, evalVs_nil, evalV_var]; rfl
  have hpre := Pre.cons c1 (Pre.cons c2 (Pre.cons c3 (Pre.cons c4 (Pre.cons c5 (Pre.cons c6 (Pre.cons c7
    (Pre.cons c8 (Pre.cons c9 (Pre.cons c10 (Pre.cons c11 (Pre.nil _)))))))))))
  have g9 : e11 9 = .int ((Model.Field.equal F lhs y2 : Nat) : Int) := rfl
  have hmodel : Model.Point.checkOnCurve C x y = decide (Model.Field.equal F lhs y2 = 1) := rfl
  refine Computes.of_body h105 rfl rfl (env' := e11) ?_
  rw [fn_105_body]
  by_cases heq : Model.Field.equal F lhs y2 = 1
  · have hc : evalV G e11 (.op2 .ne (.var 9) (.lit 1)) = some (.int 0) := by
      rw [evalV_op2, evalV_var, g9, evalV_lit, heq]; rfl
    have t : EvIn P G O 5 e11 cocTail e11 (.ret [.int 0]) :=
      EvIn.seq (EvIn.ite hc (d := false) rfl (EvIn.skip _)) (EvIn.seq_stop (EvIn.ret rfl) (by simp))
    rw [hmodel, decide_eq_true heq, if_pos rfl]
    exact ((hpre _).1 _ _ _ t).mono (by simp only [fuelCoc]; omega)
  · have hle : Model.Field.equal F lhs y2 = 0 := by
      have : Model.Field.equal F lhs y2 ≤ 1 := by
        simp only [Model.Field.equal]; split <;> omega
      omega
    have hc : evalV G e11 (.op2 .ne (.var 9) (.lit 1)) = some (.int 1) := by
      rw [evalV_op2, evalV_var, g9, evalV_lit, hle]; rfl
    have t : EvIn P G O 3 e11 cocTail e11 (.ret [.int 1]) :=
      EvIn.seq_stop (EvIn.ite hc (d := true) rfl (EvIn.ret rfl)) (by simp)
    rw [hmodel, decide_eq_false heq, if_neg (by simp)]
    exact ((hpre _).1 _ _ _ t).mono (by simp only [fuelCoc]; omega)

end CheckOnCurve


/-! ## How a statement ends, against a specification derived from the model's outcome

  `none` = the model panics: the statement `Fails` (explicit panic, or stuck with every fuel);
  `some Q` = the statement returns, with any fuel ≥ `K`, a list of values satisfying `Q`. -/

def Ends (P : Prog) (G : Nat → Val) (O : Oracle) (K : Nat) (env : Env) (s : Stmt) : Option (List Val → Prop) → Prop
  | none => Fails P G O env s
  | some Q => ∃ env' vs, Q vs ∧ EvIn P G O K env s env' (.ret vs)

section EndsLemmas
variable {P : Prog} {G : Nat → Val} {O : Oracle}

theorem Ends.mono {K K' : Nat} {env : Env} {s : Stmt} {spec : Option (List Val → Prop)}
    (h : Ends P G O K env s spec) (hK : K ≤ K') : Ends P G O K' env s spec := by
  cases spec with
  | none => exact h
  | some Q => obtain ⟨env', vs, hq, he⟩ := h; exact ⟨env', vs, hq, he.mono hK⟩

theorem Ends.pre {K1 K2 : Nat} {env env1 : Env} {ss : List Stmt} {rest : Stmt} {spec : Option (List Val → Prop)}
    (hp : Pre P G O K1 env ss env1) (h : Ends P G O K2 env1 rest spec) :
    Ends P G O (K2 + K1) env (seqs (ss ++ [rest])) spec := by
  cases spec with
  | none =>
    rcases h with ⟨F, env', h⟩ | h
    · exact Or.inl ⟨_, _, (hp rest).1 _ _ _ h⟩
    · exact Or.inr ((hp rest).2 h)
  | some Q => obtain ⟨env', vs, hq, he⟩ := h; exact ⟨env', vs, hq, (hp rest).1 _ _ _ he⟩

theorem Ends.ite {K : Nat} {env : Env} {c : Expr} {a b : Stmt} {v : Val} {d : Bool} {spec : Option (List Val → Prop)}
    (hc : evalV G env c = some v) (hd : asBool v = some d) (h : Ends P G O K env (if d then a else b) spec) :
    Ends P G O (K + 1) env (.ite c a b) spec := by
  cases spec with
  | none => exact Fails.ite hc hd h
  | some Q => obtain ⟨env', vs, hq, he⟩ := h; exact ⟨env', vs, hq, EvIn.ite hc hd he⟩

theorem Ends.seq_stop {K : Nat} {env : Env} {a b : Stmt} {spec : Option (List Val → Prop)}
    (h : Ends P G O K env a spec) : Ends P G O (K + 1) env (.seq a b) spec := by
  cases spec with
  | none => exact Fails.seq_left h
  | some Q => obtain ⟨env', vs, hq, he⟩ := h; exact ⟨env', vs, hq, EvIn.seq_stop he (by simp)⟩

theorem Ends.ret {env : Env} {es : List Expr} {vs : List Val} {Q : List Val → Prop}
    (h : evalVs G env es = some vs) (hq : Q vs) : Ends P G O 1 env (.ret es) (some Q) :=
  ⟨env, vs, hq, EvIn.ret h⟩

/-- a failing call -/
theorem Ends.callFails {env : Env} {lhs : List Nat} {g : Nat} {args : List Expr} {vs : List Val}
    (ha : evalVs G env args = some vs) (h : CalleeFails P G O g vs) : Ends P G O 0 env (.call lhs g args) none :=
  Fails.call ha h

end EndsLemmas


/-! ## 2. (*SM2Point).SetBytes -/

open SMGo.Proofs.CTIRRefineComb (nilPointV)

/-- HYPOTHESES on the callees of `(*SM2Point).SetBytes` in the extended program -/
structure PsbCallees {α : Type} (P : Prog) (G : Nat → Val) (O : Oracle) (C : Model.Point.Ctx α) (enc : α → List Nat)
    (Fnew Fpset Fsb Fcoc Fes Fone : Nat) : Prop where
  /-- NewSM2Point -/
  new : Computes P G O 73 Fnew [] [ptV enc (Model.Point.infinity C)]
  /-- (*SM2Point).Set -/
  pset : ∀ qa qb qc a b c : List Nat, Computes P G O 75 Fpset [ptRawV qa qb qc, ptRawV a b c] [ptRawV a b c, ptRawV a b c]
  /-- (*SM2Element).SetBytes on a fresh element, by the outcome of the model -/
  esb : ∀ v : Bytes, match Model.Field.setBytes C.F v with
    | .ok e => Computes P G O 33 Fsb [elemV [0, 0, 0, 0], bytesV v] [elemV (enc e), elemV (enc e), .int 0]
    | .err => Computes P G O 33 Fsb [elemV [0, 0, 0, 0], bytesV v] [elemV [0, 0, 0, 0], elemV [0, 0, 0, 0], .int 1]
    | .panic => CalleeFails P G O 33 [elemV [0, 0, 0, 0], bytesV v]
  /-- Sm2CheckOnCurve (`checkOnCurve_computes`) -/
  coc : ∀ x y : α, Computes P G O 105 Fcoc [elemV (enc x), elemV (enc y)] [.int (if Model.Point.checkOnCurve C x y then 0 else 1)]
  /-- (*SM2Element).Set -/
  eset : ∀ o t : List Nat, Computes P G O 15 Fes [elemV o, elemV t] [elemV t, elemV t]
  /-- (*SM2Element).One -/
  one : ∀ o : List Nat, Out4 o → Computes P G O 13 Fone [elemV o] [elemV (enc C.F.setOne), elemV (enc C.F.setOne)]

/-- one case test of the `switch`, `len(b) == L && b[0] == k`, compiled with a guard: `g = len(b) == L; t = g; if g { t = b[0] == k }` -/
def guardS (g t : Nat) (L k : Int) : List Stmt := [.assign g [] (.op2 .eq (.len (.var 1)) (.lit L)), .assign t [] (.var g),
    .ite (.var g) (.assign t [] (.op2 .eq (.idxc (.var 1) 0) (.lit k))) .skip]
def nilPtE : Expr := .mk (.lit 3) (.mk (.lit 1) (.mk (.lit 4) (.lit 0)))
def psErr (v : Expr) : Stmt := .ret [(.var 0), nilPtE, v]
def psInf : List Stmt := [.call [5] 73 [], .call [0, 6] 75 [(.var 0), (.var 5)]]
def psX : List Stmt := [.call [2, 9, 10] 33 [mkE, (.slice (.var 1) (.lit 1) (.lit 33))], .assign 11 [] (.var 9), .assign 12 [] (.var 10)]
def psChk12 : Stmt := .ite (.op2 .ne (.var 12) (.lit 0)) (psErr (.var 12)) .skip
def psY : List Stmt := [.call [2, 13, 14] 33 [mkE, (.slice (.var 1) (.lit 33) (.len (.var 1)))], .assign 15 [] (.var 13), .assign 12 [] (.var 14)]
def psC : List Stmt := [.call [16] 105 [(.var 11), (.var 15)], .assign 17 [] (.var 16)]
def psChk17 : Stmt := .ite (.op2 .ne (.var 17) (.lit 0)) (psErr (.var 17)) .skip
def psStore : List Stmt := [.call [18, 2] 15 [(.idxc (.var 0) 0), (.var 11)], .assign 0 [.c 0] (.var 18),
    .call [19, 2] 15 [(.idxc (.var 0) 1), (.var 15)], .assign 0 [.c 1] (.var 19),
    .call [20, 2] 13 [(.idxc (.var 0) 2)], .assign 0 [.c 2] (.var 20)]
def psRetOk : Stmt := .ret [(.var 0), (.var 0), (.lit 0)]
/-- from `Sm2CheckOnCurve(x, y)` on -/
def psTailC : Stmt := seqs (psC ++ [.seq psChk17 (seqs (psStore ++ [psRetOk]))])
/-- from the test of the first `err` on -/
def psTailY : Stmt := .seq psChk12 (seqs (psY ++ [.seq psChk12 psTailC]))
def psUnc : Stmt := seqs (psX ++ [psTailY])
/-- the compressed-form case and the default case (both return an error) -/
def psElse2 : Stmt := seqs (guardS 21 22 33 0 ++ [.ite (.var 22) (psErr (.lit 1)) (psErr (.lit 1))])
def psElse1 : Stmt := seqs (guardS 7 8 65 4 ++ [.ite (.var 8) psUnc psElse2])
def psInfS : Stmt := seqs (psInf ++ [.ret [(.var 0), (.var 6), (.lit 0)]])

theorem fn_104_body : fn_104.body = seqs (guardS 3 4 1 0 ++ [.seq (.ite (.var 4) psInfS psElse1) .panic]) := rfl

/-- what the IR returns, by the outcome of the model: `(p, nil)`, or `(nil, err)` with the receiver unchanged -/
def psSpec {α : Type} (enc : α → List Nat) (recv : Val) : Outcome (Model.Point.Pt α) → Option (List Val → Prop)
  | .ok p => some (fun vs => vs = [ptV enc p, ptV enc p, .int 0])
  | .err => some (fun vs => vs = [recv, nilPointV, .int 1])
  | .panic => none

section PointSetBytes
variable {α : Type} {P : Prog} {G : Nat → Val} {O : Oracle} {C : Model.Point.Ctx α} {enc : α → List Nat}
  {Fnew Fpset Fsb Fcoc Fes Fone : Nat}

theorem evalV_nilPtE (env : Env) : evalV G env nilPtE = some nilPointV := by
  simp only [nilPtE, evalV_mk, evalV_lit]; rfl

/-- the error return `return nil, err` -/
theorem ps_err_ret {env : Env} {recv : Val} {ve : Expr} (h0 : env 0 = recv) (hv : evalV G env ve = some (.int 1)) :
    Ends P G O 1 env (psErr ve) (psSpec enc recv (.err : Outcome (Model.Point.Pt α))) := by
  refine Ends.ret (vs := [recv, nilPointV, .int 1]) ?_ rfl
  simp only [evalVs_cons, evalVs_nil, evalV_var, h0, evalV_nilPtE, hv]

/-- one guarded case test, on ANY `b` (the index `b[0]` is only evaluated when `len(b) = L ≥ 1`): variable `t` ends as
    the truth value of `len(b) == L && b[0] == k` -/
theorem ps_guard {env : Env} {b : Bytes} (h1 : env 1 = bytesV b) {g t : Nat} (hg1 : g ≠ 1) (ht1 : t ≠ 1) (hgt : g ≠ t)
    (L : Nat) (hL : 0 < L) (k : UInt8) :
    ∃ (env' : Env) (d : Bool), Pre P G O 8 env (guardS g t (L : Int) (k.toNat : Int)) env' ∧ env' t = .int (ofBool d) ∧
      (d = true ↔ (b.length = L ∧ b.head? = some k)) ∧ ∀ z, z ≠ g → z ≠ t → env' z = env z := by
  have l1 : evalV G env (.len (.var 1)) = some (.int (b.length : Int)) := evalV_lenB (evar h1)
  have hlen : evalV G env (.op2 .eq (.len (.var 1)) (.lit (L : Int))) = some (.int (ofBool ((b.length : Int) == (L : Int)))) := by
    simp only [evalV_op2, l1, evalV_lit, evalOp2, Option.map_some]
  by_cases hl : b.length = L
  · cases b with
    | nil => simp at hl; omega
    | cons b0 bs =>
    have hbe : (((b0 :: bs).length : Int) == (L : Int)) = true := by rw [beq_iff_eq]; omega
    rw [hbe] at hlen
    let d : Bool := ((b0.toNat : Int) == (k.toNat : Int))
    let e1 := env.set g (.int 1)
    let e2 := e1.set t (.int 1)
    let e3 := e2.set t (.int (ofBool d))
    have c1 : EvIn P G O 1 env (.assign g [] (.op2 .eq (.len (.var 1)) (.lit (L : Int)))) e1 .norm := EvIn.assign hlen
    have c2 : EvIn P G O 1 e1 (.assign t [] (.var g)) e2 .norm := EvIn.assign (evar (Env.set_same _ _ _))
    have gg : e2 g = .int 1 := (Env.set_other e1 _ hgt).trans (Env.set_same _ _ _)
    have g1 : e2 1 = bytesV (b0 :: bs) :=
      (Env.set_other e1 _ (Ne.symm ht1)).trans ((Env.set_other env _ (Ne.symm hg1)).trans h1)
    have i1 : evalV G e2 (.op2 .eq (.idxc (.var 1) 0) (.lit (k.toNat : Int))) = some (.int (ofBool d)) := by
      have q : evalV G e2 (.idxc (.var 1) 0) = some (.int (b0.toNat : Int)) := by
        rw [evalV_idxc, evalV_var, g1]; rfl
      simp only [evalV_op2, q, evalV_lit, evalOp2, Option.map_some, d]
    have c3 : EvIn P G O 2 e2 (.ite (.var g) (.assign t [] (.op2 .eq (.idxc (.var 1) 0) (.lit (k.toNat : Int)))) .skip) e3 .norm :=
      EvIn.ite (evar gg) (d := true) rfl (EvIn.assign i1)
    refine ⟨e3, d, (Pre.cons c1 (Pre.cons c2 (Pre.cons c3 (Pre.nil _)))).mono (by omega), Env.set_same _ _ _, ?_, ?_⟩
    · simp only [d, beq_iff_eq, List.head?_cons, Option.some.injEq]
      constructor
      · intro h; exact ⟨hl, UInt8.toNat_inj.mp (by omega)⟩
      · rintro ⟨_, h'⟩; rw [h']
    · intro z hzg hzt
      show (((env.set g _).set t _).set t _) z = env z
      rw [Env.set_other _ _ hzt, Env.set_other _ _ hzt, Env.set_other _ _ hzg]
  · have hbe : ((b.length : Int) == (L : Int)) = false := by rw [beq_eq_false_iff_ne]; omega
    rw [hbe] at hlen
    let e1 := env.set g (.int 0)
    let e2 := e1.set t (.int 0)
    have c1 : EvIn P G O 1 env (.assign g [] (.op2 .eq (.len (.var 1)) (.lit (L : Int)))) e1 .norm := EvIn.assign hlen
    have c2 : EvIn P G O 1 e1 (.assign t [] (.var g)) e2 .norm := EvIn.assign (evar (Env.set_same _ _ _))
    have gg : e2 g = .int 0 := (Env.set_other e1 _ hgt).trans (Env.set_same _ _ _)
    have c3 : EvIn P G O 2 e2 (.ite (.var g) (.assign t [] (.op2 .eq (.idxc (.var 1) 0) (.lit (k.toNat : Int)))) .skip) e2 .norm :=
      EvIn.ite (evar gg) (d := false) rfl (EvIn.skip _)
    refine ⟨e2, false, (Pre.cons c1 (Pre.cons c2 (Pre.cons c3 (Pre.nil _)))).mono (by omega), Env.set_same _ _ _, ?_, ?_⟩
    · constructor
      · intro h; cases h
      · rintro ⟨h, _⟩; exact absurd h hl
    · intro z hzg hzt
      show ((env.set g _).set t _) z = env z
      rw [Env.set_other _ _ hzt, Env.set_other _ _ hzg]

/-- the assignments `p.x.Set(x); p.y.Set(y); p.z.One(); return p, nil` -/
theorem ps_store (hc : PsbCallees P G O C enc Fnew Fpset Fsb Fcoc Fes Fone) {env : Env} {qa qb qc : List Nat} (hqc : Out4 qc)
    {x y : α} (h0 : env 0 = ptRawV qa qb qc) (h11 : env 11 = elemV (enc x)) (h15 : env 15 = elemV (enc y)) :
    Ends P G O (2 * Fes + Fone + 14) env (seqs (psStore ++ [psRetOk]))
      (psSpec enc (ptRawV qa qb qc) (.ok { x := x, y := y, z := C.F.setOne })) := by
  have h0' : env 0 = .arr [elemV qa, elemV qb, elemV qc] := h0
  have a1 : evalVs G env [(.idxc (.var 0) 0), (.var 11)] = some [elemV qa, elemV (enc x)] := by
    simp only [evalVs_cons, evalVs_nil, evalV_coord (G := G) h0' (k := 0) rfl, evalV_var, h11]
  obtain ⟨e1, p1, g1, f1⟩ := SMGo.Proofs.CTIRRefinePointA.coord_pair (t := 18) (sc := 2) (k := 0) (hc.eset qa (enc x)) a1 h0'
    (by simp) (by decide) (by decide) (by decide)
  have g1' : e1 0 = .arr [elemV (enc x), elemV qb, elemV qc] := g1
  have a2 : evalVs G e1 [(.idxc (.var 0) 1), (.var 15)] = some [elemV qb, elemV (enc y)] := by
    simp only [evalVs_cons, evalVs_nil, evalV_coord (G := G) g1' (k := 1) rfl, evalV_var,
      f1 15 (by decide) (by decide) (by decide), h15]
  obtain ⟨e2, p2, g2, f2⟩ := SMGo.Proofs.CTIRRefinePointA.coord_pair (t := 19) (sc := 2) (k := 1) (hc.eset qb (enc y)) a2 g1'
    (by simp) (by decide) (by decide) (by decide)
  have g2' : e2 0 = .arr [elemV (enc x), elemV (enc y), elemV qc] := g2
  have a3 : evalVs G e2 [(.idxc (.var 0) 2)] = some [elemV qc] := by
    simp only [evalVs_cons, evalVs_nil, evalV_coord (G := G) g2' (k := 2) rfl]
  obtain ⟨e3, p3, g3, f3⟩ := SMGo.Proofs.CTIRRefinePointA.coord_pair (t := 20) (sc := 2) (k := 2) (hc.one qc hqc) a3 g2'
    (by simp) (by decide) (by decide) (by decide)
  have g3' : e3 0 = ptV enc { x := x, y := y, z := C.F.setOne } := g3
  have r : Ends P G O 1 e3 psRetOk (psSpec enc (ptRawV qa qb qc) (.ok { x := x, y := y, z := C.F.setOne })) := by
    refine Ends.ret (vs := [ptV enc { x := x, y := y, z := C.F.setOne }, ptV enc { x := x, y := y, z := C.F.setOne }, .int 0]) ?_ rfl
    simp only [evalVs_cons, evalVs_nil, evalV_var, g3', evalV_lit]
  exact (Ends.pre (Pre.append p1 (Pre.append p2 p3)) r).mono (by omega)

/-- from `Sm2CheckOnCurve(x, y)` on -/
theorem ps_tailC (hc : PsbCallees P G O C enc Fnew Fpset Fsb Fcoc Fes Fone) {env : Env} {qa qb qc : List Nat} (hqc : Out4 qc)
    {x y : α} (h0 : env 0 = ptRawV qa qb qc) (h11 : env 11 = elemV (enc x)) (h15 : env 15 = elemV (enc y)) :
    Ends P G O (Fcoc + 2 * Fes + Fone + 24) env psTailC
      (psSpec enc (ptRawV qa qb qc) (if Model.Point.checkOnCurve C x y then .ok { x := x, y := y, z := C.F.setOne } else .err)) := by
  let cc : Int := if Model.Point.checkOnCurve C x y then 0 else 1
  let e1 := env.set 16 (.int cc)
  let e2 := e1.set 17 (.int cc)
  have c1 : EvIn P G O (Fcoc + 1) env (.call [16] 105 [(.var 11), (.var 15)]) e1 .norm := by
    refine (hc.coc x y).call ?_ rfl
    simp only [evalVs_cons, evalVs_nil, evalV_var, h11, h15]
  have c2 : EvIn P G O 1 e1 (.assign 17 [] (.var 16)) e2 .norm := EvIn.assign rfl
  have hp := Pre.cons c1 (Pre.cons c2 (Pre.nil _))
  have g0 : e2 0 = ptRawV qa qb qc := h0
  have g11 : e2 11 = elemV (enc x) := h11
  have g15 : e2 15 = elemV (enc y) := h15
  have g17 : e2 17 = .int cc := rfl
  by_cases hcoc : Model.Point.checkOnCurve C x y = true
  · have hcc : cc = 0 := if_pos hcoc
    have hcond : evalV G e2 (.op2 .ne (.var 17) (.lit 0)) = some (.int 0) := by
      rw [evalV_op2, evalV_var, g17, evalV_lit, hcc]; rfl
    rw [if_pos hcoc]
    have r : Ends P G O (2 * Fes + Fone + 14 + 3) e2 (.seq psChk17 (seqs (psStore ++ [psRetOk])))
        (psSpec enc (ptRawV qa qb qc) (.ok { x := x, y := y, z := C.F.setOne })) :=
      Ends.pre (ss := [psChk17]) (Pre.cons (EvIn.ite hcond (d := false) rfl (EvIn.skip _)) (Pre.nil _))
        (ps_store hc hqc g0 g11 g15)
    exact (Ends.pre hp r).mono (by omega)
  · have hcc : cc = 1 := if_neg hcoc
    have hcond : evalV G e2 (.op2 .ne (.var 17) (.lit 0)) = some (.int 1) := by
      rw [evalV_op2, evalV_var, g17, evalV_lit, hcc]; rfl
    rw [if_neg hcoc]
    have r : Ends P G O 3 e2 (.seq psChk17 (seqs (psStore ++ [psRetOk])))
        (psSpec enc (ptRawV qa qb qc) (.err : Outcome (Model.Point.Pt α))) :=
      Ends.seq_stop (Ends.ite hcond (d := true) rfl (ps_err_ret g0 (by rw [evalV_var, g17, hcc])))
    exact (Ends.pre hp r).mono (by omega)

/-- from the test of the first `err` on, when the first `SetBytes` succeeded -/
theorem ps_tailY (hc : PsbCallees P G O C enc Fnew Fpset Fsb Fcoc Fes Fone) {env : Env} {qa qb qc : List Nat} (hqc : Out4 qc)
    {b : Bytes} {x : α} (hb : b.length = 65) (h0 : env 0 = ptRawV qa qb qc) (h1 : env 1 = bytesV b)
    (h11 : env 11 = elemV (enc x)) (h12 : env 12 = .int 0) :
    Ends P G O (Fsb + Fcoc + 2 * Fes + Fone + 44) env psTailY
      (psSpec enc (ptRawV qa qb qc) (Model.Field.setBytes C.F (b.drop 33) >>= fun y =>
        if Model.Point.checkOnCurve C x y then .ok { x := x, y := y, z := C.F.setOne } else .err)) := by
  have hcond0 : evalV G env (.op2 .ne (.var 12) (.lit 0)) = some (.int 0) := by
    rw [evalV_op2, evalV_var, h12, evalV_lit]; rfl
  have pchk : Pre P G O 3 env [psChk12] env := Pre.cons (EvIn.ite hcond0 (d := false) rfl (EvIn.skip _)) (Pre.nil _)
  have hsl : evalV G env (.slice (.var 1) (.lit 33) (.len (.var 1))) = some (bytesV (b.drop 33)) := by
    have := evalV_sliceB (G := G) (env := env) (a := .var 1) (lo := .lit 33) (hi := .len (.var 1)) (x := b) (l := 33)
      (h := b.length) (evar h1) rfl (evalV_lenB (evar h1)) (by omega) (by omega)
    rw [this, List.take_of_length_le (by simp)]
  have hargs : evalVs G env [mkE, (.slice (.var 1) (.lit 33) (.len (.var 1)))] = some [elemV [0, 0, 0, 0], bytesV (b.drop 33)] := by
    simp only [evalVs_cons, evalVs_nil, evalV_mkE, hsl]
  have hsb := hc.esb (b.drop 33)
  cases hy : Model.Field.setBytes C.F (b.drop 33) with
  | ok y =>
    rw [hy] at hsb
    rw [Outcome.bind_ok]
    let Y := elemV (enc y)
    let e1 := ((env.set 2 Y).set 13 Y).set 14 (.int 0)
    let e2 := e1.set 15 Y
    let e3 := e2.set 12 (.int 0)
    have c1 : EvIn P G O (Fsb + 1) env (.call [2, 13, 14] 33 [mkE, (.slice (.var 1) (.lit 33) (.len (.var 1)))]) e1 .norm :=
      Computes.call hsb hargs rfl
    have c2 : EvIn P G O 1 e1 (.assign 15 [] (.var 13)) e2 .norm := EvIn.assign rfl
    have c3 : EvIn P G O 1 e2 (.assign 12 [] (.var 14)) e3 .norm := EvIn.assign rfl
    have pY : Pre P G O _ env psY e3 := Pre.cons c1 (Pre.cons c2 (Pre.cons c3 (Pre.nil _)))
    have g0 : e3 0 = ptRawV qa qb qc := h0
    have g11 : e3 11 = elemV (enc x) := h11
    have g15 : e3 15 = elemV (enc y) := rfl
    have hcond3 : evalV G e3 (.op2 .ne (.var 12) (.lit 0)) = some (.int 0) := rfl
    have pchk3 : Pre P G O 3 e3 [psChk12] e3 := Pre.cons (EvIn.ite hcond3 (d := false) rfl (EvIn.skip _)) (Pre.nil _)
    have r3 := Ends.pre pchk3 (ps_tailC hc hqc g0 g11 g15)
    have r2 := Ends.pre pY r3
    have r1 := Ends.pre pchk r2
    exact r1.mono (by omega)
  | err =>
    rw [hy] at hsb
    rw [Outcome.bind_err]
    let Z := elemV [0, 0, 0, 0]
    let e1 := ((env.set 2 Z).set 13 Z).set 14 (.int 1)
    let e2 := e1.set 15 Z
    let e3 := e2.set 12 (.int 1)
    have c1 : EvIn P G O (Fsb + 1) env (.call [2, 13, 14] 33 [mkE, (.slice (.var 1) (.lit 33) (.len (.var 1)))]) e1 .norm :=
      Computes.call hsb hargs rfl
    have c2 : EvIn P G O 1 e1 (.assign 15 [] (.var 13)) e2 .norm := EvIn.assign rfl
    have c3 : EvIn P G O 1 e2 (.assign 12 [] (.var 14)) e3 .norm := EvIn.assign rfl
    have pY : Pre P G O _ env psY e3 := Pre.cons c1 (Pre.cons c2 (Pre.cons c3 (Pre.nil _)))
    have g0 : e3 0 = ptRawV qa qb qc := h0
    have hcond3 : evalV G e3 (.op2 .ne (.var 12) (.lit 0)) = some (.int 1) := rfl
    have r3 : Ends P G O 3 e3 (.seq psChk12 psTailC) (psSpec enc (ptRawV qa qb qc) (.err : Outcome (Model.Point.Pt α))) :=
      Ends.seq_stop (Ends.ite hcond3 (d := true) rfl (ps_err_ret g0 rfl))
    have r2 := Ends.pre pY r3
    have r1 := Ends.pre pchk r2
    exact r1.mono (by omega)
  | panic =>
    rw [hy] at hsb
    rw [Outcome.bind_panic]
    have r2 : Ends P G O 0 env (seqs (psY ++ [.seq psChk12 psTailC])) none :=
      Fails.seq_left (Fails.call hargs hsb)
    exact Ends.pre pchk r2

/-- the uncompressed form, from the first `SetBytes` on -/
theorem ps_unc (hc : PsbCallees P G O C enc Fnew Fpset Fsb Fcoc Fes Fone) {env : Env} {qa qb qc : List Nat} (hqc : Out4 qc)
    {b : Bytes} (hb : b.length = 65) (h0 : env 0 = ptRawV qa qb qc) (h1 : env 1 = bytesV b) :
    Ends P G O (2 * Fsb + Fcoc + 2 * Fes + Fone + 54) env psUnc
      (psSpec enc (ptRawV qa qb qc) (Model.Field.setBytes C.F ((b.drop 1).take 32) >>= fun x =>
        Model.Field.setBytes C.F (b.drop 33) >>= fun y =>
          if Model.Point.checkOnCurve C x y then .ok { x := x, y := y, z := C.F.setOne } else .err)) := by
  have hsl : evalV G env (.slice (.var 1) (.lit 1) (.lit 33)) = some (bytesV ((b.drop 1).take 32)) :=
    evalV_sliceB (G := G) (env := env) (a := .var 1) (lo := .lit 1) (hi := .lit 33) (x := b) (l := 1)
      (h := 33) (evar h1) rfl rfl (by omega) (by omega)
  have hargs : evalVs G env [mkE, (.slice (.var 1) (.lit 1) (.lit 33))] = some [elemV [0, 0, 0, 0], bytesV ((b.drop 1).take 32)] := by
    simp only [evalVs_cons, evalVs_nil, evalV_mkE, hsl]
  have hsb := hc.esb ((b.drop 1).take 32)
  cases hx : Model.Field.setBytes C.F ((b.drop 1).take 32) with
  | ok x =>
    rw [hx] at hsb
    rw [Outcome.bind_ok]
    let X := elemV (enc x)
    let e1 := ((env.set 2 X).set 9 X).set 10 (.int 0)
    let e2 := e1.set 11 X
    let e3 := e2.set 12 (.int 0)
    have c1 : EvIn P G O (Fsb + 1) env (.call [2, 9, 10] 33 [mkE, (.slice (.var 1) (.lit 1) (.lit 33))]) e1 .norm :=
      Computes.call hsb hargs rfl
    have c2 : EvIn P G O 1 e1 (.assign 11 [] (.var 9)) e2 .norm := EvIn.assign rfl
    have c3 : EvIn P G O 1 e2 (.assign 12 [] (.var 10)) e3 .norm := EvIn.assign rfl
    have pX : Pre P G O _ env psX e3 := Pre.cons c1 (Pre.cons c2 (Pre.cons c3 (Pre.nil _)))
    have g0 : e3 0 = ptRawV qa qb qc := h0
    have g1 : e3 1 = bytesV b := h1
    exact (Ends.pre pX (ps_tailY hc hqc hb g0 g1 (x := x) rfl rfl)).mono (by omega)
  | err =>
    rw [hx] at hsb
    rw [Outcome.bind_err]
    let Z := elemV [0, 0, 0, 0]
    let e1 := ((env.set 2 Z).set 9 Z).set 10 (.int 1)
    let e2 := e1.set 11 Z
    let e3 := e2.set 12 (.int 1)
    have c1 : EvIn P G O (Fsb + 1) env (.call [2, 9, 10] 33 [mkE, (.slice (.var 1) (.lit 1) (.lit 33))]) e1 .norm :=
      Computes.call hsb hargs rfl
    have c2 : EvIn P G O 1 e1 (.assign 11 [] (.var 9)) e2 .norm := EvIn.assign rfl
    have c3 : EvIn P G O 1 e2 (.assign 12 [] (.var 10)) e3 .norm := EvIn.assign rfl
    have pX : Pre P G O _ env psX e3 := Pre.cons c1 (Pre.cons c2 (Pre.cons c3 (Pre.nil _)))
    have g0 : e3 0 = ptRawV qa qb qc := h0
    have hcond3 : evalV G e3 (.op2 .ne (.var 12) (.lit 0)) = some (.int 1) := rfl
    have r3 : Ends P G O 3 e3 psTailY (psSpec enc (ptRawV qa qb qc) (.err : Outcome (Model.Point.Pt α))) :=
      Ends.seq_stop (Ends.ite hcond3 (d := true) rfl (ps_err_ret g0 rfl))
    exact (Ends.pre pX r3).mono (by omega)
  | panic =>
    rw [hx] at hsb
    rw [Outcome.bind_panic]
    exact Fails.seq_left (Fails.call hargs hsb)

/-! the model, branch by branch -/

theorem setBytes_inf (C : Model.Point.Ctx α) (b : Bytes) (h : b.length = 1 ∧ b.head? = some 0) :
    Model.Point.setBytes C b = .ok (Model.Point.infinity C) := by
  unfold Model.Point.setBytes; rw [if_pos h]

theorem setBytes_unc (C : Model.Point.Ctx α) (b : Bytes) (h1 : ¬ (b.length = 1 ∧ b.head? = some 0))
    (h2 : b.length = 65 ∧ b.head? = some 4) :
    Model.Point.setBytes C b = (Model.Field.setBytes C.F ((b.drop 1).take 32) >>= fun x =>
        Model.Field.setBytes C.F (b.drop 33) >>= fun y =>
          if Model.Point.checkOnCurve C x y then .ok { x := x, y := y, z := C.F.setOne } else .err) := by
  unfold Model.Point.setBytes; rw [if_neg h1, if_pos h2]

theorem setBytes_other (C : Model.Point.Ctx α) (b : Bytes) (h1 : ¬ (b.length = 1 ∧ b.head? = some 0))
    (h2 : ¬ (b.length = 65 ∧ b.head? = some 4)) : Model.Point.setBytes C b = .err := by
  unfold Model.Point.setBytes; rw [if_neg h1, if_neg h2]

/-- fuel for (*SM2Point).SetBytes -/
def fuelPsb (Fnew Fpset Fsb Fcoc Fes Fone : Nat) : Nat := Fnew + Fpset + 2 * Fsb + Fcoc + 2 * Fes + Fone + 90

/-- BODY LEVEL: **(*SM2Point).SetBytes** on ANY `b` (the empty one included), any receiver whose `z` limbs are `Out4` -/
theorem pointSetBytes_body (hc : PsbCallees P G O C enc Fnew Fpset Fsb Fcoc Fes Fone) (qa qb qc : List Nat) (hqc : Out4 qc)
    (b : Bytes) :
    Ends P G O (fuelPsb Fnew Fpset Fsb Fcoc Fes Fone) (Env.ofList [ptRawV qa qb qc, bytesV b]) fn_104.body
      (psSpec enc (ptRawV qa qb qc) (Model.Point.setBytes C b)) := by
  let e0 : Env := Env.ofList [ptRawV qa qb qc, bytesV b]
  have h0 : e0 0 = ptRawV qa qb qc := rfl
  have h1 : e0 1 = bytesV b := rfl
  obtain ⟨e1, d1, p1, g4, hd1, f1⟩ := ps_guard (P := P) (G := G) (O := O) h1 (g := 3) (t := 4) (by decide) (by decide) (by decide)
    1 (by decide) 0
  have p1' : Pre P G O 8 e0 (guardS 3 4 1 0) e1 := p1
  have h0a : e1 0 = ptRawV qa qb qc := (f1 0 (by decide) (by decide)).trans h0
  have h1a : e1 1 = bytesV b := (f1 1 (by decide) (by decide)).trans h1
  rw [fn_104_body]
  refine (Ends.pre p1' (Ends.seq_stop (K := fuelPsb Fnew Fpset Fsb Fcoc Fes Fone - 10) ?_)).mono (by simp only [fuelPsb]; omega)
  cases d1 with
  | true =>
    rw [setBytes_inf C _ (hd1.mp rfl)]
    let I := ptV enc (Model.Point.infinity C)
    let e2 := e1.set 5 I
    let e3 := (e2.set 0 I).set 6 I
    have c1 : EvIn P G O (Fnew + 1) e1 (.call [5] 73 []) e2 .norm := Computes.call hc.new rfl rfl
    have g0 : e2 0 = ptRawV qa qb qc := h0a
    have g5 : e2 5 = I := rfl
    have c2 : EvIn P G O (Fpset + 1) e2 (.call [0, 6] 75 [(.var 0), (.var 5)]) e3 .norm := by
      refine Computes.call (hc.pset qa qb qc _ _ _) (vs := [ptRawV qa qb qc, I]) ?_ rfl
      simp only [evalVs_cons, evalVs_nil, evalV_var, g0, g5]
    have pI : Pre P G O _ e1 psInf e3 := Pre.cons c1 (Pre.cons c2 (Pre.nil _))
    have r : Ends P G O 1 e3 (.ret [(.var 0), (.var 6), (.lit 0)])
        (psSpec enc (ptRawV qa qb qc) (.ok (Model.Point.infinity C))) :=
      Ends.ret (vs := [I, I, .int 0]) rfl rfl
    exact (Ends.ite (evar g4) (asBool_ofBool true) (Ends.pre pI r)).mono (by simp only [fuelPsb]; omega)
  | false =>
    have n1 : ¬ (b.length = 1 ∧ b.head? = some 0) := fun h => by simpa using hd1.mpr h
    refine (Ends.ite (K := fuelPsb Fnew Fpset Fsb Fcoc Fes Fone - 11) (evar g4) (asBool_ofBool false) ?_).mono (by simp only [fuelPsb]; omega)
    obtain ⟨e2, d2, p2, g8, hd2, f2⟩ := ps_guard (P := P) (G := G) (O := O) h1a (g := 7) (t := 8) (by decide) (by decide) (by decide)
      65 (by decide) 4
    have p2' : Pre P G O 8 e1 (guardS 7 8 65 4) e2 := p2
    have h0b : e2 0 = ptRawV qa qb qc := (f2 0 (by decide) (by decide)).trans h0a
    have h1b : e2 1 = bytesV b := (f2 1 (by decide) (by decide)).trans h1a
    refine (Ends.pre p2' (?_ : Ends P G O (fuelPsb Fnew Fpset Fsb Fcoc Fes Fone - 20) e2 (.ite (.var 8) psUnc psElse2) _)).mono
      (by simp only [fuelPsb]; omega)
    cases d2 with
    | true =>
      have q2 := hd2.mp rfl
      rw [setBytes_unc C _ n1 q2]
      exact (Ends.ite (evar g8) (asBool_ofBool true) (ps_unc hc hqc q2.1 h0b h1b)).mono (by simp only [fuelPsb]; omega)
    | false =>
      have n2 : ¬ (b.length = 65 ∧ b.head? = some 4) := fun h => by simpa using hd2.mpr h
      rw [setBytes_other C _ n1 n2]
      obtain ⟨e3, d3, p3, g22, hd3, f3⟩ := ps_guard (P := P) (G := G) (O := O) h1b (g := 21) (t := 22) (by decide) (by decide)
        (by decide) 33 (by decide) 0
      have p3' : Pre P G O 8 e2 (guardS 21 22 33 0) e3 := p3
      have h0c : e3 0 = ptRawV qa qb qc := (f3 0 (by decide) (by decide)).trans h0b
      have r3 : Ends P G O 2 e3 (.ite (.var 22) (psErr (.lit 1)) (psErr (.lit 1)))
          (psSpec enc (ptRawV qa qb qc) (.err : Outcome (Model.Point.Pt α))) := by
        refine Ends.ite (evar g22) (asBool_ofBool d3) ?_
        cases d3 <;> exact ps_err_ret h0c rfl
      exact (Ends.ite (evar g8) (asBool_ofBool false) (Ends.pre p3' r3)).mono (by simp only [fuelPsb]; omega)

/-- **(*SM2Point).SetBytes** = `Model.Point.setBytes`, for EVERY `b`:
    ok ⇒ the receiver becomes the point and is returned, no error;
    err ⇒ the receiver is unchanged, the results are the IR's nil point and the error code 1;
    panic (only through a panic of `(*SM2Element).SetBytes`) ⇒ the call fails. -/
theorem pointSetBytes_computes (h104 : P[104]? = some fn_104) (hc : PsbCallees P G O C enc Fnew Fpset Fsb Fcoc Fes Fone)
    (qa qb qc : List Nat) (hqc : Out4 qc) (b : Bytes) :
    match Model.Point.setBytes C b with
    | .ok p => Computes P G O 104 (fuelPsb Fnew Fpset Fsb Fcoc Fes Fone) [ptRawV qa qb qc, bytesV b] [ptV enc p, ptV enc p, .int 0]
    | .err => Computes P G O 104 (fuelPsb Fnew Fpset Fsb Fcoc Fes Fone) [ptRawV qa qb qc, bytesV b]
        [ptRawV qa qb qc, .arr (List.replicate 3 (.arr (List.replicate 1 (.arr (List.replicate 4 (.int 0)))))), .int 1]
    | .panic => CalleeFails P G O 104 [ptRawV qa qb qc, bytesV b] := by
  have h := pointSetBytes_body hc qa qb qc hqc b
  cases hm : Model.Point.setBytes C b with
  | ok p =>
    rw [hm] at h
    obtain ⟨env', vs, rfl, he⟩ := h
    exact Computes.of_body h104 rfl rfl he
  | err =>
    rw [hm] at h
    obtain ⟨env', vs, rfl, he⟩ := h
    exact Computes.of_body h104 rfl rfl he
  | panic =>
    rw [hm] at h
    exact calleeFails_of_body h104 rfl rfl h

/-- the empty input (formerly a DISAGREEMENT: the strict `.land` of the first translation evaluated `b[0]` and the IR was
    stuck; the translator now short-circuits through a guard): the model says `.err` and the IR returns the error triple -/
theorem pointSetBytes_nil (h104 : P[104]? = some fn_104) (hc : PsbCallees P G O C enc Fnew Fpset Fsb Fcoc Fes Fone)
    (qa qb qc : List Nat) (hqc : Out4 qc) :
    Model.Point.setBytes C [] = .err ∧
    Computes P G O 104 (fuelPsb Fnew Fpset Fsb Fcoc Fes Fone) [ptRawV qa qb qc, bytesV []]
      [ptRawV qa qb qc, .arr (List.replicate 3 (.arr (List.replicate 1 (.arr (List.replicate 4 (.int 0)))))), .int 1] := by
  have hm : Model.Point.setBytes C [] = .err := rfl
  have h := pointSetBytes_computes h104 hc qa qb qc hqc []
  rw [hm] at h
  exact ⟨hm, h⟩

end PointSetBytes


/-! ## 3. sm2.VerifyHashed -/

/-- HYPOTHESES on the external world: `math/big` (big integers are IR integers), `fmt.Errorf` (its result is
    ignored, but it must be ONE value).  Satisfied by `Model.CTIRProto.protoOracle tape`: `protoOracle_ok`. -/
structure ExtOk (O : Oracle) : Prop where
  setBytes : ∀ b : Bytes, O 7 [bytesV b] = [.int ((Bytes.toNatBE b : Nat) : Int)]
  add : ∀ a b : Int, O 0 [.int a, .int b] = [.int (a + b)]
  mod : ∀ a m : Int, O 4 [.int a, .int m] = [.int (a % m)]
  sign : ∀ a : Int, O 8 [.int a] = [.int (if a < 0 then -1 else if a = 0 then 0 else 1)]
  cmp : ∀ a b : Int, O 13 [.int a, .int b] = [.int (if a < b then -1 else if a = b then 0 else 1)]
  errorf : ∀ args : List Val, ∃ v, O 10 args = [v]

theorem natOfBytes_bytesV (b : Bytes) : natOfBytes (b.map (fun x => Val.int (Int.ofNat x.toNat))) = Bytes.toNatBE b := by
  have : ∀ (l : Bytes) (acc : Nat),
      (l.map (fun x => Val.int (Int.ofNat x.toNat))).foldl (fun n v => match v with | .int b => n * 256 + b.toNat | .arr _ => n) acc
        = l.foldl (fun acc b => acc * 256 + b.toNat) acc := by
    intro l
    induction l with
    | nil => intro acc; rfl
    | cons x l ih => intro acc; simp only [List.map_cons, List.foldl_cons, ih]; rfl
  exact this b 0

/-- the executable oracle of the extended program satisfies the hypotheses -/
theorem protoOracle_ok (tape : Nat → Nat → Nat) : ExtOk (SMGo.Model.CTIRProto.protoOracle tape) := by
  refine ⟨fun b => ?_, fun a b => rfl, fun a m => rfl, fun a => rfl, fun a b => rfl, fun args => ⟨.int 1, rfl⟩⟩
  have : SMGo.Model.CTIRProto.protoOracle tape 7 [bytesV b] = [.int (Int.ofNat (natOfBytes (argBytes [bytesV b] 0)))] := rfl
  rw [this]
  have e : argBytes [bytesV b] 0 = b.map (fun x => Val.int (Int.ofNat x.toNat)) := rfl
  rw [e, natOfBytes_bytesV]
  rfl

/-- HYPOTHESES on the callees of `VerifyHashed` in the extended program -/
structure VerifyCallees {α β : Type} (P : Prog) (G : Nat → Val) (O : Oracle) (X : Model.SM2.Ctx α β) (enc : α → List Nat)
    (Fnew Fpsb Fens Fmm Fbu Fgu : Nat) : Prop where
  /-- NewSM2Point -/
  new : Computes P G O 73 Fnew [] [ptV enc (Model.Point.infinity X.C)]
  /-- (*SM2Point).SetBytes on a fresh point and 65 bytes (`pointSetBytes_computes`) -/
  psb : ∀ b : Bytes, b.length = 65 → match Model.Point.setBytes X.C b with
    | .ok p => Computes P G O 104 Fpsb [ptV enc (Model.Point.infinity X.C), bytesV b] [ptV enc p, ptV enc p, .int 0]
    | .err => Computes P G O 104 Fpsb [ptV enc (Model.Point.infinity X.C), bytesV b]
        [ptV enc (Model.Point.infinity X.C), nilPointV, .int 1]
    | .panic => CalleeFails P G O 104 [ptV enc (Model.Point.infinity X.C), bytesV b]
  /-- ensure32Bytes on values below n -/
  ens : ∀ v : Nat, v < X.n → Computes P G O 99 Fens [.int (v : Int)] [bytesV (Model.SM2.ensure32 v)]
  /-- ScalarMixedMult_Unsafe, by the outcome of the model (which never errs: `scalarMixedMult_ne_err`) -/
  mm : ∀ (s : Bytes) (pub : Model.Point.Pt α) (t : Bytes),
    match Model.Curve.scalarMixedMult (Model.Curve.pointOps X.C) s pub t X.first X.second with
    | .ok r => Computes P G O 100 Fmm [bytesV s, ptV enc pub, bytesV t] [ptV enc r, .int 0]
    | .err => False
    | .panic => CalleeFails P G O 100 [bytesV s, ptV enc pub, bytesV t]
  /-- Bytes_Unsafe -/
  bu : ∀ p : Model.Point.Pt α, Computes P G O 94 Fbu [ptV enc p] [bytesV (Model.Point.bytes X.C p false)]
  /-- GetAffineX_Unsafe -/
  gu : ∀ p : Model.Point.Pt α, Computes P G O 90 Fgu [ptV enc p] [.int ((Model.Point.getAffineXUnsafe X.C p : Nat) : Int)]

/-! ### the program text in phases -/

def vLenC : Expr := .op2 .lor (.op2 .lor (.op2 .lor (.op2 .lor (.op2 .ne (.len (.var 0)) (.lit 32)) (.op2 .ne (.len (.var 1)) (.lit 32))) (.op2 .ne (.len (.var 2)) (.lit 32))) (.op2 .ne (.len (.var 3)) (.lit 32))) (.op2 .ne (.len (.var 4)) (.lit 32))
def vErrRet : Stmt := .ret [(.lit 0), (.lit 1)]
def vLenThen : Stmt := seqs [.ext [6] 10 true [(.len (.var 0)), (.len (.var 1)), (.len (.var 2)), (.len (.var 3)), (.len (.var 4))], vErrRet]
def vLenS : Stmt := .ite vLenC vLenThen .skip
def vInit : List Stmt := [.assign 7 [] (.lit 0), .assign 8 [] (.lit 0), .assign 9 [] (.lit 0), .assign 10 [] (.lit 0),
    .ext [11] 7 false [(.var 3)], .assign 7 [] (.var 11), .ext [12] 7 false [(.var 4)], .assign 8 [] (.var 12)]
/-- one step of the `||` chain: `b = a; if !a { c = x.Cmp(g); b = c <o> 0 }` -/
def orS (a b c xv g : Nat) (o : Op2) : List Stmt := [.assign b [] (.var a),
    .ite (.op1 .lnot (.var a)) (seqs [.ext [c] 13 false [(.var xv), (.glob g)], .assign b [] (.op2 o (.var c) (.lit 0))]) .skip]
def vRange : List Stmt := [.ext [13] 13 false [(.var 7), (.glob 18)], .assign 14 [] (.op2 .lt (.var 13) (.lit 0))] ++
    orS 14 15 16 8 18 .lt ++ [.assign 17 [] (.var 15)] ++ orS 17 18 19 7 16 .ge ++ [.assign 20 [] (.var 18)] ++ orS 20 21 22 8 16 .ge
def vRangeChk : Stmt := .ite (.var 21) vErrRet .skip
def vT : List Stmt := [.ext [23] 0 false [(.var 7), (.var 8)], .assign 10 [] (.var 23), .ext [24] 4 false [(.var 10), (.glob 16)],
    .assign 10 [] (.var 24), .ext [25] 8 false [(.var 10)]]
def vTChk : Stmt := .ite (.op2 .eq (.var 25) (.lit 0)) vErrRet .skip
/-- `buf = append(buf, y...)` with the attachment flag of `buf` to the array `pubBytes` -/
def appS (ey : Expr) : List Stmt := [.assign 30 [] (.cat (.var 30) ey),
    .ite (.op2 .land (.var 31) (.op2 .le (.len (.var 30)) (.len (.var 26))))
      (.assign 26 [] (.cat (.var 30) (.slice (.var 26) (.len (.var 30)) (.len (.var 26))))) (.assign 31 [] (.lit 0))]
def vBuild0 : List Stmt := [.assign 26 [] (.mk (.lit 65) (.lit 0)), .assign 27 [] (.lit 0), .assign 28 [] nilPtE, .assign 29 [] nilPtE,
    .assign 30 [] (.mk (.lit 0) (.lit 0)), .assign 31 [] (.lit 1)]
def vBuild : List Stmt := vBuild0 ++ appS (.mk (.lit 1) (.lit 4)) ++ appS (.var 0) ++ appS (.var 1)
def vSet : List Stmt := [.call [32] 73 [], .call [5, 33, 34] 104 [(.var 32), (.var 26)], .assign 29 [] (.var 33), .assign 27 [] (.var 34)]
def vSetChk : Stmt := .ite (.op2 .ne (.var 27) (.lit 0)) vErrRet .skip
def vEns : List Stmt := [.assign 35 [] (.mk (.lit 0) (.lit 0)), .call [36] 99 [(.var 10)], .assign 35 [] (.var 36)]
def vMMCall : Stmt := .call [37, 38] 100 [(.var 4), (.var 29), (.var 35)]
def vMMAsg : List Stmt := [.assign 28 [] (.var 37), .assign 27 [] (.var 38)]
def vMMChk : Stmt := .ite (.op2 .ne (.var 27) (.lit 0)) (.ret [(.lit 0), (.var 27)]) .skip
def vInf : List Stmt := [.call [39] 94 [(.var 28)]]
def vInfChk : Stmt := .ite (.op2 .eq (.len (.var 39)) (.lit 1)) vErrRet .skip
def vFin : List Stmt := [.call [40] 90 [(.var 28)], .assign 41 [] (.var 40), .ext [42] 7 false [(.var 2)], .assign 9 [] (.var 42),
    .ext [43] 0 false [(.var 41), (.var 9)], .assign 41 [] (.var 43), .ext [44] 4 false [(.var 41), (.glob 16)], .assign 41 [] (.var 44),
    .ext [45] 13 false [(.var 41), (.var 7)]]
def vRet : Stmt := .seq (.ret [(.op2 .eq (.var 45) (.lit 0)), (.lit 0)]) .panic

def vTail9 : Stmt := seqs (vFin ++ [vRet])
def vTail8 : Stmt := seqs (vInf ++ [.seq vInfChk vTail9])
def vTail7b : Stmt := seqs ([vMMCall] ++ [seqs (vMMAsg ++ [.seq vMMChk vTail8])])
def vTail7 : Stmt := seqs (vEns ++ [vTail7b])
def vTail6 : Stmt := seqs (vSet ++ [.seq vSetChk vTail7])
def vTail5 : Stmt := seqs (vBuild ++ [vTail6])
def vTail4 : Stmt := seqs (vT ++ [.seq vTChk vTail5])
def vTail3 : Stmt := seqs (vRange ++ [.seq vRangeChk vTail4])
def vTail2 : Stmt := seqs (vInit ++ [vTail3])

theorem fn_107_body : fn_107.body = .seq vLenS vTail2 := rfl

/-! ### the model in layers -/

section VModel
variable {α β : Type}

def mFin (X : Model.SM2.Ctx α β) (e r : Bytes) (result : Model.Point.Pt α) : Outcome Bool :=
  if (Model.Point.bytes X.C result false).length = 1 then .ok false else
  .ok (decide ((Model.Point.getAffineXUnsafe X.C result + Bytes.toNatBE e) % X.n = Bytes.toNatBE r))

def mMM (X : Model.SM2.Ctx α β) (e r s : Bytes) (t : Nat) (pub : Model.Point.Pt α) : Outcome Bool :=
  match Model.Curve.scalarMixedMult (Model.Curve.pointOps X.C) s pub (Model.SM2.ensure32 t) X.first X.second with
  | .ok result => mFin X e r result
  | .err => .ok false
  | .panic => .panic

def mSet (X : Model.SM2.Ctx α β) (pubx puby e r s : Bytes) (t : Nat) : Outcome Bool :=
  match Model.Point.setBytes X.C ([4] ++ pubx ++ puby) with
  | .ok pub => mMM X e r s t pub
  | .err => .ok false
  | .panic => .panic

theorem verifyHashed_layers (X : Model.SM2.Ctx α β) (pubx puby e r s : Bytes) :
    Model.SM2.verifyHashed X pubx puby e r s =
      if pubx.length ≠ 32 ∨ puby.length ≠ 32 ∨ e.length ≠ 32 ∨ r.length ≠ 32 ∨ s.length ≠ 32 then .ok false else
      if Bytes.toNatBE r < 1 ∨ Bytes.toNatBE s < 1 ∨ Bytes.toNatBE r ≥ X.n ∨ Bytes.toNatBE s ≥ X.n then .ok false else
      if (Bytes.toNatBE r + Bytes.toNatBE s) % X.n = 0 then .ok false else
      mSet X pubx puby e r s ((Bytes.toNatBE r + Bytes.toNatBE s) % X.n) := rfl

/-- the model never returns `.err` -/
theorem verifyHashed_ne_err (X : Model.SM2.Ctx α β) (pubx puby e r s : Bytes) :
    Model.SM2.verifyHashed X pubx puby e r s ≠ .err := by
  rw [verifyHashed_layers]
  split
  · simp
  · split
    · simp
    · split
      · simp
      · simp only [mSet]
        split
        · simp only [mMM]
          split
          · simp only [mFin]; split <;> simp
          · simp
          · simp
        · simp
        · simp

end VModel

/-- what the IR returns, by the outcome of the model: the verdict, and an error code `e'` (0 = nil) that is 0 when
    the verdict is `true` (the model merges `(false, err)` and `(false, nil)` into `.ok false`) -/
def vSpec : Outcome Bool → Option (List Val → Prop)
  | .ok b => some (fun vs => ∃ e' : Int, (e' = 0 ∨ e' = 1) ∧ (b = true → e' = 0) ∧ vs = [.int (if b then 1 else 0), .int e'])
  | .err => some (fun _ => False)
  | .panic => none

/-- the inputs stay in variables 0–4 -/
structure VIn (env : Env) (pubx puby e r s : Bytes) : Prop where
  h0 : env 0 = bytesV pubx
  h1 : env 1 = bytesV puby
  h2 : env 2 = bytesV e
  h3 : env 3 = bytesV r
  h4 : env 4 = bytesV s

abbrev cmpInt := SMGo.Model.CTIRProto.cmpInt

theorem cmp_lt0 (x y : Int) : evalOp2 .lt (cmpInt x y) 0 = some (ofBool (decide (x < y))) := by
  simp only [evalOp2, cmpInt, SMGo.Model.CTIRProto.cmpInt]
  congr 2
  by_cases h : x < y
  · simp [h]
  · by_cases h' : x = y <;> simp [h, h']

theorem cmp_ge0 (x y : Int) : evalOp2 .ge (cmpInt x y) 0 = some (ofBool (decide (y ≤ x))) := by
  simp only [evalOp2, cmpInt, SMGo.Model.CTIRProto.cmpInt]
  congr 2
  by_cases h : x < y
  · have : ¬ y ≤ x := by omega
    simp [h, this]
  · have : y ≤ x := by omega
    by_cases h' : x = y <;> simp [h, h', this]

theorem cmp_eq0 (x y : Int) : (cmpInt x y == 0) = decide (x = y) := by
  simp only [cmpInt, SMGo.Model.CTIRProto.cmpInt]
  by_cases h : x < y
  · have : x ≠ y := by omega
    simp [h, this]
  · by_cases h' : x = y <;> simp [h, h']

section Verify
variable {α β : Type} {P : Prog} {G : Nat → Val} {O : Oracle} {X : Model.SM2.Ctx α β} {enc : α → List Nat}
  {Fnew Fpsb Fens Fmm Fbu Fgu : Nat}

theorem v_err_ret (env : Env) : Ends P G O 1 env vErrRet (vSpec (.ok false)) :=
  Ends.ret (vs := [.int 0, .int 1]) rfl ⟨1, Or.inr rfl, by simp, rfl⟩

/-- one step of the `||` chain -/
theorem orStep (hO : ExtOk O) {env : Env} {a b c xv g : Nat} {o : Op2} {p q : Bool} {x y : Int}
    (ha : env a = .int (ofBool p)) (hx : env xv = .int x) (hg : G g = .int y) (hab : a ≠ b) (hxb : xv ≠ b)
    (ho : evalOp2 o (cmpInt x y) 0 = some (ofBool q)) :
    ∃ env', Pre P G O 8 env (orS a b c xv g o) env' ∧ env' b = .int (ofBool (p || q)) ∧
      ∀ z, z ≠ b → z ≠ c → env' z = env z := by
  let e1 := env.set b (.int (ofBool p))
  have c1 : EvIn P G O 1 env (.assign b [] (.var a)) e1 .norm := EvIn.assign (evar ha)
  have ga : e1 a = .int (ofBool p) := (Env.set_other env _ hab).trans ha
  cases p with
  | true =>
    have hc : evalV G e1 (.op1 .lnot (.var a)) = some (.int 0) := by rw [evalV_op1, evalV_var, ga]; rfl
    have c2 : EvIn P G O 2 e1 (.ite (.op1 .lnot (.var a)) (seqs [.ext [c] 13 false [(.var xv), (.glob g)], .assign b [] (.op2 o (.var c) (.lit 0))]) .skip) e1 .norm :=
      EvIn.ite hc (d := false) rfl (EvIn.skip _)
    refine ⟨e1, (Pre.cons c1 (Pre.cons c2 (Pre.nil _))).mono (by omega), Env.set_same _ _ _, ?_⟩
    intro z hz _
    exact Env.set_other _ _ hz
  | false =>
    have hc : evalV G e1 (.op1 .lnot (.var a)) = some (.int 1) := by rw [evalV_op1, evalV_var, ga]; rfl
    let e2 := e1.set c (.int (cmpInt x y))
    let e3 := e2.set b (.int (ofBool q))
    have gx : e1 xv = .int x := (Env.set_other env _ hxb).trans hx
    have d1 : EvIn P G O 1 e1 (.ext [c] 13 false [(.var xv), (.glob g)]) e2 .norm := by
      refine ext1 (vs := [.int x, .int y]) ?_ (hO.cmp x y)
      simp only [evalVs_cons, evalVs_nil, evalV_var, gx, evalV_glob, hg]
    have d2 : EvIn P G O 1 e2 (.assign b [] (.op2 o (.var c) (.lit 0))) e3 .norm := by
      refine EvIn.assign ?_
      have gc : e2 c = .int (cmpInt x y) := Env.set_same _ _ _
      rw [evalV_op2, evalV_var, gc, evalV_lit]
      simp only [ho, Option.map_some]
    have c2 : EvIn P G O 4 e1 (.ite (.op1 .lnot (.var a)) (seqs [.ext [c] 13 false [(.var xv), (.glob g)], .assign b [] (.op2 o (.var c) (.lit 0))]) .skip) e3 .norm :=
      EvIn.ite hc (d := true) rfl (EvIn.seq d1 d2)
    refine ⟨e3, (Pre.cons c1 (Pre.cons c2 (Pre.nil _))).mono (by omega), ?_, ?_⟩
    · exact Env.set_same _ _ _
    · intro z hz hzc
      show (((env.set b (.int (ofBool false))).set c (.int (cmpInt x y))).set b (.int (ofBool q))) z = env z
      rw [Env.set_other _ _ hz, Env.set_other _ _ hzc, Env.set_other _ _ hz]

/-- one `append` of the builder of `pubBytes`, while `buf` is attached to the array and fits into it -/
theorem appStep {env : Env} {buf arr y : Bytes} {ey : Expr} (h30 : env 30 = bytesV buf) (h31 : env 31 = .int 1)
    (h26 : env 26 = bytesV arr) (hy : evalV G env ey = some (bytesV y)) (hlen : (buf ++ y).length ≤ arr.length) :
    ∃ env', Pre P G O 6 env (appS ey) env' ∧ env' 30 = bytesV (buf ++ y) ∧ env' 31 = .int 1 ∧
      env' 26 = bytesV ((buf ++ y) ++ arr.drop (buf ++ y).length) ∧
      ((buf ++ y) ++ arr.drop (buf ++ y).length).length = arr.length ∧
      ∀ z, z ≠ 30 → z ≠ 26 → env' z = env z := by
  let e1 := env.set 30 (bytesV (buf ++ y))
  let e2 := e1.set 26 (bytesV ((buf ++ y) ++ arr.drop (buf ++ y).length))
  have c1 : EvIn P G O 1 env (.assign 30 [] (.cat (.var 30) ey)) e1 .norm :=
    EvIn.assign (evalV_catB (evar h30) hy)
  have g30 : e1 30 = bytesV (buf ++ y) := rfl
  have g31 : e1 31 = .int 1 := h31
  have g26 : e1 26 = bytesV arr := h26
  have l30 : evalV G e1 (.len (.var 30)) = some (.int ((buf ++ y).length : Int)) := evalV_lenB (evar g30)
  have l26 : evalV G e1 (.len (.var 26)) = some (.int (arr.length : Int)) := evalV_lenB (evar g26)
  have hc : evalV G e1 (.op2 .land (.var 31) (.op2 .le (.len (.var 30)) (.len (.var 26)))) = some (.int 1) := by
    rw [evalV_op2, evalV_var, g31, evalV_op2, l30, l26]
    simp only [evalOp2, Option.map_some]
    rw [decide_eq_true (by omega : ((buf ++ y).length : Int) ≤ (arr.length : Int))]
    rfl
  have hs : evalV G e1 (.slice (.var 26) (.len (.var 30)) (.len (.var 26))) = some (bytesV (arr.drop (buf ++ y).length)) := by
    have := evalV_sliceB (G := G) (env := e1) (a := .var 26) (lo := .len (.var 30)) (hi := .len (.var 26)) (x := arr)
      (l := (buf ++ y).length) (h := arr.length) (evar g26) l30 l26 hlen (Nat.le_refl _)
    rw [this, List.take_of_length_le (by simp)]
  have c2 : EvIn P G O 2 e1 (.ite (.op2 .land (.var 31) (.op2 .le (.len (.var 30)) (.len (.var 26))))
      (.assign 26 [] (.cat (.var 30) (.slice (.var 26) (.len (.var 30)) (.len (.var 26))))) (.assign 31 [] (.lit 0))) e2 .norm :=
    EvIn.ite hc (d := true) rfl (EvIn.assign (evalV_catB (evar g30) hs))
  refine ⟨e2, (Pre.cons c1 (Pre.cons c2 (Pre.nil _))).mono (by omega), rfl, h31, rfl, ?_, ?_⟩
  · simp only [List.length_append, List.length_drop] at hlen ⊢; omega
  · intro z hz hz'
    show ((env.set 30 _).set 26 _) z = env z
    rw [Env.set_other _ _ hz', Env.set_other _ _ hz]

/-- phase 8: `R = x(result) + e mod n`, and the comparison with `r` -/
theorem v_tail9 (hO : ExtOk O) (hc : VerifyCallees P G O X enc Fnew Fpsb Fens Fmm Fbu Fgu) (hn : G 16 = .int (X.n : Int))
    {env : Env} {e r : Bytes} {result : Model.Point.Pt α}
    (h2 : env 2 = bytesV e) (h7 : env 7 = .int ((Bytes.toNatBE r : Nat) : Int)) (h28 : env 28 = ptV enc result) :
    Ends P G O (Fgu + 24) env vTail9
      (vSpec (.ok (decide ((Model.Point.getAffineXUnsafe X.C result + Bytes.toNatBE e) % X.n = Bytes.toNatBE r)))) := by
  let gx : Int := ((Model.Point.getAffineXUnsafe X.C result : Nat) : Int)
  let eI : Int := ((Bytes.toNatBE e : Nat) : Int)
  let rI : Int := ((Bytes.toNatBE r : Nat) : Int)
  let n : Int := (X.n : Int)
  let R : Int := (gx + eI) % n
  let e1 := env.set 40 (.int gx)
  let e2 := e1.set 41 (.int gx)
  let e3 := e2.set 42 (.int eI)
  let e4 := e3.set 9 (.int eI)
  let e5 := e4.set 43 (.int (gx + eI))
  let e6 := e5.set 41 (.int (gx + eI))
  let e7 := e6.set 44 (.int R)
  let e8 := e7.set 41 (.int R)
  let e9 := e8.set 45 (.int (cmpInt R rI))
  have c1 : EvIn P G O (Fgu + 1) env (.call [40] 90 [(.var 28)]) e1 .norm := by
    refine (hc.gu result).call ?_ rfl
    simp only [evalVs_cons, evalVs_nil, evalV_var, h28]
  have c2 : EvIn P G O 1 e1 (.assign 41 [] (.var 40)) e2 .norm := EvIn.assign rfl
  have g2 : e2 2 = bytesV e := h2
  have c3 : EvIn P G O 1 e2 (.ext [42] 7 false [(.var 2)]) e3 .norm := by
    refine ext1 (vs := [bytesV e]) ?_ (hO.setBytes e)
    simp only [evalVs_cons, evalVs_nil, evalV_var, g2]
  have c4 : EvIn P G O 1 e3 (.assign 9 [] (.var 42)) e4 .norm := EvIn.assign rfl
  have c5 : EvIn P G O 1 e4 (.ext [43] 0 false [(.var 41), (.var 9)]) e5 .norm :=
    ext1 (vs := [.int gx, .int eI]) rfl (hO.add gx eI)
  have c6 : EvIn P G O 1 e5 (.assign 41 [] (.var 43)) e6 .norm := EvIn.assign rfl
  have c7 : EvIn P G O 1 e6 (.ext [44] 4 false [(.var 41), (.glob 16)]) e7 .norm := by
    refine ext1 (vs := [.int (gx + eI), .int n]) ?_ (hO.mod (gx + eI) n)
    simp only [evalVs_cons, evalVs_nil, evalV_var, evalV_glob, hn]; rfl
  have c8 : EvIn P G O 1 e7 (.assign 41 [] (.var 44)) e8 .norm := EvIn.assign rfl
  have g7 : e8 7 = .int rI := h7
  have c9 : EvIn P G O 1 e8 (.ext [45] 13 false [(.var 41), (.var 7)]) e9 .norm := by
    refine ext1 (vs := [.int R, .int rI]) ?_ (hO.cmp R rI)
    simp only [evalVs_cons, evalVs_nil, evalV_var, g7]; rfl
  have hp : Pre P G O _ env vFin e9 := Pre.cons c1 (Pre.cons c2 (Pre.cons c3 (Pre.cons c4 (Pre.cons c5 (Pre.cons c6
    (Pre.cons c7 (Pre.cons c8 (Pre.cons c9 (Pre.nil _)))))))))
  have sr : evalVs G e9 [(.op2 .eq (.var 45) (.lit 0)), (.lit 0)] = some [.int (ofBool (cmpInt R rI == 0)), .int 0] := rfl
  have hR : R = (((Model.Point.getAffineXUnsafe X.C result + Bytes.toNatBE e) % X.n : Nat) : Int) := by
    simp only [R, gx, eI, n]; push_cast; rfl
  have hval : (Val.int (ofBool (cmpInt R rI == 0)))
      = .int (if decide ((Model.Point.getAffineXUnsafe X.C result + Bytes.toNatBE e) % X.n = Bytes.toNatBE r) then 1 else 0) := by
    rw [cmp_eq0, hR, decide_eq_decide.mpr Int.natCast_inj]; rfl
  have r : Ends P G O 2 e9 vRet
      (vSpec (.ok (decide ((Model.Point.getAffineXUnsafe X.C result + Bytes.toNatBE e) % X.n = Bytes.toNatBE r)))) :=
    Ends.seq_stop (Ends.ret sr ⟨0, Or.inl rfl, fun _ => rfl, by rw [hval]⟩)
  exact (Ends.pre hp r).mono (by omega)

/-- phase 7: the test for the point at infinity -/
theorem v_tail8 (hO : ExtOk O) (hc : VerifyCallees P G O X enc Fnew Fpsb Fens Fmm Fbu Fgu) (hn : G 16 = .int (X.n : Int))
    {env : Env} {e r : Bytes} {result : Model.Point.Pt α}
    (h2 : env 2 = bytesV e) (h7 : env 7 = .int ((Bytes.toNatBE r : Nat) : Int)) (h28 : env 28 = ptV enc result) :
    Ends P G O (Fbu + Fgu + 34) env vTail8 (vSpec (mFin X e r result)) := by
  let bts := Model.Point.bytes X.C result false
  let e1 := env.set 39 (bytesV bts)
  have c1 : EvIn P G O (Fbu + 1) env (.call [39] 94 [(.var 28)]) e1 .norm := by
    refine (hc.bu result).call ?_ rfl
    simp only [evalVs_cons, evalVs_nil, evalV_var, h28]
  have hp : Pre P G O _ env vInf e1 := Pre.cons c1 (Pre.nil _)
  have l39 : evalV G e1 (.len (.var 39)) = some (.int (bts.length : Int)) := evalV_lenB (x := bts) (evar rfl)
  by_cases hl : bts.length = 1
  · have hm : mFin X e r result = .ok false := by unfold mFin; rw [if_pos hl]
    rw [hm]
    have hcond : evalV G e1 (.op2 .eq (.len (.var 39)) (.lit 1)) = some (.int 1) := by
      rw [evalV_op2, l39, evalV_lit, hl]; rfl
    have r : Ends P G O 3 e1 (.seq vInfChk vTail9) (vSpec (.ok false)) :=
      Ends.seq_stop (Ends.ite hcond (d := true) rfl (v_err_ret _))
    exact (Ends.pre hp r).mono (by omega)
  · have hm : mFin X e r result
        = .ok (decide ((Model.Point.getAffineXUnsafe X.C result + Bytes.toNatBE e) % X.n = Bytes.toNatBE r)) := by
      unfold mFin; rw [if_neg hl]
    rw [hm]
    have hcond : evalV G e1 (.op2 .eq (.len (.var 39)) (.lit 1)) = some (.int 0) := by
      rw [evalV_op2, l39, evalV_lit]
      simp only [evalOp2, Option.map_some]
      have : ((bts.length : Int) == 1) = false := by
        rw [beq_eq_false_iff_ne]; omega
      rw [this]; rfl
    have pchk : Pre P G O 3 e1 [vInfChk] e1 := Pre.cons (EvIn.ite hcond (d := false) rfl (EvIn.skip _)) (Pre.nil _)
    have r := Ends.pre pchk (v_tail9 hO hc hn (env := e1) (e := e) (r := r) (result := result) h2 h7 h28)
    exact (Ends.pre hp r).mono (by omega)

/-- phase 6: `tBytes`, the mixed multiplication -/
theorem v_tail7 (hO : ExtOk O) (hc : VerifyCallees P G O X enc Fnew Fpsb Fens Fmm Fbu Fgu) (hn : G 16 = .int (X.n : Int))
    {env : Env} {e r s : Bytes} {t : Nat} {pub : Model.Point.Pt α} (ht : t < X.n)
    (h2 : env 2 = bytesV e) (h4 : env 4 = bytesV s) (h7 : env 7 = .int ((Bytes.toNatBE r : Nat) : Int))
    (h10 : env 10 = .int (t : Int)) (h29 : env 29 = ptV enc pub) :
    Ends P G O (Fens + Fmm + Fbu + Fgu + 60) env vTail7 (vSpec (mMM X e r s t pub)) := by
  let tb := Model.SM2.ensure32 t
  let e1 := env.set 35 (.arr [])
  let e2 := e1.set 36 (bytesV tb)
  let e3 := e2.set 35 (bytesV tb)
  have c1 : EvIn P G O 1 env (.assign 35 [] (.mk (.lit 0) (.lit 0))) e1 .norm := EvIn.assign rfl
  have g10 : e1 10 = .int (t : Int) := h10
  have c2 : EvIn P G O (Fens + 1) e1 (.call [36] 99 [(.var 10)]) e2 .norm := by
    refine (hc.ens t ht).call ?_ rfl
    simp only [evalVs_cons, evalVs_nil, evalV_var, g10]
  have c3 : EvIn P G O 1 e2 (.assign 35 [] (.var 36)) e3 .norm := EvIn.assign rfl
  have hp : Pre P G O _ env vEns e3 := Pre.cons c1 (Pre.cons c2 (Pre.cons c3 (Pre.nil _)))
  have g4 : e3 4 = bytesV s := h4
  have g29 : e3 29 = ptV enc pub := h29
  have g35 : e3 35 = bytesV tb := rfl
  have hargs : evalVs G e3 [(.var 4), (.var 29), (.var 35)] = some [bytesV s, ptV enc pub, bytesV tb] := by
    simp only [evalVs_cons, evalVs_nil, evalV_var, g4, g29, g35]
  have hmm := hc.mm s pub tb
  cases hr : Model.Curve.scalarMixedMult (Model.Curve.pointOps X.C) s pub tb X.first X.second with
  | ok result =>
    rw [hr] at hmm
    have hm : mMM X e r s t pub = mFin X e r result := by unfold mMM; rw [hr]
    rw [hm]
    let e4 := (e3.set 37 (ptV enc result)).set 38 (.int 0)
    let e5 := e4.set 28 (ptV enc result)
    let e6 := e5.set 27 (.int 0)
    have d1 : EvIn P G O (Fmm + 1) e3 vMMCall e4 .norm := Computes.call hmm hargs rfl
    have d2 : EvIn P G O 1 e4 (.assign 28 [] (.var 37)) e5 .norm := EvIn.assign rfl
    have d3 : EvIn P G O 1 e5 (.assign 27 [] (.var 38)) e6 .norm := EvIn.assign rfl
    have hcond : evalV G e6 (.op2 .ne (.var 27) (.lit 0)) = some (.int 0) := rfl
    have pchk : Pre P G O 3 e6 [vMMChk] e6 := Pre.cons (EvIn.ite hcond (d := false) rfl (EvIn.skip _)) (Pre.nil _)
    have r4 := Ends.pre pchk (v_tail8 hO hc hn (env := e6) (e := e) (r := r) (result := result) h2 h7 rfl)
    have r3 := Ends.pre (ss := vMMAsg) (Pre.cons d2 (Pre.cons d3 (Pre.nil _))) r4
    have r2 := Ends.pre (ss := [vMMCall]) (Pre.cons d1 (Pre.nil _)) r3
    exact (Ends.pre hp r2).mono (by omega)
  | err => rw [hr] at hmm; exact hmm.elim
  | panic =>
    rw [hr] at hmm
    have hm : mMM X e r s t pub = .panic := by unfold mMM; rw [hr]
    rw [hm]
    have r2 : Ends P G O 0 e3 vTail7b none := Fails.seq_left (Fails.call hargs hmm)
    exact (Ends.pre hp r2).mono (by omega)

/-- phase 5: `pub, err = NewSM2Point().SetBytes(pubBytes[:])` -/
theorem v_tail6 (hO : ExtOk O) (hc : VerifyCallees P G O X enc Fnew Fpsb Fens Fmm Fbu Fgu) (hn : G 16 = .int (X.n : Int))
    {env : Env} {pubx puby e r s : Bytes} {t : Nat} (ht : t < X.n) (hl : ([4] ++ pubx ++ puby).length = 65)
    (h2 : env 2 = bytesV e) (h4 : env 4 = bytesV s) (h7 : env 7 = .int ((Bytes.toNatBE r : Nat) : Int))
    (h10 : env 10 = .int (t : Int)) (h26 : env 26 = bytesV ([4] ++ pubx ++ puby)) :
    Ends P G O (Fnew + Fpsb + Fens + Fmm + Fbu + Fgu + 80) env vTail6 (vSpec (mSet X pubx puby e r s t)) := by
  let I := ptV enc (Model.Point.infinity X.C)
  let bb : Bytes := [4] ++ pubx ++ puby
  let e1 := env.set 32 I
  have c1 : EvIn P G O (Fnew + 1) env (.call [32] 73 []) e1 .norm := Computes.call hc.new rfl rfl
  have g26 : e1 26 = bytesV bb := h26
  have hargs : evalVs G e1 [(.var 32), (.var 26)] = some [I, bytesV bb] := by
    simp only [evalVs_cons, evalVs_nil, evalV_var, g26]; rfl
  have hpsb := hc.psb bb hl
  cases hs : Model.Point.setBytes X.C bb with
  | ok pub =>
    rw [hs] at hpsb
    have hm : mSet X pubx puby e r s t = mMM X e r s t pub := by unfold mSet; rw [hs]
    rw [hm]
    let e2 := ((e1.set 5 (ptV enc pub)).set 33 (ptV enc pub)).set 34 (.int 0)
    let e3 := e2.set 29 (ptV enc pub)
    let e4 := e3.set 27 (.int 0)
    have c2 : EvIn P G O (Fpsb + 1) e1 (.call [5, 33, 34] 104 [(.var 32), (.var 26)]) e2 .norm := Computes.call hpsb hargs rfl
    have c3 : EvIn P G O 1 e2 (.assign 29 [] (.var 33)) e3 .norm := EvIn.assign rfl
    have c4 : EvIn P G O 1 e3 (.assign 27 [] (.var 34)) e4 .norm := EvIn.assign rfl
    have hp : Pre P G O _ env vSet e4 := Pre.cons c1 (Pre.cons c2 (Pre.cons c3 (Pre.cons c4 (Pre.nil _))))
    have hcond : evalV G e4 (.op2 .ne (.var 27) (.lit 0)) = some (.int 0) := rfl
    have pchk : Pre P G O 3 e4 [vSetChk] e4 := Pre.cons (EvIn.ite hcond (d := false) rfl (EvIn.skip _)) (Pre.nil _)
    have r2 := Ends.pre pchk (v_tail7 hO hc hn (env := e4) (e := e) (r := r) (s := s) (pub := pub) ht h2 h4 h7 h10 rfl)
    exact (Ends.pre hp r2).mono (by omega)
  | err =>
    rw [hs] at hpsb
    have hm : mSet X pubx puby e r s t = .ok false := by unfold mSet; rw [hs]
    rw [hm]
    let e2 := ((e1.set 5 I).set 33 nilPointV).set 34 (.int 1)
    let e3 := e2.set 29 nilPointV
    let e4 := e3.set 27 (.int 1)
    have c2 : EvIn P G O (Fpsb + 1) e1 (.call [5, 33, 34] 104 [(.var 32), (.var 26)]) e2 .norm := Computes.call hpsb hargs rfl
    have c3 : EvIn P G O 1 e2 (.assign 29 [] (.var 33)) e3 .norm := EvIn.assign rfl
    have c4 : EvIn P G O 1 e3 (.assign 27 [] (.var 34)) e4 .norm := EvIn.assign rfl
    have hp : Pre P G O _ env vSet e4 := Pre.cons c1 (Pre.cons c2 (Pre.cons c3 (Pre.cons c4 (Pre.nil _))))
    have hcond : evalV G e4 (.op2 .ne (.var 27) (.lit 0)) = some (.int 1) := rfl
    have r2 : Ends P G O 3 e4 (.seq vSetChk vTail7) (vSpec (.ok false)) :=
      Ends.seq_stop (Ends.ite hcond (d := true) rfl (v_err_ret _))
    exact (Ends.pre hp r2).mono (by omega)
  | panic =>
    rw [hs] at hpsb
    have hm : mSet X pubx puby e r s t = .panic := by unfold mSet; rw [hs]
    rw [hm]
    exact Fails.seq_right c1 (Fails.seq_left (Fails.call hargs hpsb))

/-- phase 4: the builder of `pubBytes`: the array ends as `4 ‖ pubx ‖ puby` -/
theorem v_build {env : Env} {pubx puby e r s : Bytes} (hin : VIn env pubx puby e r s) (hx : pubx.length = 32) (hy : puby.length = 32) :
    ∃ env', Pre P G O 40 env vBuild env' ∧ env' 26 = bytesV ([4] ++ pubx ++ puby) ∧
      ∀ z, z < 26 → env' z = env z := by
  let e1 := env.set 26 (bytesV (List.replicate 65 0))
  let e2 := e1.set 27 (.int 0)
  let e3 := e2.set 28 nilPointV
  let e4 := e3.set 29 nilPointV
  let e5 := e4.set 30 (bytesV [])
  let e6 := e5.set 31 (.int 1)
  have c1 : EvIn P G O 1 env (.assign 26 [] (.mk (.lit 65) (.lit 0))) e1 .norm :=
    EvIn.assign (by rw [bytesV_replicate]; rfl)
  have c2 : EvIn P G O 1 e1 (.assign 27 [] (.lit 0)) e2 .norm := EvIn.assign rfl
  have c3 : EvIn P G O 1 e2 (.assign 28 [] nilPtE) e3 .norm := EvIn.assign (evalV_nilPtE _)
  have c4 : EvIn P G O 1 e3 (.assign 29 [] nilPtE) e4 .norm := EvIn.assign (evalV_nilPtE _)
  have c5 : EvIn P G O 1 e4 (.assign 30 [] (.mk (.lit 0) (.lit 0))) e5 .norm := EvIn.assign rfl
  have c6 : EvIn P G O 1 e5 (.assign 31 [] (.lit 1)) e6 .norm := EvIn.assign rfl
  have p0 : Pre P G O _ env vBuild0 e6 := Pre.cons c1 (Pre.cons c2 (Pre.cons c3 (Pre.cons c4 (Pre.cons c5 (Pre.cons c6 (Pre.nil _))))))
  have f6 : ∀ z, z < 26 → e6 z = env z := by
    intro z hz
    show ((((((env.set 26 _).set 27 _).set 28 _).set 29 _).set 30 _).set 31 _) z = env z
    rw [Env.set_other _ _ (by omega), Env.set_other _ _ (by omega), Env.set_other _ _ (by omega),
      Env.set_other _ _ (by omega), Env.set_other _ _ (by omega), Env.set_other _ _ (by omega)]
  obtain ⟨e7, p7, a30, a31, a26, al, f7⟩ := appStep (P := P) (G := G) (O := O) (env := e6) (buf := []) (arr := List.replicate 65 0)
    (y := [4]) (ey := .mk (.lit 1) (.lit 4)) rfl rfl rfl rfl (by simp)
  have al' : ((([] : Bytes) ++ ([4] : Bytes)) ++ (List.replicate 65 (0 : UInt8)).drop (([] : Bytes) ++ ([4] : Bytes)).length).length = 65 := by
    rw [al]; simp
  have y0 : evalV G e7 (.var 0) = some (bytesV pubx) := evar (by rw [f7 0 (by decide) (by decide), f6 0 (by decide)]; exact hin.h0)
  obtain ⟨e8, p8, b30, b31, b26, bl, f8⟩ := appStep (P := P) (G := G) (O := O) (env := e7) (y := pubx) (ey := .var 0)
    a30 a31 a26 y0 (by rw [al']; simp [hx])
  have y1 : evalV G e8 (.var 1) = some (bytesV puby) :=
    evar (by rw [f8 1 (by decide) (by decide), f7 1 (by decide) (by decide), f6 1 (by decide)]; exact hin.h1)
  obtain ⟨e9, p9, c30, c31, c26, cl, f9⟩ := appStep (P := P) (G := G) (O := O) (env := e8) (y := puby) (ey := .var 1)
    b30 b31 b26 y1 (by rw [bl, al']; simp [hx, hy])
  refine ⟨e9, (Pre.append (Pre.append (Pre.append p0 p7) p8) p9).mono (by omega), ?_, ?_⟩
  · rw [c26, List.drop_of_length_le (by rw [bl, al']; simp [hx, hy])]
    simp
  · intro z hz
    rw [f9 z (by omega) (by omega), f8 z (by omega) (by omega), f7 z (by omega) (by omega), f6 z hz]

theorem v_tail5 (hO : ExtOk O) (hc : VerifyCallees P G O X enc Fnew Fpsb Fens Fmm Fbu Fgu) (hn : G 16 = .int (X.n : Int))
    {env : Env} {pubx puby e r s : Bytes} {t : Nat} (ht : t < X.n) (hin : VIn env pubx puby e r s)
    (hx : pubx.length = 32) (hy : puby.length = 32)
    (h7 : env 7 = .int ((Bytes.toNatBE r : Nat) : Int)) (h10 : env 10 = .int (t : Int)) :
    Ends P G O (Fnew + Fpsb + Fens + Fmm + Fbu + Fgu + 120) env vTail5 (vSpec (mSet X pubx puby e r s t)) := by
  obtain ⟨e1, hp, g26, f⟩ := v_build (P := P) (G := G) (O := O) hin hx hy
  have r := v_tail6 hO hc hn (env := e1) (pubx := pubx) (puby := puby) (e := e) (r := r) (s := s) ht (by simp [hx, hy])
    (by rw [f 2 (by decide)]; exact hin.h2) (by rw [f 4 (by decide)]; exact hin.h4) (by rw [f 7 (by decide)]; exact h7)
    (by rw [f 10 (by decide)]; exact h10) g26
  exact (Ends.pre hp r).mono (by omega)

/-- phase 3: `t = (r + s) mod n` and its test -/
theorem v_tail4 (hO : ExtOk O) (hc : VerifyCallees P G O X enc Fnew Fpsb Fens Fmm Fbu Fgu) (hn : G 16 = .int (X.n : Int))
    {env : Env} {pubx puby e r s : Bytes} (hin : VIn env pubx puby e r s) (hx : pubx.length = 32) (hy : puby.length = 32)
    (hn0 : 0 < X.n)
    (h7 : env 7 = .int ((Bytes.toNatBE r : Nat) : Int)) (h8 : env 8 = .int ((Bytes.toNatBE s : Nat) : Int)) :
    Ends P G O (Fnew + Fpsb + Fens + Fmm + Fbu + Fgu + 140) env vTail4
      (vSpec (if (Bytes.toNatBE r + Bytes.toNatBE s) % X.n = 0 then .ok false
        else mSet X pubx puby e r s ((Bytes.toNatBE r + Bytes.toNatBE s) % X.n))) := by
  let rI : Int := ((Bytes.toNatBE r : Nat) : Int)
  let sI : Int := ((Bytes.toNatBE s : Nat) : Int)
  let t : Nat := (Bytes.toNatBE r + Bytes.toNatBE s) % X.n
  let sg : Int := if (t : Int) < 0 then -1 else if (t : Int) = 0 then 0 else 1
  have htI : (rI + sI) % (X.n : Int) = (t : Int) := by simp only [rI, sI, t]; push_cast; rfl
  let e1 := env.set 23 (.int (rI + sI))
  let e2 := e1.set 10 (.int (rI + sI))
  let e3 := e2.set 24 (.int (t : Int))
  let e4 := e3.set 10 (.int (t : Int))
  let e5 := e4.set 25 (.int sg)
  have c1 : EvIn P G O 1 env (.ext [23] 0 false [(.var 7), (.var 8)]) e1 .norm := by
    refine ext1 (vs := [.int rI, .int sI]) ?_ (hO.add rI sI)
    simp only [evalVs_cons, evalVs_nil, evalV_var, h7, h8]; rfl
  have c2 : EvIn P G O 1 e1 (.assign 10 [] (.var 23)) e2 .norm := EvIn.assign rfl
  have c3 : EvIn P G O 1 e2 (.ext [24] 4 false [(.var 10), (.glob 16)]) e3 .norm := by
    refine ext1 (vs := [.int (rI + sI), .int (X.n : Int)]) ?_ (by rw [hO.mod, htI])
    simp only [evalVs_cons, evalVs_nil, evalV_var, evalV_glob, hn]; rfl
  have c4 : EvIn P G O 1 e3 (.assign 10 [] (.var 24)) e4 .norm := EvIn.assign rfl
  have c5 : EvIn P G O 1 e4 (.ext [25] 8 false [(.var 10)]) e5 .norm :=
    ext1 (vs := [.int (t : Int)]) rfl (hO.sign (t : Int))
  have hp : Pre P G O _ env vT e5 := Pre.cons c1 (Pre.cons c2 (Pre.cons c3 (Pre.cons c4 (Pre.cons c5 (Pre.nil _)))))
  have g25 : e5 25 = .int sg := rfl
  by_cases ht0 : t = 0
  · rw [if_pos ht0]
    have hsg : sg = 0 := by simp only [sg, ht0]; rfl
    have hcond : evalV G e5 (.op2 .eq (.var 25) (.lit 0)) = some (.int 1) := by
      rw [evalV_op2, evalV_var, g25, evalV_lit, hsg]; rfl
    have r : Ends P G O 3 e5 (.seq vTChk vTail5) (vSpec (.ok false)) :=
      Ends.seq_stop (Ends.ite hcond (d := true) rfl (v_err_ret _))
    exact (Ends.pre hp r).mono (by omega)
  · rw [if_neg ht0]
    have hsg : sg = 1 := by
      simp only [sg]
      rw [if_neg (by omega), if_neg (by omega)]
    have hcond : evalV G e5 (.op2 .eq (.var 25) (.lit 0)) = some (.int 0) := by
      rw [evalV_op2, evalV_var, g25, evalV_lit, hsg]; rfl
    have pchk : Pre P G O 3 e5 [vTChk] e5 := Pre.cons (EvIn.ite hcond (d := false) rfl (EvIn.skip _)) (Pre.nil _)
    have hin5 : VIn e5 pubx puby e r s := ⟨hin.h0, hin.h1, hin.h2, hin.h3, hin.h4⟩
    have r := Ends.pre pchk (v_tail5 hO hc hn (env := e5) (t := t) (Nat.mod_lt _ hn0) hin5 hx hy h7 rfl)
    exact (Ends.pre hp r).mono (by omega)

/-- phase 2: the `||` chain of the four range tests: variable 21 holds their disjunction -/
theorem v_range (hO : ExtOk O) {n : Int} (hone : G 18 = .int 1) (hn : G 16 = .int n) {env : Env} {x7 x8 : Int}
    (h7 : env 7 = .int x7) (h8 : env 8 = .int x8) :
    ∃ env', Pre P G O 40 env vRange env' ∧
      env' 21 = .int (ofBool (((decide (x7 < 1) || decide (x8 < 1)) || decide (n ≤ x7)) || decide (n ≤ x8))) ∧
      ∀ z, z < 13 → env' z = env z := by
  let e1 := env.set 13 (.int (cmpInt x7 1))
  let e2 := e1.set 14 (.int (ofBool (decide (x7 < 1))))
  have c1 : EvIn P G O 1 env (.ext [13] 13 false [(.var 7), (.glob 18)]) e1 .norm := by
    refine ext1 (vs := [.int x7, .int 1]) ?_ (hO.cmp x7 1)
    simp only [evalVs_cons, evalVs_nil, evalV_var, h7, evalV_glob, hone]
  have g13 : e1 13 = .int (cmpInt x7 1) := rfl
  have c2 : EvIn P G O 1 e1 (.assign 14 [] (.op2 .lt (.var 13) (.lit 0))) e2 .norm := by
    refine EvIn.assign ?_
    rw [evalV_op2, evalV_var, g13, evalV_lit]
    simp only [cmp_lt0, Option.map_some]
  have pA : Pre P G O _ env [.ext [13] 13 false [(.var 7), (.glob 18)], .assign 14 [] (.op2 .lt (.var 13) (.lit 0))] e2 :=
    Pre.cons c1 (Pre.cons c2 (Pre.nil _))
  obtain ⟨e3, p3, g3, f3⟩ := orStep (P := P) (G := G) hO (env := e2) (a := 14) (b := 15) (c := 16) (xv := 8) (g := 18) (o := .lt)
    (p := decide (x7 < 1)) (q := decide (x8 < 1)) (x := x8) (y := 1) rfl h8 hone (by decide) (by decide) (cmp_lt0 x8 1)
  let e4 := e3.set 17 (.int (ofBool (decide (x7 < 1) || decide (x8 < 1))))
  have c4 : EvIn P G O 1 e3 (.assign 17 [] (.var 15)) e4 .norm := EvIn.assign (evar g3)
  have pB : Pre P G O _ e3 [.assign 17 [] (.var 15)] e4 := Pre.cons c4 (Pre.nil _)
  have g7 : e4 7 = .int x7 := (Env.set_other e3 _ (by decide)).trans ((f3 7 (by decide) (by decide)).trans h7)
  obtain ⟨e5, p5, g5, f5⟩ := orStep (P := P) (G := G) hO (env := e4) (a := 17) (b := 18) (c := 19) (xv := 7) (g := 16) (o := .ge)
    (p := decide (x7 < 1) || decide (x8 < 1)) (q := decide (n ≤ x7)) (x := x7) (y := n) (Env.set_same _ _ _) g7 hn
    (by decide) (by decide) (cmp_ge0 x7 n)
  let e6 := e5.set 20 (.int (ofBool ((decide (x7 < 1) || decide (x8 < 1)) || decide (n ≤ x7))))
  have c6 : EvIn P G O 1 e5 (.assign 20 [] (.var 18)) e6 .norm := EvIn.assign (evar g5)
  have pC : Pre P G O _ e5 [.assign 20 [] (.var 18)] e6 := Pre.cons c6 (Pre.nil _)
  have g8 : e6 8 = .int x8 :=
    (Env.set_other e5 _ (by decide)).trans ((f5 8 (by decide) (by decide)).trans
      ((Env.set_other e3 _ (by decide)).trans ((f3 8 (by decide) (by decide)).trans h8)))
  obtain ⟨e7, p7, g7', f7⟩ := orStep (P := P) (G := G) hO (env := e6) (a := 20) (b := 21) (c := 22) (xv := 8) (g := 16) (o := .ge)
    (p := (decide (x7 < 1) || decide (x8 < 1)) || decide (n ≤ x7)) (q := decide (n ≤ x8)) (x := x8) (y := n)
    (Env.set_same _ _ _) g8 hn (by decide) (by decide) (cmp_ge0 x8 n)
  refine ⟨e7, (Pre.append (Pre.append (Pre.append (Pre.append (Pre.append pA p3) pB) p5) pC) p7).mono (by omega), g7', ?_⟩
  intro z hz
  rw [f7 z (by omega) (by omega)]
  show (e5.set 20 _) z = env z
  rw [Env.set_other _ _ (by omega), f5 z (by omega) (by omega)]
  show (e3.set 17 _) z = env z
  rw [Env.set_other _ _ (by omega), f3 z (by omega) (by omega)]
  show ((env.set 13 _).set 14 _) z = env z
  rw [Env.set_other _ _ (by omega), Env.set_other _ _ (by omega)]

theorem v_tail3 (hO : ExtOk O) (hc : VerifyCallees P G O X enc Fnew Fpsb Fens Fmm Fbu Fgu) (hone : G 18 = .int 1)
    (hn : G 16 = .int (X.n : Int))
    {env : Env} {pubx puby e r s : Bytes} (hin : VIn env pubx puby e r s) (hx : pubx.length = 32) (hy : puby.length = 32)
    (h7 : env 7 = .int ((Bytes.toNatBE r : Nat) : Int)) (h8 : env 8 = .int ((Bytes.toNatBE s : Nat) : Int)) :
    Ends P G O (Fnew + Fpsb + Fens + Fmm + Fbu + Fgu + 190) env vTail3
      (vSpec (if Bytes.toNatBE r < 1 ∨ Bytes.toNatBE s < 1 ∨ Bytes.toNatBE r ≥ X.n ∨ Bytes.toNatBE s ≥ X.n then .ok false else
        if (Bytes.toNatBE r + Bytes.toNatBE s) % X.n = 0 then .ok false
        else mSet X pubx puby e r s ((Bytes.toNatBE r + Bytes.toNatBE s) % X.n))) := by
  obtain ⟨e1, hp, g21, f⟩ := v_range (P := P) (G := G) hO hone hn h7 h8
  generalize hB : (((decide (((Bytes.toNatBE r : Nat) : Int) < 1) || decide (((Bytes.toNatBE s : Nat) : Int) < 1)) ||
    decide ((X.n : Int) ≤ ((Bytes.toNatBE r : Nat) : Int))) || decide ((X.n : Int) ≤ ((Bytes.toNatBE s : Nat) : Int))) = B at g21
  have hBiff : B = true ↔ (Bytes.toNatBE r < 1 ∨ Bytes.toNatBE s < 1 ∨ Bytes.toNatBE r ≥ X.n ∨ Bytes.toNatBE s ≥ X.n) := by
    rw [← hB]
    simp only [Bool.or_eq_true, decide_eq_true_eq]
    omega
  by_cases hr : Bytes.toNatBE r < 1 ∨ Bytes.toNatBE s < 1 ∨ Bytes.toNatBE r ≥ X.n ∨ Bytes.toNatBE s ≥ X.n
  · rw [if_pos hr]
    have hBt : B = true := hBiff.mpr hr
    rw [hBt] at g21
    have r' : Ends P G O 3 e1 (.seq vRangeChk vTail4) (vSpec (.ok false)) :=
      Ends.seq_stop (Ends.ite (evar g21) (d := true) rfl (v_err_ret _))
    exact (Ends.pre hp r').mono (by omega)
  · rw [if_neg hr]
    have hBf : B = false := by
      cases hb : B with
      | false => rfl
      | true => exact absurd (hBiff.mp hb) hr
    rw [hBf] at g21
    have pchk : Pre P G O 3 e1 [vRangeChk] e1 := Pre.cons (EvIn.ite (evar g21) (d := false) rfl (EvIn.skip _)) (Pre.nil _)
    have hin1 : VIn e1 pubx puby e r s :=
      ⟨(f 0 (by decide)).trans hin.h0, (f 1 (by decide)).trans hin.h1, (f 2 (by decide)).trans hin.h2,
        (f 3 (by decide)).trans hin.h3, (f 4 (by decide)).trans hin.h4⟩
    have r' := Ends.pre pchk (v_tail4 hO hc hn (env := e1) hin1 hx hy (by omega)
      ((f 7 (by decide)).trans h7) ((f 8 (by decide)).trans h8))
    exact (Ends.pre hp r').mono (by omega)

/-- phase 1: `rInt.SetBytes(r); sInt.SetBytes(s)` -/
theorem v_tail2 (hO : ExtOk O) (hc : VerifyCallees P G O X enc Fnew Fpsb Fens Fmm Fbu Fgu) (hone : G 18 = .int 1)
    (hn : G 16 = .int (X.n : Int))
    {env : Env} {pubx puby e r s : Bytes} (hin : VIn env pubx puby e r s) (hx : pubx.length = 32) (hy : puby.length = 32) :
    Ends P G O (Fnew + Fpsb + Fens + Fmm + Fbu + Fgu + 210) env vTail2
      (vSpec (if Bytes.toNatBE r < 1 ∨ Bytes.toNatBE s < 1 ∨ Bytes.toNatBE r ≥ X.n ∨ Bytes.toNatBE s ≥ X.n then .ok false else
        if (Bytes.toNatBE r + Bytes.toNatBE s) % X.n = 0 then .ok false
        else mSet X pubx puby e r s ((Bytes.toNatBE r + Bytes.toNatBE s) % X.n))) := by
  let rI : Int := ((Bytes.toNatBE r : Nat) : Int)
  let sI : Int := ((Bytes.toNatBE s : Nat) : Int)
  let e1 := env.set 7 (.int 0)
  let e2 := e1.set 8 (.int 0)
  let e3 := e2.set 9 (.int 0)
  let e4 := e3.set 10 (.int 0)
  let e5 := e4.set 11 (.int rI)
  let e6 := e5.set 7 (.int rI)
  let e7 := e6.set 12 (.int sI)
  let e8 := e7.set 8 (.int sI)
  have c1 : EvIn P G O 1 env (.assign 7 [] (.lit 0)) e1 .norm := EvIn.assign rfl
  have c2 : EvIn P G O 1 e1 (.assign 8 [] (.lit 0)) e2 .norm := EvIn.assign rfl
  have c3 : EvIn P G O 1 e2 (.assign 9 [] (.lit 0)) e3 .norm := EvIn.assign rfl
  have c4 : EvIn P G O 1 e3 (.assign 10 [] (.lit 0)) e4 .norm := EvIn.assign rfl
  have g3 : e4 3 = bytesV r := hin.h3
  have c5 : EvIn P G O 1 e4 (.ext [11] 7 false [(.var 3)]) e5 .norm := by
    refine ext1 (vs := [bytesV r]) ?_ (hO.setBytes r)
    simp only [evalVs_cons, evalVs_nil, evalV_var, g3]
  have c6 : EvIn P G O 1 e5 (.assign 7 [] (.var 11)) e6 .norm := EvIn.assign rfl
  have g4 : e6 4 = bytesV s := hin.h4
  have c7 : EvIn P G O 1 e6 (.ext [12] 7 false [(.var 4)]) e7 .norm := by
    refine ext1 (vs := [bytesV s]) ?_ (hO.setBytes s)
    simp only [evalVs_cons, evalVs_nil, evalV_var, g4]
  have c8 : EvIn P G O 1 e7 (.assign 8 [] (.var 12)) e8 .norm := EvIn.assign rfl
  have hp : Pre P G O _ env vInit e8 := Pre.cons c1 (Pre.cons c2 (Pre.cons c3 (Pre.cons c4 (Pre.cons c5 (Pre.cons c6
    (Pre.cons c7 (Pre.cons c8 (Pre.nil _))))))))
  have hin8 : VIn e8 pubx puby e r s := ⟨hin.h0, hin.h1, hin.h2, hin.h3, hin.h4⟩
  exact (Ends.pre hp (v_tail3 hO hc hone hn (env := e8) hin8 hx hy rfl rfl)).mono (by omega)

/-- fuel for VerifyHashed -/
def fuelVerify (Fnew Fpsb Fens Fmm Fbu Fgu : Nat) : Nat := Fnew + Fpsb + Fens + Fmm + Fbu + Fgu + 220

/-- BODY LEVEL: **VerifyHashed** against the model -/
theorem verify_body (hO : ExtOk O) (hc : VerifyCallees P G O X enc Fnew Fpsb Fens Fmm Fbu Fgu) (hone : G 18 = .int 1)
    (hn : G 16 = .int (X.n : Int)) (pubx puby e r s : Bytes) :
    Ends P G O (fuelVerify Fnew Fpsb Fens Fmm Fbu Fgu) (Env.ofList [bytesV pubx, bytesV puby, bytesV e, bytesV r, bytesV s])
      fn_107.body (vSpec (Model.SM2.verifyHashed X pubx puby e r s)) := by
  rw [fn_107_body, verifyHashed_layers]
  let e0 : Env := Env.ofList [bytesV pubx, bytesV puby, bytesV e, bytesV r, bytesV s]
  have hin : VIn e0 pubx puby e r s := ⟨rfl, rfl, rfl, rfl, rfl⟩
  have l0 : evalV G e0 (.len (.var 0)) = some (.int (pubx.length : Int)) := evalV_lenB (evar hin.h0)
  have l1 : evalV G e0 (.len (.var 1)) = some (.int (puby.length : Int)) := evalV_lenB (evar hin.h1)
  have l2 : evalV G e0 (.len (.var 2)) = some (.int (e.length : Int)) := evalV_lenB (evar hin.h2)
  have l3 : evalV G e0 (.len (.var 3)) = some (.int (r.length : Int)) := evalV_lenB (evar hin.h3)
  have l4 : evalV G e0 (.len (.var 4)) = some (.int (s.length : Int)) := evalV_lenB (evar hin.h4)
  have hcv : evalV G e0 vLenC = some (.int (ofBool ((((((pubx.length : Int) != 32) || ((puby.length : Int) != 32)) ||
      ((e.length : Int) != 32)) || ((r.length : Int) != 32)) || ((s.length : Int) != 32)))) := by
    simp only [vLenC, evalV_op2, l0, l1, l2, l3, l4, evalV_lit, evalOp2, Option.map_some, ofBool_ne0]
  generalize hD : ((((((pubx.length : Int) != 32) || ((puby.length : Int) != 32)) ||
      ((e.length : Int) != 32)) || ((r.length : Int) != 32)) || ((s.length : Int) != 32)) = D at hcv
  have hDiff : D = true ↔ (pubx.length ≠ 32 ∨ puby.length ≠ 32 ∨ e.length ≠ 32 ∨ r.length ≠ 32 ∨ s.length ≠ 32) := by
    rw [← hD]
    simp only [Bool.or_eq_true, bne_iff_ne, ne_eq]
    omega
  by_cases hlen : pubx.length ≠ 32 ∨ puby.length ≠ 32 ∨ e.length ≠ 32 ∨ r.length ≠ 32 ∨ s.length ≠ 32
  · rw [if_pos hlen]
    rw [hDiff.mpr hlen] at hcv
    obtain ⟨v, hv⟩ := hO.errorf [.int (pubx.length : Int), .int (puby.length : Int), .int (e.length : Int), .int (r.length : Int),
      .int (s.length : Int)]
    have cx : EvIn P G O 1 e0 (.ext [6] 10 true [(.len (.var 0)), (.len (.var 1)), (.len (.var 2)), (.len (.var 3)), (.len (.var 4))])
        (e0.set 6 v) .norm := by
      refine ext1 ?_ hv
      simp only [evalVs_cons, evalVs_nil, l0, l1, l2, l3, l4]
    have r1 : Ends P G O _ e0 vLenThen (vSpec (.ok false)) :=
      Ends.pre (ss := [.ext [6] 10 true [(.len (.var 0)), (.len (.var 1)), (.len (.var 2)), (.len (.var 3)), (.len (.var 4))]])
        (Pre.cons cx (Pre.nil _)) (v_err_ret _)
    exact (Ends.seq_stop (Ends.ite hcv (d := true) rfl r1)).mono (by simp only [fuelVerify]; omega)
  · rw [if_neg hlen]
    have hDf : D = false := by
      cases hd : D with
      | false => rfl
      | true => exact absurd (hDiff.mp hd) hlen
    rw [hDf] at hcv
    have pchk : Pre P G O 3 e0 [vLenS] e0 := Pre.cons (EvIn.ite hcv (d := false) rfl (EvIn.skip _)) (Pre.nil _)
    exact (Ends.pre pchk (v_tail2 hO hc hone hn hin (by omega) (by omega))).mono (by simp only [fuelVerify]; omega)

/-- **VerifyHashed** = `Model.SM2.verifyHashed`, modulo the callees and the externals:
    `.ok b` ⇒ every run with fuel ≥ `fuelVerify …` returns the verdict `b` and an error code `e' ∈ {0, 1}` (0 = nil) that is
    0 when the verdict is `true`; the model never returns `.err`; `.panic` (only through a panic of a callee) ⇒ the run
    panics or is stuck. -/
theorem ir_verifyHashed_eq_model (h107 : P[107]? = some fn_107) (hO : ExtOk O)
    (hc : VerifyCallees P G O X enc Fnew Fpsb Fens Fmm Fbu Fgu) (hone : G 18 = .int 1) (hn : G 16 = .int (X.n : Int))
    (pubx puby e r s : Bytes) :
    match Model.SM2.verifyHashed X pubx puby e r s with
    | .ok b => ∃ e' : Int, (e' = 0 ∨ e' = 1) ∧ (b = true → e' = 0) ∧
        ∀ f, fuelVerify Fnew Fpsb Fens Fmm Fbu Fgu ≤ f →
          runV P G O f 107 [bytesV pubx, bytesV puby, bytesV e, bytesV r, bytesV s] = .ret [.int (if b then 1 else 0), .int e']
    | .err => False
    | .panic => (∃ F, ∀ f, F ≤ f → runV P G O f 107 [bytesV pubx, bytesV puby, bytesV e, bytesV r, bytesV s] = .panic) ∨
        (∀ f, runV P G O f 107 [bytesV pubx, bytesV puby, bytesV e, bytesV r, bytesV s] = .stuck) := by
  have h := verify_body hO hc hone hn pubx puby e r s
  cases hm : Model.SM2.verifyHashed X pubx puby e r s with
  | ok b =>
    rw [hm] at h
    obtain ⟨env', vs, ⟨e', he1, he2, rfl⟩, hev⟩ := h
    exact ⟨e', he1, he2, runV_of_EvIn h107 rfl rfl hev⟩
  | err =>
    rw [hm] at h
    obtain ⟨_, _, hf, _⟩ := h
    exact hf
  | panic =>
    rw [hm] at h
    exact runV_of_Fails h107 rfl rfl h

/-- the hypothesis `VerifyCallees.psb` from the callees of `(*SM2Point).SetBytes` (`pointSetBytes_computes`), when the
    Go zero value of an element has `Out4` limbs -/
theorem psb_of_callees {C : Model.Point.Ctx α} {Fpset Fsb Fcoc Fes Fone : Nat} (h104 : P[104]? = some fn_104)
    (hc : PsbCallees P G O C enc Fnew Fpset Fsb Fcoc Fes Fone) (hz : Out4 (enc C.F.zero)) (b : Bytes) (hb : b.length = 65) :
    match Model.Point.setBytes C b with
    | .ok p => Computes P G O 104 (fuelPsb Fnew Fpset Fsb Fcoc Fes Fone) [ptV enc (Model.Point.infinity C), bytesV b]
        [ptV enc p, ptV enc p, .int 0]
    | .err => Computes P G O 104 (fuelPsb Fnew Fpset Fsb Fcoc Fes Fone) [ptV enc (Model.Point.infinity C), bytesV b]
        [ptV enc (Model.Point.infinity C), nilPointV, .int 1]
    | .panic => CalleeFails P G O 104 [ptV enc (Model.Point.infinity C), bytesV b] :=
  pointSetBytes_computes h104 hc (enc C.F.zero) (enc C.F.setOne) (enc C.F.zero) hz b

end Verify


/-! ## Assembling the hypotheses, and the statements for the extended program `PX` as runs -/

section Assemble
variable {α β : Type} {P : Prog} {G : Nat → Val} {O : Oracle} {enc : α → List Nat}

/-- the callees of `(*SM2Point).SetBytes`, with `Sm2CheckOnCurve` discharged by `checkOnCurve_computes` -/
theorem psbCallees_of {C : Model.Point.Ctx α} {Fmul Fsq Fadd Fsub Feq Fnew Fpset Fsb Fes Fone : Nat}
    (h105 : P[105]? = some fn_105) (hel : ElemOps P G O C.F enc Fmul Fsq Fadd Fsub Feq) (hB : G 6 = elemV (enc C.b))
    (new : Computes P G O 73 Fnew [] [ptV enc (Model.Point.infinity C)])
    (pset : ∀ qa qb qc a b c : List Nat, Computes P G O 75 Fpset [ptRawV qa qb qc, ptRawV a b c] [ptRawV a b c, ptRawV a b c])
    (esb : ∀ v : Bytes, match Model.Field.setBytes C.F v with
      | .ok e => Computes P G O 33 Fsb [elemV [0, 0, 0, 0], bytesV v] [elemV (enc e), elemV (enc e), .int 0]
      | .err => Computes P G O 33 Fsb [elemV [0, 0, 0, 0], bytesV v] [elemV [0, 0, 0, 0], elemV [0, 0, 0, 0], .int 1]
      | .panic => CalleeFails P G O 33 [elemV [0, 0, 0, 0], bytesV v])
    (eset : ∀ o t : List Nat, Computes P G O 15 Fes [elemV o, elemV t] [elemV t, elemV t])
    (one : ∀ o : List Nat, Out4 o → Computes P G O 13 Fone [elemV o] [elemV (enc C.F.setOne), elemV (enc C.F.setOne)]) :
    PsbCallees P G O C enc Fnew Fpset Fsb (fuelCoc Fmul Fsq Fadd Fsub Feq) Fes Fone :=
  ⟨new, pset, esb, checkOnCurve_computes h105 hel hB, eset, one⟩

/-- the callees of `VerifyHashed`, with `(*SM2Point).SetBytes` discharged by `pointSetBytes_computes` -/
theorem verifyCallees_of {X : Model.SM2.Ctx α β} {Fnew Fpset Fsb Fcoc Fes Fone Fens Fmm Fbu Fgu : Nat}
    (h104 : P[104]? = some fn_104) (hps : PsbCallees P G O X.C enc Fnew Fpset Fsb Fcoc Fes Fone) (hz : Out4 (enc X.C.F.zero))
    (ens : ∀ v : Nat, v < X.n → Computes P G O 99 Fens [.int (v : Int)] [bytesV (Model.SM2.ensure32 v)])
    (mm : ∀ (s : Bytes) (pub : Model.Point.Pt α) (t : Bytes),
      match Model.Curve.scalarMixedMult (Model.Curve.pointOps X.C) s pub t X.first X.second with
      | .ok r => Computes P G O 100 Fmm [bytesV s, ptV enc pub, bytesV t] [ptV enc r, .int 0]
      | .err => False
      | .panic => CalleeFails P G O 100 [bytesV s, ptV enc pub, bytesV t])
    (bu : ∀ p : Model.Point.Pt α, Computes P G O 94 Fbu [ptV enc p] [bytesV (Model.Point.bytes X.C p false)])
    (gu : ∀ p : Model.Point.Pt α, Computes P G O 90 Fgu [ptV enc p] [.int ((Model.Point.getAffineXUnsafe X.C p : Nat) : Int)]) :
    VerifyCallees P G O X enc Fnew (fuelPsb Fnew Fpset Fsb Fcoc Fes Fone) Fens Fmm Fbu Fgu :=
  ⟨hps.new, psb_of_callees h104 hps hz, ens, mm, bu, gu⟩

/-- **Sm2CheckOnCurve** of the extended program, as a run -/
theorem ir_checkOnCurve {C : Model.Point.Ctx α} {Fmul Fsq Fadd Fsub Feq : Nat}
    (hel : ElemOps PX G O C.F enc Fmul Fsq Fadd Fsub Feq) (hB : G 6 = elemV (enc C.b)) (x y : α) :
    ∀ f, fuelCoc Fmul Fsq Fadd Fsub Feq ≤ f →
      runV PX G O f 105 [elemV (enc x), elemV (enc y)] = .ret [.int (if Model.Point.checkOnCurve C x y then 0 else 1)] :=
  (checkOnCurve_computes PX_105 hel hB x y).runV

/-- **(*SM2Point).SetBytes** of the extended program -/
theorem ir_pointSetBytes {C : Model.Point.Ctx α} {Fnew Fpset Fsb Fcoc Fes Fone : Nat}
    (hc : PsbCallees PX G O C enc Fnew Fpset Fsb Fcoc Fes Fone) (qa qb qc : List Nat) (hqc : Out4 qc) (b : Bytes) :
    match Model.Point.setBytes C b with
    | .ok p => Computes PX G O 104 (fuelPsb Fnew Fpset Fsb Fcoc Fes Fone) [ptRawV qa qb qc, bytesV b] [ptV enc p, ptV enc p, .int 0]
    | .err => Computes PX G O 104 (fuelPsb Fnew Fpset Fsb Fcoc Fes Fone) [ptRawV qa qb qc, bytesV b]
        [ptRawV qa qb qc, .arr (List.replicate 3 (.arr (List.replicate 1 (.arr (List.replicate 4 (.int 0)))))), .int 1]
    | .panic => CalleeFails PX G O 104 [ptRawV qa qb qc, bytesV b] :=
  pointSetBytes_computes PX_104 hc qa qb qc hqc b

/-- **VerifyHashed** of the extended program -/
theorem ir_verifyHashed {X : Model.SM2.Ctx α β} {Fnew Fpsb Fens Fmm Fbu Fgu : Nat} (hO : ExtOk O)
    (hc : VerifyCallees PX G O X enc Fnew Fpsb Fens Fmm Fbu Fgu) (hone : G 18 = .int 1) (hn : G 16 = .int (X.n : Int))
    (pubx puby e r s : Bytes) :
    match Model.SM2.verifyHashed X pubx puby e r s with
    | .ok b => ∃ e' : Int, (e' = 0 ∨ e' = 1) ∧ (b = true → e' = 0) ∧
        ∀ f, fuelVerify Fnew Fpsb Fens Fmm Fbu Fgu ≤ f →
          runV PX G O f 107 [bytesV pubx, bytesV puby, bytesV e, bytesV r, bytesV s] = .ret [.int (if b then 1 else 0), .int e']
    | .err => False
    | .panic => (∃ F, ∀ f, F ≤ f → runV PX G O f 107 [bytesV pubx, bytesV puby, bytesV e, bytesV r, bytesV s] = .panic) ∨
        (∀ f, runV PX G O f 107 [bytesV pubx, bytesV puby, bytesV e, bytesV r, bytesV s] = .stuck) :=
  ir_verifyHashed_eq_model PX_107 hO hc hone hn pubx puby e r s

end Assemble

#print axioms checkOnCurve_computes
#print axioms pointSetBytes_computes
#print axioms pointSetBytes_nil
#print axioms protoOracle_ok
#print axioms verifyHashed_ne_err
#print axioms verify_body
#print axioms ir_verifyHashed_eq_model
#print axioms psb_of_callees
#print axioms psbCallees_of
#print axioms verifyCallees_of
#print axioms ir_checkOnCurve
#print axioms ir_pointSetBytes
#print axioms ir_verifyHashed

end SMGo.Proofs.CTIRRefineVerify
