import SMGo.Proofs.ISAValFusedRounds
import SMGo.Proofs.ISAValWideX2Spec
set_option linter.unusedSimpArgs false
namespace SMGo.Proofs.ISAVal
open SMGo.Model.ISAVal SMGo.Proofs.ISATouch
open SMGo.Model.ISA (Reg Opd Instr)

/-- `rev32` with `Shuffle<>` broadcast to the whole 512-bit register (as `loadShuffle512` leaves it), at any vector length -/
theorem vpshufb_shuf64 (vl x : Nat) (hvl : validVl vl = true) : vpshufb vl (SHUFvl 64) x = vpshufb vl (SHUFvl vl) x := by
  have hvl' : vl = 16 ∨ vl = 32 ∨ vl = 64 := by
    simpa only [validVl, Bool.or_eq_true, beq_iff_eq, or_assoc] using hvl
  rcases hvl' with rfl | rfl | rfl
  · unfold vpshufb map2
    rw [show lanes 128 (16 / 16) (SHUFvl 64) = lanes 128 (16 / 16) (SHUFvl 16) from by decide +kernel]
  · unfold vpshufb map2
    rw [show lanes 128 (32 / 16) (SHUFvl 64) = lanes 128 (32 / 16) (SHUFvl 32) from by decide +kernel]
  · rfl

theorem lane32_rev32_64 (vl x j : Nat) (hvl : validVl vl = true) (hj : j < vl / 4) :
    lane 32 j (vpshufb vl (SHUFvl 64) x) = bswap32 (lane 32 j x) := by
  rw [vpshufb_shuf64 vl x hvl]; exact lane32_rev32 vl x j hvl hj

/-- the (In, Out) pairs of the one-block kernels: H, the tag mask, the `loopX1` / `loopX0` classes -/
def oneInst (In Out : Nat) : Prop := (In = 6 ∧ Out = 19) ∨ (In = 6 ∧ Out = 15) ∨ (In = 6 ∧ Out = 9)

/-- `rev32` and `transpose1x4`: dword 0 of In, V7, V8, Out = the four big-endian words of the block held in In -/
def t14Code (In Out : Nat) : List DInstr :=
  [ins .VPUNPCKLDQ [R In, R In, R 0] 16, ins .VPUNPCKHDQ [R In, R In, R 8] 16,
   ins .VPUNPCKHDQ [R 0, R 0, R 7] 16, ins .VPUNPCKHDQ [R 8, R 8, R Out] 16]

/-- `transpose4x1` and `rev32` -/
def t41Code (In Out : Nat) : List DInstr :=
  [ins .VPUNPCKLDQ [R 8, R Out, R 0] 16, ins .VPUNPCKLDQ [R In, R 7, R 1] 16, ins .VPUNPCKLQDQ [R 1, R 0, R Out] 16,
   ins .VPSHUFB [R 12, R Out, R Out] 16]

theorem sm4One_split (In Out : Nat) :
    sm4OneCode In Out = ([ins .VPSHUFB [R 12, R In, R In] 16] ++ t14Code In Out) ++ (rounds32Code 16 15 1 2 13 11 In 7 8 Out ++ t41Code In Out) := by
  simp only [sm4OneCode, t14Code, t41Code, List.cons_append, List.nil_append, List.append_assoc]

set_option maxRecDepth 100000 in
theorem t14_spec (In Out : Nat) (hinst : oneInst In Out) (s : State) (hV : s.vec.length = 32) (h12 : vreg s 12 = SHUFvl 64) :
    ∃ s', execList ([ins .VPSHUFB [R 12, R In, R In] 16] ++ t14Code In Out) s = .ok s' ∧
      lane 32 0 (vreg s' In) = bswap32 (lane 32 0 (vreg s In)) ∧ lane 32 0 (vreg s' 7) = bswap32 (lane 32 1 (vreg s In)) ∧
      lane 32 0 (vreg s' 8) = bswap32 (lane 32 2 (vreg s In)) ∧ lane 32 0 (vreg s' Out) = bswap32 (lane 32 3 (vreg s In)) := by
  have hvl : validVl 16 = true := by decide
  have hn : 0 < 16 / 16 := by decide
  obtain ⟨gpr, vec, k, fl, mem, syms, frame⟩ := s
  simp only at hV
  obtain ⟨b0, b1, b2, b3, b4, b5, b6, b7, b8, b9, b10, b11, b12, b13, b14, b15, b16, b17, b18, b19, b20, b21, b22, b23, b24, b25, b26, b27, b28, b29, b30, b31, rfl⟩ := list32 vec hV
  simp only [vreg, List.getD_cons_succ, List.getD_cons_zero] at h12
  subst h12
  rcases hinst with ⟨rfl, rfl⟩ | ⟨rfl, rfl⟩ | ⟨rfl, rfl⟩
  all_goals
    apply Exists.intro
    apply And.intro
    · simp only [t14Code, List.cons_append, List.nil_append]
      gstep; gstep; gstep; gstep; gstep
      exact execList_nil _
    · simp only [List.set_cons_succ, List.set_cons_zero, vreg, List.getD_cons_succ, List.getD_cons_zero]
      simp only [(d0_unpckldq _ _ _ hn).1, (d0_unpckldq _ _ _ hn).2.1, (d0_unpckldq _ _ _ hn).2.2.1, (d0_unpckldq _ _ _ hn).2.2.2,
        (d0_unpckhdq _ _ _ hn).1, (d0_unpckhdq _ _ _ hn).2.1, (d0_unpckhdq _ _ _ hn).2.2.1, (d0_unpckhdq _ _ _ hn).2.2.2,
        lane32_rev32_64 16 _ 0 hvl (by decide), lane32_rev32_64 16 _ 1 hvl (by decide),
        lane32_rev32_64 16 _ 2 hvl (by decide), lane32_rev32_64 16 _ 3 hvl (by decide), and_self]

set_option maxRecDepth 100000 in
theorem t41_spec (In Out : Nat) (hinst : oneInst In Out) (s : State) (hV : s.vec.length = 32) (h12 : vreg s 12 = SHUFvl 64) :
    ∃ s', execList (t41Code In Out) s = .ok s' ∧ vreg s' Out < 2 ^ 128 ∧
      lane 32 0 (vreg s' Out) = bswap32 (lane 32 0 (vreg s Out)) ∧ lane 32 1 (vreg s' Out) = bswap32 (lane 32 0 (vreg s 8)) ∧
      lane 32 2 (vreg s' Out) = bswap32 (lane 32 0 (vreg s 7)) ∧ lane 32 3 (vreg s' Out) = bswap32 (lane 32 0 (vreg s In)) := by
  have hvl : validVl 16 = true := by decide
  have hn : 0 < 16 / 16 := by decide
  obtain ⟨gpr, vec, k, fl, mem, syms, frame⟩ := s
  simp only at hV
  obtain ⟨b0, b1, b2, b3, b4, b5, b6, b7, b8, b9, b10, b11, b12, b13, b14, b15, b16, b17, b18, b19, b20, b21, b22, b23, b24, b25, b26, b27, b28, b29, b30, b31, rfl⟩ := list32 vec hV
  simp only [vreg, List.getD_cons_succ, List.getD_cons_zero] at h12
  subst h12
  rcases hinst with ⟨rfl, rfl⟩ | ⟨rfl, rfl⟩ | ⟨rfl, rfl⟩
  all_goals
    apply Exists.intro
    apply And.intro
    · simp only [t41Code]
      gstep; gstep; gstep; gstep
      exact execList_nil _
    · simp only [List.set_cons_succ, List.set_cons_zero, vreg, List.getD_cons_succ, List.getD_cons_zero]
      refine ⟨?_, ?_⟩
      · rw [vpshufb_shuf64 16 _ hvl]; exact vpshufb_lt 16 _ _ (by decide)
      · simp only [(d0_unpckldq _ _ _ hn).1, (d0_unpckldq _ _ _ hn).2.1, (d0_unpckldq _ _ _ hn).2.2.1, (d0_unpckldq _ _ _ hn).2.2.2,
          (d0_unpcklqdq _ _ _ hn).1, (d0_unpcklqdq _ _ _ hn).2.1, (d0_unpcklqdq _ _ _ hn).2.2.1, (d0_unpcklqdq _ _ _ hn).2.2.2,
          lane32_rev32_64 16 _ 0 hvl (by decide), lane32_rev32_64 16 _ 1 hvl (by decide),
          lane32_rev32_64 16 _ 2 hvl (by decide), lane32_rev32_64 16 _ 3 hvl (by decide), and_self]


/-- the block function of the specification on byte lists given as numbers -/
def encB (rk pb : List Nat) : List Nat :=
  (Spec.SM4.crypt (rk.map (BitVec.ofNat 32)) (pb.map UInt8.ofNat)).map (·.toNat)

def oneKeepG : List Nat := (List.range 16).filter (fun n => !([15, 1, 2, 13, 11].contains n))
def oneKeepV (In Out : Nat) : List Nat := (List.range 32).filter (fun n => !([0, 1, 2, 3, 4, 5, 13, In, 7, 8, Out].contains n))

theorem post_writes (In Out : Nat) :
    writesNone (t41Code In Out) (List.range 16) (oneKeepV In Out) (List.range 8) = true := by
  simp [writesNone, t41Code, leaves, touchesOf, tVec3, ins, R, oneKeepV]

theorem oneKeepG_sub : ∀ n, n ∈ oneKeepG → n ∈ List.range 16 := by decide

theorem pre_writes (In Out : Nat) :
    writesNone ([ins .VPSHUFB [R 12, R In, R In] 16] ++ t14Code In Out) (List.range 16) (oneKeepV In Out) (List.range 8) = true := by
  simp [writesNone, t14Code, leaves, touchesOf, tVec3, ins, R, oneKeepV]

theorem oneInst_sr {In Out : Nat} (h : oneInst In Out) : srInst In 7 8 Out ∧ 10 ∈ oneKeepV In Out ∧ 11 ∈ oneKeepV In Out ∧ 12 ∈ oneKeepV In Out
    ∧ 10 ∈ rnKeepV In 7 8 Out ∧ 11 ∈ rnKeepV In 7 8 Out ∧ 12 ∈ rnKeepV In 7 8 Out := by
  rcases h with ⟨rfl, rfl⟩ | ⟨rfl, rfl⟩ | ⟨rfl, rfl⟩ <;> refine ⟨by simp [srInst], by decide, by decide, by decide, by decide, by decide, by decide⟩

/-- **`cryptoBlockAsmMacro(rk, VxIn, VxOut, …)` is the SM4 block function of the specification**: the block held in `In`
    (as the number whose bytes are the block in memory order) goes to `Out` -/
theorem sm4One_spec (In Out : Nat) (hinst : oneInst In Out) (s : State) (hG : s.gpr.length = 16) (hV : s.vec.length = 32)
    (h10 : vreg s 10 = PREvl 64) (h11 : vreg s 11 = POSTvl 64) (h12 : vreg s 12 = SHUFvl 64)
    (pb : List Nat) (hpb : pb.length = 16) (hpbb : ∀ x ∈ pb, x < 2 ^ 8) (hIn : vreg s In = unlanes 8 pb)
    (rk : List Nat) (hrk : rk.length = 32) (hrkb : ∀ x ∈ rk, x < 2 ^ 32)
    (base : Nat) (hbase : greg s 15 = base) (hb : base + 144 < 2 ^ 64)
    (hread : ∀ i, i < 32 → readMem s.mem (base + 4 * i) 4 = .ok (lanes 8 4 (rk.getD i 0))) :
    ∃ s', execList (sm4OneCode In Out) s = .ok s' ∧ vreg s' Out = unlanes 8 (encB rk pb) ∧ greg s' 15 = base ∧
      Keeps oneKeepG (oneKeepV In Out) (List.range 8) s s' := by
  obtain ⟨isr, f10, f11, f12, q10, q11, q12⟩ := oneInst_sr hinst
  obtain ⟨s1, hr1, a0, a1, a2, a3⟩ := t14_spec In Out hinst s hV h12
  have kp1 := keeps_of_exec _ (pre_writes In Out) hr1
  have rd1 : ReadyF 16 In 7 8 Out (fun j => (lane 32 j (vreg s1 In), lane 32 j (vreg s1 7), lane 32 j (vreg s1 8), lane 32 j (vreg s1 Out))) s1 :=
    ⟨kp1.lenG.trans hG, kp1.lenV.trans hV, (kp1.v 10 f10).trans h10, (kp1.v 11 f11).trans h11,
      fun _ _ => rfl, fun _ _ => rfl, fun _ _ => rfl, fun _ _ => rfl⟩
  obtain ⟨s2, hr2, rd2, g2, kp2⟩ := rounds32_step 16 15 1 2 13 11 In 7 8 Out (by decide) isr (Or.inl ⟨rfl, rfl, rfl, rfl, rfl⟩) s1 _ rd1 base
    (by rw [kp1.g 15 (by decide)]; exact hbase) hb (fun i => lanes 8 4 (rk.getD i 0)) (fun i hi => by rw [kp1.mem]; exact hread i hi)
  obtain ⟨s3, hr3, hlt, o0, o1, o2, o3⟩ := t41_spec In Out hinst s2 rd2.lenV
    (by rw [kp2.v 12 q12, kp1.v 12 f12]; exact h12)
  have hrun : execList (sm4OneCode In Out) s = .ok s3 := by
    rw [sm4One_split]
    exact execList_append_ok hr1 (execList_append_ok hr2 hr3)
  have kp3 := keeps_of_exec _ (post_writes In Out) hr3
  have kpAll : Keeps oneKeepG (oneKeepV In Out) (List.range 8) s s3 :=
    ((kp1.mono oneKeepG_sub (fun _ h => h) (fun _ h => h)).trans kp2).trans (kp3.mono oneKeepG_sub (fun _ h => h) (fun _ h => h))
  refine ⟨s3, hrun, ?_, ?_, kpAll⟩
  · -- the value
    have hkw : (fun i => unlanes 8 (lanes 8 4 (rk.getD i 0)) % 2 ^ 32) = (fun i => rk.getD i 0) := by
      funext i
      rw [unlanes_lanes, Nat.mod_mod]; exact Nat.mod_eq_of_lt (getD_lt rk hrkb i)
    have hx := rd2.xA 0 (by decide); have hy := rd2.xB 0 (by decide); have hz := rd2.xC 0 (by decide); have hw := rd2.xD 0 (by decide)
    simp only [a0, a1, a2, a3, hIn] at hx hy hz hw
    have hl : ∀ t, t < 4 → bswap32 (lane 32 t (unlanes 8 pb)) = wordAt pb (4 * t) := by
      intro t ht
      rw [laneJ_unlanes 32 8 4 t (by rfl) pb hpbb (by omega)]; rfl
    rw [hl 0 (by decide), hl 1 (by decide), hl 2 (by decide), hl 3 (by decide), hkw, iterN_take rk _ 32 (by omega),
      List.take_of_length_le (by omega)] at hx hy hz hw
    have hW : (wordAt pb (4 * 0), wordAt pb (4 * 1), wordAt pb (4 * 2), wordAt pb (4 * 3)) = Wblk pb 0 := rfl
    rw [hW] at hx hy hz hw
    have hbytes : lanes 8 16 (vreg s3 Out) = encQ (rk.foldl stepN (Wblk pb 0)) :=
      reg_out2 _ _ (by rw [o0, hw]) (by rw [o1, hz]) (by rw [o2, hy]) (by rw [o3, hx])
    have hval : vreg s3 Out = unlanes 8 (lanes 8 16 (vreg s3 Out)) := by
      rw [unlanes_lanes]; exact (Nat.mod_eq_of_lt hlt).symm
    rw [hval, hbytes, encQ_eq_spec rk pb hrkb hpbb 0 (by omega)]
    unfold encB blockAt
    rw [Nat.mul_zero, List.drop_zero, List.take_of_length_le (by omega)]
  · -- the round-key pointer
    rw [kp3.g 15 (by decide)]; exact g2

end SMGo.Proofs.ISAVal
#print axioms SMGo.Proofs.ISAVal.sm4One_spec
