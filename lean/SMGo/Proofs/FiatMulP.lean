/-
  Property C16, Montgomery multiplication and squaring modulo p (generated `sm2Mul`, `sm2Square`):
  the generated straight-line code is cut into the blocks of `FiatBlocks`; each round establishes
  `T' · 2^64 = T + a_i · B + q_i · p`, `T' < 2p`; the final conditional subtraction gives the
  canonical representative.  `sm2Square` (hand-edited: it reuses six products) is handled with the
  same rounds after commuting the reused products.
-/
import SMGo.Proofs.FiatBlocks
import SMGo.Gen.FiatP
set_option linter.unusedVariables false
namespace SMGo.Proofs.FiatMulP
open SMGo SMGo.Proofs.Fiat SMGo.Model.FiatPrim
open SMGo.Proofs.FiatSmallP (v4 v4_lt p_eq)

/-- the reduction row q·p -/
def pRow (q : Nat) : List Nat :=
  mulRow q 0xffffffffffffffff 0xffffffff00000000 0xffffffffffffffff 0xfffffffeffffffff

theorem pRow_spec {q : Nat} (hq : q < 18446744073709551616) : L5 (pRow q) (q * 115792089210356248756420345214020892766250353991924191454421193933289684991999) :=
  mulRow_spec hq (by decide) (by decide) (by decide) (by decide)

/-- first round: T := (row + q·p) / 2^64 with q = row[0] -/
theorem step0_abs {r0 r1 r2 r3 r4 q0 q1 q2 q3 q4 a B : Nat}
    (R : L5 [r0, r1, r2, r3, r4] (a * B)) (Q : L5 [q0, q1, q2, q3, q4] (r0 * 115792089210356248756420345214020892766250353991924191454421193933289684991999))
    (ha : a < 18446744073709551616) (hB : B < 115792089210356248756420345214020892766250353991924191454421193933289684991999) :
    ∃ v, L5 (redAdd5 r0 r1 r2 r3 r4 q0 q1 q2 q3 q4) v ∧ v < 2 * 115792089210356248756420345214020892766250353991924191454421193933289684991999 ∧
      v * 18446744073709551616 = a * B + r0 * 115792089210356248756420345214020892766250353991924191454421193933289684991999 := by
  have hq := R.head_eq
  have hab : a * B ≤ 18446744073709551615 * B := Nat.mul_le_mul_right B (by omega)
  generalize a * B = S at *
  have hz : (S + r0 * 115792089210356248756420345214020892766250353991924191454421193933289684991999) % 18446744073709551616 = 0 := by omega
  have h := redAdd5_spec R Q hz
  refine ⟨_, h, ?_, ?_⟩ <;> omega

/-- later rounds: T := (T + row + q·p) / 2^64 with q = (T + row)[0] -/
theorem step_abs {s0 s1 s2 s3 s4 s5 q0 q1 q2 q3 q4 vt a B : Nat}
    (A : L6 [s0, s1, s2, s3, s4, s5] (vt + a * B)) (Q : L5 [q0, q1, q2, q3, q4] (s0 * 115792089210356248756420345214020892766250353991924191454421193933289684991999))
    (hvt : vt < 2 * 115792089210356248756420345214020892766250353991924191454421193933289684991999) (ha : a < 18446744073709551616) (hB : B < 115792089210356248756420345214020892766250353991924191454421193933289684991999) :
    ∃ v, L5 (redAdd6 s0 s1 s2 s3 s4 s5 q0 q1 q2 q3 q4) v ∧ v < 2 * 115792089210356248756420345214020892766250353991924191454421193933289684991999 ∧
      v * 18446744073709551616 = vt + a * B + s0 * 115792089210356248756420345214020892766250353991924191454421193933289684991999 := by
  have hq := A.head_eq
  have hab : a * B ≤ 18446744073709551615 * B := Nat.mul_le_mul_right B (by omega)
  generalize a * B = S at *
  have hz : (vt + S + s0 * 115792089210356248756420345214020892766250353991924191454421193933289684991999) % 18446744073709551616 = 0 := by omega
  have hlt : vt + S + s0 * 115792089210356248756420345214020892766250353991924191454421193933289684991999 < 39402006196394479212279040100143613805079739270465446667948293404245721771497210611414266254884915640806627990306816 := by omega
  have h := redAdd6_spec A Q hz hlt
  refine ⟨_, h, ?_, ?_⟩ <;> omega

set_option maxRecDepth 100000 in
theorem mul_core {a0 a1 a2 a3 b0 b1 b2 b3 : Nat}
    (ha0 : a0 < 18446744073709551616) (ha1 : a1 < 18446744073709551616) (ha2 : a2 < 18446744073709551616) (ha3 : a3 < 18446744073709551616)
    (hb0 : b0 < 18446744073709551616) (hb1 : b1 < 18446744073709551616) (hb2 : b2 < 18446744073709551616) (hb3 : b3 < 18446744073709551616)
    (hB : v4 b0 b1 b2 b3 < 115792089210356248756420345214020892766250353991924191454421193933289684991999) :
    ∃ t0 t1 t2 t3 t4 v k, Gen.FiatP.sm2Mul [a0, a1, a2, a3] [b0, b1, b2, b3]
        = condSub 0xffffffffffffffff 0xffffffff00000000 0xffffffffffffffff 0xfffffffeffffffff t0 t1 t2 t3 t4 ∧
      L5 [t0, t1, t2, t3, t4] v ∧ v < 2 * 115792089210356248756420345214020892766250353991924191454421193933289684991999 ∧
      v * 115792089237316195423570985008687907853269984665640564039457584007913129639936 = v4 a0 a1 a2 a3 * v4 b0 b1 b2 b3 + k * 115792089210356248756420345214020892766250353991924191454421193933289684991999 := by
  unfold Gen.FiatP.sm2Mul
  extract_lets -merge x1 x2 x3 x4 x6 x5 x8 x7 x10 x9 x12 x11 x13 x14 x15 x16 x17 x18 x19 x21 x20 x23 x22 x25 x24 x27 x26 x28 x29 x30 x31 x32 x33 x34 x36 x37 x38 x39 x40 x41 x42 x43 x44 x46 x45 x48 x47 x50 x49 x52 x51 x53 x54 x55 x56 x57 x58 x59 x60 x61 x62 x63 x64 x65 x66 x67 x68 x69 x71 x70 x73 x72 x75 x74 x77 x76 x78 x79 x80 x81 x82 x83 x84 x86 x87 x88 x89 x90 x91 x92 x93 x94 x95 x97 x96 x99 x98 x101 x100 x103 x102 x104 x105 x106 x107 x108 x109 x110 x111 x112 x113 x114 x115 x116 x117 x118 x119 x120 x122 x121 x124 x123 x126 x125 x128 x127 x129 x130 x131 x132 x133 x134 x135 x137 x138 x139 x140 x141 x142 x143 x144 x145 x146 x148 x147 x150 x149 x152 x151 x154 x153 x155 x156 x157 x158 x159 x160 x161 x162 x163 x164 x165 x166 x167 x168 x169 x170 x171 x173 x172 x175 x174 x177 x176 x179 x178 x180 x181 x182 x183 x184 x185 x186 x188 x189 x190 x191 x192 x193 x194 x195 x196 x197 x198 x199 x200 x201 x202 x203 x204 x205 x207 x208 x209 x210 x211
  have R0 : L5 [x11, x13, x15, x17, x19] (a0 * v4 b0 b1 b2 b3) := mulRow_spec ha0 hb0 hb1 hb2 hb3
  have Q0 : L5 [x26, x28, x30, x32, x34] (x11 * 115792089210356248756420345214020892766250353991924191454421193933289684991999) := pRow_spec R0.head_lt
  obtain ⟨v1, T1, hv1, e1⟩ := step0_abs R0 Q0 ha0 hB
  have T1' : L5 [x37, x39, x41, x43, x44] v1 := T1
  have R1 : L5 [x51, x53, x55, x57, x59] (a1 * v4 b0 b1 b2 b3) := mulRow_spec ha1 hb0 hb1 hb2 hb3
  have A1 : L6 [x60, x62, x64, x66, x68, x69] (v1 + a1 * v4 b0 b1 b2 b3) := addRow_spec T1' R1
  have Q1 : L5 [x76, x78, x80, x82, x84] (x60 * 115792089210356248756420345214020892766250353991924191454421193933289684991999) := pRow_spec A1.head_lt
  obtain ⟨v2, T2, hv2, e2⟩ := step_abs A1 Q1 hv1 ha1 hB
  have T2' : L5 [x87, x89, x91, x93, x95] v2 := T2
  have R2 : L5 [x102, x104, x106, x108, x110] (a2 * v4 b0 b1 b2 b3) := mulRow_spec ha2 hb0 hb1 hb2 hb3
  have A2 : L6 [x111, x113, x115, x117, x119, x120] (v2 + a2 * v4 b0 b1 b2 b3) := addRow_spec T2' R2
  have Q2 : L5 [x127, x129, x131, x133, x135] (x111 * 115792089210356248756420345214020892766250353991924191454421193933289684991999) := pRow_spec A2.head_lt
  obtain ⟨v3, T3, hv3, e3⟩ := step_abs A2 Q2 hv2 ha2 hB
  have T3' : L5 [x138, x140, x142, x144, x146] v3 := T3
  have R3 : L5 [x153, x155, x157, x159, x161] (a3 * v4 b0 b1 b2 b3) := mulRow_spec ha3 hb0 hb1 hb2 hb3
  have A3 : L6 [x162, x164, x166, x168, x170, x171] (v3 + a3 * v4 b0 b1 b2 b3) := addRow_spec T3' R3
  have Q3 : L5 [x178, x180, x182, x184, x186] (x162 * 115792089210356248756420345214020892766250353991924191454421193933289684991999) := pRow_spec A3.head_lt
  obtain ⟨v4', T4, hv4, e4⟩ := step_abs A3 Q3 hv3 ha3 hB
  have T4' : L5 [x189, x191, x193, x195, x197] v4' := T4
  exact ⟨x189, x191, x193, x195, x197, v4', _, rfl, T4', hv4, mont_compose e1 e2 e3 e4⟩


theorem pow256 : (2 : Nat) ^ 256 = 115792089237316195423570985008687907853269984665640564039457584007913129639936 := by decide

/-- **Montgomery multiplication mod p** -/
theorem mul_spec (a b : List Nat) (ha : Canon Spec.SM2.p a) (hb : Canon Spec.SM2.p b) :
    Canon Spec.SM2.p (Gen.FiatP.sm2Mul a b) ∧
      (eval (Gen.FiatP.sm2Mul a b) * 2 ^ 256) % Spec.SM2.p = (eval a * eval b) % Spec.SM2.p := by
  obtain ⟨a0, a1, a2, a3, rfl, ha0, ha1, ha2, ha3, hA⟩ := canon_cases ha
  obtain ⟨b0, b1, b2, b3, rfl, hb0, hb1, hb2, hb3, hB⟩ := canon_cases hb
  obtain ⟨t0, t1, t2, t3, t4, v, k, hmul, hT, hv, hk⟩ :=
    mul_core ha0 ha1 ha2 ha3 hb0 hb1 hb2 hb3 (a0 := a0) (a1 := a1) (a2 := a2) (a3 := a3) hB
  have hc := condSub_spec (m0 := 0xffffffffffffffff) (m1 := 0xffffffff00000000) (m2 := 0xffffffffffffffff)
    (m3 := 0xfffffffeffffffff) (by decide) (by decide) (by decide) (by decide) hT hv
  rw [← hmul, ← p_eq] at hc
  refine ⟨hc.1, ?_⟩
  rw [pow256, eval_four, eval_four]
  exact mont_residue hk hc.2

/-! ### squaring: the reused products -/

theorem sqRow1_spec {a0 a1 a2 a3 : Nat} (h0 : a0 < 18446744073709551616) (h1 : a1 < 18446744073709551616) (h2 : a2 < 18446744073709551616) (h3 : a3 < 18446744073709551616) :
    L5 (rowOf (mul64hi a0 a1) (mul64lo a0 a1) (mul64hi a1 a1) (mul64lo a1 a1)
          (mul64hi a1 a2) (mul64lo a1 a2) (mul64hi a1 a3) (mul64lo a1 a3)) (a1 * v4 a0 a1 a2 a3) := by
  have h := mulRow_spec h1 h0 h1 h2 h3
  rw [mulRow, mul64hi_comm a1 a0, mul64lo_comm a1 a0] at h
  exact h

theorem sqRow2_spec {a0 a1 a2 a3 : Nat} (h0 : a0 < 18446744073709551616) (h1 : a1 < 18446744073709551616) (h2 : a2 < 18446744073709551616) (h3 : a3 < 18446744073709551616) :
    L5 (rowOf (mul64hi a0 a2) (mul64lo a0 a2) (mul64hi a1 a2) (mul64lo a1 a2)
          (mul64hi a2 a2) (mul64lo a2 a2) (mul64hi a2 a3) (mul64lo a2 a3)) (a2 * v4 a0 a1 a2 a3) := by
  have h := mulRow_spec h2 h0 h1 h2 h3
  rw [mulRow, mul64hi_comm a2 a0, mul64lo_comm a2 a0, mul64hi_comm a2 a1, mul64lo_comm a2 a1] at h
  exact h

theorem sqRow3_spec {a0 a1 a2 a3 : Nat} (h0 : a0 < 18446744073709551616) (h1 : a1 < 18446744073709551616) (h2 : a2 < 18446744073709551616) (h3 : a3 < 18446744073709551616) :
    L5 (rowOf (mul64hi a0 a3) (mul64lo a0 a3) (mul64hi a1 a3) (mul64lo a1 a3)
          (mul64hi a2 a3) (mul64lo a2 a3) (mul64hi a3 a3) (mul64lo a3 a3)) (a3 * v4 a0 a1 a2 a3) := by
  have h := mulRow_spec h3 h0 h1 h2 h3
  rw [mulRow, mul64hi_comm a3 a0, mul64lo_comm a3 a0, mul64hi_comm a3 a1, mul64lo_comm a3 a1,
    mul64hi_comm a3 a2, mul64lo_comm a3 a2] at h
  exact h

set_option maxRecDepth 100000 in
theorem square_core {a0 a1 a2 a3 : Nat}
    (ha0 : a0 < 18446744073709551616) (ha1 : a1 < 18446744073709551616) (ha2 : a2 < 18446744073709551616) (ha3 : a3 < 18446744073709551616)
    (hB : v4 a0 a1 a2 a3 < 115792089210356248756420345214020892766250353991924191454421193933289684991999) :
    ∃ t0 t1 t2 t3 t4 v k, Gen.FiatP.sm2Square [a0, a1, a2, a3]
        = condSub 0xffffffffffffffff 0xffffffff00000000 0xffffffffffffffff 0xfffffffeffffffff t0 t1 t2 t3 t4 ∧
      L5 [t0, t1, t2, t3, t4] v ∧ v < 2 * 115792089210356248756420345214020892766250353991924191454421193933289684991999 ∧
      v * 115792089237316195423570985008687907853269984665640564039457584007913129639936 = v4 a0 a1 a2 a3 * v4 a0 a1 a2 a3 + k * 115792089210356248756420345214020892766250353991924191454421193933289684991999 := by
  unfold Gen.FiatP.sm2Square
  extract_lets -merge x1 x2 x3 x4 x6 x5 x8 x7 x10 x9 x12 x11 x13 x14 x15 x16 x17 x18 x19 x21 x20 x23 x22 x25 x24 x27 x26 x28 x29 x30 x31 x32 x33 x34 x36 x37 x38 x39 x40 x41 x42 x43 x44 x46 x45 x48 x47 x50 x49 x52 x51 x53 x54 x55 x56 x57 x58 x59 x60 x61 x62 x63 x64 x65 x66 x67 x68 x69 x71 x70 x73 x72 x75 x74 x77 x76 x78 x79 x80 x81 x82 x83 x84 x86 x87 x88 x89 x90 x91 x92 x93 x94 x95 x97 x96 x99 x98 x101 x100 x103 x102 x104 x105 x106 x107 x108 x109 x110 x111 x112 x113 x114 x115 x116 x117 x118 x119 x120 x122 x121 x124 x123 x126 x125 x128 x127 x129 x130 x131 x132 x133 x134 x135 x137 x138 x139 x140 x141 x142 x143 x144 x145 x146 x148 x147 x150 x149 x152 x151 x154 x153 x155 x156 x157 x158 x159 x160 x161 x162 x163 x164 x165 x166 x167 x168 x169 x170 x171 x173 x172 x175 x174 x177 x176 x179 x178 x180 x181 x182 x183 x184 x185 x186 x188 x189 x190 x191 x192 x193 x194 x195 x196 x197 x198 x199 x200 x201 x202 x203 x204 x205 x207 x208 x209 x210 x211
  have R0 : L5 [x11, x13, x15, x17, x19] (a0 * v4 a0 a1 a2 a3) := mulRow_spec ha0 ha0 ha1 ha2 ha3
  have Q0 : L5 [x26, x28, x30, x32, x34] (x11 * 115792089210356248756420345214020892766250353991924191454421193933289684991999) := pRow_spec R0.head_lt
  obtain ⟨v1, T1, hv1, e1⟩ := step0_abs R0 Q0 ha0 hB
  have T1' : L5 [x37, x39, x41, x43, x44] v1 := T1
  have R1 : L5 [x51, x53, x55, x57, x59] (a1 * v4 a0 a1 a2 a3) := sqRow1_spec ha0 ha1 ha2 ha3
  have A1 : L6 [x60, x62, x64, x66, x68, x69] (v1 + a1 * v4 a0 a1 a2 a3) := addRow_spec T1' R1
  have Q1 : L5 [x76, x78, x80, x82, x84] (x60 * 115792089210356248756420345214020892766250353991924191454421193933289684991999) := pRow_spec A1.head_lt
  obtain ⟨v2, T2, hv2, e2⟩ := step_abs A1 Q1 hv1 ha1 hB
  have T2' : L5 [x87, x89, x91, x93, x95] v2 := T2
  have R2 : L5 [x102, x104, x106, x108, x110] (a2 * v4 a0 a1 a2 a3) := sqRow2_spec ha0 ha1 ha2 ha3
  have A2 : L6 [x111, x113, x115, x117, x119, x120] (v2 + a2 * v4 a0 a1 a2 a3) := addRow_spec T2' R2
  have Q2 : L5 [x127, x129, x131, x133, x135] (x111 * 115792089210356248756420345214020892766250353991924191454421193933289684991999) := pRow_spec A2.head_lt
  obtain ⟨v3, T3, hv3, e3⟩ := step_abs A2 Q2 hv2 ha2 hB
  have T3' : L5 [x138, x140, x142, x144, x146] v3 := T3
  have R3 : L5 [x153, x155, x157, x159, x161] (a3 * v4 a0 a1 a2 a3) := sqRow3_spec ha0 ha1 ha2 ha3
  have A3 : L6 [x162, x164, x166, x168, x170, x171] (v3 + a3 * v4 a0 a1 a2 a3) := addRow_spec T3' R3
  have Q3 : L5 [x178, x180, x182, x184, x186] (x162 * 115792089210356248756420345214020892766250353991924191454421193933289684991999) := pRow_spec A3.head_lt
  obtain ⟨v4', T4, hv4, e4⟩ := step_abs A3 Q3 hv3 ha3 hB
  have T4' : L5 [x189, x191, x193, x195, x197] v4' := T4
  exact ⟨x189, x191, x193, x195, x197, v4', _, rfl, T4', hv4, mont_compose e1 e2 e3 e4⟩

/-- **Montgomery squaring mod p** (the hand-edited function) -/
theorem square_spec (a : List Nat) (ha : Canon Spec.SM2.p a) :
    Canon Spec.SM2.p (Gen.FiatP.sm2Square a) ∧
      (eval (Gen.FiatP.sm2Square a) * 2 ^ 256) % Spec.SM2.p = (eval a * eval a) % Spec.SM2.p := by
  obtain ⟨a0, a1, a2, a3, rfl, ha0, ha1, ha2, ha3, hA⟩ := canon_cases ha
  obtain ⟨t0, t1, t2, t3, t4, v, k, hmul, hT, hv, hk⟩ := square_core ha0 ha1 ha2 ha3 hA
  have hc := condSub_spec (m0 := 0xffffffffffffffff) (m1 := 0xffffffff00000000) (m2 := 0xffffffffffffffff)
    (m3 := 0xfffffffeffffffff) (by decide) (by decide) (by decide) (by decide) hT hv
  rw [← hmul, ← p_eq] at hc
  refine ⟨hc.1, ?_⟩
  rw [pow256, eval_four]
  exact mont_residue hk hc.2

end SMGo.Proofs.FiatMulP
