import SMGo.Proofs.ISAValSealModel2
set_option linter.unusedSimpArgs false
namespace SMGo.Proofs.ISAVal
open SMGo SMGo.Model.ISAVal SMGo.Model.GCM SMGo.Proofs.GCM SMGo.Spec.GCM SMGo.Proofs.ISATouch
open SMGo.Model.ISA (Reg Opd Instr)

theorem toB_zeros : toB (List.replicate 16 0) = List.replicate 16 0 := by decide

theorem hKey_eq (rk : List Nat) : hKey rk = loadR (encE rk (List.replicate 16 0)) := by
  unfold hKey
  rw [rb128_loadR _ (encB_length _ _) (encB_bytes _ _), toB_encB, toB_zeros]

/-- **what `sealAsm` leaves in the destination is `Model.GCM.seal`**, hence by C06 Algorithm 4 of SP 800-38D — for any pre-counter
    block `jb` that is the model's J0 -/
theorem sealOutJ_eq (rk jb nonce pt aad : List Nat) (t fuel : Nat) (hjb : jb.length = 16) (hjbb : ∀ x ∈ jb, x < 2 ^ 8)
    (hj : calculateJ0 (hPowers (encE rk (List.replicate 16 0))) (toB nonce) = blockToNat (toB jb))
    (hpb : ∀ x ∈ pt, x < 2 ^ 8) (hab : ∀ x ∈ aad, x < 2 ^ 8) (hfuel : fuelNeed pt.length ≤ fuel) :
    toB (sealOutJ rk jb pt aad t fuel) = Model.GCM.seal (encE rk) t (toB nonce) (toB pt) (toB aad) := by
  have hE := encE_length rk
  have hH := H_lt hE
  have hh := hPowers_h hE
  have hP := powOK_hPowers (hE (List.replicate 16 0))
  have hBl := hE (List.replicate 16 0)
  unfold sealOutJ Model.GCM.seal cryptoBlocks
  simp only []
  rw [hKey_eq]
  generalize encE rk (List.replicate 16 0) = hB at *
  have hy0 := ghUpdN_eq hB 0 aad hab
  have r1 := ghUpdate_rep gmulOK hH hh hP Rep_zero (toB aad)
  have r2 := cryptoBlocksAux_snd_true gmulOK hE hH hh hP ((toB pt).length / 16 + 1) (blockToNat (toB jb)) (toB pt) r1
    (by omega)
  have hl := ladN_eq rk jb hjb hjbb hB (pt.length / 16 + 1) 0 (ghUpdate (hPowers hB) 0 (toB aad)) pt hpb
  rw [show laneAdd (blockToNat (toB jb)) 0 = blockToNat (toB jb) from by
    rw [laneAdd_eq]; exact ctrAdd_zero _] at hl
  rw [hy0, ladN_fuel rk _ (loadR hB) 1 fuel (pt.length / 16 + 1) 0 _ pt hfuel (fuelNeed_le16 _), hj,
    natToBlock_blockToNat (by rw [toB_length]; exact hjb), toB_length, toB_length, toB_append, hl.1]
  congr 1
  rw [hl.2]
  rw [toB_length] at r2
  exact tagN_eq rk jb hB _ aad.length pt.length t r2.1 (loadR_lt hBl)

theorem j0_model12 (rk nonce : List Nat) (hn : nonce.length = 12) :
    calculateJ0 (hPowers (encE rk (List.replicate 16 0))) (toB nonce) = blockToNat (toB (nonce ++ [0, 0, 0, 1])) := by
  unfold calculateJ0
  rw [if_pos (by rw [toB_length]; exact hn), toB_append]
  rfl

/-- the 12-byte case -/
theorem sealOutN_eq (rk nonce pt aad : List Nat) (t fuel : Nat) (hn : nonce.length = 12) (hnb : ∀ x ∈ nonce, x < 2 ^ 8)
    (hpb : ∀ x ∈ pt, x < 2 ^ 8) (hab : ∀ x ∈ aad, x < 2 ^ 8) (hfuel : fuelNeed pt.length ≤ fuel) :
    toB (sealOutN rk nonce pt aad t fuel) = Model.GCM.seal (encE rk) t (toB nonce) (toB pt) (toB aad) := by
  have hjb : (nonce ++ [0, 0, 0, 1]).length = 16 := by simp [hn]
  have hjbb : ∀ x ∈ nonce ++ [0, 0, 0, 1], x < 2 ^ 8 := by
    intro x hx
    rw [List.mem_append] at hx
    rcases hx with h1 | h1
    · exact hnb x h1
    · simp only [List.mem_cons, List.not_mem_nil, or_false] at h1
      rcases h1 with rfl | rfl | rfl | rfl <;> decide
  exact sealOutJ_eq rk _ nonce pt aad t fuel hjb hjbb (j0_model12 rk nonce hn) hpb hab hfuel

end SMGo.Proofs.ISAVal
