import SMGo.Proofs.ISAValSealModel2
set_option linter.unusedSimpArgs false
namespace SMGo.Proofs.ISAVal
open SMGo SMGo.Model.ISAVal SMGo.Model.GCM SMGo.Proofs.GCM SMGo.Spec.GCM SMGo.Proofs.ISATouch
open SMGo.Model.ISA (Reg Opd Instr)

theorem toB_zeros : toB (List.replicate 16 0) = List.replicate 16 0 := by decide

theorem hKey_eq (rk : List Nat) : hKey rk = loadR (encE rk (List.replicate 16 0)) := by
  unfold hKey
  rw [rb128_loadR _ (encB_length _ _) (encB_bytes _ _), toB_encB, toB_zeros]

/-- **what `sealAsm` leaves in the destination (12-byte nonce) is `Model.GCM.seal`**, hence by C06 Algorithm 4 of SP 800-38D -/
theorem sealOutN_eq (rk nonce pt aad : List Nat) (t fuel : Nat) (hn : nonce.length = 12) (hnb : ∀ x ∈ nonce, x < 2 ^ 8)
    (hpb : ∀ x ∈ pt, x < 2 ^ 8) (hab : ∀ x ∈ aad, x < 2 ^ 8) (hfuel : fuelNeed pt.length ≤ fuel) :
    toB (sealOutN rk nonce pt aad t fuel) = Model.GCM.seal (encE rk) t (toB nonce) (toB pt) (toB aad) := by
  have hE := encE_length rk
  have hjb : (nonce ++ [0, 0, 0, 1]).length = 16 := by simp [hn]
  have hjbb : ∀ x ∈ nonce ++ [0, 0, 0, 1], x < 2 ^ 8 := by
    intro x hx
    rw [List.mem_append] at hx
    rcases hx with h1 | h1
    · exact hnb x h1
    · simp only [List.mem_cons, List.not_mem_nil, or_false] at h1
      rcases h1 with rfl | rfl | rfl | rfl <;> decide
  have hH := H_lt hE
  have hh := hPowers_h hE
  have hP := powOK_hPowers (hE (List.replicate 16 0))
  have hBl := hE (List.replicate 16 0)
  unfold sealOutN Model.GCM.seal cryptoBlocks
  simp only []
  rw [hKey_eq]
  generalize encE rk (List.replicate 16 0) = hB at *
  have hj0 : calculateJ0 (hPowers hB) (toB nonce) = blockToNat (toB (nonce ++ [0, 0, 0, 1])) := by
    unfold calculateJ0
    rw [if_pos (by rw [toB_length]; exact hn), toB_append]
    rfl
  have hy0 := ghUpdN_eq hB 0 aad hab
  have r1 := ghUpdate_rep gmulOK hH hh hP Rep_zero (toB aad)
  have r2 := cryptoBlocksAux_snd_true gmulOK hE hH hh hP ((toB pt).length / 16 + 1) (blockToNat (toB (nonce ++ [0, 0, 0, 1]))) (toB pt) r1
    (by omega)
  have hl := ladN_eq rk (nonce ++ [0, 0, 0, 1]) hjb hjbb hB (pt.length / 16 + 1) 0 (ghUpdate (hPowers hB) 0 (toB aad)) pt hpb
  rw [show laneAdd (blockToNat (toB (nonce ++ [0, 0, 0, 1]))) 0 = blockToNat (toB (nonce ++ [0, 0, 0, 1])) from by
    rw [laneAdd_eq]; exact ctrAdd_zero _] at hl
  rw [hy0, ladN_fuel rk _ (loadR hB) 1 fuel (pt.length / 16 + 1) 0 _ pt hfuel (fuelNeed_le16 _), hj0,
    natToBlock_blockToNat (by rw [toB_length]; exact hjb), toB_length, toB_length, toB_append, hl.1]
  congr 1
  rw [hl.2]
  rw [toB_length] at r2
  exact tagN_eq rk (nonce ++ [0, 0, 0, 1]) hB _ aad.length pt.length t r2.1 (loadR_lt hBl)

end SMGo.Proofs.ISAVal
