/-
  Byte-string / number conversions for the GCM proofs (properties C06, C07): big-endian blocks
  (`blockToNat`, `natToBlock`, `be64`), the byte-wise bit reversal `rev8` of the assembly's
  `reverseBits`, and the reflected register load/store of the model (`loadR`, `storeR`) as the
  128-bit reversal `rev128` of the big-endian block value.  Core Lean only.
-/
import SMGo.Proofs.GCMBits
import SMGo.Proofs.GCMSpec
namespace SMGo.Proofs.GCM
open SMGo SMGo.Model.GCM SMGo.Spec.GCM

/-! ### big-endian value of a byte string -/

theorem pow256 (n : Nat) : (256 : Nat) ^ n = 2 ^ (8 * n) := by
  rw [Nat.pow_mul]

theorem toNatBE_foldl_init (xs : Bytes) (acc : Nat) :
    xs.foldl (fun acc b => acc * 256 + b.toNat) acc
      = acc * 256 ^ xs.length + xs.foldl (fun acc b => acc * 256 + b.toNat) 0 := by
  induction xs generalizing acc with
  | nil => simp
  | cons a xs ih =>
    simp only [List.foldl_cons, List.length_cons]
    rw [ih (acc * 256 + a.toNat), ih (0 * 256 + a.toNat)]
    rw [Nat.pow_succ, Nat.add_mul, Nat.zero_mul, Nat.zero_add, Nat.mul_assoc,
      Nat.mul_comm (256 ^ xs.length) 256, Nat.add_assoc]

theorem toNatBE_nil : Bytes.toNatBE [] = 0 := rfl

theorem toNatBE_cons (a : UInt8) (xs : Bytes) :
    Bytes.toNatBE (a :: xs) = a.toNat * 256 ^ xs.length + Bytes.toNatBE xs := by
  simp only [Bytes.toNatBE, List.foldl_cons]
  rw [toNatBE_foldl_init]; simp

theorem toNatBE_append (a b : Bytes) :
    Bytes.toNatBE (a ++ b) = Bytes.toNatBE a * 256 ^ b.length + Bytes.toNatBE b := by
  simp only [Bytes.toNatBE, List.foldl_append]
  rw [toNatBE_foldl_init]

theorem toNatBE_lt (b : Bytes) : Bytes.toNatBE b < 256 ^ b.length := by
  induction b with
  | nil => simp [Bytes.toNatBE]
  | cons a xs ih =>
    rw [toNatBE_cons, List.length_cons, Nat.pow_succ]
    have := UInt8.toNat_lt a
    have h : a.toNat * 256 ^ xs.length + 256 ^ xs.length ≤ 256 * 256 ^ xs.length := by
      rw [← Nat.succ_mul]; exact Nat.mul_le_mul_right _ (by omega)
    rw [Nat.mul_comm (256 ^ xs.length) 256]
    omega

/-! ### fixed-length big-endian encoding -/

theorem ofNatBE_length (len n : Nat) : (Bytes.ofNatBE len n).length = len := by
  simp [Bytes.ofNatBE]


theorem be64_length (n : Nat) : (be64 n).length = 8 := ofNatBE_length 8 n

theorem ofNatBE_succ (len v : Nat) :
    Bytes.ofNatBE (len + 1) v = UInt8.ofNat (v / 256 ^ len % 256) :: Bytes.ofNatBE len v := by
  simp only [Bytes.ofNatBE, List.range_succ_eq_map, List.map_cons, List.map_map]
  congr 1
  apply List.map_congr_left
  intro i _
  simp only [Function.comp]
  have : len + 1 - 1 - (i + 1) = len - 1 - i := by omega
  rw [this]

theorem toNatBE_ofNatBE_mod (len v : Nat) :
    Bytes.toNatBE (Bytes.ofNatBE len v) = v % 256 ^ len := by
  induction len with
  | zero => simp [Bytes.ofNatBE, Bytes.toNatBE, Nat.mod_one]
  | succ len ih =>
    have hb : (UInt8.ofNat (v / 256 ^ len % 256)).toNat = v / 256 ^ len % 256 := by
      rw [UInt8.toNat_ofNat']; omega
    rw [ofNatBE_succ, toNatBE_cons, ofNatBE_length, ih, hb,
      Nat.mod_pow_succ (x := v) (b := 256) (k := len), Nat.mul_comm, Nat.add_comm]

theorem toNatBE_ofNatBE {len n : Nat} (h : n < 256 ^ len) :
    Bytes.toNatBE (Bytes.ofNatBE len n) = n := by
  rw [toNatBE_ofNatBE_mod, Nat.mod_eq_of_lt h]

/-- equal-length byte strings with the same big-endian value are equal -/
theorem toNatBE_inj {x y : Bytes} (hl : x.length = y.length)
    (hv : Bytes.toNatBE x = Bytes.toNatBE y) : x = y := by
  induction x generalizing y with
  | nil =>
    cases y with
    | nil => rfl
    | cons b ys => simp at hl
  | cons a xs ih =>
    cases y with
    | nil => simp at hl
    | cons b ys =>
      simp only [List.length_cons, Nat.add_right_cancel_iff] at hl
      rw [toNatBE_cons, toNatBE_cons, ← hl] at hv
      have hx := toNatBE_lt xs
      have hy := toNatBE_lt ys
      rw [← hl] at hy
      have hp : 0 < 256 ^ xs.length := Nat.pow_pos (by decide)
      have hd : (a.toNat * 256 ^ xs.length + Bytes.toNatBE xs) / 256 ^ xs.length
          = (b.toNat * 256 ^ xs.length + Bytes.toNatBE ys) / 256 ^ xs.length := by rw [hv]
      have hm : (a.toNat * 256 ^ xs.length + Bytes.toNatBE xs) % 256 ^ xs.length
          = (b.toNat * 256 ^ xs.length + Bytes.toNatBE ys) % 256 ^ xs.length := by rw [hv]
      rw [Nat.add_comm, Nat.add_mul_div_right _ _ hp, Nat.div_eq_of_lt hx,
        Nat.add_comm (b.toNat * _), Nat.add_mul_div_right _ _ hp, Nat.div_eq_of_lt hy,
        Nat.zero_add, Nat.zero_add] at hd
      rw [Nat.add_comm, Nat.add_mul_mod_self_right, Nat.mod_eq_of_lt hx,
        Nat.add_comm (b.toNat * _), Nat.add_mul_mod_self_right, Nat.mod_eq_of_lt hy] at hm
      rw [UInt8.toNat_inj.mp hd, ih hl hm]

theorem ofNatBE_toNatBE (b : Bytes) : Bytes.ofNatBE b.length (Bytes.toNatBE b) = b := by
  apply toNatBE_inj
  · rw [ofNatBE_length]
  · exact toNatBE_ofNatBE (toNatBE_lt b)

/-! ### 16-byte blocks -/

theorem pow256_16 : (256 : Nat) ^ 16 = 2 ^ 128 := by decide

theorem blockToNat_lt {b : Bytes} (h : b.length = 16) : blockToNat b < 2 ^ 128 := by
  have := toNatBE_lt b
  rw [h, pow256_16] at this
  exact this

theorem blockToNat_natToBlock {n : Nat} (h : n < 2 ^ 128) : blockToNat (natToBlock n) = n := by
  unfold blockToNat natToBlock
  exact toNatBE_ofNatBE (by rw [pow256_16]; exact h)

theorem natToBlock_blockToNat {b : Bytes} (h : b.length = 16) : natToBlock (blockToNat b) = b := by
  unfold blockToNat natToBlock
  rw [← h]
  exact ofNatBE_toNatBE b

/-! ### bit reversal of one byte -/

theorem rev8_ofNat : ∀ n, n < 256 → (rev8 (UInt8.ofNat n)).toNat = revBits 8 n := by
  decide +kernel

theorem rev8_eq (b : UInt8) : (rev8 b).toNat = revBits 8 b.toNat := by
  have := rev8_ofNat b.toNat (UInt8.toNat_lt b)
  rw [UInt8.ofNat_toNat] at this
  exact this

theorem rev8_rev8 (b : UInt8) : rev8 (rev8 b) = b := by
  apply UInt8.toNat_inj.mp
  rw [rev8_eq, rev8_eq]
  exact revBits_revBits (UInt8.toNat_lt b)

/-! ### reversal of a concatenation -/

/-- reversing `hi ‖ lo` (with `lo` of `n` bits, `hi` of `m` bits) gives `rev lo ‖ rev hi` -/
theorem revBits_split (n m hi lo : Nat) (hlo : lo < 2 ^ n) :
    revBits (n + m) (hi * 2 ^ n + lo) = revBits n lo * 2 ^ m + revBits m hi := by
  apply Nat.eq_of_testBit_eq
  intro k
  rw [Nat.mul_comm (revBits n lo), Nat.testBit_two_pow_mul_add _ (revBits_lt m hi),
    testBit_revBits, Nat.mul_comm hi, Nat.testBit_two_pow_mul_add _ hlo]
  by_cases hk : k < m
  · have h1 : ¬ (n + m - 1 - k < n) := by omega
    have h2 : n + m - 1 - k - n = m - 1 - k := by omega
    have h3 : k < n + m := by omega
    simp [hk, h1, h2, h3, testBit_revBits]
  · by_cases hk2 : k < n + m
    · have h1 : n + m - 1 - k < n := by omega
      have h2 : n - 1 - (k - m) = n + m - 1 - k := by omega
      have h3 : k - m < n := by omega
      simp [hk, hk2, h1, h2, h3, testBit_revBits]
    · have h3 : ¬ (k - m < n) := by omega
      simp [hk, hk2, h3, testBit_revBits]

/-- a little-endian load of byte-reversed bytes is the full reversal of the big-endian value -/
theorem toNatLE_map_rev8 (bs : Bytes) :
    toNatLE (bs.map rev8) = revBits (8 * bs.length) (Bytes.toNatBE bs) := by
  induction bs with
  | nil => simp [toNatLE, revBits]
  | cons a xs ih =>
    have hlo : Bytes.toNatBE xs < 2 ^ (8 * xs.length) := by
      rw [← pow256]; exact toNatBE_lt xs
    rw [List.map_cons, toNatLE, ih, rev8_eq, toNatBE_cons, List.length_cons, Nat.mul_add,
      Nat.mul_one, pow256, revBits_split _ _ _ _ hlo]
    omega

theorem loadR_eq {b : Bytes} (h : b.length = 16) : loadR b = rev128 (blockToNat b) := by
  unfold loadR blockToNat rev128
  rw [toNatLE_map_rev8, h]

theorem loadR_lt {b : Bytes} (h : b.length = 16) : loadR b < 2 ^ 128 := by
  rw [loadR_eq h]
  exact revBits_lt 128 _

/-! ### the store -/

/-- byte `i` (little-endian) of `v`, reversed, is byte `n-1-i` (little-endian) of the reversal -/
theorem revBits_byte (n i v : Nat) (hi : i < n) :
    revBits 8 (v / 256 ^ i % 256) = revBits (8 * n) v / 256 ^ (n - 1 - i) % 256 := by
  apply Nat.eq_of_testBit_eq
  intro k
  have e256 : (256 : Nat) = 2 ^ 8 := by decide
  rw [pow256, pow256]
  conv => lhs; rw [e256]
  conv => rhs; rw [e256]
  rw [testBit_revBits, Nat.testBit_mod_two_pow, Nat.testBit_mod_two_pow, Nat.testBit_div_two_pow,
    Nat.testBit_div_two_pow, testBit_revBits]
  by_cases hk : k < 8
  · have h1 : 8 - 1 - k < 8 := by omega
    have h2 : k + 8 * (n - 1 - i) < 8 * n := by omega
    have h3 : 8 * n - 1 - (k + 8 * (n - 1 - i)) = 8 - 1 - k + 8 * i := by omega
    simp [hk, h1, h2, h3]
  · simp [hk]

theorem storeR_eq_natToBlock (v : Nat) : storeR v = natToBlock (rev128 v) := by
  unfold storeR natToBlock Bytes.ofNatBE rev128
  apply List.map_congr_left
  intro i hi
  rw [List.mem_range] at hi
  apply UInt8.toNat_inj.mp
  rw [rev8_eq, UInt8.toNat_ofNat', UInt8.toNat_ofNat']
  have e : (2 : Nat) ^ 8 = 256 := by decide
  rw [e, Nat.mod_mod, Nat.mod_mod]
  exact revBits_byte 16 i v hi

theorem storeR_eq {v : Nat} (_h : v < 2 ^ 128) : storeR v = natToBlock (rev128 v) :=
  storeR_eq_natToBlock v

theorem storeR_length (v : Nat) : (storeR v).length = 16 := by
  simp [storeR]

theorem blockToNat_storeR {v : Nat} (h : v < 2 ^ 128) : blockToNat (storeR v) = rev128 v := by
  rw [storeR_eq h]
  exact blockToNat_natToBlock (revBits_lt 128 v)

theorem loadR_storeR {v : Nat} (h : v < 2 ^ 128) : loadR (storeR v) = v := by
  rw [loadR_eq (storeR_length v), blockToNat_storeR h]
  exact revBits_revBits h

theorem storeR_loadR {b : Bytes} (h : b.length = 16) : storeR (loadR b) = b := by
  rw [storeR_eq (loadR_lt h), loadR_eq h]
  show natToBlock (revBits 128 (revBits 128 (blockToNat b))) = b
  rw [revBits_revBits (blockToNat_lt h), natToBlock_blockToNat h]

#print axioms loadR_eq
#print axioms storeR_eq

end SMGo.Proofs.GCM
