/-
  Repeating a Seal/Open call on the same buffers (inputs that do not meet dst's spare capacity)
  gives the same answer: the first call changes nothing the second one reads.
  Core Lean only.
-/
import SMGo.Proofs.GCMGlueContract
namespace SMGo.Proofs.GCMGlue
open SMGo SMGo.Model SMGo.Model.Mem SMGo.Model.GCMGlue SMGo.Proofs.Slice

theorem seal_repeat (g : GcmAsm) (hl : AsmLens g) (ht : 0 < g.tagSize)
    (h : Heap) (dst nonce pt aad : Slice)
    (hwf : WF h dst) (hwn : WF h nonce) (hwp : WF h pt) (hwa : WF h aad)
    (hn : nonce.len = g.nonceSize) (hp : pt.len ≤ maxPlain)
    (hdn : Disjoint dst nonce) (hdp : Disjoint dst pt) (hda : Disjoint dst aad)
    (h' : Heap) (ret : Slice) (h1 : GCMGlue.seal g h dst nonce pt aad = .ok (h', ret)) :
    ∃ h'' ret', GCMGlue.seal g h' dst nonce pt aad = .ok (h'', ret') ∧
      Mem.read h'' ret' = Mem.read h' ret ∧
      (Shares ret' dst ↔ Shares ret dst) ∧
      (pt.len + g.tagSize ≤ dst.cap - dst.len → ret' = ret) := by
  obtain ⟨h0, ret0, e0, _, hread, hshare, hreq, hun, hdis⟩ :=
    seal_contract g hl ht h dst nonce pt aad hwf hwn hwp hwa hn hp
  rw [h1] at e0
  injection e0 with e0
  injection e0 with e1 e2
  subst e1; subst e2
  have hwf' := WF_of_unchanged h h' _ hun dst hwf
  have hwn' := WF_of_unchanged h h' _ hun nonce hwn
  have hwp' := WF_of_unchanged h h' _ hun pt hwp
  have hwa' := WF_of_unchanged h h' _ hun aad hwa
  obtain ⟨h2, ret2, e2, _, hread2, hshare2, hreq2, _, _⟩ :=
    seal_contract g hl ht h' dst nonce pt aad hwf' hwn' hwp' hwa' hn hp
  refine ⟨h2, ret2, e2, ?_, ?_, ?_⟩
  · rw [hread2, hread]
    simp only [sealBytes, hdis nonce hwn hdn, hdis pt hwp hdp, hdis aad hwa hda,
      hdis dst hwf (disjoint_self dst)]
  · rw [hshare2, hshare]
  · intro hr; rw [hreq hr, hreq2 hr]

theorem open_repeat (g : GcmAsm) (hl : AsmLens g) (ht : gcmMinimumTagSize ≤ g.tagSize)
    (h : Heap) (dst nonce ct aad : Slice)
    (hwf : WF h dst) (hwn : WF h nonce) (hwc : WF h ct) (hwa : WF h aad)
    (hn : nonce.len = g.nonceSize)
    (hdn : Disjoint dst nonce) (hdc : Disjoint dst ct) (hda : Disjoint dst aad)
    (h' : Heap) (r : Option Slice) (h1 : GCMGlue.open g h dst nonce ct aad = .ok (h', r)) :
    ∃ h'' r', GCMGlue.open g h' dst nonce ct aad = .ok (h'', r') ∧
      r'.map (Mem.read h'') = r.map (Mem.read h') := by
  by_cases hok : g.tagSize ≤ ct.len ∧ ct.len ≤ maxPlain + g.tagSize ∧
      (openVal g h nonce ct aad).isSome
  · obtain ⟨hc1, hc2, hsome⟩ := hok
    obtain ⟨p, hv⟩ := Option.isSome_iff_exists.mp hsome
    obtain ⟨h0, ret0, e0, _, hread, _, _, hun, hdis⟩ :=
      open_contract_ok g hl ht h dst nonce ct aad hwf hwn hwc hwa hn hc1 hc2 p hv
    rw [h1] at e0
    injection e0 with e0
    injection e0 with e1 e2
    subst e1; subst e2
    have hwf' := WF_of_unchanged h h' _ hun dst hwf
    have hwn' := WF_of_unchanged h h' _ hun nonce hwn
    have hwc' := WF_of_unchanged h h' _ hun ct hwc
    have hwa' := WF_of_unchanged h h' _ hun aad hwa
    have hv' : openVal g h' nonce ct aad = some p := by
      rw [← hv]
      simp only [openVal, hdis nonce hwn hdn, hdis ct hwc hdc, hdis aad hwa hda]
    obtain ⟨h2, ret2, e2, _, hread2, _⟩ :=
      open_contract_ok g hl ht h' dst nonce ct aad hwf' hwn' hwc' hwa' hn hc1 hc2 p hv'
    refine ⟨h2, some ret2, e2, ?_⟩
    simp only [Option.map_some]
    rw [hread2, hread, hdis dst hwf (disjoint_self dst)]
  · have hv : ct.len < g.tagSize ∨ ct.len > maxPlain + g.tagSize ∨
        openVal g h nonce ct aad = none := by
      by_cases ha : ct.len < g.tagSize
      · exact Or.inl ha
      · by_cases hb : ct.len > maxPlain + g.tagSize
        · exact Or.inr (Or.inl hb)
        · right; right
          cases hov : openVal g h nonce ct aad with
          | none => rfl
          | some p => exact absurd ⟨by omega, by omega, by simp [hov]⟩ hok
    obtain ⟨h0, e0, _, hun, hrd⟩ := open_contract_err g ht h dst nonce ct aad hwf hwn hwc hwa hn hv
    rw [h1] at e0
    injection e0 with e0
    injection e0 with e1 e2
    subst e1; subst e2
    have hwf' := WF_of_unchanged h h' _ hun dst hwf
    have hwn' := WF_of_unchanged h h' _ hun nonce hwn
    have hwc' := WF_of_unchanged h h' _ hun ct hwc
    have hwa' := WF_of_unchanged h h' _ hun aad hwa
    have hv' : ct.len < g.tagSize ∨ ct.len > maxPlain + g.tagSize ∨
        openVal g h' nonce ct aad = none := by
      rcases hv with hv | hv | hv
      · exact Or.inl hv
      · exact Or.inr (Or.inl hv)
      · right; right
        rw [← hv]
        simp only [openVal, hrd nonce hwn, hrd ct hwc, hrd aad hwa]
    obtain ⟨h2, e2, _⟩ := open_contract_err g ht h' dst nonce ct aad hwf' hwn' hwc' hwa' hn hv'
    exact ⟨h2, none, e2, rfl⟩

end SMGo.Proofs.GCMGlue
