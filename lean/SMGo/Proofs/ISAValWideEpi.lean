import SMGo.Proofs.ISAValWidePro
namespace SMGo.Proofs.ISAVal
open SMGo.Model.ISAVal SMGo.Model.ISA

/-! ### list lemmas -/

theorem flatMap_range4 {α : Type} (g : Nat → List α) (m : Nat) :
    (List.range (4 * m)).flatMap g
      = (List.range m).flatMap (fun l => g (4 * l) ++ (g (4 * l + 1) ++ (g (4 * l + 2) ++ g (4 * l + 3)))) := by
  induction m with
  | zero => rfl
  | succ m ih =>
    rw [show 4 * (m + 1) = 4 * m + 1 + 1 + 1 + 1 from by omega]
    simp only [List.range_succ, List.flatMap_append, List.flatMap_cons, List.flatMap_nil, List.append_nil, ih,
      List.append_assoc]

theorem flatMap_range_add {α : Type} (g : Nat → List α) (a b : Nat) :
    (List.range (a + b)).flatMap g = (List.range a).flatMap g ++ (List.range b).flatMap (fun l => g (a + l)) := by
  rw [List.range_add, List.flatMap_append, List.flatMap_map]

theorem flatMap_range_congr {α : Type} (f g : Nat → List α) (n : Nat) (h : ∀ i, i < n → f i = g i) :
    (List.range n).flatMap f = (List.range n).flatMap g := by
  unfold List.flatMap
  rw [List.map_congr_left (fun i hi => h i (List.mem_range.mp hi))]

/-- the bytes of a vector, dword by dword -/
theorem lanes_dwords (m V : Nat) :
    lanes 8 (4 * m) V = (List.range m).flatMap (fun j => lanes 8 4 (lane 32 j V)) := by
  unfold lanes
  rw [show (List.range (4 * m)).map (fun i => lane 8 i V) = (List.range (4 * m)).flatMap (fun i => [lane 8 i V]) from by
    induction (List.range (4 * m)) with
    | nil => rfl
    | cons a t ih => simp only [List.map_cons, List.flatMap_cons, ih, List.cons_append, List.nil_append]]
  rw [flatMap_range4]
  apply flatMap_range_congr
  intro j _
  simp only [List.range_succ, List.range_zero, List.nil_append, List.map_cons, List.map_nil, List.cons_append,
    lane_lane' 32 8 4 0 j V (by decide) (by decide), lane_lane' 32 8 4 1 j V (by decide) (by decide),
    lane_lane' 32 8 4 2 j V (by decide) (by decide), lane_lane' 32 8 4 3 j V (by decide) (by decide), Nat.add_zero]

theorem lanes_bswap32 (w : Nat) : lanes 8 4 (bswap32 w) = beBytes w := by
  have hb : ∀ x ∈ [lane 8 3 w, lane 8 2 w, lane 8 1 w, lane 8 0 w], x < 2 ^ 8 := by
    intro x hx; simp only [List.mem_cons, List.not_mem_nil, or_false] at hx
    rcases hx with rfl | rfl | rfl | rfl <;> exact lane_lt _ _ _
  rw [lanes84]; unfold bswap32 beBytes
  rw [lane_unlanes 8 _ hb 0 (by simp), lane_unlanes 8 _ hb 1 (by simp), lane_unlanes 8 _ hb 2 (by simp),
    lane_unlanes 8 _ hb 3 (by simp)]
  rfl

/-- the 16 output bytes of a block whose state after the 32 rounds is `X` -/
def encQ (X : Nat × Nat × Nat × Nat) : List Nat := beBytes X.2.2.2 ++ (beBytes X.2.2.1 ++ (beBytes X.2.1 ++ beBytes X.1))

theorem splice (p r bs : List Nat) :
    (p ++ r).take p.length ++ bs ++ (p ++ r).drop (p.length + bs.length) = (p ++ bs) ++ r.drop bs.length := by
  rw [List.take_left' rfl, List.drop_append, List.drop_eq_nil_of_le (by omega), Nat.add_sub_cancel_left, List.nil_append]

theorem kmem_write_dst' (rk p r src bs : List Nat) (hbs : bs.length ≤ r.length) (hp : p.length < 2 ^ 32) :
    writeMem (kmem rk (p ++ r) src) (77309411328 + p.length) bs = .ok (kmem rk ((p ++ bs) ++ r.drop bs.length) src) := by
  rw [kmem_write_dst rk (p ++ r) src p.length bs (by rw [List.length_append]; omega) hp, splice]


/-- the bytes stored from one register after the back-transposition and `rev32` -/
theorem reg_out (vl n : Nat) (hn : vl = 16 * n) (V2 V1 : Nat) (Q : Nat → Nat × Nat × Nat × Nat)
    (hrev : ∀ j, j < vl / 4 → lane 32 j V2 = bswap32 (lane 32 j V1))
    (hq : ∀ l, l < n → lane 32 (4 * l) V1 = (Q l).2.2.2 ∧ lane 32 (4 * l + 1) V1 = (Q l).2.2.1 ∧
      lane 32 (4 * l + 2) V1 = (Q l).2.1 ∧ lane 32 (4 * l + 3) V1 = (Q l).1) :
    lanes 8 vl V2 = (List.range n).flatMap (fun l => encQ (Q l)) := by
  have e4 : vl = 4 * (4 * n) := by omega
  have e5 : vl / 4 = 4 * n := by omega
  rw [e5] at hrev
  rw [e4, lanes_dwords, flatMap_range_congr _ (fun j => beBytes (lane 32 j V1)) _ (fun j hj => by rw [hrev j hj, lanes_bswap32]),
    flatMap_range4]
  apply flatMap_range_congr
  intro l hl
  obtain ⟨q0, q1, q2, q3⟩ := hq l hl
  rw [q0, q1, q2, q3]; rfl

theorem store_step (vl a off : Nat) (disp : Int) (hvl : validVl vl = true) (s : State) (rk p r src : List Nat)
    (hG : s.gpr.length = 16) (hV : s.vec.length = 32) (ha : a < 32)
    (hmem : s.mem = kmem rk (p ++ r) src) (hg3 : greg s 3 = 77309411328) (hp : p.length = off) (hoff : off < 2 ^ 32)
    (hr : vl ≤ r.length) (hdisp : (77309411328 + 0 + imm64 disp) % 2 ^ 64 = 77309411328 + off) :
    execD s (ins .VMOVDQU32 [R a, M 3 disp] vl)
      = .ok (setMem s (kmem rk ((p ++ lanes 8 vl (vreg s a)) ++ r.drop vl) src)) := by
  apply a_vmov_store s vl a 3 disp _ hvl (by omega) (by omega)
  rw [hg3, hdisp, hmem, ← hp]
  have := kmem_write_dst' rk p r src (lanes 8 vl (vreg s a)) (by rw [lanes_length]; exact hr) (by omega)
  rw [lanes_length] at this
  exact this

theorem blockOf_r (vl l r : Nat) (hr : r < 4) : blockOf vl (4 * l + r) = vl / 16 * r + l := by
  unfold blockOf
  have e1 : (4 * l + r) % 4 = r := by omega
  have e2 : (4 * l + r) / 4 = l := by omega
  rw [e1, e2]

/-- **the epilogue of the wide kernels**: with the state of block `blockOf vl j` in dword lane `j` of the four state
    registers after the 32 rounds, the destination receives the output blocks in order -/
theorem wepi_spec (vl : Nat) (hvl : validVl vl = true) (rk dst0 src : List Nat) (Y : Nat → Nat × Nat × Nat × Nat)
    (s : State) (hdst : dst0.length = 4 * vl)
    (h : ReadyL vl (kmem rk dst0 src) symTab frameTab 73014444032 77309411328 (SHUFvl vl) 32 (fun j => Y (blockOf vl j)) s) :
    ∃ s', execList (wepiCode vl) s = .ok s' ∧
      s'.mem = kmem rk ((List.range (vl / 4)).flatMap (fun β => encQ (Y β))) src := by
  have hvl' : vl = 16 ∨ vl = 32 ∨ vl = 64 := by
    simpa only [validVl, Bool.or_eq_true, beq_iff_eq, or_assoc] using hvl
  obtain ⟨n, hn⟩ : ∃ n, vl = 16 * n := ⟨vl / 16, by omega⟩
  have hn16 : vl / 16 = n := by omega
  obtain ⟨s1, hrun1, f1, t1⟩ := transpose_spec vl 9 8 7 6 hvl (Or.inr ⟨rfl, rfl, rfl, rfl⟩) s h.lenV
  obtain ⟨s2, hrun2, f2, r2⟩ := rev4_spec vl hvl s1 f1.lenV (by rw [f1.v12, h.v12])
  have x0 := h.x0; have x1 := h.x1; have x2 := h.x2; have x3 := h.x3
  rw [show sreg 32 0 = 6 from rfl] at x0
  rw [show sreg 32 1 = 7 from rfl] at x1
  rw [show sreg 32 2 = 8 from rfl] at x2
  rw [show sreg 32 3 = 9 from rfl] at x3
  have hjl : ∀ l r, l < n → r < 4 → 4 * l + r < vl / 4 := by intro l r hl hr; omega
  -- the four stored vectors
  have o9 : lanes 8 vl (vreg s2 9) = (List.range n).flatMap (fun l => encQ (Y l)) := by
    apply reg_out vl n hn _ (vreg s1 9) _ (r2 9 (by simp)).2
    intro l hl
    have T := t1.tA l (by omega)
    simp only [Nat.add_zero] at T
    have b := blockOf_r vl l 0 (by decide); rw [hn16] at b; simp only [Nat.mul_zero, Nat.zero_add, Nat.add_zero] at b
    have hj := hjl l 0 hl (by decide); rw [Nat.add_zero] at hj
    rw [T.1, T.2.1, T.2.2.1, T.2.2.2, x3 _ hj, x2 _ hj, x1 _ hj, x0 _ hj, b]
    exact ⟨rfl, rfl, rfl, rfl⟩
  have o8 : lanes 8 vl (vreg s2 8) = (List.range n).flatMap (fun l => encQ (Y (n + l))) := by
    apply reg_out vl n hn _ (vreg s1 8) _ (r2 8 (by simp)).2
    intro l hl
    have T := t1.tB l (by omega)
    simp only [Nat.add_zero] at T
    have b := blockOf_r vl l 1 (by decide); rw [hn16, Nat.mul_one] at b
    have hj := hjl l 1 hl (by decide)
    rw [T.1, T.2.1, T.2.2.1, T.2.2.2, x3 _ hj, x2 _ hj, x1 _ hj, x0 _ hj, b]
    exact ⟨rfl, rfl, rfl, rfl⟩
  have o7 : lanes 8 vl (vreg s2 7) = (List.range n).flatMap (fun l => encQ (Y (n + n + l))) := by
    apply reg_out vl n hn _ (vreg s1 7) _ (r2 7 (by simp)).2
    intro l hl
    have T := t1.tC l (by omega)
    simp only [Nat.add_zero] at T
    have b := blockOf_r vl l 2 (by decide); rw [hn16, Nat.mul_two] at b
    have hj := hjl l 2 hl (by decide)
    rw [T.1, T.2.1, T.2.2.1, T.2.2.2, x3 _ hj, x2 _ hj, x1 _ hj, x0 _ hj, b]
    exact ⟨rfl, rfl, rfl, rfl⟩
  have o6 : lanes 8 vl (vreg s2 6) = (List.range n).flatMap (fun l => encQ (Y (n + n + n + l))) := by
    apply reg_out vl n hn _ (vreg s1 6) _ (r2 6 (by simp)).2
    intro l hl
    have T := t1.tD l (by omega)
    simp only [Nat.add_zero] at T
    have b := blockOf_r vl l 3 (by decide); rw [hn16, show n * 3 = n + n + n from by omega] at b
    have hj := hjl l 3 hl (by decide)
    rw [T.1, T.2.1, T.2.2.1, T.2.2.2, x3 _ hj, x2 _ hj, x1 _ hj, x0 _ hj, b]
    exact ⟨rfl, rfl, rfl, rfl⟩
  -- the four stores
  have hG2 : s2.gpr.length = 16 := by rw [f2.gpr, f1.gpr]; exact h.lenG
  have hg3 : greg s2 3 = 77309411328 := by rw [wframe_greg f2, wframe_greg f1, h.g3]
  have hmem2 : s2.mem = kmem rk ([] ++ dst0) src := by rw [f2.mem, f1.mem, h.hmem]; rfl
  have st1 := store_step vl 9 0 0 hvl s2 rk [] dst0 src hG2 f2.lenV (by decide) hmem2 hg3 rfl (by decide)
    (by omega) (by decide +kernel)
  have st2 := store_step vl 8 vl (vl : Nat) hvl (setMem s2 (kmem rk (([] ++ lanes 8 vl (vreg s2 9)) ++ dst0.drop vl) src)) rk ([] ++ lanes 8 vl (vreg s2 9)) (dst0.drop vl) src hG2 f2.lenV
    (by decide) rfl hg3 (by simp [lanes_length]) (by omega) (by rw [List.length_drop]; omega) (ea_lit _ _ (by omega))
  have st3 := store_step vl 7 (2 * vl) ((2 * vl : Nat)) hvl (setMem (setMem s2 (kmem rk (([] ++ lanes 8 vl (vreg s2 9)) ++ dst0.drop vl) src)) (kmem rk ((([] ++ lanes 8 vl (vreg s2 9)) ++ lanes 8 vl (vreg s2 8)) ++ (dst0.drop vl).drop vl) src)) rk
    (([] ++ lanes 8 vl (vreg s2 9)) ++ lanes 8 vl (vreg s2 8)) ((dst0.drop vl).drop vl) src hG2 f2.lenV (by decide) rfl hg3
    (by simp [lanes_length]; omega) (by omega) (by simp only [List.length_drop]; omega) (ea_lit _ _ (by omega))
  have st4 := store_step vl 6 (3 * vl) ((3 * vl : Nat)) hvl (setMem (setMem (setMem s2 (kmem rk (([] ++ lanes 8 vl (vreg s2 9)) ++ dst0.drop vl) src)) (kmem rk ((([] ++ lanes 8 vl (vreg s2 9)) ++ lanes 8 vl (vreg s2 8)) ++ (dst0.drop vl).drop vl) src)) (kmem rk (((([] ++ lanes 8 vl (vreg s2 9)) ++ lanes 8 vl (vreg s2 8)) ++ lanes 8 vl (vreg s2 7)) ++ ((dst0.drop vl).drop vl).drop vl) src)) rk
    ((([] ++ lanes 8 vl (vreg s2 9)) ++ lanes 8 vl (vreg s2 8)) ++ lanes 8 vl (vreg s2 7)) (((dst0.drop vl).drop vl).drop vl) src
    hG2 f2.lenV (by decide) rfl hg3
    (by simp [lanes_length]; omega) (by omega) (by simp only [List.length_drop]; omega) (ea_lit _ _ (by omega))
  apply Exists.intro
  apply And.intro
  · unfold wepiCode
    apply execList_append_ok (execList_append_ok hrun1 hrun2)
    apply exec_step st1
    apply exec_step st2
    apply exec_step st3
    apply exec_step st4
    exact execList_nil _
  · show kmem rk _ src = _
    congr 1
    simp only [vreg_setMem, List.drop_drop, List.nil_append]
    rw [List.drop_eq_nil_of_le (by omega), List.append_nil, o9, o8, o7, o6,
      show vl / 4 = n + n + n + n from by omega, flatMap_range_add, flatMap_range_add, flatMap_range_add]

end SMGo.Proofs.ISAVal
