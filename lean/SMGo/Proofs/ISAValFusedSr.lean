import SMGo.Proofs.ISAValSealCode2
import SMGo.Proofs.ISAValKeeps
namespace SMGo.Proofs.ISAVal
open SMGo.Model.ISAVal
open SMGo.Model.ISA (Reg Opd Instr)

section steps
variable (g v k : List Nat) (fl : Flags) (mem : List Region) (syms frame : List (String × Nat))

theorem execD_broadcastd_gpr (vl a d av : Nat) (hvl : validVl vl = true) (ha : g[a]? = some av) (hd : d < v.length) :
    execD ⟨g, v, k, fl, mem, syms, frame⟩ (ins .VPBROADCASTD [G a, R d] vl)
      = .ok ⟨g, v.set d (unlanes 32 (List.replicate (vl / 4) (av % 2 ^ 32))), k, fl, mem, syms, frame⟩ := by
  simp [execD, ins, R, G, exBroadcastD, hvl, getG, setV, ha, hd]
end steps

/-- the `affine` macro at vector length `vl` with the matrices broadcast to the whole 512-bit registers (as
    `cryptoPrepare` loads them): τ on every dword lane -/
theorem laneJ_sbox64 (vl j x : Nat) (hvl : vl % 8 = 0) (hvl64 : vl ≤ 64) (hj : j < vl / 4) :
    lane 32 j (gfAffine true vl 211 (POSTvl 64) (gfAffine false vl 62 (PREvl 64) x)) = tauN (lane 32 j x) := by
  have hq : j / 2 < 64 / 8 := by omega
  rw [laneJ_gfAffine true vl 211 _ _ j hvl hj, laneJ_gfAffine false vl 62 _ _ j hvl hj]
  unfold POSTvl PREvl
  rw [lane_bcast 64 (64 / 8) (j / 2) _ hq post_q_lt, lane_bcast 64 (64 / 8) (j / 2) _ hq pre_q_lt, post_q_bytes, pre_q_bytes,
    lanes_unlanes 8 4]
  · simp [tauN, List.map_map, Function.comp_def]
    rfl
  · intro y hy
    simp only [List.mem_map] at hy
    obtain ⟨p, _, rfl⟩ := hy
    exact affineByte_lt _ _ _
  · simp [lanes_length]

/-- the state-register quadruples of the fused kernels: (VxState1, VxState2, VxState3, VxState4) in the ladder,
    (VxState1, VxState2, VxState3, VxH) for H = E(0), (…, VxTMask) for the tag mask — and their rotations -/
def srInst (A B C D : Nat) : Prop :=
  (A = 6 ∧ B = 7 ∧ C = 8 ∧ D = 9) ∨ (A = 7 ∧ B = 8 ∧ C = 9 ∧ D = 6) ∨ (A = 8 ∧ B = 9 ∧ C = 6 ∧ D = 7) ∨ (A = 9 ∧ B = 6 ∧ C = 7 ∧ D = 8) ∨
  (A = 6 ∧ B = 7 ∧ C = 8 ∧ D = 19) ∨ (A = 7 ∧ B = 8 ∧ C = 19 ∧ D = 6) ∨ (A = 8 ∧ B = 19 ∧ C = 6 ∧ D = 7) ∨ (A = 19 ∧ B = 6 ∧ C = 7 ∧ D = 8) ∨
  (A = 6 ∧ B = 7 ∧ C = 8 ∧ D = 15) ∨ (A = 7 ∧ B = 8 ∧ C = 15 ∧ D = 6) ∨ (A = 8 ∧ B = 15 ∧ C = 6 ∧ D = 7) ∨ (A = 15 ∧ B = 6 ∧ C = 7 ∧ D = 8)

set_option maxRecDepth 100000 in
set_option maxHeartbeats 2000000 in
/-- **one `subRound` with the key in a general register**: the round function on every dword lane of the state register `A` -/
theorem sr_spec (vl kr A B C D : Nat) (hvl : validVl vl = true) (hinst : srInst A B C D)
    (s : State) (hG : s.gpr.length = 16) (hV : s.vec.length = 32) (hkr : kr < 16)
    (h10 : vreg s 10 = PREvl 64) (h11 : vreg s 11 = POSTvl 64) :
    ∃ s', execList (srCode vl kr A B C D) s = .ok s' ∧
      ∀ j, j < vl / 4 → lane 32 j (vreg s' A)
        = roundF (lane 32 j (vreg s A)) (lane 32 j (vreg s B)) (lane 32 j (vreg s C)) (lane 32 j (vreg s D)) (greg s kr % 2 ^ 32) := by
  have hvl8 : vl % 8 = 0 := by
    simp only [validVl, Bool.or_eq_true, beq_iff_eq] at hvl
    omega
  have hvl64 : vl ≤ 64 := by
    simp only [validVl, Bool.or_eq_true, beq_iff_eq] at hvl
    omega
  obtain ⟨gpr, vec, k, fl, mem, syms, frame⟩ := s
  simp only at hG hV
  have hkv : gpr[kr]? = some (gpr.getD kr 0) := getElem?_getD gpr kr (by omega)
  obtain ⟨b0, b1, b2, b3, b4, b5, b6, b7, b8, b9, b10, b11, b12, b13, b14, b15, b16, b17, b18, b19, b20, b21, b22, b23, b24, b25, b26, b27, b28, b29, b30, b31, rfl⟩ := list32 vec hV
  simp only [vreg, List.getD_cons_succ, List.getD_cons_zero] at h10 h11
  subst h10 h11
  rcases hinst with ⟨rfl, rfl, rfl, rfl⟩ | ⟨rfl, rfl, rfl, rfl⟩ | ⟨rfl, rfl, rfl, rfl⟩ | ⟨rfl, rfl, rfl, rfl⟩ |
    ⟨rfl, rfl, rfl, rfl⟩ | ⟨rfl, rfl, rfl, rfl⟩ | ⟨rfl, rfl, rfl, rfl⟩ | ⟨rfl, rfl, rfl, rfl⟩ |
    ⟨rfl, rfl, rfl, rfl⟩ | ⟨rfl, rfl, rfl, rfl⟩ | ⟨rfl, rfl, rfl, rfl⟩ | ⟨rfl, rfl, rfl, rfl⟩
  all_goals
    apply Exists.intro
    apply And.intro
    · unfold srCode
      apply exec_step
      · exact execD_broadcastd_gpr (hvl := hvl) (ha := hkv) (hd := by simp) ..
      vstep; vstep; vstep; vstep; vstep; vstep; vstep; vstep; vstep; vstep; vstep; vstep; vstep; vstep
      exact execList_nil _
    · intro j hj
      simp only [List.set_cons_succ, List.set_cons_zero, vreg, greg, List.getD_cons_succ, List.getD_cons_zero]
      simp only [imm_2, imm_10, imm_18, imm_24, imm_62, imm_211, lane_vpxord _ j _ _ hj,
        lane_vprold _ j _ _ hj, laneJ_sbox64 vl j _ hvl8 hvl64 hj, lane_bcast_mod _ j _ hj]
      rfl

end SMGo.Proofs.ISAVal
