/-
  Lemmas for property C03: `VerifyHashed` returns, on all byte strings, the verdict of the
  GM/T 0003.2 §7.1 verification procedure (`Spec.SM2.verify`), and never panics.
-/
import SMGo.Proofs.SM2Facts
import SMGo.Proofs.SM2SignBytes
import SMGo.Proofs.SM2SignAlgebra

namespace SMGo.Proofs.SM2Verify
open SMGo SMGo.Model SMGo.Model.SM2 SMGo.Proofs.SM2Facts SMGo.Proofs.SM2SignBytes
open SMGo.Proofs.SM2SignAlgebra

variable {α β : Type} {X : Ctx α β}

/-- strict decoding of `04 ‖ x ‖ y` with 32-byte coordinates -/
theorem parsePoint_xy (px py : Bytes) (hx : px.length = 32) (hy : py.length = 32) :
    Spec.SM2.parsePoint ([4] ++ px ++ py) =
      if Bytes.toNatBE px < Spec.SM2.p ∧ Bytes.toNatBE py < Spec.SM2.p
          ∧ Spec.SM2.onCurve (Bytes.toNatBE px) (Bytes.toNatBE py) = true
      then some (some (Bytes.toNatBE px, Bytes.toNatBE py)) else none := by
  unfold Spec.SM2.parsePoint
  have h0 : ¬ ([4] ++ px ++ py = [0]) := by
    intro h
    have := congrArg List.length h
    simp [hx, hy] at this
  have h1 : ([4] ++ px ++ py).length = 65 ∧ ([4] ++ px ++ py).head? = some 4 := by
    simp [hx, hy]
  have h2 : (([4] ++ px ++ py).drop 1).take 32 = px := by
    simp [← hx]
  have h3 : ([4] ++ px ++ py).drop 33 = py := by
    have : [4] ++ px ++ py = ([4] ++ px) ++ py := rfl
    rw [this, List.drop_append]
    simp [hx]
  rw [if_neg h0, if_pos h1]
  simp only []
  rw [h2, h3]

theorem pointBytes_length_one (Q : Spec.SM2.Point) :
    (Spec.SM2.pointBytes Q).length = 1 ↔ Q = none := by
  cases Q with
  | none => simp [Spec.SM2.pointBytes]
  | some q =>
    obtain ⟨x, y⟩ := q
    simp [Spec.SM2.pointBytes, ofNatBE_length]

/-- `VerifyHashed` on arbitrary byte strings -/
theorem verifyHashed_eq (F : CurveFacts X) (px py e r s : Bytes) :
    verifyHashed X px py e r s = .ok (Spec.SM2.verify px py e r s) := by
  unfold verifyHashed Spec.SM2.verify
  by_cases hl : px.length ≠ 32 ∨ py.length ≠ 32 ∨ e.length ≠ 32 ∨ r.length ≠ 32 ∨ s.length ≠ 32
  · rw [if_pos hl, if_pos hl]
  · rw [if_neg hl, if_neg hl]
    have hpx : px.length = 32 := by omega
    have hpy : py.length = 32 := by omega
    have hs : s.length = 32 := by omega
    simp only []
    rw [F.n_eq]
    have hsb := F.setBytes ([4] ++ px ++ py)
    rw [parsePoint_xy px py hpx hpy] at hsb
    by_cases hkey : Bytes.toNatBE px < Spec.SM2.p ∧ Bytes.toNatBE py < Spec.SM2.p
        ∧ Spec.SM2.onCurve (Bytes.toNatBE px) (Bytes.toNatBE py) = true
    · -- a canonically encoded point on the curve
      rw [if_pos hkey] at hsb
      obtain ⟨P, hP, hrep⟩ := hsb
      rw [hP]
      simp only []
      rw [if_neg (by omega : ¬ (Bytes.toNatBE px ≥ Spec.SM2.p ∨ Bytes.toNatBE py ≥ Spec.SM2.p))]
      rw [hkey.2.2]
      simp only [Bool.not_true, Bool.false_eq_true, if_false]
      unfold Spec.SM2.verifyNat
      by_cases hrange : Bytes.toNatBE r = 0 ∨ Bytes.toNatBE r ≥ Spec.SM2.n ∨
          Bytes.toNatBE s = 0 ∨ Bytes.toNatBE s ≥ Spec.SM2.n
      · rw [if_pos hrange, if_pos (by omega)]
      · rw [if_neg hrange, if_neg (by omega)]
        simp only []
        by_cases ht : (Bytes.toNatBE r + Bytes.toNatBE s) % Spec.SM2.n = 0
        · rw [if_pos ht, if_pos ht]
        · rw [if_neg ht, if_neg ht]
          have htlt : (Bytes.toNatBE r + Bytes.toNatBE s) % Spec.SM2.n < 256 ^ 32 :=
            Nat.lt_trans (Nat.mod_lt _ n_pos) n_lt_pow
          rw [ensure32_eq _ htlt]
          obtain ⟨R, hR, hrepR⟩ := F.mixedMult s (Bytes.ofNatBE 32 ((Bytes.toNatBE r + Bytes.toNatBE s) % Spec.SM2.n))
            P _ hs (ofNatBE_length _ _) hrep
          rw [toNatBE_ofNatBE _ _ htlt] at hrepR
          rw [hR]
          simp only []
          rw [F.bytesUnsafe R _ hrepR, F.affineX R _ hrepR]
          cases hQ : Spec.SM2.add (Spec.SM2.smul (Bytes.toNatBE s) Spec.SM2.G)
              (Spec.SM2.smul ((Bytes.toNatBE r + Bytes.toNatBE s) % Spec.SM2.n)
                (some (Bytes.toNatBE px, Bytes.toNatBE py))) with
          | none =>
            rw [if_pos ((pointBytes_length_one none).mpr rfl)]
          | some q =>
            obtain ⟨x1, y1⟩ := q
            rw [if_neg (by rw [pointBytes_length_one]; exact fun h => by cases h)]
            rw [show affX (some (x1, y1)) = x1 from rfl, Nat.add_comm x1 (Bytes.toNatBE e)]
            by_cases heq : (Bytes.toNatBE e + x1) % Spec.SM2.n = Bytes.toNatBE r <;> simp [heq]
    · -- not a public key: the decoding fails, whatever r and s are
      rw [if_neg hkey] at hsb
      rw [hsb]
      have hspec : (if Bytes.toNatBE px ≥ Spec.SM2.p ∨ Bytes.toNatBE py ≥ Spec.SM2.p then false
          else if (!Spec.SM2.onCurve (Bytes.toNatBE px) (Bytes.toNatBE py)) = true then false
          else Spec.SM2.verifyNat (some (Bytes.toNatBE px, Bytes.toNatBE py)) (Bytes.toNatBE e)
            (Bytes.toNatBE r) (Bytes.toNatBE s)) = false := by
        by_cases hp : Bytes.toNatBE px ≥ Spec.SM2.p ∨ Bytes.toNatBE py ≥ Spec.SM2.p
        · rw [if_pos hp]
        · rw [if_neg hp]
          have : Spec.SM2.onCurve (Bytes.toNatBE px) (Bytes.toNatBE py) = false := by
            rw [Bool.eq_false_iff]
            intro hc
            exact hkey ⟨by omega, by omega, hc⟩
          rw [this]; rfl
      rw [hspec]
      split
      · rfl
      · split <;> rfl

/-- the acceptance condition of `Spec.SM2.verify`, spelled out as in GM/T 0003.2 §7.1 -/
theorem verify_true_iff (px py e r s : Bytes) :
    Spec.SM2.verify px py e r s = true ↔
      (px.length = 32 ∧ py.length = 32 ∧ e.length = 32 ∧ r.length = 32 ∧ s.length = 32) ∧
      (1 ≤ Bytes.toNatBE r ∧ Bytes.toNatBE r < Spec.SM2.n) ∧
      (1 ≤ Bytes.toNatBE s ∧ Bytes.toNatBE s < Spec.SM2.n) ∧
      (Bytes.toNatBE r + Bytes.toNatBE s) % Spec.SM2.n ≠ 0 ∧
      (Bytes.toNatBE px < Spec.SM2.p ∧ Bytes.toNatBE py < Spec.SM2.p ∧
        Spec.SM2.onCurve (Bytes.toNatBE px) (Bytes.toNatBE py) = true) ∧
      ∃ x1 y1, Spec.SM2.add (Spec.SM2.smul (Bytes.toNatBE s) Spec.SM2.G)
          (Spec.SM2.smul ((Bytes.toNatBE r + Bytes.toNatBE s) % Spec.SM2.n)
            (some (Bytes.toNatBE px, Bytes.toNatBE py))) = some (x1, y1) ∧
        (Bytes.toNatBE e + x1) % Spec.SM2.n = Bytes.toNatBE r := by
  unfold Spec.SM2.verify
  by_cases hl : px.length ≠ 32 ∨ py.length ≠ 32 ∨ e.length ≠ 32 ∨ r.length ≠ 32 ∨ s.length ≠ 32
  · rw [if_pos hl]
    constructor
    · intro h; cases h
    · rintro ⟨h, _⟩; omega
  · rw [if_neg hl]
    simp only []
    by_cases hp : Bytes.toNatBE px ≥ Spec.SM2.p ∨ Bytes.toNatBE py ≥ Spec.SM2.p
    · rw [if_pos hp]
      constructor
      · intro h; cases h
      · rintro ⟨_, _, _, _, ⟨h1, h2, _⟩, _⟩; omega
    · rw [if_neg hp]
      cases hc : Spec.SM2.onCurve (Bytes.toNatBE px) (Bytes.toNatBE py) with
      | false =>
        simp only [Bool.not_false, if_true]
        constructor
        · intro h; cases h
        · rintro ⟨_, _, _, _, ⟨_, _, h⟩, _⟩; cases h
      | true =>
        simp only [Bool.not_true, Bool.false_eq_true, if_false]
        unfold Spec.SM2.verifyNat
        by_cases hrange : Bytes.toNatBE r = 0 ∨ Bytes.toNatBE r ≥ Spec.SM2.n ∨
            Bytes.toNatBE s = 0 ∨ Bytes.toNatBE s ≥ Spec.SM2.n
        · rw [if_pos hrange]
          constructor
          · intro h; cases h
          · rintro ⟨_, h1, h2, _⟩; omega
        · rw [if_neg hrange]
          simp only []
          by_cases ht : (Bytes.toNatBE r + Bytes.toNatBE s) % Spec.SM2.n = 0
          · rw [if_pos ht]
            constructor
            · intro h; cases h
            · rintro ⟨_, _, _, h, _⟩; exact absurd ht h
          · rw [if_neg ht]
            cases hQ : Spec.SM2.add (Spec.SM2.smul (Bytes.toNatBE s) Spec.SM2.G)
                (Spec.SM2.smul ((Bytes.toNatBE r + Bytes.toNatBE s) % Spec.SM2.n)
                  (some (Bytes.toNatBE px, Bytes.toNatBE py))) with
            | none =>
              simp only []
              constructor
              · intro h; cases h
              · rintro ⟨_, _, _, _, _, x1, y1, h, _⟩; cases h
            | some q =>
              obtain ⟨x1, y1⟩ := q
              simp only [beq_iff_eq]
              constructor
              · intro h
                exact ⟨by omega, by omega, by omega, ht, ⟨by omega, by omega, trivial⟩, x1, y1, rfl, h⟩
              · rintro ⟨_, _, _, _, _, x1', y1', h, h'⟩
                injection h with h
                injection h with h1 _
                rw [h1]; exact h'

end SMGo.Proofs.SM2Verify
