/-
  Value level of `mul` + `reduce` of sm4/gcm_arm64.s: the data flow of the 5 + 14 instructions (EXT, EOR, PMULL,
  PMULL2 as SMGo/Model/ISAValArm64.lean — an UNVALIDATED transcription of the Arm ARM — defines them), written as
  functions on numbers, is `Model.GCM.gmulR` (Karatsuba + two folding steps with 0x87, which Proofs/GCMClmul.lean
  proves to be the multiplication of SP 800-38D on bit-reflected operands); the aggregated forms (products xored
  before one reduction) are xors of `gmulR`; RBIT is the byte reflection of the model.
-/
import SMGo.Model.ISAValArm64Gcm
import SMGo.Proofs.ISAValGhashSpec
namespace SMGo.Proofs.ISAValArm64
open SMGo SMGo.Model.ISAValArm64 SMGo.Model.GCM
open SMGo.Model.ISAVal (lane lanes unlanes map1 map2)
open SMGo.Proofs.GCM (IsLin isLin_redH reduce_eq redH clmul64_lt lo64_lt hi64_lt isLin_lo64 isLin_hi64)
open SMGo.Proofs.ISAVal (clmul_eq lane64_0 lane64_1 clmul64_poly_comm rb128 rev8N toB rb128_loadR store_eq)

/-! ### the instructions on numbers -/

theorem veor_lt (a b : Nat) : veor a b < 2 ^ 128 := Nat.mod_lt _ (by decide)

theorem veor_of_lt {a b : Nat} (ha : a < 2 ^ 128) (hb : b < 2 ^ 128) : veor a b = a ^^^ b :=
  Nat.mod_eq_of_lt (Nat.xor_lt_two_pow ha hb)

theorem vpmull_eq (m n : Nat) : vpmull m n = clmul64 (lo64 m) (lo64 n) := by
  unfold vpmull; rw [clmul_eq, lane64_0, lane64_0]

theorem vpmull2_eq (m n : Nat) : vpmull2 m n = clmul64 (hi64 m) (hi64 n) := by
  unfold vpmull2; rw [clmul_eq, lane64_1, lane64_1]

theorem vpmull_lt (m n : Nat) : vpmull m n < 2 ^ 128 := by
  rw [vpmull_eq]; exact Nat.lt_trans (clmul64_lt _ (lo64_lt n)) (by decide)

theorem vpmull2_lt (m n : Nat) : vpmull2 m n < 2 ^ 128 := by
  rw [vpmull2_eq]; exact Nat.lt_trans (clmul64_lt _ (hi64_lt n)) (by decide)

theorem vext_lt (i m n : Nat) : vext i m n < 2 ^ 128 := Nat.mod_lt _ (by decide)

/-- `VEXT $8, Zero, M, T`: the high half of M, in the low half -/
theorem vext8_zero_left {m : Nat} (hm : m < 2 ^ 128) : vext 8 0 m = m / 2 ^ 64 := by
  unfold vext
  simp only [Nat.zero_mod, Nat.zero_mul, Nat.zero_add, Nat.mod_eq_of_lt hm, Nat.shiftRight_eq_div_pow]
  apply Nat.mod_eq_of_lt
  omega

/-- `VEXT $8, M, Zero, T`: the low half of M, in the high half -/
theorem vext8_zero_right (m : Nat) : vext 8 m 0 = m % 2 ^ 64 * 2 ^ 64 := by
  unfold vext
  simp only [Nat.zero_mod, Nat.add_zero, Nat.shiftRight_eq_div_pow, Nat.reduceMul]
  omega

theorem lo64_vext8 (m n : Nat) : lo64 (vext 8 m n) = hi64 n := by
  unfold vext lo64 hi64
  simp only [Nat.shiftRight_eq_div_pow, Nat.reduceMul]
  omega

theorem lo64_veor (a b : Nat) : lo64 (veor a b) = lo64 a ^^^ lo64 b := by
  unfold veor lo64
  rw [Nat.mod_mod_of_dvd _ (Nat.pow_dvd_pow 2 (by decide : 64 ≤ 128)), Nat.xor_mod_two_pow]

/-- `VEXT $8, X, X, T; VEOR X, T, T`: the low doubleword of T is X.lo ⊕ X.hi -/
theorem lo64_swap_xor (x : Nat) : lo64 (veor x (vext 8 x x)) = lo64 x ^^^ hi64 x := by
  rw [lo64_veor, lo64_vext8]

/-! ### `reduce` -/

/-- the data flow of `reduce(Output, Lo, Mid, Hi)`: `z` = the Zero register, `r` = the Reduce register -/
def redV (z r lo mid hi : Nat) : Nat :=
  let t1 := veor hi lo
  let mid := veor mid t1
  let t2 := vext 8 z mid
  let t3 := vext 8 mid z
  let hi := veor hi t2
  let lo := veor lo t3
  let t0 := vpmull r hi
  let t1 := vpmull2 r hi
  let t2 := vext 8 t1 z
  let t0 := veor t2 t0
  let lo := veor t0 lo
  let t2 := vext 8 z t1
  let t3 := vpmull t2 r
  veor t3 lo

/-- merge the middle product into the outer ones, then fold twice: the second half of `karatsuba` and `reduce` of the
    model, on the three raw products -/
def mergeRed (lo mid hi : Nat) : Nat :=
  let mid := mid ^^^ (hi ^^^ lo)
  reduce (hi ^^^ mid / 2 ^ 64) (lo ^^^ mid % 2 ^ 64 * 2 ^ 64)

theorem gmulR_eq_mergeRed (h x : Nat) :
    gmulR h x = mergeRed (clmul64 (lo64 x) (lo64 h)) (clmul64 (lo64 x ^^^ hi64 x) (lo64 h ^^^ hi64 h))
      (clmul64 (hi64 x) (hi64 h)) := rfl

theorem div64_lt {m : Nat} (h : m < 2 ^ 128) : m / 2 ^ 64 < 2 ^ 128 := by omega
theorem modmul64_lt (m : Nat) : m % 2 ^ 64 * 2 ^ 64 < 2 ^ 128 := by omega

theorem redV_eq (r lo mid hi : Nat) (hlo : lo < 2 ^ 128) (hmid : mid < 2 ^ 128) (hhi : hi < 2 ^ 128)
    (hr0 : lo64 r = poly) (hr1 : hi64 r = poly) : redV 0 r lo mid hi = mergeRed lo mid hi := by
  have x2 := fun {a b : Nat} (ha : a < 2 ^ 128) (hb : b < 2 ^ 128) => Nat.xor_lt_two_pow ha hb
  have hm : mid ^^^ (hi ^^^ lo) < 2 ^ 128 := x2 hmid (x2 hhi hlo)
  unfold redV mergeRed reduce
  simp only [vext8_zero_right, vpmull_eq, vpmull2_eq, hr0, hr1]
  have e1 : veor hi lo = hi ^^^ lo := veor_of_lt hhi hlo
  rw [e1]
  have e2 : veor mid (hi ^^^ lo) = mid ^^^ (hi ^^^ lo) := veor_of_lt hmid (x2 hhi hlo)
  rw [e2]
  generalize mid ^^^ (hi ^^^ lo) = M at hm
  rw [vext8_zero_left hm, veor_of_lt hhi (div64_lt hm), veor_of_lt hlo (modmul64_lt M)]
  generalize hi ^^^ M / 2 ^ 64 = H
  have hLl : lo ^^^ M % 2 ^ 64 * 2 ^ 64 < 2 ^ 128 := x2 hlo (modmul64_lt _)
  generalize lo ^^^ M % 2 ^ 64 * 2 ^ 64 = L at hLl
  rw [clmul64_poly_comm (lo64_lt H), clmul64_poly_comm (hi64_lt H)]
  have ht0 : clmul64 (lo64 H) poly < 2 ^ 128 := Nat.lt_trans (clmul64_lt _ (by decide)) (by decide)
  have ht1 : clmul64 (hi64 H) poly < 2 ^ 128 := Nat.lt_trans (clmul64_lt _ (by decide)) (by decide)
  generalize clmul64 (lo64 H) poly = T0 at ht0
  generalize clmul64 (hi64 H) poly = T1 at ht1
  rw [veor_of_lt (modmul64_lt T1) ht0, veor_of_lt (x2 (modmul64_lt T1) ht0) hLl, vext8_zero_left ht1]
  have e : lo64 (T1 / 2 ^ 64) = hi64 T1 := rfl
  rw [e]
  have ht3 : clmul64 (hi64 T1) poly < 2 ^ 128 := Nat.lt_trans (clmul64_lt _ (by decide)) (by decide)
  rw [veor_of_lt ht3 (x2 (x2 (modmul64_lt _) ht0) hLl)]
  unfold lo64
  ac_rfl

theorem isLin_div64 : IsLin (fun v => v / 2 ^ 64) := SMGo.Proofs.GCM.isLin_div_two_pow 64
theorem isLin_modmul64 : IsLin (fun v => v % 2 ^ 64 * 2 ^ 64) :=
  (SMGo.Proofs.GCM.isLin_mul_two_pow 64).comp (SMGo.Proofs.GCM.isLin_mod_two_pow 64)

/-- `mergeRed` is linear in the three products together -/
theorem mergeRed_xor (a b c a' b' c' : Nat) :
    mergeRed (a ^^^ a') (b ^^^ b') (c ^^^ c') = mergeRed a b c ^^^ mergeRed a' b' c' := by
  unfold mergeRed
  simp only [reduce_eq]
  have e : (b ^^^ b') ^^^ ((c ^^^ c') ^^^ (a ^^^ a')) = (b ^^^ (c ^^^ a)) ^^^ (b' ^^^ (c' ^^^ a')) := by ac_rfl
  have d1 : ∀ p q : Nat, (p ^^^ q) / 2 ^ 64 = p / 2 ^ 64 ^^^ q / 2 ^ 64 := fun p q => isLin_div64 p q
  have d2 : ∀ p q : Nat, (p ^^^ q) % 2 ^ 64 * 2 ^ 64 = p % 2 ^ 64 * 2 ^ 64 ^^^ q % 2 ^ 64 * 2 ^ 64 :=
    fun p q => isLin_modmul64 p q
  have e2 : ∀ p q p' q' : Nat, (p ^^^ p') ^^^ (q ^^^ q') = (p ^^^ q) ^^^ (p' ^^^ q') := by intros; ac_rfl
  rw [e, d1, d2, e2 c ((b ^^^ (c ^^^ a)) / 2 ^ 64) c' _, isLin_redH _ _]
  ac_rfl

/-! ### `mul` + `reduce` -/

/-- the three products of `mul(Factor, FactorS, Input, Lo, Mid, Hi)` -/
def mulLo (h x : Nat) : Nat := vpmull x h
def mulHi (h x : Nat) : Nat := vpmull2 x h
def mulMid (hs x : Nat) : Nat := vpmull (veor x (vext 8 x x)) hs

/-- `FactorS` holds Factor.lo ⊕ Factor.hi in its low doubleword -/
def IsSum (h hs : Nat) : Prop := lo64 hs = lo64 h ^^^ hi64 h

/-- `Reduce` holds 0x87 in both doublewords -/
def IsPoly (r : Nat) : Prop := lo64 r = poly ∧ hi64 r = poly

theorem isPoly_vdupD : IsPoly (vdupD 135) := ⟨by decide +kernel, by decide +kernel⟩

theorem mergeRed_mul (h hs x : Nat) (hsum : IsSum h hs) :
    mergeRed (mulLo h x) (mulMid hs x) (mulHi h x) = gmulR h x := by
  rw [gmulR_eq_mergeRed]
  unfold mulLo mulMid mulHi
  rw [vpmull_eq, vpmull_eq, vpmull2_eq, lo64_swap_xor, hsum]

theorem mulLo_lt (h x : Nat) : mulLo h x < 2 ^ 128 := vpmull_lt _ _
theorem mulMid_lt (h x : Nat) : mulMid h x < 2 ^ 128 := vpmull_lt _ _
theorem mulHi_lt (h x : Nat) : mulHi h x < 2 ^ 128 := vpmull2_lt _ _

/-- **one `mul` + `reduce` is `gmulR`** -/
theorem mulRed_eq (h hs r x : Nat) (hsum : IsSum h hs) (hr : IsPoly r) :
    redV 0 r (mulLo h x) (mulMid hs x) (mulHi h x) = gmulR h x := by
  rw [redV_eq r _ _ _ (mulLo_lt _ _) (mulMid_lt _ _) (mulHi_lt _ _) hr.1 hr.2]
  exact mergeRed_mul h hs x hsum

/-- two products accumulated before one reduction (`loopBy2`) -/
theorem mulRed2_eq (r h1 s1 x1 h2 s2 x2 : Nat) (hs1 : IsSum h1 s1) (hs2 : IsSum h2 s2) (hr : IsPoly r) :
    redV 0 r (veor (mulLo h2 x2) (mulLo h1 x1)) (veor (mulMid s2 x2) (mulMid s1 x1)) (veor (mulHi h2 x2) (mulHi h1 x1))
      = gmulR h1 x1 ^^^ gmulR h2 x2 := by
  rw [redV_eq r _ _ _ (veor_lt _ _) (veor_lt _ _) (veor_lt _ _) hr.1 hr.2,
    veor_of_lt (mulLo_lt _ _) (mulLo_lt _ _), veor_of_lt (mulMid_lt _ _) (mulMid_lt _ _),
    veor_of_lt (mulHi_lt _ _) (mulHi_lt _ _), mergeRed_xor, mergeRed_mul _ _ _ hs1, mergeRed_mul _ _ _ hs2, Nat.xor_comm]

/-- three products (`loopBy3`) -/
theorem mulRed3_eq (r h1 s1 x1 h2 s2 x2 h3 s3 x3 : Nat) (hs1 : IsSum h1 s1) (hs2 : IsSum h2 s2) (hs3 : IsSum h3 s3)
    (hr : IsPoly r) :
    redV 0 r (veor (mulLo h3 x3) (veor (mulLo h2 x2) (mulLo h1 x1)))
        (veor (mulMid s3 x3) (veor (mulMid s2 x2) (mulMid s1 x1)))
        (veor (mulHi h3 x3) (veor (mulHi h2 x2) (mulHi h1 x1)))
      = gmulR h1 x1 ^^^ gmulR h2 x2 ^^^ gmulR h3 x3 := by
  rw [redV_eq r _ _ _ (veor_lt _ _) (veor_lt _ _) (veor_lt _ _) hr.1 hr.2,
    veor_of_lt (mulLo_lt _ _) (veor_lt _ _), veor_of_lt (mulMid_lt _ _) (veor_lt _ _),
    veor_of_lt (mulHi_lt _ _) (veor_lt _ _),
    veor_of_lt (mulLo_lt _ _) (mulLo_lt _ _), veor_of_lt (mulMid_lt _ _) (mulMid_lt _ _),
    veor_of_lt (mulHi_lt _ _) (mulHi_lt _ _), mergeRed_xor, mergeRed_xor, mergeRed_mul _ _ _ hs1,
    mergeRed_mul _ _ _ hs2, mergeRed_mul _ _ _ hs3]
  ac_rfl

/-- four products (`loopBy4`) -/
theorem mulRed4_eq (r h1 s1 x1 h2 s2 x2 h3 s3 x3 h4 s4 x4 : Nat) (hs1 : IsSum h1 s1) (hs2 : IsSum h2 s2)
    (hs3 : IsSum h3 s3) (hs4 : IsSum h4 s4) (hr : IsPoly r) :
    redV 0 r (veor (mulLo h4 x4) (veor (mulLo h3 x3) (veor (mulLo h2 x2) (mulLo h1 x1))))
        (veor (mulMid s4 x4) (veor (mulMid s3 x3) (veor (mulMid s2 x2) (mulMid s1 x1))))
        (veor (mulHi h4 x4) (veor (mulHi h3 x3) (veor (mulHi h2 x2) (mulHi h1 x1))))
      = gmulR h1 x1 ^^^ gmulR h2 x2 ^^^ gmulR h3 x3 ^^^ gmulR h4 x4 := by
  rw [redV_eq r _ _ _ (veor_lt _ _) (veor_lt _ _) (veor_lt _ _) hr.1 hr.2,
    veor_of_lt (mulLo_lt _ _) (veor_lt _ _), veor_of_lt (mulMid_lt _ _) (veor_lt _ _),
    veor_of_lt (mulHi_lt _ _) (veor_lt _ _),
    veor_of_lt (mulLo_lt _ _) (veor_lt _ _), veor_of_lt (mulMid_lt _ _) (veor_lt _ _),
    veor_of_lt (mulHi_lt _ _) (veor_lt _ _),
    veor_of_lt (mulLo_lt _ _) (mulLo_lt _ _), veor_of_lt (mulMid_lt _ _) (mulMid_lt _ _),
    veor_of_lt (mulHi_lt _ _) (mulHi_lt _ _), mergeRed_xor, mergeRed_xor, mergeRed_xor, mergeRed_mul _ _ _ hs1,
    mergeRed_mul _ _ _ hs2, mergeRed_mul _ _ _ hs3, mergeRed_mul _ _ _ hs4]
  ac_rfl

/-- the `FactorS` register after `VEXT $8, F, F, FS; VEOR F, FS, FS` -/
theorem isSum_swap (h : Nat) : IsSum h (veor h (vext 8 h h)) := lo64_swap_xor h

/-! ### RBIT -/

theorem rbit8_eq : ∀ b, b < 256 → rbit8 b = rev8N b := by decide +kernel

/-- RBIT on a register is the byte-wise bit reflection of the amd64 proofs (`rb128`) -/
theorem vrbit_eq (x : Nat) : vrbit x = rb128 x := by
  unfold vrbit rb128 map1
  congr 1
  apply List.map_congr_left
  intro b hb
  exact rbit8_eq b (SMGo.Proofs.ISAVal.mem_lanes_lt 8 16 x b hb)

/-- a loaded block after RBIT is the model's `loadR` (bit k = coefficient of x^k) -/
theorem vrbit_loadR (blk : List Nat) (hl : blk.length = 16) (hb : ∀ x ∈ blk, x < 2 ^ 8) :
    vrbit (unlanes 8 blk) = loadR (toB blk) := by
  rw [vrbit_eq, rb128_loadR blk hl hb]

theorem vrbit_store (y : Nat) (hy : y < 2 ^ 128) : lanes 8 16 (vrbit y) = (storeR y).map (·.toNat) := by
  rw [vrbit_eq, store_eq y hy]

end SMGo.Proofs.ISAValArm64
