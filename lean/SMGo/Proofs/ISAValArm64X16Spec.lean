/-
  **The arm64 listing of `cryptoBlockAsmX16Internal`, called as the Go wrapper `cryptoBlockAsmX16(rk, dst, src)` of
  sm4/sm4_asm_arm64.go calls it (`tmp` IS `dst`, 256 bytes; `src` disjoint, as in `cryptoBlocks`), computes sixteen
  SM4 block functions of the specification** — under the arm64 value semantics of SMGo/Model/ISAValArm64.lean
  (UNVALIDATED transcription of the Arm ARM).  Invariant between sub-rounds: V0..V7 hold blocks 0..7, the 256-byte
  buffer holds the byte images of the state registers of all sixteen blocks.  Prologue: the second half is loaded
  and stashed first, then the first half.  Epilogue: the first half is written to dst[0..127] (over its own stash),
  THEN the second half is reloaded from dst[128..255] and written there.
-/
import SMGo.Proofs.ISAValArm64X16
set_option maxRecDepth 100000
namespace SMGo.Proofs.ISAValArm64
open SMGo.Model.ISAValArm64 SMGo.Model.ISA SMGo
open SMGo.Model.ISAVal (lane lanes unlanes Region readMem writeMem lookup regionBase)
open SMGo.Proofs.ISAVal (lane_lt lane_mod list32 list16 stepN iterN beBytes iterN_take getD_lt unlanes_lanes lanes_length
  lane32_list4 roundF)

/-- component `k` of a window -/
def cmp4 (t : Nat × Nat × Nat × Nat) (k : Nat) : Nat :=
  match k with
  | 0 => t.1
  | 1 => t.2.1
  | 2 => t.2.2.1
  | _ => t.2.2.2

/-- the state between two sub-rounds of `cryptoBlockAsmX16Internal` -/
structure Ready16 (M0 : List Region) (rT : Nat) (syms frame : List (String × Nat)) (rkBase : Nat)
    (i : Nat) (X : Nat → Nat × Nat × Nat × Nat) (ms : List Nat) (s : State) : Prop where
  lenG : s.gpr.length = 31
  lenV : s.vec.length = 32
  hsyms : s.syms = syms
  hframe : s.frame = frame
  g10 : greg s 10 = rkBase + 4 * i
  g11 : greg s 11 = regionBase rT
  p13 : greg s 13 = regionBase rT + 16 * 0
  p14 : greg s 14 = regionBase rT + 16 * 4
  p16 : greg s 16 = regionBase rT + 16 * 8
  p15 : greg s 15 = regionBase rT + 16 * 12
  tab : s.vec.drop 15 = tabs
  mlen : ms.length = 16
  hmem : s.mem = M0.set rT ⟨"dst", img ms, true⟩
  inM : ∀ q, q < 4 → ∀ k, k < 4 → ∀ j, j < 4 → lane 32 j (ms.getD (4 * q + sreg i k) 0) = cmp4 (X (4 * q + j)) k
  inR : ∀ q, q < 2 → ∀ k, k < 4 → ∀ j, j < 4 → lane 32 j (vreg s (4 * q + sreg i k)) = cmp4 (X (4 * q + j)) k

def round16I (i : Nat) : List DInstr := keyLoadDupCode .S4 ++ sub16Code (sreg i 0) (sreg i 1) (sreg i 2) (sreg i 3)

theorem cmp4_stepN (t : Nat × Nat × Nat × Nat) (key : Nat) :
    cmp4 (stepN t key) 0 = cmp4 t 1 ∧ cmp4 (stepN t key) 1 = cmp4 t 2 ∧ cmp4 (stepN t key) 2 = cmp4 t 3 ∧
    cmp4 (stepN t key) 3 = roundF (cmp4 t 0) (cmp4 t 1) (cmp4 t 2) (cmp4 t 3) key := ⟨rfl, rfl, rfl, rfl⟩

theorem ready16_step (M0 : List Region) (rT : Nat) (hr : rT < M0.length) (syms frame : List (String × Nat))
    (rkBase i : Nat) (X : Nat → Nat × Nat × Nat × Nat) (ms : List Nat) (s : State) (bs : List Nat)
    (hb : rkBase + 4 * i + 4 < 2 ^ 64) (hrk : readMem s.mem (rkBase + 4 * i) 4 = .ok bs) (hbs : unlanes 8 bs < 2 ^ 32)
    (h : Ready16 M0 rT syms frame rkBase i X ms s) :
    ∃ s' ns, execList (round16I i) s = .ok s' ∧ s'.mem = M0.set rT ⟨"dst", img ns, true⟩ ∧
      Ready16 M0 rT syms frame rkBase (i + 1) (fun j => stepN (X j) (unlanes 8 bs)) ns s' := by
  have hk := keyLoadDup_spec .S4 (Or.inl rfl) s h.lenG h.lenV bs (by rw [h.g10]; exact hrk)
  generalize hs1 : ({ s with gpr := s.gpr.set 10 ((greg s 10 + 4) % 2 ^ 64),
                             vec := s.vec.set 12 (vdupS (dupCount .S4) 0 (setLaneS 0 (vreg s 12) (unlanes 8 bs))) } : State)
    = s1 at hk
  have hv1 : s1.vec = s.vec.set 12 (vdupS (dupCount .S4) 0 (setLaneS 0 (vreg s 12) (unlanes 8 bs))) := by rw [← hs1]
  have hg1 : s1.gpr = s.gpr.set 10 ((greg s 10 + 4) % 2 ^ 64) := by rw [← hs1]
  have hm1 : s1.mem = s.mem := by rw [← hs1]
  have hsy1 : s1.syms = s.syms := by rw [← hs1]
  have hf1 : s1.frame = s.frame := by rw [← hs1]
  have hne : ∀ n, n ≠ 12 → vreg s1 n = vreg s n := fun n hn => by
    unfold vreg; rw [hv1]; exact getD_set_ne _ _ _ _ hn
  have hgne : ∀ n, n ≠ 10 → greg s1 n = greg s n := fun n hn => by
    unfold greg; rw [hg1]; exact getD_set_ne _ _ _ _ hn
  have h12 : ∀ j, j < 4 → lane 32 j (vreg s1 12) = unlanes 8 bs := by
    intro j hj
    unfold vreg; rw [hv1, getD_set_eq _ _ _ (by rw [h.lenV]; decide), lane_vdupS (dupCount .S4) _ _ _ hj]
    exact lane0_setLaneS0 _ _ hbs
  have htab1 : s1.vec.drop 15 = tabs := by
    rw [hv1, List.drop_set_of_lt (by decide)]; exact h.tab
  obtain ⟨s', ns, hrun, hp⟩ := sub16_spec (sreg i 0) (sreg i 1) (sreg i 2) (sreg i 3) (sreg_perm i) M0 rT hr ms h.mlen s1
    (by rw [hg1, List.length_set]; exact h.lenG) (by rw [hv1, List.length_set]; exact h.lenV) htab1
    (by rw [hm1]; exact h.hmem) (by rw [hgne 13 (by decide)]; exact h.p13) (by rw [hgne 14 (by decide)]; exact h.p14)
    (by rw [hgne 16 (by decide)]; exact h.p16) (by rw [hgne 15 (by decide)]; exact h.p15)
  have hlt := fun j => sreg_lt i j
  -- the inputs of `getXor`
  have hin : ∀ q, q < 4 → ∀ k, k < 4 → ∀ j, j < 4 → lane 32 j (inp s1 ms q (sreg i k)) = cmp4 (X (4 * q + j)) k := by
    intro q hq k hk' j hj
    unfold inp
    by_cases h2 : q < 2
    · rw [if_pos h2, hne _ (by have := hlt k; omega)]; exact h.inR q h2 k hk' j hj
    · rw [if_neg h2]; exact h.inM q hq k hk' j hj
  -- the new images
  have hnew : ∀ q, q < 4 → ∀ k, k < 4 → ∀ j, j < 4 →
      lane 32 j (ns.getD (4 * q + sreg (i + 1) k) 0) = cmp4 (stepN (X (4 * q + j)) (unlanes 8 bs)) k := by
    intro q hq k hk' j hj
    obtain ⟨c0, c1, c2, c3⟩ := cmp4_stepN (X (4 * q + j)) (unlanes 8 bs)
    obtain ⟨kB, kC, kD⟩ := hp.keep q hq j hj
    have : k = 0 ∨ k = 1 ∨ k = 2 ∨ k = 3 := by omega
    rcases this with rfl | rfl | rfl | rfl
    · rw [sreg_succ, c0, kB]; exact h.inM q hq 1 (by decide) j hj
    · rw [sreg_succ, c1, kC]; exact h.inM q hq 2 (by decide) j hj
    · rw [sreg_succ, c2, kD]; exact h.inM q hq 3 (by decide) j hj
    · rw [sreg_succ3, c3, hp.upd q hq j hj, h.inM q hq 0 (by decide) j hj, hin q hq 1 (by decide) j hj,
        hin q hq 2 (by decide) j hj, hin q hq 3 (by decide) j hj, h12 j hj]
  refine ⟨s', ns, execList_append_ok hk hrun, hp.mem, ?_⟩
  have hgs : ∀ n, n ≠ 10 → greg s' n = greg s n := fun n hn => by
    unfold greg; rw [hp.gpr, hg1]; exact getD_set_ne _ _ _ _ hn
  constructor
  · rw [hp.gpr, hg1, List.length_set]; exact h.lenG
  · exact hp.lenV
  · rw [hp.syms, hsy1, h.hsyms]
  · rw [hp.frame, hf1, h.hframe]
  · unfold greg; rw [hp.gpr, hg1, getD_set_eq _ _ _ (by rw [h.lenG]; decide)]
    rw [h.g10, Nat.mod_eq_of_lt (by omega)]; omega
  · rw [hgs 11 (by decide)]; exact h.g11
  · rw [hgs 13 (by decide)]; exact h.p13
  · rw [hgs 14 (by decide)]; exact h.p14
  · rw [hgs 16 (by decide)]; exact h.p16
  · rw [hgs 15 (by decide)]; exact h.p15
  · rw [hp.tab]; exact htab1
  · exact hp.nlen
  · exact hp.mem
  · exact hnew
  · intro q hq k hk' j hj
    rw [hp.regs _ (by have := sreg_lt (i + 1) k; omega)]
    exact hnew q (by omega) k hk' j hj

def rounds16Code : Nat → List DInstr
  | 0 => []
  | n + 1 => rounds16Code n ++ round16I n

theorem ready16_rounds (M0 : List Region) (rT : Nat) (hr : rT < M0.length) (syms frame : List (String × Nat))
    (rkBase : Nat) (kb : Nat → List Nat) (hbase : rkBase + 4 * 32 < 2 ^ 64)
    (hrk : ∀ (ms : List Nat) i, i < 32 → readMem (M0.set rT ⟨"dst", img ms, true⟩) (rkBase + 4 * i) 4 = .ok (kb i))
    (hkb : ∀ i, i < 32 → unlanes 8 (kb i) < 2 ^ 32)
    (X : Nat → Nat × Nat × Nat × Nat) (ms : List Nat) (s : State) (h : Ready16 M0 rT syms frame rkBase 0 X ms s)
    (n : Nat) (hn : n ≤ 32) :
    ∃ s' ns, execList (rounds16Code n) s = .ok s' ∧
      Ready16 M0 rT syms frame rkBase n (fun j => iterN (fun i => unlanes 8 (kb i)) (X j) n) ns s' := by
  induction n with
  | zero => exact ⟨s, ms, rfl, h⟩
  | succ n ih =>
    obtain ⟨s1, ms1, hrun1, hr1⟩ := ih (by omega)
    obtain ⟨s2, ns, hrun2, _, hr2⟩ := ready16_step M0 rT hr syms frame rkBase n _ ms1 s1 (kb n) (by omega)
      (by rw [hr1.hmem]; exact hrk ms1 n (by omega)) (hkb n (by omega)) hr1
    exact ⟨s2, ns, execList_append_ok hrun1 hrun2, hr2⟩


/-! ### memory in the normal form `M0.set rT ⟨"dst", bytes, true⟩` -/

theorem write_nf (M0 : List Region) (rT : Nat) (hr : rT < M0.length) (bytes : List Nat) (off : Nat) (w : List Nat)
    (ho : off + w.length ≤ bytes.length) (hlt : off < 2 ^ 32) :
    writeMem (M0.set rT ⟨"dst", bytes, true⟩) (regionBase rT + off) w
      = .ok (M0.set rT ⟨"dst", bytes.take off ++ w ++ bytes.drop (off + w.length), true⟩) := by
  rw [write_region _ rT "dst" bytes off w (List.getElem?_set_self hr) ho hlt, List.set_set]

theorem read_nf (M0 : List Region) (rT : Nat) (hr : rT < M0.length) (bytes : List Nat) (off n : Nat)
    (ho : off + n ≤ bytes.length) (hlt : off < 2 ^ 32) :
    readMem (M0.set rT ⟨"dst", bytes, true⟩) (regionBase rT + off) n = .ok ((bytes.drop off).take n) :=
  read_region _ rT ⟨"dst", bytes, true⟩ off n (List.getElem?_set_self hr) ho hlt

/-- four 64-byte stores at 128, 192, 0, 64 cover a 256-byte buffer -/
theorem cover4 (d0 WZ WY WX WW : List Nat) (hd : d0.length = 256) (hz : WZ.length = 64)
    (hx : WX.length = 64) :
    ((((d0.take 128 ++ WX ++ d0.drop (128 + 64)).take 192 ++ WW ++ (d0.take 128 ++ WX ++ d0.drop (128 + 64)).drop (192 + 64)).take 0
        ++ WZ ++ ((d0.take 128 ++ WX ++ d0.drop (128 + 64)).take 192 ++ WW
          ++ (d0.take 128 ++ WX ++ d0.drop (128 + 64)).drop (192 + 64)).drop (0 + 64)).take 64 ++ WY
      ++ (((d0.take 128 ++ WX ++ d0.drop (128 + 64)).take 192 ++ WW ++ (d0.take 128 ++ WX ++ d0.drop (128 + 64)).drop (192 + 64)).take 0
        ++ WZ ++ ((d0.take 128 ++ WX ++ d0.drop (128 + 64)).take 192 ++ WW
          ++ (d0.take 128 ++ WX ++ d0.drop (128 + 64)).drop (192 + 64)).drop (0 + 64)).drop (64 + 64))
      = WZ ++ (WY ++ (WX ++ WW)) := by
  have l1 : (d0.take 128).length = 128 := by rw [List.length_take]; omega
  have l12 : (d0.take 128 ++ WX).length = 192 := by rw [List.length_append, l1, hx]
  have e2 : (d0.take 128 ++ WX ++ d0.drop (128 + 64)).take 192 ++ WW ++ (d0.take 128 ++ WX ++ d0.drop (128 + 64)).drop (192 + 64)
      = d0.take 128 ++ WX ++ WW := by
    rw [List.take_left' l12, List.drop_of_length_le (by simp [l1, hx, hd]), List.append_nil]
  rw [e2, List.take_zero, List.nil_append, Nat.zero_add, List.append_assoc (d0.take 128),
    List.drop_append_of_le_length (by omega), List.take_left' hz, show 64 + 64 = WZ.length + 64 by omega,
    ← List.drop_drop, List.drop_left, List.drop_left' (by rw [List.length_drop, l1])]
  simp only [List.append_assoc]

theorem blockAt_chunk (src : List Nat) (q e : Nat) (he : e < 4) :
    blockAt ((src.drop (64 * q)).take 64) e = blockAt src (4 * q + e) := by
  unfold blockAt
  rw [List.drop_take, List.take_take, Nat.min_eq_left (by omega), List.drop_drop]
  congr 2
  omega

/-! ### prologue -/

def nn3 : List Arr := [.none, .none, .none]

def pro16Code : List DInstr :=
  [ins .MOVD [.symAddr "SBox" 0, G 0] nn,
   ins .VLD1P [M 0 64, L4 16 17 18 19] [.none, .B16],
   ins .VLD1P [M 0 64, L4 20 21 22 23] [.none, .B16],
   ins .VLD1P [M 0 64, L4 24 25 26 27] [.none, .B16],
   ins .VLD1P [M 0 64, L4 28 29 30 31] [.none, .B16],
   ins .MOVD [.frame "rk" 0, G 10] nn,
   ins .MOVD [.frame "dst" 8, G 11] nn,
   ins .MOVD [.frame "src" 16, G 12] nn,
   ins .MOVD [.frame "tmp" 24, G 13] nn,
   ins .ADD [.imm 64, G 13, G 14] nn3,
   ins .ADD [.imm 128, G 13, G 16] nn3,
   ins .ADD [.imm 192, G 13, G 15] nn3,
   ins .ADD [.imm 128, G 12, G 17] nn3,
   ins .VMOVI [.imm 64, R 15] [.none, .B16],
   ins .VLD4P [M 17 64, L4 0 1 2 3] [.none, .S4],
   ins .VLD4P [M 17 64, L4 4 5 6 7] [.none, .S4],
   ins .VREV32 [R 0, R 0] r2, ins .VREV32 [R 1, R 1] r2, ins .VREV32 [R 2, R 2] r2, ins .VREV32 [R 3, R 3] r2,
   ins .VREV32 [R 4, R 4] r2, ins .VREV32 [R 5, R 5] r2, ins .VREV32 [R 6, R 6] r2, ins .VREV32 [R 7, R 7] r2,
   stashC 16 0, stashC 15 4,
   ins .VLD4P [M 12 64, L4 0 1 2 3] [.none, .S4],
   ins .VLD4P [M 12 64, L4 4 5 6 7] [.none, .S4],
   ins .VREV32 [R 0, R 0] r2, ins .VREV32 [R 1, R 1] r2, ins .VREV32 [R 2, R 2] r2, ins .VREV32 [R 3, R 3] r2,
   ins .VREV32 [R 4, R 4] r2, ins .VREV32 [R 5, R 5] r2, ins .VREV32 [R 6, R 6] r2, ins .VREV32 [R 7, R 7] r2,
   stashC 13 0, stashC 14 4]

attribute [local irreducible] execD

macro "vstep" : tactic => `(tactic|
  (apply exec_step
   · first
     | exact execD_vrev32 (hn := by rfl) (hd0 := by rfl) ..
     | exact execD_vmov_full (hn := by rfl) (hd0 := by rfl) ..
     | exact execD_movd_frame (hs := by assumption) (hd0 := by rfl) ..
     | exact execD_vmovi (hi := by decide) (hd0 := by rfl) ..
     | exact execD_add (hi := by decide) (hn := by rfl) (hd0 := by rfl) ..
   simp only [List.set_cons_succ, List.set_cons_zero]))

/-- the de-interleaved, byte-reversed register `r` of the 64-byte chunk `bs` -/
def ldReg (bs : List Nat) (r : Nat) : Nat :=
  vrev32 (unlanes 32 [leWord bs r, leWord bs (4 + r), leWord bs (8 + r), leWord bs (12 + r)])

/-- the sixteen register images after the prologue -/
def ms16 (src : List Nat) : List Nat :=
  [ldReg ((src.drop (64 * 0)).take 64) 0, ldReg ((src.drop (64 * 0)).take 64) 1, ldReg ((src.drop (64 * 0)).take 64) 2, ldReg ((src.drop (64 * 0)).take 64) 3, ldReg ((src.drop (64 * 1)).take 64) 0, ldReg ((src.drop (64 * 1)).take 64) 1, ldReg ((src.drop (64 * 1)).take 64) 2, ldReg ((src.drop (64 * 1)).take 64) 3, ldReg ((src.drop (64 * 2)).take 64) 0, ldReg ((src.drop (64 * 2)).take 64) 1, ldReg ((src.drop (64 * 2)).take 64) 2, ldReg ((src.drop (64 * 2)).take 64) 3, ldReg ((src.drop (64 * 3)).take 64) 0, ldReg ((src.drop (64 * 3)).take 64) 1, ldReg ((src.drop (64 * 3)).take 64) 2, ldReg ((src.drop (64 * 3)).take 64) 3]

set_option maxRecDepth 100000 in
set_option maxHeartbeats 1000000 in
theorem prologue16_spec (M0 : List Region) (rT : Nat) (hr : rT < M0.length) (d0 src : List Nat) (hd0 : d0.length = 256)
    (s : State) (hG : s.gpr.length = 31) (hV : s.vec.length = 32) (hmem : s.mem = M0.set rT ⟨"dst", d0, true⟩)
    (aSrc aRk : Nat) (hb : ∀ x ∈ src, x < 256) (hrT : regionBase rT + 256 < 2 ^ 64)
    (hS : lookup s.syms "SBox" = some 4294967296)
    (hS0 : ∀ bytes, readMem (M0.set rT ⟨"dst", bytes, true⟩) 4294967296 64 = .ok (sbQuarter 0))
    (hS1 : ∀ bytes, readMem (M0.set rT ⟨"dst", bytes, true⟩) 4294967360 64 = .ok (sbQuarter 1))
    (hS2 : ∀ bytes, readMem (M0.set rT ⟨"dst", bytes, true⟩) 4294967424 64 = .ok (sbQuarter 2))
    (hS3 : ∀ bytes, readMem (M0.set rT ⟨"dst", bytes, true⟩) 4294967488 64 = .ok (sbQuarter 3))
    (hSrc : lookup s.frame "src" = some aSrc) (hSrc' : aSrc + 256 < 2 ^ 64)
    (hI : ∀ bytes k, k < 4 → readMem (M0.set rT ⟨"dst", bytes, true⟩) (aSrc + 64 * k) 64 = .ok ((src.drop (64 * k)).take 64))
    (hRk : lookup s.frame "rk" = some aRk) (hDst : lookup s.frame "dst" = some (regionBase rT))
    (hTmp : lookup s.frame "tmp" = some (regionBase rT)) :
    ∃ s' ms, execList pro16Code s = .ok s' ∧
      Ready16 M0 rT s.syms s.frame aRk 0 (fun e => blockWords (blockAt src e)) ms s' := by
  obtain ⟨gpr, vec, mem, syms, frame⟩ := s
  simp only at hG hV hmem hS hSrc hRk hDst hTmp
  subst hmem
  obtain ⟨a0, a1, a2, a3, a4, a5, a6, a7, a8, a9, a10, a11, a12, a13, a14, a15, a16, a17, a18, a19, a20, a21, a22, a23, a24, a25, a26, a27, a28, a29, a30, rfl⟩ := list31 gpr hG
  obtain ⟨b0, b1, b2, b3, b4, b5, b6, b7, b8, b9, b10, b11, b12, b13, b14, b15, b16, b17, b18, b19, b20, b21, b22, b23, b24, b25, b26, b27, b28, b29, b30, b31, rfl⟩ := list32 vec hV
  -- the four stashes
  have il : ∀ t0 t1 t2 t3 : Nat, (img [t0, t1, t2, t3]).length = 64 := fun _ _ _ _ => by rw [img_length]; rfl
  have HX : ∀ t0 t1 t2 t3, writeMem (M0.set rT ⟨"dst", d0, true⟩) (regionBase rT + 16 * 8) (img [t0, t1, t2, t3]) = _ :=
    fun t0 t1 t2 t3 => write_nf M0 rT hr d0 (16 * 8) _ (by rw [il, hd0]; decide) (by decide)
  have HW : ∀ bytes, bytes.length = 256 → ∀ t0 t1 t2 t3,
      writeMem (M0.set rT ⟨"dst", bytes, true⟩) (regionBase rT + 16 * 12) (img [t0, t1, t2, t3]) = _ :=
    fun bytes hbl t0 t1 t2 t3 => write_nf M0 rT hr bytes (16 * 12) _ (by rw [il, hbl]; decide) (by decide)
  have HZ : ∀ bytes, bytes.length = 256 → ∀ t0 t1 t2 t3,
      writeMem (M0.set rT ⟨"dst", bytes, true⟩) (regionBase rT + 16 * 0) (img [t0, t1, t2, t3]) = _ :=
    fun bytes hbl t0 t1 t2 t3 => write_nf M0 rT hr bytes (16 * 0) _ (by rw [il, hbl]; decide) (by decide)
  have HY : ∀ bytes, bytes.length = 256 → ∀ t0 t1 t2 t3,
      writeMem (M0.set rT ⟨"dst", bytes, true⟩) (regionBase rT + 16 * 4) (img [t0, t1, t2, t3]) = _ :=
    fun bytes hbl t0 t1 t2 t3 => write_nf M0 rT hr bytes (16 * 4) _ (by rw [il, hbl]; decide) (by decide)
  have e14 : (regionBase rT + 16 * 0 + 64) % 2 ^ 64 = regionBase rT + 16 * 4 := by rw [Nat.mod_eq_of_lt (by omega)]
  have e16 : (regionBase rT + 16 * 0 + 128) % 2 ^ 64 = regionBase rT + 16 * 8 := by rw [Nat.mod_eq_of_lt (by omega)]
  have e15 : (regionBase rT + 16 * 0 + 192) % 2 ^ 64 = regionBase rT + 16 * 12 := by rw [Nat.mod_eq_of_lt (by omega)]
  have hTmp0 : lookup frame "tmp" = some (regionBase rT + 16 * 0) := by rw [hTmp, Nat.mul_zero, Nat.add_zero]
  have e17 : (aSrc + 128) % 2 ^ 64 = aSrc + 64 * 2 := Nat.mod_eq_of_lt (by omega)
  have eS2 : (aSrc + 64 * 2 + 64) % 2 ^ 64 = aSrc + 64 * 3 := by rw [Nat.mod_eq_of_lt (by omega)]
  have eS3 : (aSrc + 64 * 3 + 64) % 2 ^ 64 = aSrc + 64 * 4 := by rw [Nat.mod_eq_of_lt (by omega)]
  have eS0 : (aSrc + 64 * 0 + 64) % 2 ^ 64 = aSrc + 64 * 1 := by rw [Nat.mod_eq_of_lt (by omega)]
  have eS1 : (aSrc + 64 * 1 + 64) % 2 ^ 64 = aSrc + 64 * 2 := by rw [Nat.mod_eq_of_lt (by omega)]
  have hSrc0 : lookup frame "src" = some (aSrc + 64 * 0) := by rw [hSrc, Nat.mul_zero, Nat.add_zero]
  apply Exists.intro
  refine ⟨ms16 src, ?_, ?_⟩
  · unfold pro16Code stashC
    simp only [Nat.reduceAdd]
    apply exec_step
    · exact execD_movd_sym (hs := hS) (hd0 := by rfl) ..
    simp only [List.set_cons_succ, List.set_cons_zero, Nat.add_zero]
    apply exec_step
    · exact execD_ld1p_four (bs := sbQuarter 0) (hc := by decide) (hb := by rfl)
        (e0 := by rfl) (e1 := by rfl) (e2 := by rfl) (e3 := by rfl) (hload := hS0 _) ..
    simp only [List.set_cons_succ, List.set_cons_zero, Nat.reduceAdd, Nat.reducePow, Nat.reduceMod]
    apply exec_step
    · exact execD_ld1p_four (bs := sbQuarter 1) (hc := by decide) (hb := by rfl)
        (e0 := by rfl) (e1 := by rfl) (e2 := by rfl) (e3 := by rfl) (hload := hS1 _) ..
    simp only [List.set_cons_succ, List.set_cons_zero, Nat.reduceAdd, Nat.reducePow, Nat.reduceMod]
    apply exec_step
    · exact execD_ld1p_four (bs := sbQuarter 2) (hc := by decide) (hb := by rfl)
        (e0 := by rfl) (e1 := by rfl) (e2 := by rfl) (e3 := by rfl) (hload := hS2 _) ..
    simp only [List.set_cons_succ, List.set_cons_zero, Nat.reduceAdd, Nat.reducePow, Nat.reduceMod]
    apply exec_step
    · exact execD_ld1p_four (bs := sbQuarter 3) (hc := by decide) (hb := by rfl)
        (e0 := by rfl) (e1 := by rfl) (e2 := by rfl) (e3 := by rfl) (hload := hS3 _) ..
    simp only [List.set_cons_succ, List.set_cons_zero, Nat.reduceAdd, Nat.reducePow, Nat.reduceMod]
    vstep; vstep
    apply exec_step
    · exact execD_movd_frame (hs := hSrc0) (hd0 := by rfl) ..
    simp only [List.set_cons_succ, List.set_cons_zero]
    apply exec_step
    · exact execD_movd_frame (hs := hTmp0) (hd0 := by rfl) ..
    simp only [List.set_cons_succ, List.set_cons_zero]
    vstep; vstep; vstep; vstep; vstep
    simp only [Int.reduceToNat, e14, e16, e15, e17]
    apply exec_step
    · exact execD_ld4 (post := true) (bs := (src.drop (64 * 2)).take 64) (hc := by decide) (hb := by rfl)
        (e0 := by rfl) (e1 := by rfl) (e2 := by rfl) (e3 := by rfl) (hload := hI _ 2 (by decide)) ..
    simp only [List.set_cons_succ, List.set_cons_zero, if_true, eS2]
    apply exec_step
    · exact execD_ld4 (post := true) (bs := (src.drop (64 * 3)).take 64) (hc := by decide) (hb := by rfl)
        (e0 := by rfl) (e1 := by rfl) (e2 := by rfl) (e3 := by rfl) (hload := hI _ 3 (by decide)) ..
    simp only [List.set_cons_succ, List.set_cons_zero, if_true, eS3]
    vstep; vstep; vstep; vstep; vstep; vstep; vstep; vstep
    apply exec_step
    · exact execD_st1_img (hc := by decide) (hb := by rfl) (h0 := by rfl) (h1 := by rfl) (h2 := by rfl) (h3 := by rfl)
        (hstore := HX _ _ _ _) ..
    apply exec_step
    · exact execD_st1_img (hc := by decide) (hb := by rfl) (h0 := by rfl) (h1 := by rfl) (h2 := by rfl) (h3 := by rfl)
        (hstore := HW _ (by simp [il, hd0]) _ _ _ _) ..
    apply exec_step
    · exact execD_ld4 (post := true) (bs := (src.drop (64 * 0)).take 64) (hc := by decide) (hb := by rfl)
        (e0 := by rfl) (e1 := by rfl) (e2 := by rfl) (e3 := by rfl) (hload := hI _ 0 (by decide)) ..
    simp only [List.set_cons_succ, List.set_cons_zero, if_true, eS0]
    apply exec_step
    · exact execD_ld4 (post := true) (bs := (src.drop (64 * 1)).take 64) (hc := by decide) (hb := by rfl)
        (e0 := by rfl) (e1 := by rfl) (e2 := by rfl) (e3 := by rfl) (hload := hI _ 1 (by decide)) ..
    simp only [List.set_cons_succ, List.set_cons_zero, if_true, eS1]
    vstep; vstep; vstep; vstep; vstep; vstep; vstep; vstep
    apply exec_step
    · exact execD_st1_img (hc := by decide) (hb := by rfl) (h0 := by rfl) (h1 := by rfl) (h2 := by rfl) (h3 := by rfl)
        (hstore := HZ _ (by simp [il, hd0]) _ _ _ _) ..
    apply exec_step
    · exact execD_st1_img (hc := by decide) (hb := by rfl) (h0 := by rfl) (h1 := by rfl) (h2 := by rfl) (h3 := by rfl)
        (hstore := HY _ (by simp [il, hd0]) _ _ _ _) ..
    exact execList_nil _
  · have key : ∀ q, q < 4 → ∀ k, k < 4 → ∀ e, e < 4 →
        lane 32 e (ldReg ((src.drop (64 * q)).take 64) k) = cmp4 (blockWords (blockAt src (4 * q + e))) k := by
      intro q hq k hk e he
      have hbq : ∀ x ∈ (src.drop (64 * q)).take 64, x < 256 :=
        fun x hx => hb x (List.mem_of_mem_drop (List.mem_of_mem_take hx))
      unfold ldReg
      rw [ld4_lane _ hbq k hk e he, blockAt_chunk src q e he]
      have : k = 0 ∨ k = 1 ∨ k = 2 ∨ k = 3 := by omega
      rcases this with rfl | rfl | rfl | rfl <;> rfl
    refine ⟨by simp only [List.length_cons, List.length_nil, Nat.reduceAdd],
      by simp only [List.length_cons, List.length_nil, Nat.reduceAdd], rfl, rfl, ?_, ?_, ?_, ?_, ?_, ?_, ?_, ?_, ?_, ?_, ?_⟩
    · simp only [greg, List.getD_cons_succ, List.getD_cons_zero, Nat.mul_zero, Nat.add_zero]
    · simp only [greg, List.getD_cons_succ, List.getD_cons_zero]
    · simp only [greg, List.getD_cons_succ, List.getD_cons_zero, Nat.mul_zero, Nat.add_zero]
    · simp only [greg, List.getD_cons_succ, List.getD_cons_zero]
    · simp only [greg, List.getD_cons_succ, List.getD_cons_zero]
    · simp only [greg, List.getD_cons_succ, List.getD_cons_zero]
    · simp only [List.drop_succ_cons, List.drop_zero]
      exact tabs_loaded
    · rfl
    · simp only [il]
      congr 2
      refine (cover4 d0 _ _ _ _ hd0 (il _ _ _ _) (il _ _ _ _)).trans ?_
      rw [← img_append, ← img_append, ← img_append]
      rfl
    · intro q hq k hk j hj
      have hq' : q = 0 ∨ q = 1 ∨ q = 2 ∨ q = 3 := by omega
      have hk' : k = 0 ∨ k = 1 ∨ k = 2 ∨ k = 3 := by omega
      rcases hq' with rfl | rfl | rfl | rfl <;> rcases hk' with rfl | rfl | rfl | rfl <;>
        exact key _ (by decide) _ (by decide) j hj
    · intro q hq k hk j hj
      have hq' : q = 0 ∨ q = 1 := by omega
      have hk' : k = 0 ∨ k = 1 ∨ k = 2 ∨ k = 3 := by omega
      rcases hq' with rfl | rfl <;> rcases hk' with rfl | rfl | rfl | rfl <;>
        exact key _ (by decide) _ (by decide) j hj


/-! ### epilogue -/

/-- `storeOutputX8; popZ(StashX); popY(StashW); storeOutputX8` -/
def epi16Code : List DInstr := epi8Code ++ [popC 16 0, popC 15 4] ++ epi8Code

/-- the 64 output bytes of the blocks 4q … 4q+3 -/
def outQ (X : Nat → Nat × Nat × Nat × Nat) (q : Nat) : List Nat :=
  outBytes (X (4 * q)) ++ (outBytes (X (4 * q + 1)) ++ (outBytes (X (4 * q + 2)) ++ outBytes (X (4 * q + 3))))

set_option maxRecDepth 100000 in
set_option maxHeartbeats 1000000 in
theorem epilogue16_spec (M0 : List Region) (rT : Nat) (syms frame : List (String × Nat)) (rkBase : Nat)
    (X : Nat → Nat × Nat × Nat × Nat) (ms : List Nat) (s : State) (m1 m2 m3 m4 : List Region)
    (h : Ready16 M0 rT syms frame rkBase 32 X ms s) (hd : regionBase rT + 256 < 2 ^ 64)
    (hw0 : writeMem s.mem (regionBase rT) (outQ X 0) = .ok m1)
    (hw1 : writeMem m1 (regionBase rT + 64) (outQ X 1) = .ok m2)
    (hr2 : readMem m2 (regionBase rT + 16 * 8) 64 = .ok (img [ms.getD 8 0, ms.getD 9 0, ms.getD 10 0, ms.getD 11 0]))
    (hr3 : readMem m2 (regionBase rT + 16 * 12) 64 = .ok (img [ms.getD 12 0, ms.getD 13 0, ms.getD 14 0, ms.getD 15 0]))
    (hw2 : writeMem m2 (regionBase rT + 128) (outQ X 2) = .ok m3)
    (hw3 : writeMem m3 (regionBase rT + 192) (outQ X 3) = .ok m4) :
    ∃ s', execList epi16Code s = .ok s' ∧ s'.mem = m4 := by
  obtain ⟨hG, hV, -, -, -, hg11, -, -, hp16, hp15, -, hml, -, hinM, hinR⟩ := h
  obtain ⟨gpr, vec, mem0, syms0, frame0⟩ := s
  simp only at hG hV hw0
  obtain ⟨a0, a1, a2, a3, a4, a5, a6, a7, a8, a9, a10, a11, a12, a13, a14, a15, a16, a17, a18, a19, a20, a21, a22, a23, a24, a25, a26, a27, a28, a29, a30, rfl⟩ := list31 gpr hG
  obtain ⟨b0, b1, b2, b3, b4, b5, b6, b7, b8, b9, b10, b11, b12, b13, b14, b15, b16, b17, b18, b19, b20, b21, b22, b23, b24, b25, b26, b27, b28, b29, b30, b31, rfl⟩ := list32 vec hV
  obtain ⟨m0, m1, m2, m3, m4, m5, m6, m7, m8, m9, m10, m11, m12, m13, m14, m15, rfl⟩ := list16 ms hml
  simp only [greg, List.getD_cons_succ, List.getD_cons_zero] at hg11 hp16 hp15 hr2 hr3
  subst hg11 hp16 hp15
  -- the four groups of output bytes as ST4 produces them
  have hR := fun q (hq : q < 2) k (hk : k < 4) j (hj : j < 4) => hinR q hq k hk j hj
  have hM := fun q (hq : q < 4) k (hk : k < 4) j (hj : j < 4) => hinM q hq k hk j hj
  simp only [vreg, sreg, Nat.reduceAdd, Nat.reduceMod] at hR hM
  have o0 := st4_out b0 b1 b2 b3 (fun j => X (4 * 0 + j))
    (fun j hj => by have := hR 0 (by decide) 0 (by decide) j hj; simpa [cmp4] using this)
    (fun j hj => by have := hR 0 (by decide) 1 (by decide) j hj; simpa [cmp4] using this)
    (fun j hj => by have := hR 0 (by decide) 2 (by decide) j hj; simpa [cmp4] using this)
    (fun j hj => by have := hR 0 (by decide) 3 (by decide) j hj; simpa [cmp4] using this)
  have o1 := st4_out b4 b5 b6 b7 (fun j => X (4 * 1 + j))
    (fun j hj => by have := hR 1 (by decide) 0 (by decide) j hj; simpa [cmp4] using this)
    (fun j hj => by have := hR 1 (by decide) 1 (by decide) j hj; simpa [cmp4] using this)
    (fun j hj => by have := hR 1 (by decide) 2 (by decide) j hj; simpa [cmp4] using this)
    (fun j hj => by have := hR 1 (by decide) 3 (by decide) j hj; simpa [cmp4] using this)
  have o2 := st4_out (m8 % 2 ^ 128) (m9 % 2 ^ 128) (m10 % 2 ^ 128) (m11 % 2 ^ 128) (fun j => X (4 * 2 + j))
    (fun j hj => by have := hM 2 (by decide) 0 (by decide) j hj; rw [lane_mod128 j _ hj]; simpa [cmp4] using this)
    (fun j hj => by have := hM 2 (by decide) 1 (by decide) j hj; rw [lane_mod128 j _ hj]; simpa [cmp4] using this)
    (fun j hj => by have := hM 2 (by decide) 2 (by decide) j hj; rw [lane_mod128 j _ hj]; simpa [cmp4] using this)
    (fun j hj => by have := hM 2 (by decide) 3 (by decide) j hj; rw [lane_mod128 j _ hj]; simpa [cmp4] using this)
  have o3 := st4_out (m12 % 2 ^ 128) (m13 % 2 ^ 128) (m14 % 2 ^ 128) (m15 % 2 ^ 128) (fun j => X (4 * 3 + j))
    (fun j hj => by have := hM 3 (by decide) 0 (by decide) j hj; rw [lane_mod128 j _ hj]; simpa [cmp4] using this)
    (fun j hj => by have := hM 3 (by decide) 1 (by decide) j hj; rw [lane_mod128 j _ hj]; simpa [cmp4] using this)
    (fun j hj => by have := hM 3 (by decide) 2 (by decide) j hj; rw [lane_mod128 j _ hj]; simpa [cmp4] using this)
    (fun j hj => by have := hM 3 (by decide) 3 (by decide) j hj; rw [lane_mod128 j _ hj]; simpa [cmp4] using this)
  simp only [Nat.add_zero] at o0 o1 o2 o3
  unfold outQ at hw0 hw1 hw2 hw3
  rw [← o0] at hw0
  rw [← o1] at hw1
  rw [← o2] at hw2
  rw [← o3] at hw3
  have e1 : (regionBase rT + 64) % 2 ^ 64 = regionBase rT + 64 := Nat.mod_eq_of_lt (by omega)
  have e2 : (regionBase rT + 64 + 64) % 2 ^ 64 = regionBase rT + 128 := by rw [Nat.mod_eq_of_lt (by omega)]
  have e3 : (regionBase rT + 128 + 64) % 2 ^ 64 = regionBase rT + 192 := by rw [Nat.mod_eq_of_lt (by omega)]
  apply Exists.intro
  apply And.intro
  · unfold epi16Code epi8Code popC
    simp only [List.cons_append, List.nil_append, Nat.reduceAdd]
    mstep; mstep; mstep; mstep; mstep; mstep; mstep; mstep
    mstep; mstep; mstep; mstep; mstep; mstep; mstep; mstep; mstep; mstep; mstep; mstep
    apply exec_step
    · exact execD_st4 (post := true) (hc := by decide) (hb := by rfl) (h0 := by rfl) (h1 := by rfl) (h2 := by rfl)
        (h3 := by rfl) (hstore := hw0) ..
    simp only [List.set_cons_succ, List.set_cons_zero, if_true, e1]
    apply exec_step
    · exact execD_st4 (post := true) (hc := by decide) (hb := by rfl) (h0 := by rfl) (h1 := by rfl) (h2 := by rfl)
        (h3 := by rfl) (hstore := hw1) ..
    simp only [List.set_cons_succ, List.set_cons_zero, if_true, e2]
    apply exec_step
    · exact execD_ld1_img (hc := by decide) (hb := by rfl) (e0 := by rfl) (e1 := by rfl) (e2 := by rfl) (e3 := by rfl)
        (hload := hr2) ..
    simp only [List.set_cons_succ, List.set_cons_zero]
    apply exec_step
    · exact execD_ld1_img (hc := by decide) (hb := by rfl) (e0 := by rfl) (e1 := by rfl) (e2 := by rfl) (e3 := by rfl)
        (hload := hr3) ..
    simp only [List.set_cons_succ, List.set_cons_zero]
    mstep; mstep; mstep; mstep; mstep; mstep; mstep; mstep
    mstep; mstep; mstep; mstep; mstep; mstep; mstep; mstep; mstep; mstep; mstep; mstep
    apply exec_step
    · exact execD_st4 (post := true) (hc := by decide) (hb := by rfl) (h0 := by rfl) (h1 := by rfl) (h2 := by rfl)
        (h3 := by rfl) (hstore := hw2) ..
    simp only [List.set_cons_succ, List.set_cons_zero, if_true, e3]
    apply exec_step
    · exact execD_st4 (post := true) (hc := by decide) (hb := by rfl) (h0 := by rfl) (h1 := by rfl) (h2 := by rfl)
        (h3 := by rfl) (hstore := hw3) ..
    exact execList_nil _
  · rfl

end SMGo.Proofs.ISAValArm64
