import SMGo.Proofs.ISAValLadXs21
set_option linter.unusedSimpArgs false
namespace SMGo.Proofs.ISAVal
open SMGo.Model.ISAVal SMGo.Model.GCM SMGo.Proofs.GCM SMGo.Proofs.ISATouch
open SMGo.Model.ISA (Reg Opd Instr)

def gh1StepCode (D : Nat) : List DInstr := gh1Code D 21 ++ [ins .SUBQ [.imm 1, G 1] 0]

def hash2Code : List DInstr :=
  rbCode 16 9 0 1 ++ (rbCode 16 8 0 1 ++ ([ins .MOVQ [.imm 2, G 1] 0] ++ (gh1StepCode 9 ++ gh1StepCode 8)))
def hash1Code : List DInstr :=
  [ins .MOVQ [.imm 1, G 1] 0] ++ (rbCode 16 9 0 1 ++ gh1StepCode 9)

/-- one GHASH step of a class over the block held (reflected) in lane 0 of `D`, and the `SUBQ $1` that follows -/
theorem gh1Reg_spec (D : Nat) (hD : D ∈ [6, 7, 8, 9]) (s : State) (h : Nat) (gc : GhCtx h s) (y : Nat) (hy : vreg s 21 = y)
    (hylt : y < 2 ^ 128) (x : Nat) (hreg : lane 128 0 (vreg s D) = x) :
    ∃ s', execList (gh1StepCode D) s = .ok s' ∧ vreg s' 21 = gmulR h (y ^^^ x) ∧ vreg s' 21 < 2 ^ 128 ∧
      GhCtx h s' ∧ Keeps ghRegKeepG (ghKeepV D 21) (List.range 8) s s' := by
  have gi : ghInst D 21 := ⟨by simp only [List.mem_cons, List.not_mem_nil, or_false] at hD ⊢; omega, Or.inr rfl⟩
  obtain ⟨s1, hr1, lt1, v1⟩ := gh1_spec D 21 gi s gc.lenV h gc.hc y hy hylt
  have k1 := keeps_of_exec _ (gh1_writes D 21) hr1
  have hG1 : s1.gpr.length = 16 := k1.lenG.trans gc.lenG
  obtain ⟨s2, hr2⟩ : ∃ s2, execList [ins .SUBQ [.imm 1, G 1] 0] s1 = .ok s2 :=
    ⟨_, exec_step (a_subq_imm s1 1 1 (by omega)) rfl⟩
  have k2 := keeps_of_exec _ (sub1_writes 1 1) hr2
  have kA : Keeps ghRegKeepG (ghKeepV D 21) (List.range 8) s s2 :=
    (k1.mono (by decide) (fun _ h => h) (fun _ h => h)).trans
      (k2.mono (fun _ h => h) (fun n hn => List.mem_range.mpr (by simp [ghKeepV] at hn; omega)) (fun _ h => h))
  refine ⟨s2, execList_append_ok hr1 hr2, ?_, ?_, gc.of_keeps kA (ghRegs_keep D hD), kA⟩
  · rw [k2.v 21 (by decide), v1, hreg]
  · rw [k2.v 21 (by decide)]; exact lt1

theorem blkR_one (blk : List Nat) (hl : blk.length = 16) : blkR blk 0 = rb128 (unlanes 8 blk) := by
  unfold blkR; rw [Nat.mul_zero, List.drop_zero, List.take_of_length_le (by omega)]

theorem ghN_one (h y : Nat) (d : List Nat) (hl : d.length = 16) : ghN h 1 y d = gmulR h (y ^^^ rb128 (unlanes 8 d)) := by
  rw [ghN, ghN, List.take_of_length_le (by omega)]

theorem ghN_two (h y : Nat) (a b : List Nat) (ha : a.length = 16) (hb : b.length = 16) :
    ghN h 2 y (a ++ b) = gmulR h (gmulR h (y ^^^ rb128 (unlanes 8 a)) ^^^ rb128 (unlanes 8 b)) := by
  rw [ghN, List.take_left' ha, List.drop_left' ha, ghN_one h _ b hb]

set_option maxHeartbeats 1000000 in
theorem hash2_spec (s : State) (h : Nat) (gc : GhCtx h s) (y : Nat) (hy : vreg s 21 = y) (hylt : y < 2 ^ 128)
    (o0 o1 : List Nat) (ho0 : o0.length = 16 ∧ ∀ x ∈ o0, x < 2 ^ 8) (ho1 : o1.length = 16 ∧ ∀ x ∈ o1, x < 2 ^ 8)
    (hreg0 : vreg s 9 = unlanes 8 o0) (hreg1 : vreg s 8 = unlanes 8 o1) :
    ∃ s', execList hash2Code s = .ok s' ∧ vreg s' 21 = ghN h 2 y (o0 ++ o1) ∧ vreg s' 21 < 2 ^ 128 ∧ GhCtx h s' ∧
      Keeps ghRegKeepG hashKeepV (List.range 8) s s' := by
  obtain ⟨s1, hr1, l1, k1⟩ := rbReg_spec 16 9 (Or.inr rfl) (by decide) s h gc o0 ho0.1 ho0.2 hreg0
  have c1 := gc.of_keeps k1 (ghRegs_rb 9 (by decide))
  obtain ⟨s2, hr2, l2, k2⟩ := rbReg_spec 16 8 (Or.inr rfl) (by decide) s1 h c1 o1 ho1.1 ho1.2
    (by rw [k1.v 8 (by decide)]; exact hreg1)
  have c2 := c1.of_keeps k2 (ghRegs_rb 8 (by decide))
  obtain ⟨s3, hr3⟩ : ∃ s3, execList [ins .MOVQ [.imm 2, G 1] 0] s2 = .ok s3 :=
    ⟨_, exec_step (a_movq_imm s2 2 1 (by rw [c2.lenG]; omega)) rfl⟩
  have k3 := keeps_of_exec _ (movq1_writes 2) hr3
  have c3 := c2.of_keeps k3 (by decide)
  have y3 : vreg s3 21 = y := by
    rw [k3.v 21 (by decide), k2.v 21 (by decide), k1.v 21 (by decide)]; exact hy
  obtain ⟨s4, hr4, v4, lt4, c4, k4⟩ := gh1Reg_spec 9 (by decide) s3 h c3 y y3 hylt (blkR o0 0)
    (by rw [k3.v 9 (by decide), k2.v 9 (by decide)]; exact l1 0 (by decide))
  obtain ⟨s5, hr5, v5, lt5, c5, k5⟩ := gh1Reg_spec 8 (by decide) s4 h c4 _ v4 (v4 ▸ lt4) (blkR o1 0)
    (by rw [k4.v 8 (by decide), k3.v 8 (by decide)]; exact l2 0 (by decide))
  have mk : ∀ {a b : State} {G V : List Nat}, Keeps G V (List.range 8) a b → (∀ n, n ∈ ghRegKeepG → n ∈ G) → (∀ n, n ∈ hashKeepV → n ∈ V) →
      Keeps ghRegKeepG hashKeepV (List.range 8) a b := fun k hG hV => k.mono hG hV (fun _ h => h)
  refine ⟨s5, execList_append_ok hr1 (execList_append_ok hr2 (execList_append_ok hr3 (execList_append_ok hr4 hr5))), ?_, lt5, c5, ?_⟩
  · rw [v5, ghN_two h y o0 o1 ho0.1 ho1.1, blkR_one o0 ho0.1, blkR_one o1 ho1.1]
  · exact (mk k1 (by decide) (by decide)).trans ((mk k2 (by decide) (by decide)).trans ((mk k3 (fun _ h => h) (by decide)).trans
      ((mk k4 (fun _ h => h) (by decide)).trans (mk k5 (fun _ h => h) (by decide)))))

theorem hash1_spec (s : State) (h : Nat) (gc : GhCtx h s) (y : Nat) (hy : vreg s 21 = y) (hylt : y < 2 ^ 128)
    (o0 : List Nat) (ho0 : o0.length = 16 ∧ ∀ x ∈ o0, x < 2 ^ 8) (hreg0 : vreg s 9 = unlanes 8 o0) :
    ∃ s', execList hash1Code s = .ok s' ∧ vreg s' 21 = ghN h 1 y o0 ∧ vreg s' 21 < 2 ^ 128 ∧ GhCtx h s' ∧
      Keeps ghRegKeepG hashKeepV (List.range 8) s s' := by
  obtain ⟨s0, hr0⟩ : ∃ s0, execList [ins .MOVQ [.imm 1, G 1] 0] s = .ok s0 :=
    ⟨_, exec_step (a_movq_imm s 1 1 (by rw [gc.lenG]; omega)) rfl⟩
  have k0 := keeps_of_exec _ (movq1_writes 1) hr0
  have c0 := gc.of_keeps k0 (by decide)
  obtain ⟨s1, hr1, l1, k1⟩ := rbReg_spec 16 9 (Or.inr rfl) (by decide) s0 h c0 o0 ho0.1 ho0.2
    (by rw [k0.v 9 (by decide)]; exact hreg0)
  have c1 := c0.of_keeps k1 (ghRegs_rb 9 (by decide))
  have y1 : vreg s1 21 = y := by
    rw [k1.v 21 (by decide), k0.v 21 (by decide)]; exact hy
  obtain ⟨s4, hr4, v4, lt4, c4, k4⟩ := gh1Reg_spec 9 (by decide) s1 h c1 y y1 hylt (blkR o0 0) (l1 0 (by decide))
  have mk : ∀ {a b : State} {G V : List Nat}, Keeps G V (List.range 8) a b → (∀ n, n ∈ ghRegKeepG → n ∈ G) → (∀ n, n ∈ hashKeepV → n ∈ V) →
      Keeps ghRegKeepG hashKeepV (List.range 8) a b := fun k hG hV => k.mono hG hV (fun _ h => h)
  refine ⟨s4, execList_append_ok hr0 (execList_append_ok hr1 hr4), ?_, lt4, c4, ?_⟩
  · rw [v4, ghN_one h y o0 ho0.1, blkR_one o0 ho0.1]
  · exact (mk k0 (fun _ h => h) (by decide)).trans ((mk k1 (by decide) (by decide)).trans (mk k4 (fun _ h => h) (by decide)))

end SMGo.Proofs.ISAVal
