/-
  The two phases Seal and Open of the arm64 Go glue share, on the slice heap:
  `prelude` (H = E(0^128), J0 by `calculateFirstCounter`, the tag mask E(J0)) and `tagPhase`
  (GHASH over the additional data and the ciphertext, the length block, the mask) —
  each with its contract "no panic, only the locals change, they show the values of SP 800-38D".
  Core Lean only.
-/
import SMGo.Proofs.GCMGlueArm64Crypt
namespace SMGo.Proofs.GCMGlueA64
open SMGo SMGo.Model SMGo.Model.Mem SMGo.Model.GCMGlueA64 SMGo.Proofs.Slice
open SMGo.Spec.GCM
open SMGo.Proofs.GCMGlue (UnchangedOutside InRegion Nowhere fresh unchanged_refl unchanged_append
  unchanged_poke WF_of_unchanged Disjoint ExactOverlap Admissible)
open SMGo.Proofs.GCM (ghFold ghFold_nil ghFold_append ghFold_block blockToNat_lt
  blockToNat_natToBlock natToBlock_blockToNat natToBlock_length ofNatBE_length xorBytes_length)

/-- no byte `s` shows lies in the region -/
def Avoids (s : Slice) (R : Nat → Nat → Prop) : Prop :=
  ∀ a i, s.arr = some a → s.off ≤ i → i < s.off + s.len → ¬ R a i

theorem avoids_of_arr_ne {s t : Slice} (hne : s.arr ≠ t.arr) (k n : Nat) : Avoids s (InRegion t k n) := by
  intro a i ha _ _ ⟨hr, _, _⟩
  exact hne (ha.trans hr.symm)

theorem read_avoid {h h' : Heap} {R : Nat → Nat → Prop} (hu : UnchangedOutside h h' R)
    {s : Slice} (hwf : WF h s) (hav : Avoids s R) : read h' s = read h s :=
  read_of_UO hu s hwf hav

theorem j0_lt (H : Nat) (hH : H < 2 ^ 128) (iv : Bytes) : j0 H iv < 2 ^ 128 := by
  unfold j0
  split
  · apply blockToNat_lt
    simp [*]
  · rw [GCM.ghash_eq_ghFold]
    exact ghFold_lt hH (by decide) _

section phases
variable (k : Kernels) (hk : KSpec k)
include hk

/-! ### H, J0, the tag mask -/

/-- `g.cipher.Encrypt(H[:], H[:]); g.calculateFirstCounter(nonce, J0[:], H[:]);
    g.cipher.Encrypt(TMask[:], J0[:])` -/
def prelude (k : Kernels) (h : Heap) (nonce H J0 TMask : Slice) : Outcome Heap :=
  cipherEncrypt k h H H >>= fun h =>
  calculateFirstCounter k h nonce J0 H >>= fun h =>
  cipherEncrypt k h TMask J0

theorem prelude_spec (h : Heap) (nonce H J0 TMask : Slice)
    (wn : WF h nonce) (wH : WF h H) (wJ : WF h J0) (wT : WF h TMask)
    (lH : H.len = 16) (lJ : J0.len = 16) (lT : TMask.len = 16)
    (rH : read h H = List.replicate 16 0) (rJ : read h J0 = List.replicate 16 0)
    (hHJ : H.arr ≠ J0.arr) (hHT : H.arr ≠ TMask.arr) (hJT : J0.arr ≠ TMask.arr)
    (hnH : nonce.arr ≠ H.arr) (hnJ : nonce.arr ≠ J0.arr) :
    ∃ h', prelude k h nonce H J0 TMask = .ok h' ∧
      UnchangedOutside h h' (fun a i => Reg H a i ∨ Reg J0 a i ∨ Reg TMask a i) ∧
      read h' H = k.E (List.replicate 16 0) ∧
      read h' J0 = natToBlock (j0 (blockToNat (k.E (List.replicate 16 0))) (read h nonce)) ∧
      read h' TMask =
        k.E (natToBlock (j0 (blockToNat (k.E (List.replicate 16 0))) (read h nonce))) := by
  obtain ⟨h1, e1, u1, r1⟩ := cipherEncrypt_spec k hk h H H wH lH wH lH
  rw [rH] at r1
  have wn1 := WF_of_unchanged h h1 _ u1 _ wn
  have wH1 := WF_of_unchanged h h1 _ u1 _ wH
  have wJ1 := WF_of_unchanged h h1 _ u1 _ wJ
  have wT1 := WF_of_unchanged h h1 _ u1 _ wT
  have rJ1 : read h1 J0 = List.replicate 16 0 := by
    rw [read_avoid u1 wJ (avoids_of_arr_ne (Ne.symm hHJ) _ _), rJ]
  have rn1 : read h1 nonce = read h nonce := read_avoid u1 wn (avoids_of_arr_ne hnH _ _)
  obtain ⟨h2, e2, u2, r2⟩ := calculateFirstCounter_spec k hk h1 nonce J0 H wn1 wJ1 lJ rJ1 wH1 lH hHJ hnJ
  rw [r1, rn1] at r2
  have wH2 := WF_of_unchanged h1 h2 _ u2 _ wH1
  have wJ2 := WF_of_unchanged h1 h2 _ u2 _ wJ1
  have wT2 := WF_of_unchanged h1 h2 _ u2 _ wT1
  have rH2 : read h2 H = k.E (List.replicate 16 0) := by
    rw [read_avoid u2 wH1 (avoids_of_arr_ne hHJ _ _), r1]
  obtain ⟨h3, e3, u3, r3⟩ := cipherEncrypt_spec k hk h2 TMask J0 wT2 lT wJ2 lJ
  rw [r2] at r3
  refine ⟨h3, ?_, ?_, ?_, ?_, r3⟩
  · unfold prelude
    rw [e1, Outcome.bind_ok, e2, Outcome.bind_ok, e3]
  · refine UO_trans (UO_trans (UO_mono u1 (fun _ _ _ hr => Or.inl hr)) u2
      (fun _ _ _ hr => Or.inr (Or.inl hr))) u3 (fun _ _ _ hr => Or.inr (Or.inr hr))
  · rw [read_avoid u3 wH2 (avoids_of_arr_ne hHT _ _), rH2]
  · rw [read_avoid u3 wJ2 (avoids_of_arr_ne hJT _ _), r2]

/-! ### the tag -/

/-- `gHashUpdate(H, tag, aad); gHashUpdate(H, tag, c); gHashFinish(H, tag, aLen, cLen);
    xor16(&tag[0], &tag[0], &TMask[0])` -/
def tagPhase (k : Kernels) (h : Heap) (H tag TMask aad c : Slice) (aLen cLen : Nat) : Outcome Heap :=
  gHashUpdate k h H tag aad >>= fun h =>
  gHashUpdate k h H tag c >>= fun h =>
  gHashFinish k h H tag aLen cLen >>= fun h =>
  xorN k 16 h tag tag TMask

theorem tagPhase_spec (h : Heap) (H tag TMask aad c : Slice)
    (wH : WF h H) (wt : WF h tag) (wT : WF h TMask) (wa : WF h aad) (wc : WF h c)
    (lH : H.len = 16) (lt : tag.len = 16) (lT : TMask.len = 16)
    (rt : read h tag = List.replicate 16 0)
    (hHt : H.arr ≠ tag.arr) (hTt : TMask.arr ≠ tag.arr) (hat : aad.arr ≠ tag.arr)
    (hct : c.arr ≠ tag.arr) :
    ∃ h', tagPhase k h H tag TMask aad c aad.len c.len = .ok h' ∧
      UnchangedOutside h h' (Reg tag) ∧
      read h' tag = xorBytes (natToBlock (ghash (blockToNat (read h H))
        (pad16 (read h aad) ++ pad16 (read h c) ++ be64 (8 * (read h aad).length)
          ++ be64 (8 * (read h c).length)))) (read h TMask) := by
  have hHr : (read h H).length = 16 := by rw [length_read h H wH, lH]
  have hHlt := blockToNat_lt hHr
  have hal := length_read h aad wa
  have hcl := length_read h c wc
  have avH := avoids_of_arr_ne hHt 0 tag.len
  have avT := avoids_of_arr_ne hTt 0 tag.len
  have ava := avoids_of_arr_ne hat 0 tag.len
  have avc := avoids_of_arr_ne hct 0 tag.len
  obtain ⟨h1, e1, u1, r1⟩ := gHashUpdate_spec k hk h H tag aad wH lH wt lt wa hHt hat
  rw [rt, blockToNat_zero] at r1
  have wH1 := WF_of_unchanged h h1 _ u1 _ wH
  have wt1 := WF_of_unchanged h h1 _ u1 _ wt
  have wT1 := WF_of_unchanged h h1 _ u1 _ wT
  have wc1 := WF_of_unchanged h h1 _ u1 _ wc
  have rH1 : read h1 H = read h H := read_avoid u1 wH avH
  have rc1 : read h1 c = read h c := read_avoid u1 wc avc
  have rT1 : read h1 TMask = read h TMask := read_avoid u1 wT avT
  obtain ⟨h2, e2, u2, r2⟩ := gHashUpdate_spec k hk h1 H tag c wH1 lH wt1 lt wc1 hHt hct
  rw [rH1, rc1, r1, blockToNat_natToBlock (ghFold_lt hHlt (by decide) _)] at r2
  have wH2 := WF_of_unchanged h1 h2 _ u2 _ wH1
  have wt2 := WF_of_unchanged h1 h2 _ u2 _ wt1
  have wT2 := WF_of_unchanged h1 h2 _ u2 _ wT1
  have rH2 : read h2 H = read h H := by rw [read_avoid u2 wH1 avH, rH1]
  have rT2 : read h2 TMask = read h TMask := by rw [read_avoid u2 wT1 avT, rT1]
  obtain ⟨h3, e3, u3, r3⟩ := gHashFinish_spec k hk h2 H tag aad.len c.len wH2 lH wt2 lt
  rw [rH2, r2, blockToNat_natToBlock (ghFold_lt hHlt (ghFold_lt hHlt (by decide) _) _)] at r3
  have wt3 := WF_of_unchanged h2 h3 _ u3 _ wt2
  have wT3 := WF_of_unchanged h2 h3 _ u3 _ wT2
  have rT3 : read h3 TMask = read h TMask := by rw [read_avoid u3 wT2 avT, rT2]
  obtain ⟨h4, e4, u4, r4⟩ := xorN_spec k hk 16 (by omega) h3 tag tag TMask wt3 wt3 wT3
    (by omega) (by omega) (by omega)
  have ht16 : takeS tag 16 = tag := by rw [← lt]; exact takeS_len tag
  rw [ht16, rT3, r3, List.take_of_length_le (by rw [natToBlock_length]; omega),
    List.take_of_length_le (by rw [length_read h TMask wT, lT]; omega)] at r4
  refine ⟨h4, ?_, ?_, ?_⟩
  · unfold tagPhase
    rw [e1, Outcome.bind_ok, e2, Outcome.bind_ok, e3, Outcome.bind_ok, e4]
  · refine UO_trans (UO_trans (UO_trans u1 u2 (fun _ _ _ hr => hr)) u3 (fun _ _ _ hr => hr)) u4 ?_
    intro a i _ hr
    rw [Reg_eq, lt]; exact hr
  · rw [r4, hal, hcl, GCM.ghash_eq_ghFold]
    congr 2
    rw [List.append_assoc, List.append_assoc, ghFold_append _ _ _ _ _ (pad16_length' (read h aad)),
      ghFold_append _ _ _ _ _ (pad16_length' (read h c))]

end phases
end SMGo.Proofs.GCMGlueA64
