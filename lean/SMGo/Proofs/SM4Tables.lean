/-
  Lemmas for properties C05 and C18 (SM4 part): the tables regenerated from /repo/sm4/sm4_const.go are
  what the standard defines.  Every statement here is finite and is re-checked by the kernel whenever
  SMGo/Gen/SM4Const.lean is regenerated:
    * `sbox`   is the algebraic S-box (affine ∘ inversion in GF(2^8) ∘ affine) of the specification,
    * `s0..s3` are the images of the S-box under the linear transform L (byte placed at 24, 16, 8, 0),
    * `ck`     follows the formula ck_{i,j} = (4i+j)·7 mod 256, `fk0..fk3` are FK of the standard.
-/
import SMGo.Spec.SM4
import SMGo.Gen.SM4Const
namespace SMGo.Proofs.SM4
open SMGo

set_option maxRecDepth 100000

/-- entry `i` of a table given as `(List.range n).map f` -/
theorem getD_map_range (f : Nat → Nat) (n i : Nat) (hi : i < n) : ((List.range n).map f).getD i 0 = f i := by
  simp [List.getD_eq_getElem?_getD, List.getElem?_range hi]

theorem map_range_congr {α : Type} (f g : Nat → α) (n : Nat) (h : ∀ x, x < n → f x = g x) :
    (List.range n).map f = (List.range n).map g := by
  apply List.map_congr_left
  intro x hx
  exact h x (List.mem_range.mp hx)

/-! ### C18: S-box -/

/-- the generated S-box table is the algebraic S-box of the specification -/
theorem sbox_alg : Gen.SM4Const.sbox = (List.range 256).map Spec.SM4.sboxAlg := by
  decide +kernel

theorem sbox_length : Gen.SM4Const.sbox.length = 256 := by
  decide +kernel

/-- entry-wise form of `sbox_alg` -/
theorem sbox_getD (x : Nat) (hx : x < 256) : Gen.SM4Const.sbox.getD x 0 = Spec.SM4.sboxAlg x := by
  rw [sbox_alg, getD_map_range _ _ _ hx]

theorem sbox_entries_lt : ∀ x, x < 256 → Gen.SM4Const.sbox.getD x 0 < 256 := by
  decide +kernel

theorem sboxAlg_lt (x : Nat) (hx : x < 256) : Spec.SM4.sboxAlg x < 256 := by
  rw [← sbox_getD x hx]; exact sbox_entries_lt x hx

/-- position of every table entry: the table has no repeated entry -/
theorem sbox_idxOf_getD : ∀ x, x < 256 → Gen.SM4Const.sbox.idxOf (Gen.SM4Const.sbox.getD x 0) = x := by
  decide +kernel

/-- every byte value occurs in the table -/
theorem sbox_getD_idxOf : ∀ y, y < 256 →
    Gen.SM4Const.sbox.idxOf y < 256 ∧ Gen.SM4Const.sbox.getD (Gen.SM4Const.sbox.idxOf y) 0 = y := by
  decide +kernel

/-- the S-box is injective on 0..255 -/
theorem sboxAlg_injective (x y : Nat) (hx : x < 256) (hy : y < 256)
    (h : Spec.SM4.sboxAlg x = Spec.SM4.sboxAlg y) : x = y := by
  rw [← sbox_getD x hx, ← sbox_getD y hy] at h
  rw [← sbox_idxOf_getD x hx, ← sbox_idxOf_getD y hy, h]

/-- the S-box is surjective on 0..255; with `sboxAlg_lt` and `sboxAlg_injective`: a permutation of the bytes -/
theorem sboxAlg_surjective (y : Nat) (hy : y < 256) : ∃ x, x < 256 ∧ Spec.SM4.sboxAlg x = y := by
  obtain ⟨h1, h2⟩ := sbox_getD_idxOf y hy
  exact ⟨_, h1, by rw [← sbox_getD _ h1, h2]⟩

/-! ### C18: T-tables -/

/- The four checks run over the generated S-box table (fast); `sbox_alg` then replaces the table by the
   algebraic S-box. -/

theorem ttable_0_tbl : Gen.SM4Const.s0 = (List.range 256).map
    (fun x => (Spec.SM4.L (BitVec.ofNat 32 (Gen.SM4Const.sbox.getD x 0) <<< 24)).toNat) := by
  decide +kernel

theorem ttable_1_tbl : Gen.SM4Const.s1 = (List.range 256).map
    (fun x => (Spec.SM4.L (BitVec.ofNat 32 (Gen.SM4Const.sbox.getD x 0) <<< 16)).toNat) := by
  decide +kernel

theorem ttable_2_tbl : Gen.SM4Const.s2 = (List.range 256).map
    (fun x => (Spec.SM4.L (BitVec.ofNat 32 (Gen.SM4Const.sbox.getD x 0) <<< 8)).toNat) := by
  decide +kernel

theorem ttable_3_tbl : Gen.SM4Const.s3 = (List.range 256).map
    (fun x => (Spec.SM4.L (BitVec.ofNat 32 (Gen.SM4Const.sbox.getD x 0) <<< 0)).toNat) := by
  decide +kernel

/-- T-table 0: L applied to the S-box output placed in the most significant byte -/
theorem ttable_0 : Gen.SM4Const.s0 =
    (List.range 256).map (fun x => (Spec.SM4.L (BitVec.ofNat 32 (Spec.SM4.sboxAlg x) <<< 24)).toNat) := by
  rw [ttable_0_tbl]; apply map_range_congr; intro x hx; rw [sbox_getD x hx]

theorem ttable_1 : Gen.SM4Const.s1 =
    (List.range 256).map (fun x => (Spec.SM4.L (BitVec.ofNat 32 (Spec.SM4.sboxAlg x) <<< 16)).toNat) := by
  rw [ttable_1_tbl]; apply map_range_congr; intro x hx; rw [sbox_getD x hx]

theorem ttable_2 : Gen.SM4Const.s2 =
    (List.range 256).map (fun x => (Spec.SM4.L (BitVec.ofNat 32 (Spec.SM4.sboxAlg x) <<< 8)).toNat) := by
  rw [ttable_2_tbl]; apply map_range_congr; intro x hx; rw [sbox_getD x hx]

theorem ttable_3 : Gen.SM4Const.s3 =
    (List.range 256).map (fun x => (Spec.SM4.L (BitVec.ofNat 32 (Spec.SM4.sboxAlg x) <<< 0)).toNat) := by
  rw [ttable_3_tbl]; apply map_range_congr; intro x hx; rw [sbox_getD x hx]

theorem s0_getD (x : Nat) (hx : x < 256) :
    Gen.SM4Const.s0.getD x 0 = (Spec.SM4.L (BitVec.ofNat 32 (Spec.SM4.sboxAlg x) <<< 24)).toNat := by
  rw [ttable_0, getD_map_range _ _ _ hx]

theorem s1_getD (x : Nat) (hx : x < 256) :
    Gen.SM4Const.s1.getD x 0 = (Spec.SM4.L (BitVec.ofNat 32 (Spec.SM4.sboxAlg x) <<< 16)).toNat := by
  rw [ttable_1, getD_map_range _ _ _ hx]

theorem s2_getD (x : Nat) (hx : x < 256) :
    Gen.SM4Const.s2.getD x 0 = (Spec.SM4.L (BitVec.ofNat 32 (Spec.SM4.sboxAlg x) <<< 8)).toNat := by
  rw [ttable_2, getD_map_range _ _ _ hx]

theorem s3_getD (x : Nat) (hx : x < 256) :
    Gen.SM4Const.s3.getD x 0 = (Spec.SM4.L (BitVec.ofNat 32 (Spec.SM4.sboxAlg x) <<< 0)).toNat := by
  rw [ttable_3, getD_map_range _ _ _ hx]

/-! ### C18: key-schedule constants -/

theorem ck_formula : Gen.SM4Const.ck = (List.range 32).map (fun i => (Spec.SM4.CK i).toNat) := by
  decide +kernel

theorem ck_getD (i : Nat) (hi : i < 32) : BitVec.ofNat 32 (Gen.SM4Const.ck.getD i 0) = Spec.SM4.CK i := by
  rw [ck_formula, getD_map_range _ _ _ hi]
  simp

theorem fk_eq :
    [Gen.SM4Const.fk0, Gen.SM4Const.fk1, Gen.SM4Const.fk2, Gen.SM4Const.fk3] = Spec.SM4.FK.map BitVec.toNat := by
  decide +kernel

end SMGo.Proofs.SM4
