/-
  Lemmas for properties C05 and C18 (SM4 part): the tables regenerated from /repo/sm4/sm4_const.go are
  what the standard defines.  Every statement here is finite and is re-checked by the kernel whenever
  SMGo/Gen/SM4Const.lean is regenerated:
    * `sbox`   is the algebraic S-box (affine ∘ inversion in GF(2^8) ∘ affine) of the specification,
    * `s0..s3` are the images of the S-box under the linear transform L (byte placed at 24, 16, 8, 0),
    * `ck`     follows the formula ck_{i,j} = (4i+j)·7 mod 256, `fk0..fk3` are FK of the standard.
-/
import SMGo.Spec.SM4
import SMGo.Gen.SM4Const
namespace SMGo.Proofs.SM4
open SMGo

set_option maxRecDepth 100000

/-! ### C18: S-box -/

/-- the generated S-box table is the algebraic S-box of the specification -/
theorem sbox_alg : Gen.SM4Const.sbox = (List.range 256).map Spec.SM4.sboxAlg := by
  decide +kernel

theorem sbox_length : Gen.SM4Const.sbox.length = 256 := by
  decide +kernel

theorem sboxAlg_lt : ∀ x, x < 256 → Spec.SM4.sboxAlg x < 256 := by
  decide +kernel

/-- entry-wise form of `sbox_alg` -/
theorem sbox_getD (x : Nat) (hx : x < 256) : Gen.SM4Const.sbox.getD x 0 = Spec.SM4.sboxAlg x := by
  rw [sbox_alg, List.getD_eq_getElem?_getD, List.getElem?_map, List.getElem?_range hx]
  rfl

/-- the S-box is injective on 0..255 (hence, with `sboxAlg_lt`, a permutation of the bytes) -/
theorem sboxAlg_injective : ∀ x, x < 256 → ∀ y, y < 256 → Spec.SM4.sboxAlg x = Spec.SM4.sboxAlg y → x = y := by
  decide +kernel

/-- the S-box is surjective on 0..255 -/
theorem sboxAlg_surjective : ∀ y, y < 256 → ∃ x, x < 256 ∧ Spec.SM4.sboxAlg x = y := by
  decide +kernel

/-! ### C18: T-tables -/

/-- entry `x` of T-table `i`: L applied to the S-box output placed in byte `i` (big-endian) -/
def ttEntry (i : Nat) (x : Nat) : Nat :=
  (Spec.SM4.L (BitVec.ofNat 32 (Spec.SM4.sboxAlg x) <<< (24 - 8 * i))).toNat

theorem ttable_0 : Gen.SM4Const.s0 =
    (List.range 256).map (fun x => (Spec.SM4.L (BitVec.ofNat 32 (Spec.SM4.sboxAlg x) <<< 24)).toNat) := by
  decide +kernel

theorem ttable_1 : Gen.SM4Const.s1 =
    (List.range 256).map (fun x => (Spec.SM4.L (BitVec.ofNat 32 (Spec.SM4.sboxAlg x) <<< 16)).toNat) := by
  decide +kernel

theorem ttable_2 : Gen.SM4Const.s2 =
    (List.range 256).map (fun x => (Spec.SM4.L (BitVec.ofNat 32 (Spec.SM4.sboxAlg x) <<< 8)).toNat) := by
  decide +kernel

theorem ttable_3 : Gen.SM4Const.s3 =
    (List.range 256).map (fun x => (Spec.SM4.L (BitVec.ofNat 32 (Spec.SM4.sboxAlg x) <<< 0)).toNat) := by
  decide +kernel

theorem s0_getD (x : Nat) (hx : x < 256) :
    Gen.SM4Const.s0.getD x 0 = (Spec.SM4.L (BitVec.ofNat 32 (Spec.SM4.sboxAlg x) <<< 24)).toNat := by
  rw [ttable_0, List.getD_eq_getElem?_getD, List.getElem?_map, List.getElem?_range hx]
  rfl

theorem s1_getD (x : Nat) (hx : x < 256) :
    Gen.SM4Const.s1.getD x 0 = (Spec.SM4.L (BitVec.ofNat 32 (Spec.SM4.sboxAlg x) <<< 16)).toNat := by
  rw [ttable_1, List.getD_eq_getElem?_getD, List.getElem?_map, List.getElem?_range hx]
  rfl

theorem s2_getD (x : Nat) (hx : x < 256) :
    Gen.SM4Const.s2.getD x 0 = (Spec.SM4.L (BitVec.ofNat 32 (Spec.SM4.sboxAlg x) <<< 8)).toNat := by
  rw [ttable_2, List.getD_eq_getElem?_getD, List.getElem?_map, List.getElem?_range hx]
  rfl

theorem s3_getD (x : Nat) (hx : x < 256) :
    Gen.SM4Const.s3.getD x 0 = (Spec.SM4.L (BitVec.ofNat 32 (Spec.SM4.sboxAlg x) <<< 0)).toNat := by
  rw [ttable_3, List.getD_eq_getElem?_getD, List.getElem?_map, List.getElem?_range hx]
  rfl

/-! ### C18: key-schedule constants -/

theorem ck_formula : Gen.SM4Const.ck = (List.range 32).map (fun i => (Spec.SM4.CK i).toNat) := by
  decide +kernel

theorem ck_getD (i : Nat) (hi : i < 32) : BitVec.ofNat 32 (Gen.SM4Const.ck.getD i 0) = Spec.SM4.CK i := by
  rw [ck_formula, List.getD_eq_getElem?_getD, List.getElem?_map, List.getElem?_range hi]
  simp

theorem fk_eq :
    [Gen.SM4Const.fk0, Gen.SM4Const.fk1, Gen.SM4Const.fk2, Gen.SM4Const.fk3] = Spec.SM4.FK.map BitVec.toNat := by
  decide +kernel

end SMGo.Proofs.SM4
