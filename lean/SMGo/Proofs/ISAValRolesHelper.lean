import SMGo.Proofs.ISAValRoles
import SMGo.Gen.ListAmd64Helper
namespace SMGo.Proofs.ISATouch
open SMGo.Gen

/-- every instruction instance of ListAmd64Helper: `roleOk`, by evaluation in the kernel -/
theorem ok_ListAmd64Helper : allOk ListAmd64Helper.routines = true := by decide +kernel

end SMGo.Proofs.ISATouch
