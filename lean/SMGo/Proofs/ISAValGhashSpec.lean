import SMGo.Proofs.ISAValGhashMain
import SMGo.Proofs.GCMFinal
namespace SMGo.Proofs.ISAVal
open SMGo SMGo.Model.ISAVal SMGo.Model.ISA SMGo.Model.GCM SMGo.Proofs.GCM SMGo.Spec.GCM

/-! ### from numbers to the byte strings of the model -/

def toB (l : List Nat) : Bytes := l.map UInt8.ofNat

theorem toNatLE_eq (b : Bytes) : toNatLE b = unlanes 8 (b.map (·.toNat)) := by
  induction b with
  | nil => rfl
  | cons x xs ih => simp only [toNatLE, List.map_cons, unlanes_cons, ih]

theorem rev8N_lt : ∀ b, b < 256 → rev8N b < 256 := by decide +kernel

theorem rev8_toNat (b : Nat) (hb : b < 256) : (rev8 (UInt8.ofNat b)).toNat = rev8N b := by
  unfold rev8
  rw [UInt8.toNat_ofNat', UInt8.toNat_ofNat', Nat.mod_eq_of_lt hb]
  exact Nat.mod_eq_of_lt (rev8N_lt b hb)

/-- a block loaded into an X register and bit-reflected by `reverseBits` is `loadR` of the model -/
theorem rb128_loadR (blk : List Nat) (hl : blk.length = 16) (hb : ∀ x ∈ blk, x < 2 ^ 8) :
    rb128 (unlanes 8 blk) = loadR (toB blk) := by
  unfold rb128 loadR toB
  rw [lanes_unlanes 8 16 blk hb hl, toNatLE_eq, List.map_map, List.map_map]
  congr 1
  apply List.map_congr_left
  intro x hx
  exact (rev8_toNat x (hb x hx)).symm

theorem toB_take (l : List Nat) (n : Nat) : toB (l.take n) = (toB l).take n := by simp [toB, List.map_take]
theorem toB_drop (l : List Nat) (n : Nat) : toB (l.drop n) = (toB l).drop n := by simp [toB, List.map_drop]
theorem toB_length (l : List Nat) : (toB l).length = l.length := by simp [toB]

theorem blk_ok (d : List Nat) (hd : ∀ x ∈ d, x < 2 ^ 8) (off : Nat) (h : off + 16 ≤ d.length) :
    ((d.drop off).take 16).length = 16 ∧ ∀ x ∈ (d.drop off).take 16, x < 2 ^ 8 :=
  ⟨by rw [List.length_take, List.length_drop]; omega, fun x hx => hd x (List.mem_of_mem_drop (List.mem_of_mem_take hx))⟩

theorem ghN_eq (h : Nat) : ∀ (n y : Nat) (d : List Nat), (∀ x ∈ d, x < 2 ^ 8) → 16 * n ≤ d.length →
    ghN h n y d = ghBy1 h n y (toB d) := by
  intro n
  induction n with
  | zero => intro y d _ _; rfl
  | succ k ih =>
    intro y d hd hl
    have hb := blk_ok d hd 0 (by omega)
    simp only [List.drop_zero] at hb
    rw [ghN, ghBy1, ghStep1, ← toB_take, ← toB_drop, rb128_loadR _ hb.1 hb.2,
      ih _ _ (fun x hx => hd x (List.mem_of_mem_drop hx)) (by rw [List.length_drop]; omega)]

theorem hpow_hPowers (hB : Bytes) : hpow (loadR hB) 0 = (hPowers hB).h4 ∧ hpow (loadR hB) 1 = (hPowers hB).h3 ∧
    hpow (loadR hB) 2 = (hPowers hB).h2 ∧ hpow (loadR hB) 3 = (hPowers hB).h := ⟨rfl, rfl, rfl, rfl⟩

theorem ghStep4N_eq (hB : Bytes) (y : Nat) (d : List Nat) (hd : ∀ x ∈ d, x < 2 ^ 8) (hl : 64 ≤ d.length) :
    ghStep4N (loadR hB) y d = ghStep4 (hPowers hB) y (toB d) := by
  have b0 := blk_ok d hd 0 (by omega)
  have b1 := blk_ok d hd 16 (by omega)
  have b2 := blk_ok d hd 32 (by omega)
  have b3 := blk_ok d hd 48 (by omega)
  unfold ghStep4N ghStep4 blkR
  simp only [Nat.mul_zero, Nat.mul_one, Nat.reduceMul]
  rw [rb128_loadR _ b0.1 b0.2, rb128_loadR _ b1.1 b1.2, rb128_loadR _ b2.1 b2.2, rb128_loadR _ b3.1 b3.2,
    (hpow_hPowers hB).1, (hpow_hPowers hB).2.1, (hpow_hPowers hB).2.2.1, (hpow_hPowers hB).2.2.2]
  simp only [toB_take, toB_drop, List.drop_zero]

theorem ghN4_eq (hB : Bytes) : ∀ (m y : Nat) (d : List Nat), (∀ x ∈ d, x < 2 ^ 8) → 64 * m ≤ d.length →
    ghN4 (loadR hB) m y d = ghBy4 (hPowers hB) m y (toB d) := by
  intro m
  induction m with
  | zero => intro y d _ _; rfl
  | succ k ih =>
    intro y d hd hl
    rw [ghN4, ghBy4, ← toB_take, ← toB_drop,
      ghStep4N_eq hB y (d.take 64) (fun x hx => hd x (List.mem_of_mem_take hx)) (by rw [List.length_take]; omega),
      ih _ _ (fun x hx => hd x (List.mem_of_mem_drop hx)) (by rw [List.length_drop]; omega)]

/-- the block loop of the listing is `Model.GCM.ghBlocks` -/
theorem ghAllN_eq (hB : Bytes) (n y : Nat) (d : List Nat) (hd : ∀ x ∈ d, x < 2 ^ 8) (hl : 16 * n ≤ d.length) :
    ghAllN (loadR hB) n y d = ghBlocks (hPowers hB) y (toB d) n := by
  unfold ghAllN ghBlocks
  split
  · exact ghN_eq _ n y d hd hl
  · rw [ghN4_eq hB (n / 4) y d hd (by omega),
      ghN_eq _ (n % 4) _ (d.drop (64 * (n / 4))) (fun x hx => hd x (List.mem_of_mem_drop hx)) (by rw [List.length_drop]; omega),
      toB_drop]
    rfl

/-- the stored bytes are `storeR` of the model -/
theorem store_eq (y : Nat) (hy : y < 2 ^ 128) : lanes 8 16 (rb128 y) = (storeR y).map (·.toNat) := by
  unfold rb128
  rw [lanes_unlanes 8 16 _ (by
    intro x hx
    simp only [List.mem_map] at hx
    obtain ⟨p, hp, rfl⟩ := hx
    exact rev8N_lt p (mem_lanes_lt 8 16 y p hp)) (by simp [lanes_length])]
  unfold storeR lanes
  rw [List.map_map, List.map_map]
  apply List.map_congr_left
  intro i _
  simp only [Function.comp]
  have e : lane 8 i y = y / 256 ^ i % 256 := by
    unfold lane
    rw [Nat.shiftRight_eq_div_pow, show (256 : Nat) = 2 ^ 8 from rfl, ← Nat.pow_mul]
  rw [e, rev8_toNat _ (Nat.mod_lt _ (by decide))]


/-- **the listing of `gHashBlocks` computes the GHASH update of SP 800-38D** (A3 against the specification): for
    every `count ≥ 1`, every hash key H, every running value (tag) and `16·count` bytes of data, whatever the
    registers hold at entry: the run succeeds and the tag buffer holds
    `Y' = (…((Y ⊕ X₁)•H ⊕ X₂)•H … ⊕ X_count)•H`, the fold of Algorithm 2 continued from `Y` (`ghFold`; `ghash H x = ghFold H 0 x`) -/
theorem gHashBlocks_eq_spec (g v k h tag data : List Nat) (count : Nat)
    (hG : g.length = 16) (hV : v.length = 32) (hK : k.length = 8)
    (hh : h.length = 16) (ht : tag.length = 16) (hhb : ∀ x ∈ h, x < 2 ^ 8) (htb : ∀ x ∈ tag, x < 2 ^ 8)
    (hdb : ∀ x ∈ data, x < 2 ^ 8) (hc : 1 ≤ count) (hd : 16 * count ≤ data.length) (hdl : data.length < 2 ^ 32) :
    runGhash (ghFuel count) (ghashState g v k h tag data count)
      = .ok ((natToBlock (ghFold (blockToNat (toB h)) (blockToNat (toB tag)) ((toB data).take (16 * count)))).map (·.toNat)) := by
  rw [gHashBlocks_run g v k h tag data count hG hV hK hh ht hhb htb hdb hc hd hdl]
  have hhB : (toB h).length = 16 := by rw [toB_length]; exact hh
  have htB : (toB tag).length = 16 := by rw [toB_length]; exact ht
  have hdB : 16 * count ≤ (toB data).length := by rw [toB_length]; exact hd
  have hyl := loadR_lt htB
  rw [rb128_loadR h hh hhb, rb128_loadR tag ht htb, ghAllN_eq (toB h) count _ data hdb hd,
    ghBlocks_eq gmulOK (powOK_hPowers hhB) hyl (toB data) count hdB]
  have hrepY : Rep (loadR (toB tag)) (blockToNat (toB tag)) :=
    ⟨hyl, by rw [loadR_eq htB, rev128_rev128 (blockToNat_lt htB)]⟩
  have hrep := ghBy1_rep gmulOK (blockToNat_lt hhB) (show (hPowers (toB h)).h = rev128 (blockToNat (toB h)) from loadR_eq hhB)
    count (toB data) hrepY hdB
  rw [store_eq _ hrep.1, storeR_eq_natToBlock, hrep.2]

end SMGo.Proofs.ISAVal
