/-
  The generated compression function (`Gen.SM3Code.SM3.cf`, `partiallyExpand`, translated from sm3.go by
  `translate gosm3`) equals the hand-written model `Model.SM3.cf`, and never panics on a 64-byte block.
  Encoding: `Array (BitVec 32)` ↔ `List W32` and `Array UInt8` ↔ `Bytes` by `Array.toList` / `List.toArray`
  (`W32 = BitVec 32` by definition).
-/
import SMGo.Gen.SM3Code
import SMGo.Gen.SM3Const
import SMGo.Model.SM3State
import SMGo.Proofs.SM3GenLoop
import SMGo.Proofs.SM3Compress
namespace SMGo.Proofs.SM3Gen
open SMGo SMGo.Go

local notation "ttGen" => (List.map (BitVec.ofNat 32) Gen.SM3Const.tt : List W32)

/-! ### pure helpers -/

theorem p0_eq (x : BitVec 32) : Gen.SM3Code.p0 x = Model.SM3.p0 x := rfl
theorem p1_eq (x : BitVec 32) : Gen.SM3Code.p1 x = Model.SM3.p1 x := rfl
theorem ff1_eq (x y z : BitVec 32) : Gen.SM3Code.ff1 x y z = Model.SM3.ff1 x y z := rfl
theorem gg1_eq (x y z : BitVec 32) : Gen.SM3Code.gg1 x y z = Model.SM3.gg1 x y z := rfl

theorem rotl7 (x : W32) : x <<< 7 ||| x >>> 25 = Model.SM3.rotl x 7 := rfl
theorem rotl9 (x : W32) : x <<< 9 ||| x >>> 23 = Model.SM3.rotl x 9 := rfl
theorem rotl12 (x : W32) : x <<< 12 ||| x >>> 20 = Model.SM3.rotl x 12 := rfl
theorem rotl15 (x : W32) : x <<< 15 ||| x >>> 17 = Model.SM3.rotl x 15 := rfl
theorem rotl19 (x : W32) : x <<< 19 ||| x >>> 13 = Model.SM3.rotl x 19 := rfl

/-- the table of the generated code is the table of `Gen.SM3Const` (both regenerated from sm3.go) -/
theorem tt_toList : Gen.SM3Code.tt.toList = ttGen := by decide

/-! ### big-endian words -/

theorem wordsBE_append (a b : Bytes) (h : a.length % 4 = 0) : wordsBE (a ++ b) = wordsBE a ++ wordsBE b := by
  fun_induction wordsBE a with
  | case1 x y z t rest ih =>
    have : rest.length % 4 = 0 := by simp at h; omega
    simp [wordsBE, ih this]
  | case2 l hl =>
    match l, hl, h with
    | [], _, _ => simp
    | [_], _, h => simp at h
    | [_, _], _, h => simp at h
    | [_, _, _], _, h => simp at h
    | a :: b :: c :: d :: rest, hl, _ => exact absurd rfl (hl a b c d rest)

theorem wordsBE_four (l : Bytes) (h : l.length = 4) :
    wordsBE l = [be32 (l.getD 0 0) (l.getD 1 0) (l.getD 2 0) (l.getD 3 0)] := by
  match l, h with
  | [a, b, c, d], _ => rfl

theorem wordsBE_take_succ (m : Bytes) (i : Nat) (h : 4 * (i + 1) ≤ m.length) :
    wordsBE (m.take (4 * (i + 1))) =
      wordsBE (m.take (4 * i)) ++
        [be32 (((m.drop (4 * i)).take 4).getD 0 0) (((m.drop (4 * i)).take 4).getD 1 0)
          (((m.drop (4 * i)).take 4).getD 2 0) (((m.drop (4 * i)).take 4).getD 3 0)] := by
  have e : m.take (4 * (i + 1)) = m.take (4 * i) ++ (m.drop (4 * i)).take 4 := by
    rw [show 4 * (i + 1) = 4 * i + 4 by omega, List.take_add]
  have l1 : (m.take (4 * i)).length % 4 = 0 := by simp only [List.length_take]; omega
  have l2 : ((m.drop (4 * i)).take 4).length = 4 := by simp only [List.length_take, List.length_drop]; omega
  rw [e, wordsBE_append _ _ l1, wordsBE_four _ l2]

/-! ### `partiallyExpand` -/

/-- one step of the second loop of `partiallyExpand`, as the model writes it -/
def expandStep (w : List W32) (i : Nat) : List W32 :=
  let j := 16 + i
  w.set j (Model.SM3.p1 (w.getD (j-16) 0 ^^^ w.getD (j-9) 0 ^^^ Model.SM3.rotl (w.getD (j-3) 0) 15)
            ^^^ Model.SM3.rotl (w.getD (j-13) 0) 7 ^^^ w.getD (j-6) 0)

theorem expandStep_length (w : List W32) (i : Nat) : (expandStep w i).length = w.length := by
  simp [expandStep]

theorem foldl_expandStep_length (w : List W32) (l : List Nat) : (l.foldl expandStep w).length = w.length := by
  induction l generalizing w with
  | nil => rfl
  | cons a as ih => rw [List.foldl_cons, ih, expandStep_length]

theorem model_partiallyExpand (msg : Bytes) :
    Model.SM3.partiallyExpand msg =
      (List.range 5).foldl expandStep (wordsBE (msg.take 64) ++ List.replicate 52 0) := rfl

/-- `partiallyExpand(msg[0:64], &w)` on a fresh `w`: never panics, gives the model's 68 words -/
theorem partiallyExpand_eq (m : Array UInt8) (hm : m.size = 64) :
    Gen.SM3Code.partiallyExpand m (Array.replicate 68 0#32) =
      .ok (Model.SM3.partiallyExpand m.toList).toArray := by
  unfold Gen.SM3Code.partiallyExpand
  dsimp only
  refine bind_forIn_range_inv 0 16 _
    (fun i w => w.toList = wordsBE (m.toList.take (4 * i)) ++ List.replicate (68 - i) 0) _ _ _ ?_ ?_ (by omega) ?_
  · intro j w _ hj hI
    have hl : (wordsBE (m.toList.take (4 * j))).length = j := by
      rw [Proofs.SM3.wordsBE_length]; simp only [List.length_take, Array.length_toList, hm]; omega
    have hsz : w.size = 68 := by
      have := congrArg List.length hI
      simp only [Array.length_toList, List.length_append, hl, List.length_replicate] at this; omega
    rw [slice_ok m _ _ (by omega) (by omega) (by omega)]
    simp only [Res.bind_ok]
    rw [beUint32_ok _ (by simp only [List.size_toArray, List.length_take, List.length_drop, Array.length_toList]; omega)]
    simp only [Res.bind_ok]
    rw [set_ok w _ _ (by omega) (by omega)]
    refine ⟨_, rfl, ?_⟩
    have e1 : ((j : Int) * 4).toNat = 4 * j := by omega
    have e2 : ((j : Int) * 4 + 4).toNat = 4 * j + 4 := by omega
    have e3 : (j : Int).toNat = j := by omega
    simp only [e1, e2, e3, hI, Nat.add_sub_cancel_left]
    rw [wordsBE_take_succ _ _ (by simp only [Array.length_toList, hm]; omega)]
    rw [List.set_append_right _ _ (by omega), hl, Nat.sub_self]
    rw [show 68 - j = (68 - (j + 1)) + 1 by omega, List.replicate_succ, List.set_cons_zero]
    simp
  · simp [wordsBE]
  · intro w1 h1
    refine bind_forIn_range_inv 16 21 _
      (fun j w => w.toList = (List.range (j - 16)).foldl expandStep
        (wordsBE (m.toList.take 64) ++ List.replicate 52 0)) _ _ _ ?_ ?_ (by omega) ?_
    · intro j w h16 h21 hI
      have hsz : w.size = 68 := by
        have := congrArg List.length hI
        rw [foldl_expandStep_length] at this
        simp only [Array.length_toList, List.length_append, Proofs.SM3.wordsBE_length, List.length_take,
          List.length_replicate, hm] at this
        omega
      simp (disch := omega) only [get_ok w _ (0 : BitVec 32), set_ok, Res.bind_ok, Res.pure_eq]
      refine ⟨_, rfl, ?_⟩
      have t1 : ((j : Int) - 16).toNat = j - 16 := by omega
      have t2 : ((j : Int) - 9).toNat = j - 9 := by omega
      have t3 : ((j : Int) - 3).toNat = j - 3 := by omega
      have t4 : ((j : Int) - 13).toNat = j - 13 := by omega
      have t5 : ((j : Int) - 6).toNat = j - 6 := by omega
      have t6 : (j : Int).toNat = j := by omega
      simp only [t1, t2, t3, t4, t5, t6, p1_eq, rotl15, rotl7]
      rw [show j + 1 - 16 = (j - 16) + 1 by omega, List.range_succ, List.foldl_append, ← hI]
      simp only [List.foldl_cons, List.foldl_nil, expandStep]
      rw [show 16 + (j - 16) = j by omega]
    · simpa using h1
    · intro w2 h2
      simp only [Res.pure_eq, model_partiallyExpand]
      congr 1
      apply Array.ext'
      simpa using h2

theorem model_partiallyExpand_length (msg : Bytes) (h : 64 ≤ msg.length) :
    (Model.SM3.partiallyExpand msg).length = 68 := by
  rw [model_partiallyExpand, foldl_expandStep_length]
  simp only [List.length_append, Proofs.SM3.wordsBE_length, List.length_take, List.length_replicate]
  omega

theorem model_partiallyExpand_take (msg : Bytes) :
    Model.SM3.partiallyExpand (msg.take 64) = Model.SM3.partiallyExpand msg := by
  simp [Model.SM3.partiallyExpand, List.take_take]

/-! ### `cf` -/

theorem list8 {α : Type} (l : List α) (h : l.length = 8) :
    ∃ a b c d e f g k, l = [a, b, c, d, e, f, g, k] := by
  match l, h with
  | [a, b, c, d, e, f, g, k], _ => exact ⟨a, b, c, d, e, f, g, k, rfl⟩

/-- the eight working variables `a … h` as the generated `do` block carries them through its loops -/
abbrev R8 := BitVec 32 × BitVec 32 × BitVec 32 × BitVec 32 × BitVec 32 × BitVec 32 × BitVec 32 × BitVec 32

def regs8 (s : R8) : Model.SM3.Regs :=
  { a := s.1, b := s.2.1, c := s.2.2.1, d := s.2.2.2.1, e := s.2.2.2.2.1, f := s.2.2.2.2.2.1,
    g := s.2.2.2.2.2.2.1, h := s.2.2.2.2.2.2.2 }

/-- the state of the second loop: `a … h` and the ring `w` -/
abbrev R9 := BitVec 32 × BitVec 32 × BitVec 32 × BitVec 32 × BitVec 32 × BitVec 32 × BitVec 32 × BitVec 32
  × Array (BitVec 32)

def regs9 (s : R9) : Model.SM3.Regs :=
  { a := s.1, b := s.2.1, c := s.2.2.1, d := s.2.2.2.1, e := s.2.2.2.2.1, f := s.2.2.2.2.2.1,
    g := s.2.2.2.2.2.2.1, h := s.2.2.2.2.2.2.2.1 }

def w9 (s : R9) : Array (BitVec 32) := s.2.2.2.2.2.2.2.2

theorem roundLo_fst (tt : List W32) (s : List W32 × Model.SM3.Regs) (j : Nat) :
    (Model.SM3.roundLo tt s j).1 = s.1 := rfl

theorem foldl_roundLo_fst (tt : List W32) (s : List W32 × Model.SM3.Regs) (l : List Nat) :
    (l.foldl (Model.SM3.roundLo tt) s).1 = s.1 := by
  induction l generalizing s with
  | nil => rfl
  | cons a as ih => rw [List.foldl_cons, ih, roundLo_fst]

theorem size_tt : Gen.SM3Code.tt.size = 64 := rfl

/-- `(*SM3).cf` as generated: never panics on a value with 8 chaining words and a message of at least 64
    bytes, changes only `h`, and the new `h` is the model's `cf` -/
theorem cf_eq (s : Gen.SM3Code.SM3) (msg : Array UInt8) (hh : s.h.size = 8) (hm : 64 ≤ msg.size) :
    Gen.SM3Code.SM3.cf s msg =
      .ok { s with h := (Model.SM3.cf ttGen s.h.toList msg.toList).toArray } := by
  obtain ⟨h, x, nx, len⟩ := s
  obtain ⟨h0, h1, h2, h3, h4, h5, h6, h7, e⟩ := list8 h.toList (by simpa using hh)
  have eh : h = #[h0, h1, h2, h3, h4, h5, h6, h7] := by apply Array.ext'; simpa using e
  subst eh
  unfold Gen.SM3Code.SM3.cf
  dsimp only
  have g0 : Go.get #[h0, h1, h2, h3, h4, h5, h6, h7] 0 = Res.ok h0 := rfl
  have g1 : Go.get #[h0, h1, h2, h3, h4, h5, h6, h7] 1 = Res.ok h1 := rfl
  have g2 : Go.get #[h0, h1, h2, h3, h4, h5, h6, h7] 2 = Res.ok h2 := rfl
  have g3 : Go.get #[h0, h1, h2, h3, h4, h5, h6, h7] 3 = Res.ok h3 := rfl
  have g4 : Go.get #[h0, h1, h2, h3, h4, h5, h6, h7] 4 = Res.ok h4 := rfl
  have g5 : Go.get #[h0, h1, h2, h3, h4, h5, h6, h7] 5 = Res.ok h5 := rfl
  have g6 : Go.get #[h0, h1, h2, h3, h4, h5, h6, h7] 6 = Res.ok h6 := rfl
  have g7 : Go.get #[h0, h1, h2, h3, h4, h5, h6, h7] 7 = Res.ok h7 := rfl
  rw [g0, g1, g2, g3, g4, g5, g6, g7]
  simp only [Res.bind_ok]
  rw [slice_ok msg 0 64 (by omega) (by omega) (by omega), Res.bind_ok]
  have e64 : (List.take ((64 : Int).toNat - (0 : Int).toNat) (List.drop (0 : Int).toNat msg.toList)) = msg.toList.take 64 := by
    simp
  rw [e64, partiallyExpand_eq _ (by simp only [List.size_toArray, List.length_take, Array.length_toList]; omega),
    Res.bind_ok]
  simp only [model_partiallyExpand_take]
  generalize hwl : Model.SM3.partiallyExpand msg.toList = wl
  have hwlen : wl.length = 68 := by rw [← hwl]; exact model_partiallyExpand_length _ (by simpa using hm)
  refine bind_forIn_range_inv 0 16 _
    (fun j (s : R8) => (wl, regs8 s) = (List.range j).foldl (Model.SM3.roundLo ttGen)
        (wl, regs8 (h0, h1, h2, h3, h4, h5, h6, h7))) _ _ _ ?_ rfl (by omega) ?_
  · intro j s _ hj hI
    simp (disch := first | omega | (simp only [List.size_toArray, size_tt]; omega)) only
      [get_ok _ _ (0 : BitVec 32), Res.bind_ok, Res.pure_eq]
    refine ⟨_, rfl, ?_⟩
    rw [List.range_succ, List.foldl_append, ← hI]
    have t1 : (j : Int).toNat = j := by omega
    have t2 : ((j : Int) + 4).toNat = j + 4 := by omega
    simp only [t1, t2, tt_toList]
    rfl
  · intro s1 hs1
    refine bind_forIn_range_inv 16 64 _
      (fun j (s : R9) => (w9 s).size = 68 ∧ ((w9 s).toList, regs9 s) =
        (List.range (j - 16)).foldl (fun s i => Model.SM3.roundHi ttGen s (16 + i)) (wl, regs8 s1))
      _ _ _ ?_ ⟨by simpa [w9] using hwlen, rfl⟩ (by omega) ?_
    · intro j s h16 h64 hI
      obtain ⟨hsz, hI⟩ := hI
      obtain ⟨a, b, c, d, e, f, g, h, w⟩ := s
      simp only [w9] at hsz hI
      simp (disch := first | omega | (simp only [List.size_toArray, List.length_set, Array.length_toList, size_tt]; omega)) only
        [get_ok _ _ (0 : BitVec 32), set_ok, Res.bind_ok, Res.pure_eq]
      refine ⟨_, rfl, ?_, ?_⟩
      · simp only [w9, List.size_toArray, List.length_set, Array.length_toList]; exact hsz
      · rw [show j + 1 - 16 = (j - 16) + 1 by omega, List.range_succ, List.foldl_append, ← hI]
        have t0 : (j : Int).toNat = j := by omega
        have t1 : ((j : Int) + 4).toNat = j + 4 := by omega
        have t2 : ((j : Int) - 12).toNat = j - 12 := by omega
        have t3 : ((j : Int) - 5).toNat = j - 5 := by omega
        have t4 : ((j : Int) + 1).toNat = j + 1 := by omega
        have t5 : ((j : Int) - 9).toNat = j - 9 := by omega
        have t6 : ((j : Int) - 2).toNat = j - 2 := by omega
        simp only [t0, t1, t2, t3, t4, t5, t6, tt_toList, List.toList_toArray, w9, List.foldl_cons, List.foldl_nil]
        rw [show 16 + (j - 16) = j by omega]
        rfl
    · intro s2 hs2
      obtain ⟨hsz2, hs2⟩ := hs2
      simp (disch := first | omega | simp) only
        [get_ok _ _ (0 : BitVec 32), set_ok, Res.bind_ok, Res.pure_eq, List.set_cons_zero,
          List.set_cons_succ, List.getD_cons_zero, List.getD_cons_succ, Int.reduceToNat]
      have hcf : Model.SM3.cf ttGen [h0, h1, h2, h3, h4, h5, h6, h7] msg.toList =
          List.zipWith (· ^^^ ·) [h0, h1, h2, h3, h4, h5, h6, h7] (regs9 s2).toList := by
        unfold Model.SM3.cf
        simp only [hwl]
        have r0 : Model.SM3.regsOf [h0, h1, h2, h3, h4, h5, h6, h7] = regs8 (h0, h1, h2, h3, h4, h5, h6, h7) := rfl
        rw [r0, ← hs1, show (48 : Nat) = 64 - 16 from rfl, ← hs2]
      rw [hcf]
      rfl

end SMGo.Proofs.SM3Gen
