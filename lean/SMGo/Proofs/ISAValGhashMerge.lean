import SMGo.Proofs.ISAValGhashLoop1
namespace SMGo.Proofs.ISAVal
open SMGo.Model.ISAVal SMGo.Model.ISA SMGo.Model.GCM SMGo.Proofs.GCM

/-! ### qword view of VPERMQ and merge-masking -/

theorem lane64_mergeMask (n k new old q : Nat) (hq : q < n) :
    lane 64 q (mergeMask 64 n k new old) = if (k >>> q) % 2 = 1 then lane 64 q new else lane 64 q old := by
  unfold mergeMask
  rw [lane_unlanes 64 _ (by
    intro x hx
    simp only [List.mem_map, List.mem_range] at hx
    obtain ⟨j, _, rfl⟩ := hx
    split <;> exact lane_lt 64 _ _) q (by simpa using hq)]
  simp

theorem lane64_vpermq (n tbl idx q : Nat) (hq : q < n) :
    lane 64 q (map1 64 n (fun i => lane 64 (i % n) tbl) idx) = lane 64 (lane 64 q idx % n) tbl :=
  lane_map1 64 n q idx _ hq (fun _ _ => lane_lt 64 _ _)

theorem mergeMask_lt (n k new old : Nat) : mergeMask 64 n k new old < 2 ^ (64 * n) := by
  have := unlanes_lt 64 ((List.range n).map (fun j => if (k >>> j) % 2 = 1 then lane 64 j new else lane 64 j old)) (by
    intro x hx
    simp only [List.mem_map, List.mem_range] at hx
    obtain ⟨j, _, rfl⟩ := hx
    split <;> exact lane_lt 64 _ _)
  simpa [mergeMask] using this

/-- a 128-bit lane from its two qwords -/
theorem lane128_qwords (l v : Nat) : lane 128 l v = lane 64 (2 * l) v + 2 ^ 64 * lane 64 (2 * l + 1) v := by
  have h0 := lane_lane' 128 64 2 0 l v (by decide) (by decide)
  have h1 := lane_lane' 128 64 2 1 l v (by decide) (by decide)
  rw [Nat.add_zero] at h0
  rw [← h0, ← h1]
  have hx := lane_lt 128 l v
  generalize lane 128 l v = x at hx
  simp only [lane, Nat.mul_zero, Nat.shiftRight_zero, Nat.mul_one, Nat.shiftRight_eq_div_pow]
  have : x / 2 ^ 64 < 2 ^ 64 := by
    rw [Nat.div_lt_iff_lt_mul (by decide)]; exact hx
  rw [Nat.mod_eq_of_lt this, Nat.pow_zero, Nat.div_one]
  exact (Nat.mod_add_div x (2 ^ 64)).symm

theorem lane128_eq_of_qwords (l a b : Nat) (h0 : lane 64 (2 * l) a = lane 64 (2 * l) b)
    (h1 : lane 64 (2 * l + 1) a = lane 64 (2 * l + 1) b) : lane 128 l a = lane 128 l b := by
  rw [lane128_qwords, lane128_qwords, h0, h1]


def H01v : Nat := unlanes 8 Gen.AsmData.amd64_MERGE_H01
def H23v : Nat := unlanes 8 Gen.AsmData.amd64_MERGE_H23
/-- SHUFFLE_X_LANES as loaded into a Z register -/
def IDXv : Nat := unlanes 8 Gen.AsmData.amd64_SHUFFLE_X_LANES

theorem h01_q : lane 64 2 H01v = 0 ∧ lane 64 3 H01v = 1 := by decide +kernel
theorem h23_q : lane 64 4 H23v = 0 ∧ lane 64 5 H23v = 1 ∧ lane 64 6 H23v = 2 ∧ lane 64 7 H23v = 3 := by decide +kernel
theorem idx_q : lane 64 0 IDXv = 6 ∧ lane 64 1 IDXv = 7 := by decide +kernel

/-- the three merge-masked VPERMQ of `gHashBlocksLoopBy4Pre` gather H⁴ : H³ : H² : H into the four lanes -/
theorem merge_powers (h4x v5 v4 v19 : Nat) :
    let y29 := mergeMask 64 (8 * 32 / 64) 12 (map1 64 (32 / 8) (fun i => lane 64 (i % (32 / 8)) v5) H01v) h4x
    let y4 := mergeMask 64 (8 * 32 / 64) 12 (map1 64 (32 / 8) (fun i => lane 64 (i % (32 / 8)) v19) H01v) v4
    let z29 := mergeMask 64 (8 * 64 / 64) 240 (map1 64 (64 / 8) (fun i => lane 64 (i % (64 / 8)) y4) H23v) y29
    lane 128 0 z29 = lane 128 0 h4x ∧ lane 128 1 z29 = lane 128 0 v5 ∧
    lane 128 2 z29 = lane 128 0 v4 ∧ lane 128 3 z29 = lane 128 0 v19 := by
  intro y29 y4 z29
  have b12 : ((12 >>> 0) % 2 = 1) = False ∧ ((12 >>> 1) % 2 = 1) = False ∧ ((12 >>> 2) % 2 = 1) = True ∧ ((12 >>> 3) % 2 = 1) = True := by
    decide
  have b240 : ((240 >>> 0) % 2 = 1) = False ∧ ((240 >>> 1) % 2 = 1) = False ∧ ((240 >>> 2) % 2 = 1) = False ∧
      ((240 >>> 3) % 2 = 1) = False ∧ ((240 >>> 4) % 2 = 1) = True ∧ ((240 >>> 5) % 2 = 1) = True ∧
      ((240 >>> 6) % 2 = 1) = True ∧ ((240 >>> 7) % 2 = 1) = True := by decide
  -- qwords of y29 and y4
  have y29q0 : lane 64 0 y29 = lane 64 0 h4x := by
    show lane 64 0 (mergeMask 64 (8 * 32 / 64) 12 _ _) = _
    rw [lane64_mergeMask _ _ _ _ 0 (by decide), if_neg (by decide)]
  have y29q1 : lane 64 1 y29 = lane 64 1 h4x := by
    show lane 64 1 (mergeMask 64 (8 * 32 / 64) 12 _ _) = _
    rw [lane64_mergeMask _ _ _ _ 1 (by decide), if_neg (by decide)]
  have y29q2 : lane 64 2 y29 = lane 64 0 v5 := by
    show lane 64 2 (mergeMask 64 (8 * 32 / 64) 12 _ _) = _
    rw [lane64_mergeMask _ _ _ _ 2 (by decide), if_pos (by decide), lane64_vpermq _ _ _ 2 (by decide), h01_q.1]
  have y29q3 : lane 64 3 y29 = lane 64 1 v5 := by
    show lane 64 3 (mergeMask 64 (8 * 32 / 64) 12 _ _) = _
    rw [lane64_mergeMask _ _ _ _ 3 (by decide), if_pos (by decide), lane64_vpermq _ _ _ 3 (by decide), h01_q.2]
  have y4q0 : lane 64 0 y4 = lane 64 0 v4 := by
    show lane 64 0 (mergeMask 64 (8 * 32 / 64) 12 _ _) = _
    rw [lane64_mergeMask _ _ _ _ 0 (by decide), if_neg (by decide)]
  have y4q1 : lane 64 1 y4 = lane 64 1 v4 := by
    show lane 64 1 (mergeMask 64 (8 * 32 / 64) 12 _ _) = _
    rw [lane64_mergeMask _ _ _ _ 1 (by decide), if_neg (by decide)]
  have y4q2 : lane 64 2 y4 = lane 64 0 v19 := by
    show lane 64 2 (mergeMask 64 (8 * 32 / 64) 12 _ _) = _
    rw [lane64_mergeMask _ _ _ _ 2 (by decide), if_pos (by decide), lane64_vpermq _ _ _ 2 (by decide), h01_q.1]
  have y4q3 : lane 64 3 y4 = lane 64 1 v19 := by
    show lane 64 3 (mergeMask 64 (8 * 32 / 64) 12 _ _) = _
    rw [lane64_mergeMask _ _ _ _ 3 (by decide), if_pos (by decide), lane64_vpermq _ _ _ 3 (by decide), h01_q.2]
  have zlo : ∀ q, q < 4 → lane 64 q z29 = lane 64 q y29 := by
    intro q hq
    show lane 64 q (mergeMask 64 (8 * 64 / 64) 240 _ _) = _
    rw [lane64_mergeMask _ _ _ _ q (by omega)]
    have : ¬ ((240 >>> q) % 2 = 1) := by
      have h4 : q = 0 ∨ q = 1 ∨ q = 2 ∨ q = 3 := by omega
      rcases h4 with rfl | rfl | rfl | rfl <;> decide
    rw [if_neg this]
  have zhi : ∀ q i, 4 ≤ q → q < 8 → lane 64 q H23v = i → i < 8 → lane 64 q z29 = lane 64 i y4 := by
    intro q i hq4 hq8 hi hi8
    show lane 64 q (mergeMask 64 (8 * 64 / 64) 240 _ _) = _
    rw [lane64_mergeMask _ _ _ _ q (by omega)]
    have : (240 >>> q) % 2 = 1 := by
      have h4 : q = 4 ∨ q = 5 ∨ q = 6 ∨ q = 7 := by omega
      rcases h4 with rfl | rfl | rfl | rfl <;> decide
    rw [if_pos this, lane64_vpermq _ _ _ q (by omega), hi, Nat.mod_eq_of_lt (by omega)]
  refine ⟨?_, ?_, ?_, ?_⟩
  · exact lane128_eq_of_qwords 0 _ _ (by rw [zlo 0 (by decide), y29q0]) (by rw [zlo 1 (by decide), y29q1])
  · rw [lane128_qwords, lane128_qwords 0 v5, zlo 2 (by decide), zlo 3 (by decide), y29q2, y29q3]
  · rw [lane128_qwords, lane128_qwords 0 v4, zhi 4 0 (by decide) (by decide) h23_q.1 (by decide),
      zhi 5 1 (by decide) (by decide) h23_q.2.1 (by decide), y4q0, y4q1]
  · rw [lane128_qwords, lane128_qwords 0 v19, zhi 6 2 (by decide) (by decide) h23_q.2.2.1 (by decide),
      zhi 7 3 (by decide) (by decide) h23_q.2.2.2 (by decide), y4q2, y4q3]

end SMGo.Proofs.ISAVal
