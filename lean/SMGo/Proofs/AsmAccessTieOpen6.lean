/-
  C11 (memory safety, PARTIAL): bounded tie, part Open6.  Each theorem runs the address interpreter on the
  resolved GENERATED listing for every case of the group and compares with the hand-written model
  (`decide +kernel`: kernel evaluation, no native code).  Ranges: see `SMGo.Proofs.AsmAccessCases`.
-/
import SMGo.Proofs.AsmAccessCases

namespace SMGo.Proofs.AsmAccessTie
open SMGo.Proofs.AsmAccessCases
set_option maxRecDepth 100000

theorem open_tagF : (tagGroup false).all openCheck = true := by decide +kernel
theorem open_bigT : (bigGroup true).all openCheck = true := by decide +kernel
theorem open_bigF : (bigGroup false).all openCheck = true := by decide +kernel

end SMGo.Proofs.AsmAccessTie
