/-
  C08: the CT-IR label checker (SMGo/Model/CTIR.lean) evaluated by the kernel on the generated program
  (SMGo/Gen/CTIRProg.lean), part C (inversion by the addition chains, conversions, scalar element wrappers, point operations).  `check (slice prog f) sigs f = true` says: every function reachable
  from `f` respects its label signature (no secret reaches a branch or loop condition, an index, a slice
  bound, an allocation size, a shift count or a leaking external call; declassification only at the
  sites listed in its signature).  By `check_sound` (SMGo/Proofs/CTIRSound.lean) two runs of `f` on inputs
  that agree on the public parameters then leak the same trace, up to the declassified verdicts.
-/
import SMGo.Gen.CTIRProg
open SMGo.Model.CTIR SMGo.Gen.CTIRProg
set_option maxRecDepth 1000000
namespace SMGo.Proofs.CTIRCheck

theorem ct_Invert_p : check (slice prog f_fiat_SM2Element_Invert) sigs f_fiat_SM2Element_Invert = true := by decide +kernel
theorem ct_Invert_n : check (slice prog f_fiat_SM2ScalarElement_Invert) sigs f_fiat_SM2ScalarElement_Invert = true := by decide +kernel
theorem ct_sm2FermatInvert_FiatAC : check (slice prog f_fiat_sm2FermatInvert_FiatAC) sigs f_fiat_sm2FermatInvert_FiatAC = true := by decide +kernel
theorem ct_sm2ScalarFermatInvert_FiatAC : check (slice prog f_fiat_sm2ScalarFermatInvert_FiatAC) sigs f_fiat_sm2ScalarFermatInvert_FiatAC = true := by decide +kernel
theorem ct_Bytes_p : check (slice prog f_fiat_SM2Element_Bytes) sigs f_fiat_SM2Element_Bytes = true := by decide +kernel
theorem ct_bytes_p : check (slice prog f_fiat_SM2Element_bytes) sigs f_fiat_SM2Element_bytes = true := by decide +kernel
theorem ct_SetBytes_p : check (slice prog f_fiat_SM2Element_SetBytes) sigs f_fiat_SM2Element_SetBytes = true := by decide +kernel
theorem ct_SetBytes_n : check (slice prog f_fiat_SM2ScalarElement_SetBytes) sigs f_fiat_SM2ScalarElement_SetBytes = true := by decide +kernel
theorem ct_Equal_p : check (slice prog f_fiat_SM2Element_Equal) sigs f_fiat_SM2Element_Equal = true := by decide +kernel
theorem ct_IsZero_p : check (slice prog f_fiat_SM2Element_IsZero) sigs f_fiat_SM2Element_IsZero = true := by decide +kernel
theorem ct_ToBigInt_p : check (slice prog f_fiat_SM2Element_ToBigInt) sigs f_fiat_SM2Element_ToBigInt = true := by decide +kernel
theorem ct_sm2InvertEndianness : check (slice prog f_fiat_sm2InvertEndianness) sigs f_fiat_sm2InvertEndianness = true := by decide +kernel
theorem ct_sm2ScalarInvertEndianness : check (slice prog f_fiat_sm2ScalarInvertEndianness) sigs f_fiat_sm2ScalarInvertEndianness = true := by decide +kernel
theorem ct_Set_n : check (slice prog f_fiat_SM2ScalarElement_Set) sigs f_fiat_SM2ScalarElement_Set = true := by decide +kernel
theorem ct_One_n : check (slice prog f_fiat_SM2ScalarElement_One) sigs f_fiat_SM2ScalarElement_One = true := by decide +kernel
theorem ct_Add_n : check (slice prog f_fiat_SM2ScalarElement_Add) sigs f_fiat_SM2ScalarElement_Add = true := by decide +kernel
theorem ct_Sub_n : check (slice prog f_fiat_SM2ScalarElement_Sub) sigs f_fiat_SM2ScalarElement_Sub = true := by decide +kernel
theorem ct_Mul_n : check (slice prog f_fiat_SM2ScalarElement_Mul) sigs f_fiat_SM2ScalarElement_Mul = true := by decide +kernel
theorem ct_Square_n : check (slice prog f_fiat_SM2ScalarElement_Square) sigs f_fiat_SM2ScalarElement_Square = true := by decide +kernel
theorem ct_Select_n : check (slice prog f_fiat_SM2ScalarElement_Select) sigs f_fiat_SM2ScalarElement_Select = true := by decide +kernel
theorem ct_Bytes_n : check (slice prog f_fiat_SM2ScalarElement_Bytes) sigs f_fiat_SM2ScalarElement_Bytes = true := by decide +kernel
theorem ct_bytes_n : check (slice prog f_fiat_SM2ScalarElement_bytes) sigs f_fiat_SM2ScalarElement_bytes = true := by decide +kernel
theorem ct_Equal_n : check (slice prog f_fiat_SM2ScalarElement_Equal) sigs f_fiat_SM2ScalarElement_Equal = true := by decide +kernel
theorem ct_IsZero_n : check (slice prog f_fiat_SM2ScalarElement_IsZero) sigs f_fiat_SM2ScalarElement_IsZero = true := by decide +kernel
theorem ct_ToBigInt_n : check (slice prog f_fiat_SM2ScalarElement_ToBigInt) sigs f_fiat_SM2ScalarElement_ToBigInt = true := by decide +kernel
theorem ct_NewSM2Point : check (slice prog f_internal_NewSM2Point) sigs f_internal_NewSM2Point = true := by decide +kernel
theorem ct_NewFromXY : check (slice prog f_internal_NewFromXY) sigs f_internal_NewFromXY = true := by decide +kernel
theorem ct_PointSet : check (slice prog f_internal_SM2Point_Set) sigs f_internal_SM2Point_Set = true := by decide +kernel
theorem ct_Negate : check (slice prog f_internal_SM2Point_Negate) sigs f_internal_SM2Point_Negate = true := by decide +kernel
theorem ct_PointSelect : check (slice prog f_internal_SM2Point_Select) sigs f_internal_SM2Point_Select = true := by decide +kernel
theorem ct_Add : check (slice prog f_internal_SM2Point_Add) sigs f_internal_SM2Point_Add = true := by decide +kernel
theorem ct_Double : check (slice prog f_internal_SM2Point_Double) sigs f_internal_SM2Point_Double = true := by decide +kernel
theorem ct_TransformPrecomputed : check (slice prog f_internal_TransformPrecomputed) sigs f_internal_TransformPrecomputed = true := by decide +kernel

end SMGo.Proofs.CTIRCheck
