/-
  Symbolic execution of the arm64 listings (value interpreter SMGo/Model/ISAValArm64.lean — an UNVALIDATED
  transcription of the Arm ARM): straight-line blocks, the bridge from a decoded listing to a block, and one
  lemma per instruction shape on a structure-literal state.  Same architecture as SMGo/Proofs/ISAValRun.lean /
  ISAValStep.lean (amd64).
-/
import SMGo.Model.ISAValArm64Inst
import SMGo.Proofs.ISAValLanes
namespace SMGo.Proofs.ISAValArm64
open SMGo.Model.ISAValArm64 SMGo.Model.ISA
open SMGo.Model.ISAVal (lane lanes unlanes map1 map2 Region readMem writeMem lookup regionBase)

@[simp] theorem ok_bind {ε α β : Type} (a : α) (f : α → Except ε β) : (Except.ok a >>= f) = f a := rfl
@[simp] theorem error_bind {ε α β : Type} (e : ε) (f : α → Except ε β) : ((Except.error e : Except ε α) >>= f) = .error e := rfl
@[simp] theorem map_ok {ε α β : Type} (a : α) (f : α → β) : Except.map f (Except.ok a : Except ε α) = .ok (f a) := rfl
@[simp] theorem pure_eq_ok {ε α : Type} (a : α) : (pure a : Except ε α) = .ok a := rfl

/-- a straight-line block of decoded instructions -/
def execList (code : List DInstr) (s : State) : Except String State :=
  match code with
  | [] => .ok s
  | i :: rest =>
    match execD s i with
    | .ok s' => execList rest s'
    | .error e => .error e

theorem execList_append (a b : List DInstr) (s : State) :
    execList (a ++ b) s = match execList a s with | .ok s' => execList b s' | .error e => .error e := by
  induction a generalizing s with
  | nil => rfl
  | cons i rest ih =>
    simp only [List.cons_append, execList]
    cases execD s i with
    | error e => rfl
    | ok s' => exact ih s'

theorem execList_append_ok {a b : List DInstr} {s s' s'' : State}
    (ha : execList a s = .ok s') (hb : execList b s' = .ok s'') : execList (a ++ b) s = .ok s'' := by
  rw [execList_append, ha]; exact hb

theorem execList_nil (s : State) : execList [] s = .ok s := rfl

theorem exec_step {s s1 : State} {i : DInstr} {rest : List DInstr} {r : Except String State}
    (h : execD s i = .ok s1) (hr : execList rest s1 = r) : execList (i :: rest) s = r := by
  simp only [execList, h]; exact hr

def erasePc (i : DInstr) : DInstr := { i with pc := 0 }

theorem execList_erase (code : List DInstr) (s : State) : execList (code.map erasePc) s = execList code s := by
  induction code generalizing s with
  | nil => rfl
  | cons i rest ih =>
    simp only [List.map_cons, execList]
    rw [show execD s (erasePc i) = execD s i from rfl]
    cases execD s i with
    | error e => rfl
    | ok s' => exact ih s'

def ins (mn : Mn) (ops : List Opd) (arr : List Arr) : DInstr := ⟨0, mn, ops, arr⟩

/-- `RET (R30)` as decoded -/
def retI : DInstr := ins .RET [.mem (.gpr 30) none 0 0] [.none]

/-- running a straight-line block that ends in RET -/
theorem runFrom_straight (code : List DInstr) (ret : DInstr) (tail : List DInstr)
    (hc : ∀ i ∈ code, i.mn ≠ .RET) (hret : erasePc ret = retI)
    (s s' : State) (h : execList code s = .ok s') :
    runFrom (code ++ ret :: tail) s = .ok s' := by
  induction code generalizing s with
  | nil =>
    simp only [execList] at h
    have hs : s = s' := by injection h
    subst hs
    cases ret with
    | mk pc mn ops arr =>
      simp only [erasePc, retI, ins, DInstr.mk.injEq, true_and] at hret
      obtain ⟨rfl, rfl, rfl⟩ := hret
      rfl
  | cons i rest ih =>
    have hi := hc i (by simp)
    simp only [execList] at h
    cases hE : execD s i with
    | error e => simp [hE] at h
    | ok s1 =>
      rw [hE] at h
      simp only [List.cons_append, runFrom, if_neg hi, hE]
      exact ih (fun j hj => hc j (by simp [hj])) s1 h

/-- a listing that decodes (byte offsets aside) to the straight-line block `code` followed by RET runs as `code` -/
theorem run_of_decode (l : List Instr) (arrs : List (List String)) (code : List DInstr)
    (hd : (zipDecode l arrs).toOption.map (fun r => r.map erasePc) = some (code ++ [retI]))
    (hnc : code.all (fun i => i.mn != .RET) = true)
    (s s' : State) (h : execList code s = .ok s') : run l arrs s = .ok s' := by
  cases hr : zipDecode l arrs with
  | error e => rw [hr] at hd; simp [Except.toOption] at hd
  | ok r =>
    rw [hr] at hd
    simp only [Except.toOption, Option.map_some, Option.some.injEq] at hd
    obtain ⟨body, rest, rfl, hbody, hrest⟩ := List.map_eq_append_iff.mp hd
    obtain ⟨ret, rfl, hret⟩ : ∃ ret, rest = [ret] ∧ erasePc ret = retI := by
      cases rest with
      | nil => simp at hrest
      | cons a t =>
        cases t with
        | nil => exact ⟨a, rfl, by simpa using hrest⟩
        | cons b u => simp at hrest
    have hexec : execList body s = .ok s' := by rw [← execList_erase, hbody]; exact h
    have hc : ∀ i ∈ body, i.mn ≠ .RET := by
      intro i hi
      rw [← hbody, List.all_eq_true] at hnc
      have := hnc (erasePc i) (List.mem_map_of_mem hi)
      simpa [erasePc] using this
    unfold run
    rw [hr]
    exact runFrom_straight body ret [] hc hret s s' hexec

/-! ## operand abbreviations -/

def R (n : Nat) : Opd := .reg (.vec n)
def G (n : Nat) : Opd := .reg (.gpr n)
def M (b : Nat) (disp : Int) : Opd := .mem (.gpr b) none 0 disp
def L4 (a b c d : Nat) : Opd := .regs [.vec a, .vec b, .vec c, .vec d]

/-! ## one lemma per instruction shape

  Side conditions are stated so that `by rfl` closes them on an explicit state (`v[d]? = some _` rather than
  `d < v.length`: `simp` on a length goal traverses the whole symbolic register file). -/

theorem lt_of_get {l : List Nat} {d x : Nat} (h : l[d]? = some x) : d < l.length :=
  (List.getElem?_eq_some_iff.mp h).1

section
variable (g v : List Nat) (mem : List Region) (syms frame : List (String × Nat))

theorem execD_veor (m n d mv nv : Nat) (hm : v[m]? = some mv) (hn : v[n]? = some nv) (hd0 : v[d]? = some d0) :
    execD ⟨g, v, mem, syms, frame⟩ (ins .VEOR [R m, R n, R d] [.B16, .B16, .B16])
      = .ok ⟨g, v.set d (veor mv nv), mem, syms, frame⟩ := by
  have hd := lt_of_get hd0
  simp [execD, ins, R, exVec3, getV, setV, hm, hn, hd]

theorem execD_vsub (m n d mv nv : Nat) (hm : v[m]? = some mv) (hn : v[n]? = some nv) (hd0 : v[d]? = some d0) :
    execD ⟨g, v, mem, syms, frame⟩ (ins .VSUB [R m, R n, R d] [.B16, .B16, .B16])
      = .ok ⟨g, v.set d (vsubB mv nv), mem, syms, frame⟩ := by
  have hd := lt_of_get hd0
  simp [execD, ins, R, exVec3, getV, setV, hm, hn, hd]

theorem execD_vshl (sh : Int) (n d nv : Nat) (hsh : 0 ≤ sh ∧ sh ≤ 31) (hn : v[n]? = some nv) (hd0 : v[d]? = some d0) :
    execD ⟨g, v, mem, syms, frame⟩ (ins .VSHL [.imm sh, R n, R d] [.none, .S4, .S4])
      = .ok ⟨g, v.set d (vshlS sh.toNat nv), mem, syms, frame⟩ := by
  have hd := lt_of_get hd0
  simp [execD, ins, R, exShift, getV, setV, hn, hd, hsh]

theorem execD_vsri (sh : Int) (n d nv dv : Nat) (hsh : 1 ≤ sh ∧ sh ≤ 32) (hn : v[n]? = some nv)
    (hdv : v[d]? = some dv) :
    execD ⟨g, v, mem, syms, frame⟩ (ins .VSRI [.imm sh, R n, R d] [.none, .S4, .S4])
      = .ok ⟨g, v.set d (vsriS sh.toNat nv dv), mem, syms, frame⟩ := by
  have hd : d < v.length := lt_of_get hdv
  have hdv' : v[d] = dv := by rw [List.getElem?_eq_getElem hd] at hdv; exact Option.some.inj hdv
  simp [execD, ins, R, exShift, getV, setV, hn, hdv', hd, hsh]

theorem execD_vtbl (m n0 n1 n2 n3 d mv t0 t1 t2 t3 : Nat)
    (hc : n1 = (n0 + 1) % 32 ∧ n2 = (n0 + 2) % 32 ∧ n3 = (n0 + 3) % 32)
    (hm : v[m]? = some mv) (h0 : v[n0]? = some t0) (h1 : v[n1]? = some t1) (h2 : v[n2]? = some t2)
    (h3 : v[n3]? = some t3) (hd0 : v[d]? = some d0) :
    execD ⟨g, v, mem, syms, frame⟩ (ins .VTBL [R m, L4 n0 n1 n2 n3, R d] [.B16, .B16, .B16])
      = .ok ⟨g, v.set d (vtbl (tableBytes [t0, t1, t2, t3]) mv), mem, syms, frame⟩ := by
  have hd := lt_of_get hd0
  simp [execD, ins, R, L4, exTable, listRegs, hc.1.symm, hc.2.1.symm, hc.2.2.symm, getV, setV, hm, h0, h1, h2, h3, hd]

theorem execD_tbx (m n0 n1 n2 n3 d mv dv t0 t1 t2 t3 : Nat)
    (hc : n1 = (n0 + 1) % 32 ∧ n2 = (n0 + 2) % 32 ∧ n3 = (n0 + 3) % 32)
    (hm : v[m]? = some mv) (h0 : v[n0]? = some t0) (h1 : v[n1]? = some t1) (h2 : v[n2]? = some t2)
    (h3 : v[n3]? = some t3) (hdv : v[d]? = some dv) :
    execD ⟨g, v, mem, syms, frame⟩ (ins .TBX [R m, L4 n0 n1 n2 n3, R d] [.B16, .B16, .B16])
      = .ok ⟨g, v.set d (vtbx (tableBytes [t0, t1, t2, t3]) mv dv), mem, syms, frame⟩ := by
  have hd : d < v.length := lt_of_get hdv
  have hdv' : v[d] = dv := by rw [List.getElem?_eq_getElem hd] at hdv; exact Option.some.inj hdv
  simp [execD, ins, R, L4, exTable, listRegs, hc.1.symm, hc.2.1.symm, hc.2.2.symm, getV, setV, hm, h0, h1, h2, h3,
    hdv', hd]

theorem execD_vrev32 (n d nv : Nat) (hn : v[n]? = some nv) (hd0 : v[d]? = some d0) :
    execD ⟨g, v, mem, syms, frame⟩ (ins .VREV32 [R n, R d] [.B16, .B16])
      = .ok ⟨g, v.set d (vrev32 nv), mem, syms, frame⟩ := by
  have hd := lt_of_get hd0
  simp [execD, ins, R, exMove, getV, setV, hn, hd]

theorem execD_vmovi (imm : Int) (d : Nat) (hi : 0 ≤ imm ∧ imm ≤ 255) (hd0 : v[d]? = some d0) :
    execD ⟨g, v, mem, syms, frame⟩ (ins .VMOVI [.imm imm, R d] [.none, .B16])
      = .ok ⟨g, v.set d (vmovi8 imm.toNat), mem, syms, frame⟩ := by
  have hd := lt_of_get hd0
  simp [execD, ins, R, exMove, setV, hd, hi]

theorem execD_vmov_elem (n d i j nv dv : Nat) (hij : i < 4 ∧ j < 4) (hn : v[n]? = some nv) (hdv : v[d]? = some dv) :
    execD ⟨g, v, mem, syms, frame⟩ (ins .VMOV [R n, R d] [.S i, .S j])
      = .ok ⟨g, v.set d (setLaneS j dv (lane 32 i nv)), mem, syms, frame⟩ := by
  have hd : d < v.length := lt_of_get hdv
  have hdv' : v[d] = dv := by rw [List.getElem?_eq_getElem hd] at hdv; exact Option.some.inj hdv
  simp [execD, ins, R, exMove, getV, setV, hn, hdv', hd, hij]

theorem execD_vdup4 (n d i nv : Nat) (hi : i < 4) (hn : v[n]? = some nv) (hd0 : v[d]? = some d0) :
    execD ⟨g, v, mem, syms, frame⟩ (ins .VDUP [R n, R d] [.S i, .S4])
      = .ok ⟨g, v.set d (vdupS 4 i nv), mem, syms, frame⟩ := by
  have hd := lt_of_get hd0
  simp [execD, ins, R, exMove, getV, setV, hn, hd, hi]

theorem execD_vdup2 (n d i nv : Nat) (hi : i < 4) (hn : v[n]? = some nv) (hd0 : v[d]? = some d0) :
    execD ⟨g, v, mem, syms, frame⟩ (ins .VDUP [R n, R d] [.S i, .S2])
      = .ok ⟨g, v.set d (vdupS 2 i nv), mem, syms, frame⟩ := by
  have hd := lt_of_get hd0
  simp [execD, ins, R, exMove, getV, setV, hn, hd, hi]

theorem execD_movd_sym (name : String) (off d a : Nat) (hs : lookup syms name = some a) (hd0 : g[d]? = some d0) :
    execD ⟨g, v, mem, syms, frame⟩ (ins .MOVD [.symAddr name off, G d] [.none, .none])
      = .ok ⟨g.set d (a + off), v, mem, syms, frame⟩ := by
  have hd := lt_of_get hd0
  simp [execD, ins, G, exGeneral, hs, setG, hd]

theorem execD_movd_frame (name : String) (off d a : Nat) (hs : lookup frame name = some a) (hd0 : g[d]? = some d0) :
    execD ⟨g, v, mem, syms, frame⟩ (ins .MOVD [.frame name off, G d] [.none, .none])
      = .ok ⟨g.set d a, v, mem, syms, frame⟩ := by
  have hd := lt_of_get hd0
  simp [execD, ins, G, exGeneral, hs, setG, hd]

theorem execD_add (imm : Int) (n d x : Nat) (hi : 0 ≤ imm ∧ imm < 4096) (hn : g[n]? = some x) (hd0 : g[d]? = some d0) :
    execD ⟨g, v, mem, syms, frame⟩ (ins .ADD [.imm imm, G n, G d] [.none, .none, .none])
      = .ok ⟨g.set d ((x + imm.toNat) % 2 ^ 64), v, mem, syms, frame⟩ := by
  have hd := lt_of_get hd0
  simp [execD, ins, G, exGeneral, getG, setG, hn, hd, hi]

theorem execD_sub (imm : Int) (n d x : Nat) (hi : 0 ≤ imm ∧ imm < 4096) (hn : g[n]? = some x) (hd0 : g[d]? = some d0) :
    execD ⟨g, v, mem, syms, frame⟩ (ins .SUB [.imm imm, G n, G d] [.none, .none, .none])
      = .ok ⟨g.set d ((x + 2 ^ 64 - imm.toNat) % 2 ^ 64), v, mem, syms, frame⟩ := by
  have hd := lt_of_get hd0
  simp [execD, ins, G, exGeneral, getG, setG, hn, hd, hi]

/-- `VLD1.P 4(Rb), Vd.S[i]` -/
theorem execD_ld1p_lane (b d i gb dv : Nat) (bs : List Nat) (hi : i < 4)
    (hb : g[b]? = some gb) (hdv : v[d]? = some dv)
    (hload : readMem mem gb 4 = .ok bs) :
    execD ⟨g, v, mem, syms, frame⟩ (ins .VLD1P [M b 4, R d] [.none, .S i])
      = .ok ⟨g.set b ((gb + 4) % 2 ^ 64), v.set d (setLaneS i dv (unlanes 8 bs)), mem, syms, frame⟩ := by
  have hbl := lt_of_get hb
  have hd : d < v.length := lt_of_get hdv
  have hdv' : v[d] = dv := by rw [List.getElem?_eq_getElem hd] at hdv; exact Option.some.inj hdv
  have hb' : g[b] = gb := by rw [List.getElem?_eq_getElem hbl] at hb; exact Option.some.inj hb
  simp [execD, ins, R, M, exLd1, baseAddr, getG, getV, setV, setG, loadBytes, writeBack, hb', hdv', hd, hbl, hi, hload]

/-- `VLD1 (Rb), [Vd.S4]` -/
theorem execD_ld1_one (b d gb : Nat) (bs : List Nat)
    (hb : g[b]? = some gb) (hd0 : v[d]? = some d0) (hload : readMem mem gb 16 = .ok bs) :
    execD ⟨g, v, mem, syms, frame⟩ (ins .VLD1 [M b 0, .regs [.vec d]] [.none, .S4])
      = .ok ⟨g, v.set d (unlanes 8 (bs.take 16)), mem, syms, frame⟩ := by
  have hd := lt_of_get hd0
  simp [execD, ins, M, exLd1, baseAddr, listRegs, getG, setV, loadBytes, writeBack, hb, hd, hload,
    List.range, List.range.loop, List.foldlM]

/-- `VLD1.P 64(Rb), [Va.B16, Va+1.B16, Va+2.B16, Va+3.B16]` -/
theorem execD_ld1p_four (b n0 n1 n2 n3 gb : Nat) (bs : List Nat)
    (hc : n1 = (n0 + 1) % 32 ∧ n2 = (n0 + 2) % 32 ∧ n3 = (n0 + 3) % 32)
    (hb : g[b]? = some gb)
    (e0 : v[n0]? = some x0) (e1 : v[n1]? = some x1) (e2 : v[n2]? = some x2) (e3 : v[n3]? = some x3)
    (hload : readMem mem gb 64 = .ok bs) :
    execD ⟨g, v, mem, syms, frame⟩ (ins .VLD1P [M b 64, L4 n0 n1 n2 n3] [.none, .B16])
      = .ok ⟨g.set b ((gb + 64) % 2 ^ 64),
          (((v.set n0 (unlanes 8 (bs.take 16))).set n1 (unlanes 8 ((bs.drop 16).take 16))).set n2
            (unlanes 8 ((bs.drop 32).take 16))).set n3 (unlanes 8 ((bs.drop 48).take 16)),
          mem, syms, frame⟩ := by
  have hbl := lt_of_get hb
  have h0 := lt_of_get e0
  have h1 := lt_of_get e1
  have h2 := lt_of_get e2
  have h3 := lt_of_get e3
  have hb' : g[b] = gb := by rw [List.getElem?_eq_getElem hbl] at hb; exact Option.some.inj hb
  simp [execD, ins, M, L4, exLd1, baseAddr, listRegs, hc.1.symm, hc.2.1.symm, hc.2.2.symm, getG, setV, setG,
    loadBytes, writeBack, hb', hbl, h0, h1, h2, h3, hload, List.range, List.range.loop, List.foldlM]

/-- `VST1.P Vn.S[i], 4(Rb)` -/
theorem execD_st1p_lane (b n i gb nv : Nat) (mem' : List Region) (hi : i < 4)
    (hb : g[b]? = some gb) (hn : v[n]? = some nv)
    (hstore : writeMem mem gb (lanes 8 4 (lane 32 i nv)) = .ok mem') :
    execD ⟨g, v, mem, syms, frame⟩ (ins .VST1P [R n, M b 4] [.S i, .none])
      = .ok ⟨g.set b ((gb + 4) % 2 ^ 64), v, mem', syms, frame⟩ := by
  have hbl := lt_of_get hb
  have hb' : g[b] = gb := by rw [List.getElem?_eq_getElem hbl] at hb; exact Option.some.inj hb
  simp [execD, ins, R, M, exSt1, baseAddr, getG, getV, setG, storeBytes, writeBack, hb', hn, hbl, hi, hstore]

/-- `VST1 Vn.S[i], (Rb)` -/
theorem execD_st1_lane (b n i gb nv : Nat) (mem' : List Region) (hi : i < 4)
    (hb : g[b]? = some gb) (hn : v[n]? = some nv)
    (hstore : writeMem mem gb (lanes 8 4 (lane 32 i nv)) = .ok mem') :
    execD ⟨g, v, mem, syms, frame⟩ (ins .VST1 [R n, M b 0] [.S i, .none])
      = .ok ⟨g, v, mem', syms, frame⟩ := by
  simp [execD, ins, R, M, exSt1, baseAddr, getG, getV, storeBytes, writeBack, hb, hn, hi, hstore]

/-- little-endian word `j` of a byte string -/
def leWord (bs : List Nat) (j : Nat) : Nat := unlanes 8 ((bs.drop (4 * j)).take 4)

/-- `VLD4 (Rb), [Va.S4, …]` (`post = false`, `disp = 0`) and `VLD4.P 64(Rb), [Va.S4, …]` (`post = true`, `disp = 64`) -/
theorem execD_ld4 (post : Bool) (b n0 n1 n2 n3 gb : Nat) (bs : List Nat)
    (hc : n1 = (n0 + 1) % 32 ∧ n2 = (n0 + 2) % 32 ∧ n3 = (n0 + 3) % 32)
    (hb : g[b]? = some gb)
    (e0 : v[n0]? = some x0) (e1 : v[n1]? = some x1) (e2 : v[n2]? = some x2) (e3 : v[n3]? = some x3)
    (hload : readMem mem gb 64 = .ok bs) :
    execD ⟨g, v, mem, syms, frame⟩
        (ins (if post then .VLD4P else .VLD4) [M b (if post then 64 else 0), L4 n0 n1 n2 n3] [.none, .S4])
      = .ok ⟨if post then g.set b ((gb + 64) % 2 ^ 64) else g,
          (((v.set n0 (unlanes 32 [leWord bs 0, leWord bs 4, leWord bs 8, leWord bs 12])).set n1
              (unlanes 32 [leWord bs 1, leWord bs 5, leWord bs 9, leWord bs 13])).set n2
              (unlanes 32 [leWord bs 2, leWord bs 6, leWord bs 10, leWord bs 14])).set n3
              (unlanes 32 [leWord bs 3, leWord bs 7, leWord bs 11, leWord bs 15]),
          mem, syms, frame⟩ := by
  have hbl := lt_of_get hb
  have h0 := lt_of_get e0
  have h1 := lt_of_get e1
  have h2 := lt_of_get e2
  have h3 := lt_of_get e3
  have hb' : g[b] = gb := by rw [List.getElem?_eq_getElem hbl] at hb; exact Option.some.inj hb
  cases post <;>
    simp [execD, ins, M, L4, exLd4, baseAddr, listRegs, hc.1.symm, hc.2.1.symm, hc.2.2.symm, getG, setV, setG,
      loadBytes, writeBack, hb', hbl, h0, h1, h2, h3, hload, List.range, List.range.loop, List.foldlM, leWord]

/-- the 64 bytes stored by ST4 {Va.4S – Va+3.4S} -/
def st4Bytes (a b c d : Nat) : List Nat :=
  lanes 8 4 (lane 32 0 a) ++ lanes 8 4 (lane 32 0 b) ++ lanes 8 4 (lane 32 0 c) ++ lanes 8 4 (lane 32 0 d) ++
  lanes 8 4 (lane 32 1 a) ++ lanes 8 4 (lane 32 1 b) ++ lanes 8 4 (lane 32 1 c) ++ lanes 8 4 (lane 32 1 d) ++
  lanes 8 4 (lane 32 2 a) ++ lanes 8 4 (lane 32 2 b) ++ lanes 8 4 (lane 32 2 c) ++ lanes 8 4 (lane 32 2 d) ++
  lanes 8 4 (lane 32 3 a) ++ lanes 8 4 (lane 32 3 b) ++ lanes 8 4 (lane 32 3 c) ++ lanes 8 4 (lane 32 3 d)

/-- `VST4 [Va.S4, …], (Rb)` (`post = false`) and `VST4.P [Va.S4, …], 64(Rb)` (`post = true`) -/
theorem execD_st4 (post : Bool) (b n0 n1 n2 n3 gb t0 t1 t2 t3 : Nat) (mem' : List Region)
    (hc : n1 = (n0 + 1) % 32 ∧ n2 = (n0 + 2) % 32 ∧ n3 = (n0 + 3) % 32)
    (hb : g[b]? = some gb)
    (h0 : v[n0]? = some t0) (h1 : v[n1]? = some t1) (h2 : v[n2]? = some t2) (h3 : v[n3]? = some t3)
    (hstore : writeMem mem gb (st4Bytes t0 t1 t2 t3) = .ok mem') :
    execD ⟨g, v, mem, syms, frame⟩
        (ins (if post then .VST4P else .VST4) [L4 n0 n1 n2 n3, M b (if post then 64 else 0)] [.S4, .none])
      = .ok ⟨if post then g.set b ((gb + 64) % 2 ^ 64) else g, v, mem', syms, frame⟩ := by
  have hbl := lt_of_get hb
  have hb' : g[b] = gb := by rw [List.getElem?_eq_getElem hbl] at hb; exact Option.some.inj hb
  simp only [st4Bytes, List.append_assoc] at hstore
  cases post <;>
    simp [execD, ins, M, L4, exSt4, baseAddr, listRegs, hc.1.symm, hc.2.1.symm, hc.2.2.symm, getG, getV, setG,
      storeBytes, writeBack, hb', hbl, h0, h1, h2, h3, List.range, List.range.loop, hstore]

theorem execD_vmov_full (n d nv : Nat) (hn : v[n]? = some nv) (hd0 : v[d]? = some d0) :
    execD ⟨g, v, mem, syms, frame⟩ (ins .VMOV [R n, R d] [.B16, .B16])
      = .ok ⟨g, v.set d (nv % 2 ^ 128), mem, syms, frame⟩ := by
  have hd := lt_of_get hd0
  simp [execD, ins, R, exMove, getV, setV, hn, hd]

end

def vreg (s : State) (n : Nat) : Nat := s.vec.getD n 0
def greg (s : State) (n : Nat) : Nat := s.gpr.getD n 0

end SMGo.Proofs.ISAValArm64
