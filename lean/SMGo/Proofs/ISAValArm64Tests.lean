/-
  TESTS (labelled as such, no general statement): the regenerated arm64 listings of the SM4 routines of
  sm4/asm_arm64.s, run by the value interpreter of SMGo/Model/ISAValArm64.lean inside the Lean kernel
  (`decide +kernel`), give the ciphertexts / round keys of the specification on concrete inputs.
  The interpreter is an UNVALIDATED transcription of the Arm ARM (no arm64 CPU or emulator in the sandbox): these
  tests compare listing + transcription with the independent specification, not with a CPU.
  General theorems exist for `cryptoBlockAsm` (`kernelX1_eq_spec`), `expandKeyAsm` (`expandKey_eq_spec`),
  `cryptoBlockAsmX2 / X4 / X8` (`kernelX2_eq_spec`, `kernelX4_eq_spec`, `kernelX8_eq_spec`) and
  `cryptoBlockAsmX16Internal` with tmp = dst (`kernelX16_eq_spec`, SMGo/Proofs/ISAValArm64X16Final.lean).
-/
import SMGo.Model.ISAValArm64Inst
import SMGo.Proofs.ISAValTests
open SMGo.Model.ISAValArm64 SMGo

namespace SMGo.Proofs.ISAValArm64Tests
open SMGo.Proofs.ISAValTests (keyStd rkStd blocks16 specBlocks modelBlocks modelBlocks_eq)

/-- TEST: the arm64 listing of `cryptoBlockAsm` on the worked example of GB/T 32907 A.1 gives the standard's
    ciphertext -/
theorem test_X1_standard :
    runDst Gen.ListArm64Asm.cryptoBlockAsm Gen.ListArm64AsmArr.cryptoBlockAsm_arr
        (kernelState junkG junkV rkStd (List.replicate 16 0) keyStd)
      = .ok [0x68,0x1e,0xdf,0x34,0xd2,0x06,0x96,0x5e,0x86,0xb3,0xe9,0x4f,0x53,0x6e,0x42,0x46] := by
  decide +kernel

/-- TEST: the same called in place (`dst == src`) -/
theorem test_X1_inplace :
    runDst Gen.ListArm64Asm.cryptoBlockAsm Gen.ListArm64AsmArr.cryptoBlockAsm_arr
        (kernelStateInPlace junkG junkV rkStd keyStd)
      = .ok [0x68,0x1e,0xdf,0x34,0xd2,0x06,0x96,0x5e,0x86,0xb3,0xe9,0x4f,0x53,0x6e,0x42,0x46] := by
  decide +kernel

theorem test_X2_model :
    runDst Gen.ListArm64Asm.cryptoBlockAsmX2 Gen.ListArm64AsmArr.cryptoBlockAsmX2_arr
        (kernelState junkG junkV rkStd (List.replicate 32 0) (blocks16.take 32))
      = .ok (modelBlocks rkStd (blocks16.take 32)) := by
  decide +kernel

theorem test_X4_model :
    runDst Gen.ListArm64Asm.cryptoBlockAsmX4 Gen.ListArm64AsmArr.cryptoBlockAsmX4_arr
        (kernelState junkG junkV rkStd (List.replicate 64 0) (blocks16.take 64))
      = .ok (modelBlocks rkStd (blocks16.take 64)) := by
  decide +kernel

theorem test_X8_model :
    runDst Gen.ListArm64Asm.cryptoBlockAsmX8 Gen.ListArm64AsmArr.cryptoBlockAsmX8_arr
        (kernelState junkG junkV rkStd (List.replicate 128 0) (blocks16.take 128))
      = .ok (modelBlocks rkStd (blocks16.take 128)) := by
  decide +kernel

theorem test_X16_model :
    runDst Gen.ListArm64Asm.cryptoBlockAsmX16Internal Gen.ListArm64AsmArr.cryptoBlockAsmX16Internal_arr
        (kernelStateX16Go junkG junkV rkStd (List.replicate 256 0) blocks16)
      = .ok (modelBlocks rkStd blocks16) := by
  decide +kernel

/-- TEST: the arm64 listing of `cryptoBlockAsmX2` on two different blocks gives two encryptions of the
    specification (through the table-driven model of the portable code, equal to the specification by
    `cryptoBlock_eq`: evaluating the algebraic S-box 16 × 128 times inside the kernel is slow) -/
theorem test_X2 :
    runDst Gen.ListArm64Asm.cryptoBlockAsmX2 Gen.ListArm64AsmArr.cryptoBlockAsmX2_arr
        (kernelState junkG junkV rkStd (List.replicate 32 0) (blocks16.take 32))
      = .ok (specBlocks rkStd (blocks16.take 32)) := by
  rw [test_X2_model, modelBlocks_eq _ _ rfl]

/-- TEST: `cryptoBlockAsmX4` (VLD4/VST4 transposition), four different blocks -/
theorem test_X4 :
    runDst Gen.ListArm64Asm.cryptoBlockAsmX4 Gen.ListArm64AsmArr.cryptoBlockAsmX4_arr
        (kernelState junkG junkV rkStd (List.replicate 64 0) (blocks16.take 64))
      = .ok (specBlocks rkStd (blocks16.take 64)) := by
  rw [test_X4_model, modelBlocks_eq _ _ rfl]

/-- TEST: `cryptoBlockAsmX8`, eight different blocks -/
theorem test_X8 :
    runDst Gen.ListArm64Asm.cryptoBlockAsmX8 Gen.ListArm64AsmArr.cryptoBlockAsmX8_arr
        (kernelState junkG junkV rkStd (List.replicate 128 0) (blocks16.take 128))
      = .ok (specBlocks rkStd (blocks16.take 128)) := by
  rw [test_X8_model, modelBlocks_eq _ _ rfl]

/-- TEST: `cryptoBlockAsmX16Internal` called as the Go wrapper `cryptoBlockAsmX16` of sm4_asm_arm64.go calls it
    (the 256-byte scratch buffer `tmp` in which the state is stashed IS `dst`), sixteen different blocks -/
theorem test_X16 :
    runDst Gen.ListArm64Asm.cryptoBlockAsmX16Internal Gen.ListArm64AsmArr.cryptoBlockAsmX16Internal_arr
        (kernelStateX16Go junkG junkV rkStd (List.replicate 256 0) blocks16)
      = .ok (specBlocks rkStd blocks16) := by
  rw [test_X16_model, modelBlocks_eq _ _ rfl]

/-- TEST: the arm64 listing of `expandKeyAsm` on the example key of GB/T 32907 A.1 gives the round keys printed in
    the standard, forwards in `enc` and backwards in `dec` -/
theorem test_expandKey :
    runExpandKey (expandKeyState junkG junkV keyStd (List.replicate 128 0) (List.replicate 128 0))
      = .ok (rkStd, rkStd.reverse) := by
  decide +kernel

/-- … which are the round keys of the specification (`ISAValTests.test_expandKey_standard`) -/
theorem test_expandKey_spec :
    runExpandKey (expandKeyState junkG junkV keyStd (List.replicate 128 0) (List.replicate 128 0))
      = .ok (((Spec.SM4.keySchedule (keyStd.map UInt8.ofNat)).map (·.toNat)),
             ((Spec.SM4.keySchedule (keyStd.map UInt8.ofNat)).reverse.map (·.toNat))) := by
  rw [test_expandKey, List.map_reverse, ISAValTests.test_expandKey_standard]

end SMGo.Proofs.ISAValArm64Tests
