/-
  Refinement of the regenerated IR of the arm64 GCM Go glue (SMGo/Gen/CTIRProgSM4.lean, namespace Arm64): the SMALL
  functions, in the shapes of the interface SMGo/Proofs/CTIRRefineGCMLeaf.lean.

  1. `specSem`, `specSem_leafSpec`: an inhabitant of `LeafSpec` (hence of `LeafOk`): the assembly semantics built from the
     specification functions (SM4 `Spec.SM4.cryptFast rkw` on n blocks, `xorBytes`, the GHASH step `mulGF`), the copy of
     `sem` of Driver/CTIRSM4.lean with the routine names resolved to their numbers (`extNames` of the Arm64 program) and
     the round keys a parameter.
  2. for any program `P` with `HasSmall P` (true of the arm64 program: `hasSmall_PA`), any globals, any oracle with
     `LeafOk O E rk`: `encrypt_computes` (1), `firstCounter_computes` (2), `ghUpdate_computes` (3), `ghFinish_computes` (4),
     `ensure_computes` (5), `fillSingleBlock_computes` (8), `fill16_computes` (12), with closed fuels.
     `fillOk : FillOk P G O fuelFill` (functions 12, 11, 10, 9, 7: the lanes by induction, `lanes_pre`, bodies `fn_k_body`
     by rfl against the generator `lanesFrom`), and `glueCallees_small`: `GlueCallees` from these theorems and the
     `cryptoBlocks` statement (hypothesis).

  DEVIATIONS from the first version of `GlueCallees` (extra hypotheses, now part of the interface; without them an int64
  operation of the IR wraps):
  * `ghUpdate_computes`: `inp.length < 2 ^ 63` (`l - r` in int64, then `in[l-r:]`);
  * `firstCounter_computes`: `nonce.length < 2 ^ 61` (through gHashFinish: `plainLen << 3`);
  * `fillSingleBlock_computes`: `dst.length < 2 ^ 63` (the `copy` count).

  The regenerated IR bounds-checks every pointer argument `&a[0]` of a routine (one `.assign _ [] (.idxc a 0)` per pointer,
  before the frame record): `evalV_chk`; the round keys are non-empty by `LeafOk.rk_ne` (hence `specSem_leafSpec` takes
  `rkw ≠ []`), `LeafOk.gh` is used with `count ≥ 1` only (`l ≥ 16` in the guarded branch of gHashUpdate, 1 elsewhere).
-/
import SMGo.Proofs.CTIRRefineGCMLeaf
open SMGo SMGo.Model.CTIR SMGo.Proofs.CTIRRefineUtils
open SMGo.Proofs.CTIRRefineField (Computes Pre)
open SMGo.Spec.GCM
open SMGo.Model.GCMGlueA64 (blocksE ghBlocks specGh)
open SMGo.Proofs.GCMGlueA64 (ctrBlocks)
open SMGo.Proofs.GCM (ghFold)
open SMGo.Gen.CTIRProgSM4.Arm64 (fn_1 fn_2 fn_3 fn_4 fn_5 fn_7 fn_8 fn_9 fn_10 fn_11 fn_12)
namespace SMGo.Proofs.CTIRRefineGCM

/-! ## Toolkit -/
section Tools
variable {P : Prog} {G : Nat → Val} {O : Oracle}

theorem evIn_ext {env env1 : Env} {lhs : List Nat} {name : Nat} {leaky : Bool} {args : List Expr} {vs : List Val}
    (ha : evalVs G env args = some vs) (hset : env.setMany lhs (O name vs) = some env1) :
    EvIn P G O 1 env (.ext lhs name leaky args) env1 .norm := by
  intro f hf; obtain ⟨f, rfl⟩ := Nat.exists_eq_add_of_le' hf
  rw [execV_ext, ha]
  simp [hset]

/-- an external call with one result -/
theorem ext1 {env : Env} {x name : Nat} {leaky : Bool} {args : List Expr} {vs : List Val} {v : Val}
    (ha : evalVs G env args = some vs) (hO : O name vs = [v]) :
    EvIn P G O 1 env (.ext [x] name leaky args) (env.set x v) .norm :=
  evIn_ext ha (by rw [hO]; rfl)

/-- the frame record -/
theorem ext0 {E : Bytes → Bytes} {rk : Val} (hO : LeafOk O E rk) {env : Env} {args : List Expr} {vs : List Val}
    (ha : evalVs G env args = some vs) :
    EvIn P G O 1 env (.ext [] 0 true args) env .norm :=
  evIn_ext ha (by rw [hO.frame]; rfl)

theorem evar {env : Env} {x : Nat} {v : Val} (h : env x = v) : evalV G env (.var x) = some v := by
  rw [evalV_var, h]

theorem bytesV_replicate (n : Nat) : bytesV (List.replicate n 0) = .arr (List.replicate n (.int 0)) := by
  simp only [bytesV, List.map_replicate]; rfl

theorem evalV_mkBytes {env : Env} {n : Expr} {L : Nat} (hn : evalV G env n = some (.int (L : Int))) :
    evalV G env (.mk n (.lit 0)) = some (bytesV (List.replicate L 0)) := by
  rw [evalV_mk, hn, evalV_lit]
  simp only
  rw [if_neg (by omega), bytesV_replicate, Int.toNat_natCast]

theorem evalV_mk16 (env : Env) : evalV G env (.mk (.lit 16) (.lit 0)) = some (bytesV (List.replicate 16 0)) :=
  evalV_mkBytes (L := 16) rfl

theorem evalV_lenB {env : Env} {a : Expr} {x : Bytes} (ha : evalV G env a = some (bytesV x)) :
    evalV G env (.len a) = some (.int (x.length : Int)) := by
  rw [evalV_len, ha]; simp [bytesV]

theorem sliceList_bytes (x : Bytes) (l h : Nat) (h1 : l ≤ h) (h2 : h ≤ x.length) :
    sliceList (x.map (fun x => Val.int (Int.ofNat x.toNat))) (l : Int) (h : Int)
      = some (((x.drop l).take (h - l)).map (fun x => Val.int (Int.ofNat x.toNat))) := by
  unfold sliceList
  rw [if_neg (by simp only [List.length_map]; omega)]
  simp only [Int.toNat_natCast, List.map_take, List.map_drop]

theorem evalV_sliceB {env : Env} {a lo hi : Expr} {x : Bytes} {l h : Nat}
    (ha : evalV G env a = some (bytesV x)) (hl : evalV G env lo = some (.int (l : Int)))
    (hh : evalV G env hi = some (.int (h : Int))) (h1 : l ≤ h) (h2 : h ≤ x.length) :
    evalV G env (.slice a lo hi) = some (bytesV ((x.drop l).take (h - l))) := by
  rw [evalV_slice, ha, hl, hh]
  simp only [bytesV]
  rw [sliceList_bytes x l h h1 h2]; rfl

/-- `a[l:]` -/
theorem evalV_sliceFrom {env : Env} {a lo : Expr} {x : Bytes} {l : Nat}
    (ha : evalV G env a = some (bytesV x)) (hl : evalV G env lo = some (.int (l : Int))) (h1 : l ≤ x.length) :
    evalV G env (.slice a lo (.len a)) = some (bytesV (x.drop l)) := by
  rw [evalV_sliceB ha hl (evalV_lenB ha) h1 (Nat.le_refl _)]
  rw [List.take_of_length_le (by rw [List.length_drop]; omega)]

theorem evalV_catB {env : Env} {a b : Expr} {x y : Bytes}
    (ha : evalV G env a = some (bytesV x)) (hb : evalV G env b = some (bytesV y)) :
    evalV G env (.cat a b) = some (bytesV (x ++ y)) := by
  rw [evalV_cat, ha, hb]; simp [bytesV]

theorem evalV_op2i {env : Env} {o : Op2} {a b : Expr} {x y r : Int}
    (ha : evalV G env a = some (.int x)) (hb : evalV G env b = some (.int y)) (h : evalOp2 o x y = some r) :
    evalV G env (.op2 o a b) = some (.int r) := by
  rw [evalV_op2, ha, hb]; simp only [h, Option.map_some]

theorem add_i64 {x y : Int} (h1 : -9223372036854775808 ≤ x + y) (h2 : x + y < 9223372036854775808) :
    evalOp2 (.add .i64) x y = some (x + y) := by
  simp only [evalOp2]; rw [norm_i64_small h1 h2]

theorem sub_i64 {x y : Int} (h1 : -9223372036854775808 ≤ x - y) (h2 : x - y < 9223372036854775808) :
    evalOp2 (.sub .i64) x y = some (x - y) := by
  simp only [evalOp2]; rw [norm_i64_small h1 h2]

theorem lit_nat (env : Env) (n : Nat) : evalV G env (.lit (n : Int)) = some (.int (n : Int)) := rfl

/-- `0 + k` in int, as an index expression -/
theorem evalV_zero_add {env : Env} {t : Expr} {m : Nat} (ht : evalV G env t = some (.int (m : Int)))
    (hm : m < 2 ^ 63) : evalV G env (.op2 (.add .i64) (.lit 0) t) = some (.int (m : Int)) := by
  have := evalV_op2i (G := G) (o := .add .i64) (evalV_lit G env 0) ht (add_i64 (by omega) (by omega))
  rwa [Int.zero_add] at this

/-- the copy count of `copy(dst, src)` -/
theorem copy_min {env : Env} {d s : Nat} {dst src : Bytes} (hd : env d = bytesV dst) (hs : env s = bytesV src)
    (hl : dst.length < 2 ^ 63) :
    evalV G env (.op2 .min (.op2 (.sub .i64) (.len (.var d)) (.lit 0)) (.len (.var s)))
      = some (.int ((min dst.length src.length : Nat) : Int)) := by
  have l1 := evalV_lenB (G := G) (x := dst) (evar hd)
  have l2 := evalV_lenB (G := G) (x := src) (evar hs)
  have s1 : evalV G env (.op2 (.sub .i64) (.len (.var d)) (.lit 0)) = some (.int (dst.length : Int)) := by
    have := evalV_op2i (G := G) (o := .sub .i64) l1 (evalV_lit G env 0) (sub_i64 (by omega) (by omega))
    rwa [Int.sub_zero] at this
  refine (evalV_op2i s1 l2 rfl).trans ?_
  congr 2
  rw [Nat.min_def]
  split <;> split <;> omega

/-- the bytes after `copy(dst, src)` -/
theorem copy_cat {env : Env} {d s t : Nat} {dst src : Bytes} {m : Nat} (hd : env d = bytesV dst)
    (hs : env s = bytesV src) (ht : env t = .int (m : Int)) (hm1 : m ≤ dst.length) (hm2 : m ≤ src.length)
    (hl : dst.length < 2 ^ 63) :
    evalV G env (.cat (.slice (.var d) (.lit 0) (.lit 0)) (.cat (.slice (.var s) (.lit 0) (.var t))
        (.slice (.var d) (.op2 (.add .i64) (.lit 0) (.var t)) (.len (.var d)))))
      = some (bytesV (src.take m ++ dst.drop m)) := by
  have p1 := evalV_sliceB (G := G) (evar hd) (lit_nat env 0) (lit_nat env 0) (Nat.le_refl _) (Nat.zero_le _)
  have p2 := evalV_sliceB (G := G) (evar hs) (lit_nat env 0) (evar ht) (Nat.zero_le _) hm2
  have p3 := evalV_sliceFrom (G := G) (evar hd) (evalV_zero_add (evar ht) (by omega)) hm1
  have := evalV_catB p1 (evalV_catB p2 p3)
  simpa using this

theorem bytesV_set (b : Bytes) (i : Nat) (x : UInt8) (h : i < b.length) :
    updPath (bytesV b) [i] (.int (Int.ofNat x.toNat)) = some (bytesV (b.set i x)) := by
  unfold bytesV
  rw [SMGo.Proofs.CTIRRefineField.updPath_c1 _ _ _ (by simpa using h)]
  simp [List.map_set]

/-- `x[i] = byte(y >> s)` -/
theorem store_byte {env : Env} {x y i s : Nat} {ie : Expr} {b : Bytes} {v : Nat} (hx : env x = bytesV b)
    (hy : env y = .int (v : Int)) (hi : evalV G env ie = some (.int (i : Int))) (hlt : i < b.length) :
    EvIn P G O 1 env (.assign x [.e ie] (.op1 (.conv .u8) (.op1 (.shrc s) (.var y))))
      (env.set x (bytesV (b.set i (UInt8.ofNat (v >>> s))))) .norm := by
  refine EvIn.assignPath (v := .int (Int.ofNat (UInt8.ofNat (v >>> s)).toNat)) (ks := [i]) ?_ ?_ ?_
  · rw [evalV_op1, evalV_op1, evalV_var, hy]
    simp only [evalOp1, norm, UInt8.toNat_ofNat', Int.ofNat_eq_natCast]
    congr 2
  · rw [pathV_e, hi, pathV_nil]
    simp only
    rw [if_neg (by omega), Int.toNat_natCast]
  · rw [hx]; exact bytesV_set b i _ hlt

/-- the bounds check `&a[0]` of a pointer argument: the first byte is read -/
theorem evalV_chk {env : Env} {a : Expr} {b : Bytes} (ha : evalV G env a = some (bytesV b)) (h : 0 < b.length) :
    evalV G env (.idxc a 0) = some (.int (Int.ofNat (b.headD 0).toNat)) := by
  rw [evalV_idxc, ha]
  cases b with
  | nil => simp at h
  | cons x xs => rfl

theorem cmp_false {env : Env} {o : Op2} {a b : Expr} {x y : Int}
    (ha : evalV G env a = some (.int x)) (hb : evalV G env b = some (.int y)) (h : evalOp2 o x y = some 0) :
    evalV G env (.op2 o a b) = some (.int 0) := evalV_op2i ha hb h

end Tools

section Tools2
variable {P : Prog} {G : Nat → Val} {O : Oracle}

theorem Env.set_self {env : Env} {x : Nat} {v : Val} (h : env x = v) : env.set x v = env := by
  funext y
  simp only [Env.set]
  by_cases hy : y = x
  · rw [if_pos hy, hy, h]
  · rw [if_neg hy]

theorem and15_i64 (l : Nat) : evalOp2 (.and .i64) (l : Int) 15 = some ((l % 16 : Nat) : Int) := by
  have e1 : pat .i64 (l : Int) = l % 2 ^ 64 := by
    simp only [pat, Ty.bits]
    rw [Int.ofNat_mod_ofNat, Int.toNat_natCast]
  have e2 : pat .i64 15 = 15 := by decide
  simp only [evalOp2, e1, e2]
  rw [SMGo.Proofs.GCMGlueA64.and15, norm_i64_small (by omega) (by omega)]
  congr 2
  omega

theorem shl3_u64 {a : Nat} (h : a < 2 ^ 61) : evalOp1 (.shlc .u64 3) (a : Int) = ((8 * a : Nat) : Int) := by
  have e : ((2 ^ 3 : Nat) : Int) = 8 := rfl
  simp only [evalOp1, norm, e]
  omega

theorem u8_shr (v k : Nat) : UInt8.ofNat (v >>> (8 * k)) = UInt8.ofNat (v / 256 ^ k % 256) := by
  apply UInt8.toNat_inj.mp
  rw [UInt8.toNat_ofNat', UInt8.toNat_ofNat', Nat.shiftRight_eq_div_pow, Nat.pow_mul]
  simp

end Tools2

/-! ## 1. An inhabitant of the leaf interface -/

def toBytes (l : List Val) : Bytes := l.map (fun v => match v with | .int n => UInt8.ofNat n.toNat | .arr _ => 0)
def ofBytes (b : Bytes) : List Int := b.map (fun x => Int.ofNat x.toNat)

def blocksN (rk : List W32) (src : Bytes) (n : Nat) : Bytes :=
  (List.range n).flatMap (fun i => Spec.SM4.cryptFast rk ((src.drop (16 * i)).take 16))

def ghashUpd (h tag : Nat) (data : Bytes) (count : Nat) : Nat :=
  (List.range count).foldl (fun y i => mulGF (y ^^^ blockToNat ((data.drop (16 * i)).take 16)) h) tag

def specSem (rkw : List W32) : Nat → List Val → Nat → List Int := fun name args _ =>
  let bytesAt (i : Nat) : Bytes := toBytes (argBytes args i)
  let blocks (n : Nat) : List Int := ofBytes (blocksN rkw (bytesAt 2) n)
  let xorN (n : Nat) : List Int := ofBytes (xorBytes ((bytesAt 1).take n) ((bytesAt 2).take n))
  match name with
  | 1 => blocks 1
  | 3 => blocks 2
  | 4 => blocks 4
  | 5 => blocks 8
  | 2 => blocks 16
  | 9 => xorN 16
  | 11 => xorN 32
  | 12 => xorN 64
  | 8 => xorN 128
  | 10 => xorN 256
  | 7 => ofBytes (natToBlock (ghashUpd (blockToNat (bytesAt 0)) (blockToNat ((bytesAt 1).take 16)) (bytesAt 2) (argInt args 3).toNat))
  | _ => []

def wordsV (rkw : List W32) : Val := .arr (rkw.map (fun w => .int (Int.ofNat w.toNat)))

theorem toBytes_bytes (b : Bytes) : toBytes (b.map (fun x => Val.int (Int.ofNat x.toNat))) = b := by
  simp only [toBytes, List.map_map]
  conv => rhs; rw [← List.map_id b]
  apply List.map_congr_left
  intro x _
  simp

theorem fillFrom_bytes (dst bs : Bytes) (h : bs.length ≤ dst.length) :
    fillFrom (dst.map (fun x => Val.int (Int.ofNat x.toNat))) (ofBytes bs)
      = (bs ++ dst.drop bs.length).map (fun x => Val.int (Int.ofNat x.toNat)) := by
  apply List.ext_getElem
  · simp [fillFrom]; omega
  · intro i h1 h2
    simp only [fillFrom, List.length_map, List.getElem_map, List.getElem_range]
    simp only [List.length_map, fillFrom, List.length_range] at h1
    congr 1
    by_cases hi : i < bs.length
    · simp [ofBytes, List.getD, hi, List.getElem_append_left]
    · have : (ofBytes bs)[i]? = none := by simp [ofBytes]; omega
      simp only [List.getD, this, Option.getD_none]
      rw [List.getElem_append_right (by omega)]
      have e : bs.length + (i - bs.length) = i := by omega
      simp [argInt, h1, e]

theorem blocksN_eq (rk : List W32) : ∀ (n : Nat) (src : Bytes), blocksN rk src n = blocksE (Spec.SM4.cryptFast rk) n src := by
  intro n
  induction n with
  | zero => intro src; rfl
  | succ n ih =>
    intro src
    rw [blocksE, ← ih]
    simp only [blocksN, List.range_succ_eq_map, List.flatMap_cons, List.flatMap_map]
    simp [Nat.mul_add, Nat.add_comm]

theorem ghashUpd_succ (h y : Nat) (d : Bytes) (n : Nat) :
    ghashUpd h y d (n + 1) = ghashUpd h (mulGF (y ^^^ blockToNat (d.take 16)) h) (d.drop 16) n := by
  simp only [ghashUpd, List.range_succ_eq_map, List.foldl_cons, List.foldl_map]
  simp [Nat.mul_add, Nat.add_comm]

theorem ghashUpd_eq (H : Bytes) (hH : H.length = 16) : ∀ (n : Nat) (t d : Bytes), t.length = 16 →
    natToBlock (ghashUpd (blockToNat H) (blockToNat t) d n) = ghBlocks specGh H n t d := by
  intro n
  induction n with
  | zero => intro t d ht; simp [ghashUpd, ghBlocks, SMGo.Proofs.GCM.natToBlock_blockToNat ht]
  | succ n ih =>
    intro t d ht
    rw [ghashUpd_succ, ghBlocks, ← ih _ _ (SMGo.Proofs.GCMGlueA64.specGh_length _ _ _)]
    congr 2
    unfold specGh
    rw [SMGo.Proofs.GCM.blockToNat_natToBlock (SMGo.Proofs.GCM.mulGF_lt (SMGo.Proofs.GCM.blockToNat_lt hH))]


theorem xorBytes_take_length (a b : Bytes) (N : Nat) (ha : N ≤ a.length) (hb : N ≤ b.length) :
    (xorBytes (a.take N) (b.take N)).length = N := by
  simp [xorBytes]; omega

theorem specSem_leafSpec (rkw : List W32) (hrk : rkw ≠ []) :
    LeafSpec (specSem rkw) (Spec.SM4.cryptFast rkw) (wordsV rkw) where
  E_len := SMGo.Proofs.GCMGlue.length_cryptFast rkw
  rk_ne := by
    cases rkw with
    | nil => exact absurd rfl hrk
    | cons w ws => exact ⟨_, _, rfl⟩
  frame := fun args => rfl
  enc := by
    intro name n hmem dst src hd hs
    have hl : (blocksE (Spec.SM4.cryptFast rkw) n src).length = 16 * n :=
      SMGo.Proofs.GCMGlueA64.blocksE_length (SMGo.Proofs.GCMGlue.length_cryptFast rkw) n src
    have key : fillFrom (dst.map (fun x => Val.int (Int.ofNat x.toNat))) (ofBytes (blocksN rkw src n))
        = (blocksE (Spec.SM4.cryptFast rkw) n src ++ dst.drop (16 * n)).map (fun x => Val.int (Int.ofNat x.toNat)) := by
      rw [blocksN_eq, fillFrom_bytes _ _ (by omega), hl]
    simp only [encLeaves, List.mem_cons, Prod.mk.injEq, List.mem_nil_iff, or_false] at hmem
    rcases hmem with ⟨rfl, rfl⟩ | ⟨rfl, rfl⟩ | ⟨rfl, rfl⟩ | ⟨rfl, rfl⟩ | ⟨rfl, rfl⟩ <;>
      · show [Val.arr (fillFrom (argBytes _ 1) (specSem rkw _ _ 0))] = _
        simp only [specSem, argBytes, bytesV, List.getElem?_cons_succ, List.getElem?_cons_zero, toBytes_bytes]
        rw [key]
  xor := by
    intro name N hmem dst a b hd ha hb
    have hl := xorBytes_take_length a b N ha hb
    have key : fillFrom (dst.map (fun x => Val.int (Int.ofNat x.toNat))) (ofBytes (xorBytes (a.take N) (b.take N)))
        = (xorBytes (a.take N) (b.take N) ++ dst.drop N).map (fun x => Val.int (Int.ofNat x.toNat)) := by
      rw [fillFrom_bytes _ _ (by omega), hl]
    simp only [xorLeaves, List.mem_cons, Prod.mk.injEq, List.mem_nil_iff, or_false] at hmem
    rcases hmem with ⟨rfl, rfl⟩ | ⟨rfl, rfl⟩ | ⟨rfl, rfl⟩ | ⟨rfl, rfl⟩ | ⟨rfl, rfl⟩ <;>
      · show [Val.arr (fillFrom (argBytes _ 0) (specSem rkw _ _ 0))] = _
        simp only [specSem, argBytes, bytesV, List.getElem?_cons_succ, List.getElem?_cons_zero, toBytes_bytes]
        rw [key]
  gh := by
    intro H tag data count _ hH ht hd
    have hl : (ghBlocks specGh H count tag data).length = 16 := by
      rw [SMGo.Proofs.GCMGlueA64.ghBlocks_spec H hH count tag data ht hd]
      exact SMGo.Proofs.GCM.natToBlock_length _
    show [Val.arr (fillFrom (argBytes _ 1) (specSem rkw _ _ 0))] = _
    simp only [specSem, argBytes, argInt, bytesV, List.getElem?_cons_succ, List.getElem?_cons_zero, toBytes_bytes,
      Int.toNat_natCast]
    have t16 : tag.take 16 = tag := List.take_of_length_le (by omega)
    rw [t16, ghashUpd_eq H hH count tag data ht, fillFrom_bytes _ _ (by omega), hl, ← ht, List.drop_length,
      List.append_nil]


/-! ## 2. The Go functions -/

structure HasSmall (P : Prog) : Prop where
  h1 : P[1]? = some fn_1
  h2 : P[2]? = some fn_2
  h3 : P[3]? = some fn_3
  h4 : P[4]? = some fn_4
  h5 : P[5]? = some fn_5
  h7 : P[7]? = some fn_7
  h8 : P[8]? = some fn_8
  h9 : P[9]? = some fn_9
  h10 : P[10]? = some fn_10
  h11 : P[11]? = some fn_11
  h12 : P[12]? = some fn_12

theorem hasSmall_PA : HasSmall PA := ⟨rfl, rfl, rfl, rfl, rfl, rfl, rfl, rfl, rfl, rfl, rfl⟩

section Glue
variable {P : Prog} {G : Nat → Val} {O : Oracle} {E : Bytes → Bytes} {c rk : Val}

def fuelEnc : Nat := 18

theorem encrypt_computes (hP : HasSmall P) (hO : LeafOk O E rk) (hc : CipherOk c rk) (dst src : Bytes)
    (hd : 16 ≤ dst.length) (hs : 16 ≤ src.length) :
    Computes P G O 1 fuelEnc [c, bytesV dst, bytesV src] [bytesV (E (src.take 16) ++ dst.drop 16)] := by
  obtain ⟨r1, r2, rfl⟩ := hc
  obtain ⟨w, ws, hrk⟩ := hO.rk_ne
  let e0 : Env := Env.ofList [.arr (.arr (rk :: r1) :: r2), bytesV dst, bytesV src]
  let ea := e0.set 3 w
  let eb := ea.set 3 (.int (Int.ofNat (dst.headD 0).toNat))
  let ec := eb.set 3 (.int (Int.ofNat (src.headD 0).toNat))
  let e1 := ec.set 1 (bytesV (E (src.take 16) ++ dst.drop 16))
  have k1 : evalV G e0 (.idxc (.idxc (.idxc (.var 0) 0) 0) 0) = some w := by
    have : evalV G e0 (.idxc (.idxc (.var 0) 0) 0) = some rk := by simp [evalV_idxc, e0, Env.ofList]
    rw [evalV_idxc, this, hrk]; rfl
  have k2 : evalV G ea (.idxc (.var 1) 0) = some (.int (Int.ofNat (dst.headD 0).toNat)) :=
    evalV_chk (b := dst) rfl (by omega)
  have k3 : evalV G eb (.idxc (.var 2) 0) = some (.int (Int.ofNat (src.headD 0).toNat)) :=
    evalV_chk (b := src) rfl (by omega)
  have c1 : evalV G e0 (.op2 .lt (.len (.var 2)) (.lit 16)) = some (.int 0) := by
    refine cmp_false (evalV_lenB (x := src) rfl) rfl ?_
    have : decide ((src.length : Int) < 16) = false := decide_eq_false (by omega)
    simp only [evalOp2, ofBool, this]; rfl
  have c2 : evalV G e0 (.op2 .lt (.len (.var 1)) (.lit 16)) = some (.int 0) := by
    refine cmp_false (evalV_lenB (x := dst) rfl) rfl ?_
    have : decide ((dst.length : Int) < 16) = false := decide_eq_false (by omega)
    simp only [evalOp2, ofBool, this]; rfl
  have c3 : EvIn P G O 1 ec (.ext [] 0 true [(.lit 1)]) ec .norm := ext0 hO (vs := [.int 1]) rfl
  have c4 : EvIn P G O 1 ec (.ext [1] 1 false [(.idxc (.idxc (.var 0) 0) 0), (.var 1), (.var 2)]) e1 .norm := by
    refine ext1 (vs := [rk, bytesV dst, bytesV src]) ?_ ?_
    · simp [evalVs_cons, evalV_idxc, ec, eb, ea, e0, Env.set, Env.ofList]
    · have := hO.enc 1 1 (by simp [encLeaves]) dst src (by omega) (by omega)
      simpa [blocksE] using this
  have sr : evalVs G e1 [(.var 1)] = some [bytesV (E (src.take 16) ++ dst.drop 16)] := by
    simp [evalVs_cons, e1, Env.set]
  refine Computes.of_body hP.h1 rfl rfl (env' := e1) ?_
  exact (EvIn.seq (EvIn.ite c1 rfl (EvIn.skip _)) (EvIn.seq (EvIn.ite c2 rfl (EvIn.skip _))
    (EvIn.seq (EvIn.assign k1) (EvIn.seq (EvIn.assign k2) (EvIn.seq (EvIn.assign k3)
    (EvIn.seq c3 (EvIn.seq c4 (EvIn.ret sr)))))))).mono (by decide)

end Glue

section Glue2
variable {P : Prog} {G : Nat → Val} {O : Oracle} {E : Bytes → Bytes} {c rk : Val}

def fuelEns : Nat := 30

theorem ensure_computes (hP : HasSmall P) (arr : Bytes) (asked cap : Nat) (h1 : arr.length ≤ cap) (h2 : cap < 2 ^ 62)
    (h3 : asked < 2 ^ 62) :
    Computes P G O 5 fuelEns [bytesV arr, .int (asked : Int), .int (cap : Int)]
      [bytesV arr, bytesV (arr ++ List.replicate asked 0), .int (arr.length : Int)] := by
  let res := arr ++ List.replicate asked (0 : UInt8)
  let e0 : Env := Env.ofList [bytesV arr, .int (asked : Int), .int (cap : Int)]
  let e1 := e0.set 3 (bytesV (List.replicate 0 0))
  let e2 := e1.set 5 (.int 0)
  let e3 := e2.set 6 (.int ((cap : Int) - (arr.length : Int)))
  have g0 : e3 0 = bytesV arr := rfl
  have g1 : e3 1 = .int (asked : Int) := rfl
  have g2 : e3 2 = .int (cap : Int) := rfl
  have g6 : e3 6 = .int ((cap : Int) - (arr.length : Int)) := rfl
  have l0 : evalV G e3 (.len (.var 0)) = some (.int (arr.length : Int)) := evalV_lenB (x := arr) rfl
  have s1 : evalV G e0 (.mk (.lit 0) (.lit 0)) = some (bytesV (List.replicate 0 0)) := evalV_mkBytes (L := 0) rfl
  have s2 : evalV G e1 (.lit 0) = some (.int 0) := rfl
  have s3 : evalV G e2 (.op2 (.sub .i64) (.var 2) (.len (.var 0))) = some (.int ((cap : Int) - (arr.length : Int))) :=
    evalV_op2i (evar rfl) (evalV_lenB (x := arr) rfl) (sub_i64 (by omega) (by omega))
  have sum : evalV G e3 (.op2 (.add .i64) (.len (.var 0)) (.var 1)) = some (.int (((arr.length + asked : Nat)) : Int)) := by
    have := evalV_op2i (G := G) l0 (evar g1) (add_i64 (by omega) (by omega))
    rwa [← Int.natCast_add] at this
  -- the two branches end in an environment with the same `array` and `head`
  have br : ∃ e4 : Env, EvIn P G O 8 e3 (.ite (.op2 .ge (.var 6) (.var 1))
      (SMGo.Gen.CTIRProgSM4.Arm64.seqs [.ite (.op2 .gt (.op2 (.add .i64) (.len (.var 0)) (.var 1)) (.var 2)) .panic .skip,
        .assign 3 [] (.cat (.var 0) (.mk (.op2 (.sub .i64) (.op2 (.add .i64) (.len (.var 0)) (.var 1)) (.len (.var 0))) (.lit 0)))])
      (SMGo.Gen.CTIRProgSM4.Arm64.seqs [.assign 3 [] (.mk (.op2 (.add .i64) (.len (.var 0)) (.var 1)) (.lit 0)),
        .assign 7 [] (.op2 .min (.op2 (.sub .i64) (.len (.var 3)) (.lit 0)) (.len (.var 0))),
        .assign 3 [] (.cat (.slice (.var 3) (.lit 0) (.lit 0)) (.cat (.slice (.var 0) (.lit 0) (.var 7)) (.slice (.var 3) (.op2 (.add .i64) (.lit 0) (.var 7)) (.len (.var 3)))))])) e4 .norm
      ∧ e4 0 = bytesV arr ∧ e4 3 = bytesV res := by
    by_cases hge : asked ≤ cap - arr.length
    · have cc : evalV G e3 (.op2 .ge (.var 6) (.var 1)) = some (.int 1) := by
        refine evalV_op2i (evar g6) (evar g1) ?_
        have : decide ((asked : Int) ≤ (cap : Int) - (arr.length : Int)) = true := decide_eq_true (by omega)
        simp only [evalOp2, ofBool, this]; rfl
      have c1 : evalV G e3 (.op2 .gt (.op2 (.add .i64) (.len (.var 0)) (.var 1)) (.var 2)) = some (.int 0) := by
        refine cmp_false sum (evar g2) ?_
        have : decide ((cap : Int) < ((arr.length + asked : Nat) : Int)) = false := decide_eq_false (by omega)
        simp only [evalOp2, ofBool, this]; rfl
      have c2 : evalV G e3 (.cat (.var 0) (.mk (.op2 (.sub .i64) (.op2 (.add .i64) (.len (.var 0)) (.var 1)) (.len (.var 0))) (.lit 0)))
          = some (bytesV res) := by
        have d : evalV G e3 (.op2 (.sub .i64) (.op2 (.add .i64) (.len (.var 0)) (.var 1)) (.len (.var 0))) = some (.int (asked : Int)) := by
          have := evalV_op2i (G := G) sum l0 (sub_i64 (by omega) (by omega))
          rw [this]; congr 2; omega
        exact evalV_catB (evar g0) (evalV_mkBytes d)
      exact ⟨e3.set 3 (bytesV res), (EvIn.ite cc rfl (EvIn.seq (EvIn.ite c1 rfl (EvIn.skip _)) (EvIn.assign c2))).mono (by decide),
        rfl, rfl⟩
    · have cc : evalV G e3 (.op2 .ge (.var 6) (.var 1)) = some (.int 0) := by
        refine cmp_false (evar g6) (evar g1) ?_
        have : decide ((asked : Int) ≤ (cap : Int) - (arr.length : Int)) = false := decide_eq_false (by omega)
        simp only [evalOp2, ofBool, this]; rfl
      let z := List.replicate (arr.length + asked) (0 : UInt8)
      let f1 := e3.set 3 (bytesV z)
      let f2 := f1.set 7 (.int ((min z.length arr.length : Nat) : Int))
      have hz : z.length = arr.length + asked := List.length_replicate
      have hmin : min z.length arr.length = arr.length := by rw [hz]; omega
      have c1 : evalV G e3 (.mk (.op2 (.add .i64) (.len (.var 0)) (.var 1)) (.lit 0)) = some (bytesV z) := evalV_mkBytes sum
      have c2 := copy_min (G := G) (env := f1) (d := 3) (s := 0) (dst := z) (src := arr) rfl rfl (by omega)
      have c3 := copy_cat (G := G) (env := f2) (d := 3) (s := 0) (t := 7) (dst := z) (src := arr)
        (m := min z.length arr.length) rfl rfl rfl (by omega) (by omega) (by omega)
      have er : arr.take (min z.length arr.length) ++ z.drop (min z.length arr.length) = res := by
        rw [hmin, List.take_length]
        simp [z, res]
      rw [er] at c3
      exact ⟨f2.set 3 (bytesV res), (EvIn.ite cc rfl (EvIn.seq (EvIn.assign c1) (EvIn.seq (EvIn.assign c2) (EvIn.assign c3)))).mono (by decide),
        rfl, rfl⟩
  obtain ⟨e4, hbr, k0, k3⟩ := br
  let tl := ((res.drop arr.length).length : Int)
  let e5 := e4.set 4 (.int tl)
  let e6 := e5.set 5 (.int (arr.length : Int))
  have s5 : evalV G e4 (.len (.slice (.var 3) (.len (.var 0)) (.len (.var 3)))) = some (.int tl) :=
    evalV_lenB (evalV_sliceFrom (evar k3) (evalV_lenB (evar k0)) (by simp [res]))
  have s6 : evalV G e5 (.len (.var 0)) = some (.int (arr.length : Int)) :=
    evalV_lenB (x := arr) (evar (by simp [e5, Env.set, k0]))
  have sr : evalVs G e6 [(.var 0), (.var 3), (.var 5)] = some [bytesV arr, bytesV res, .int (arr.length : Int)] := by
    simp [evalVs_cons, e6, e5, Env.set, k0, k3]
  refine Computes.of_body hP.h5 rfl rfl (env' := e6) ?_
  exact (EvIn.seq (EvIn.assign s1) (EvIn.seq (EvIn.assign s2) (EvIn.seq (EvIn.assign s3) (EvIn.seq hbr
    (EvIn.seq (EvIn.assign s5) (EvIn.seq (EvIn.assign s6) (EvIn.seq_stop (EvIn.ret sr) (by simp)))))))).mono (by decide)

end Glue2

section Glue3
variable {P : Prog} {G : Nat → Val} {O : Oracle} {E : Bytes → Bytes} {c rk : Val} {ns ts : Nat}

/-- the sixteen stores of the two `PutUint64` on a zeroed block -/
theorem be_stores (v w : Nat) :
    ((((((((((((((((List.replicate 16 (0 : UInt8)).set 0 (UInt8.ofNat (v >>> 56))).set 1 (UInt8.ofNat (v >>> 48))).set 2
      (UInt8.ofNat (v >>> 40))).set 3 (UInt8.ofNat (v >>> 32))).set 4 (UInt8.ofNat (v >>> 24))).set 5 (UInt8.ofNat (v >>> 16))).set 6
      (UInt8.ofNat (v >>> 8))).set 7 (UInt8.ofNat (v >>> 0))).set 8 (UInt8.ofNat (w >>> 56))).set 9 (UInt8.ofNat (w >>> 48))).set 10
      (UInt8.ofNat (w >>> 40))).set 11 (UInt8.ofNat (w >>> 32))).set 12 (UInt8.ofNat (w >>> 24))).set 13 (UInt8.ofNat (w >>> 16))).set 14
      (UInt8.ofNat (w >>> 8))).set 15 (UInt8.ofNat (w >>> 0))
      = Bytes.ofNatBE 8 v ++ Bytes.ofNatBE 8 w := by
  have e (x : Nat) : Bytes.ofNatBE 8 x = [UInt8.ofNat (x >>> 56), UInt8.ofNat (x >>> 48), UInt8.ofNat (x >>> 40),
      UInt8.ofNat (x >>> 32), UInt8.ofNat (x >>> 24), UInt8.ofNat (x >>> 16), UInt8.ofNat (x >>> 8), UInt8.ofNat (x >>> 0)] := by
    have := u8_shr x 7; have := u8_shr x 6; have := u8_shr x 5; have := u8_shr x 4
    have := u8_shr x 3; have := u8_shr x 2; have := u8_shr x 1; have := u8_shr x 0
    simp_all [Bytes.ofNatBE, List.range_succ]
  rw [e, e]
  rfl

def fuelGhf : Nat := 70

theorem ghFinish_computes (hP : HasSmall P) (hO : LeafOk O E rk) (H tag : Bytes) (a p : Nat) (hH : H.length = 16)
    (ht : tag.length = 16) (ha : a < 2 ^ 61) (hp : p < 2 ^ 61) :
    Computes P G O 4 fuelGhf (recv c rk ns ts ++ [bytesV H, bytesV tag, .int (a : Int), .int (p : Int)])
      [bytesV (natToBlock (ghFold (blockToNat H) (blockToNat tag) (be64 (8 * a) ++ be64 (8 * p))))] := by
  let v := 8 * a
  let w := 8 * p
  let e0 : Env := Env.ofList [c, rk, .int (ns : Int), .int (ts : Int), bytesV H, bytesV tag, .int (a : Int), .int (p : Int)]
  let b0 : Bytes := List.replicate 16 0
  let e1 := e0.set 9 (bytesV b0)
  let e2 := e1.set 10 (.int (v : Int))
  have s1 : evalV G e0 (.mk (.lit 16) (.lit 0)) = some (bytesV b0) := evalV_mk16 _
  have s2 : evalV G e1 (.op1 (.shlc .u64 3) (.var 6)) = some (.int (v : Int)) := by
    rw [evalV_op1, evalV_var]
    show some (Val.int (evalOp1 (.shlc .u64 3) (a : Int))) = _
    rw [shl3_u64 ha]
  let b1 := b0.set 0 (UInt8.ofNat (v >>> 56))
  let e3 := e2.set 9 (bytesV b1)
  have t3 : EvIn P G O 1 e2 (.assign 9 [.e (.op2 (.add .i64) (.lit 0) (.lit 0))] (.op1 (.conv .u8) (.op1 (.shrc 56) (.var 10)))) e3 .norm :=
    store_byte (b := b0) (v := v) (i := 0) rfl rfl rfl (by simp [b0])
  let b2 := b1.set 1 (UInt8.ofNat (v >>> 48))
  let e4 := e3.set 9 (bytesV b2)
  have t4 : EvIn P G O 1 e3 (.assign 9 [.e (.op2 (.add .i64) (.lit 0) (.lit 1))] (.op1 (.conv .u8) (.op1 (.shrc 48) (.var 10)))) e4 .norm :=
    store_byte (b := b1) (v := v) (i := 1) rfl rfl rfl (by simp [b1, b0])
  let b3 := b2.set 2 (UInt8.ofNat (v >>> 40))
  let e5 := e4.set 9 (bytesV b3)
  have t5 : EvIn P G O 1 e4 (.assign 9 [.e (.op2 (.add .i64) (.lit 0) (.lit 2))] (.op1 (.conv .u8) (.op1 (.shrc 40) (.var 10)))) e5 .norm :=
    store_byte (b := b2) (v := v) (i := 2) rfl rfl rfl (by simp [b2, b1, b0])
  let b4 := b3.set 3 (UInt8.ofNat (v >>> 32))
  let e6 := e5.set 9 (bytesV b4)
  have t6 : EvIn P G O 1 e5 (.assign 9 [.e (.op2 (.add .i64) (.lit 0) (.lit 3))] (.op1 (.conv .u8) (.op1 (.shrc 32) (.var 10)))) e6 .norm :=
    store_byte (b := b3) (v := v) (i := 3) rfl rfl rfl (by simp [b3, b2, b1, b0])
  let b5 := b4.set 4 (UInt8.ofNat (v >>> 24))
  let e7 := e6.set 9 (bytesV b5)
  have t7 : EvIn P G O 1 e6 (.assign 9 [.e (.op2 (.add .i64) (.lit 0) (.lit 4))] (.op1 (.conv .u8) (.op1 (.shrc 24) (.var 10)))) e7 .norm :=
    store_byte (b := b4) (v := v) (i := 4) rfl rfl rfl (by simp [b4, b3, b2, b1, b0])
  let b6 := b5.set 5 (UInt8.ofNat (v >>> 16))
  let e8 := e7.set 9 (bytesV b6)
  have t8 : EvIn P G O 1 e7 (.assign 9 [.e (.op2 (.add .i64) (.lit 0) (.lit 5))] (.op1 (.conv .u8) (.op1 (.shrc 16) (.var 10)))) e8 .norm :=
    store_byte (b := b5) (v := v) (i := 5) rfl rfl rfl (by simp [b5, b4, b3, b2, b1, b0])
  let b7 := b6.set 6 (UInt8.ofNat (v >>> 8))
  let e9 := e8.set 9 (bytesV b7)
  have t9 : EvIn P G O 1 e8 (.assign 9 [.e (.op2 (.add .i64) (.lit 0) (.lit 6))] (.op1 (.conv .u8) (.op1 (.shrc 8) (.var 10)))) e9 .norm :=
    store_byte (b := b6) (v := v) (i := 6) rfl rfl rfl (by simp [b6, b5, b4, b3, b2, b1, b0])
  let b8 := b7.set 7 (UInt8.ofNat (v >>> 0))
  let e10 := e9.set 9 (bytesV b8)
  have t10 : EvIn P G O 1 e9 (.assign 9 [.e (.op2 (.add .i64) (.lit 0) (.lit 7))] (.op1 (.conv .u8) (.op1 (.shrc 0) (.var 10)))) e10 .norm :=
    store_byte (b := b7) (v := v) (i := 7) rfl rfl rfl (by simp [b7, b6, b5, b4, b3, b2, b1, b0])
  let e11 := e10.set 11 (.int (w : Int))
  have s11 : evalV G e10 (.op1 (.shlc .u64 3) (.var 7)) = some (.int (w : Int)) := by
    rw [evalV_op1, evalV_var]
    show some (Val.int (evalOp1 (.shlc .u64 3) (p : Int))) = _
    rw [shl3_u64 hp]
  let b9 := b8.set 8 (UInt8.ofNat (w >>> 56))
  let e12 := e11.set 9 (bytesV b9)
  have t12 : EvIn P G O 1 e11 (.assign 9 [.e (.op2 (.add .i64) (.op2 (.add .i64) (.lit 0) (.lit 8)) (.lit 0))] (.op1 (.conv .u8) (.op1 (.shrc 56) (.var 11)))) e12 .norm :=
    store_byte (b := b8) (v := w) (i := 8) rfl rfl rfl (by simp [b8, b7, b6, b5, b4, b3, b2, b1, b0])
  let b10 := b9.set 9 (UInt8.ofNat (w >>> 48))
  let e13 := e12.set 9 (bytesV b10)
  have t13 : EvIn P G O 1 e12 (.assign 9 [.e (.op2 (.add .i64) (.op2 (.add .i64) (.lit 0) (.lit 8)) (.lit 1))] (.op1 (.conv .u8) (.op1 (.shrc 48) (.var 11)))) e13 .norm :=
    store_byte (b := b9) (v := w) (i := 9) rfl rfl rfl (by simp [b9, b8, b7, b6, b5, b4, b3, b2, b1, b0])
  let b11 := b10.set 10 (UInt8.ofNat (w >>> 40))
  let e14 := e13.set 9 (bytesV b11)
  have t14 : EvIn P G O 1 e13 (.assign 9 [.e (.op2 (.add .i64) (.op2 (.add .i64) (.lit 0) (.lit 8)) (.lit 2))] (.op1 (.conv .u8) (.op1 (.shrc 40) (.var 11)))) e14 .norm :=
    store_byte (b := b10) (v := w) (i := 10) rfl rfl rfl (by simp [b10, b9, b8, b7, b6, b5, b4, b3, b2, b1, b0])
  let b12 := b11.set 11 (UInt8.ofNat (w >>> 32))
  let e15 := e14.set 9 (bytesV b12)
  have t15 : EvIn P G O 1 e14 (.assign 9 [.e (.op2 (.add .i64) (.op2 (.add .i64) (.lit 0) (.lit 8)) (.lit 3))] (.op1 (.conv .u8) (.op1 (.shrc 32) (.var 11)))) e15 .norm :=
    store_byte (b := b11) (v := w) (i := 11) rfl rfl rfl (by simp [b11, b10, b9, b8, b7, b6, b5, b4, b3, b2, b1, b0])
  let b13 := b12.set 12 (UInt8.ofNat (w >>> 24))
  let e16 := e15.set 9 (bytesV b13)
  have t16 : EvIn P G O 1 e15 (.assign 9 [.e (.op2 (.add .i64) (.op2 (.add .i64) (.lit 0) (.lit 8)) (.lit 4))] (.op1 (.conv .u8) (.op1 (.shrc 24) (.var 11)))) e16 .norm :=
    store_byte (b := b12) (v := w) (i := 12) rfl rfl rfl (by simp [b12, b11, b10, b9, b8, b7, b6, b5, b4, b3, b2, b1, b0])
  let b14 := b13.set 13 (UInt8.ofNat (w >>> 16))
  let e17 := e16.set 9 (bytesV b14)
  have t17 : EvIn P G O 1 e16 (.assign 9 [.e (.op2 (.add .i64) (.op2 (.add .i64) (.lit 0) (.lit 8)) (.lit 5))] (.op1 (.conv .u8) (.op1 (.shrc 16) (.var 11)))) e17 .norm :=
    store_byte (b := b13) (v := w) (i := 13) rfl rfl rfl (by simp [b13, b12, b11, b10, b9, b8, b7, b6, b5, b4, b3, b2, b1, b0])
  let b15 := b14.set 14 (UInt8.ofNat (w >>> 8))
  let e18 := e17.set 9 (bytesV b15)
  have t18 : EvIn P G O 1 e17 (.assign 9 [.e (.op2 (.add .i64) (.op2 (.add .i64) (.lit 0) (.lit 8)) (.lit 6))] (.op1 (.conv .u8) (.op1 (.shrc 8) (.var 11)))) e18 .norm :=
    store_byte (b := b14) (v := w) (i := 14) rfl rfl rfl (by simp [b14, b13, b12, b11, b10, b9, b8, b7, b6, b5, b4, b3, b2, b1, b0])
  let b16 := b15.set 15 (UInt8.ofNat (w >>> 0))
  let e19 := e18.set 9 (bytesV b16)
  have t19 : EvIn P G O 1 e18 (.assign 9 [.e (.op2 (.add .i64) (.op2 (.add .i64) (.lit 0) (.lit 8)) (.lit 7))] (.op1 (.conv .u8) (.op1 (.shrc 0) (.var 11)))) e19 .norm :=
    store_byte (b := b15) (v := w) (i := 15) rfl rfl rfl (by simp [b15, b14, b13, b12, b11, b10, b9, b8, b7, b6, b5, b4, b3, b2, b1, b0])
  have hb : b16 = be64 (8 * a) ++ be64 (8 * p) := be_stores v w
  have hbl : b16.length = 16 := by rw [hb]; simp [be64, Bytes.ofNatBE]
  let r := ghBlocks specGh H 1 tag b16
  let ea := e19.set 8 (.int (Int.ofNat (H.headD 0).toNat))
  let eb := ea.set 8 (.int (Int.ofNat (tag.headD 0).toNat))
  let ec := eb.set 8 (.int (Int.ofNat (b16.headD 0).toNat))
  let e20 := ec.set 5 (bytesV r)
  have g4 : e19 4 = bytesV H := by simp [e19, e18, e17, e16, e15, e14, e13, e12, e11, e10, e9, e8, e7, e6, e5, e4, e3, e2, e1, Env.set]; rfl
  have g5 : e19 5 = bytesV tag := by simp [e19, e18, e17, e16, e15, e14, e13, e12, e11, e10, e9, e8, e7, e6, e5, e4, e3, e2, e1, Env.set]; rfl
  have g9 : e19 9 = bytesV b16 := by simp [e19]
  have k1 : evalV G e19 (.idxc (.var 4) 0) = some (.int (Int.ofNat (H.headD 0).toNat)) :=
    evalV_chk (b := H) (evar g4) (by omega)
  have k2 : evalV G ea (.idxc (.var 5) 0) = some (.int (Int.ofNat (tag.headD 0).toNat)) :=
    evalV_chk (b := tag) (evar (by simp [ea, Env.set, g5])) (by omega)
  have k3 : evalV G eb (.idxc (.var 9) 0) = some (.int (Int.ofNat (b16.headD 0).toNat)) :=
    evalV_chk (b := b16) (evar (by simp [eb, ea, Env.set, g9])) (by omega)
  have g4' : ec 4 = bytesV H := by simp [ec, eb, ea, Env.set, g4]
  have g5' : ec 5 = bytesV tag := by simp [ec, eb, ea, Env.set, g5]
  have g9' : ec 9 = bytesV b16 := by simp [ec, eb, ea, Env.set, g9]
  have f1 : EvIn P G O 1 ec (.ext [] 0 true [(.lit 7), (.lit 1)]) ec .norm := ext0 hO (vs := [.int 7, .int 1]) rfl
  have f2 : EvIn P G O 1 ec (.ext [5] 7 false [(.var 4), (.var 5), (.var 9), (.lit 1)]) e20 .norm := by
    refine ext1 (vs := [bytesV H, bytesV tag, bytesV b16, .int ((1 : Nat) : Int)]) ?_
      (hO.gh H tag b16 1 (Nat.le_refl _) hH ht (by omega))
    simp only [evalVs_cons, evalVs_nil, evalV_var, evalV_lit, g4', g5', g9']; rfl
  have hr : r = natToBlock (ghFold (blockToNat H) (blockToNat tag) (be64 (8 * a) ++ be64 (8 * p))) := by
    show ghBlocks specGh H 1 tag b16 = _
    rw [SMGo.Proofs.GCMGlueA64.ghBlocks_spec H hH 1 tag b16 ht (by omega), List.take_of_length_le (by omega), hb]
  have sr : evalVs G e20 [(.var 5)] = some [bytesV (natToBlock (ghFold (blockToNat H) (blockToNat tag) (be64 (8 * a) ++ be64 (8 * p))))] := by
    rw [← hr]; simp [evalVs_cons, e20, Env.set]
  refine Computes.of_body hP.h4 rfl rfl (env' := e20) ?_
  exact (EvIn.seq (EvIn.assign s1) (EvIn.seq (EvIn.assign s2)
    (EvIn.seq t3 (EvIn.seq t4 (EvIn.seq t5 (EvIn.seq t6 (EvIn.seq t7 (EvIn.seq t8 (EvIn.seq t9 (EvIn.seq t10 (EvIn.seq (EvIn.assign s11) (EvIn.seq t12 (EvIn.seq t13 (EvIn.seq t14 (EvIn.seq t15 (EvIn.seq t16 (EvIn.seq t17 (EvIn.seq t18 (EvIn.seq t19 (EvIn.seq (EvIn.assign k1) (EvIn.seq (EvIn.assign k2) (EvIn.seq (EvIn.assign k3) (EvIn.seq f1 (EvIn.seq f2 (EvIn.ret sr))))))))))))))))))))))))).mono (by decide)

end Glue3
section Glue4
variable {P : Prog} {G : Nat → Val} {O : Oracle} {E : Bytes → Bytes} {c rk : Val} {ns ts : Nat}

def fuelGhu : Nat := 40

theorem ghUpdate_computes (hP : HasSmall P) (hO : LeafOk O E rk) (H tag inp : Bytes) (hH : H.length = 16)
    (ht : tag.length = 16) (hlen : inp.length < 2 ^ 63) :
    Computes P G O 3 fuelGhu (recv c rk ns ts ++ [bytesV H, bytesV tag, bytesV inp])
      [bytesV (natToBlock (ghFold (blockToNat H) (blockToNat tag) (pad16 inp)))] := by
  let l := inp.length
  let q := l / 16
  let r := l % 16
  let tag1 := ghBlocks specGh H q tag inp
  have hq : 16 * q ≤ inp.length := by simp only [q, l]; omega
  have htag1 : tag1 = natToBlock (ghFold (blockToNat H) (blockToNat tag) (inp.take (16 * q))) :=
    SMGo.Proofs.GCMGlueA64.ghBlocks_spec H hH q tag inp ht hq
  have ht1 : tag1.length = 16 := by rw [htag1]; exact SMGo.Proofs.GCM.natToBlock_length _
  let e0 : Env := Env.ofList [c, rk, .int (ns : Int), .int (ts : Int), bytesV H, bytesV tag, bytesV inp]
  let e1 := e0.set 8 (.int (l : Int))
  have s1 : evalV G e0 (.len (.var 6)) = some (.int (l : Int)) := evalV_lenB (x := inp) rfl
  have shr : ∀ env : Env, env 8 = .int (l : Int) → evalV G env (.op1 (.shrc 4) (.var 8)) = some (.int (q : Int)) := by
    intro env h8
    rw [evalV_op1, evalV_var, h8]
    show some (Val.int (((l >>> 4 : Nat) : Int))) = _
    rw [SMGo.Proofs.GCMGlueA64.shr4]
  -- the whole blocks: both branches end with the same H, tag, in, l (the blank variable 7 differs)
  have br : ∃ e2 : Env, EvIn P G O 12 e1 (.ite (.op2 .ge (.var 8) (.lit 16))
      (SMGo.Gen.CTIRProgSM4.Arm64.seqs [.assign 7 [] (.idxc (.var 4) 0), .assign 7 [] (.idxc (.var 5) 0),
        .assign 7 [] (.idxc (.var 6) 0), .ext [] 0 true [(.lit 7), (.op1 (.shrc 4) (.var 8))],
        .ext [5] 7 false [(.var 4), (.var 5), (.var 6), (.op1 (.shrc 4) (.var 8))]]) .skip) e2 .norm
      ∧ e2 4 = bytesV H ∧ e2 5 = bytesV tag1 ∧ e2 6 = bytesV inp ∧ e2 8 = .int (l : Int) := by
    by_cases hge : 16 ≤ l
    · have cc : evalV G e1 (.op2 .ge (.var 8) (.lit 16)) = some (.int 1) := by
        refine evalV_op2i (evar rfl) rfl ?_
        have : decide ((16 : Int) ≤ (l : Int)) = true := decide_eq_true (by omega)
        simp only [evalOp2, ofBool, this]; rfl
      let ea := e1.set 7 (.int (Int.ofNat (H.headD 0).toNat))
      let eb := ea.set 7 (.int (Int.ofNat (tag.headD 0).toNat))
      let ec := eb.set 7 (.int (Int.ofNat (inp.headD 0).toNat))
      have k1 : evalV G e1 (.idxc (.var 4) 0) = some (.int (Int.ofNat (H.headD 0).toNat)) :=
        evalV_chk (b := H) rfl (by omega)
      have k2 : evalV G ea (.idxc (.var 5) 0) = some (.int (Int.ofNat (tag.headD 0).toNat)) :=
        evalV_chk (b := tag) rfl (by omega)
      have k3 : evalV G eb (.idxc (.var 6) 0) = some (.int (Int.ofNat (inp.headD 0).toNat)) :=
        evalV_chk (b := inp) rfl (by omega)
      have hq1 : 1 ≤ q := by simp only [q]; omega
      have f1 : EvIn P G O 1 ec (.ext [] 0 true [(.lit 7), (.op1 (.shrc 4) (.var 8))]) ec .norm := by
        refine ext0 hO (vs := [.int 7, .int (q : Int)]) ?_
        rw [evalVs_cons, evalVs_cons, shr ec rfl]; rfl
      have f2 : EvIn P G O 1 ec (.ext [5] 7 false [(.var 4), (.var 5), (.var 6), (.op1 (.shrc 4) (.var 8))])
          (ec.set 5 (bytesV tag1)) .norm := by
        refine ext1 (vs := [bytesV H, bytesV tag, bytesV inp, .int (q : Int)]) ?_ (hO.gh H tag inp q hq1 hH ht hq)
        rw [evalVs_cons, evalVs_cons, evalVs_cons, evalVs_cons, shr ec rfl]; rfl
      exact ⟨ec.set 5 (bytesV tag1), (EvIn.ite cc rfl (EvIn.seq (EvIn.assign k1) (EvIn.seq (EvIn.assign k2)
        (EvIn.seq (EvIn.assign k3) (EvIn.seq f1 f2))))).mono (by decide), rfl, rfl, rfl, rfl⟩
    · have cc : evalV G e1 (.op2 .ge (.var 8) (.lit 16)) = some (.int 0) := by
        refine cmp_false (evar rfl) rfl ?_
        have : decide ((16 : Int) ≤ (l : Int)) = false := decide_eq_false (by omega)
        simp only [evalOp2, ofBool, this]; rfl
      have hq0 : q = 0 := by simp only [q]; omega
      have h1 : tag1 = tag := by simp only [tag1, hq0, ghBlocks]
      refine ⟨e1, (EvIn.ite cc rfl (EvIn.skip _)).mono (by decide), rfl, ?_, rfl, rfl⟩
      rw [h1]; rfl
  obtain ⟨e2, hbr, k4, k5, k6, k8⟩ := br
  let e3 := e2.set 9 (.int (r : Int))
  have s3 : evalV G e2 (.op2 (.and .i64) (.var 8) (.lit 15)) = some (.int (r : Int)) :=
    evalV_op2i (evar k8) rfl (and15_i64 l)
  have g4 : e3 4 = bytesV H := (Env.set_other _ _ (by decide)).trans k4
  have g5 : e3 5 = bytesV tag1 := (Env.set_other _ _ (by decide)).trans k5
  have g6 : e3 6 = bytesV inp := (Env.set_other _ _ (by decide)).trans k6
  have g8 : e3 8 = .int (l : Int) := (Env.set_other _ _ (by decide)).trans k8
  have g9 : e3 9 = .int (r : Int) := Env.set_same _ _ _
  have hfold := SMGo.Proofs.GCMGlueA64.ghFold_pad16 (blockToNat H) (blockToNat tag) inp
  by_cases hr : r = 0
  · have cc : evalV G e3 (.op2 .ne (.var 9) (.lit 0)) = some (.int 0) := by
      refine cmp_false (evar g9) rfl ?_
      simp only [evalOp2, ofBool, hr]; rfl
    have sr : evalVs G e3 [(.var 5)] = some [bytesV (natToBlock (ghFold (blockToNat H) (blockToNat tag) (pad16 inp)))] := by
      rw [hfold, if_pos hr, ← htag1, evalVs_cons, evalV_var, g5]; rfl
    refine Computes.of_body hP.h3 rfl rfl (env' := e3) ?_
    exact (EvIn.seq (EvIn.assign s1) (EvIn.seq hbr (EvIn.seq (EvIn.assign s3)
      (EvIn.seq (EvIn.ite cc rfl (EvIn.skip _)) (EvIn.ret sr))))).mono (by decide)
  · have hr16 : r < 16 := Nat.mod_lt _ (by decide)
    have cc : evalV G e3 (.op2 .ne (.var 9) (.lit 0)) = some (.int 1) := by
      refine evalV_op2i (evar g9) rfl ?_
      have : ((r : Int) != 0) = true := by simp; omega
      simp only [evalOp2, ofBool, this]; rfl
    let z : Bytes := List.replicate 16 0
    let tl := inp.drop (l - r)
    have htl : tl.length = r := by simp only [tl, List.length_drop, l, r]; omega
    let f1 := e3.set 10 (bytesV z)
    let f2 := f1.set 11 (bytesV tl)
    let f3 := f2.set 12 (.int ((min z.length tl.length : Nat) : Int))
    let tmp := tl.take (min z.length tl.length) ++ z.drop (min z.length tl.length)
    let f4 := f3.set 10 (bytesV tmp)
    let fa := f4.set 7 (.int (Int.ofNat (H.headD 0).toNat))
    let fb := fa.set 7 (.int (Int.ofNat (tag1.headD 0).toNat))
    let fc := fb.set 7 (.int (Int.ofNat (tmp.headD 0).toNat))
    let res := ghBlocks specGh H 1 tag1 tmp
    let f5 := fc.set 5 (bytesV res)
    have hm : min z.length tl.length = r := by rw [htl]; simp [z]; omega
    have htmp : tmp = inp.drop (inp.length - inp.length % 16) ++ List.replicate (16 - inp.length % 16) 0 := by
      simp only [tmp, hm]
      rw [List.take_of_length_le (by omega)]
      show inp.drop (l - r) ++ List.drop r (List.replicate 16 0) = _
      rw [List.drop_replicate]
    have htmpl : tmp.length = 16 := by rw [htmp]; simp; omega
    have a1 : evalV G e3 (.mk (.lit 16) (.lit 0)) = some (bytesV z) := evalV_mk16 _
    have a2 : evalV G f1 (.slice (.var 6) (.op2 (.sub .i64) (.var 8) (.var 9)) (.len (.var 6))) = some (bytesV tl) := by
      have h8 : f1 8 = .int (l : Int) := (Env.set_other _ _ (by decide)).trans g8
      have h9 : f1 9 = .int (r : Int) := (Env.set_other _ _ (by decide)).trans g9
      have h6 : f1 6 = bytesV inp := (Env.set_other _ _ (by decide)).trans g6
      have d : evalV G f1 (.op2 (.sub .i64) (.var 8) (.var 9)) = some (.int ((l - r : Nat) : Int)) := by
        have := evalV_op2i (G := G) (env := f1) (o := .sub .i64) (a := .var 8) (b := .var 9) (evar h8) (evar h9)
          (sub_i64 (by omega) (by omega))
        rw [this]; congr 2; simp only [r]; omega
      exact evalV_sliceFrom (x := inp) (evar h6) d (by omega)
    have a3 := copy_min (G := G) (env := f2) (d := 10) (s := 11) (dst := z) (src := tl) rfl rfl (by simp [z])
    have a4 := copy_cat (G := G) (env := f3) (d := 10) (s := 11) (t := 12) (dst := z) (src := tl)
      (m := min z.length tl.length) rfl rfl rfl (Nat.min_le_left _ _) (Nat.min_le_right _ _) (by simp [z])
    have m4 : f4 4 = bytesV H := by simp [f4, f3, f2, f1, Env.set, g4]
    have m5 : f4 5 = bytesV tag1 := by simp [f4, f3, f2, f1, Env.set, g5]
    have k1 : evalV G f4 (.idxc (.var 4) 0) = some (.int (Int.ofNat (H.headD 0).toNat)) :=
      evalV_chk (b := H) (evar m4) (by omega)
    have k2 : evalV G fa (.idxc (.var 5) 0) = some (.int (Int.ofNat (tag1.headD 0).toNat)) :=
      evalV_chk (b := tag1) (evar (by simp [fa, Env.set, m5])) (by omega)
    have k3 : evalV G fb (.idxc (.var 10) 0) = some (.int (Int.ofNat (tmp.headD 0).toNat)) :=
      evalV_chk (b := tmp) rfl (by omega)
    have n4 : fc 4 = bytesV H := by simp [fc, fb, fa, Env.set, m4]
    have n5 : fc 5 = bytesV tag1 := by simp [fc, fb, fa, Env.set, m5]
    have n10 : fc 10 = bytesV tmp := rfl
    have f1' : EvIn P G O 1 fc (.ext [] 0 true [(.lit 7), (.lit 1)]) fc .norm := ext0 hO (vs := [.int 7, .int 1]) rfl
    have f2' : EvIn P G O 1 fc (.ext [5] 7 false [(.var 4), (.var 5), (.var 10), (.lit 1)]) f5 .norm := by
      refine ext1 (vs := [bytesV H, bytesV tag1, bytesV tmp, .int ((1 : Nat) : Int)]) ?_
        (hO.gh H tag1 tmp 1 (Nat.le_refl _) hH ht1 (by omega))
      simp only [evalVs_cons, evalVs_nil, evalV_var, evalV_lit, n4, n5, n10]; rfl
    have hres : res = natToBlock (ghFold (blockToNat H) (blockToNat tag) (pad16 inp)) := by
      show ghBlocks specGh H 1 tag1 tmp = _
      rw [SMGo.Proofs.GCMGlueA64.ghBlocks_spec H hH 1 tag1 tmp ht1 (by omega), List.take_of_length_le (by omega),
        hfold, if_neg hr, htag1,
        SMGo.Proofs.GCM.blockToNat_natToBlock (SMGo.Proofs.GCMGlueA64.ghFold_lt (SMGo.Proofs.GCM.blockToNat_lt hH)
          (SMGo.Proofs.GCM.blockToNat_lt ht) _), htmp]
    have sr : evalVs G f5 [(.var 5)] = some [bytesV (natToBlock (ghFold (blockToNat H) (blockToNat tag) (pad16 inp)))] := by
      rw [← hres]; rfl
    refine Computes.of_body hP.h3 rfl rfl (env' := f5) ?_
    exact (EvIn.seq (EvIn.assign s1) (EvIn.seq hbr (EvIn.seq (EvIn.assign s3)
      (EvIn.seq (EvIn.ite cc rfl (EvIn.seq (EvIn.assign a1) (EvIn.seq (EvIn.assign a2) (EvIn.seq (EvIn.assign a3)
        (EvIn.seq (EvIn.assign a4) (EvIn.seq (EvIn.assign k1) (EvIn.seq (EvIn.assign k2) (EvIn.seq (EvIn.assign k3)
        (EvIn.seq f1' f2'))))))))) (EvIn.ret sr))))).mono (by decide)

def fuelCfc : Nat := fuelGhu + fuelGhf + 10

theorem firstCounter_computes (hP : HasSmall P) (hO : LeafOk O E rk) (nonce H : Bytes) (hH : H.length = 16)
    (hn : nonce.length < 2 ^ 61) :
    Computes P G O 2 fuelCfc (recv c rk ns ts ++ [bytesV nonce, bytesV (List.replicate 16 0), bytesV H])
      [bytesV (natToBlock (j0 (blockToNat H) nonce))] := by
  let z : Bytes := List.replicate 16 0
  have hz : z.length = 16 := List.length_replicate
  let e0 : Env := Env.ofList [c, rk, .int (ns : Int), .int (ts : Int), bytesV nonce, bytesV z, bytesV H]
  have l4 : evalV G e0 (.len (.var 4)) = some (.int (nonce.length : Int)) := evalV_lenB (x := nonce) rfl
  by_cases h12 : nonce.length = 12
  · have cc : evalV G e0 (.op2 .eq (.len (.var 4)) (.lit 12)) = some (.int 1) := by
      refine evalV_op2i l4 rfl ?_
      simp only [evalOp2, ofBool, h12]; rfl
    let m := min z.length nonce.length
    have hm : m = 12 := by simp only [m, hz, h12]; rfl
    let e1 := e0.set 8 (.int (m : Int))
    let b1 := nonce.take m ++ z.drop m
    let e2 := e1.set 5 (bytesV b1)
    let b2 := b1.set 15 1
    let e3 := e2.set 5 (bytesV b2)
    have a1 := copy_min (G := G) (env := e0) (d := 5) (s := 4) (dst := z) (src := nonce) rfl rfl (by omega)
    have a2 := copy_cat (G := G) (env := e1) (d := 5) (s := 4) (t := 8) (dst := z) (src := nonce) (m := m) rfl rfl rfl
      (Nat.min_le_left _ _) (Nat.min_le_right _ _) (by omega)
    have hb1 : b1 = nonce ++ [0, 0, 0, 0] := by
      simp only [b1, hm]
      rw [List.take_of_length_le (by omega)]
      rfl
    have a3 : EvIn P G O 1 e2 (.assign 5 [.c 15] (.lit 1)) e3 .norm := by
      refine EvIn.assignPath (v := .int (Int.ofNat (1 : UInt8).toNat)) (ks := [15]) rfl ?_ ?_
      · simp [pathV_c]
      · exact bytesV_set b1 15 1 (by rw [hb1, List.length_append, h12]; decide)
    have hb2 : b2 = nonce ++ [0, 0, 0, 1] := by
      simp only [b2, hb1]
      rw [List.set_append_right _ _ (by omega), h12]
      rfl
    have hres : natToBlock (j0 (blockToNat H) nonce) = b2 := by
      rw [j0, if_pos h12, ← hb2]
      exact SMGo.Proofs.GCM.natToBlock_blockToNat (by rw [hb2, List.length_append, h12]; rfl)
    have sr : evalVs G e3 [(.var 5)] = some [bytesV (natToBlock (j0 (blockToNat H) nonce))] := by
      rw [hres]; rfl
    refine Computes.of_body hP.h2 rfl rfl (env' := e3) ?_
    exact (EvIn.seq (EvIn.ite cc rfl (EvIn.seq (EvIn.assign a1) (EvIn.seq (EvIn.assign a2) a3))) (EvIn.ret sr)).mono
      (by decide)
  · have cc : evalV G e0 (.op2 .eq (.len (.var 4)) (.lit 12)) = some (.int 0) := by
      refine cmp_false l4 rfl ?_
      have : ((nonce.length : Int) == 12) = false := by simp; omega
      simp only [evalOp2, ofBool, this]; rfl
    let hN := blockToNat H
    let tagA := natToBlock (ghFold hN (blockToNat z) (pad16 nonce))
    let tagB := natToBlock (ghFold hN (blockToNat tagA) (be64 (8 * 0) ++ be64 (8 * nonce.length)))
    have htA : tagA.length = 16 := SMGo.Proofs.GCM.natToBlock_length _
    let e1 := e0.set 5 (bytesV tagA)
    let e2 := e1.set 5 (bytesV tagB)
    have hu := ghUpdate_computes (G := G) (c := c) (ns := ns) (ts := ts) hP hO H z nonce hH hz (by omega)
    have hf := ghFinish_computes (G := G) (c := c) (ns := ns) (ts := ts) hP hO H tagA 0 nonce.length hH htA (by decide) hn
    have a1 : EvIn P G O (fuelGhu + 1) e0 (.call [5] 3 [(.var 0), (.var 1), (.var 2), (.var 3), (.var 6), (.var 5), (.var 4)]) e1 .norm :=
      hu.call rfl rfl
    have a2 : EvIn P G O (fuelGhf + 1) e1 (.call [5] 4 [(.var 0), (.var 1), (.var 2), (.var 3), (.var 6), (.var 5), (.lit 0), (.op1 (.conv .u64) (.len (.var 4)))]) e2 .norm := by
      refine hf.call ?_ rfl
      have l4' : evalV G e1 (.op1 (.conv .u64) (.len (.var 4))) = some (.int (nonce.length : Int)) := by
        rw [evalV_op1, evalV_lenB (x := nonce) rfl]
        simp only [evalOp1, norm]
        congr 2; omega
      simp only [evalVs_cons, evalVs_nil, l4', evalV_var, evalV_lit]
      rfl
    have hres : natToBlock (j0 (blockToNat H) nonce) = tagB := by
      have hp : (pad16 nonce).length = 16 * ((nonce.length + 15) / 16) := SMGo.Proofs.GCMGlueA64.pad16_length' nonce
      have hlt := SMGo.Proofs.GCMGlueA64.ghFold_lt (SMGo.Proofs.GCM.blockToNat_lt hH) (Y := 0) (by decide) (pad16 nonce)
      rw [j0, if_neg h12, SMGo.Proofs.GCM.ghash_eq_ghFold, List.append_assoc,
        SMGo.Proofs.GCM.ghFold_append _ _ _ _ _ hp]
      show _ = natToBlock (ghFold hN (blockToNat (natToBlock (ghFold hN (blockToNat z) (pad16 nonce)))) _)
      rw [SMGo.Proofs.GCMGlueA64.blockToNat_zero, SMGo.Proofs.GCM.blockToNat_natToBlock hlt]
      rfl
    have sr : evalVs G e2 [(.var 5)] = some [bytesV (natToBlock (j0 (blockToNat H) nonce))] := by
      rw [hres]; rfl
    refine Computes.of_body hP.h2 rfl rfl (env' := e2) ?_
    exact (EvIn.seq (EvIn.ite cc rfl (EvIn.seq a1 a2)) (EvIn.ret sr)).mono (by simp only [fuelCfc]; omega)

theorem ofNatBE4 (x : Nat) : Bytes.ofNatBE 4 x = [UInt8.ofNat (x >>> 24), UInt8.ofNat (x >>> 16), UInt8.ofNat (x >>> 8),
    UInt8.ofNat (x >>> 0)] := by
  have := u8_shr x 3; have := u8_shr x 2; have := u8_shr x 1; have := u8_shr x 0
  simp_all [Bytes.ofNatBE, List.range_succ]

theorem set4 (A T : Bytes) (hA : A.length = 12) (hT : 4 ≤ T.length) (x0 x1 x2 x3 : UInt8) :
    ((((A ++ T).set 12 x0).set 13 x1).set 14 x2).set 15 x3 = A ++ [x0, x1, x2, x3] ++ T.drop 4 := by
  rcases T with _ | ⟨t0, _ | ⟨t1, _ | ⟨t2, _ | ⟨t3, T⟩⟩⟩⟩ <;> simp only [List.length_cons, List.length_nil] at hT <;> try omega
  rw [List.set_append_right _ _ (by omega), List.set_append_right _ _ (by omega), List.set_append_right _ _ (by omega),
    List.set_append_right _ _ (by omega), hA]
  simp

/-- the block `fillSingleBlock` writes -/
def fsb (J dst : Bytes) (v : Nat) : Bytes := J.take 12 ++ Bytes.ofNatBE 4 v ++ dst.drop 16

def fuelFsb : Nat := 24

theorem fillSingleBlock_computes (hP : HasSmall P) (dst J : Bytes) (v : Nat) (hd : 16 ≤ dst.length)
    (hd2 : dst.length < 2 ^ 63) (hJ : J.length = 16) :
    Computes P G O 8 fuelFsb [bytesV dst, bytesV J, .int (v : Int)] [bytesV (fsb J dst v)] := by
  let e0 : Env := Env.ofList [bytesV dst, bytesV J, .int (v : Int)]
  let J12 := (J.drop 0).take (12 - 0)
  have hJ12 : J12.length = 12 := by simp [J12]; omega
  let e1 := e0.set 4 (bytesV J12)
  let m := min dst.length J12.length
  have hm : m = 12 := by simp only [m, hJ12]; omega
  let e2 := e1.set 5 (.int (m : Int))
  let b0 := J12.take m ++ dst.drop m
  let e3 := e2.set 0 (bytesV b0)
  let e4 := e3.set 6 (.int (v : Int))
  let b1 := b0.set 12 (UInt8.ofNat (v >>> 24))
  let b2 := b1.set 13 (UInt8.ofNat (v >>> 16))
  let b3 := b2.set 14 (UInt8.ofNat (v >>> 8))
  let b4 := b3.set 15 (UInt8.ofNat (v >>> 0))
  let e5 := e4.set 0 (bytesV b1)
  let e6 := e5.set 0 (bytesV b2)
  let e7 := e6.set 0 (bytesV b3)
  let e8 := e7.set 0 (bytesV b4)
  have hb0 : b0.length = dst.length := by simp only [b0, hm, List.length_append, List.length_take, List.length_drop, hJ12]; omega
  have s1 : evalV G e0 (.slice (.var 1) (.lit 0) (.lit 12)) = some (bytesV J12) :=
    evalV_sliceB (x := J) (l := 0) (h := 12) rfl rfl rfl (by omega) (by omega)
  have s2 := copy_min (G := G) (env := e1) (d := 0) (s := 4) (dst := dst) (src := J12) rfl rfl hd2
  have s3 := copy_cat (G := G) (env := e2) (d := 0) (s := 4) (t := 5) (dst := dst) (src := J12) (m := m) rfl rfl rfl
    (Nat.min_le_left _ _) (Nat.min_le_right _ _) hd2
  have s4 : evalV G e3 (.var 2) = some (.int (v : Int)) := rfl
  have t5 : EvIn P G O 1 e4 (.assign 0 [.e (.op2 (.add .i64) (.op2 (.add .i64) (.lit 0) (.lit 12)) (.lit 0))] (.op1 (.conv .u8) (.op1 (.shrc 24) (.var 6)))) e5 .norm :=
    store_byte (b := b0) (v := v) (i := 12) rfl rfl rfl (by omega)
  have t6 : EvIn P G O 1 e5 (.assign 0 [.e (.op2 (.add .i64) (.op2 (.add .i64) (.lit 0) (.lit 12)) (.lit 1))] (.op1 (.conv .u8) (.op1 (.shrc 16) (.var 6)))) e6 .norm :=
    store_byte (b := b1) (v := v) (i := 13) rfl rfl rfl (by simp only [b1, List.length_set]; omega)
  have t7 : EvIn P G O 1 e6 (.assign 0 [.e (.op2 (.add .i64) (.op2 (.add .i64) (.lit 0) (.lit 12)) (.lit 2))] (.op1 (.conv .u8) (.op1 (.shrc 8) (.var 6)))) e7 .norm :=
    store_byte (b := b2) (v := v) (i := 14) rfl rfl rfl (by simp only [b2, b1, List.length_set]; omega)
  have t8 : EvIn P G O 1 e7 (.assign 0 [.e (.op2 (.add .i64) (.op2 (.add .i64) (.lit 0) (.lit 12)) (.lit 3))] (.op1 (.conv .u8) (.op1 (.shrc 0) (.var 6)))) e8 .norm :=
    store_byte (b := b3) (v := v) (i := 15) rfl rfl rfl (by simp only [b3, b2, b1, List.length_set]; omega)
  have hres : b4 = fsb J dst v := by
    have h1 : J12.take m = J.take 12 := by
      rw [List.take_of_length_le (by omega)]; rfl
    show (((b0.set 12 _).set 13 _).set 14 _).set 15 _ = _
    show ((((J12.take m ++ dst.drop m).set 12 _).set 13 _).set 14 _).set 15 _ = _
    rw [h1, hm, set4 _ _ (by rw [List.length_take]; omega) (by rw [List.length_drop]; omega), fsb, ofNatBE4, List.drop_drop]
  have sr : evalVs G e8 [(.var 0)] = some [bytesV (fsb J dst v)] := by
    rw [← hres]; rfl
  refine Computes.of_body hP.h8 rfl rfl (env' := e8) ?_
  exact (EvIn.seq (EvIn.assign s1) (EvIn.seq (EvIn.assign s2) (EvIn.seq (EvIn.assign s3) (EvIn.seq (EvIn.assign s4)
    (EvIn.seq t5 (EvIn.seq t6 (EvIn.seq t7 (EvIn.seq t8 (EvIn.ret sr))))))))).mono (by decide)

theorem or_eq_add (a b i : Nat) (ha : a % 2 ^ i = 0) (hb : b < 2 ^ i) : a ||| b = a + b := by
  have : a = (a / 2 ^ i) <<< i := by
    rw [Nat.shiftLeft_eq, Nat.div_mul_cancel (Nat.dvd_of_mod_eq_zero ha)]
  rw [this, ← Nat.shiftLeft_add_eq_or_of_lt hb]

theorem or_u32 (a b : Nat) (ha : a < 2 ^ 32) (hb : b < 2 ^ 32) :
    evalOp2 (.or .u32) (a : Int) (b : Int) = some ((a ||| b : Nat) : Int) := by
  have pa (x : Nat) (hx : x < 2 ^ 32) : pat .u32 (x : Int) = x := by
    simp only [pat, Ty.bits]
    rw [Int.ofNat_mod_ofNat, Int.toNat_natCast, Nat.mod_eq_of_lt hx]
  have := Nat.or_lt_two_pow ha hb
  simp only [evalOp2, pa a ha, pa b hb, norm]
  congr 1
  omega

/-- the counter word of `fillCounterN`: `binary.BigEndian.Uint32(src[12:]) + count + 1` -/
def cExpr : Expr := .op2 (.add .u32) (.op2 (.add .u32) (.op2 (.or .u32) (.op2 (.or .u32) (.op2 (.or .u32) (.op1 (.shlc .u32 24) (.op1 (.conv .u32) (.idxc (.var 4) 0))) (.op1 (.shlc .u32 16) (.op1 (.conv .u32) (.idxc (.var 4) 1)))) (.op1 (.shlc .u32 8) (.op1 (.conv .u32) (.idxc (.var 4) 2)))) (.op1 (.shlc .u32 0) (.op1 (.conv .u32) (.idxc (.var 4) 3)))) (.var 2)) (.lit 1)

theorem ctr_word {env : Env} (T : Bytes) (hT : T.length = 4) (count : Nat) (hc : count < 2 ^ 32)
    (h4 : env 4 = bytesV T) (h2 : env 2 = .int (count : Int)) :
    evalV G env cExpr = some (.int (((Bytes.toNatBE T + (count + 1)) % 2 ^ 32 : Nat) : Int)) := by
  rcases T with _ | ⟨x0, _ | ⟨x1, _ | ⟨x2, _ | ⟨x3, _ | ⟨x4, T⟩⟩⟩⟩⟩ <;> simp only [List.length_cons, List.length_nil] at hT <;> try omega
  have b0 := x0.toNat_lt; have b1 := x1.toNat_lt; have b2 := x2.toNat_lt; have b3 := x3.toNat_lt
  have piece (k s : Nat) (x : UInt8) (hk : (bytesV [x0, x1, x2, x3]) = .arr [.int x0.toNat, .int x1.toNat, .int x2.toNat, .int x3.toNat])
      (hx : [Val.int (x0.toNat : Int), .int x1.toNat, .int x2.toNat, .int x3.toNat][k]? = some (.int (x.toNat : Int))) (hs : s ≤ 24) :
      evalV G env (.op1 (.shlc .u32 s) (.op1 (.conv .u32) (.idxc (.var 4) k))) = some (.int ((x.toNat * 2 ^ s : Nat) : Int)) := by
    rw [evalV_op1, evalV_op1, evalV_idxc, evalV_var, h4, hk]
    simp only [hx]
    have bx := x.toNat_lt
    have e1 : evalOp1 (.conv .u32) (x.toNat : Int) = (x.toNat : Int) := by simp only [evalOp1, norm]; omega
    rw [e1]
    have h2s : 2 ^ s ≤ 2 ^ 24 := Nat.pow_le_pow_right (by decide) hs
    have : x.toNat * 2 ^ s < 2 ^ 32 := by
      calc x.toNat * 2 ^ s ≤ 255 * 2 ^ 24 := Nat.mul_le_mul (by omega) h2s
        _ < 2 ^ 32 := by decide
    simp only [evalOp1, norm]
    rw [← Int.natCast_mul]
    congr 2
    omega
  have hk : (bytesV [x0, x1, x2, x3]) = .arr [.int x0.toNat, .int x1.toNat, .int x2.toNat, .int x3.toNat] := rfl
  have p0 := piece 0 24 x0 hk rfl (by decide)
  have p1 := piece 1 16 x1 hk rfl (by decide)
  have p2 := piece 2 8 x2 hk rfl (by decide)
  have p3 := piece 3 0 x3 hk rfl (by decide)
  have o1 := evalV_op2i (G := G) p0 p1 (or_u32 _ _ (by omega) (by omega))
  rw [or_eq_add _ _ 24 (by omega) (by omega)] at o1
  have o2 := evalV_op2i (G := G) o1 p2 (or_u32 _ _ (by omega) (by omega))
  rw [or_eq_add _ _ 16 (by omega) (by omega)] at o2
  have o3 := evalV_op2i (G := G) o2 p3 (or_u32 _ _ (by omega) (by omega))
  rw [or_eq_add _ _ 8 (by omega) (by omega)] at o3
  have a1 := evalV_op2i (G := G) (o := .add .u32) o3 (evar h2) rfl
  have a2 := evalV_op2i (G := G) (o := .add .u32) a1 (evalV_lit G env 1) rfl
  rw [cExpr, a2]
  have hv : Bytes.toNatBE [x0, x1, x2, x3] = ((x0.toNat * 256 + x1.toNat) * 256 + x2.toNat) * 256 + x3.toNat := by
    simp [Bytes.toNatBE]
  rw [hv]
  simp only [norm]
  congr 2
  omega

def fuelFill16 : Nat := fuelFsb + 8

theorem fill16_computes (hP : HasSmall P) (dst J : Bytes) (count : Nat) (hd : dst.length = 16) (hJ : J.length = 16)
    (hc : count < 2 ^ 32) :
    Computes P G O 12 fuelFill16 [bytesV dst, bytesV J, .int (count : Int)]
      [bytesV (ctrBlocks (blockToNat J) (count + 1) 1)] := by
  let e0 : Env := Env.ofList [bytesV dst, bytesV J, .int (count : Int)]
  let T := J.drop 12
  have hT : T.length = 4 := by simp only [T, List.length_drop]; omega
  let e1 := e0.set 4 (bytesV T)
  let cw := (Bytes.toNatBE T + (count + 1)) % 2 ^ 32
  let e2 := e1.set 5 (.int (cw : Int))
  let e3 := e2.set 0 (bytesV (fsb J dst cw))
  have s1 : evalV G e0 (.slice (.var 1) (.lit 12) (.len (.var 1))) = some (bytesV T) :=
    evalV_sliceFrom (x := J) (l := 12) rfl rfl (by omega)
  have s2 : evalV G e1 cExpr = some (.int (cw : Int)) := ctr_word T hT count hc rfl rfl
  have s3 : EvIn P G O (fuelFsb + 1) e2 (.call [0] 8 [(.var 0), (.var 1), (.var 5)]) e3 .norm :=
    (fillSingleBlock_computes (G := G) (O := O) hP dst J cw (by omega) (by omega) hJ).call rfl rfl
  have hres : fsb J dst cw = ctrBlocks (blockToNat J) (count + 1) 1 := by
    have := SMGo.Proofs.GCMGlueA64.lane_block J hJ (count + 1)
    simp only [fsb, ctrBlocks, List.append_nil]
    rw [List.drop_of_length_le (by omega), List.append_nil]
    exact this
  have sr : evalVs G e3 [(.var 0)] = some [bytesV (ctrBlocks (blockToNat J) (count + 1) 1)] := by
    rw [← hres]; rfl
  refine Computes.of_body hP.h12 rfl rfl (env' := e3) ?_
  exact (EvIn.seq (EvIn.assign s1) (EvIn.seq (EvIn.assign s2) (EvIn.seq s3 (EvIn.ret sr)))).mono
    (by simp only [fuelFill16]; omega)

/-! ### fillCounter32/64/128/256: the lanes -/

/-- lane `j ≥ 1`: `fillSingleBlock(dst[16j:], src, c + j)` into the temporary `5 + j`, then `dst = dst[:16j] ++ t` -/
def laneStmts (j : Nat) : List Stmt :=
  [.call [5 + j] 8 [(.slice (.var 0) (.lit ((16 * j : Nat) : Int)) (.len (.var 0))), (.var 1),
      (.op2 (.add .u32) (.var 5) (.lit ((j : Nat) : Int)))],
   .assign 0 [] (.cat (.slice (.var 0) (.lit 0) (.op2 (.add .i64) (.lit 0) (.lit ((16 * j : Nat) : Int)))) (.var (5 + j)))]

/-- the lanes `j, j+1, …, j+m-1` -/
def lanesFrom : Nat → Nat → List Stmt
  | _, 0 => []
  | j, m + 1 => laneStmts j ++ lanesFrom (j + 1) m

/-- the common beginning: `src[12:]`, the counter word, lane 0 -/
def fillPrefix : List Stmt :=
  [.assign 4 [] (.slice (.var 1) (.lit 12) (.len (.var 1))), .assign 5 [] cExpr, .call [0] 8 [(.var 0), (.var 1), (.var 5)]]

theorem fn_12_body : fn_12.body = SMGo.Gen.CTIRProg.seqs (fillPrefix ++ lanesFrom 1 0 ++ [.ret [(.var 0)]]) := rfl
theorem fn_11_body : fn_11.body = SMGo.Gen.CTIRProg.seqs (fillPrefix ++ lanesFrom 1 1 ++ [.ret [(.var 0)]]) := rfl
theorem fn_10_body : fn_10.body = SMGo.Gen.CTIRProg.seqs (fillPrefix ++ lanesFrom 1 3 ++ [.ret [(.var 0)]]) := rfl
theorem fn_9_body : fn_9.body = SMGo.Gen.CTIRProg.seqs (fillPrefix ++ lanesFrom 1 7 ++ [.ret [(.var 0)]]) := rfl
theorem fn_7_body : fn_7.body = SMGo.Gen.CTIRProg.seqs (fillPrefix ++ lanesFrom 1 15 ++ [.ret [(.var 0)]]) := rfl

/-- what the lanes read and write: `dst` (0), `src` (1), the counter word `c` (5) -/
structure LaneInv (env : Env) (D J : Bytes) (cw : Nat) : Prop where
  h0 : env 0 = bytesV D
  h1 : env 1 = bytesV J
  h5 : env 5 = .int (cw : Int)

def fuelLane : Nat := fuelFsb + 4

theorem lane_pre (hP : HasSmall P) {env : Env} {D J : Bytes} {cw : Nat} (j : Nat) (hi : LaneInv env D J cw)
    (hJ : J.length = 16) (hj : 1 ≤ j) (hD : 16 * j + 16 ≤ D.length) (hD2 : D.length < 2 ^ 62) :
    ∃ env', Pre P G O fuelLane env (laneStmts j) env' ∧
      LaneInv env' (D.take (16 * j) ++ fsb J (D.drop (16 * j)) ((cw + j) % 2 ^ 32)) J cw := by
  let v := (cw + j) % 2 ^ 32
  let X := fsb J (D.drop (16 * j)) v
  let e1 := env.set (5 + j) (bytesV X)
  let D' := D.take (16 * j) ++ X
  let e2 := e1.set 0 (bytesV D')
  have n0 : (0 : Nat) ≠ 5 + j := by omega
  have n1 : (1 : Nat) ≠ 5 + j := by omega
  have n5 : (5 : Nat) ≠ 5 + j := by omega
  have c1 : EvIn P G O (fuelFsb + 1) env (.call [5 + j] 8 [(.slice (.var 0) (.lit ((16 * j : Nat) : Int)) (.len (.var 0))), (.var 1),
      (.op2 (.add .u32) (.var 5) (.lit ((j : Nat) : Int)))]) e1 .norm := by
    have a1 : evalV G env (.slice (.var 0) (.lit ((16 * j : Nat) : Int)) (.len (.var 0))) = some (bytesV (D.drop (16 * j))) :=
      evalV_sliceFrom (evar hi.h0) (lit_nat env (16 * j)) (by omega)
    have a3 : evalV G env (.op2 (.add .u32) (.var 5) (.lit ((j : Nat) : Int))) = some (.int (v : Int)) := by
      have := evalV_op2i (G := G) (o := .add .u32) (evar hi.h5) (lit_nat env j) rfl
      rw [this]
      simp only [norm, v]
      congr 2
      all_goals omega
    refine (fillSingleBlock_computes (G := G) (O := O) hP (D.drop (16 * j)) J v (by rw [List.length_drop]; omega)
      (by rw [List.length_drop]; omega) hJ).call ?_ rfl
    simp only [evalVs_cons, evalVs_nil, a1, a3, evalV_var, hi.h1]
  have g0 : e1 0 = bytesV D := (Env.set_other _ _ n0).trans hi.h0
  have c2 : EvIn P G O 1 e1 (.assign 0 [] (.cat (.slice (.var 0) (.lit 0) (.op2 (.add .i64) (.lit 0) (.lit ((16 * j : Nat) : Int)))) (.var (5 + j)))) e2 .norm := by
    refine EvIn.assign ?_
    have p1 := evalV_sliceB (G := G) (evar g0) (lit_nat e1 0) (evalV_zero_add (lit_nat e1 (16 * j)) (by omega))
      (Nat.zero_le _) (by omega)
    have p2 : evalV G e1 (.var (5 + j)) = some (bytesV X) := evar (Env.set_same _ _ _)
    have := evalV_catB p1 p2
    simpa using this
  refine ⟨e2, (Pre.cons c1 (Pre.cons c2 (Pre.nil _))).mono (by simp only [fuelLane]; omega), ⟨Env.set_same _ _ _, ?_, ?_⟩⟩
  · exact (Env.set_other _ _ (by decide : (1 : Nat) ≠ 0)).trans ((Env.set_other _ _ n1).trans hi.h1)
  · exact (Env.set_other _ _ (by decide : (5 : Nat) ≠ 0)).trans ((Env.set_other _ _ n5).trans hi.h5)

/-- one lane on the values: block `j` of the counter blocks -/
theorem lane_value (dst J : Bytes) (count j : Nat) (hJ : J.length = 16) (_hd : 16 * j + 16 ≤ dst.length) :
    let jN := blockToNat J
    let D := ctrBlocks jN (count + 1) j ++ dst.drop (16 * j)
    D.take (16 * j) ++ fsb J (D.drop (16 * j)) (((Bytes.toNatBE (J.drop 12) + (count + 1)) % 2 ^ 32 + j) % 2 ^ 32)
      = ctrBlocks jN (count + 1) (j + 1) ++ dst.drop (16 * (j + 1)) := by
  intro jN D
  have hl : (ctrBlocks jN (count + 1) j).length = 16 * j := SMGo.Proofs.GCMGlueA64.ctrBlocks_length _ _ _
  have e1 : D.take (16 * j) = ctrBlocks jN (count + 1) j := by
    show (ctrBlocks jN (count + 1) j ++ _).take (16 * j) = _
    rw [← hl, List.take_left]
  have e2 : D.drop (16 * j) = dst.drop (16 * j) := by
    show (ctrBlocks jN (count + 1) j ++ _).drop (16 * j) = _
    rw [← hl, List.drop_left]
  have e3 : ((Bytes.toNatBE (J.drop 12) + (count + 1)) % 2 ^ 32 + j) % 2 ^ 32
      = (Bytes.toNatBE (J.drop 12) + (count + 1 + j)) % 2 ^ 32 := by omega
  rw [e1, e2, e3, fsb, SMGo.Proofs.GCMGlueA64.lane_block J hJ (count + 1 + j), SMGo.Proofs.GCMGlueA64.ctrBlocks_snoc,
    List.drop_drop, List.append_assoc]
  rfl

theorem lanes_pre (hP : HasSmall P) (dst J : Bytes) (count : Nat) (hJ : J.length = 16) (hd2 : dst.length < 2 ^ 62) :
    ∀ (m j : Nat) (env : Env), 1 ≤ j → 16 * (j + m) ≤ dst.length →
      LaneInv env (ctrBlocks (blockToNat J) (count + 1) j ++ dst.drop (16 * j)) J
        ((Bytes.toNatBE (J.drop 12) + (count + 1)) % 2 ^ 32) →
      ∃ env', Pre P G O (fuelLane * m) env (lanesFrom j m) env' ∧
        LaneInv env' (ctrBlocks (blockToNat J) (count + 1) (j + m) ++ dst.drop (16 * (j + m))) J
          ((Bytes.toNatBE (J.drop 12) + (count + 1)) % 2 ^ 32) := by
  intro m
  induction m with
  | zero => intro j env _ _ hi; exact ⟨env, (Pre.nil env).mono (by omega), hi⟩
  | succ m ih =>
    intro j env hj hd hi
    have hlen : (ctrBlocks (blockToNat J) (count + 1) j ++ dst.drop (16 * j)).length = dst.length := by
      rw [List.length_append, SMGo.Proofs.GCMGlueA64.ctrBlocks_length, List.length_drop]; omega
    obtain ⟨e1, p1, i1⟩ := lane_pre (G := G) (O := O) hP j hi hJ hj (by rw [hlen]; omega) (by rw [hlen]; exact hd2)
    rw [lane_value dst J count j hJ (by omega)] at i1
    obtain ⟨e2, p2, i2⟩ := ih (j + 1) e1 (by omega) (by omega) i1
    refine ⟨e2, (Pre.append p1 p2).mono (by rw [Nat.mul_succ]; omega), ?_⟩
    rw [show j + (m + 1) = j + 1 + m by omega]
    exact i2

/-- fuel of every `fillCounterN` -/
def fuelFill : Nat := fuelFsb + 10 + fuelLane * 15

/-- a function whose body is the prefix followed by the lanes 1 … m fills the m+1 counter blocks -/
theorem fill_generic (hP : HasSmall P) {g m : Nat} {fn : Fn} (hg : P[g]? = some fn) (hs : fn.stub = false)
    (hn : fn.nparams = 3) (hb : fn.body = SMGo.Gen.CTIRProg.seqs (fillPrefix ++ lanesFrom 1 m ++ [.ret [(.var 0)]]))
    (dst J : Bytes) (count : Nat) (hd : dst.length = 16 * (m + 1)) (hm : m ≤ 15) (hJ : J.length = 16) (hc : count < 2 ^ 32) :
    Computes P G O g fuelFill [bytesV dst, bytesV J, .int (count : Int)]
      [bytesV (ctrBlocks (blockToNat J) (count + 1) (m + 1))] := by
  let e0 : Env := Env.ofList [bytesV dst, bytesV J, .int (count : Int)]
  let T := J.drop 12
  have hT : T.length = 4 := by simp only [T, List.length_drop]; omega
  let e1 := e0.set 4 (bytesV T)
  let cw := (Bytes.toNatBE T + (count + 1)) % 2 ^ 32
  let e2 := e1.set 5 (.int (cw : Int))
  let e3 := e2.set 0 (bytesV (fsb J dst cw))
  have s1 : evalV G e0 (.slice (.var 1) (.lit 12) (.len (.var 1))) = some (bytesV T) :=
    evalV_sliceFrom (x := J) (l := 12) rfl rfl (by omega)
  have s2 : evalV G e1 cExpr = some (.int (cw : Int)) := ctr_word T hT count hc rfl rfl
  have s3 : EvIn P G O (fuelFsb + 1) e2 (.call [0] 8 [(.var 0), (.var 1), (.var 5)]) e3 .norm :=
    (fillSingleBlock_computes (G := G) (O := O) hP dst J cw (by omega) (by omega) hJ).call rfl rfl
  have ppre : Pre P G O (fuelFsb + 6) e0 fillPrefix e3 :=
    (Pre.cons (EvIn.assign s1) (Pre.cons (EvIn.assign s2) (Pre.cons s3 (Pre.nil _)))).mono (by omega)
  have h1 : fsb J dst cw = ctrBlocks (blockToNat J) (count + 1) 1 ++ dst.drop (16 * 1) := by
    have := SMGo.Proofs.GCMGlueA64.lane_block J hJ (count + 1)
    simp only [fsb, ctrBlocks, List.append_nil]
    rw [this]
  have i3 : LaneInv e3 (ctrBlocks (blockToNat J) (count + 1) 1 ++ dst.drop (16 * 1)) J cw := by
    rw [← h1]; exact ⟨rfl, rfl, rfl⟩
  obtain ⟨e4, pl, i4⟩ := lanes_pre (G := G) (O := O) hP dst J count hJ (by omega) m 1 e3 (Nat.le_refl _) (by omega) i3
  have hfin : ctrBlocks (blockToNat J) (count + 1) (1 + m) ++ dst.drop (16 * (1 + m))
      = ctrBlocks (blockToNat J) (count + 1) (m + 1) := by
    rw [List.drop_of_length_le (by omega), List.append_nil, Nat.add_comm 1 m]
  have sr : evalVs G e4 [(.var 0)] = some [bytesV (ctrBlocks (blockToNat J) (count + 1) (m + 1))] := by
    rw [evalVs_cons, evalV_var, i4.h0, hfin]; rfl
  refine Computes.of_body hg hs (by rw [hn]; rfl) (env' := e4) ?_
  rw [hb]
  have hle : fuelLane * m ≤ fuelLane * 15 := Nat.mul_le_mul_left _ hm
  exact ((Pre.append ppre pl _).1 _ _ _ (EvIn.ret sr)).mono (by simp only [fuelFill]; omega)

/-- **`FillOk`**: the five `fillCounterN` write the n counter blocks J+count+1, …, J+count+n -/
theorem fillOk (hP : HasSmall P) : FillOk P G O fuelFill := by
  intro g n hmem dst J count hd hJ hc
  simp only [fillFns, List.mem_cons, Prod.mk.injEq, List.mem_nil_iff, or_false] at hmem
  rcases hmem with ⟨rfl, rfl⟩ | ⟨rfl, rfl⟩ | ⟨rfl, rfl⟩ | ⟨rfl, rfl⟩ | ⟨rfl, rfl⟩
  · exact fill_generic hP (m := 0) hP.h12 rfl rfl fn_12_body dst J count hd (by decide) hJ hc
  · exact fill_generic hP (m := 1) hP.h11 rfl rfl fn_11_body dst J count hd (by decide) hJ hc
  · exact fill_generic hP (m := 3) hP.h10 rfl rfl fn_10_body dst J count hd (by decide) hJ hc
  · exact fill_generic hP (m := 7) hP.h9 rfl rfl fn_9_body dst J count hd (by decide) hJ hc
  · exact fill_generic hP (m := 15) hP.h7 rfl rfl fn_7_body dst J count hd (by decide) hJ hc

/-- the five small fields of `GlueCallees`, packaged with the `cryptoBlocks` statement as a hypothesis -/
theorem glueCallees_small (hP : HasSmall P) (hO : LeafOk O E rk) (hc : CipherOk c rk) {Fcb : Nat → Nat}
    (hcr : ∀ out inp J : Bytes, J.length = 16 → inp.length ≤ out.length → inp.length ≤ maxPlain →
      Computes P G O 6 (Fcb inp.length) (recv c rk ns ts ++ [rk, bytesV out, bytesV inp, bytesV J])
        [bytesV (gctr E (inc32 (blockToNat J)) inp ++ out.drop inp.length)]) :
    GlueCallees P G O E c rk ns ts fuelEnc fuelCfc fuelGhu fuelGhf fuelEns Fcb where
  encrypt := fun dst src hd hs => encrypt_computes hP hO hc dst src hd hs
  firstCounter := fun nonce H hH hn => firstCounter_computes hP hO nonce H hH hn
  ghUpdate := fun H tag inp hH ht hl => ghUpdate_computes hP hO H tag inp hH ht hl
  ghFinish := fun H tag a p hH ht ha hp => ghFinish_computes hP hO H tag a p hH ht ha hp
  ensure := fun arr asked cap h1 h2 h3 => ensure_computes hP arr asked cap h1 h2 h3
  crypto := hcr

end Glue4

#print axioms specSem_leafSpec
#print axioms hasSmall_PA
#print axioms encrypt_computes
#print axioms ensure_computes
#print axioms ghFinish_computes
#print axioms ghUpdate_computes
#print axioms firstCounter_computes
#print axioms fillSingleBlock_computes
#print axioms fill16_computes
#print axioms fillOk
#print axioms glueCallees_small

end SMGo.Proofs.CTIRRefineGCM
