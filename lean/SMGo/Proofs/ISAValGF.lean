import SMGo.Proofs.ISAValLanes
import SMGo.Proofs.AsmDataFacts
namespace SMGo.Proofs.ISAVal
open SMGo.Model.ISAVal

theorem bit_le_one (x i : Nat) : bit x i ≤ 1 := by unfold bit; omega
theorem parity8_le_one (x : Nat) : parity8 x ≤ 1 := by unfold parity8; omega

theorem xor_le_one (a b : Nat) (ha : a ≤ 1) (hb : b ≤ 1) : a ^^^ b ≤ 1 := by
  have : a ^^^ b < 2 ^ 1 := Nat.xor_lt_two_pow (by omega) (by omega)
  omega

theorem affineByte_lt (m : List Nat) (imm x : Nat) : affineByte m imm x < 256 := by
  have h := fun i => xor_le_one _ _ (parity8_le_one (m.getD (7 - i) 0 &&& x)) (bit_le_one imm i)
  have h0 := h 0; have h1 := h 1; have h2 := h 2; have h3 := h 3
  have h4 := h 4; have h5 := h 5; have h6 := h 6; have h7 := h 7
  simp only [affineByte, List.range, List.range.loop, List.foldl] at *
  omega

/-- dword 0 of (V)GF2P8AFFINE(INV)QB: the four low bytes, each through the affine map of qword 0 of the matrix -/
theorem lane0_gfAffine (inv : Bool) (imm m x : Nat) :
    lane 32 0 (gfAffine inv 16 imm m x)
      = unlanes 8 ((lanes 8 4 (lane 32 0 x)).map
          (fun xb => affineByte (lanes 8 8 (lane 64 0 m)) imm (if inv then aesInv xb else xb))) := by
  have hg : ∀ xb, xb < 2 ^ 8 → affineByte (lanes 8 8 (lane 64 0 m)) imm (if inv then aesInv xb else xb) < 2 ^ 8 :=
    fun xb _ => affineByte_lt _ _ _
  have h64 : lane 32 0 (gfAffine inv 16 imm m x) = lane 32 0 (lane 64 0 (gfAffine inv 16 imm m x)) := by
    rw [lane_zero, lane_zero, lane_zero]
    exact (Nat.mod_mod_of_dvd _ (Nat.pow_dvd_pow 2 (by decide : 32 ≤ 64))).symm
  rw [h64]
  unfold gfAffine
  rw [show 16 / 8 = 2 from rfl, lane_map2 64 2 0 m x _ (by decide)]
  · dsimp only
    unfold map1
    have key := lane0_unlanes_take' 32 8 4 (by decide)
      ((lanes 8 8 (lane 64 0 x)).map (fun xb => affineByte (lanes 8 8 (lane 64 0 m)) imm (if inv then aesInv xb else xb)))
      (by
        intro y hy
        simp only [List.mem_map] at hy
        obtain ⟨p, hp, rfl⟩ := hy
        exact hg p (mem_lanes_lt _ _ _ _ hp))
      (by simp [lanes_length])
    have e : lanes 8 4 (lane 64 0 x) = lanes 8 4 (lane 32 0 x) := by
      rw [lane_zero, lane_zero]
      rw [← lanes_mod 8 4 32 (x % 2 ^ 64) (by decide), Nat.mod_mod_of_dvd _ (Nat.pow_dvd_pow 2 (by decide : 32 ≤ 64))]
    rw [key, ← List.map_take, take_lanes 8 8 4 (lane 64 0 x) (by omega), e]
  · intro a b _ _
    exact map1_lt 8 8 b _ (fun xb hxb => affineByte_lt _ _ _)

/-! ### the model's copies of the instruction semantics are those of C18 (`Proofs/AsmDataISA.lean`) -/

theorem affineByte_eq (m : List Nat) (imm x : Nat) : affineByte m imm x = AsmData.gf2p8affineByte m imm x := rfl

/-- the SDM table of inverses is `x ↦ x^254` in GF(2)[x]/(x^8+x^4+x^3+x+1) (`aesInv_spec` of C18: the field inverse) -/
theorem aesInv_eq : ∀ x, x < 256 → aesInv x = AsmData.aesInv x := by decide +kernel

/-- the `affine` macro of com_amd64.s on one byte: VGF2P8AFFINEQB with the pre-matrix, then VGF2P8AFFINEINVQB
    with the post-matrix -/
def sboxByte (b : Nat) : Nat :=
  affineByte Gen.AsmData.amd64_PostAffineMatrix 211 (aesInv (affineByte Gen.AsmData.amd64_PreAffineMatrix 62 b))

/-- … is the SM4 S-box (C18 `gfni_sbox`) -/
theorem sboxByte_eq (b : Nat) (hb : b < 256) : sboxByte b = Spec.SM4.sboxAlg b := by
  have h := AsmData.gfni_sbox_byte b hb
  unfold sboxByte
  rw [aesInv_eq _ (affineByte_lt _ _ _)]
  exact h

end SMGo.Proofs.ISAVal
