import SMGo.Proofs.ISAValFusedInt
import SMGo.Proofs.SM4Inverse
set_option linter.unusedSimpArgs false
namespace SMGo.Proofs.ISAVal
open SMGo.Model.ISAVal SMGo.Model.GCM SMGo.Proofs.GCM SMGo.Proofs.ISATouch
open SMGo.Model.ISA (Reg Opd Instr)

def rkArgCode : List DInstr := [ins .MOVQ [.frame "rk" 8, G 15] 0]
def nonceArgsCode : List DInstr :=
  [ins .MOVQ [.frame "nonce" 32, G 12] 0, ins .MOVQ [.frame "nonceLen" 40, G 11] 0, ins .MOVQ [.frame "tmp" 104, G 6] 0]
def aadArgsCode : List DInstr := [ins .MOVQ [.frame "aData" 80, G 8] 0, ins .MOVQ [.frame "aLen" 88, G 7] 0]

theorem prefix_eq : gcmPrefixCode = prepCode ++ (rkArgCode ++ (sm4OneCode 6 19 ++ (ghPreCode ++ (nonceArgsCode ++ (j0Code ++
    (sm4OneCode 6 15 ++ (aadArgsCode ++ sPreCode))))))) := by
  simp only [gcmPrefixCode, rkArgCode, nonceArgsCode, aadArgsCode, List.append_assoc]

theorem len_prep : prepCode.length = 18 := by decide +kernel
theorem len_sr (vl kr A B C D : Nat) : (srCode vl kr A B C D).length = 15 := rfl
theorem len_rn (vl rk r1 r2 r3 r4 A B C D : Nat) : (rnCode vl rk r1 r2 r3 r4 A B C D).length = 65 := by
  simp only [rnCode, List.length_append, len_sr, List.length_cons, List.length_nil]
theorem len_r32 (vl rk r1 r2 r3 r4 A B C D : Nat) : (rounds32Code vl rk r1 r2 r3 r4 A B C D).length = 521 := by
  simp only [rounds32Code, List.length_append, len_rn, List.length_cons, List.length_nil]
theorem len_one (a b : Nat) : (sm4OneCode a b).length = 530 := by
  simp only [sm4OneCode, List.length_append, len_r32, List.length_cons, List.length_nil]
theorem len_ghPre : ghPreCode.length = 79 := by decide +kernel
theorem len_sPre : sPreCode.length = 144 := by decide +kernel

/-- the phases of the common prefix as slices of a routine that starts with it -/
structure PrefixSlices (r : Routine) : Prop where
  prep : Slice r 0 prepCode
  rkArg : Slice r 18 rkArgCode
  hEnc : Slice r 19 (sm4OneCode 6 19)
  ghPre : Slice r 549 ghPreCode
  nArgs : Slice r 628 nonceArgsCode
  j0 : Slice r 631 j0Code
  tEnc : Slice r 823 (sm4OneCode 6 15)
  aArgs : Slice r 1353 aadArgsCode
  sPre : Slice r 1355 sPreCode

theorem prefix_slices (r : Routine) (h : Slice r 0 gcmPrefixCode) : PrefixSlices r := by
  rw [prefix_eq] at h
  have h1 := h.right; rw [len_prep] at h1
  have h2 := h1.right
  have h3 := h2.right; rw [len_one] at h3
  have h4 := h3.right; rw [len_ghPre] at h4
  have h5 := h4.right
  have h6 := h5.right; rw [j0_len] at h6
  have h7 := h6.right; rw [len_one] at h7
  have h8 := h7.right
  exact ⟨h.left, h1.left, h2.left, h3.left, h4.left, h5.left, h6.left, h7.left, h8⟩


/-- what the fused routines need from memory and from the argument frame (no registers): read-only data, round keys,
    the frame slots of the common prefix, the nonce and the additional data behind their pointers -/
structure FEnv (s : State) (rk : List Nat) (np tp ap : Nat) (nonce aad : List Nat) : Prop where
  syms : s.syms = symTab
  rAnd : readMem s.mem 25769803776 8 = .ok (Gen.AsmData.amd64_AND_MASK.take 8)
  rLower : readMem s.mem 47244640256 16 = .ok Gen.AsmData.amd64_LOWER_MASK
  rShuffle : readMem s.mem 4294967296 16 = .ok Gen.AsmData.amd64_Shuffle
  rPre : readMem s.mem 8589934592 8 = .ok Gen.AsmData.amd64_PreAffineMatrix
  rPost : readMem s.mem 12884901888 8 = .ok Gen.AsmData.amd64_PostAffineMatrix
  rAdd1 : readMem s.mem 30064771072 64 = .ok Gen.AsmData.amd64_Counter_Add1
  rAdd2 : readMem s.mem 34359738368 64 = .ok Gen.AsmData.amd64_Counter_Add2
  rAdd3 : readMem s.mem 38654705664 64 = .ok Gen.AsmData.amd64_Counter_Add3
  rPoly : readMem s.mem 42949672960 8 = .ok (Gen.AsmData.amd64_GCM_POLY.take 8)
  rIdx : readMem s.mem 60129542144 64 = .ok Gen.AsmData.amd64_SHUFFLE_X_LANES
  rH01 : readMem s.mem 51539607552 32 = .ok Gen.AsmData.amd64_MERGE_H01
  rH23 : readMem s.mem 55834574848 64 = .ok Gen.AsmData.amd64_MERGE_H23
  rSh1 : readMem s.mem 64424509440 16 = .ok Gen.AsmData.amd64_Shuffle1
  rSh2 : readMem s.mem 68719476736 16 = .ok Gen.AsmData.amd64_Shuffle2
  rkR : ∀ i, i < 32 → readMem s.mem (73014444032 + 4 * i) 4 = .ok (lanes 8 4 (rk.getD i 0))
  fRk : lookup s.frame "rk" = some 73014444032
  fNonce : lookup s.frame "nonce" = some np
  fNonceLen : lookup s.frame "nonceLen" = some nonce.length
  fTmp : lookup s.frame "tmp" = some tp
  fAData : lookup s.frame "aData" = some ap
  fALen : lookup s.frame "aLen" = some aad.length
  dNonce : DataAt s.mem np nonce
  dAad : DataAt s.mem ap aad

theorem FEnv.transport {s s' : State} {rk : List Nat} {np tp ap : Nat} {nonce aad : List Nat} (e : FEnv s rk np tp ap nonce aad)
    (hm : s'.mem = s.mem) (hs : s'.syms = s.syms) (hf : s'.frame = s.frame) : FEnv s' rk np tp ap nonce aad := by
  obtain ⟨a1, a2, a3, a4, a5, a6, a7, a8, a9, a10, a11, a12, a13, a14, a15, a16, a17, a18, a19, a20, a21, a22, a23, a24⟩ := e
  exact ⟨hs.trans a1, hm ▸ a2, hm ▸ a3, hm ▸ a4, hm ▸ a5, hm ▸ a6, hm ▸ a7, hm ▸ a8, hm ▸ a9, hm ▸ a10, hm ▸ a11, hm ▸ a12, hm ▸ a13,
    hm ▸ a14, hm ▸ a15, hm ▸ a16, hf ▸ a17, hf ▸ a18, hf ▸ a19, hf ▸ a20, hf ▸ a21, hf ▸ a22, hm ▸ a23, hm ▸ a24⟩

theorem FEnv.of_keeps {G V K : List Nat} {s s' : State} {rk : List Nat} {np tp ap : Nat} {nonce aad : List Nat}
    (e : FEnv s rk np tp ap nonce aad) (k : Keeps G V K s s') : FEnv s' rk np tp ap nonce aad :=
  e.transport k.mem k.syms k.frame

def pRegs : List Nat := [10, 11, 12, 16, 17, 18, 22, 23, 24]

theorem PCtx.of_keeps {G V K : List Nat} {s s' : State} (c : PCtx s) (k : Keeps G V K s s') (hV : ∀ n, n ∈ pRegs → n ∈ V) : PCtx s' :=
  ⟨k.lenG.trans c.lenG, k.lenV.trans c.lenV, k.lenK.trans c.lenK, k.syms.trans c.syms,
    (k.v 10 (hV 10 (by decide))).trans c.v10, (k.v 11 (hV 11 (by decide))).trans c.v11, (k.v 12 (hV 12 (by decide))).trans c.v12,
    (k.v 16 (hV 16 (by decide))).trans c.v16, (k.v 17 (hV 17 (by decide))).trans c.v17, (k.v 18 (hV 18 (by decide))).trans c.v18,
    (k.v 22 (hV 22 (by decide))).trans c.v22, (k.v 23 (hV 23 (by decide))).trans c.v23, (k.v 24 (hV 24 (by decide))).trans c.v24⟩

theorem prep_nc : prepCode.all (fun i => !i.mn.isControl) = true := by decide +kernel
theorem one_nc (a b : Nat) : (sm4OneCode a b).all (fun i => !i.mn.isControl) = true := by
  simp only [sm4OneCode, rounds32Code, rnCode, srCode, List.all_append, List.all_cons, List.all_nil, ins, Mn.isControl, Bool.not_false,
    Bool.and_self]
theorem ghPre_nc : ghPreCode.all (fun i => !i.mn.isControl) = true := by decide +kernel

theorem unlanes_zeros16 : unlanes 8 (List.replicate 16 0) = 0 := by decide +kernel

/-- **phase 1: constants and H = E(0¹²⁸)** -/
theorem phaseH (r : Routine) (ps : PrefixSlices r) (s0 : State) (hG : s0.gpr.length = 16) (hV : s0.vec.length = 32)
    (hK : s0.kreg.length = 8) (rk : List Nat) (np tp ap : Nat) (nonce aad : List Nat) (e : FEnv s0 rk np tp ap nonce aad)
    (hrk : rk.length = 32) (hrkb : ∀ x ∈ rk, x < 2 ^ 32) :
    ∃ s1, Reach r 0 s0 549 s1 549 ∧ PCtx s1 ∧ FEnv s1 rk np tp ap nonce aad ∧
      vreg s1 19 = unlanes 8 (encB rk (List.replicate 16 0)) ∧ greg s1 15 = 73014444032 ∧ (s1.mem = s0.mem ∧ s1.frame = s0.frame) := by
  -- cryptoPrepare
  obtain ⟨sa, hra, pa, v6a, hma, hfa⟩ := prep_spec s0 ⟨hG, hV, hK, e.syms, e.rAnd, e.rLower, e.rShuffle, e.rPre, e.rPost, e.rAdd1, e.rAdd2, e.rAdd3⟩
  have ea := e.transport hma (pa.syms.trans e.syms.symm) hfa
  have ra : Reach r 0 s0 18 sa 18 := by
    have := reach_seg ps.prep prep_nc hra
    rw [len_prep] at this; exact this
  -- MOVQ rk+0(FP), RK
  have hxb : execList rkArgCode sa = .ok (setGreg sa 15 73014444032) := by
    apply exec_step (a_movq_frame sa "rk" 8 15 _ ea.fRk (by rw [pa.lenG]; decide))
    rfl
  have rb : Reach r 18 sa 19 (setGreg sa 15 73014444032) 1 := reach_seg ps.rkArg (by rfl) hxb
  -- the block function on the zero block
  obtain ⟨sc, hrc, vc, gc, kc⟩ := sm4One_spec 6 19 (Or.inl ⟨rfl, rfl⟩) (setGreg sa 15 73014444032) (by simp; exact pa.lenG) pa.lenV
    pa.v10 pa.v11 pa.v12 (List.replicate 16 0) (by simp) (by intro x hx; rw [List.eq_of_mem_replicate hx]; decide)
    (by show vreg sa 6 = _; rw [v6a, unlanes_zeros16]) rk hrk hrkb 73014444032
    (greg_setGreg_eq sa 15 _ (by rw [pa.lenG]; decide)) (by decide) ea.rkR
  have rc : Reach r 19 (setGreg sa 15 73014444032) 549 sc 530 := by
    have := reach_seg ps.hEnc (one_nc 6 19) hrc
    rw [len_one] at this; exact this
  have kb : Keeps oneKeepG (oneKeepV 6 19) (List.range 8) sa (setGreg sa 15 73014444032) :=
    ⟨by simp, rfl, rfl, fun n hn => greg_setGreg_ne sa 15 _ n (by intro e; subst e; simp [oneKeepG] at hn), fun _ _ => rfl,
      fun _ _ => rfl, rfl, rfl, rfl⟩
  refine ⟨sc, ((ra.trans rb).trans rc).cast rfl rfl, pa.of_keeps (kb.trans kc) (by decide), ea.of_keeps (kb.trans kc), vc, gc,
    ⟨(kb.trans kc).mem.trans hma, (kb.trans kc).frame.trans hfa⟩⟩


theorem encB_length (rk pb : List Nat) : (encB rk pb).length = 16 := by
  unfold encB; rw [List.length_map]; exact SMGo.Proofs.SM4.crypt_length _ _
theorem encB_bytes (rk pb : List Nat) : ∀ x ∈ encB rk pb, x < 2 ^ 8 := by
  intro x hx
  unfold encB at hx
  rw [List.mem_map] at hx
  obtain ⟨b, _, rfl⟩ := hx
  exact b.toNat_lt
theorem encB_lt (rk pb : List Nat) : unlanes 8 (encB rk pb) < 2 ^ 128 := by
  have := unlanes_lt 8 (encB rk pb) (encB_bytes rk pb)
  rw [encB_length] at this; exact this

/-- the reflected hash key H = E(0¹²⁸) as a number -/
def hKey (rk : List Nat) : Nat := rb128 (unlanes 8 (encB rk (List.replicate 16 0)))

theorem ghRegs_pre : ∀ n, n ∈ pRegs → n ∈ ghPreKeepV := by decide

/-- **phase 2: the GHASH context** -/
theorem phaseGh (r : Routine) (ps : PrefixSlices r) (s1 : State) (rk : List Nat) (np tp ap : Nat) (nonce aad : List Nat)
    (pc : PCtx s1) (e : FEnv s1 rk np tp ap nonce aad) (h19 : vreg s1 19 = unlanes 8 (encB rk (List.replicate 16 0)))
    (g15 : greg s1 15 = 73014444032) :
    ∃ s2, Reach r 549 s1 628 s2 79 ∧ PCtx s2 ∧ FEnv s2 rk np tp ap nonce aad ∧ GhCtx (hKey rk) s2 ∧ greg s2 15 = 73014444032 ∧
      (s2.mem = s1.mem ∧ s2.frame = s1.frame) := by
  obtain ⟨s2, hr, hc, kp⟩ := ghPre_spec s1 ⟨pc.lenG, pc.lenV, pc.lenK, pc.syms, e.rPoly, e.rIdx, e.rH01, e.rH23⟩ pc.v22 pc.v23 pc.v24
    (by rw [h19]; exact encB_lt _ _)
  rw [h19] at hc
  have pc2 := pc.of_keeps kp ghRegs_pre
  have rr : Reach r 549 s1 628 s2 79 := by
    have := reach_seg ps.ghPre ghPre_nc hr
    rw [len_ghPre] at this; exact this
  exact ⟨s2, rr, pc2, e.of_keeps kp, ⟨pc2.lenG, pc2.lenV, pc2.lenK, pc2.v22, pc2.v23, pc2.v24, hc⟩,
    by rw [kp.g 15 (by decide)]; exact g15, ⟨kp.mem, kp.frame⟩⟩

end SMGo.Proofs.ISAVal
