/-
  A toy instance of the setting of property C14, used only to show that the hypotheses of the
  theorems (`Sem`, `TableValid`, `RemainderValid`) are jointly satisfiable: points are integers,
  `sem = id`, the generator is 1, a raw coordinate pair (x, y) denotes x₀ - y₀, and the tables hold
  the multipliers prescribed by the comb layout.
-/
import Mathlib.Algebra.Group.Int.Defs
import SMGo.Proofs.CurveSem
namespace SMGo.Proofs.CurveToy
open SMGo SMGo.Model.Curve SMGo.Proofs.CurveBits SMGo.Proofs.CurveSem

def toyFromXY (x y : List Nat) : Int := (x.getD 0 0 : Int) - (y.getD 0 0 : Int)

def toySelect (t : Table) (w bits : Nat) : Outcome Int :=
  if (t.getD 0 []).length ≠ w then .panic
  else if bits = 0 then .ok 0
  else .ok (toyFromXY ((t.getD 0 []).getD (bits - 1) []) ((t.getD 1 []).getD (bits - 1) []))

def toyOps : GOps Int :=
  { infinity := 0
    add := fun a b => a + b
    double := fun a => a + a
    negate := fun a => -a
    selectXY := toySelect
    selectXYZ := toySelect
    fromXY := toyFromXY
    transform := fun pts => [pts.map (fun p => [p.toNat]), pts.map (fun p => [(-p).toNat]), []] }

theorem toySelect_spec (t : Table) (w bits : Nat) (h : (t.getD 0 []).length = w) :
    ∃ q, toySelect t w bits = .ok q ∧ True ∧
      q = if bits = 0 then 0
          else toyFromXY ((t.getD 0 []).getD (bits - 1) []) ((t.getD 1 []).getD (bits - 1) []) := by
  unfold toySelect
  rw [if_neg (fun hne => hne h)]
  by_cases hb : bits = 0
  · rw [if_pos hb, if_pos hb]; exact ⟨_, rfl, trivial, rfl⟩
  · rw [if_neg hb, if_neg hb]; exact ⟨_, rfl, trivial, rfl⟩

theorem getD_map_lt {α β : Type} (l : List α) (f : α → β) (i : Nat) (h : i < l.length) (d : β) (d' : α) :
    (l.map f).getD i d = f (l.getD i d') := by
  simp [List.getD_eq_getElem?_getD, List.getElem?_eq_getElem h]

theorem toySem : Sem toyOps (fun _ => True) (fun _ _ => True) (id : Int → Int) where
  inf_ok := trivial
  inf := rfl
  add := fun _ _ _ _ => ⟨trivial, rfl⟩
  double := fun _ _ => ⟨trivial, rfl⟩
  neg := fun _ _ => ⟨trivial, rfl⟩
  fromXY_ok := fun _ _ _ => trivial
  selectXY := fun t w bits h _ _ _ _ => toySelect_spec t w bits h
  selectXYZ := by
    intro pts bits hl _ hb
    obtain ⟨q, e, _, hq⟩ := toySelect_spec (toyOps.transform pts) 15 bits (by simp [toyOps, hl])
    refine ⟨q, e, trivial, ?_⟩
    show q = _
    rw [hq]
    by_cases h0 : bits = 0
    · rw [if_pos h0, if_pos h0]
    · rw [if_neg h0, if_neg h0]
      have hi : bits - 1 < pts.length := by omega
      show toyFromXY ((pts.map (fun p => [p.toNat])).getD (bits - 1) [])
          ((pts.map (fun p => [(-p).toNat])).getD (bits - 1) []) = pts.getD (bits - 1) 0
      rw [getD_map_lt pts _ _ hi [] 0, getD_map_lt pts _ _ hi [] 0]
      unfold toyFromXY
      simp only [List.getD_cons_zero]
      omega

/-- first table of the comb `w`-`s`-`it`-`r` for the generator 1 -/
def toyFirst (w s it r : Nat) : List Table :=
  (List.range s).map (fun j =>
    [(List.range (2 ^ w - 1)).map (fun i => [combMultiplier w s it r j (i + 1)]),
     (List.range (2 ^ w - 1)).map (fun _ => [0])])

def toySecond (r : Nat) : Table :=
  [(List.range (2 ^ r - 1)).map (fun i => [i + 1]), (List.range (2 ^ r - 1)).map (fun _ => [0])]

theorem getD_range_map {β : Type} (n : Nat) (f : Nat → β) (i : Nat) (h : i < n) (d : β) :
    ((List.range n).map f).getD i d = f i := by
  simp [List.getD_eq_getElem?_getD, h]

theorem nsmul_one_int (n : Nat) : n • (1 : Int) = (n : Int) := by
  induction n with
  | zero => simp
  | succ n ih => rw [succ_nsmul, ih]; rfl

theorem toyTableValid (w s it r : Nat) :
    TableValid toyOps (fun _ _ => True) (id : Int → Int) (1 : Int) (toyFirst w s it r) w s it r where
  lenX := by
    intro j hj
    unfold subX toyFirst
    rw [getD_range_map s _ j hj]
    simp
  lenY := by
    intro j hj
    unfold subY toyFirst
    rw [getD_range_map s _ j hj]
    simp
  wf := fun _ _ _ _ => trivial
  val := by
    intro j hj idx h1 h2
    unfold subX subY toyFirst
    rw [getD_range_map s _ j hj]
    simp only [List.getD_cons_zero, List.getD_cons_succ]
    rw [getD_range_map _ _ (idx - 1) (by omega), getD_range_map _ _ (idx - 1) (by omega), nsmul_one_int]
    have : idx - 1 + 1 = idx := by omega
    rw [this]
    show toyFromXY _ _ = _
    unfold toyFromXY
    simp

theorem toyRemainderValid (r : Nat) :
    RemainderValid toyOps (fun _ _ => True) (id : Int → Int) (1 : Int) (toySecond r) r where
  lenX := by simp [toySecond]
  lenY := by simp [toySecond]
  wf := fun _ _ => trivial
  val := by
    intro idx h1 h2
    unfold toySecond
    simp only [List.getD_cons_zero, List.getD_cons_succ]
    rw [getD_range_map _ _ (idx - 1) (by omega), getD_range_map _ _ (idx - 1) (by omega), nsmul_one_int]
    have : idx - 1 + 1 = idx := by omega
    rw [this]
    show toyFromXY _ _ = _
    unfold toyFromXY
    simp

end SMGo.Proofs.CurveToy
