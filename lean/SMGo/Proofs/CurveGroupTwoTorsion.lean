/-
  The SM2 curve has no point of order 2: f = X³ − 3X + b has no root in F_p.
  Reflective proof: arithmetic in F_p[X]/(f) on coefficient triples over `Nat` (`mulT`, `powT`);
  a root x of f satisfies x = x^p = (X^p mod f)(x), so G = (X^p mod f) − X vanishes at x; but G is
  invertible modulo f (witness `V` from /verif/notes/scripts/gen_two_torsion.py, re-checked here in
  the kernel: `mulT V G = 1`), hence 1 = V(x)·G(x) = 0.
-/
import SMGo.Proofs.CurveGroup

namespace SMGo.Proofs.CurveGroup
open SMGo.Spec.SM2 SMGo.Proofs.ModArith SMGo.Proofs.Prime

/-- c₀ + c₁X + c₂X² as a coefficient triple -/
abbrev T := Nat × Nat × Nat

/-- evaluation of a triple at x -/
def evalT (t : T) (x : Fp) : Fp := (t.1 : Fp) + (t.2.1 : Fp) * x + (t.2.2 : Fp) * x ^ 2

/-- product modulo f = X³ − 3X + b and modulo p (X³ = 3X − b, X⁴ = 3X² − bX) -/
def mulT (s t : T) : T :=
  let d0 := s.1 * t.1
  let d1 := s.1 * t.2.1 + s.2.1 * t.1
  let d2 := s.1 * t.2.2 + s.2.1 * t.2.1 + s.2.2 * t.1
  let d3 := s.2.1 * t.2.2 + s.2.2 * t.2.1
  let d4 := s.2.2 * t.2.2
  ((d0 + (p - b) * d3) % p, (d1 + 3 * d3 + (p - b) * d4) % p, (d2 + 3 * d4) % p)

/-- square-and-multiply in F_p[X]/(f), structural on a fuel bound -/
def powTAux : Nat → T → Nat → T → T
  | 0, _, _, acc => acc
  | fuel + 1, t, e, acc =>
    if e = 0 then acc
    else powTAux fuel (mulT t t) (e / 2) (if e % 2 = 1 then mulT acc t else acc)

def powT (t : T) (e : Nat) : T := powTAux (e.log2 + 1) t e (1, 0, 0)

theorem b_le_p : b ≤ p := by decide

theorem evalT_mulT {x : Fp} (hx : x ^ 3 = 3 * x - (b : Fp)) (s t : T) :
    evalT (mulT s t) x = evalT s x * evalT t x := by
  obtain ⟨s0, s1, s2⟩ := s
  obtain ⟨t0, t1, t2⟩ := t
  simp only [evalT, mulT]
  push_cast [ZMod.natCast_mod, cast_p_sub b_le_p]
  linear_combination (-((s1 : Fp) * t2 + s2 * t1) - s2 * t2 * x) * hx

theorem evalT_powTAux {x : Fp} (hx : x ^ 3 = 3 * x - (b : Fp)) : ∀ (fuel : Nat) (t : T) (e : Nat)
    (acc : T), e < 2 ^ fuel → evalT (powTAux fuel t e acc) x = evalT acc x * evalT t x ^ e := by
  intro fuel
  induction fuel with
  | zero =>
    intro t e acc he
    have : e = 0 := by simpa using he
    subst this
    simp [powTAux]
  | succ fuel ih =>
    intro t e acc he
    unfold powTAux
    by_cases h0 : e = 0
    · subst h0; simp
    · rw [if_neg h0]
      have he2 : e / 2 < 2 ^ fuel := by
        rw [Nat.div_lt_iff_lt_mul (by decide)]
        simpa [Nat.pow_succ] using he
      rw [ih _ _ _ he2, evalT_mulT hx]
      have hsplit : evalT t x ^ e = (evalT t x * evalT t x) ^ (e / 2) * evalT t x ^ (e % 2) := by
        conv_lhs => rw [← Nat.div_add_mod e 2]
        rw [pow_add, pow_mul, pow_two]
      rw [hsplit]
      rcases Nat.mod_two_eq_zero_or_one e with h | h
      · rw [h, if_neg (by decide), pow_zero, mul_one]
      · rw [h, if_pos rfl, pow_one, evalT_mulT hx]
        ring

theorem evalT_powT {x : Fp} (hx : x ^ 3 = 3 * x - (b : Fp)) (t : T) (e : Nat) :
    evalT (powT t e) x = evalT t x ^ e := by
  unfold powT
  rw [evalT_powTAux hx _ _ _ _ Nat.lt_log2_self]
  simp [evalT]

/-- (X^p mod f) − X -/
def GT : T := let r := powT (0, 1, 0) p; (r.1, (r.2.1 + (p - 1)) % p, r.2.2)

/-- the inverse of `GT` modulo f (generated, checked by `V_mul_GT`) -/
def V : T :=
  (106557179798172127300574136655860231618341984660982404479791742557385015191369,
   84996361976986330174717689059298811725079258493181573729141059899368768071857,
   35585630630933897022180037835235642085639273520660122098341330484096648951663)

theorem V_mul_GT : mulT V GT = (1, 0, 0) := by decide +kernel

theorem evalT_GT {x : Fp} (hx : x ^ 3 = 3 * x - (b : Fp)) : evalT GT x = 0 := by
  have hpow : evalT (powT (0, 1, 0) p) x = x := by
    rw [evalT_powT hx]
    have : evalT (0, 1, 0) x = x := by simp [evalT]
    rw [this, ZMod.pow_card]
  have h1 : (1 : Nat) ≤ p := p_pos
  simp only [GT, evalT] at hpow ⊢
  push_cast [ZMod.natCast_mod, cast_p_sub h1]
  linear_combination hpow

/-- f = X³ − 3X + b has no root in F_p: the SM2 curve has no point with y = 0 -/
theorem no_two_torsion : ∀ x : Fp, x ^ 3 - 3 * x + (b : Fp) ≠ 0 := by
  intro x h
  have hx : x ^ 3 = 3 * x - (b : Fp) := by linear_combination h
  have h1 : evalT (mulT V GT) x = 0 := by rw [evalT_mulT hx, evalT_GT hx, mul_zero]
  rw [V_mul_GT] at h1
  simp [evalT] at h1

theorem no_two_torsion' : ∀ x : Fp, x ^ 3 + (a : Fp) * x + (b : Fp) ≠ 0 := by
  intro x h
  apply no_two_torsion x
  rw [a_cast] at h
  linear_combination h

/-- a valid affine point has y ≠ 0 -/
theorem valid_y_ne_zero {x y : Nat} (h : Valid (some (x, y))) : y ≠ 0 := by
  rintro rfl
  have he := (equation_iff_E _ _).mp ((onCurve_iff x 0).mp h.2.2)
  apply no_two_torsion' (x : Fp)
  rw [← he]
  simp

/-- E(F_p) has no element of order 2 -/
theorem two_nsmul_ne_zero {P : E.Point} (hP : P ≠ 0) : 2 • P ≠ 0 := by
  rcases P with _ | ⟨x, y, hns⟩
  · exact absurd rfl hP
  · intro h
    rw [two_nsmul] at h
    by_cases hy : y = E.negY x y
    · rw [negY_E] at hy
      have hy0 : y = 0 := by
        have h2 : (2 : Fp) * y = 0 := by linear_combination hy
        rcases mul_eq_zero.mp h2 with h2 | h2
        · exfalso
          have : ((2 : Nat) : Fp) = 0 := by exact_mod_cast h2
          rw [ZMod.natCast_eq_zero_iff] at this
          exact absurd (Nat.le_of_dvd (by decide) this) (by decide)
        · exact h2
      have he := (equation_iff_E _ _).mp hns.1
      apply no_two_torsion' x
      rw [← he, hy0]
      simp
    · rw [WeierstrassCurve.Affine.Point.add_self_of_Y_ne hy] at h
      exact WeierstrassCurve.Affine.Point.some_ne_zero _ h

end SMGo.Proofs.CurveGroup
