/-
  Lemmas for property C05, part 1: the round function of the portable code.
    * `ss` (four T-table look-ups) is T = L ∘ τ of the specification,
    * `tau`/`transTPrime` (S-box look-ups, two rotations) are τ and T' of the specification,
    * `cryptoBlock` (in-place updates of z0..z3, eight groups of four statements) is `Spec.SM4.crypt`.
-/
import SMGo.Spec.SM4
import SMGo.Model.SM4Inst
import SMGo.Proofs.SM4Tables
namespace SMGo.Proofs.SM4
open SMGo

/-! ### rotations, linearity of L -/

/-- Go's `x<<k | x>>(32-k)` is the left rotation -/
theorem rotl_eq (x : W32) (k : Nat) (hk : k < 32) : Model.SM4.rotl x k = x.rotateLeft k := by
  simp [Model.SM4.rotl, BitVec.rotateLeft, BitVec.rotateLeftAux, Nat.mod_eq_of_lt hk]

theorem rotateLeft_xor (a b : W32) (k : Nat) : (a ^^^ b).rotateLeft k = a.rotateLeft k ^^^ b.rotateLeft k := by
  ext i hi
  simp only [BitVec.getElem_rotateLeft, BitVec.getElem_xor]
  split <;> rfl

theorem L_xor (a b : W32) : Spec.SM4.L (a ^^^ b) = Spec.SM4.L a ^^^ Spec.SM4.L b := by
  simp only [Spec.SM4.L, rotateLeft_xor]
  ac_rfl

theorem L'_xor (a b : W32) : Spec.SM4.L' (a ^^^ b) = Spec.SM4.L' a ^^^ Spec.SM4.L' b := by
  simp only [Spec.SM4.L', rotateLeft_xor]
  ac_rfl

/-! ### four bytes packed into a word -/

set_option linter.unusedSimpArgs false

theorem testBit_byte {x j : Nat} (hx : x < 256) (hj : 8 ≤ j) : x.testBit j = false := by
  apply Nat.testBit_lt_two_pow
  calc x < 2 ^ 8 := hx
    _ ≤ 2 ^ j := Nat.pow_le_pow_right (by decide) hj

theorem nat_pack_or (a b c d : Nat) (hb : b < 256) (hc : c < 256) (hd : d < 256) :
    a * 16777216 + b * 65536 + c * 256 + d = a <<< 24 ||| b <<< 16 ||| c <<< 8 ||| d := by
  have h1 : c <<< 8 + d = c <<< 8 ||| d := Nat.shiftLeft_add_eq_or_of_lt (i := 8) hd c
  have h2 : b <<< 16 + (c <<< 8 ||| d) = b <<< 16 ||| (c <<< 8 ||| d) :=
    Nat.shiftLeft_add_eq_or_of_lt (i := 16) (by rw [← h1, Nat.shiftLeft_eq]; omega) b
  have h3 : a <<< 24 + (b <<< 16 ||| (c <<< 8 ||| d)) = a <<< 24 ||| (b <<< 16 ||| (c <<< 8 ||| d)) :=
    Nat.shiftLeft_add_eq_or_of_lt (i := 24) (by rw [← h2, ← h1, Nat.shiftLeft_eq, Nat.shiftLeft_eq]; omega) a
  rw [Nat.or_assoc, Nat.or_assoc, ← h3, ← h2, ← h1]
  simp only [Nat.shiftLeft_eq]
  omega

/-- big-endian packing as a disjunction of shifted bytes (the form of Go's `tau`) -/
theorem pack_or (a b c d : Nat) (hb : b < 256) (hc : c < 256) (hd : d < 256) :
    BitVec.ofNat 32 (a * 16777216 + b * 65536 + c * 256 + d)
      = (BitVec.ofNat 32 a <<< 24) ||| (BitVec.ofNat 32 b <<< 16) ||| (BitVec.ofNat 32 c <<< 8) ||| BitVec.ofNat 32 d := by
  rw [nat_pack_or a b c d hb hc hd]
  apply BitVec.eq_of_getLsbD_eq
  intro i hi
  simp only [BitVec.getLsbD_ofNat, BitVec.getLsbD_or, BitVec.getLsbD_shiftLeft, Nat.testBit_or,
    Nat.testBit_shiftLeft]
  have h8 : i - 8 < 32 := by omega
  have h16 : i - 16 < 32 := by omega
  have h24 : i - 24 < 32 := by omega
  rcases (by omega : i < 8 ∨ (8 ≤ i ∧ i < 16) ∨ (16 ≤ i ∧ i < 24) ∨ 24 ≤ i) with h | h | h | h
  · simp [hi, h8, h16, h24, show ¬ 24 ≤ i by omega, show ¬ 16 ≤ i by omega, show ¬ 8 ≤ i by omega, show i < 24 by omega,
      show i < 16 by omega, show i < 8 by omega]
  · simp [hi, h8, h16, h24, show ¬ 24 ≤ i by omega, show ¬ 16 ≤ i by omega, show 8 ≤ i by omega, show i < 24 by omega,
      show i < 16 by omega, show ¬ i < 8 by omega]
  · simp [hi, h8, h16, h24, show ¬ 24 ≤ i by omega, show 16 ≤ i by omega, show 8 ≤ i by omega, show i < 24 by omega,
      show ¬ i < 16 by omega, show ¬ i < 8 by omega]
  · simp [hi, h8, h16, h24, show 24 ≤ i by omega, show 16 ≤ i by omega, show 8 ≤ i by omega, show ¬ i < 24 by omega,
      show ¬ i < 16 by omega, show ¬ i < 8 by omega]

/-- big-endian packing as a sum (xor) of shifted bytes (the form behind the T-tables) -/
theorem pack_xor (a b c d : Nat) (hb : b < 256) (hc : c < 256) (hd : d < 256) :
    BitVec.ofNat 32 (a * 16777216 + b * 65536 + c * 256 + d)
      = (BitVec.ofNat 32 a <<< 24) ^^^ (BitVec.ofNat 32 b <<< 16) ^^^ (BitVec.ofNat 32 c <<< 8) ^^^ (BitVec.ofNat 32 d <<< 0) := by
  rw [nat_pack_or a b c d hb hc hd]
  apply BitVec.eq_of_getLsbD_eq
  intro i hi
  simp only [BitVec.getLsbD_ofNat, BitVec.getLsbD_xor, BitVec.getLsbD_shiftLeft, Nat.testBit_or,
    Nat.testBit_shiftLeft]
  have h8 : i - 8 < 32 := by omega
  have h16 : i - 16 < 32 := by omega
  have h24 : i - 24 < 32 := by omega
  rcases (by omega : i < 8 ∨ (8 ≤ i ∧ i < 16) ∨ (16 ≤ i ∧ i < 24) ∨ 24 ≤ i) with h | h | h | h
  · simp [hi, h8, h16, h24, show ¬ 24 ≤ i by omega, show ¬ 16 ≤ i by omega, show ¬ 8 ≤ i by omega, show i < 24 by omega,
      show i < 16 by omega, show i < 8 by omega]
  · simp [hi, h8, h16, h24, show ¬ 24 ≤ i by omega, show ¬ 16 ≤ i by omega, show 8 ≤ i by omega, show i < 24 by omega,
      show i < 16 by omega, show ¬ i < 8 by omega, testBit_byte hd (show 8 ≤ i by omega)]
  · simp [hi, h8, h16, h24, show ¬ 24 ≤ i by omega, show 16 ≤ i by omega, show 8 ≤ i by omega, show i < 24 by omega,
      show ¬ i < 16 by omega, show ¬ i < 8 by omega, testBit_byte hd (show 8 ≤ i by omega),
      testBit_byte hc (show 8 ≤ i - 8 by omega)]
  · simp [hi, h8, h16, h24, show 24 ≤ i by omega, show 16 ≤ i by omega, show 8 ≤ i by omega, show ¬ i < 24 by omega,
      show ¬ i < 16 by omega, show ¬ i < 8 by omega, testBit_byte hd (show 8 ≤ i by omega),
      testBit_byte hc (show 8 ≤ i - 8 by omega), testBit_byte hb (show 8 ≤ i - 16 by omega)]

/-! ### τ, T and T' -/

theorem byte_lt (n : Nat) : n % 256 < 256 := Nat.mod_lt _ (by decide)

theorem spec_sbox_byte (a : W32) (i : Nat) :
    (Spec.SM4.sbox (Spec.SM4.byteOf a i)).toNat = Spec.SM4.sboxAlg ((a >>> (24 - 8 * i)).toNat % 256) := by
  simp only [Spec.SM4.sbox, Spec.SM4.byteOf, UInt8.toNat_ofNat', BitVec.toNat_ushiftRight]
  rw [Nat.mod_eq_of_lt (byte_lt _), Nat.mod_eq_of_lt (sboxAlg_lt _ (byte_lt _))]

/-- τ of the specification, as a packed word of four S-box outputs; bytes extracted as the Go code does -/
theorem spec_tau_eq (a : W32) :
    Spec.SM4.tau a = BitVec.ofNat 32 (Spec.SM4.sboxAlg ((a >>> 24).toNat % 256) * 16777216
      + Spec.SM4.sboxAlg ((a >>> 16).toNat % 256) * 65536
      + Spec.SM4.sboxAlg ((a >>> 8).toNat % 256) * 256 + Spec.SM4.sboxAlg (a.toNat % 256)) := by
  have e0 := spec_sbox_byte a 0
  have e1 := spec_sbox_byte a 1
  have e2 := spec_sbox_byte a 2
  have e3 := spec_sbox_byte a 3
  simp only [Nat.mul_zero, Nat.mul_one, Nat.reduceMul, Nat.reduceSub, BitVec.ushiftRight_zero] at e0 e1 e2 e3
  simp only [Spec.SM4.tau, be32, e0, e1, e2, e3]

/-- Go's `tau` over the generated S-box table is τ -/
theorem tau_eq (a : W32) : Model.SM4.tau Model.SM4.genTables a = Spec.SM4.tau a := by
  rw [spec_tau_eq, pack_or _ _ _ _ (sboxAlg_lt _ (byte_lt _))
    (sboxAlg_lt _ (byte_lt _)) (sboxAlg_lt _ (byte_lt _))]
  simp only [Model.SM4.tau, Model.SM4.genTables]
  rw [sbox_getD _ (byte_lt _), sbox_getD _ (byte_lt _), sbox_getD _ (byte_lt _), sbox_getD _ (byte_lt _)]

/-- Go's `transTPrime` is T' -/
theorem transTPrime_eq (a : W32) : Model.SM4.transTPrime Model.SM4.genTables a = Spec.SM4.T' a := by
  simp only [Model.SM4.transTPrime, Spec.SM4.T', Spec.SM4.L', tau_eq, rotl_eq _ 13 (by decide),
    rotl_eq _ 23 (by decide)]

/-- Go's `ss` (four T-table look-ups) is T = L ∘ τ -/
theorem ss_eq_T (t : W32) : Model.SM4.ss Model.SM4.genTables t = Spec.SM4.T t := by
  rw [Spec.SM4.T, spec_tau_eq, pack_xor _ _ _ _ (sboxAlg_lt _ (byte_lt _))
    (sboxAlg_lt _ (byte_lt _)) (sboxAlg_lt _ (byte_lt _))]
  simp only [L_xor]
  simp only [Model.SM4.ss, Model.SM4.genTables, Model.SM4.tbl]
  rw [s0_getD _ (byte_lt _), s1_getD _ (byte_lt _), s2_getD _ (byte_lt _), s3_getD _ (byte_lt _)]
  simp only [BitVec.ofNat_toNat, BitVec.setWidth_eq]

/-! ### folds: 4n steps in n groups of four; a list fold as a fold over indices -/

theorem foldl_range_mul4 {σ : Type} (f : σ → Nat → σ) (n : Nat) (s : σ) :
    (List.range (4 * n)).foldl f s
      = (List.range n).foldl (fun s g => f (f (f (f s (4 * g)) (4 * g + 1)) (4 * g + 2)) (4 * g + 3)) s := by
  induction n with
  | zero => rfl
  | succ n ih =>
    rw [show 4 * (n + 1) = 4 * n + 1 + 1 + 1 + 1 by omega]
    simp only [List.range_succ, List.foldl_append, List.foldl_cons, List.foldl_nil, ih]

theorem foldl_eq_foldl_range {σ β : Type} (f : σ → β → σ) (d : β) (l : List β) (s : σ) :
    l.foldl f s = (List.range l.length).foldl (fun s i => f s (l.getD i d)) s := by
  induction l generalizing s with
  | nil => rfl
  | cons a l ih =>
    simp [List.range_succ_eq_map, List.foldl_map, ih (f s a)]

/-! ### `cryptoBlock` -/

/-- one group of four statements of `cryptoBlock` is four rounds of the specification: after four
    in-place updates the variables z0..z3 hold the window (X_{4i+4}, .., X_{4i+7}) -/
theorem group4_eq (rk : List W32) (z : W32 × W32 × W32 × W32) (i : Nat) :
    Model.SM4.group4 Model.SM4.genTables rk z i
      = Spec.SM4.roundStep (Spec.SM4.roundStep (Spec.SM4.roundStep (Spec.SM4.roundStep z
          (rk.getD (4 * i) 0)) (rk.getD (4 * i + 1) 0)) (rk.getD (4 * i + 2) 0)) (rk.getD (4 * i + 3) 0) := by
  obtain ⟨z0, z1, z2, z3⟩ := z
  simp only [Model.SM4.group4, Spec.SM4.roundStep, ss_eq_T]
  ac_rfl

/-- Go's `cryptoBlock` with any 32 round keys is `crypt` of the specification -/
theorem cryptoBlock_eq (rk : List W32) (x : Bytes) (hrk : rk.length = 32) :
    Model.SM4.cryptoBlock Model.SM4.genTables rk x = Spec.SM4.crypt rk x := by
  simp only [Model.SM4.cryptoBlock, Spec.SM4.crypt]
  rw [foldl_eq_foldl_range Spec.SM4.roundStep 0 rk, hrk, foldl_range_mul4 _ 8]
  have hg : Model.SM4.group4 Model.SM4.genTables rk = fun z i =>
      Spec.SM4.roundStep (Spec.SM4.roundStep (Spec.SM4.roundStep (Spec.SM4.roundStep z
          (rk.getD (4 * i) 0)) (rk.getD (4 * i + 1) 0)) (rk.getD (4 * i + 2) 0)) (rk.getD (4 * i + 3) 0) := by
    funext z i; exact group4_eq rk z i
  rw [hg]

end SMGo.Proofs.SM4
