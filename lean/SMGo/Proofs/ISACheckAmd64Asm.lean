/-
  C09: kernel-evaluated taint certificates (`certify`, see SMGo/Model/ISA.lean) for the amd64 routines below.
  Each `cert_*` is decided by `decide +kernel`: the kernel computes the invariant (`computeInv`) of the
  macro-expanded listing and checks it instruction by instruction (`checkInv`); nothing is trusted but the kernel.
-/
import SMGo.Proofs.ISASound
import SMGo.Gen.ListAmd64Asm

namespace SMGo.Proofs.ISACheck
open SMGo.Model.ISA SMGo.Proofs.ISASound SMGo.Gen
set_option maxRecDepth 100000

theorem cert_expandKeyAsm_amd64 : certify ListAmd64Asm.expandKeyAsm [] = true := by decide +kernel

theorem ct_expandKeyAsm_amd64 : checkInv ListAmd64Asm.expandKeyAsm (invOf ListAmd64Asm.expandKeyAsm) [] = true := (certify_spec cert_expandKeyAsm_amd64).1

theorem cert_cryptoBlockAsm_amd64 : certify ListAmd64Asm.cryptoBlockAsm [] = true := by decide +kernel

theorem ct_cryptoBlockAsm_amd64 : checkInv ListAmd64Asm.cryptoBlockAsm (invOf ListAmd64Asm.cryptoBlockAsm) [] = true := (certify_spec cert_cryptoBlockAsm_amd64).1

theorem cert_cryptoBlockAsmX2_amd64 : certify ListAmd64Asm.cryptoBlockAsmX2 [] = true := by decide +kernel

theorem ct_cryptoBlockAsmX2_amd64 : checkInv ListAmd64Asm.cryptoBlockAsmX2 (invOf ListAmd64Asm.cryptoBlockAsmX2) [] = true := (certify_spec cert_cryptoBlockAsmX2_amd64).1

theorem cert_cryptoBlockAsmX4_amd64 : certify ListAmd64Asm.cryptoBlockAsmX4 [] = true := by decide +kernel

theorem ct_cryptoBlockAsmX4_amd64 : checkInv ListAmd64Asm.cryptoBlockAsmX4 (invOf ListAmd64Asm.cryptoBlockAsmX4) [] = true := (certify_spec cert_cryptoBlockAsmX4_amd64).1

theorem cert_cryptoBlockAsmX8_amd64 : certify ListAmd64Asm.cryptoBlockAsmX8 [] = true := by decide +kernel

theorem ct_cryptoBlockAsmX8_amd64 : checkInv ListAmd64Asm.cryptoBlockAsmX8 (invOf ListAmd64Asm.cryptoBlockAsmX8) [] = true := (certify_spec cert_cryptoBlockAsmX8_amd64).1

theorem cert_cryptoBlockAsmX16_amd64 : certify ListAmd64Asm.cryptoBlockAsmX16 [] = true := by decide +kernel

theorem ct_cryptoBlockAsmX16_amd64 : checkInv ListAmd64Asm.cryptoBlockAsmX16 (invOf ListAmd64Asm.cryptoBlockAsmX16) [] = true := (certify_spec cert_cryptoBlockAsmX16_amd64).1

end SMGo.Proofs.ISACheck
