import SMGo.Proofs.ISAValFusedOne
import SMGo.Model.ISAValGcm
namespace SMGo.Proofs.ISAVal
open SMGo.Model.ISAVal
open SMGo.Model.ISA (Reg Opd Instr)

/-! ### the memory of `sealState` / `openState` -/

/-- memory: the read-only symbols, then round keys, destination, nonce, input, additional data, scratch -/
def fmem (nm : String) (w : Bool) (rk dst nonce inp aad tmp : List Nat) : List Region :=
  (mkState [] [] [] symbols (gcmRegions nm w rk dst nonce inp aad tmp) []).mem

theorem seal_mem (g v k rk : List Nat) (t : Nat) (dst nonce pt aad tmp : List Nat) :
    (sealState g v k rk t dst nonce pt aad tmp).mem = fmem "plaintext" false rk dst nonce pt aad tmp := rfl
theorem open_mem (g v k rk : List Nat) (t : Nat) (dst nonce ct aad tmp : List Nat) (r0 : Nat) :
    (openState g v k rk t dst nonce ct aad tmp r0).mem = fmem "cipher" false rk dst nonce ct aad tmp := rfl
theorem seal_syms (g v k rk : List Nat) (t : Nat) (dst nonce pt aad tmp : List Nat) :
    (sealState g v k rk t dst nonce pt aad tmp).syms = symTab := rfl
theorem open_syms (g v k rk : List Nat) (t : Nat) (dst nonce ct aad tmp : List Nat) (r0 : Nat) :
    (openState g v k rk t dst nonce ct aad tmp r0).syms = symTab := rfl

section
variable (nm : String) (w : Bool) (rk dst nonce inp aad tmp : List Nat)

theorem fmem_rk : (fmem nm w rk dst nonce inp aad tmp)[16]? = some ⟨"rk", wordsMem rk, false⟩ := rfl
theorem fmem_dst : (fmem nm w rk dst nonce inp aad tmp)[17]? = some ⟨"dst", dst, true⟩ := rfl
theorem fmem_nonce : (fmem nm w rk dst nonce inp aad tmp)[18]? = some ⟨"nonce", nonce, false⟩ := rfl
theorem fmem_inp : (fmem nm w rk dst nonce inp aad tmp)[19]? = some ⟨nm, inp, w⟩ := rfl
theorem fmem_aad : (fmem nm w rk dst nonce inp aad tmp)[20]? = some ⟨"aData", aad, false⟩ := rfl
theorem fmem_tmp : (fmem nm w rk dst nonce inp aad tmp)[21]? = some ⟨"tmp", tmp, true⟩ := rfl
theorem fmem_set_tmp (bs : List Nat) :
    (fmem nm w rk dst nonce inp aad tmp).set 21 ⟨"tmp", bs, true⟩ = fmem nm w rk dst nonce inp aad bs := rfl
theorem fmem_set_dst (bs : List Nat) :
    (fmem nm w rk dst nonce inp aad tmp).set 17 ⟨"dst", bs, true⟩ = fmem nm w rk bs nonce inp aad tmp := rfl

/-- reading inside argument region number `j` (0 = rk … 5 = tmp) -/
theorem fmem_read_region (j : Nat) (reg : Region) (hreg : (fmem nm w rk dst nonce inp aad tmp)[16 + j]? = some reg)
    (off n : Nat) (hoff : off + n ≤ reg.bytes.length) (hlt : off < 2 ^ 32) :
    readMem (fmem nm w rk dst nonce inp aad tmp) ((17 + j) * 2 ^ 32 + off) n = .ok ((reg.bytes.drop off).take n) := by
  unfold readMem
  have h1 : ((17 + j) * 2 ^ 32 + off) / 2 ^ 32 = 17 + j := by
    rw [Nat.add_comm, Nat.add_mul_div_right _ _ (by decide), Nat.div_eq_of_lt hlt, Nat.zero_add]
  have h2 : ((17 + j) * 2 ^ 32 + off) % 2 ^ 32 = off := by
    rw [Nat.add_comm, Nat.add_mul_mod_self_right, Nat.mod_eq_of_lt hlt]
  simp only [h1, h2]
  rw [if_neg (by omega), show 17 + j - 1 = 16 + j from by omega, hreg]
  simp only
  rw [if_pos hoff]

theorem fmem_read_nonce (off n : Nat) (hoff : off + n ≤ nonce.length) (hlt : off < 2 ^ 32) :
    readMem (fmem nm w rk dst nonce inp aad tmp) (81604378624 + off) n = .ok ((nonce.drop off).take n) :=
  fmem_read_region nm w rk dst nonce inp aad tmp 2 _ (fmem_nonce ..) off n hoff hlt
theorem fmem_read_inp (off n : Nat) (hoff : off + n ≤ inp.length) (hlt : off < 2 ^ 32) :
    readMem (fmem nm w rk dst nonce inp aad tmp) (85899345920 + off) n = .ok ((inp.drop off).take n) :=
  fmem_read_region nm w rk dst nonce inp aad tmp 3 _ (fmem_inp ..) off n hoff hlt
theorem fmem_read_aad (off n : Nat) (hoff : off + n ≤ aad.length) (hlt : off < 2 ^ 32) :
    readMem (fmem nm w rk dst nonce inp aad tmp) (90194313216 + off) n = .ok ((aad.drop off).take n) :=
  fmem_read_region nm w rk dst nonce inp aad tmp 4 _ (fmem_aad ..) off n hoff hlt
theorem fmem_read_tmp (off n : Nat) (hoff : off + n ≤ tmp.length) (hlt : off < 2 ^ 32) :
    readMem (fmem nm w rk dst nonce inp aad tmp) (94489280512 + off) n = .ok ((tmp.drop off).take n) :=
  fmem_read_region nm w rk dst nonce inp aad tmp 5 _ (fmem_tmp ..) off n hoff hlt
theorem fmem_read_dst (off n : Nat) (hoff : off + n ≤ dst.length) (hlt : off < 2 ^ 32) :
    readMem (fmem nm w rk dst nonce inp aad tmp) (77309411328 + off) n = .ok ((dst.drop off).take n) :=
  fmem_read_region nm w rk dst nonce inp aad tmp 1 _ (fmem_dst ..) off n hoff hlt

theorem fmem_read_rk (hrk : rk.length = 32) (i : Nat) (hi : i < 32) :
    readMem (fmem nm w rk dst nonce inp aad tmp) (73014444032 + 4 * i) 4 = .ok (lanes 8 4 (rk.getD i 0)) := by
  have := fmem_read_region nm w rk dst nonce inp aad tmp 0 _ (fmem_rk ..) (4 * i) 4
    (by simp only; rw [wordsMem_length rk hrk]; omega) (by omega)
  rw [this]
  simp only [wordsMem]
  rw [drop_take_flatMap (lanes 8 4) 4 (fun x => lanes_length 8 4 x) rk i (by omega)]

theorem fmem_write_tmp (off : Nat) (bs : List Nat) (hoff : off + bs.length ≤ tmp.length) (hlt : off < 2 ^ 32) :
    writeMem (fmem nm w rk dst nonce inp aad tmp) (94489280512 + off) bs
      = .ok (fmem nm w rk dst nonce inp aad (tmp.take off ++ bs ++ tmp.drop (off + bs.length))) := by
  unfold writeMem
  have h1 : (94489280512 + off) / 2 ^ 32 = 22 := by omega
  have h2 : (94489280512 + off) % 2 ^ 32 = off := by omega
  simp only [h1, h2, Nat.reduceSub, fmem_tmp]
  simp [hoff, fmem_set_tmp]

theorem fmem_write_dst (off : Nat) (bs : List Nat) (hoff : off + bs.length ≤ dst.length) (hlt : off < 2 ^ 32) :
    writeMem (fmem nm w rk dst nonce inp aad tmp) (77309411328 + off) bs
      = .ok (fmem nm w rk (dst.take off ++ bs ++ dst.drop (off + bs.length)) nonce inp aad tmp) := by
  unfold writeMem
  have h1 : (77309411328 + off) / 2 ^ 32 = 18 := by omega
  have h2 : (77309411328 + off) % 2 ^ 32 = off := by omega
  simp only [h1, h2, Nat.reduceSub, fmem_dst]
  simp [hoff, fmem_set_dst]

/-! read-only symbols -/
theorem fmem_sym_and : readMem (fmem nm w rk dst nonce inp aad tmp) 25769803776 8 = .ok (Gen.AsmData.amd64_AND_MASK.take 8) := rfl
theorem fmem_sym_lower : readMem (fmem nm w rk dst nonce inp aad tmp) 47244640256 16 = .ok Gen.AsmData.amd64_LOWER_MASK := rfl
theorem fmem_sym_shuffle : readMem (fmem nm w rk dst nonce inp aad tmp) 4294967296 16 = .ok Gen.AsmData.amd64_Shuffle := rfl
theorem fmem_sym_pre : readMem (fmem nm w rk dst nonce inp aad tmp) 8589934592 8 = .ok Gen.AsmData.amd64_PreAffineMatrix := rfl
theorem fmem_sym_post : readMem (fmem nm w rk dst nonce inp aad tmp) 12884901888 8 = .ok Gen.AsmData.amd64_PostAffineMatrix := rfl
theorem fmem_sym_add1 : readMem (fmem nm w rk dst nonce inp aad tmp) 30064771072 64 = .ok Gen.AsmData.amd64_Counter_Add1 := rfl
theorem fmem_sym_add2 : readMem (fmem nm w rk dst nonce inp aad tmp) 34359738368 64 = .ok Gen.AsmData.amd64_Counter_Add2 := rfl
theorem fmem_sym_add3 : readMem (fmem nm w rk dst nonce inp aad tmp) 38654705664 64 = .ok Gen.AsmData.amd64_Counter_Add3 := rfl
theorem fmem_sym_poly : readMem (fmem nm w rk dst nonce inp aad tmp) 42949672960 8 = .ok (Gen.AsmData.amd64_GCM_POLY.take 8) := rfl
theorem fmem_sym_idx : readMem (fmem nm w rk dst nonce inp aad tmp) 60129542144 64 = .ok Gen.AsmData.amd64_SHUFFLE_X_LANES := rfl
theorem fmem_sym_h01 : readMem (fmem nm w rk dst nonce inp aad tmp) 51539607552 32 = .ok Gen.AsmData.amd64_MERGE_H01 := rfl
theorem fmem_sym_h23 : readMem (fmem nm w rk dst nonce inp aad tmp) 55834574848 64 = .ok Gen.AsmData.amd64_MERGE_H23 := rfl
theorem fmem_sym_shuffle1 : readMem (fmem nm w rk dst nonce inp aad tmp) 64424509440 16 = .ok Gen.AsmData.amd64_Shuffle1 := rfl
theorem fmem_sym_shuffle2 : readMem (fmem nm w rk dst nonce inp aad tmp) 68719476736 16 = .ok Gen.AsmData.amd64_Shuffle2 := rfl
end

theorem symTab_add1 : lookup symTab "Counter_Add1" = some 30064771072 := by decide +kernel
theorem symTab_add2 : lookup symTab "Counter_Add2" = some 34359738368 := by decide +kernel
theorem symTab_add3 : lookup symTab "Counter_Add3" = some 38654705664 := by decide +kernel
theorem symTab_shuffle1 : lookup symTab "Shuffle1" = some 64424509440 := by decide +kernel
theorem symTab_shuffle2 : lookup symTab "Shuffle2" = some 68719476736 := by decide +kernel

end SMGo.Proofs.ISAVal
