/-
  **The arm64 listing of `expandKeyAsm` computes the key schedule of the specification** — under the arm64 value
  semantics of SMGo/Model/ISAValArm64.lean (UNVALIDATED transcription of the Arm ARM).  Prologue, decode of the
  regenerated listing into prologue ++ 32 × `expandSubRound`, and the comparison with `Spec.SM4.keySchedule`
  (through `eiterN_spec` of the amd64 proof: same constants, same recurrence).
-/
import SMGo.Proofs.ISAValArm64Expand
namespace SMGo.Proofs.ISAValArm64
open SMGo.Model.ISAValArm64 SMGo.Model.ISA SMGo
open SMGo.Model.ISAVal (lane lanes unlanes map1 map2 rotl32 Region readMem writeMem lookup regionBase)
open SMGo.Proofs.ISAVal (lane_lt list32 list16 beWord lane_map1 lanes84 lanes_length unlanes_cons unlanes_nil
  estepN eiterN ckN fkN encAt decAt lane_unlanes Bnd toW beWord_lt ofNat_beWord eiterN_spec fkN_lt fkN_eq
  memWords_wordsMem)

/-! ### prologue -/

def eproCode : List DInstr :=
  [ins .MOVD [.symAddr "SBox" 0, G 0] nn,
   ins .VLD1P [M 0 64, L4 16 17 18 19] [.none, .B16],
   ins .VLD1P [M 0 64, L4 20 21 22 23] [.none, .B16],
   ins .VLD1P [M 0 64, L4 24 25 26 27] [.none, .B16],
   ins .VLD1P [M 0 64, L4 28 29 30 31] [.none, .B16],
   ins .MOVD [.frame "mk" 0, G 10] nn,
   ins .MOVD [.frame "enc" 8, G 11] nn,
   ins .MOVD [.frame "dec" 16, G 12] nn,
   ins .MOVD [.symAddr "CK" 0, G 13] nn,
   ins .ADD [.imm 124, G 12, G 12] [.none, .none, .none],
   ins .VMOVI [.imm 64, R 15] [.none, .B16],
   ins .MOVD [.symAddr "FK" 0, G 1] nn,
   ins .VLD1 [M 1 0, .regs [.vec 4]] [.none, .S4],
   ins .VLD1 [M 10 0, .regs [.vec 0]] [.none, .S4],
   ins .VREV32 [R 0, R 0] r2,
   ins .VEOR [R 4, R 0, R 0] b3,
   ins .VMOV [R 0, R 1] [.S 1, .S 0],
   ins .VMOV [R 0, R 2] [.S 2, .S 0],
   ins .VMOV [R 0, R 3] [.S 3, .S 0]]

theorem lane8_lane32J (i j v : Nat) (hi : i < 4) : lane 8 i (lane 32 j v) = lane 8 (i + 4 * j) v := by
  rw [lane32_shift, lane8_lane32 _ _ hi, lane8_shift]

/-- REV32 on word element `j` -/
theorem laneJ_vrev32 (j v : Nat) (hj : j < 4) :
    lane 32 j (vrev32 v)
      = unlanes 8 [lane 8 (3 + 4 * j) v, lane 8 (2 + 4 * j) v, lane 8 (1 + 4 * j) v, lane 8 (0 + 4 * j) v] := by
  unfold vrev32
  rw [lane_map1 32 4 j v _ hj]
  · simp only [lanes84, List.reverse_cons, List.reverse_nil, List.nil_append, List.cons_append,
      lane8_lane32J _ j v (by decide : 0 < 4), lane8_lane32J _ j v (by decide : 1 < 4),
      lane8_lane32J _ j v (by decide : 2 < 4), lane8_lane32J _ j v (by decide : 3 < 4)]
  · intro x _
    have h0 := lane_lt 8 0 x; have h1 := lane_lt 8 1 x; have h2 := lane_lt 8 2 x; have h3 := lane_lt 8 3 x
    simp only [lanes84, List.reverse_cons, List.reverse_nil, List.nil_append, List.cons_append, unlanes_cons, unlanes_nil]
    omega

/-- the four key words after `VLD1 (R10), [V0.S4]; VREV32 V0.B16, V0.B16` -/
theorem rev32_key (s0 s1 s2 s3 s4 s5 s6 s7 s8 s9 s10 s11 s12 s13 s14 s15 : Nat)
    (hb : ∀ x ∈ [s0, s1, s2, s3, s4, s5, s6, s7, s8, s9, s10, s11, s12, s13, s14, s15], x < 2 ^ 8) :
    lane 32 0 (vrev32 (unlanes 8 [s0, s1, s2, s3, s4, s5, s6, s7, s8, s9, s10, s11, s12, s13, s14, s15])) = beWord s0 s1 s2 s3 ∧
    lane 32 1 (vrev32 (unlanes 8 [s0, s1, s2, s3, s4, s5, s6, s7, s8, s9, s10, s11, s12, s13, s14, s15])) = beWord s4 s5 s6 s7 ∧
    lane 32 2 (vrev32 (unlanes 8 [s0, s1, s2, s3, s4, s5, s6, s7, s8, s9, s10, s11, s12, s13, s14, s15])) = beWord s8 s9 s10 s11 ∧
    lane 32 3 (vrev32 (unlanes 8 [s0, s1, s2, s3, s4, s5, s6, s7, s8, s9, s10, s11, s12, s13, s14, s15])) = beWord s12 s13 s14 s15 := by
  have e := fun k (hk : k < 16) => lane_unlanes 8 _ hb k (by simpa using hk)
  refine ⟨?_, ?_, ?_, ?_⟩
  · rw [laneJ_vrev32 0 _ (by decide), e 3 (by decide), e 2 (by decide), e 1 (by decide), e 0 (by decide)]; rfl
  · rw [laneJ_vrev32 1 _ (by decide), e 7 (by decide), e 6 (by decide), e 5 (by decide), e 4 (by decide)]; rfl
  · rw [laneJ_vrev32 2 _ (by decide), e 11 (by decide), e 10 (by decide), e 9 (by decide), e 8 (by decide)]; rfl
  · rw [laneJ_vrev32 3 _ (by decide), e 15 (by decide), e 14 (by decide), e 13 (by decide), e 12 (by decide)]; rfl

theorem fk_take : List.take 16 Gen.AsmData.arm64_FK = Gen.AsmData.amd64_FK := by decide +kernel

theorem esyms :
    (List.range symbols.length).zipWith (fun i (n, _) => (n, regionBase i)) symbols
      = [("SBox", 4294967296), ("FK", 8589934592), ("CK", 12884901888)] := by decide +kernel

theorem elook_sbox : lookup [("SBox", 4294967296), ("FK", 8589934592), ("CK", 12884901888)] "SBox" = some 4294967296 := by
  decide +kernel
theorem elook_fk : lookup [("SBox", 4294967296), ("FK", 8589934592), ("CK", 12884901888)] "FK" = some 8589934592 := by
  decide +kernel
theorem elook_ck : lookup [("SBox", 4294967296), ("FK", 8589934592), ("CK", 12884901888)] "CK" = some 12884901888 := by
  decide +kernel

def frameTabE : List (String × Nat) := [("mk", arg 0), ("enc", arg 1), ("dec", arg 2)]
theorem frameE_mk : lookup frameTabE "mk" = some 17179869184 := by decide +kernel
theorem frameE_enc : lookup frameTabE "enc" = some 21474836480 := by decide +kernel
theorem frameE_dec : lookup frameTabE "dec" = some 25769803776 := by decide +kernel

theorem encAt_nil (enc0 : List Nat) : encAt enc0 [] = enc0 := by simp [encAt, SMGo.Model.ISAVal.wordsMem]
theorem decAt_nil (dec0 : List Nat) (h : dec0.length = 128) : decAt dec0 [] = dec0 := by
  simp [decAt, SMGo.Model.ISAVal.wordsMem, List.take_of_length_le (Nat.le_of_eq h)]

attribute [local irreducible] execD

macro "qstep" : tactic => `(tactic|
  (apply exec_step
   · first
     | exact execD_vrev32 (hn := by rfl) (hd0 := by rfl) ..
     | exact execD_veor (hm := by rfl) (hn := by rfl) (hd0 := by rfl) ..
     | exact execD_vmovi (hi := by decide) (hd0 := by rfl) ..
     | exact execD_vmov_elem (hij := by decide) (hn := by rfl) (hdv := by rfl) ..
     | exact execD_add (hi := by decide) (hn := by rfl) (hd0 := by rfl) ..
   simp only [List.set_cons_succ, List.set_cons_zero]))

set_option maxRecDepth 10000 in
theorem eprologue_spec (g v enc0 dec0 : List Nat) (hG : g.length = 31) (hV : v.length = 32) (hdec : dec0.length = 128)
    (s0 s1 s2 s3 s4 s5 s6 s7 s8 s9 s10 s11 s12 s13 s14 s15 : Nat)
    (hb : ∀ x ∈ [s0, s1, s2, s3, s4, s5, s6, s7, s8, s9, s10, s11, s12, s13, s14, s15], x < 2 ^ 8) :
    ∃ s', execList eproCode
        (expandKeyState g v [s0, s1, s2, s3, s4, s5, s6, s7, s8, s9, s10, s11, s12, s13, s14, s15] enc0 dec0) = .ok s' ∧
      ReadyE [s0, s1, s2, s3, s4, s5, s6, s7, s8, s9, s10, s11, s12, s13, s14, s15] enc0 dec0 0
        (beWord s0 s1 s2 s3 ^^^ fkN 0, beWord s4 s5 s6 s7 ^^^ fkN 1, beWord s8 s9 s10 s11 ^^^ fkN 2,
         beWord s12 s13 s14 s15 ^^^ fkN 3) [] s' := by
  obtain ⟨a0, a1, a2, a3, a4, a5, a6, a7, a8, a9, a10, a11, a12, a13, a14, a15, a16, a17, a18, a19, a20, a21, a22, a23, a24, a25, a26, a27, a28, a29, a30, rfl⟩ := list31 g hG
  obtain ⟨b0, b1, b2, b3, b4, b5, b6, b7, b8, b9, b10, b11, b12, b13, b14, b15, b16, b17, b18, b19, b20, b21, b22, b23, b24, b25, b26, b27, b28, b29, b30, b31, rfl⟩ := list32 v hV
  have hst : expandKeyState [a0, a1, a2, a3, a4, a5, a6, a7, a8, a9, a10, a11, a12, a13, a14, a15, a16, a17, a18, a19, a20, a21, a22, a23, a24, a25, a26, a27, a28, a29, a30]
      [b0, b1, b2, b3, b4, b5, b6, b7, b8, b9, b10, b11, b12, b13, b14, b15, b16, b17, b18, b19, b20, b21, b22, b23, b24, b25, b26, b27, b28, b29, b30, b31]
      [s0, s1, s2, s3, s4, s5, s6, s7, s8, s9, s10, s11, s12, s13, s14, s15] enc0 dec0
      = ⟨[a0, a1, a2, a3, a4, a5, a6, a7, a8, a9, a10, a11, a12, a13, a14, a15, a16, a17, a18, a19, a20, a21, a22, a23, a24, a25, a26, a27, a28, a29, a30],
         [b0, b1, b2, b3, b4, b5, b6, b7, b8, b9, b10, b11, b12, b13, b14, b15, b16, b17, b18, b19, b20, b21, b22, b23, b24, b25, b26, b27, b28, b29, b30, b31],
         emem [s0, s1, s2, s3, s4, s5, s6, s7, s8, s9, s10, s11, s12, s13, s14, s15] enc0 dec0,
         [("SBox", 4294967296), ("FK", 8589934592), ("CK", 12884901888)], frameTabE⟩ := by
    simp only [expandKeyState, mkState, esyms]; rfl
  rw [hst]
  have hmk := frameE_mk
  have henc := frameE_enc
  have hdc := frameE_dec
  have rS := fun q (hq : q < 4) => read_sbox (emem [s0, s1, s2, s3, s4, s5, s6, s7, s8, s9, s10, s11, s12, s13, s14, s15] enc0 dec0) rfl q hq
  have rFK : readMem (emem [s0, s1, s2, s3, s4, s5, s6, s7, s8, s9, s10, s11, s12, s13, s14, s15] enc0 dec0) 8589934592 16
      = .ok Gen.AsmData.arm64_FK := rfl
  have rKey : readMem (emem [s0, s1, s2, s3, s4, s5, s6, s7, s8, s9, s10, s11, s12, s13, s14, s15] enc0 dec0) 17179869184 16
      = .ok [s0, s1, s2, s3, s4, s5, s6, s7, s8, s9, s10, s11, s12, s13, s14, s15] := rfl
  apply Exists.intro
  apply And.intro
  · unfold eproCode
    apply exec_step
    · exact execD_movd_sym (hs := elook_sbox) (hd0 := by rfl) ..
    simp only [List.set_cons_succ, List.set_cons_zero, Nat.add_zero]
    apply exec_step
    · exact execD_ld1p_four (bs := sbQuarter 0) (hc := by decide) (hb := by rfl)
        (e0 := by rfl) (e1 := by rfl) (e2 := by rfl) (e3 := by rfl) (hload := rS 0 (by decide)) ..
    simp only [List.set_cons_succ, List.set_cons_zero, Nat.reduceAdd, Nat.reducePow, Nat.reduceMod]
    apply exec_step
    · exact execD_ld1p_four (bs := sbQuarter 1) (hc := by decide) (hb := by rfl)
        (e0 := by rfl) (e1 := by rfl) (e2 := by rfl) (e3 := by rfl) (hload := rS 1 (by decide)) ..
    simp only [List.set_cons_succ, List.set_cons_zero, Nat.reduceAdd, Nat.reducePow, Nat.reduceMod]
    apply exec_step
    · exact execD_ld1p_four (bs := sbQuarter 2) (hc := by decide) (hb := by rfl)
        (e0 := by rfl) (e1 := by rfl) (e2 := by rfl) (e3 := by rfl) (hload := rS 2 (by decide)) ..
    simp only [List.set_cons_succ, List.set_cons_zero, Nat.reduceAdd, Nat.reducePow, Nat.reduceMod]
    apply exec_step
    · exact execD_ld1p_four (bs := sbQuarter 3) (hc := by decide) (hb := by rfl)
        (e0 := by rfl) (e1 := by rfl) (e2 := by rfl) (e3 := by rfl) (hload := rS 3 (by decide)) ..
    simp only [List.set_cons_succ, List.set_cons_zero, Nat.reduceAdd, Nat.reducePow, Nat.reduceMod]
    apply exec_step
    · exact execD_movd_frame (hs := hmk) (hd0 := by rfl) ..
    simp only [List.set_cons_succ, List.set_cons_zero]
    apply exec_step
    · exact execD_movd_frame (hs := henc) (hd0 := by rfl) ..
    simp only [List.set_cons_succ, List.set_cons_zero]
    apply exec_step
    · exact execD_movd_frame (hs := hdc) (hd0 := by rfl) ..
    simp only [List.set_cons_succ, List.set_cons_zero]
    apply exec_step
    · exact execD_movd_sym (hs := elook_ck) (hd0 := by rfl) ..
    simp only [List.set_cons_succ, List.set_cons_zero, Nat.add_zero]
    qstep; qstep
    apply exec_step
    · exact execD_movd_sym (hs := elook_fk) (hd0 := by rfl) ..
    simp only [List.set_cons_succ, List.set_cons_zero, Nat.add_zero]
    apply exec_step
    · exact execD_ld1_one (bs := Gen.AsmData.arm64_FK) (hb := by rfl) (hd0 := by rfl) (hload := rFK) ..
    simp only [List.set_cons_succ, List.set_cons_zero]
    apply exec_step
    · exact execD_ld1_one (bs := [s0, s1, s2, s3, s4, s5, s6, s7, s8, s9, s10, s11, s12, s13, s14, s15]) (hb := by rfl)
        (hd0 := by rfl) (hload := rKey) ..
    simp only [List.set_cons_succ, List.set_cons_zero]
    qstep; qstep; qstep; qstep; qstep
    exact execList_nil _
  · obtain ⟨k0, k1, k2, k3⟩ := rev32_key s0 s1 s2 s3 s4 s5 s6 s7 s8 s9 s10 s11 s12 s13 s14 s15 hb
    have hx : ∀ j old x, j < 4 → lane 32 0 (setLaneS 0 old (lane 32 j x)) = lane 32 j x :=
      fun j old x _ => lane0_setLaneS0 _ _ (lane_lt _ _ _)
    constructor
    · rfl
    · rfl
    · rfl
    · simp only [greg, List.getD_cons_succ, List.getD_cons_zero, Nat.mul_zero, Nat.add_zero]; decide
    · simp only [greg, List.getD_cons_succ, List.getD_cons_zero, Nat.mul_zero, Nat.add_zero]; decide
    · simp only [greg, List.getD_cons_succ, List.getD_cons_zero, Nat.mul_zero, Nat.add_zero, Int.reduceToNat]; decide
    · simp only [List.drop_succ_cons, List.drop_zero]
      exact tabs_loaded
    · simp only [vreg, sreg, Nat.zero_add, Nat.reduceMod, List.getD_cons_succ, List.getD_cons_zero, List.take_succ_cons,
        List.take_zero, fk_take]
      rw [lane_veor 32 0 _ _ (by decide), k0, Nat.xor_comm]; rfl
    · simp only [vreg, sreg, Nat.zero_add, Nat.reduceMod, List.getD_cons_succ, List.getD_cons_zero, List.take_succ_cons,
        List.take_zero, fk_take]
      rw [hx 1 _ _ (by decide), lane_veor 32 1 _ _ (by decide), k1, Nat.xor_comm]; rfl
    · simp only [vreg, sreg, Nat.zero_add, Nat.reduceMod, List.getD_cons_succ, List.getD_cons_zero, List.take_succ_cons,
        List.take_zero, fk_take]
      rw [hx 2 _ _ (by decide), lane_veor 32 2 _ _ (by decide), k2, Nat.xor_comm]; rfl
    · simp only [vreg, sreg, Nat.zero_add, Nat.reduceMod, List.getD_cons_succ, List.getD_cons_zero, List.take_succ_cons,
        List.take_zero, fk_take]
      rw [hx 3 _ _ (by decide), lane_veor 32 3 _ _ (by decide), k3, Nat.xor_comm]; rfl
    · show emem _ enc0 dec0 = _
      rw [encAt_nil, decAt_nil dec0 hdec]

/-! ### the listing -/

/-- the body of `expandKeyAsm` as a scheme -/
def eCode : List DInstr := eproCode ++ eroundsCode 32

theorem e_decode :
    (zipDecode Gen.ListArm64Asm.expandKeyAsm Gen.ListArm64AsmArr.expandKeyAsm_arr).toOption.map
        (fun r => r.map erasePc) = some (eCode ++ [retI]) := by decide +kernel

theorem e_noRet : eCode.all (fun i => i.mn != .RET) = true := by decide +kernel

theorem region_enc (key e d g' v' : List Nat) (sy fr : List (String × Nat)) :
    regionBytes ⟨g', v', emem key e d, sy, fr⟩ "enc" = some e := by
  simp [regionBytes, emem, List.find?]

theorem region_dec (key e d g' v' : List Nat) (sy fr : List (String × Nat)) :
    regionBytes ⟨g', v', emem key e d, sy, fr⟩ "dec" = some d := by
  simp [regionBytes, emem, List.find?]

/-- **the arm64 listing of `expandKeyAsm` computes the key schedule of the specification**: for every 16-byte key,
    whatever the registers and the two destination arrays hold at entry, the run succeeds, `enc` receives
    rk_0 … rk_31 and `dec` receives them in reverse order -/
theorem expandKey_eq_spec (g v key enc0 dec0 : List Nat)
    (hg : g.length = 31) (hv : v.length = 32)
    (hkey : key.length = 16) (hkb : ∀ x ∈ key, x < 256) (henc : enc0.length = 128) (hdec : dec0.length = 128) :
    runExpandKey (expandKeyState g v key enc0 dec0)
      = .ok ((Spec.SM4.keySchedule (key.map UInt8.ofNat)).map (·.toNat),
             (Spec.SM4.keySchedule (key.map UInt8.ofNat)).reverse.map (·.toNat)) := by
  obtain ⟨s0, s1, s2, s3, s4, s5, s6, s7, s8, s9, s10, s11, s12, s13, s14, s15, rfl⟩ := list16 key hkey
  obtain ⟨s1', hrun1, hr1⟩ := eprologue_spec g v enc0 dec0 hg hv hdec s0 s1 s2 s3 s4 s5 s6 s7 s8 s9 s10 s11 s12 s13 s14 s15 hkb
  obtain ⟨s2', hrun2, hr2⟩ := readyE_rounds _ enc0 dec0 henc hdec _ s1' hr1 32 (Nat.le_refl _)
  have hrun : execList eCode (expandKeyState g v [s0, s1, s2, s3, s4, s5, s6, s7, s8, s9, s10, s11, s12, s13, s14, s15] enc0 dec0) = .ok s2' :=
    execList_append_ok hrun1 hrun2
  have h := fun x hx => hkb x hx
  simp only [List.mem_cons, List.not_mem_nil, or_false] at h
  have hw0 := beWord_lt s0 s1 s2 s3 (h s0 (by simp)) (h s1 (by simp)) (h s2 (by simp)) (h s3 (by simp))
  have hw1 := beWord_lt s4 s5 s6 s7 (h s4 (by simp)) (h s5 (by simp)) (h s6 (by simp)) (h s7 (by simp))
  have hw2 := beWord_lt s8 s9 s10 s11 (h s8 (by simp)) (h s9 (by simp)) (h s10 (by simp)) (h s11 (by simp))
  have hw3 := beWord_lt s12 s13 s14 s15 (h s12 (by simp)) (h s13 (by simp)) (h s14 (by simp)) (h s15 (by simp))
  have hb0 : Bnd (beWord s0 s1 s2 s3 ^^^ fkN 0, beWord s4 s5 s6 s7 ^^^ fkN 1, beWord s8 s9 s10 s11 ^^^ fkN 2,
      beWord s12 s13 s14 s15 ^^^ fkN 3) :=
    ⟨Nat.xor_lt_two_pow hw0 (fkN_lt 0), Nat.xor_lt_two_pow hw1 (fkN_lt 1), Nat.xor_lt_two_pow hw2 (fkN_lt 2),
      Nat.xor_lt_two_pow hw3 (fkN_lt 3)⟩
  obtain ⟨-, hks, hlen, hspec⟩ := eiterN_spec _ hb0 32 (Nat.le_refl _)
  generalize hE : eiterN (beWord s0 s1 s2 s3 ^^^ fkN 0, beWord s4 s5 s6 s7 ^^^ fkN 1, beWord s8 s9 s10 s11 ^^^ fkN 2,
      beWord s12 s13 s14 s15 ^^^ fkN 3) 32 = E at hr2 hks hlen hspec
  obtain ⟨Xf, ks⟩ := E
  simp only at hr2 hks hlen hspec
  have hsched : Spec.SM4.keySchedule ([s0, s1, s2, s3, s4, s5, s6, s7, s8, s9, s10, s11, s12, s13, s14, s15].map UInt8.ofNat)
      = ks.map (BitVec.ofNat 32) := by
    simp only [Spec.SM4.keySchedule, List.map_cons, List.map_nil, wordsBE, List.getD_cons_zero, List.getD_cons_succ]
    have e0 := ofNat_beWord s0 s1 s2 s3 (h s0 (by simp)) (h s1 (by simp)) (h s2 (by simp)) (h s3 (by simp))
    have e1 := ofNat_beWord s4 s5 s6 s7 (h s4 (by simp)) (h s5 (by simp)) (h s6 (by simp)) (h s7 (by simp))
    have e2 := ofNat_beWord s8 s9 s10 s11 (h s8 (by simp)) (h s9 (by simp)) (h s10 (by simp)) (h s11 (by simp))
    have e3 := ofNat_beWord s12 s13 s14 s15 (h s12 (by simp)) (h s13 (by simp)) (h s14 (by simp)) (h s15 (by simp))
    rw [← e0, ← e1, ← e2, ← e3, ← fkN_eq 0 (by decide), ← fkN_eq 1 (by decide), ← fkN_eq 2 (by decide),
      ← fkN_eq 3 (by decide), ← BitVec.ofNat_xor, ← BitVec.ofNat_xor, ← BitVec.ofNat_xor, ← BitVec.ofNat_xor]
    simp only [toW] at hspec
    rw [hspec]
  have hrunL := run_of_decode _ _ eCode e_decode e_noRet _ s2' hrun
  unfold runExpandKey
  rw [hrunL]
  obtain ⟨g3, v3, m3, sy3, fr3⟩ := s2'
  have hm := hr2.mem
  simp only at hm
  subst hm
  simp only [ok_bind, region_enc, region_dec]
  have hencF : encAt enc0 ks = SMGo.Model.ISAVal.wordsMem ks := by
    simp [encAt, hlen, henc]
  have hdecF : decAt dec0 ks = SMGo.Model.ISAVal.wordsMem ks.reverse := by
    simp [decAt, hlen]
  have hksr : ∀ x ∈ ks.reverse, x < 2 ^ 32 := fun x hx => hks x (List.mem_reverse.mp hx)
  rw [hencF, hdecF, memWords_same, memWords_wordsMem ks hks, memWords_wordsMem _ hksr, hsched]
  have hmap : ∀ l : List Nat, (∀ x ∈ l, x < 2 ^ 32) → (l.map (BitVec.ofNat 32)).map (·.toNat) = l := by
    intro l hl
    rw [List.map_map]
    conv => rhs; rw [← List.map_id l]
    apply List.map_congr_left
    intro x hx
    simp [Nat.mod_eq_of_lt (hl x hx)]
  rw [← List.map_reverse, hmap ks hks, hmap _ hksr]
  rfl

end SMGo.Proofs.ISAValArm64

#print axioms SMGo.Proofs.ISAValArm64.expandKey_eq_spec
