/-
  Lemmas for property C16, wrapper half: the element wrappers of /repo/sm2/internal/fiat
  (SetBytes, Bytes, the scalar SetBytes (the same code since its repair), MultiSelect, Select) over
  the Montgomery-residue instance `montOps P`:
    * byte conversion round-trips and is canonical (`bytes_setBytes`, `setBytes_bytes`);
    * decoding accepts exactly the 32-byte strings whose big-endian value is below the modulus,
      never panics (`setBytes_spec`, `scalarSetBytes_eq_setBytes`);
    * the mask-based table lookup returns the addressed entry / the fallback (`multiSelectLimbs_spec`);
    * limbs ↔ naturals (`limbs_roundtrip`).
  Hypotheses on the parameters are explicit: `1 < P.m`, `P.m ≤ 2^256`, `R * P.rinv % P.m = 1`.
-/
import SMGo.Model.Field
import SMGo.Proofs.UtilsCmp
namespace SMGo.Proofs.FiatWrappers
open SMGo SMGo.Model.Field SMGo.Spec.Utils

/-! ### a. big-endian conversions -/

theorem ofNatBE_length (len v : Nat) : (Bytes.ofNatBE len v).length = len := by
  simp [Bytes.ofNatBE]

theorem ofNatBE_succ (len v : Nat) :
    Bytes.ofNatBE (len + 1) v = UInt8.ofNat (v / 256 ^ len % 256) :: Bytes.ofNatBE len v := by
  simp only [Bytes.ofNatBE, List.range_succ_eq_map, List.map_cons, List.map_map]
  congr 1
  apply List.map_congr_left
  intro i _
  simp only [Function.comp]
  have : len + 1 - 1 - (i + 1) = len - 1 - i := by omega
  rw [this]

theorem toNatBE_lt (b : Bytes) : Bytes.toNatBE b < 256 ^ b.length := UtilsCmp.toNatBE_lt b

/-- the value of the `len`-byte encoding is the value reduced modulo `256^len` -/
theorem toNatBE_ofNatBE_mod (len v : Nat) :
    Bytes.toNatBE (Bytes.ofNatBE len v) = v % 256 ^ len := by
  induction len with
  | zero => simp [Bytes.ofNatBE, Bytes.toNatBE, Nat.mod_one]
  | succ len ih =>
    have hb : (UInt8.ofNat (v / 256 ^ len % 256)).toNat = v / 256 ^ len % 256 := by
      rw [UInt8.toNat_ofNat']; omega
    rw [ofNatBE_succ, UtilsCmp.toNatBE_cons, ofNatBE_length, ih, hb,
      Nat.mod_pow_succ (x := v) (b := 256) (k := len), Nat.mul_comm, Nat.add_comm]

theorem toNatBE_ofNatBE (len v : Nat) (h : v < 256 ^ len) :
    Bytes.toNatBE (Bytes.ofNatBE len v) = v := by
  rw [toNatBE_ofNatBE_mod, Nat.mod_eq_of_lt h]

/-- equal-length byte strings with the same big-endian value are equal -/
theorem toNatBE_inj (x y : Bytes) (hl : x.length = y.length)
    (hv : Bytes.toNatBE x = Bytes.toNatBE y) : x = y := by
  apply (UtilsCmp.lexCmp_eq_zero x y).mp
  have h1 := UtilsCmp.lexCmp_lt_iff_toNat x y hl
  have h2 := (UtilsCmp.lexCmp_swap x y).trans (UtilsCmp.lexCmp_lt_iff_toNat y x hl.symm)
  rcases UtilsCmp.lexCmp_range x y with h | h | h
  · have := h1.mp h; omega
  · exact h
  · have := h2.mp h; omega

theorem ofNatBE_toNatBE (b : Bytes) : Bytes.ofNatBE b.length (Bytes.toNatBE b) = b := by
  apply toNatBE_inj
  · rw [ofNatBE_length]
  · exact toNatBE_ofNatBE _ _ (toNatBE_lt b)

theorem lexCmp_gt_iff_toNat (x y : Bytes) (h : x.length = y.length) :
    lexCmp x y = 1 ↔ Bytes.toNatBE y < Bytes.toNatBE x :=
  (UtilsCmp.lexCmp_swap x y).trans (UtilsCmp.lexCmp_lt_iff_toNat y x h.symm)

theorem pow_256_32 : (256 : Nat) ^ 32 = 2 ^ 256 := by decide

/-! ### Montgomery cancellation -/

section Mont
variable (P : MontParams)

theorem mont_cancel (hr : (R * P.rinv) % P.m = 1) (x : Nat) :
    x * R % P.m * P.rinv % P.m = x % P.m := by
  rw [Nat.mod_mul_mod, Nat.mul_assoc, Nat.mul_mod, hr, Nat.mul_one, Nat.mod_mod]

theorem mont_cancel' (hr : (R * P.rinv) % P.m = 1) (x : Nat) :
    x * P.rinv % P.m * R % P.m = x % P.m := by
  rw [Nat.mod_mul_mod, Nat.mul_assoc, Nat.mul_comm P.rinv R, Nat.mul_mod, hr, Nat.mul_one,
    Nat.mod_mod]

/-- `(0 - R) · R⁻¹ = -1` -/
theorem mont_minus_one (hm : 1 < P.m) (hr : (R * P.rinv) % P.m = 1) :
    (0 + P.m - R % P.m % P.m) % P.m * P.rinv % P.m = P.m - 1 := by
  have hm0 : 0 < P.m := by omega
  have hrlt : R % P.m < P.m := Nat.mod_lt _ hm0
  have hb : R % P.m * P.rinv % P.m = 1 := by rw [Nat.mod_mul_mod, hr]
  rw [Nat.mod_mod, Nat.zero_add, Nat.mod_mul_mod]
  -- a := (m - r) * rinv, b := r * rinv, a + b = m * rinv
  have hsum : ((P.m - R % P.m) * P.rinv + R % P.m * P.rinv) % P.m = 0 := by
    rw [← Nat.add_mul, Nat.sub_add_cancel (Nat.le_of_lt hrlt), Nat.mul_mod_right]
  rw [Nat.add_mod, hb] at hsum
  have halt : (P.m - R % P.m) * P.rinv % P.m < P.m := Nat.mod_lt _ hm0
  generalize (P.m - R % P.m) * P.rinv % P.m = a at *
  by_cases h : a + 1 < P.m
  · rw [Nat.mod_eq_of_lt h] at hsum; omega
  · omega

/-! ### b. Bytes -/

theorem bytes_montOps (x : Nat) :
    Model.Field.bytes (montOps P) x = Bytes.ofNatBE 32 (x * P.rinv % P.m) := by
  simp [Model.Field.bytes, montOps]

theorem minusOneEncoding_montOps (hm : 1 < P.m) (hr : (R * P.rinv) % P.m = 1) :
    Model.Field.minusOneEncoding (montOps P) = Bytes.ofNatBE 32 (P.m - 1) := by
  rw [Model.Field.minusOneEncoding, bytes_montOps]
  show Bytes.ofNatBE 32 ((0 + P.m - R % P.m % P.m) % P.m * P.rinv % P.m) = _
  rw [mont_minus_one P hm hr]

theorem minusOneEncoding_length (hm : 1 < P.m) (hr : (R * P.rinv) % P.m = 1) :
    (Model.Field.minusOneEncoding (montOps P)).length = 32 := by
  rw [minusOneEncoding_montOps P hm hr, ofNatBE_length]

theorem minusOneEncoding_toNatBE (hm : 1 < P.m) (hm256 : P.m ≤ 2 ^ 256)
    (hr : (R * P.rinv) % P.m = 1) :
    Bytes.toNatBE (Model.Field.minusOneEncoding (montOps P)) = P.m - 1 := by
  rw [minusOneEncoding_montOps P hm hr, toNatBE_ofNatBE]
  rw [pow_256_32]; omega

/-! ### c. SetBytes -/

theorem setBytes_spec (hm : 1 < P.m) (hm256 : P.m ≤ 2 ^ 256) (hr : (R * P.rinv) % P.m = 1)
    (v : Bytes) :
    Model.Field.setBytes (montOps P) v =
      if v.length = 32 ∧ Bytes.toNatBE v < P.m then .ok (Bytes.toNatBE v * R % P.m) else .err := by
  unfold Model.Field.setBytes
  by_cases hl : v.length = 32
  · have hl1 := minusOneEncoding_length P hm hr
    have hv1 := minusOneEncoding_toNatBE P hm hm256 hr
    have hc := UtilsCmp.cmp_ok v (Model.Field.minusOneEncoding (montOps P)) 32
      (by omega) (by omega)
    have t1 : v.take 32 = v := List.take_of_length_le (by omega)
    have t2 : (Model.Field.minusOneEncoding (montOps P)).take 32
        = Model.Field.minusOneEncoding (montOps P) := List.take_of_length_le (by omega)
    rw [t1, t2] at hc
    have hc' : Model.Utils.constantTimeCmp (some v)
        (some (Model.Field.minusOneEncoding (montOps P))) 32
          = .ok (lexCmp v (Model.Field.minusOneEncoding (montOps P))) := hc
    have hgt := lexCmp_gt_iff_toNat v (Model.Field.minusOneEncoding (montOps P)) (by omega)
    rw [hv1] at hgt
    have hrange := UtilsCmp.lexCmp_range v (Model.Field.minusOneEncoding (montOps P))
    simp only [hl, ne_eq, not_true_eq_false, if_false, hc', true_and]
    have hres : (montOps P).toMontgomery ((montOps P).fromBytesLE v.reverse)
        = Bytes.toNatBE v * R % P.m := by
      simp [montOps]
    rw [hres]
    generalize lexCmp v (Model.Field.minusOneEncoding (montOps P)) = c at *
    by_cases hlt : Bytes.toNatBE v < P.m
    · have : ¬ c > 0 := by
        intro hc0
        have : c = 1 := by omega
        have := hgt.mp this
        omega
      simp only [this, if_false, hlt, if_true]
    · have : c > 0 := by
        have : c = 1 := hgt.mpr (by omega)
        omega
      simp only [this, if_true, hlt, if_false]
  · simp [hl]

/-- `SM2ScalarElement.SetBytes` is now literally the code of `SM2Element.SetBytes` -/
theorem scalarSetBytes_eq_setBytes {α : Type} (F : Model.Field.FieldOps α) (v : Bytes) :
    Model.Field.scalarSetBytes F v = Model.Field.setBytes F v := rfl

theorem bytes_setBytes (hm : 1 < P.m) (hm256 : P.m ≤ 2 ^ 256) (hr : (R * P.rinv) % P.m = 1)
    (v : Bytes) (x : Nat) (h : Model.Field.setBytes (montOps P) v = .ok x) :
    Model.Field.bytes (montOps P) x = v := by
  rw [setBytes_spec P hm hm256 hr] at h
  by_cases hc : v.length = 32 ∧ Bytes.toNatBE v < P.m
  · rw [if_pos hc] at h
    injection h with h
    rw [bytes_montOps, ← h, mont_cancel P hr, Nat.mod_eq_of_lt hc.2, ← hc.1]
    exact ofNatBE_toNatBE v
  · rw [if_neg hc] at h; cases h

theorem setBytes_bytes (hm : 1 < P.m) (hm256 : P.m ≤ 2 ^ 256) (hr : (R * P.rinv) % P.m = 1)
    (x : Nat) (hx : x < P.m) :
    Model.Field.setBytes (montOps P) (Model.Field.bytes (montOps P) x) = .ok x := by
  have hm0 : 0 < P.m := by omega
  have hlt : x * P.rinv % P.m < P.m := Nat.mod_lt _ hm0
  have hval : Bytes.toNatBE (Bytes.ofNatBE 32 (x * P.rinv % P.m)) = x * P.rinv % P.m :=
    toNatBE_ofNatBE _ _ (by rw [pow_256_32]; omega)
  rw [setBytes_spec P hm hm256 hr, bytes_montOps, ofNatBE_length, hval,
    if_pos ⟨rfl, hlt⟩, mont_cancel' P hr, Nat.mod_eq_of_lt hx]

/-! ### corollaries in the words of the property -/

theorem bytes_length (x : Nat) : (Model.Field.bytes (montOps P) x).length = 32 := by
  rw [bytes_montOps, ofNatBE_length]

/-- the encoding is canonical: its value is the (reduced) field element, below the modulus -/
theorem bytes_value (hm : 1 < P.m) (hm256 : P.m ≤ 2 ^ 256) (x : Nat) :
    Bytes.toNatBE (Model.Field.bytes (montOps P) x) = x * P.rinv % P.m ∧
      Bytes.toNatBE (Model.Field.bytes (montOps P) x) < P.m := by
  have hlt : x * P.rinv % P.m < P.m := Nat.mod_lt _ (by omega)
  have hval : Bytes.toNatBE (Bytes.ofNatBE 32 (x * P.rinv % P.m)) = x * P.rinv % P.m :=
    toNatBE_ofNatBE _ _ (by rw [pow_256_32]; omega)
  rw [bytes_montOps, hval]
  exact ⟨rfl, hlt⟩

theorem setBytes_ne_panic (hm : 1 < P.m) (hm256 : P.m ≤ 2 ^ 256) (hr : (R * P.rinv) % P.m = 1)
    (v : Bytes) : Model.Field.setBytes (montOps P) v ≠ .panic := by
  rw [setBytes_spec P hm hm256 hr]
  split <;> simp

/-- decoding rejects any string whose value is not below the modulus (and any wrong length) -/
theorem setBytes_rejects (hm : 1 < P.m) (hm256 : P.m ≤ 2 ^ 256) (hr : (R * P.rinv) % P.m = 1)
    (v : Bytes) (h : v.length ≠ 32 ∨ P.m ≤ Bytes.toNatBE v) :
    Model.Field.setBytes (montOps P) v = .err := by
  rw [setBytes_spec P hm hm256 hr, if_neg]
  intro hc; omega

/-- an accepted decoding is a reduced Montgomery residue -/
theorem setBytes_lt (hm : 1 < P.m) (hm256 : P.m ≤ 2 ^ 256) (hr : (R * P.rinv) % P.m = 1)
    (v : Bytes) (x : Nat) (h : Model.Field.setBytes (montOps P) v = .ok x) : x < P.m := by
  rw [setBytes_spec P hm hm256 hr] at h
  split at h
  · injection h with h; rw [← h]; exact Nat.mod_lt _ (by omega)
  · cases h

end Mont

/-! ### d. MultiSelect, Select -/

/-- one iteration of the loop of `MultiSelect` -/
def msStep (pre : List (List Nat)) (bits : Nat) (out : List Nat) (i : Nat) : List Nat :=
  let cond := (byteEq i (bits + 255)) * (18446744073709551616 - 1) % 18446744073709551616
  let e := pre.getD i []
  [out.getD 0 0 ||| (e.getD 0 0 &&& cond), out.getD 1 0 ||| (e.getD 1 0 &&& cond),
   out.getD 2 0 ||| (e.getD 2 0 &&& cond), out.getD 3 0 ||| (e.getD 3 0 &&& cond)]

theorem multiSelectLimbs_eq_foldl (pre : List (List Nat)) (width bits : Nat) (fallback : List Nat)
    (fallbackCond : Nat) :
    multiSelectLimbs pre width bits fallback fallbackCond =
      (List.range width).foldl (msStep pre bits)
        [fallback.getD 0 0 &&& (18446744073709551615 - (fallbackCond * 18446744073709551615) % 18446744073709551616),
         fallback.getD 1 0 &&& (18446744073709551615 - (fallbackCond * 18446744073709551615) % 18446744073709551616),
         fallback.getD 2 0 &&& (18446744073709551615 - (fallbackCond * 18446744073709551615) % 18446744073709551616),
         fallback.getD 3 0 &&& (18446744073709551615 - (fallbackCond * 18446744073709551615) % 18446744073709551616)] := rfl

theorem msStep_miss (pre : List (List Nat)) (bits i a b c d : Nat)
    (h : i % 256 ≠ (bits + 255) % 256) : msStep pre bits [a, b, c, d] i = [a, b, c, d] := by
  simp [msStep, byteEq, h]

theorem msStep_hit (pre : List (List Nat)) (bits i a b c d : Nat)
    (h : i % 256 = (bits + 255) % 256) :
    msStep pre bits [a, b, c, d] i =
      [a ||| ((pre.getD i []).getD 0 0 &&& 18446744073709551615),
       b ||| ((pre.getD i []).getD 1 0 &&& 18446744073709551615),
       c ||| ((pre.getD i []).getD 2 0 &&& 18446744073709551615),
       d ||| ((pre.getD i []).getD 3 0 &&& 18446744073709551615)] := by
  simp [msStep, byteEq, h]

theorem and_mask64 (x : Nat) (h : x < 2 ^ 64) : x &&& 18446744073709551615 = x := by
  have : (18446744073709551615 : Nat) = 2 ^ 64 - 1 := by decide
  rw [this, Nat.and_two_pow_sub_one_eq_mod, Nat.mod_eq_of_lt h]

/-- loop invariant: after the first `k ≤ 256` entries the accumulator is the start value, or-ed
    with the entry number `t = (bits + 255) % 256` once that entry has been passed -/
theorem msFold (pre : List (List Nat)) (bits a b c d : Nat) (k : Nat) (hk : k ≤ 256) :
    (List.range k).foldl (msStep pre bits) [a, b, c, d] =
      if (bits + 255) % 256 < k then
        [a ||| ((pre.getD ((bits + 255) % 256) []).getD 0 0 &&& 18446744073709551615),
         b ||| ((pre.getD ((bits + 255) % 256) []).getD 1 0 &&& 18446744073709551615),
         c ||| ((pre.getD ((bits + 255) % 256) []).getD 2 0 &&& 18446744073709551615),
         d ||| ((pre.getD ((bits + 255) % 256) []).getD 3 0 &&& 18446744073709551615)]
      else [a, b, c, d] := by
  induction k with
  | zero => simp
  | succ k ih =>
    rw [List.range_succ, List.foldl_append, ih (by omega), List.foldl_cons, List.foldl_nil]
    have hkm : k % 256 = k := Nat.mod_eq_of_lt (by omega)
    by_cases h1 : (bits + 255) % 256 < k
    · have h2 : (bits + 255) % 256 < k + 1 := by omega
      rw [if_pos h1, if_pos h2, msStep_miss _ _ _ _ _ _ _ (by omega)]
    · by_cases h2 : (bits + 255) % 256 = k
      · rw [if_neg h1, if_pos (by omega), msStep_hit _ _ _ _ _ _ _ (by omega), h2]
      · rw [if_neg h1, if_neg (by omega), msStep_miss _ _ _ _ _ _ _ (by omega)]

/-- the four limbs of a list (missing ones read as 0) -/
def limbs4 (e : List Nat) : List Nat := [e.getD 0 0, e.getD 1 0, e.getD 2 0, e.getD 3 0]

/-- (i) `fallbackCond = 1` (the caller's `1 - ByteEq(bits, 0)` for `bits ≠ 0`): entry `bits - 1` -/
theorem multiSelectLimbs_hit (pre : List (List Nat)) (width bits : Nat) (fallback : List Nat)
    (hb1 : 1 ≤ bits) (hbw : bits ≤ width) (hw : width ≤ 255)
    (hlim : ∀ j, j < 4 → (pre.getD (bits - 1) []).getD j 0 < 2 ^ 64) :
    multiSelectLimbs pre width bits fallback 1 = limbs4 (pre.getD (bits - 1) []) := by
  rw [multiSelectLimbs_eq_foldl, msFold _ _ _ _ _ _ _ (by omega)]
  have ht : (bits + 255) % 256 = bits - 1 := by omega
  rw [ht, if_pos (by omega)]
  simp only [limbs4, and_mask64 _ (hlim 0 (by omega)), and_mask64 _ (hlim 1 (by omega)),
    and_mask64 _ (hlim 2 (by omega)), and_mask64 _ (hlim 3 (by omega))]
  simp

/-- (ii) `bits = 0`, `fallbackCond = 0`: the fallback -/
theorem multiSelectLimbs_fallback (pre : List (List Nat)) (width : Nat) (fallback : List Nat)
    (hw : width ≤ 255) (hlim : ∀ j, j < 4 → fallback.getD j 0 < 2 ^ 64) :
    multiSelectLimbs pre width 0 fallback 0 = limbs4 fallback := by
  rw [multiSelectLimbs_eq_foldl, msFold _ _ _ _ _ _ _ (by omega)]
  rw [if_neg (by omega)]
  simp only [limbs4, Nat.zero_mul, Nat.zero_mod, Nat.sub_zero, and_mask64 _ (hlim 0 (by omega)),
    and_mask64 _ (hlim 1 (by omega)), and_mask64 _ (hlim 2 (by omega)),
    and_mask64 _ (hlim 3 (by omega))]

/-- (iii) `bits = 0` but `fallbackCond = 1`: nothing is selected -/
theorem multiSelectLimbs_none (pre : List (List Nat)) (width : Nat) (fallback : List Nat)
    (hw : width ≤ 255) :
    multiSelectLimbs pre width 0 fallback 1 = [0, 0, 0, 0] := by
  rw [multiSelectLimbs_eq_foldl, msFold _ _ _ _ _ _ _ (by omega)]
  rw [if_neg (by omega)]
  simp

theorem multiSelectLimbs_spec (pre : List (List Nat)) (width bits : Nat) (fallback : List Nat)
    (fallbackCond : Nat) (hw : width ≤ 255) :
    (fallbackCond = 1 → 1 ≤ bits → bits ≤ width →
      (∀ j, j < 4 → (pre.getD (bits - 1) []).getD j 0 < 2 ^ 64) →
      multiSelectLimbs pre width bits fallback fallbackCond
        = [(pre.getD (bits - 1) []).getD 0 0, (pre.getD (bits - 1) []).getD 1 0,
           (pre.getD (bits - 1) []).getD 2 0, (pre.getD (bits - 1) []).getD 3 0]) ∧
    (fallbackCond = 0 → bits = 0 → (∀ j, j < 4 → fallback.getD j 0 < 2 ^ 64) →
      multiSelectLimbs pre width bits fallback fallbackCond
        = [fallback.getD 0 0, fallback.getD 1 0, fallback.getD 2 0, fallback.getD 3 0]) ∧
    (fallbackCond = 1 → bits = 0 →
      multiSelectLimbs pre width bits fallback fallbackCond = [0, 0, 0, 0]) := by
  refine ⟨?_, ?_, ?_⟩
  · intro hc hb1 hbw hlim; subst hc
    exact multiSelectLimbs_hit pre width bits fallback hb1 hbw hw hlim
  · intro hc hb hlim; subst hc; subst hb
    exact multiSelectLimbs_fallback pre width fallback hw hlim
  · intro hc hb; subst hc; subst hb
    exact multiSelectLimbs_none pre width fallback hw

theorem select_spec {α : Type} (a b : α) (cond : Nat) :
    (cond = 1 → Model.Field.select a b cond = a) ∧ (cond = 0 → Model.Field.select a b cond = b) := by
  constructor
  · intro h; subst h; simp [Model.Field.select]
  · intro h; subst h; simp [Model.Field.select]

/-! ### e. limbs -/

theorem natToLimbs_length (v : Nat) : (natToLimbs v).length = 4 := rfl

theorem natToLimbs_lt (v : Nat) : ∀ x ∈ natToLimbs v, x < 2 ^ 64 := by
  intro x hx
  simp only [natToLimbs, List.mem_cons, List.not_mem_nil, or_false] at hx
  have h64 : 0 < 2 ^ 64 := by decide
  rcases hx with h | h | h | h <;> subst h <;> exact Nat.mod_lt _ h64

theorem limbs_roundtrip (v : Nat) (h : v < 2 ^ 256) : limbsToNat (natToLimbs v) = v := by
  simp only [limbsToNat, natToLimbs, List.getD_cons_zero, List.getD_cons_succ, Nat.reducePow] at h ⊢
  omega

/-- the converse: four limbs below `2^64` are recovered from their value -/
theorem natToLimbs_limbsToNat (a b c d : Nat) (ha : a < 2 ^ 64) (hb : b < 2 ^ 64) (hc : c < 2 ^ 64)
    (hd : d < 2 ^ 64) : natToLimbs (limbsToNat [a, b, c, d]) = [a, b, c, d] := by
  simp only [limbsToNat, natToLimbs, List.getD_cons_zero, List.getD_cons_succ, Nat.reducePow,
    List.cons.injEq, and_true] at ha hb hc hd ⊢
  omega

end SMGo.Proofs.FiatWrappers

#print axioms SMGo.Proofs.FiatWrappers.toNatBE_ofNatBE
#print axioms SMGo.Proofs.FiatWrappers.ofNatBE_toNatBE
#print axioms SMGo.Proofs.FiatWrappers.bytes_montOps
#print axioms SMGo.Proofs.FiatWrappers.minusOneEncoding_montOps
#print axioms SMGo.Proofs.FiatWrappers.setBytes_spec
#print axioms SMGo.Proofs.FiatWrappers.scalarSetBytes_eq_setBytes
#print axioms SMGo.Proofs.FiatWrappers.bytes_setBytes
#print axioms SMGo.Proofs.FiatWrappers.setBytes_bytes
#print axioms SMGo.Proofs.FiatWrappers.multiSelectLimbs_spec
#print axioms SMGo.Proofs.FiatWrappers.select_spec
#print axioms SMGo.Proofs.FiatWrappers.limbs_roundtrip
#print axioms SMGo.Proofs.FiatWrappers.natToLimbs_limbsToNat
#print axioms SMGo.Proofs.FiatWrappers.bytes_value
#print axioms SMGo.Proofs.FiatWrappers.setBytes_ne_panic
#print axioms SMGo.Proofs.FiatWrappers.setBytes_rejects
#print axioms SMGo.Proofs.FiatWrappers.setBytes_lt
#print axioms SMGo.Proofs.FiatWrappers.natToLimbs_lt
