/-
  The arm64 listing of `expandKeyAsm` (sm4/asm_arm64.s) by symbolic execution of the arm64 value interpreter
  (UNVALIDATED transcription of the Arm ARM): one `expandSubRound` = CK load, getXor, tableLookupX4,
  transformLPrime, final VEOR, two stores (forwards into `enc`, backwards into `dec`); the 32-round invariant; the
  prologue (loadSBox, pointers, FK, the key words with REV32, three element moves).
  The specification side (`eiterN`, `estepN`, `encAt`, `decAt`, `ckN`, `fkN`) is that of the amd64 proof
  (SMGo/Proofs/ISAValExpand.lean): the DATA symbols `CK<>`, `FK<>` of the two assembly files are equal.
-/
import SMGo.Proofs.ISAValArm64Spec
import SMGo.Proofs.ISAValExpandSpec
namespace SMGo.Proofs.ISAValArm64
open SMGo.Model.ISAValArm64 SMGo.Model.ISA SMGo
open SMGo.Model.ISAVal (lane lanes unlanes map1 map2 rotl32 Region readMem writeMem lookup regionBase)
open SMGo.Proofs.ISAVal (lane_lt tauN list32 list16 beWord lane_map1 lanes84 lanes_length unlanes_cons unlanes_nil
  L'N T'N eroundF estepN eiterN ckN fkN encAt decAt encAt_snoc decAt_snoc encAt_length decAt_length ck_word_lt
  lane_unlanes)

theorem ck_same : Gen.AsmData.arm64_CK = Gen.AsmData.amd64_CK := by decide +kernel
theorem fk_same : Gen.AsmData.arm64_FK = Gen.AsmData.amd64_FK := by decide +kernel
theorem wordsMem_same : wordsMem = SMGo.Model.ISAVal.wordsMem := rfl
theorem memWords_same : memWords = SMGo.Model.ISAVal.memWords := rfl

/-! ### `transformLPrime` and the round block -/

/-- `transformLPrime(U0)` -/
def transformL'Code : List DInstr :=
  [ins .VSHL [.imm 13, R 8, R 13] s2, ins .VSRI [.imm 19, R 8, R 13] s2,
   ins .VSHL [.imm 23, R 8, R 14] s2, ins .VSRI [.imm 9, R 8, R 14] s2,
   ins .VEOR [R 13, R 14, R 13] b3,
   ins .VEOR [R 13, R 8, R 8] b3]

/-- `expandSubRound` without its load and its stores -/
def eSubCode (A B C D : Nat) : List DInstr :=
  xorLookupCode B C D ++ transformL'Code ++ [ins .VEOR [R 8, R A, R A] b3]

theorem lane_rot13 (i x : Nat) (hi : i < 4) : lane 32 i (vsriS 19 x (vshlS 13 x)) = rotl32 13 (lane 32 i x) :=
  lane_rot 13 i x hi (by decide) (by decide)
theorem lane_rot23 (i x : Nat) (hi : i < 4) : lane 32 i (vsriS 9 x (vshlS 23 x)) = rotl32 23 (lane 32 i x) :=
  lane_rot 23 i x hi (by decide) (by decide)

structure ESubPost (A B C D : Nat) (s s' : State) : Prop where
  gpr : s'.gpr = s.gpr
  lenV : s'.vec.length = 32
  mem : s'.mem = s.mem
  syms : s'.syms = s.syms
  frame : s'.frame = s.frame
  vB : vreg s' B = vreg s B
  vC : vreg s' C = vreg s C
  vD : vreg s' D = vreg s D
  tab : s'.vec.drop 15 = s.vec.drop 15
  vA : ∀ j, j < 4 → lane 32 j (vreg s' A) =
    eroundF (lane 32 j (vreg s A)) (lane 32 j (vreg s B)) (lane 32 j (vreg s C)) (lane 32 j (vreg s D))
      (lane 32 j (vreg s 12))

attribute [local irreducible] execD

set_option maxRecDepth 10000 in
set_option maxHeartbeats 1000000 in
theorem eSub_spec (A B C D : Nat)
    (hperm : (A = 0 ∧ B = 1 ∧ C = 2 ∧ D = 3) ∨ (A = 1 ∧ B = 2 ∧ C = 3 ∧ D = 0) ∨
             (A = 2 ∧ B = 3 ∧ C = 0 ∧ D = 1) ∨ (A = 3 ∧ B = 0 ∧ C = 1 ∧ D = 2))
    (s : State) (hV : s.vec.length = 32) (htab : s.vec.drop 15 = tabs) :
    ∃ s', execList (eSubCode A B C D) s = .ok s' ∧ ESubPost A B C D s s' := by
  obtain ⟨gpr, vec, mem, syms, frame⟩ := s
  simp only at hV htab
  obtain ⟨b0, b1, b2, b3, b4, b5, b6, b7, b8, b9, b10, b11, b12, b13, b14, b15, b16, b17, b18, b19, b20, b21, b22, b23, b24, b25, b26, b27, b28, b29, b30, b31, rfl⟩ := list32 vec hV
  simp only [List.drop_succ_cons, List.drop_zero, tabs, List.cons.injEq, and_true] at htab
  obtain ⟨rfl, rfl, rfl, rfl, rfl, rfl, rfl, rfl, rfl, rfl, rfl, rfl, rfl, rfl, rfl, rfl, rfl⟩ := htab
  rcases hperm with ⟨rfl, rfl, rfl, rfl⟩ | ⟨rfl, rfl, rfl, rfl⟩ | ⟨rfl, rfl, rfl, rfl⟩ | ⟨rfl, rfl, rfl, rfl⟩
  all_goals
    apply Exists.intro
    apply And.intro
    · unfold eSubCode xorLookupCode transformL'Code
      simp only [List.cons_append, List.nil_append]
      astep; astep; astep; astep; astep; astep; astep; astep; astep; astep
      astep; astep; astep; astep; astep; astep
      astep
      exact execList_nil _
    · refine ⟨rfl, rfl, rfl, rfl, rfl, ?_, ?_, ?_, ?_, ?_⟩
      · simp only [vreg, List.getD_cons_succ, List.getD_cons_zero]
      · simp only [vreg, List.getD_cons_succ, List.getD_cons_zero]
      · simp only [vreg, List.getD_cons_succ, List.getD_cons_zero]
      · simp only [List.drop_succ_cons, List.drop_zero]
      intro j hj
      have h128 : 32 * (j + 1) ≤ 128 := by omega
      simp only [vreg, List.getD_cons_succ, List.getD_cons_zero, Int.reduceToNat]
      simp only [lane_veor 32 j _ _ h128, lane_rot13 j _ hj, lane_rot23 j _ hj, laneJ_lookup j _ hj]
      simp only [eroundF, T'N, L'N]
      ac_rfl

/-! ### CK load and the two stores -/

def ckLoadCode : List DInstr := [ins .VLD1P [M 13 4, R 12] [.none, .S 0]]

theorem ckLoad_spec (s : State) (hG : s.gpr.length = 31) (hV : s.vec.length = 32) (bs : List Nat)
    (hload : readMem s.mem (greg s 13) 4 = .ok bs) :
    execList ckLoadCode s = .ok { s with gpr := s.gpr.set 13 ((greg s 13 + 4) % 2 ^ 64),
                                         vec := s.vec.set 12 (setLaneS 0 (vreg s 12) (unlanes 8 bs)) } := by
  obtain ⟨gpr, vec, mem, syms, frame⟩ := s
  simp only at hG hV hload
  unfold ckLoadCode
  apply exec_step
  · exact execD_ld1p_lane (b := 13) (d := 12) (i := 0) (gb := gpr.getD 13 0) (dv := vec.getD 12 0) (bs := bs)
      (hi := by decide) (hb := getElem?_of_lt gpr 13 (by omega)) (hdv := getElem?_of_lt vec 12 (by omega))
      (hload := hload) ..
  rfl

/-- `saveKeys(R11, R12, A)` -/
def eStoreCode (A : Nat) : List DInstr :=
  [ins .VST1P [R A, M 11 4] [.S 0, .none],
   ins .VST1 [R A, M 12 0] [.S 0, .none],
   ins .SUB [.imm 4, G 12, G 12] [.none, .none, .none]]

theorem eStore_spec (A : Nat) (hA : A < 4) (s : State) (hG : s.gpr.length = 31) (hV : s.vec.length = 32)
    (m1 m2 : List Region)
    (hw1 : writeMem s.mem (greg s 11) (lanes 8 4 (lane 32 0 (vreg s A))) = .ok m1)
    (hw2 : writeMem m1 (greg s 12) (lanes 8 4 (lane 32 0 (vreg s A))) = .ok m2) :
    execList (eStoreCode A) s
      = .ok { s with gpr := (s.gpr.set 11 ((greg s 11 + 4) % 2 ^ 64)).set 12 ((greg s 12 + 2 ^ 64 - 4) % 2 ^ 64),
                     mem := m2 } := by
  obtain ⟨gpr, vec, mem, syms, frame⟩ := s
  simp only at hG hV hw1 hw2
  have h12 : (gpr.set 11 ((gpr.getD 11 0 + 4) % 2 ^ 64))[12]? = some (gpr.getD 12 0) := by
    rw [List.getElem?_set_ne (by decide)]; exact getElem?_of_lt gpr 12 (by omega)
  unfold eStoreCode
  apply exec_step
  · exact execD_st1p_lane (b := 11) (n := A) (i := 0) (gb := gpr.getD 11 0) (nv := vec.getD A 0) (mem' := m1)
      (hi := by decide) (hb := getElem?_of_lt gpr 11 (by omega)) (hn := getElem?_of_lt vec A (by omega))
      (hstore := hw1) ..
  apply exec_step
  · exact execD_st1_lane (b := 12) (n := A) (i := 0) (gb := gpr.getD 12 0) (nv := vec.getD A 0) (mem' := m2)
      (hi := by decide) (hb := h12) (hn := getElem?_of_lt vec A (by omega)) (hstore := hw2) ..
  apply exec_step
  · exact execD_sub (imm := 4) (n := 12) (d := 12) (x := gpr.getD 12 0) (hi := by decide) (hn := h12) (hd0 := h12) ..
  rfl

/-- one round of the key schedule: `expandSubRound(A, B, C, D, R11, R12)` -/
def eroundCode (A B C D : Nat) : List DInstr := ckLoadCode ++ eSubCode A B C D ++ eStoreCode A

def eroundI (i : Nat) : List DInstr := eroundCode (sreg i 0) (sreg i 1) (sreg i 2) (sreg i 3)

/-! ### memory of `expandKeyState` -/

def emem (key e d : List Nat) : List Region :=
  [⟨"SBox", Gen.AsmData.arm64_SBox, false⟩, ⟨"FK", Gen.AsmData.arm64_FK, false⟩, ⟨"CK", Gen.AsmData.arm64_CK, false⟩,
   ⟨"mk", key, false⟩, ⟨"enc", e, true⟩, ⟨"dec", d, true⟩]

theorem eks_mem (g v key e d : List Nat) : (expandKeyState g v key e d).mem = emem key e d := rfl

theorem emem_read_ck (key e d : List Nat) (i : Nat) (hi : i < 32) :
    readMem (emem key e d) (regionBase 2 + 4 * i) 4 = .ok ((Gen.AsmData.amd64_CK.drop (4 * i)).take 4) := by
  rw [read_region (emem key e d) 2 ⟨"CK", Gen.AsmData.arm64_CK, false⟩ (4 * i) 4 rfl
    (by rw [show (Region.bytes ⟨"CK", Gen.AsmData.arm64_CK, false⟩).length = 128 from by decide +kernel]; omega)
    (by omega), ck_same]

theorem emem_write_enc (key e d : List Nat) (off : Nat) (bs : List Nat) (hoff : off + bs.length ≤ e.length)
    (hlt : off < 2 ^ 32) :
    writeMem (emem key e d) (regionBase 4 + off) bs
      = .ok (emem key (e.take off ++ bs ++ e.drop (off + bs.length)) d) :=
  write_region (emem key e d) 4 "enc" e off bs rfl hoff hlt

theorem emem_write_dec (key e d : List Nat) (off : Nat) (bs : List Nat) (hoff : off + bs.length ≤ d.length)
    (hlt : off < 2 ^ 32) :
    writeMem (emem key e d) (regionBase 5 + off) bs
      = .ok (emem key e (d.take off ++ bs ++ d.drop (off + bs.length))) :=
  write_region (emem key e d) 5 "dec" d off bs rfl hoff hlt

/-! ### the invariant between two rounds -/

structure ReadyE (key enc0 dec0 : List Nat) (i : Nat) (X : Nat × Nat × Nat × Nat) (ks : List Nat) (s : State) : Prop where
  lenG : s.gpr.length = 31
  lenV : s.vec.length = 32
  lks : ks.length = i
  g13 : greg s 13 = regionBase 2 + 4 * i
  g11 : greg s 11 = regionBase 4 + 4 * i
  g12 : greg s 12 + 4 * i = regionBase 5 + 124
  tab : s.vec.drop 15 = tabs
  x0 : lane 32 0 (vreg s (sreg i 0)) = X.1
  x1 : lane 32 0 (vreg s (sreg i 1)) = X.2.1
  x2 : lane 32 0 (vreg s (sreg i 2)) = X.2.2.1
  x3 : lane 32 0 (vreg s (sreg i 3)) = X.2.2.2
  mem : s.mem = emem key (encAt enc0 ks) (decAt dec0 ks)

theorem rb2 : regionBase 2 = 12884901888 := by decide
theorem rb4 : regionBase 4 = 21474836480 := by decide
theorem rb5 : regionBase 5 = 25769803776 := by decide

theorem readyE_step (key enc0 dec0 : List Nat) (henc : enc0.length = 128) (hdec : dec0.length = 128)
    (i : Nat) (hi : i < 32) (X : Nat × Nat × Nat × Nat) (ks : List Nat) (s : State)
    (h : ReadyE key enc0 dec0 i X ks s) :
    ∃ s', execList (eroundI i) s = .ok s' ∧
      ReadyE key enc0 dec0 (i + 1) (estepN X (ckN i)) (ks ++ [(estepN X (ckN i)).2.2.2]) s' := by
  have hks := h.lks
  have hg12 : greg s 12 = regionBase 5 + (124 - 4 * i) := by have := h.g12; omega
  -- CK load
  have hk := ckLoad_spec s h.lenG h.lenV ((Gen.AsmData.amd64_CK.drop (4 * i)).take 4)
    (by rw [h.mem, h.g13]; exact emem_read_ck _ _ _ i hi)
  generalize hs1 : ({ s with gpr := s.gpr.set 13 ((greg s 13 + 4) % 2 ^ 64),
                             vec := s.vec.set 12 (setLaneS 0 (vreg s 12)
                               (unlanes 8 ((Gen.AsmData.amd64_CK.drop (4 * i)).take 4))) } : State) = s1 at hk
  have hv1 : s1.vec = s.vec.set 12 (setLaneS 0 (vreg s 12) (unlanes 8 ((Gen.AsmData.amd64_CK.drop (4 * i)).take 4))) := by
    rw [← hs1]
  have hg1 : s1.gpr = s.gpr.set 13 ((greg s 13 + 4) % 2 ^ 64) := by rw [← hs1]
  have hm1 : s1.mem = s.mem := by rw [← hs1]
  have hne : ∀ n, n ≠ 12 → vreg s1 n = vreg s n := fun n hn => by
    unfold vreg; rw [hv1]; exact getD_set_ne _ _ _ _ hn
  have h12 : lane 32 0 (vreg s1 12) = ckN i := by
    unfold vreg; rw [hv1, getD_set_eq _ _ _ (by rw [h.lenV]; decide)]
    exact lane0_setLaneS0 _ _ (ck_word_lt i)
  have htab1 : s1.vec.drop 15 = tabs := by
    rw [hv1, List.drop_set_of_lt (by decide)]; exact h.tab
  -- the round function
  obtain ⟨s2, hrun2, hp⟩ := eSub_spec (sreg i 0) (sreg i 1) (sreg i 2) (sreg i 3) (sreg_perm i) s1
    (by rw [hv1, List.length_set]; exact h.lenV) htab1
  have hlt := fun j => sreg_lt i j
  have hA : lane 32 0 (vreg s2 (sreg i 0)) = (estepN X (ckN i)).2.2.2 := by
    rw [hp.vA 0 (by decide), hne _ (by have := hlt 0; omega), hne _ (by have := hlt 1; omega),
      hne _ (by have := hlt 2; omega), hne _ (by have := hlt 3; omega), h12, h.x0, h.x1, h.x2, h.x3]
    rfl
  -- the two stores
  have hG2 : s2.gpr.length = 31 := by rw [hp.gpr, hg1, List.length_set]; exact h.lenG
  have hg11_2 : greg s2 11 = regionBase 4 + 4 * i := by
    unfold greg; rw [hp.gpr, hg1, getD_set_ne _ _ _ _ (by decide)]; exact h.g11
  have hg12_2 : greg s2 12 = regionBase 5 + (124 - 4 * i) := by
    unfold greg; rw [hp.gpr, hg1, getD_set_ne _ _ _ _ (by decide)]; exact hg12
  have hw1 : writeMem s2.mem (greg s2 11) (lanes 8 4 (lane 32 0 (vreg s2 (sreg i 0))))
      = .ok (emem key ((encAt enc0 ks).take (4 * i) ++ lanes 8 4 (lane 32 0 (vreg s2 (sreg i 0)))
          ++ (encAt enc0 ks).drop (4 * i + (lanes 8 4 (lane 32 0 (vreg s2 (sreg i 0)))).length)) (decAt dec0 ks)) := by
    rw [hp.mem, hm1, h.mem, hg11_2]
    exact emem_write_enc _ _ _ (4 * i) _ (by rw [encAt_length enc0 ks henc (by omega), lanes_length]; omega) (by omega)
  have hw2 : writeMem (emem key ((encAt enc0 ks).take (4 * i) ++ lanes 8 4 (lane 32 0 (vreg s2 (sreg i 0)))
          ++ (encAt enc0 ks).drop (4 * i + (lanes 8 4 (lane 32 0 (vreg s2 (sreg i 0)))).length)) (decAt dec0 ks))
        (greg s2 12) (lanes 8 4 (lane 32 0 (vreg s2 (sreg i 0))))
      = .ok (emem key ((encAt enc0 ks).take (4 * i) ++ lanes 8 4 (lane 32 0 (vreg s2 (sreg i 0)))
          ++ (encAt enc0 ks).drop (4 * i + (lanes 8 4 (lane 32 0 (vreg s2 (sreg i 0)))).length))
          ((decAt dec0 ks).take (124 - 4 * i) ++ lanes 8 4 (lane 32 0 (vreg s2 (sreg i 0)))
          ++ (decAt dec0 ks).drop (124 - 4 * i + (lanes 8 4 (lane 32 0 (vreg s2 (sreg i 0)))).length))) := by
    rw [hg12_2]
    exact emem_write_dec _ _ _ (124 - 4 * i) _ (by rw [decAt_length dec0 ks hdec (by omega), lanes_length]; omega) (by omega)
  have hst := eStore_spec (sreg i 0) (hlt 0) s2 hG2 hp.lenV _ _ hw1 hw2
  refine ⟨_, execList_append_ok (execList_append_ok hk hrun2) hst, ?_⟩
  have hgs : ∀ n, n ≠ 11 → n ≠ 12 → n ≠ 13 →
      ((s2.gpr.set 11 ((greg s2 11 + 4) % 2 ^ 64)).set 12 ((greg s2 12 + 2 ^ 64 - 4) % 2 ^ 64)).getD n 0 = greg s n := by
    intro n h11 h12' h13
    rw [getD_set_ne _ _ _ _ h12', getD_set_ne _ _ _ _ h11, hp.gpr, hg1, getD_set_ne _ _ _ _ h13]; rfl
  constructor
  · simp only [List.length_set]; exact hG2
  · exact hp.lenV
  · simp [hks]
  · show ((s2.gpr.set 11 _).set 12 _).getD 13 0 = _
    rw [getD_set_ne _ _ _ _ (by decide), getD_set_ne _ _ _ _ (by decide), hp.gpr, hg1,
      getD_set_eq _ _ _ (by rw [h.lenG]; decide), h.g13, Nat.mod_eq_of_lt (by rw [rb2]; omega)]
    omega
  · show ((s2.gpr.set 11 _).set 12 _).getD 11 0 = _
    rw [getD_set_ne _ _ _ _ (by decide), getD_set_eq _ _ _ (by rw [hG2]; decide), hg11_2,
      Nat.mod_eq_of_lt (by rw [rb4]; omega)]
    omega
  · show ((s2.gpr.set 11 _).set 12 _).getD 12 0 + 4 * (i + 1) = _
    rw [getD_set_eq _ _ _ (by rw [List.length_set, hG2]; decide), hg12_2, rb5]
    omega
  · show s2.vec.drop 15 = tabs
    rw [hp.tab]; exact htab1
  · show lane 32 0 (vreg s2 (sreg (i + 1) 0)) = _
    rw [sreg_succ, hp.vB, hne _ (by have := hlt 1; omega)]; exact h.x1
  · show lane 32 0 (vreg s2 (sreg (i + 1) 1)) = _
    rw [sreg_succ, hp.vC, hne _ (by have := hlt 2; omega)]; exact h.x2
  · show lane 32 0 (vreg s2 (sreg (i + 1) 2)) = _
    rw [sreg_succ, hp.vD, hne _ (by have := hlt 3; omega)]; exact h.x3
  · show lane 32 0 (vreg s2 (sreg (i + 1) 3)) = _
    rw [sreg_succ3, hA]
  · show emem key _ _ = _
    rw [hA, ← hks, encAt_snoc, decAt_snoc dec0 ks _ hdec (by omega)]

/-- rounds 0 .. n-1 of the key schedule -/
def eroundsCode : Nat → List DInstr
  | 0 => []
  | n + 1 => eroundsCode n ++ eroundI n

theorem readyE_rounds (key enc0 dec0 : List Nat) (henc : enc0.length = 128) (hdec : dec0.length = 128)
    (X : Nat × Nat × Nat × Nat) (s : State) (h : ReadyE key enc0 dec0 0 X [] s) (n : Nat) (hn : n ≤ 32) :
    ∃ s', execList (eroundsCode n) s = .ok s' ∧ ReadyE key enc0 dec0 n (eiterN X n).1 (eiterN X n).2 s' := by
  induction n with
  | zero => exact ⟨s, rfl, h⟩
  | succ n ih =>
    obtain ⟨s1, hrun1, hr1⟩ := ih (by omega)
    obtain ⟨s2, hrun2, hr2⟩ := readyE_step key enc0 dec0 henc hdec n (by omega) _ _ s1 hr1
    exact ⟨s2, execList_append_ok hrun1 hrun2, hr2⟩

end SMGo.Proofs.ISAValArm64
