import SMGo.Proofs.ISAValOpenFinal
import SMGo.Proofs.ISAValInPlaceSeal
set_option linter.unusedSimpArgs false
namespace SMGo.Proofs.ISAVal
open SMGo SMGo.Model.ISAVal SMGo.Model.GCM SMGo.Proofs.GCM SMGo.Spec.GCM SMGo.Proofs.ISATouch
open SMGo.Model.ISA (Reg Opd Instr)

/-! ### `openAsm` in place -/

theorem openIP_mem (g v k rk : List Nat) (t : Nat) (ct nonce ur aad tmp : List Nat) (r0 : Nat) :
    (openStateInPlace g v k rk t ct nonce ur aad tmp r0).mem = fmem "cipher" false rk ct nonce ur aad tmp := rfl
theorem openIP_syms (g v k rk : List Nat) (t : Nat) (ct nonce ur aad tmp : List Nat) (r0 : Nat) :
    (openStateInPlace g v k rk t ct nonce ur aad tmp r0).syms = symTab := rfl
theorem openIP_frame (g v k rk : List Nat) (t : Nat) (ct nonce ur aad tmp : List Nat) (r0 : Nat) :
    (openStateInPlace g v k rk t ct nonce ur aad tmp r0).frame = openFrame 77309411328 t nonce ct aad r0 := rfl

/-- `openAsm`, instructions 0 … 1498, on the in-place entry state -/
theorem openIP_prefix (g v k rk : List Nat) (t : Nat) (ct nonce ur aad tmp : List Nat) (r0 : Nat)
    (hG : g.length = 16) (hV : v.length = 32) (hK : k.length = 8) (hrk : rk.length = 32) (hrkb : ∀ x ∈ rk, x < 2 ^ 32)
    (hnl : nonce.length < 2 ^ 32) (hnb : ∀ x ∈ nonce, x < 2 ^ 8) (hab : ∀ x ∈ aad, x < 2 ^ 8) (hall : aad.length < 2 ^ 32)
    (htmp : tmp.length = 32) :
    ∃ s5 N, N ≤ 34 * (nonce.length / 16) + 34 * (aad.length / 16) + 1700 ∧
      Reach openR 0 (openStateInPlace g v k rk t ct nonce ur aad tmp r0) 1499 s5 N ∧
      AfterPre (fun b => fmem "cipher" false rk ct nonce ur aad b) rk nonce aad (j0N rk nonce)
        81604378624 94489280512 90194313216 s5 ∧ s5.frame = (openStateInPlace g v k rk t ct nonce ur aad tmp r0).frame := by
  have e := fenv_of (openStateInPlace g v k rk t ct nonce ur aad tmp r0) "cipher" false rk ct nonce ur aad tmp (openIP_mem ..) (openIP_syms ..)
    (by simp [openStateInPlace, mkState, lookup]; rfl) (by simp [openStateInPlace, mkState, lookup]; rfl)
    (by simp [openStateInPlace, mkState, lookup]) (by simp [openStateInPlace, mkState, lookup]; rfl)
    (by simp [openStateInPlace, mkState, lookup]; rfl) (by simp [openStateInPlace, mkState, lookup])
    hrk hnl hall
  exact prefix_any openR open_prefix_slices ⟨open_lJ, open_sPreLabels, open_copyLabels⟩ open_j0Labels _ hG hV hK rk nonce aad _ _ _ e _
    (memFam_fmem "cipher" false rk ct nonce ur aad hrk hnl hall) tmp htmp (openIP_mem ..) hrk hrkb hnb (by omega) (by omega) hab
    (by omega) (by decide)

/-- **`openAsm` called IN PLACE = SP 800-38D Algorithm 5 over SM4**: if the specification rejects, the result slot is 0 and the
    array (ciphertext ‖ tag) is UNTOUCHED; otherwise the result slot is 1 and the array holds plaintext ‖ (the old tag bytes) -/
theorem openAsm_inplace_run (g v k rk : List Nat) (t : Nat) (ct nonce ur aad tmp : List Nat) (r0 : Nat)
    (hG : g.length = 16) (hV : v.length = 32) (hK : k.length = 8) (hrk : rk.length = 32) (hrkb : ∀ x ∈ rk, x < 2 ^ 32)
    (hnl : nonce.length < 2 ^ 32) (hnb : ∀ x ∈ nonce, x < 2 ^ 8) (hab : ∀ x ∈ aad, x < 2 ^ 8) (hall : aad.length < 2 ^ 32)
    (hcb : ∀ x ∈ ct, x < 2 ^ 8) (hcl : ct.length < 2 ^ 32) (ht : t ≤ 16) (htc : t ≤ ct.length) (htmp : tmp.length = 32) (hur : ur.length < 2 ^ 32) (fuel : Nat)
    (hfuel : 34 * (nonce.length / 16) + 34 * (aad.length / 16) + 34 * ((ct.length - t) / 16) + 700 * ((ct.length - t) / 256) + 7000 < fuel) :
    runOpen fuel (openStateInPlace g v k rk t ct nonce ur aad tmp r0)
      = .ok (match openGCM (encE rk) t (toB nonce) (toB ct) (toB aad) with
             | some p => (1, spliceAt ct 0 (p.map (·.toNat)))
             | none => (0, ct)) := by
  obtain ⟨s5, N5, hN5, r5, ap, hf5⟩ := openIP_prefix g v k rk t ct nonce ur aad tmp r0 hG hV hK hrk hrkb hnl hnb hab hall htmp
  have hrd : ∀ d b, d.length = ct.length → DataAt (fmem "cipher" false rk d nonce ur aad b) 77309411328 d := fun d b hd off n hn =>
    fmem_read_dst "cipher" false rk d nonce ur aad b off n hn (by omega)
  obtain ⟨s9, N9, hN9, r9, av⟩ := open_verdict_gen rk t ct nonce ur ct aad 77309411328 r0 hrk hnl hall hcb hcl ht htc
    (fun b _ => hrd ct b rfl) (by omega) _ s5 ap (hf5.trans (openIP_frame ..))
  obtain ⟨s', N, hN, r1, hres⟩ := open_after_verdict_gen rk t ct nonce ur ct aad 77309411328 r0 hrk hrkb hcb hcl ht htc (by omega) hcl _
    (j0N_length rk nonce) (j0N_bytes rk nonce hnb) s9 av
    (ladMem_inplace "cipher" false rk nonce ur aad (ct.take (ct.length - t)) ct.length hrk hcl hur (by rw [List.length_take]; omega))
    (fun b _ => SrcFrom.ofData (DataAt.take (hrd ct b rfl) _) 0) (by omega)
    ((ct.length - t) / 16 + 1) (fuelNeed_le16 _)
  have sRet : Slice openR (5556 + 2) [ins .RET [] 0] := Slice.right (a := [_, _]) (b := [_]) open_slices'.fin
  have hrun := run_of_reach ((r5.trans r9).trans r1) sRet fuel (by omega)
  have hmod := open_modelJ rk (j0N rk nonce) nonce ct aad t ((ct.length - t) / 16 + 1) (j0N_length rk nonce) (j0N_bytes rk nonce hnb)
    (j0N_model rk nonce hnb) hcb hab ht htc (fuelNeed_le16 _)
  rw [open_eq_spec (encE_length rk)] at hmod
  unfold runOpen run
  rw [openR_ok]
  simp only [bind, Except.bind]
  rw [hrun, hmod]
  by_cases h0 : orBytes (xorN ((openTagJ rk (j0N rk nonce) ct aad t).take t) (ct.drop (ct.length - t))) = 0
  · rw [if_pos h0] at hres ⊢
    simp only [hres.1, hres.2, lookup_ret]
    have hb : ∀ x ∈ openOutJ rk (j0N rk nonce) ct t ((ct.length - t) / 16 + 1), x < 2 ^ 8 :=
      ladN_bytes _ _ _ _ _ _ _ _ (fun x hx => hcb x (List.mem_of_mem_take hx))
    rw [toNat_toB _ hb]
    rfl
  · rw [if_neg h0] at hres ⊢
    simp only [hres.1, hres.2, lookup_ret]
    rfl

end SMGo.Proofs.ISAVal
#print axioms SMGo.Proofs.ISAVal.openAsm_inplace_run
