import SMGo.Proofs.ISAValFusedPrefix12
set_option linter.unusedSimpArgs false
namespace SMGo.Proofs.ISAVal
open SMGo.Model.ISAVal SMGo.Model.GCM SMGo.Proofs.GCM SMGo.Proofs.ISATouch
open SMGo.Model.ISA (Reg Opd Instr)

theorem toB_padTo16 (x : List Nat) : toB (padTo16 x) = padBlock (toB x) := by
  simp [toB, padTo16, padBlock]

/-- **the GHASH update of the machine code on numbers is the model's `ghUpdate`** (hence, by Props/C06, SP 800-38D's) -/
theorem ghUpdN_eq (hB : Bytes) (y : Nat) (d : List Nat) (hd : ∀ x ∈ d, x < 2 ^ 8) :
    ghUpdN (loadR hB) y d = ghUpdate (hPowers hB) y (toB d) := by
  unfold ghUpdN ghUpdate
  simp only [toB_length]
  have h1 : (if d.length < 16 then y else ghAllN (loadR hB) (d.length / 16) y d)
      = (if d.length < 16 then y else ghBlocks (hPowers hB) y (toB d) (d.length / 16)) := by
    split
    · rfl
    · exact ghAllN_eq hB _ y d hd (by omega)
  rw [h1]
  split
  · rfl
  · have hl : (d.drop (16 * (d.length / 16))).length ≤ 16 := by rw [List.length_drop]; omega
    rw [rb128_loadR _ (padTo16_length _ hl) (by
      intro x hx
      unfold padTo16 at hx
      rw [List.mem_append] at hx
      rcases hx with h' | h'
      · exact hd x (List.mem_of_mem_drop h')
      · rw [List.eq_of_mem_replicate h']; decide), toB_padTo16, toB_drop]
    rfl

end SMGo.Proofs.ISAVal
