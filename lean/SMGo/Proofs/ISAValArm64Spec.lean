/-
  **The arm64 listing of `cryptoBlockAsm` computes the SM4 block function of the specification** — under the
  arm64 value semantics of SMGo/Model/ISAValArm64.lean, which is an UNVALIDATED hand transcription of the Arm ARM
  (no arm64 CPU or emulator in the verification sandbox).  Symbolic execution of the regenerated listing:
  it decodes to prologue ++ 32 × (key load ++ `subRoundX4`) ++ epilogue (`x1_decode`, by evaluation).
-/
import SMGo.Proofs.ISAValArm64X1
namespace SMGo.Proofs.ISAValArm64
open SMGo.Model.ISAValArm64 SMGo.Model.ISA SMGo
open SMGo.Model.ISAVal (lane lanes unlanes Region readMem writeMem lookup regionBase)
open SMGo.Proofs.ISAVal (list16 stepN iterN beWord beBytes Bnd toW foldl_stepN iterN_take beWord_lt ofNat_beWord
  w32Bytes_ofNat getD_lt unlanes_lanes lanes_length drop_take_flatMap)

/-! ### memory -/

theorem regionBase_div (r off : Nat) (h : off < 2 ^ 32) : (regionBase r + off) / 2 ^ 32 = r + 1 := by
  unfold regionBase; omega

theorem regionBase_mod (r off : Nat) (h : off < 2 ^ 32) : (regionBase r + off) % 2 ^ 32 = off := by
  unfold regionBase; omega

/-- a store inside a writable region -/
theorem write_region (mem : List Region) (r : Nat) (name : String) (d : List Nat) (off : Nat) (w : List Nat)
    (hm : mem[r]? = some ⟨name, d, true⟩) (ho : off + w.length ≤ d.length) (hoff : off < 2 ^ 32) :
    writeMem mem (regionBase r + off) w
      = .ok (mem.set r ⟨name, d.take off ++ w ++ d.drop (off + w.length), true⟩) := by
  unfold writeMem
  simp only [regionBase_div r off hoff, regionBase_mod r off hoff, Nat.add_sub_cancel, hm]
  simp [ho]

/-- a load inside a region -/
theorem read_region (mem : List Region) (r : Nat) (reg : Region) (off n : Nat)
    (hm : mem[r]? = some reg) (ho : off + n ≤ reg.bytes.length) (hoff : off < 2 ^ 32) :
    readMem mem (regionBase r + off) n = .ok ((reg.bytes.drop off).take n) := by
  unfold readMem
  simp only [regionBase_div r off hoff, regionBase_mod r off hoff, Nat.add_sub_cancel, hm]
  simp [ho]

/-- the four single-word stores of the epilogue into a 16-byte region -/
theorem write_be4 (mem : List Region) (r : Nat) (name : String) (d : List Nat) (x0 x1 x2 x3 : Nat)
    (hm : mem[r]? = some ⟨name, d, true⟩) (hd : d.length = 16) :
    ∃ m1 m2 m3, writeMem mem (regionBase r) (beBytes x3) = .ok m1 ∧
      writeMem m1 (regionBase r + 4) (beBytes x2) = .ok m2 ∧
      writeMem m2 (regionBase r + 8) (beBytes x1) = .ok m3 ∧
      writeMem m3 (regionBase r + 12) (beBytes x0)
        = .ok (mem.set r ⟨name, beBytes x3 ++ (beBytes x2 ++ (beBytes x1 ++ beBytes x0)), true⟩) := by
  obtain ⟨d0, d1, d2, d3, d4, d5, d6, d7, d8, d9, d10, d11, d12, d13, d14, d15, rfl⟩ := list16 d hd
  have hr : r < mem.length := (List.getElem?_eq_some_iff.mp hm).1
  have hs : ∀ bs, (mem.set r ⟨name, bs, true⟩)[r]? = some ⟨name, bs, true⟩ := fun bs => List.getElem?_set_self hr
  refine ⟨mem.set r ⟨name, beBytes x3 ++ [d4, d5, d6, d7, d8, d9, d10, d11, d12, d13, d14, d15], true⟩,
    mem.set r ⟨name, beBytes x3 ++ (beBytes x2 ++ [d8, d9, d10, d11, d12, d13, d14, d15]), true⟩,
    mem.set r ⟨name, beBytes x3 ++ (beBytes x2 ++ (beBytes x1 ++ [d12, d13, d14, d15])), true⟩, ?_, ?_, ?_, ?_⟩
  · have w := write_region mem r name _ 0 (beBytes x3) hm (by simp [beBytes]) (by decide)
    rw [Nat.add_zero] at w
    rw [w]; simp [beBytes]
  · rw [write_region _ r name _ 4 (beBytes x2) (hs _) (by simp [beBytes]) (by decide), List.set_set]
    simp [beBytes]
  · rw [write_region _ r name _ 8 (beBytes x1) (hs _) (by simp [beBytes]) (by decide), List.set_set]
    simp [beBytes]
  · rw [write_region _ r name _ 12 (beBytes x0) (hs _) (by simp [beBytes]) (by decide), List.set_set]
    simp [beBytes]

/-! ### the specification side -/

/-- what the listing of `cryptoBlockAsm` needs from the entry state -/
structure X1Env (S : State) (rk src : List Nat) (aRk aSrc : Nat) (rDst : Nat) (dst0 : List Nat) : Prop where
  hG : S.gpr.length = 31
  hV : S.vec.length = 32
  sbox : lookup S.syms "SBox" = some 4294967296
  sb0 : readMem S.mem 4294967296 64 = .ok (sbQuarter 0)
  sb1 : readMem S.mem 4294967360 64 = .ok (sbQuarter 1)
  sb2 : readMem S.mem 4294967424 64 = .ok (sbQuarter 2)
  sb3 : readMem S.mem 4294967488 64 = .ok (sbQuarter 3)
  fSrc : lookup S.frame "src" = some aSrc
  srcLt : aSrc + 16 < 2 ^ 64
  srcR : ∀ k, k < 4 → readMem S.mem (aSrc + 4 * k) 4 = .ok ((src.drop (4 * k)).take 4)
  fRk : lookup S.frame "rk" = some aRk
  rkLt : aRk + 4 * 32 < 2 ^ 64
  rkR : ∀ i, i < 32 → readMem S.mem (aRk + 4 * i) 4 = .ok (lanes 8 4 (rk.getD i 0))
  fDst : lookup S.frame "dst" = some (regionBase rDst)
  dstLt : regionBase rDst + 16 < 2 ^ 64
  dstM : S.mem[rDst]? = some ⟨"dst", dst0, true⟩
  dstLen : dst0.length = 16

/-- the body of `cryptoBlockAsm` as a scheme -/
def x1Code : List DInstr := proCode ++ roundsCode 32 ++ epiCode

set_option maxRecDepth 10000 in
/-- the straight-line body on any state that provides `X1Env`: it stores the block function of the
    specification in the destination region -/
theorem x1_body_generic (S : State) (rk : List Nat) (aRk aSrc rDst : Nat) (dst0 : List Nat)
    (s0 s1 s2 s3 s4 s5 s6 s7 s8 s9 s10 s11 s12 s13 s14 s15 : Nat)
    (env : X1Env S rk [s0, s1, s2, s3, s4, s5, s6, s7, s8, s9, s10, s11, s12, s13, s14, s15] aRk aSrc rDst dst0)
    (hrk : rk.length = 32) (hrkb : ∀ x ∈ rk, x < 2 ^ 32)
    (hsb : ∀ x ∈ [s0, s1, s2, s3, s4, s5, s6, s7, s8, s9, s10, s11, s12, s13, s14, s15], x < 2 ^ 8) :
    ∃ s', execList x1Code S = .ok s' ∧
      s'.mem = S.mem.set rDst ⟨"dst", (Spec.SM4.crypt (rk.map (BitVec.ofNat 32))
        ([s0, s1, s2, s3, s4, s5, s6, s7, s8, s9, s10, s11, s12, s13, s14, s15].map UInt8.ofNat)).map (·.toNat), true⟩ := by
  -- prologue
  have r0 := env.srcR 0 (by decide)
  have r1 := env.srcR 1 (by decide)
  have r2 := env.srcR 2 (by decide)
  have r3 := env.srcR 3 (by decide)
  simp only [Nat.mul_zero, Nat.add_zero, Nat.mul_one, Nat.reduceMul, List.drop_succ_cons, List.drop_zero,
    List.take_succ_cons, List.take_zero] at r0 r1 r2 r3
  obtain ⟨s1', hrun1, hr1⟩ := prologue_spec S env.hG env.hV aSrc aRk (regionBase rDst)
    s0 s1 s2 s3 s4 s5 s6 s7 s8 s9 s10 s11 s12 s13 s14 s15 hsb
    env.sbox env.sb0 env.sb1 env.sb2 env.sb3 env.fSrc env.srcLt r0 r1 r2 r3 env.fRk env.fDst
  -- 32 rounds
  obtain ⟨s2', hrun2, hr2⟩ := ready_rounds S.mem S.syms S.frame aRk (regionBase rDst)
    (fun i => lanes 8 4 (rk.getD i 0)) env.rkLt env.rkR
    (fun i _ => by rw [unlanes_lanes]; exact Nat.mod_lt _ (by decide)) _ s1' hr1 32 (Nat.le_refl _)
  have hkw : (fun i => unlanes 8 (lanes 8 4 (rk.getD i 0))) = (fun i => rk.getD i 0) := by
    funext i
    rw [unlanes_lanes]; exact Nat.mod_eq_of_lt (getD_lt rk hrkb i)
  rw [hkw, iterN_take rk _ 32 (by omega), List.take_of_length_le (by omega)] at hr2
  -- the window against the specification
  have hb0 : Bnd (beWord s0 s1 s2 s3, beWord s4 s5 s6 s7, beWord s8 s9 s10 s11, beWord s12 s13 s14 s15) := by
    have h := fun x hx => hsb x hx
    simp only [List.mem_cons, List.not_mem_nil, or_false] at h
    exact ⟨beWord_lt _ _ _ _ (h s0 (by simp)) (h s1 (by simp)) (h s2 (by simp)) (h s3 (by simp)),
      beWord_lt _ _ _ _ (h s4 (by simp)) (h s5 (by simp)) (h s6 (by simp)) (h s7 (by simp)),
      beWord_lt _ _ _ _ (h s8 (by simp)) (h s9 (by simp)) (h s10 (by simp)) (h s11 (by simp)),
      beWord_lt _ _ _ _ (h s12 (by simp)) (h s13 (by simp)) (h s14 (by simp)) (h s15 (by simp))⟩
  obtain ⟨hbX, hWX⟩ := foldl_stepN rk hrkb _ hb0
  generalize hX : rk.foldl stepN (beWord s0 s1 s2 s3, beWord s4 s5 s6 s7, beWord s8 s9 s10 s11, beWord s12 s13 s14 s15) = X at hr2 hbX hWX
  -- epilogue
  obtain ⟨m1, m2, m3, hw0, hw1, hw2, hw3⟩ := write_be4 S.mem rDst "dst" dst0 X.1 X.2.1 X.2.2.1 X.2.2.2 env.dstM env.dstLen
  obtain ⟨s3', hrun3, hmem3⟩ := epilogue_spec S.mem S.syms S.frame _ _ X s2' m1 m2 m3 _ hr2 env.dstLt hw0 hw1 hw2 hw3
  refine ⟨s3', execList_append_ok (execList_append_ok hrun1 hrun2) hrun3, ?_⟩
  rw [hmem3]
  congr 2
  -- the specification, unfolded on the explicit block
  have h := fun x hx => hsb x hx
  simp only [List.mem_cons, List.not_mem_nil, or_false] at h
  have hw0 := ofNat_beWord s0 s1 s2 s3 (h s0 (by simp)) (h s1 (by simp)) (h s2 (by simp)) (h s3 (by simp))
  have hw1 := ofNat_beWord s4 s5 s6 s7 (h s4 (by simp)) (h s5 (by simp)) (h s6 (by simp)) (h s7 (by simp))
  have hw2 := ofNat_beWord s8 s9 s10 s11 (h s8 (by simp)) (h s9 (by simp)) (h s10 (by simp)) (h s11 (by simp))
  have hw3 := ofNat_beWord s12 s13 s14 s15 (h s12 (by simp)) (h s13 (by simp)) (h s14 (by simp)) (h s15 (by simp))
  simp only [Spec.SM4.crypt, List.map_cons, List.map_nil, wordsBE, List.getD_cons_zero, List.getD_cons_succ]
  simp only [toW, hw0, hw1, hw2, hw3] at hWX
  rw [← hWX]
  obtain ⟨xa, xb, xc, xd⟩ := X
  obtain ⟨ha, hb, hc, hd⟩ := hbX
  simp only at ha hb hc hd
  simp only [List.map_append, w32Bytes_ofNat _ ha, w32Bytes_ofNat _ hb, w32Bytes_ofNat _ hc, w32Bytes_ofNat _ hd,
    List.append_assoc]

/-! ### from the straight-line block to the listing -/

/-- the regenerated LISTING (with the specifiers of SMGo/Gen/ListArm64AsmArr.lean) decodes to exactly this scheme
    followed by RET (byte offsets aside) -/
theorem x1_decode :
    (zipDecode Gen.ListArm64Asm.cryptoBlockAsm Gen.ListArm64AsmArr.cryptoBlockAsm_arr).toOption.map
        (fun r => r.map erasePc) = some (x1Code ++ [retI]) := by decide +kernel

theorem x1_noRet : x1Code.all (fun i => i.mn != .RET) = true := by decide +kernel

theorem run_x1 (s s' : State) (h : execList x1Code s = .ok s') :
    run Gen.ListArm64Asm.cryptoBlockAsm Gen.ListArm64AsmArr.cryptoBlockAsm_arr s = .ok s' :=
  run_of_decode _ _ x1Code x1_decode x1_noRet s s' h

/-- the specifier list has one entry per instruction of the listing -/
theorem x1_arr_length :
    Gen.ListArm64AsmArr.cryptoBlockAsm_arr.length = Gen.ListArm64Asm.cryptoBlockAsm.length := by decide +kernel

/-! ### the states of SMGo/Model/ISAValArm64Inst.lean -/

theorem wordsMem_length (rk : List Nat) (hrk : rk.length = 32) : (wordsMem rk).length = 128 := by
  unfold wordsMem
  have : ∀ l : List Nat, (l.flatMap (lanes 8 4)).length = 4 * l.length := by
    intro l
    induction l with
    | nil => rfl
    | cons x xs ih => rw [List.flatMap_cons, List.length_append, ih, lanes_length, List.length_cons]; omega
  rw [this, hrk]

theorem symTab_sbox :
    lookup ((List.range symbols.length).zipWith (fun i (n, _) => (n, regionBase i)) symbols) "SBox" = some 4294967296 := by
  decide +kernel

theorem sbox_len : Gen.AsmData.arm64_SBox.length = 256 := by decide +kernel

theorem read_sbox (mem : List Region) (hm : mem[0]? = some ⟨"SBox", Gen.AsmData.arm64_SBox, false⟩) (q : Nat) (hq : q < 4) :
    readMem mem (4294967296 + 64 * q) 64 = .ok (sbQuarter q) := by
  have := read_region mem 0 _ (64 * q) 64 hm (by simp only [sbox_len]; omega) (by omega)
  rw [show regionBase 0 = 4294967296 from by decide] at this
  exact this

theorem read_rk (mem : List Region) (r : Nat) (rk : List Nat) (hm : mem[r]? = some ⟨"rk", wordsMem rk, false⟩)
    (hrk : rk.length = 32) (i : Nat) (hi : i < 32) :
    readMem mem (regionBase r + 4 * i) 4 = .ok (lanes 8 4 (rk.getD i 0)) := by
  rw [read_region mem r _ (4 * i) 4 hm (by simp only [wordsMem_length rk hrk]; omega) (by omega)]
  simp only [wordsMem]
  rw [drop_take_flatMap (lanes 8 4) 4 (fun x => lanes_length 8 4 x) rk i (by omega)]

theorem arg0 : arg 0 = 17179869184 := by decide
theorem arg1 : arg 1 = 21474836480 := by decide
theorem arg2 : arg 2 = 25769803776 := by decide

def frameTab : List (String × Nat) := [("rk", arg 0), ("dst", arg 1), ("src", arg 2)]
theorem frame_src : lookup frameTab "src" = some (regionBase 5) := by decide +kernel
theorem frame_rk : lookup frameTab "rk" = some (regionBase 3) := by decide +kernel
theorem frame_dst : lookup frameTab "dst" = some (regionBase 4) := by decide +kernel
def frameTabI : List (String × Nat) := [("rk", arg 0), ("dst", arg 1), ("src", arg 1)]
theorem frameI_src : lookup frameTabI "src" = some (regionBase 4) := by decide +kernel
theorem frameI_rk : lookup frameTabI "rk" = some (regionBase 3) := by decide +kernel
theorem frameI_dst : lookup frameTabI "dst" = some (regionBase 4) := by decide +kernel

/-- `kernelState` (dst and src disjoint) provides the environment -/
theorem ks_env (g v rk dst0 src : List Nat) (hg : g.length = 31) (hv : v.length = 32) (hrk : rk.length = 32)
    (hsrc : src.length = 16) (hdst : dst0.length = 16) :
    X1Env (kernelState g v rk dst0 src) rk src (regionBase 3) (regionBase 5) 4 dst0 where
  hG := hg
  hV := hv
  sbox := symTab_sbox
  sb0 := read_sbox _ rfl 0 (by decide)
  sb1 := read_sbox _ rfl 1 (by decide)
  sb2 := read_sbox _ rfl 2 (by decide)
  sb3 := read_sbox _ rfl 3 (by decide)
  fSrc := frame_src
  srcLt := by decide
  srcR := fun k hk => read_region _ 5 ⟨"src", src, false⟩ (4 * k) 4 rfl (by simp only [hsrc]; omega) (by omega)
  fRk := frame_rk
  rkLt := by decide
  rkR := fun i hi => read_rk _ 3 rk rfl hrk i hi
  fDst := frame_dst
  dstLt := by decide
  dstM := rfl
  dstLen := hdst

/-- `kernelStateInPlace` (dst == src) provides the environment -/
theorem ksi_env (g v rk buf : List Nat) (hg : g.length = 31) (hv : v.length = 32) (hrk : rk.length = 32)
    (hbuf : buf.length = 16) :
    X1Env (kernelStateInPlace g v rk buf) rk buf (regionBase 3) (regionBase 4) 4 buf where
  hG := hg
  hV := hv
  sbox := symTab_sbox
  sb0 := read_sbox _ rfl 0 (by decide)
  sb1 := read_sbox _ rfl 1 (by decide)
  sb2 := read_sbox _ rfl 2 (by decide)
  sb3 := read_sbox _ rfl 3 (by decide)
  fSrc := frameI_src
  srcLt := by decide
  srcR := fun k hk => read_region _ 4 ⟨"dst", buf, true⟩ (4 * k) 4 rfl (by simp only [hbuf]; omega) (by omega)
  fRk := frameI_rk
  rkLt := by decide
  rkR := fun i hi => read_rk _ 3 rk rfl hrk i hi
  fDst := frameI_dst
  dstLt := by decide
  dstM := rfl
  dstLen := hbuf

theorem dst_after (g v : List Nat) (mem : List Region) (syms frame : List (String × Nat)) (bs : List Nat)
    (h0 : mem[0]? = some ⟨"SBox", Gen.AsmData.arm64_SBox, false⟩) (h1 : mem[1]? = some ⟨"FK", Gen.AsmData.arm64_FK, false⟩)
    (h2 : mem[2]? = some ⟨"CK", Gen.AsmData.arm64_CK, false⟩) (rk : List Nat) (h3 : mem[3]? = some ⟨"rk", rk, false⟩)
    (h4 : 4 < mem.length) :
    regionBytes ⟨g, v, mem.set 4 ⟨"dst", bs, true⟩, syms, frame⟩ "dst" = some bs := by
  match mem, h0, h1, h2, h3, h4 with
  | m0 :: m1 :: m2 :: m3 :: m4 :: rest, h0, h1, h2, h3, _ =>
    simp only [List.getElem?_cons_zero, List.getElem?_cons_succ, Option.some.injEq] at h0 h1 h2 h3
    subst h0 h1 h2 h3
    simp [regionBytes, List.find?]

/-- **the arm64 listing of `cryptoBlockAsm` computes the SM4 block function of the specification**, for every
    round-key array, every input block, whatever the registers and the destination buffer hold at entry -/
theorem kernelX1_eq_spec (g v rk dst0 src : List Nat)
    (hg : g.length = 31) (hv : v.length = 32) (hrk : rk.length = 32) (hrkb : ∀ x ∈ rk, x < 2 ^ 32)
    (hsrc : src.length = 16) (hsb : ∀ x ∈ src, x < 256) (hdst : dst0.length = 16) :
    runDst Gen.ListArm64Asm.cryptoBlockAsm Gen.ListArm64AsmArr.cryptoBlockAsm_arr (kernelState g v rk dst0 src)
      = .ok ((Spec.SM4.crypt (rk.map (BitVec.ofNat 32)) (src.map UInt8.ofNat)).map (·.toNat)) := by
  have env := ks_env g v rk dst0 src hg hv hrk hsrc hdst
  obtain ⟨s0, s1, s2, s3, s4, s5, s6, s7, s8, s9, s10, s11, s12, s13, s14, s15, rfl⟩ := list16 src hsrc
  obtain ⟨s', hrun, hmem⟩ := x1_body_generic _ rk _ _ _ _ s0 s1 s2 s3 s4 s5 s6 s7 s8 s9 s10 s11 s12 s13 s14 s15
    env hrk hrkb hsb
  unfold runDst
  rw [run_x1 _ s' hrun]
  obtain ⟨g3, v3, m3, sy3, fr3⟩ := s'
  simp only at hmem
  subst hmem
  simp only [ok_bind]
  rw [dst_after g3 v3 _ sy3 fr3 _ rfl rfl rfl _ rfl (by show (4 : Nat) < 6; decide)]
  rfl

/-- **`cryptoBlockAsm` called in place** (`dst == src`, as `Encrypt(b, b)` does): the buffer ends up holding the
    block function of the specification applied to what it held -/
theorem kernelX1_inplace_eq_spec (g v rk buf : List Nat)
    (hg : g.length = 31) (hv : v.length = 32) (hrk : rk.length = 32) (hrkb : ∀ x ∈ rk, x < 2 ^ 32)
    (hbuf : buf.length = 16) (hsb : ∀ x ∈ buf, x < 256) :
    runDst Gen.ListArm64Asm.cryptoBlockAsm Gen.ListArm64AsmArr.cryptoBlockAsm_arr (kernelStateInPlace g v rk buf)
      = .ok ((Spec.SM4.crypt (rk.map (BitVec.ofNat 32)) (buf.map UInt8.ofNat)).map (·.toNat)) := by
  have env := ksi_env g v rk buf hg hv hrk hbuf
  obtain ⟨s0, s1, s2, s3, s4, s5, s6, s7, s8, s9, s10, s11, s12, s13, s14, s15, rfl⟩ := list16 buf hbuf
  obtain ⟨s', hrun, hmem⟩ := x1_body_generic _ rk _ _ _ _ s0 s1 s2 s3 s4 s5 s6 s7 s8 s9 s10 s11 s12 s13 s14 s15
    env hrk hrkb hsb
  unfold runDst
  rw [run_x1 _ s' hrun]
  obtain ⟨g3, v3, m3, sy3, fr3⟩ := s'
  simp only at hmem
  subst hmem
  simp only [ok_bind]
  rw [dst_after g3 v3 _ sy3 fr3 _ rfl rfl rfl _ rfl (by show (4 : Nat) < 5; decide)]
  rfl

end SMGo.Proofs.ISAValArm64

#print axioms SMGo.Proofs.ISAValArm64.kernelX1_eq_spec
#print axioms SMGo.Proofs.ISAValArm64.kernelX1_inplace_eq_spec
