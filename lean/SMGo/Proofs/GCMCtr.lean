/-
  (iv), (v) for the model of `cryptoBlocksAsm`: the lane counters are `inc32` iterated (with the wrap
  of the low 32-bit word), and the length-class schedule 256/128/64/32/16/tail computes GCTR of
  SP 800-38D for every input length.
-/
import SMGo.Proofs.GCMSpec
import SMGo.Model.GCMAlgo
namespace SMGo.Proofs.GCM
open SMGo
open SMGo.Spec.GCM
open SMGo.Model.GCM

/-! ### (iv) lane counters -/

/-- the 32-bit lane addition of `fillCounterXn` is the counter arithmetic of the specification -/
theorem laneAdd_eq (j k : Nat) : laneAdd j k = ctrAdd j k := rfl

/-- lane `k` of the code is `inc32` applied `k` times to J0, for every `k` (wrap included) -/
theorem laneAdd_eq_inc32_iterate (j k : Nat) : laneAdd j k = Nat.repeat inc32 k j := by
  rw [inc32_iterate]; rfl

theorem stream_eq_flatMap (E : Bytes → Bytes) (c n : Nat) :
    stream E c n = (List.range n).flatMap (fun i => E (natToBlock (ctrAdd c i))) := by
  induction n with
  | zero => rfl
  | succ n ih =>
    rw [stream_add, ih, List.range_succ, List.flatMap_append, stream, stream, List.append_nil]
    simp

/-- the key stream of an `n`-block kernel is the specification's stream starting at inc32(J) -/
theorem keyStream_eq (E : Bytes → Bytes) (j n : Nat) : keyStream E j n = stream E (ctrAdd j 1) n := by
  rw [stream_eq_flatMap]
  unfold keyStream
  have : (fun i => E (natToBlock (laneAdd j (i + 1)))) = (fun i => E (natToBlock (ctrAdd (ctrAdd j 1) i))) := by
    funext i
    rw [laneAdd_eq, ctrAdd_ctrAdd, Nat.add_comm]
  rw [this]

theorem keyStream_length {E : Bytes → Bytes} (hE : ∀ b, (E b).length = 16) (j n : Nat) :
    (keyStream E j n).length = 16 * n := by
  rw [keyStream_eq, stream_length hE]

/-! ### (v) the length-class schedule -/

/-- number of blocks of the next kernel, by the remaining length -/
def classOf (len : Nat) : Nat :=
  if len ≥ 256 then 16 else if len ≥ 128 then 8 else if len ≥ 64 then 4
  else if len ≥ 32 then 2 else if len ≥ 16 then 1 else 0

theorem class_facts (len : Nat) :
    (classOf len ≠ 0 → 16 * classOf len ≤ len) ∧ (classOf len = 0 → len < 16) ∧
    (classOf len = 16 ∨ classOf len = 8 ∨ classOf len = 4 ∨ classOf len = 2 ∨ classOf len = 1 ∨ classOf len = 0) := by
  unfold classOf
  (repeat' split) <;> omega

/-- one iteration of the schedule, with the pairs projected -/
theorem cryptoBlocksAux_succ (E : Bytes → Bytes) (hp : HPow) (hf : Bool) (fuel j y : Nat) (src : Bytes) :
    cryptoBlocksAux E hp hf (fuel + 1) j y src =
      if classOf src.length ≠ 0 then
        ((classStep E hp hf (classOf src.length) j y src).1 ++
          (cryptoBlocksAux E hp hf fuel (laneAdd j (classOf src.length))
            (classStep E hp hf (classOf src.length) j y src).2 (src.drop (16 * classOf src.length))).1,
         (cryptoBlocksAux E hp hf fuel (laneAdd j (classOf src.length))
            (classStep E hp hf (classOf src.length) j y src).2 (src.drop (16 * classOf src.length))).2)
      else if src.length = 0 then ([], y)
      else
        ((xorBytes (padBlock src) (E (natToBlock (laneAdd j 1)))).take src.length,
         if hf then ghStep1 hp.h y (padBlock ((xorBytes (padBlock src) (E (natToBlock (laneAdd j 1)))).take src.length))
         else y) := by
  rw [cryptoBlocksAux]
  rfl

theorem xorBytes_take_right_of_le (x k : Bytes) (n : Nat) (h : x.length ≤ n) :
    xorBytes x (k.take n) = xorBytes x k := by
  by_cases hk : n ≤ k.length
  · conv => rhs; rw [← List.take_append_drop n k]
    rw [xorBytes_append_right_of_le]
    rw [List.length_take]; omega
  · rw [List.take_of_length_le (by omega)]

/-- the 1..15-byte tail through the zero-padded scratch block -/
theorem tail_eq (src k : Bytes) :
    (xorBytes (padBlock src) k).take src.length = xorBytes src k := by
  rw [xorBytes_take]
  unfold padBlock
  rw [List.take_left, xorBytes_take_right_of_le _ _ _ (Nat.le_refl _)]

theorem classStep_fst {E : Bytes → Bytes} (hp : HPow) (hf : Bool) (n j y : Nat) (src : Bytes) :
    (classStep E hp hf n j y src).1 = xorBytes (src.take (16 * n)) (stream E (ctrAdd j 1) n) := by
  rw [classStep, keyStream_eq]

theorem classStep_fst_length {E : Bytes → Bytes} (hE : ∀ b, (E b).length = 16) (hp : HPow) (hf : Bool)
    (n j y : Nat) (src : Bytes) (h : 16 * n ≤ src.length) : (classStep E hp hf n j y src).1.length = 16 * n := by
  rw [classStep_fst, xorBytes_length, stream_length hE, List.length_take]; omega

/-- the bytes `cryptoBlocksAsm` writes: the xor of the input with the key stream E(J+1) ‖ E(J+2) ‖ … -/
theorem cryptoBlocksAux_fst {E : Bytes → Bytes} (hE : ∀ b, (E b).length = 16) (hp : HPow) (hf : Bool) :
    ∀ (fuel j y : Nat) (src : Bytes) (N : Nat), src.length < 16 * fuel → src.length ≤ 16 * N →
      (cryptoBlocksAux E hp hf fuel j y src).1 = xorBytes src (stream E (ctrAdd j 1) N) := by
  intro fuel
  induction fuel with
  | zero => intro j y src N h; omega
  | succ fuel ih =>
    intro j y src N hfuel hN
    rw [cryptoBlocksAux_succ]
    obtain ⟨h1, h2, _⟩ := class_facts src.length
    generalize classOf src.length = n at *
    by_cases hn0 : n = 0
    · have hlt := h2 hn0
      rw [if_neg (by simpa using hn0)]
      by_cases hl0 : src.length = 0
      · rw [if_pos hl0]
        have : src = [] := List.length_eq_zero_iff.mp hl0
        simp [this]
      · rw [if_neg hl0]
        dsimp only
        rw [tail_eq, laneAdd_eq]
        rw [xorBytes_stream_mono hE src _ 1 N (by omega) (by omega)]
        rw [stream, stream, List.append_nil]
    · have hle := h1 hn0
      rw [if_pos hn0]
      have hNn : n ≤ N := by omega
      dsimp only
      rw [ih (laneAdd j n) _ (src.drop (16 * n)) (N - n)
        (by rw [List.length_drop]; omega) (by rw [List.length_drop]; omega)]
      have hN2 : N = n + (N - n) := by omega
      conv => rhs; rw [hN2, stream_add, xorBytes_append_right, stream_length hE]
      rw [classStep_fst, laneAdd_eq, ctrAdd_ctrAdd, ctrAdd_ctrAdd, Nat.add_comm n 1]

/-- (v) for every input length the schedule of `cryptoBlocksAsm` writes GCTR_K(inc32(J), input) -/
theorem cryptoBlocks_fst {E : Bytes → Bytes} (hE : ∀ b, (E b).length = 16) (hp : HPow) (hf : Bool)
    (j y : Nat) (src : Bytes) : (cryptoBlocks E hp hf j y src).1 = gctr E (inc32 j) src := by
  unfold cryptoBlocks
  rw [cryptoBlocksAux_fst hE hp hf _ j y src (src.length / 16 + 1) (by omega) (by omega)]
  rw [gctr_eq_xor hE _ src (src.length / 16 + 1) (by omega), inc32_eq_ctrAdd]

/-- without `hashFlag` the running GHASH value is untouched -/
theorem cryptoBlocksAux_snd_false (E : Bytes → Bytes) (hp : HPow) :
    ∀ (fuel j y : Nat) (src : Bytes), (cryptoBlocksAux E hp false fuel j y src).2 = y := by
  intro fuel
  induction fuel with
  | zero => intro j y src; rfl
  | succ fuel ih =>
    intro j y src
    rw [cryptoBlocksAux_succ]
    split
    · dsimp only
      rw [ih]
      rfl
    · split <;> rfl

end SMGo.Proofs.GCM
